/-
C02, execution half — F3: lazy parameters. `force` on a lazy argument object against `Ref.force`
on the thunk: the expression is compiled at force time, runs as a helper function on the captured
stack (the live stack set aside on `suspended`), the control state is restored and the value is
memoised — on both sides in the same table slot.
-/
import ZygoVerif.Proofs.SimF2
set_option linter.unusedSimpArgs false
set_option linter.unusedVariables false
namespace ZygoVerif.Sim
open ZygoVerif.Core ZygoVerif.VM

/-! ## The machine: `force` as a builtin -/

/-- the helper function `Force` makes for the expression of a lazy argument -/
def forceFn (lz : LazyObj) (code : List Instr) : FnObj :=
  { name := "lazyArgForce", code := code ++ [.ret], closing := lz.stack, parent := some lz.curfunc }

/-- the state in which the expression of a lazy argument starts: helper registered, the live stack set
aside, the captured stack current, `CallFunction` done -/
def inForce (s : St) (lz : LazyObj) (code : List Instr) : St :=
  { s with fns := s.fns ++ [forceFn lz code], suspended := s.linear :: s.suspended, linear := lz.stack,
           addr := some (s.curfunc, -1) :: s.addr, curfunc := s.fns.length, pc := 0 }

/-- the memo of lazy argument `id` set -/
def memoSet (s : St) (id : Nat) (lz : LazyObj) (v : Val) : St :=
  { s with lazies := s.lazies.set id ({ lz with value := some v } : LazyObj) }

theorem fnOf_inForce_self (s : St) (lz : LazyObj) (code : List Instr) :
    fnOf (inForce s lz code) (inForce s lz code).curfunc = forceFn lz code := by
  show (s.fns ++ [forceFn lz code]).getD s.fns.length {} = _
  simp

theorem fnOf_inForce_old (s : St) (lz : LazyObj) (code : List Instr) (id : Nat) (hid : id < s.fns.length) :
    fnOf (inForce s lz code) id = fnOf s id := by
  show (s.fns ++ [forceFn lz code]).getD id {} = s.fns.getD id {}
  simp only [List.getD_eq_getElem?_getD, List.getElem?_append_left hid]

theorem seg_inForce (s : St) (lz : LazyObj) (code : List Instr) : Seg (inForce s lz code) [] code [.ret] :=
  ⟨by rw [fnOf_inForce_self]; rfl, by rw [fnOf_inForce_self]; rfl, rfl⟩

theorem run_restore_ok (c : CtlState) (s : St) : (restore c).run s = (.ok (), ((restore c).run s).2) := by
  unfold restore; rw [run_modify]

/-- `Force` of a lazy argument that has no memo: compile, register the helper, set the live stack aside,
run on the captured stack, restore, memoise -/
theorem forceLazy_run (fuel id : Nat) (s0 s : St) (lz : LazyObj) (code : List Instr) (t : Bool)
    (hl : s0.lazies[id]? = some lz) (hv : lz.value = none)
    (hgen : (runGen (compile (isFnScope s0) {} lz.e)).run s0 = (.ok (code, t), s)) (hne : code ≠ []) :
    (forceLazy (fuel + 2) id).run s0 =
      match (run fuel).run (inForce s lz code) with
      | (.ok v, s') => (.ok v, memoSet ((restore (capOf s)).run s').2 id lz v)
      | (.error .err, s') => (.error .err, ((restore (capOf s)).run s').2)
      | (.error flt, s') => (.error flt, s') := by
  rw [forceLazy]
  have hemp : code.isEmpty = false := by simpa [List.isEmpty_eq_false_iff] using hne
  simp only [run_bind, run_get, hl, hv, hgen, hemp, Bool.false_eq_true, if_false, run_capture, run_mkFunction, run_modify]
  rw [nested]
  simp only [run_bind, run_get]
  have hcf : (callFunction s.fns.length 0).run
      { s with fns := s.fns ++ [forceFn lz code], suspended := s.linear :: s.suspended, linear := lz.stack, pc := -2 }
        = (.ok (), inForce s lz code) := by
    rw [run_callFunction0]
    · rfl
    · show ((s.fns ++ [forceFn lz code]).getD s.fns.length {}).varargs = false
      simp [forceFn]
    · show ((s.fns ++ [forceFn lz code]).getD s.fns.length {}).nargs = 0
      simp [forceFn]
  have hfo : ({ name := "lazyArgForce", code := code ++ [Instr.ret], closing := lz.stack, parent := some lz.curfunc } : FnObj)
      = forceFn lz code := rfl
  simp only [hfo]
  have hst : ({ s with fns := s.fns ++ [forceFn lz code], suspended := s.linear :: s.suspended, linear := lz.stack, pc := -2 } : St)
      = { s with fns := s.fns ++ [forceFn lz code], suspended := s.linear :: s.suspended, linear := lz.stack, pc := -2 } := rfl
  simp only [run_bind, hcf]
  rcases hrun : (run fuel).run (inForce s lz code) with ⟨r, s'⟩
  cases r with
  | ok v =>
    simp only [run_set, run_bind, run_pure]
    rw [run_restore_ok]
    simp only [run_modify, run_pure]
    rfl
  | error flt =>
    cases flt with
    | err =>
      simp only [run_set, run_bind, run_throw]
      rw [run_restore_ok]
      rfl
    | panic => simp only [run_set, run_bind, run_throw]
    | timeout => simp only [run_set, run_bind, run_throw]

theorem forceLazy_memo (fuel id : Nat) (s0 : St) (lz : LazyObj) (v : Val)
    (hl : s0.lazies[id]? = some lz) (hv : lz.value = some v) : (forceLazy (fuel + 1) id).run s0 = (.ok v, s0) := by
  rw [forceLazy]
  simp only [run_bind, run_get, hl, hv, run_pure]

theorem forceLazy_none (fuel id : Nat) (s0 : St) (hl : s0.lazies[id]? = none) :
    (forceLazy (fuel + 1) id).run s0 = (.error .err, s0) := by
  rw [forceLazy]
  simp only [run_bind, run_get, hl, run_err]

/-- `restoreControlState` after a force: the live stack comes back from `suspended` -/
theorem run_restore_force (c : CtlState) (s : St) (lin : List (Option Nat)) (susp : List (List (Option Nat)))
    (hs : s.suspended = lin :: susp) (hsl : susp.length = c.susp)
    (ha : s.addr.length = c.addrSize) (hl : lin.length = c.linearSize) (hd : s.data.length = c.dataSize) :
    (restore c).run s = (.ok (), { s with linear := lin, suspended := susp, curfunc := c.curfunc, pc := c.pc }) := by
  unfold restore
  rw [run_modify]
  have hgt : s.suspended.length > c.susp := by rw [hs]; simp; omega
  have h1 : s.suspended.length - c.susp - 1 = 0 := by rw [hs]; simp; omega
  have h2 : s.suspended.length - c.susp = 1 := by rw [hs]; simp; omega
  simp only [hgt, if_true, h1, h2, ← ha, ← hl, ← hd, truncate_self]
  rw [hs]
  simp only [Nat.sub_self, List.getD_cons_zero, List.drop_succ_cons, List.drop_zero, truncate_self]

/-- `force` among the Go builtins -/
theorem run_builtin_force (fuel : Nat) (args : List Val) (s : St) :
    (builtin (fuel + 1) "force" args).run s =
      match args with
      | [.lazy id] => (forceLazy fuel id).run s
      | [v] => (.ok v, s)
      | _ => (.error .err, s) := by
  rw [builtin.eq_def]
  simp only []
  rw [if_neg (show ¬ "force" = "trace" by decide), if_neg (show ¬ "force" = "probe" by decide), if_pos True.intro]
  rcases args with _ | ⟨a, _ | ⟨b, r⟩⟩
  · rfl
  · cases a <;> rfl
  · cases a <;> rfl

/-- `CallUserFunction` up to the Go builtin: arguments popped, control state captured, return address pushed -/
theorem run_callUser_pre (f : Nat) (name : String) (args : List Val) (D : List (Option Val)) (s : St)
    (hd : s.data = args.reverse.map some ++ D) :
    (callUser (f + 1) name args.length).run s =
      match (builtin f name args).run (inBuiltin s D) with
      | (.ok v, s3) =>
        (if s3.addr.length > s.addr.length then
          (match s3.addr with
            | some (fn, pc) :: rest => set { s3 with data := some v :: s3.data, addr := rest, curfunc := fn, pc := pc }
            | _ => hostPanic)
          else set { s3 with data := some v :: s3.data, curfunc := s.curfunc, pc := s.pc + 1 } : M Unit).run
            { s3 with data := some v :: s3.data }
      | (.error .timeout, s3) => (.error .timeout, s3)
      | (.error _, s3) => (.error .err, ((restore (capPopped s D)).run s3).2) := by
  rw [callUser]
  have hnlt : ¬ s.data.length < args.length := by rw [hd]; simp
  have hnone : ((s.data.take args.length).any Option.isNone) = false := by
    have hlen : (args.reverse.map some).length = args.length := by simp
    rw [hd, ← hlen, List.take_left]
    simp
  simp only [run_bind, run_get, run_ite, if_neg hnlt, hnone, Bool.false_eq_true, if_false, run_pure,
    run_popN args D s hd]
  simp only [run_capture, run_modify, run_set]
  simp only [inBuiltin]
  generalize ExceptT.run (builtin f name args) _ = res
  obtain ⟨e | v, s3⟩ := res
  · cases e with
    | err => simp only [run_bind, run_throw]; rw [run_restore_ok]; rfl
    | panic => simp only [run_bind, run_throw]; rw [run_restore_ok]; rfl
    | timeout => simp only [run_throw]
  · simp only [run_bind, run_pushData, run_get, capOf, run_set]
    by_cases hc : s3.addr.length > s.addr.length
    · simp only [hc, if_true]
      rcases hA : s3.addr with _ | ⟨_ | ⟨fn, pc⟩, rest⟩ <;> rfl
    · simp only [hc, if_false, run_set]

/-- the Go builtin returned a value and left the return address in place -/
theorem run_callUser_ok (f : Nat) (name : String) (args : List Val) (D : List (Option Val)) (s s3 : St) (v : Val)
    (hd : s.data = args.reverse.map some ++ D)
    (hb : (builtin f name args).run (inBuiltin s D) = (.ok v, s3))
    (ha : s3.addr = some (s.curfunc, s.pc + 1) :: s.addr) :
    (callUser (f + 1) name args.length).run s =
      (.ok (), { s3 with data := some v :: s3.data, addr := s.addr, curfunc := s.curfunc, pc := s.pc + 1 }) := by
  rw [run_callUser_pre f name args D s hd, hb]
  simp only [ha, List.length_cons, gt_iff_lt, Nat.lt_succ_self, if_true, run_set]

theorem run_callUser_err (f : Nat) (name : String) (args : List Val) (D : List (Option Val)) (s s3 : St)
    (hd : s.data = args.reverse.map some ++ D)
    (hb : (builtin f name args).run (inBuiltin s D) = (.error .err, s3)) :
    (callUser (f + 1) name args.length).run s = (.error .err, ((restore (capPopped s D)).run s3).2) := by
  rw [run_callUser_pre f name args D s hd, hb]

/-! ## The relation inside and after a force -/

/-- the top segment of a chained stack names scopes not above where it starts -/
theorem chain_ttb_le {isFn : Nat → Bool} {frames : List Ref.Frame} :
    ∀ {k env lin}, ChainF isFn frames k env lin → ∀ i, some i ∈ Scope.takeToBoundary isFn lin → i ≤ env := by
  intro k env lin h
  induction h with
  | root fr hf hp hfl0 =>
    intro i hi
    have e : Scope.isFnElem isFn (some 0) = false := hfl0
    simp only [Scope.takeToBoundary, e, Bool.false_eq_true, if_false, List.mem_cons, Option.some.injEq, List.not_mem_nil,
      or_false] at hi
    omega
  | cons k env p fr rest hf hp hlt hfl0 _ ih =>
    intro i hi
    have e : Scope.isFnElem isFn (some env) = false := hfl0
    simp only [Scope.takeToBoundary, e, Bool.false_eq_true, if_false, List.mem_cons, Option.some.injEq] at hi
    rcases hi with hi | hi
    · omega
    · have := ih i hi; omega
  | fn env p fr below hf hp hlt hfl0 =>
    intro i hi
    have e : Scope.isFnElem isFn (some env) = true := hfl0
    simp only [Scope.takeToBoundary, e, if_true, List.mem_cons, Option.some.injEq, List.not_mem_nil, or_false] at hi
    omega

/-- **Inside a force** the relation holds in the frame where the thunk was made: the captured stack is
the static chain of that frame, and the helper's closing stack is that very stack -/
theorem relF_inForce {m : Nat → Nat} {s : St} {rs : Ref.St} {env : Nat} (h : RelF m s rs env)
    {lz : LazyObj} {th : Ref.Thunk} (hlz : LzOk m s rs lz th) (hval : lz.value = none) (code : List Instr) :
    RelF m (inForce s lz code) rs th.env := by
  obtain ⟨k0, hc0, hfc0⟩ := h.ctx
  obtain ⟨_, _, hel, hb, k, hc, hfc⟩ := hlz.todo hval
  have hk : FnsKeep s (inForce s lz code) :=
    FnsKeep.of_eq (by show s.fns.length ≤ (s.fns ++ [_]).length; simp) (fun id hid => fnOf_inForce_old s lz code id hid)
      (by have := fns_ne_nil_of_lt hfc0.lt; cases hs : s.fns with | nil => exact absurd hs this | cons _ _ => simp [mainFn])
  have hgood : ∀ j, GoodFn m s rs j → GoodFn m (inForce s lz code) rs j := fun j hg =>
    hg.mono hk (Nat.le_refl _) (fun _ _ => rfl) (RExt.refl rs) rfl
  have hold : FnChainF (inForce s lz code) rs.frames lz.stack k lz.curfunc :=
    hfc.transfer (s := s) (s' := inForce s lz code) (frames' := rs.frames) rs.frames.length (fun _ _ => rfl)
      (fun i fr hf => ⟨fr, hf, rfl⟩) hk (Nat.le_of_eq h.len) (Nat.le_refl _)
      (fun e he => Nat.lt_trans (hc.k_lt e he) hc.lt) rfl
  refine ⟨h.len, h.vars, h.root0, h.par, hb, ⟨k, hc, ?_⟩, ?_, h.heap, h.trace, h.globals,
    fun i x v hv => ValIn.mono (h.vok i x v hv) hgood, HeapIn.mono h.hok hgood,
    h.lz.mono hk (Nat.le_refl _) (fun _ _ => rfl) (RExt.refl rs) (fun _ _ => rfl)⟩
  · refine FnChainF.sfx lz.stack k _ lz.curfunc (by show s.fns.length < (s.fns ++ [_]).length; simp) ?_ hfc.lt ?_ ?_ hold
    · rw [fnOf_inForce_self]; rfl
    · rw [fnOf_inForce_self]
      intro i hi
      exact Nat.lt_of_le_of_lt (chain_ttb_le hc i hi) hel
    · rw [fnOf_inForce_self]
      exact ⟨[], rfl⟩
  · intro i hi
    obtain ⟨t, h1, h2⟩ := h.fscopes i hi
    have ht : t < s.fns.length := by
      rcases Nat.lt_or_ge t s.fns.length with ht | ht
      · exact ht
      · have : fnOf s t = {} := by simp [fnOf, List.getD_eq_getElem?_getD, List.getElem?_eq_none ht]
        rw [this] at h2; cases h2
    exact ⟨t, h1, by rw [fnOf_inForce_old s lz code t ht]; exact h2⟩

/-- the reference state with the memo of thunk `id` set -/
def memoSetR (rs : Ref.St) (id : Nat) (th : Ref.Thunk) (v : Val) : Ref.St :=
  { rs with thunks := rs.thunks.set id { th with value := some v } }

/-- **Memoising**: the value goes into the same slot of both tables -/
theorem RelF.memo {m s rs env} (h : RelF m s rs env) {id : Nat} {lz : LazyObj} {th : Ref.Thunk} {v : Val}
    (hv : VOk m s rs v) :
    RelF m (memoSet s id lz v) (memoSetR rs id th (trf m v)) env := by
  obtain ⟨k, hc, hfc⟩ := h.ctx
  have hk : FnsKeep s (memoSet s id lz v) := FnsKeep.of_fns_eq rfl
  have hr : RExt rs (memoSetR rs id th (trf m v)) := ⟨fun i fr hf => ⟨fr, hf, rfl⟩, fun _ _ hc' => hc'⟩
  have hgood : ∀ j, GoodFn m s rs j → GoodFn m (memoSet s id lz v) (memoSetR rs id th (trf m v)) j := fun j hg =>
    hg.mono hk (Nat.le_refl _) (fun _ _ => rfl) hr rfl
  refine ⟨h.len, h.vars, h.root0, h.par, h.bottom, ⟨k, hc, ?_⟩, h.fscopes, h.heap, h.trace, h.globals,
    fun i x w hw => ValIn.mono (h.vok i x w hw) hgood, HeapIn.mono h.hok hgood, ?_, ?_⟩
  · exact hfc.transfer (s := s) (s' := memoSet s id lz v) (frames' := rs.frames) rs.frames.length (fun _ _ => rfl)
      (fun i fr hf => ⟨fr, hf, rfl⟩) hk (Nat.le_of_eq h.len) (Nat.le_refl _) (fun q hq => Nat.lt_trans (hc.k_lt q hq) hc.lt) rfl
  · show (s.lazies.set id _).length = (rs.thunks.set id _).length
    simp [h.lz.1]
  · intro j lz' hl
    have hl' : (s.lazies.set id ({ lz with value := some v } : LazyObj))[j]? = some lz' := hl
    by_cases hj : id = j
    · subst hj
      have hlt : id < s.lazies.length := by
        have := lt_of_getElem?_some hl'; simpa using this
      rw [List.getElem?_set_self hlt] at hl'
      injection hl' with hl'
      subst hl'
      refine ⟨{ th with value := some (trf m v) }, ?_, ⟨rfl, ?_, fun hn => by cases hn⟩⟩
      · show (rs.thunks.set id _)[id]? = _
        rw [List.getElem?_set_self (by rw [← h.lz.1]; exact hlt)]
      · intro w hw
        injection hw with hw
        subst hw
        exact ValIn.mono hv hgood
    · rw [List.getElem?_set_ne hj] at hl'
      obtain ⟨th', h1, h2⟩ := h.lz.2 j lz' hl'
      refine ⟨th', ?_, h2.mono hk (Nat.le_refl _) (fun _ _ => rfl) hr (fun _ _ => rfl)⟩
      show (rs.thunks.set id _)[j]? = some th'
      rw [List.getElem?_set_ne hj]; exact h1

/-! ## `Force` against `Ref.force` -/

theorem ref_applyFn_force (k : Nat) (vs : List Val) (rs : Ref.St) :
    Ref.applyFn (k + 1) (.builtin "force") vs rs =
      match vs with
      | [.lazy id] => Ref.force k id rs
      | [v] => .ok v rs
      | _ => .err rs := by
  rw [Ref.applyFn.eq_def]
  simp only []
  rw [if_neg (show ¬ "force" = "trace" by decide), if_neg (show ¬ "force" = "probe" by decide), if_pos True.intro]
  rcases vs with _ | ⟨a, _ | ⟨b, r⟩⟩
  · rfl
  · cases a <;> rfl
  · cases a <;> rfl

/-- the state `Force` leaves inside the builtin frame, before the memo is set -/
def afterForce (s s4 : St) (D : List (Option Val)) : St :=
  { s4 with addr := some (s.curfunc, s.pc + 1) :: s.addr, curfunc := builtinFn, pc := -1, data := D,
            linear := s.linear, suspended := s.suspended }

/-- **A computation of a Go builtin** (`run`: its result from the state inside the builtin frame of a related
state `s`, the arguments popped, `D` below them) against a result of the reference evaluator: with enough fuel
it returns the related value inside the builtin frame of a related state `s'` — control of `s'` as in `s` —, or
fails with the same trace. -/
def BOk (m : Nat → Nat) (s : St) (rs : Ref.St) (env : Nat) (D : List (Option Val)) (run : Nat → Except Fault Val × St)
    (res : Ref.R Val) : Prop :=
  match res with
  | .ok v' rs' => ∃ (M : Nat) (s' : St) (m' : Nat → Nat) (v : Val),
      (∀ fuel, M ≤ fuel → run fuel = (.ok v, inBuiltin s' D))
      ∧ s'.pc = s.pc ∧ v' = trf m' v ∧ RelF m' s' rs' env
      ∧ MExt s m m' ∧ RExt rs rs' ∧ FrameF s s' ∧ VOk m' s' rs' v
  | .err rs' => ∃ M, ∀ fuel, M ≤ fuel → ∃ se, run fuel = (.error .err, se) ∧ se.trace = rs'.trace
  | .timeout => True
  | .brk _ _ => False
  | .cont _ _ => False

theorem force_sim {k : Nat} (hlow : ∀ j, j < k → FClaimE j) {m : Nat → Nat} {s : St} {rs : Ref.St} {env : Nat}
    (hrel : RelF m s rs env) (id : Nat) (D : List (Option Val)) :
    BOk m s rs env D (fun fuel => (forceLazy fuel id).run (inBuiltin s D)) (Ref.force k id rs) := by
  cases k with
  | zero => rw [Ref.force]; trivial
  | succ j =>
  rw [Ref.force]
  cases ht : rs.thunks[id]? with
  | none =>
    have hl : (inBuiltin s D).lazies[id]? = none := by
      show s.lazies[id]? = none
      rw [List.getElem?_eq_none_iff] at ht ⊢
      rw [hrel.lz.1]; exact ht
    refine ⟨1, fun fuel hf => ?_⟩
    obtain ⟨f, rfl⟩ : ∃ f, fuel = f + 1 := ⟨fuel - 1, by omega⟩
    exact ⟨_, forceLazy_none f id _ hl, hrel.trace⟩
  | some th =>
    have hidlt : id < s.lazies.length := by rw [hrel.lz.1]; exact lt_of_getElem?_some ht
    obtain ⟨lz, hlzs⟩ : ∃ lz, s.lazies[id]? = some lz := ⟨s.lazies[id], List.getElem?_eq_getElem hidlt⟩
    obtain ⟨th', ht', hlz⟩ := hrel.lz.2 id lz hlzs
    rw [ht] at ht'
    injection ht' with ht'
    subst ht'
    have hlB : (inBuiltin s D).lazies[id]? = some lz := hlzs
    simp only
    cases hval : lz.value with
    | some v =>
      have htv : th.value = some (trf m v) := by rw [hlz.val, hval]; rfl
      rw [htv]
      refine ⟨1, s, m, v, fun fuel hf => ?_, rfl, rfl, hrel, MExt.refl s m, RExt.refl rs, FrameF.refl s, hlz.vok v hval⟩
      obtain ⟨f, rfl⟩ : ∃ f, fuel = f + 1 := ⟨fuel - 1, by omega⟩
      exact forceLazy_memo f id _ lz v hlB hval
    | none =>
      have htv : th.value = none := by rw [hlz.val, hval]; rfl
      obtain ⟨hthe, hexpr, _⟩ := hlz.todo hval
      rw [htv]
      simp only
      have hev : Ref.eval j th.e th.env rs = Ref.eval j lz.e th.env rs := by rw [hthe]
      rw [hev]
      -- the expression is compiled now
      obtain ⟨code, t, gs', hc, hne, hk⟩ := compile_total_Ff false "" lz.e hexpr (isFnScope (inBuiltin s D)) {}
        { fns := s.fns, loops := s.loops, loopstack := s.loopstack, live := s.linear } (Or.inl rfl)
      have hfns : gs'.fns = s.fns := hk.2 rfl
      have hgen : (runGen (compile (isFnScope (inBuiltin s D)) {} lz.e)).run (inBuiltin s D)
          = (.ok (code, t), withLoops (inBuiltin s D) gs') :=
        run_runGen_any _ (inBuiltin s D) _ gs' hc hfns
      -- `sL`: the caller's state with the loop records the generator may have added
      have hleL : LoopsExt s (withLoops s gs') := ⟨hk.1.loopsLen, hk.1.loopsGet⟩
      have hkL : FnsKeep s (withLoops s gs') := FnsKeep.of_fns_eq rfl hleL
      have relL : RelF m (withLoops s gs') rs env :=
        hrel.of_same rfl rfl rfl rfl rfl rfl hrel.heap hrel.trace hrel.hok hleL
      have hlzL : LzOk m (withLoops s gs') rs lz th :=
        hlz.mono hkL (Nat.le_refl _) (fun _ _ => rfl) (RExt.refl rs) (fun _ _ => rfl)
      have relIn : RelF m (inForce (withLoops (inBuiltin s D) gs') lz code) rs th.env :=
        (relF_inForce relL hlzL hval code).of_same rfl rfl rfl rfl rfl rfl (relF_inForce relL hlzL hval code).heap
          (relF_inForce relL hlzL hval code).trace (relF_inForce relL hlzL hval code).hok
      have hseg := seg_inForce (withLoops (inBuiltin s D) gs') lz code
      have hsim := hlow j (Nat.lt_succ_self j) false "" lz.e hexpr (isFnScope (inBuiltin s D)) {} _ ((code, t), _) hc
        (Or.inl rfl) m (inForce (withLoops (inBuiltin s D) gs') lz code) rs th.env [] [.ret] relIn (fun h => by cases h) hseg
      have hunf := fun fuel => forceLazy_run fuel id (inBuiltin s D) (withLoops (inBuiltin s D) gs') lz code t hlB hval hgen hne
      cases hres : Ref.eval j lz.e th.env rs with
      | ok v' rs' =>
        rw [hres] at hsim
        obtain ⟨s4, m4, v, r, l, hv, rel4, hm4, ext4, fr4, hcl4⟩ := hsim
        have ha4 : s4.addr = some (builtinFn, -1) :: some (s.curfunc, s.pc + 1) :: s.addr := fr4.addr
        obtain ⟨M, hM⟩ := run_helper_ok hseg r l ha4
        have hres5 := run_restore_force (capOf (withLoops (inBuiltin s D) gs'))
          { s4 with addr := some (s.curfunc, s.pc + 1) :: s.addr, curfunc := builtinFn, pc := -1,
                    data := (inForce (withLoops (inBuiltin s D) gs') lz code).data }
          s.linear s.suspended (by show s4.suspended = _; rw [fr4.susp]; rfl) rfl rfl rfl rfl
        have hfl : s.fns.length ≤ s4.fns.length :=
          Nat.le_trans (by show s.fns.length ≤ (s.fns ++ [_]).length; simp) fr4.fnsLen
        have hfo : ∀ id, id < s.fns.length → fnOf s4 id = fnOf s id := fun id hid =>
          (fr4.fns id (by show id < (s.fns ++ [_]).length; simp; omega)).trans
            (fnOf_inForce_old (withLoops (inBuiltin s D) gs') lz code id hid)
        have hle4 : LoopsExt (withLoops s gs') s4 := ⟨fr4.loopsLen, fr4.loops⟩
        -- back in the caller, before the memo is set
        let s5 : St := { s4 with addr := s.addr, curfunc := s.curfunc, pc := s.pc, data := D, linear := s.linear,
                                 suspended := s.suspended }
        have rel5 : RelF m4 s5 rs' env :=
          relL.back rel4 rfl rfl rfl rfl rfl rfl fr4.flags hfl hfo ext4.1 hle4
        have hframe5 : FrameF s s5 :=
          ⟨⟨rfl, rfl, rfl, rfl, hfl, hfo, Nat.le_trans hleL.1 hle4.1,
            fun i hi => (hle4.2 i (Nat.lt_of_lt_of_le hi hleL.1)).trans (hleL.2 i hi)⟩, fr4.scLen, fr4.flags⟩
        have hm5 : MExt s m m4 := fun id hid => hm4 id (by show id < (s.fns ++ [_]).length; simp; omega)
        have hcl5 : VOk m4 s5 rs' v :=
          ValIn.mono hcl4 (fun id hg => hg.mono (FnsKeep.of_fns_eq rfl) (Nat.le_refl _) (fun _ _ => rfl) (RExt.refl _) rfl)
        have relF := rel5.memo (id := id) (lz := lz) (th := th) hcl5
        have hrF : RExt rs' (memoSetR rs' id th (trf m4 v)) := ⟨fun i fr hf => ⟨fr, hf, rfl⟩, fun _ _ hc' => hc'⟩
        simp only
        subst hv
        refine ⟨M + 2, memoSet s5 id lz v, m4, v, fun fuel hf => ?_, rfl, rfl, relF, hm5,
          ext4.trans hrF,
          ⟨⟨hframe5.linear, hframe5.curfunc, hframe5.addr, hframe5.susp, hframe5.fnsLen, hframe5.fns, hframe5.loopsLen,
            hframe5.loops⟩, hframe5.scLen, hframe5.flags⟩, ?_⟩
        · obtain ⟨f, rfl⟩ : ∃ f, fuel = f + 2 := ⟨fuel - 2, by omega⟩
          show (forceLazy (f + 2) id).run (inBuiltin s D) = _
          rw [hunf f, hM f (by omega)]
          simp only [hres5]
          rfl
        · exact ValIn.mono hcl5 (fun id hg => hg.mono (FnsKeep.of_fns_eq rfl) (Nat.le_refl _) (fun _ _ => rfl) hrF rfl)
      | err rs' =>
        rw [hres] at hsim
        obtain ⟨M, hM⟩ := run_of_failsE hsim
        refine ⟨M + 2, fun fuel hf => ?_⟩
        obtain ⟨f, rfl⟩ : ∃ f, fuel = f + 2 := ⟨fuel - 2, by omega⟩
        obtain ⟨sf, hrun, htr⟩ := hM f (by omega)
        refine ⟨_, by show (forceLazy (f + 2) id).run (inBuiltin s D) = _; rw [hunf f, hrun], ?_⟩
        rw [restore_trace]; exact htr
      | timeout => trivial
      | brk l rs' => rw [hres] at hsim; exact hsim.elim
      | cont l rs' => rw [hres] at hsim; exact hsim.elim

/-! ## A call of a Go builtin that calls back into the machine -/

/-- the Go builtin `name` on evaluated arguments, inside its frame -/
def BClaim (n : Nat) (name : String) : Prop :=
  ∀ (m : Nat → Nat) (s : St) (rs : Ref.St) (env : Nat) (vs : List Val) (D : List (Option Val)), RelF m s rs env →
    (∀ v ∈ vs, VOk m s rs v) →
    BOk m s rs env D (fun fuel => (builtin fuel name vs).run (inBuiltin s D)) (Ref.applyFn n (.builtin name) (vs.map (trf m)) rs)

/-- **The call instruction around a Go builtin**: operands, `CallUserFunction`, the builtin (`BClaim`), the value
pushed and control back behind the call -/
theorem fclaimH_of_bclaim {k : Nat} {name : String} (hA : FClaimA (k + 1)) (hb : BClaim (k + 1) name) : FClaimH k name := by
  intro args hargs m s rs env pre post ins s0 M0 hrel hat hex
  rw [refCall_builtin]
  have hprep := hA args hargs none (fun _ => false) (fun _ => rfl) 0 m s rs env hrel
  have hexec : ∀ F, M0 ≤ F → (exec (F + 3) ins).run s0
      = guardedRun s.data.length
          ((prepareArgs (F + 1) none 0 args >>= fun _ => callUser (F + 1) name args.length : M Unit).run s) :=
    fun F hF => by rw [hex F hF, run_callResolved_builtin]
  obtain ⟨b0, hch, hfc⟩ := hrel.ctx
  have hcurlt := hfc.lt
  cases h1 : Ref.evalArgs (k + 1) args 0 (fun _ => false) env rs with
  | ok vs' rs1 =>
    rw [h1] at hprep
    obtain ⟨M, s1, m1, vs, hM, hd1, hp1, hvs, rel1, hm1, ext1, fr1, hclvs⟩ := hprep
    simp only
    have hlen : args.length = vs.length := by
      rw [← ref_evalArgs_length' _ _ _ _ _ _ _ _ h1, hvs, List.length_map]
    have hbo := hb m1 s1 rs1 env vs s.data rel1 hclvs
    rw [← hvs] at hbo
    cases h2 : Ref.applyFn (k + 1) (.builtin name) vs' rs1 with
    | ok v' rsF =>
      rw [h2] at hbo
      obtain ⟨Mb, s3, m3, v, hbr, hpc3, hv, rel3, hm3, ext3, fr3, hv3⟩ := hbo
      subst hv
      let sF : St := s3.jmp (s1.pc + 1) (some v :: s.data)
      have hx : ∀ f, M + M0 + Mb + 3 ≤ f → (exec (f + 1) ins).run s0 = (.ok (), sF) := by
        intro f hf
        obtain ⟨G, rfl⟩ : ∃ G, f = G + 3 := ⟨f - 3, by omega⟩
        rw [hexec (G + 1) (by omega), run_bind, hM (G + 1 + 1) (by omega)]
        simp only
        rw [hlen, run_callUser_ok (G + 1) name vs s.data s1 (inBuiltin s3 s.data) v hd1 (hbr (G + 1) (by omega))
          (by show some (s3.curfunc, s3.pc + 1) :: s3.addr = _; rw [fr3.curfunc, fr3.addr, hpc3])]
        show (Except.ok (), ({ s3 with data := some v :: s.data, addr := s1.addr, curfunc := s1.curfunc, pc := s1.pc + 1 } : St)) = _
        rw [← fr3.addr, ← fr3.curfunc]
        rfl
      have hfnF : fnOf sF sF.curfunc = fnOf s s.curfunc := by
        have h1 := fr3.fns s1.curfunc (by rw [fr1.curfunc]; exact Nat.lt_of_lt_of_le hcurlt fr1.fnsLen)
        have h2 := fr1.fns s.curfunc hcurlt
        show fnOf s3 s3.curfunc = _
        rw [fr3.curfunc, fr1.curfunc] at *
        exact h1.trans h2
      exact ⟨sF, m3, v, ReachX.step hat (M + M0 + Mb + 3) hx, ⟨hfnF, by show s1.pc + 1 = _; rw [hp1]; simp, rfl⟩, rfl,
        rel3.jmp _ _, hm1.trans hm3 fr1.fnsLen, ext1.trans ext3, fr1.trans (fr3.trans (FrameF.jmp _ _ _)),
        VOk.ext hv3 (FrameF.jmp _ _ _) (RExt.refl _) (MExt.refl _ _)⟩
    | err rsF =>
      rw [h2] at hbo
      obtain ⟨Mb, hbr⟩ := hbo
      refine FailsX.step hat (M + M0 + Mb + 3) (fun f hf => ?_)
      obtain ⟨G, rfl⟩ : ∃ G, f = G + 3 := ⟨f - 3, by omega⟩
      obtain ⟨se, hse, htr⟩ := hbr (G + 1) (by omega)
      refine ⟨_, by rw [hexec (G + 1) (by omega), run_bind, hM (G + 1 + 1) (by omega)]; simp only
                    rw [hlen, run_callUser_err (G + 1) name vs s.data s1 se hd1 hse]; rfl, ?_⟩
      show ((restore (capPopped s1 s.data)).run se).2.trace = _
      rw [restore_trace]; exact htr
    | timeout => trivial
    | brk l rsF => rw [h2] at hbo; exact hbo.elim
    | cont l rsF => rw [h2] at hbo; exact hbo.elim
  | err rs1 =>
    rw [h1] at hprep
    obtain ⟨M, hM⟩ := hprep
    simp only
    refine FailsX.step hat (M + M0 + 2) (fun f hf => ?_)
    obtain ⟨F, rfl⟩ : ∃ F, f = F + 2 := ⟨f - 2, by omega⟩
    obtain ⟨se, hse, htr⟩ := hM (F + 1) (by omega)
    exact ⟨{ se with data := truncate se.data s.data.length }, by rw [hexec F (by omega), run_bind, hse]; rfl, htr⟩
  | timeout => trivial
  | brk l rs1 => rw [h1] at hprep; exact hprep.elim
  | cont l rs1 => rw [h1] at hprep; exact hprep.elim

/-- `force` on evaluated arguments -/
theorem bclaim_force {k : Nat} (hlow : ∀ j, j < k → FClaimE j) : BClaim (k + 1) "force" := by
  intro m s rs env vs D hrel hvs
  rw [ref_applyFn_force]
  have herr : ∀ (hne : ∀ a, vs ≠ [a]), BOk m s rs env D (fun fuel => (builtin fuel "force" vs).run (inBuiltin s D)) (.err rs) := by
    intro hne
    refine ⟨1, fun fuel hf => ⟨inBuiltin s D, ?_, hrel.trace⟩⟩
    obtain ⟨f, rfl⟩ : ∃ f, fuel = f + 1 := ⟨fuel - 1, by omega⟩
    show (builtin (f + 1) "force" vs).run (inBuiltin s D) = _
    rw [run_builtin_force]
    rcases vs with _ | ⟨a, _ | ⟨b, r⟩⟩
    · rfl
    · exact absurd rfl (hne a)
    · cases a <;> rfl
  have hval : ∀ a, vs = [a] → (∀ id, a ≠ .lazy id) →
      BOk m s rs env D (fun fuel => (builtin fuel "force" vs).run (inBuiltin s D)) (.ok (trf m a) rs) := by
    intro a ha hnl
    refine ⟨1, s, m, a, fun fuel hf => ?_, rfl, rfl, hrel, MExt.refl _ _, RExt.refl _, FrameF.refl _,
      hvs a (by rw [ha]; exact List.mem_singleton_self a)⟩
    obtain ⟨f, rfl⟩ : ∃ f, fuel = f + 1 := ⟨fuel - 1, by omega⟩
    show (builtin (f + 1) "force" vs).run (inBuiltin s D) = _
    rw [run_builtin_force, ha]
    cases a <;> first | rfl | exact absurd rfl (hnl _)
  rcases vs with _ | ⟨a, _ | ⟨b, r⟩⟩
  · exact herr (fun a ha => by cases ha)
  · cases a with
    | lazy id =>
      show BOk m s rs env D _ (Ref.force k id rs)
      have hf := force_sim hlow hrel id D
      cases hres : Ref.force k id rs with
      | ok v' rsF =>
        rw [hres] at hf
        obtain ⟨Mb, s3, m3, v, hb, hpc3, hv, rel3, hm3, ext3, fr3, hv3⟩ := hf
        refine ⟨Mb + 1, s3, m3, v, fun fuel hf => ?_, hpc3, hv, rel3, hm3, ext3, fr3, hv3⟩
        obtain ⟨f, rfl⟩ : ∃ f, fuel = f + 1 := ⟨fuel - 1, by omega⟩
        show (builtin (f + 1) "force" [.lazy id]).run (inBuiltin s D) = _
        rw [run_builtin_force]; exact hb f (by omega)
      | err rsF =>
        rw [hres] at hf
        obtain ⟨Mb, hb⟩ := hf
        refine ⟨Mb + 1, fun fuel hf => ?_⟩
        obtain ⟨f, rfl⟩ : ∃ f, fuel = f + 1 := ⟨fuel - 1, by omega⟩
        obtain ⟨se, hse, htr⟩ := hb f (by omega)
        exact ⟨se, by show (builtin (f + 1) "force" [.lazy id]).run (inBuiltin s D) = _; rw [run_builtin_force]; exact hse, htr⟩
      | timeout => trivial
      | brk l rsF => rw [hres] at hf; exact hf.elim
      | cont l rsF => rw [hres] at hf; exact hf.elim
    | nil => exact hval _ rfl (fun _ hh => by cases hh)
    | bool b => exact hval _ rfl (fun _ hh => by cases hh)
    | int b => exact hval _ rfl (fun _ hh => by cases hh)
    | str b => exact hval _ rfl (fun _ hh => by cases hh)
    | pair x y => exact hval _ rfl (fun _ hh => by cases hh)
    | arr r => exact hval _ rfl (fun _ hh => by cases hh)
    | fn f => exact hval _ rfl (fun _ hh => by cases hh)
    | builtin n => exact hval _ rfl (fun _ hh => by cases hh)
    | mark l => exact hval _ rfl (fun _ hh => by cases hh)
    | sym x => exact hval _ rfl (fun _ hh => by cases hh)
  · have := herr (fun a ha => by cases ha)
    cases a <;> exact this

/-- **A call whose callee symbol denotes `force`**, from the segment lemma at lower fuel (the thunk's
expression is evaluated with less fuel than the call) and the operand claim at the call's fuel -/
theorem fclaimG {k : Nat} (hlow : ∀ j, j < k → FClaimE j) (hA : FClaimA (k + 1)) : FClaimG k :=
  fclaimH_of_bclaim hA (bclaim_force hlow)

end ZygoVerif.Sim
