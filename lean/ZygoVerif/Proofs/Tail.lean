/-
Lemmas for C09 about the model generator (`Model/Gen.lean`): which context (`Ctx.tail`,
`Ctx.scopes`) a sub-expression is compiled under, and that its code is a contiguous
segment of the code of the enclosing form.
-/
import ZygoVerif.Model.Gen
import ZygoVerif.Spec.TailPos
namespace ZygoVerif.Tail
open ZygoVerif.Core ZygoVerif.VM ZygoVerif.TailSpec

/-! ## The generator monad -/

theorem bind_ok {α β} (m : G α) (f : α → G β) (gs : GS) (r : β × GS) :
    (m >>= f) gs = .ok r ↔ ∃ a gs1, m gs = .ok (a, gs1) ∧ f a gs1 = .ok r := by
  show (StateT.bind m f gs) = _ ↔ _
  unfold StateT.bind
  cases h : m gs with
  | error e => simp [bind, Except.bind]
  | ok p =>
    cases p with
    | mk a g =>
      simp only [bind, Except.bind]
      constructor
      · intro h; exact ⟨a, g, rfl, h⟩
      · rintro ⟨a', g', h1, h2⟩
        cases h1; exact h2

theorem pure_ok {α} (a : α) (gs : GS) (r : α × GS) : (pure a : G α) gs = .ok r ↔ r = (a, gs) := by
  show (StateT.pure a gs) = _ ↔ _
  simp [StateT.pure, pure, Except.pure, eq_comm]

theorem get_ok (gs : GS) (r : GS × GS) : (get : G GS) gs = .ok r ↔ r = (gs, gs) := by
  show (StateT.get gs : Except Unit (GS × GS)) = _ ↔ _
  simp [StateT.get, pure, Except.pure, eq_comm]

theorem set_ok (s' gs : GS) (r : Unit × GS) : (set s' : G Unit) gs = .ok r ↔ r = ((), s') := by
  show (StateT.set s' gs : Except Unit (Unit × GS)) = _ ↔ _
  simp [StateT.set, pure, Except.pure, eq_comm]

theorem modify_ok (f : GS → GS) (gs : GS) (r : Unit × GS) : (modify f : G Unit) gs = .ok r ↔ r = ((), f gs) := by
  show (StateT.modifyGet (fun s => ((), f s)) gs : Except Unit (Unit × GS)) = _ ↔ _
  simp [StateT.modifyGet, pure, Except.pure, eq_comm]

theorem throw_ok {α} (gs : GS) (r : α × GS) : (throw () : G α) gs = .ok r ↔ False := by
  show (StateT.lift (throw ()) gs : Except Unit (α × GS)) = _ ↔ _
  simp [StateT.lift, throw, throwThe, MonadExceptOf.throw, bind, Except.bind]

/-! ## Segments -/

/-- `sub` occurs in `code` as a contiguous segment. -/
def Seg (code sub : List Instr) : Prop := ∃ pre post, code = pre ++ sub ++ post

theorem Seg.refl (c : List Instr) : Seg c c := ⟨[], [], by simp⟩

theorem Seg.trans {a b c : List Instr} (h1 : Seg a b) (h2 : Seg b c) : Seg a c := by
  obtain ⟨p1, q1, rfl⟩ := h1
  obtain ⟨p2, q2, rfl⟩ := h2
  exact ⟨p1 ++ p2, q2 ++ q1, by simp [List.append_assoc]⟩

theorem Seg.left {b s : List Instr} (a : List Instr) (h : Seg b s) : Seg (a ++ b) s := by
  obtain ⟨p, q, rfl⟩ := h
  exact ⟨a ++ p, q, by simp [List.append_assoc]⟩

theorem Seg.right {a s : List Instr} (b : List Instr) (h : Seg a s) : Seg (a ++ b) s := by
  obtain ⟨p, q, rfl⟩ := h
  exact ⟨p, q ++ b, by simp [List.append_assoc]⟩

theorem Seg.mid (a s b : List Instr) : Seg (a ++ s ++ b) s := ⟨a, b, rfl⟩

/-! ## Layout functions keep the code of their parts as segments -/

theorem seg_asmCond_dflt (as : List (List Instr × List Instr)) (d : List Instr) : Seg (asmCond as d) d := by
  induction as with
  | nil => exact Seg.refl _
  | cons a as ih =>
    obtain ⟨p, b⟩ := a
    simp only [asmCond]
    exact Seg.left _ ih

theorem seg_asmCond_arm {as : List (List Instr × List Instr)} {p b : List Instr} (d : List Instr)
    (h : (p, b) ∈ as) : Seg (asmCond as d) p ∧ Seg (asmCond as d) b := by
  induction as with
  | nil => cases h
  | cons a as ih =>
    obtain ⟨p', b'⟩ := a
    simp only [asmCond]
    rcases List.mem_cons.mp h with h | h
    · cases h
      constructor
      · exact ⟨[], [Instr.branch false (↑b.length + 2)] ++ b ++ [Instr.jump (↑(asmCond as d).length + 1)] ++ asmCond as d,
          by simp [List.append_assoc]⟩
      · exact ⟨p ++ [Instr.branch false (↑b.length + 2)], [Instr.jump (↑(asmCond as d).length + 1)] ++ asmCond as d,
          by simp [List.append_assoc]⟩
    · exact ⟨Seg.left _ (ih h).1, Seg.left _ (ih h).2⟩

theorem seg_asmSC {cs : List (List Instr)} {x : List Instr} (isOr : Bool) (h : x ∈ cs) : Seg (asmSC isOr cs) x := by
  induction cs with
  | nil => cases h
  | cons c cs ih =>
    cases cs with
    | nil =>
      simp only [List.mem_singleton] at h
      subst h
      simp only [asmSC]
      exact Seg.refl _
    | cons c' cs' =>
      simp only [asmSC]
      rcases List.mem_cons.mp h with h | h
      · subst h
        exact ⟨[], [Instr.dup, Instr.branch isOr (↑(asmSC isOr (c' :: cs')).length + 2), Instr.pop] ++ asmSC isOr (c' :: cs'),
          by simp [List.append_assoc]⟩
      · exact Seg.left _ (ih h)

/-! ## Contexts -/

/-- the context with the tail flag cleared -/
abbrev off (c : Ctx) : Ctx := { c with tail := false }

/-- `s`, compiled under `c'` (from some generator state), is a segment of `code`. -/
def Emits (isFn : Nat → Bool) (c' : Ctx) (s : Expr) (code : List Instr) : Prop :=
  ∃ gs1 r1, compile isFn c' s gs1 = .ok r1 ∧ Seg code r1.1.1

theorem Emits.mono {isFn c' s a b} (h : Emits isFn c' s b) (hs : Seg a b) : Emits isFn c' s a := by
  obtain ⟨gs1, r1, h1, h2⟩ := h
  exact ⟨gs1, r1, h1, hs.trans h2⟩

/-! ## The flag a `Generate*` leaves behind is never set when it was clear on entry -/

/-- `gen.Tail` after a `Generate*` call is only ever `true` when it was `true` before
(several leave it cleared; none sets it). Mutual induction over all eight functions. -/
theorem flag_mono (isFn : Nat → Bool) :
    (∀ (c : Ctx) (e : Expr), ∀ gs r, compile isFn c e gs = .ok r → r.1.2 = true → c.tail = true) ∧
    (∀ (c : Ctx) (oldtail : Bool) (es : List Expr), ∀ gs r, compileNewScope isFn c oldtail es gs = .ok r → r.1.2 = true → oldtail = true) ∧
    (∀ (c : Ctx) (seq : Bool) (bs : List (String × Expr)), ∀ gs r, compileBinds isFn c seq bs gs = .ok r → r.1.2 = true → c.tail = true) ∧
    (∀ (_ : Ctx) (_ : List Expr), True) ∧
    (∀ (_ : Ctx) (_ : List (Expr × Expr)), True) ∧
    (∀ (c : Ctx) (es : List Expr), ∀ gs r, compileBegin isFn c es gs = .ok r → r.1.2 = true → c.tail = true) ∧
    (∀ (_ : Ctx) (_ : Option FnObj) (_ : Nat) (_ : List Expr), True) ∧
    (∀ (c : Ctx) (es : List Expr), ∀ gs r, compileAll isFn c es gs = .ok r → r.1.2 = true → c.tail = true) := by
  apply compile.mutual_induct
    (motive_1 := fun c e => ∀ gs r, compile isFn c e gs = .ok r → r.1.2 = true → c.tail = true)
    (motive_2 := fun c oldtail es => ∀ gs r, compileNewScope isFn c oldtail es gs = .ok r → r.1.2 = true → oldtail = true)
    (motive_3 := fun c seq bs => ∀ gs r, compileBinds isFn c seq bs gs = .ok r → r.1.2 = true → c.tail = true)
    (motive_4 := fun _ _ => True)
    (motive_5 := fun _ _ => True)
    (motive_6 := fun c es => ∀ gs r, compileBegin isFn c es gs = .ok r → r.1.2 = true → c.tail = true)
    (motive_7 := fun _ _ _ _ => True)
    (motive_8 := fun c es => ∀ gs r, compileAll isFn c es gs = .ok r → r.1.2 = true → c.tail = true)
  all_goals (intros; try trivial)
  -- every case ends the same way: unfold the equation of the form, take the result apart, read
  -- the flag off. The alternatives differ only in how the equation is taken apart (the order of
  -- the cases of `mutual_induct` is not relied upon).
  all_goals first
    | (rename_i h hr; simp only [compile, compileNewScope, compileBinds, compileBegin, compileAll, bind_ok, pure_ok, get_ok] at h; grind)
    | (rename_i hc gs r h hr
       simp only [compile, hc, Bool.false_eq_true, ↓reduceIte, pure_ok] at h
       subst h; exact hr)
    | (rename_i h hr
       simp only [compile, bind_ok, get_ok] at h
       obtain ⟨a, gs1, heq, h⟩ := h
       cases heq
       generalize findLoop _ _ = fl at h
       cases fl with
       | none => simp only [throw_ok] at h
       | some id => simp only [pure_ok] at h; subst h; exact hr)
    | (rename_i h hr
       simp only [compile, bind_ok, get_ok, set_ok] at h
       obtain ⟨a, g1, h1, a1, g2, h2, a2, g3, h3, h⟩ := h
       generalize StateT.run _ _ = res at h
       rcases res with e | ⟨⟨b, i, t, s⟩, gs'⟩
       · simp only [bind_ok, modify_ok, throw_ok] at h
         obtain ⟨_, _, _, hf⟩ := h
         exact hf.elim
       · simp only [bind_ok, set_ok, pure_ok] at h
         obtain ⟨_, _, _, rfl⟩ := h
         exact hr)

/-! ## `GenerateBegin` -/

theorem begin_last {isFn : Nat → Bool} {c : Ctx} {e : Expr} :
    ∀ {es : List Expr} {gs : GS} {r}, compileBegin isFn c es gs = .ok r → es.getLast? = some e →
      Emits isFn c e r.1.1 := by
  intro es
  induction es with
  | nil => intro gs r _ hl; cases hl
  | cons x xs ih =>
    intro gs r h hl
    cases xs with
    | nil =>
      rw [compileBegin.eq_2] at h
      simp only [List.getLast?_singleton, Option.some.injEq] at hl
      subst hl
      exact ⟨gs, r, h, Seg.refl _⟩
    | cons y ys =>
      rw [compileBegin.eq_3 _ _ _ _ (by simp)] at h
      simp only [bind_ok, pure_ok] at h
      obtain ⟨a, gs1, _, b, gs2, h2, rfl⟩ := h
      have hl' : (y :: ys).getLast? = some e := by simpa [List.getLast?_cons_cons] using hl
      exact (ih h2 hl').mono (Seg.left _ (Seg.refl _))

theorem begin_inner {isFn : Nat → Bool} {c : Ctx} {e : Expr} :
    ∀ {es : List Expr} {gs : GS} {r}, compileBegin isFn c es gs = .ok r → e ∈ es.dropLast →
      Emits isFn (off c) e r.1.1 := by
  intro es
  induction es with
  | nil => intro gs r _ hm; cases hm
  | cons x xs ih =>
    intro gs r h hm
    cases xs with
    | nil => simp at hm
    | cons y ys =>
      rw [compileBegin.eq_3 _ _ _ _ (by simp)] at h
      simp only [bind_ok, pure_ok] at h
      obtain ⟨a, gs1, h1, b, gs2, h2, rfl⟩ := h
      simp only [List.dropLast_cons₂, List.mem_cons] at hm
      rcases hm with rfl | hm
      · exact ⟨gs, (a, gs1), h1, Seg.right _ (Seg.right _ (Seg.refl _))⟩
      · exact (ih h2 hm).mono (Seg.left _ (Seg.refl _))

/-! ## `GenerateNewScope` -/

theorem newScope_last {isFn : Nat → Bool} {c : Ctx} {oldtail : Bool} {e : Expr} :
    ∀ {es : List Expr} {gs : GS} {r}, compileNewScope isFn c oldtail es gs = .ok r → es.getLast? = some e →
      Emits isFn { c with tail := oldtail } e r.1.1 := by
  intro es
  induction es with
  | nil => intro gs r _ hl; cases hl
  | cons x xs ih =>
    intro gs r h hl
    cases xs with
    | nil =>
      rw [compileNewScope.eq_2] at h
      simp only [List.getLast?_singleton, Option.some.injEq] at hl
      subst hl
      exact ⟨gs, r, h, Seg.refl _⟩
    | cons y ys =>
      rw [compileNewScope.eq_3 _ _ _ _ _ (by simp)] at h
      simp only [bind_ok, pure_ok] at h
      obtain ⟨a, gs1, _, b, gs2, h2, rfl⟩ := h
      have hl' : (y :: ys).getLast? = some e := by simpa [List.getLast?_cons_cons] using hl
      exact (ih h2 hl').mono (Seg.left _ (Seg.refl _))

theorem newScope_inner {isFn : Nat → Bool} {c : Ctx} {oldtail : Bool} {e : Expr} :
    ∀ {es : List Expr} {gs : GS} {r}, compileNewScope isFn c oldtail es gs = .ok r → e ∈ es.dropLast →
      Emits isFn (off c) e r.1.1 := by
  intro es
  induction es with
  | nil => intro gs r _ hm; cases hm
  | cons x xs ih =>
    intro gs r h hm
    cases xs with
    | nil => simp at hm
    | cons y ys =>
      rw [compileNewScope.eq_3 _ _ _ _ _ (by simp)] at h
      simp only [bind_ok, pure_ok] at h
      obtain ⟨a, gs1, h1, b, gs2, h2, rfl⟩ := h
      simp only [List.dropLast_cons₂, List.mem_cons] at hm
      rcases hm with rfl | hm
      · exact ⟨gs, (a, gs1), h1, Seg.right _ (Seg.right _ (Seg.refl _))⟩
      · exact (ih h2 hm).mono (Seg.left _ (Seg.refl _))

/-! ## `GenerateShortCircuit` -/

theorem sc_last {isFn : Nat → Bool} {c : Ctx} {e : Expr} :
    ∀ {es : List Expr} {gs : GS} {r}, compileSC isFn c es gs = .ok r → es.getLast? = some e →
      ∃ gs1 r1, compile isFn c e gs1 = .ok r1 ∧ r1.1.1 ∈ r.1 := by
  intro es
  induction es with
  | nil => intro gs r _ hl; cases hl
  | cons x xs ih =>
    intro gs r h hl
    cases xs with
    | nil =>
      rw [compileSC.eq_2] at h
      simp only [bind_ok, pure_ok] at h
      obtain ⟨a, gs1, h1, rfl⟩ := h
      simp only [List.getLast?_singleton, Option.some.injEq] at hl
      subst hl
      exact ⟨gs, (a, gs1), h1, by simp⟩
    | cons y ys =>
      rw [compileSC.eq_3 _ _ _ _ (by simp)] at h
      simp only [bind_ok, pure_ok] at h
      obtain ⟨rest, gs1, h1, a, gs2, _, rfl⟩ := h
      have hl' : (y :: ys).getLast? = some e := by simpa [List.getLast?_cons_cons] using hl
      obtain ⟨g, r1, hc, hm⟩ := ih h1 hl'
      exact ⟨g, r1, hc, List.mem_cons_of_mem _ hm⟩

theorem sc_inner {isFn : Nat → Bool} {c : Ctx} {e : Expr} :
    ∀ {es : List Expr} {gs : GS} {r}, compileSC isFn c es gs = .ok r → e ∈ es.dropLast →
      ∃ gs1 r1, compile isFn (off c) e gs1 = .ok r1 ∧ r1.1.1 ∈ r.1 := by
  intro es
  induction es with
  | nil => intro gs r _ hm; cases hm
  | cons x xs ih =>
    intro gs r h hm
    cases xs with
    | nil => simp at hm
    | cons y ys =>
      rw [compileSC.eq_3 _ _ _ _ (by simp)] at h
      simp only [bind_ok, pure_ok] at h
      obtain ⟨rest, gs1, h1, a, gs2, h2, rfl⟩ := h
      simp only [List.dropLast_cons₂, List.mem_cons] at hm
      rcases hm with rfl | hm
      · exact ⟨gs1, (a, gs2), h2, by simp⟩
      · obtain ⟨g, r1, hc, hmem⟩ := ih h1 hm
        exact ⟨g, r1, hc, List.mem_cons_of_mem _ hmem⟩

/-! ## `GenerateCond` -/

theorem arms_mem {isFn : Nat → Bool} {c : Ctx} {p b : Expr} :
    ∀ {arms : List (Expr × Expr)} {gs : GS} {r}, compileArms isFn c arms gs = .ok r → (p, b) ∈ arms →
      ∃ gp rp gb rb, compile isFn (off c) p gp = .ok rp ∧
        compile isFn c b gb = .ok rb ∧ (rp.1.1, rb.1.1) ∈ r.1 := by
  intro arms
  induction arms with
  | nil => intro gs r _ hm; cases hm
  | cons a arms ih =>
    intro gs r h hm
    obtain ⟨p', b'⟩ := a
    rw [compileArms.eq_2] at h
    simp only [bind_ok, pure_ok] at h
    obtain ⟨rest, gs1, h1, pc, gs2, h2, bc, gs3, h3, rfl⟩ := h
    rcases List.mem_cons.mp hm with heq | hm
    · cases heq
      exact ⟨gs1, (pc, gs2), gs2, (bc, gs3), h2, h3, by simp⟩
    · obtain ⟨gp, rp, gb, rb, hp, hb, hmem⟩ := ih h1 hm
      exact ⟨gp, rp, gb, rb, hp, hb, List.mem_cons_of_mem _ hmem⟩


/-! ## `GenerateAll` (array elements) and the initialisers of `GenerateLet`: the flag threads
through, and stays cleared -/

theorem all_mem {isFn : Nat → Bool} {c : Ctx} {e : Expr} :
    ∀ {es : List Expr} {gs : GS} {r}, compileAll isFn (off c) es gs = .ok r → e ∈ es →
      Emits isFn (off c) e r.1.1 := by
  intro es
  induction es with
  | nil => intro gs r _ hm; cases hm
  | cons x xs ih =>
    intro gs r h hm
    rw [compileAll.eq_2] at h
    simp only [bind_ok, pure_ok] at h
    obtain ⟨⟨a, t⟩, gs1, h1, ⟨b, t'⟩, gs2, h2, rfl⟩ := h
    have ht : t = false := by
      cases t with
      | false => rfl
      | true => exact absurd ((flag_mono isFn).1 _ _ _ _ h1 rfl) (by simp)
    subst ht
    rcases List.mem_cons.mp hm with rfl | hm
    · exact ⟨gs, ((a, false), gs1), h1, Seg.right _ (Seg.refl _)⟩
    · exact (ih h2 hm).mono (Seg.left _ (Seg.refl _))

theorem binds_mem {isFn : Nat → Bool} {c : Ctx} {seq : Bool} {x : String} {e : Expr} :
    ∀ {bs : List (String × Expr)} {gs : GS} {r}, compileBinds isFn (off c) seq bs gs = .ok r → (x, e) ∈ bs →
      Emits isFn (off c) e r.1.1 := by
  intro bs
  induction bs with
  | nil => intro gs r _ hm; cases hm
  | cons y ys ih =>
    intro gs r h hm
    obtain ⟨x', e'⟩ := y
    rw [compileBinds.eq_2] at h
    simp only [bind_ok, pure_ok] at h
    obtain ⟨⟨a, t⟩, gs1, h1, ⟨b, t'⟩, gs2, h2, rfl⟩ := h
    have ht : t = false := by
      cases t with
      | false => rfl
      | true => exact absurd ((flag_mono isFn).1 _ _ _ _ h1 rfl) (by simp)
    subst ht
    rcases List.mem_cons.mp hm with heq | hm
    · cases heq
      exact ⟨gs, ((a, false), gs1), h1, Seg.right _ (Seg.right _ (Seg.refl _))⟩
    · exact (ih h2 hm).mono (Seg.left _ (Seg.refl _))

/-! ## One step -/

/-- A tail step keeps the flag and adds the scope the form opens. -/
theorem tailStep_emits {isFn : Nat → Bool} {e m : Expr} {sc : Bool} (st : TailStep e m sc)
    {t : Bool} {k : Nat} {f : String} {kn : List (String × Nat)} {gs : GS} {r}
    (h : compile isFn ⟨t, k, f, kn⟩ e gs = .ok r) :
    Emits isFn ⟨t, k + sc.toNat, f, kn⟩ m r.1.1 := by
  cases st with
  | condArm hm =>
    simp only [compile, bind_ok, pure_ok] at h
    obtain ⟨⟨dc, _⟩, gs1, _, as, gs2, h2, rfl⟩ := h
    obtain ⟨gp, rp, gb, rb, _, hb, hmem⟩ := arms_mem h2 hm
    exact ⟨gb, rb, hb, (seg_asmCond_arm dc hmem).2⟩
  | condDefault =>
    simp only [compile, bind_ok, pure_ok] at h
    obtain ⟨⟨dc, x⟩, gs1, h1, as, gs2, _, rfl⟩ := h
    exact ⟨gs, ((dc, x), gs1), h1, seg_asmCond_dflt as dc⟩
  | @beginLast es _ hl =>
    cases es with
    | nil => cases hl
    | cons x xs =>
      simp only [compile] at h
      exact begin_last h hl
  | letLast hl =>
    simp only [compile, bind_ok, pure_ok] at h
    obtain ⟨⟨rhs, _⟩, gs1, _, ⟨b, t'⟩, gs2, h2, rfl⟩ := h
    exact (begin_last h2 hl).mono (Seg.right _ (Seg.left _ (Seg.refl _)))
  | @newScopeLast es _ hl =>
    cases es with
    | nil => cases hl
    | cons x xs =>
      simp only [compile, bind_ok, pure_ok] at h
      obtain ⟨⟨code, t'⟩, gs1, h1, rfl⟩ := h
      exact (newScope_last h1 hl).mono (Seg.right _ (Seg.left _ (Seg.refl _)))
  | andLast hl =>
    simp only [compile, bind_ok, pure_ok] at h
    obtain ⟨cs, gs1, h1, rfl⟩ := h
    obtain ⟨g, r1, hc, hmem⟩ := sc_last h1 hl
    exact ⟨g, r1, hc, seg_asmSC false hmem⟩
  | orLast hl =>
    simp only [compile, bind_ok, pure_ok] at h
    obtain ⟨cs, gs1, h1, rfl⟩ := h
    obtain ⟨g, r1, hc, hmem⟩ := sc_last h1 hl
    exact ⟨g, r1, hc, seg_asmSC true hmem⟩

/-- A non-tail step clears the flag, whatever it was. -/
theorem nonTailStep_emits {isFn : Nat → Bool} {e m : Expr} (st : NonTailStep e m)
    {t : Bool} {k : Nat} {f : String} {kn : List (String × Nat)} {gs : GS} {r}
    (h : compile isFn ⟨t, k, f, kn⟩ e gs = .ok r) :
    ∃ k', Emits isFn ⟨false, k', f, kn⟩ m r.1.1 := by
  cases st with
  | condTest hm =>
    simp only [compile, bind_ok, pure_ok] at h
    obtain ⟨⟨dc, _⟩, gs1, _, as, gs2, h2, rfl⟩ := h
    obtain ⟨gp, rp, gb, rb, hp, _, hmem⟩ := arms_mem h2 hm
    exact ⟨k, gp, rp, hp, (seg_asmCond_arm dc hmem).1⟩
  | @beginInner es _ hm =>
    cases es with
    | nil => cases hm
    | cons x xs =>
      simp only [compile] at h
      exact ⟨k, begin_inner h hm⟩
  | letInit hm =>
    simp only [compile, bind_ok, pure_ok] at h
    obtain ⟨⟨rhs, _⟩, gs1, h1, ⟨b, t'⟩, gs2, _, rfl⟩ := h
    exact ⟨k + 1, (binds_mem (c := ⟨t, k + 1, f, kn⟩) h1 hm).mono
      (Seg.right _ (Seg.right _ (Seg.right _ (Seg.left _ (Seg.refl _)))))⟩
  | letInner hm =>
    simp only [compile, bind_ok, pure_ok] at h
    obtain ⟨⟨rhs, _⟩, gs1, _, ⟨b, t'⟩, gs2, h2, rfl⟩ := h
    exact ⟨k + 1, (begin_inner h2 hm).mono (Seg.right _ (Seg.left _ (Seg.refl _)))⟩
  | @newScopeInner es _ hm =>
    cases es with
    | nil => cases hm
    | cons x xs =>
      simp only [compile, bind_ok, pure_ok] at h
      obtain ⟨⟨code, t'⟩, gs1, h1, rfl⟩ := h
      exact ⟨k + 1, (newScope_inner h1 hm).mono (Seg.right _ (Seg.left _ (Seg.refl _)))⟩
  | andInner hm =>
    simp only [compile, bind_ok, pure_ok] at h
    obtain ⟨cs, gs1, h1, rfl⟩ := h
    obtain ⟨g, r1, hc, hmem⟩ := sc_inner h1 hm
    exact ⟨k, g, r1, hc, seg_asmSC false hmem⟩
  | orInner hm =>
    simp only [compile, bind_ok, pure_ok] at h
    obtain ⟨cs, gs1, h1, rfl⟩ := h
    obtain ⟨g, r1, hc, hmem⟩ := sc_inner h1 hm
    exact ⟨k, g, r1, hc, seg_asmSC true hmem⟩
  | arrElem hm =>
    simp only [compile, bind_ok, pure_ok] at h
    obtain ⟨⟨code, t'⟩, gs1, h1, rfl⟩ := h
    exact ⟨k, (all_mem (c := ⟨t, k, f, kn⟩) h1 hm).mono (Seg.right _ (Seg.refl _))⟩
  | defRhs =>
    simp only [compile, bind_ok, pure_ok] at h
    obtain ⟨⟨code, t'⟩, gs1, h1, rfl⟩ := h
    exact ⟨k, gs, ((code, t'), gs1), h1, Seg.right _ (Seg.refl _)⟩
  | setRhs =>
    simp only [compile, bind_ok, pure_ok] at h
    obtain ⟨⟨code, t'⟩, gs1, h1, rfl⟩ := h
    exact ⟨k, gs, ((code, t'), gs1), h1, Seg.right _ (Seg.refl _)⟩
  | assignLhs =>
    simp only [compile, bind_ok, pure_ok] at h
    obtain ⟨⟨a, ta⟩, gs1, h1, ⟨b, tb⟩, gs2, _, rfl⟩ := h
    exact ⟨k, gs, ((a, ta), gs1), h1, Seg.right _ (Seg.right _ (Seg.refl _))⟩
  | assignRhs =>
    simp only [compile, bind_ok, pure_ok] at h
    obtain ⟨⟨a, ta⟩, gs1, _, ⟨b, tb⟩, gs2, h2, rfl⟩ := h
    exact ⟨k, gs1, ((b, tb), gs2), h2, Seg.right _ (Seg.left _ (Seg.refl _))⟩

/-! ## Paths -/

/-- (a, "if") + (b): what is in tail position is compiled with the caller's flag and with
`scopes` = the scopes on entry plus the scopes crossed. -/
theorem tailAt_emits {isFn : Nat → Bool} {n : Nat} {e s : Expr} (p : TailAt n e s) :
    ∀ {t : Bool} {k : Nat} {f : String} {kn : List (String × Nat)} {gs : GS} {r},
      compile isFn ⟨t, k, f, kn⟩ e gs = .ok r → Emits isFn ⟨t, k + n, f, kn⟩ s r.1.1 := by
  induction p with
  | here => intro t k f kn gs r h; exact ⟨gs, r, h, Seg.refl _⟩
  | @step e m s sc n st _ ih =>
    intro t k f kn gs r h
    obtain ⟨gs1, r1, h1, hseg⟩ := tailStep_emits st h
    have := (ih h1).mono hseg
    have hk : k + sc.toNat + n = k + (n + sc.toNat) := by omega
    rw [hk] at this
    exact this

/-- below a cleared flag everything stays cleared. -/
theorem inline_off_emits {isFn : Nat → Bool} {e s : Expr} (p : Inline e s) :
    ∀ {k : Nat} {f : String} {kn : List (String × Nat)} {gs : GS} {r},
      compile isFn ⟨false, k, f, kn⟩ e gs = .ok r → ∃ k', Emits isFn ⟨false, k', f, kn⟩ s r.1.1 := by
  induction p with
  | here => intro k f kn gs r h; exact ⟨k, gs, r, h, Seg.refl _⟩
  | tail st _ ih =>
    intro k f kn gs r h
    obtain ⟨gs1, r1, h1, hseg⟩ := tailStep_emits st h
    obtain ⟨k', hk'⟩ := ih h1
    exact ⟨k', hk'.mono hseg⟩
  | nonTail st _ ih =>
    intro k f kn gs r h
    obtain ⟨k1, gs1, r1, h1, hseg⟩ := nonTailStep_emits st h
    obtain ⟨k', hk'⟩ := ih h1
    exact ⟨k', hk'.mono hseg⟩

/-- (a, "only if"): one non-tail step on the way and the flag is cleared. -/
theorem nonTailAt_emits {isFn : Nat → Bool} {e s : Expr} (p : NonTailAt e s) :
    ∀ {t : Bool} {k : Nat} {f : String} {kn : List (String × Nat)} {gs : GS} {r},
      compile isFn ⟨t, k, f, kn⟩ e gs = .ok r → ∃ k', Emits isFn ⟨false, k', f, kn⟩ s r.1.1 := by
  induction p with
  | nonTail st hi =>
    intro t k f kn gs r h
    obtain ⟨k1, gs1, r1, h1, hseg⟩ := nonTailStep_emits st h
    obtain ⟨k', hk'⟩ := inline_off_emits hi h1
    exact ⟨k', hk'.mono hseg⟩
  | tail st _ ih =>
    intro t k f kn gs r h
    obtain ⟨gs1, r1, h1, hseg⟩ := tailStep_emits st h
    obtain ⟨k', hk'⟩ := ih h1
    exact ⟨k', hk'.mono hseg⟩

/-! ## What a self call compiles to under either flag -/

/-- the arity test of `GenerateCallBySymbol` (fix c9a2ccf): the known function, if any, takes
`n` arguments. -/
def ArityOk (fo : Option FnObj) (n : Nat) : Bool :=
  match fo with
  | some fo => if fo.varargs then decide (fo.nargs ≤ n) else n == fo.nargs
  | none => true

theorem self_call_tail {isFn : Nat → Bool} {k : Nat} {f : String} {kn : List (String × Nat)}
    {args : List Expr} {gs : GS} {r} (h : compile isFn ⟨true, k, f, kn⟩ (.call (.sym f) args) gs = .ok r)
    (harity : ArityOk ((kn.lookup f).bind fun t => gs.fns[t]?) args.length = true) :
    ∃ argcode, r.1.1 = [Instr.tailGuard f (argcode.length + k + 4)] ++ argcode ++ [Instr.prepareCall f args.length] ++
      List.replicate (k + 1) Instr.removeScope ++ [Instr.goto 0, Instr.callExpr (.sym f) args] := by
  simp only [ArityOk] at harity
  simp only [compile, Bool.true_and, beq_self_eq_true, ↓reduceIte, bind_ok, get_ok] at h
  obtain ⟨g, gs1, heq, h⟩ := h
  cases heq
  generalize ((kn.lookup f).bind fun t => gs.fns[t]?) = fo at h harity
  cases fo with
  | none =>
    simp only [↓reduceIte, bind_ok, pure_ok] at h
    obtain ⟨code, gs2, _, rfl⟩ := h
    exact ⟨code, rfl⟩
  | some fo =>
    simp only at harity h
    simp only [harity, ↓reduceIte, bind_ok, pure_ok] at h
    obtain ⟨code, gs2, _, rfl⟩ := h
    exact ⟨code, rfl⟩

/-- a self call in tail position with the wrong number of arguments is an ordinary call (it
reports the arity error at run time like any other call). -/
theorem self_call_wrong_arity {isFn : Nat → Bool} {k : Nat} {f : String} {kn : List (String × Nat)}
    {args : List Expr} {gs : GS} {r} (h : compile isFn ⟨true, k, f, kn⟩ (.call (.sym f) args) gs = .ok r)
    (harity : ArityOk ((kn.lookup f).bind fun t => gs.fns[t]?) args.length = false) :
    r.1.1 = [Instr.callExpr (.sym f) args] := by
  simp only [ArityOk] at harity
  simp only [compile, Bool.true_and, beq_self_eq_true, ↓reduceIte, bind_ok, get_ok] at h
  obtain ⟨g, gs1, heq, h⟩ := h
  cases heq
  generalize ((kn.lookup f).bind fun t => gs.fns[t]?) = fo at h harity
  cases fo with
  | none => simp at harity
  | some fo =>
    simp only at harity h
    simp only [harity, Bool.false_eq_true, ↓reduceIte, pure_ok] at h
    subst h; rfl

theorem call_off {isFn : Nat → Bool} {k : Nat} {f h : String} {kn : List (String × Nat)}
    {args : List Expr} {gs : GS} {r} (hc : compile isFn ⟨false, k, f, kn⟩ (.call (.sym h) args) gs = .ok r) :
    r.1.1 = [Instr.callExpr (.sym h) args] := by
  simp only [compile, Bool.false_and, Bool.false_eq_true, ↓reduceIte, pure_ok] at hc
  subst hc; rfl

end ZygoVerif.Tail
