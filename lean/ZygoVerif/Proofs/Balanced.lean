/-
Proofs/Balanced.lean — soundness of the balance checker (Spec/Balanced.lean) with respect
to the stack-effect machine (Model/StackEffect.lean).

`Conc frames base own` is the concretisation: the cells `own` that the function put on the
data stack since its entry are described by the abstract frames. The invariant `Inv` says
that the machine state at pc is described by the annotation at pc and that the caller's part
`D` of the data stack is still underneath, untouched. `inv_step` shows that every machine
step preserves it when the annotation verifies. Core-only.
-/
import ZygoVerif.Spec.Balanced
import ZygoVerif.Model.StackEffect
namespace ZygoVerif.Bal

/-! ## Concretisation -/

def delim : FK → Cell
  | .marker => .marker
  | .mark s => .mark s

/-- The cells above a frame's delimiter, given the stack-marks open at or below the frame. -/
def CntOk (opn : List Nat) (c : Cnt) (cs : List Cell) : Prop :=
  match c.shape with
  | .exact => cs = List.replicate c.n .val
  | .vals => ∃ m, c.n ≤ m ∧ cs = List.replicate m .val
  | .junk => ∃ rest, cs = List.replicate c.n .val ++ rest ∧ ∀ x ∈ rest, ∀ s ∈ opn, x ≠ .mark s

inductive Conc : List Frame → Nat → List Cell → Prop
  | base (n : Nat) : Conc [] n (List.replicate n .val)
  | frame (fr : Frame) (rest : List Frame) (n : Nat) (above below : List Cell) :
      CntOk (openMarks (fr :: rest)) fr.cnt above → Conc rest n below →
      Conc (fr :: rest) n (above ++ delim fr.kind :: below)

/-! ## Small list facts -/

theorem replicate_app (m k : Nat) (v : Cell) :
    List.replicate m v ++ List.replicate k v = List.replicate (k + m) v := by
  rw [List.replicate_append_replicate, Nat.add_comm]

theorem replicate_split (p n : Nat) (h : p ≤ n) (v : Cell) :
    List.replicate n v = List.replicate p v ++ List.replicate (n - p) v := by
  rw [List.replicate_append_replicate]; congr 1; omega

/-- Splitting a list at the first occurrence of `x` is unique. -/
theorem split_unique {x : Cell} : ∀ (a a' b b' : List Cell),
    a ++ x :: b = a' ++ x :: b' → x ∉ a → x ∉ a' → a = a' ∧ b = b'
  | [], [], b, b', h, _, _ => by simp at h; exact ⟨rfl, h⟩
  | [], y :: a', b, b', h, _, h2 => by
    simp at h; exact absurd h.1.symm (by intro e; exact h2 (by simp [e]))
  | y :: a, [], b, b', h, h1, _ => by
    simp at h; exact absurd h.1 (by intro e; exact h1 (by simp [e]))
  | y :: a, z :: a', b, b', h, h1, h2 => by
    simp at h
    obtain ⟨hyz, ht⟩ := h
    have := split_unique a a' b b' ht (fun m => h1 (by simp [m])) (fun m => h2 (by simp [m]))
    exact ⟨by rw [hyz, this.1], this.2⟩

/-- Popping `p` cells off a stack whose top `p` cells are known. -/
theorem pop_known {popped rest known tail : List Cell} (h : popped ++ rest = known ++ tail)
    (hl : popped.length = known.length) : popped = known ∧ rest = tail :=
  List.append_inj h hl

/-! ## Order lemmas -/

theorem openMarks_of_le : ∀ (fs gs : List Frame), framesLe fs gs = true → openMarks fs = openMarks gs
  | [], [], _ => rfl
  | [], _ :: _, h => by simp [framesLe] at h
  | _ :: _, [], h => by simp [framesLe] at h
  | f :: fs, g :: gs, h => by
    simp only [framesLe, Bool.and_eq_true, Frame.le, beq_iff_eq] at h
    obtain ⟨⟨hk, _⟩, ht⟩ := h
    have ih := openMarks_of_le fs gs ht
    obtain ⟨fk, fc⟩ := f
    obtain ⟨gk, gc⟩ := g
    simp only at hk
    subst hk
    cases fk <;> simp [openMarks, ih]

theorem cntOk_mono (opn : List Nat) (a b : Cnt) (cs : List Cell) (h : a.le b = true)
    (hc : CntOk opn a cs) : CntOk opn b cs := by
  obtain ⟨as, an⟩ := a
  obtain ⟨bs, bn⟩ := b
  simp only [Cnt.le, Bool.and_eq_true] at h
  obtain ⟨hs, hn⟩ := h
  cases as <;> cases bs <;> simp [Shape.le] at hs <;> simp [CntOk] at hc ⊢ <;> simp at hn
  · -- exact ≤ exact
    subst hn; exact hc
  · -- exact ≤ vals
    exact ⟨an, hn, hc⟩
  · -- exact ≤ junk
    refine ⟨List.replicate (an - bn) .val, ?_, ?_⟩
    · rw [hc]; exact replicate_split bn an hn .val
    · intro x hx s _; rw [List.mem_replicate] at hx; rw [hx.2]; simp
  · -- vals ≤ vals
    obtain ⟨m, hm, rfl⟩ := hc
    exact ⟨m, by omega, rfl⟩
  · -- vals ≤ junk
    obtain ⟨m, hm, rfl⟩ := hc
    refine ⟨List.replicate (m - bn) .val, replicate_split bn m (by omega) .val, ?_⟩
    intro x hx s _; rw [List.mem_replicate] at hx; rw [hx.2]; simp
  · -- junk ≤ junk
    obtain ⟨rest, rfl, hr⟩ := hc
    refine ⟨List.replicate (an - bn) .val ++ rest, ?_, ?_⟩
    · rw [← List.append_assoc, ← replicate_split bn an hn .val]
    · intro x hx s hs'
      rcases List.mem_append.mp hx with hx | hx
      · rw [List.mem_replicate] at hx; rw [hx.2]; simp
      · exact hr x hx s hs'

theorem conc_mono : ∀ (fs gs : List Frame) (n : Nat) (cs : List Cell),
    framesLe fs gs = true → Conc fs n cs → Conc gs n cs
  | [], [], _, _, _, h => h
  | [], _ :: _, _, _, h, _ => by simp [framesLe] at h
  | _ :: _, [], _, _, h, _ => by simp [framesLe] at h
  | f :: fs, g :: gs, n, cs, h, hc => by
    have hom := openMarks_of_le (f :: fs) (g :: gs) h
    simp only [framesLe, Bool.and_eq_true, Frame.le, beq_iff_eq] at h
    obtain ⟨⟨hk, hcl⟩, ht⟩ := h
    cases hc with
    | frame _ _ _ above below hcnt hrest =>
      have := conc_mono fs gs n below ht hrest
      rw [hk]
      refine Conc.frame g gs n above below ?_ this
      rw [← hom]
      exact cntOk_mono _ _ _ _ hcl hcnt

/-! ## `popPush` -/

theorem cntOk_popPush (opn : List Nat) (c : Cnt) (above : List Cell) (p m : Nat) (hp : p ≤ c.n)
    (h : CntOk opn c above) :
    ∃ tail, above = List.replicate p .val ++ tail ∧
      CntOk opn { c with n := c.n - p + m } (List.replicate m .val ++ tail) := by
  obtain ⟨sh, n⟩ := c
  simp only at hp
  cases sh <;> simp only [CntOk] at h ⊢
  · refine ⟨List.replicate (n - p) .val, ?_, ?_⟩
    · rw [h]; exact replicate_split p n hp .val
    · exact replicate_app m (n - p) .val
  · obtain ⟨k, hk, rfl⟩ := h
    refine ⟨List.replicate (k - p) .val, replicate_split p k (by omega) .val, k - p + m, by omega, ?_⟩
    exact replicate_app m (k - p) .val
  · obtain ⟨rest, rfl, hr⟩ := h
    refine ⟨List.replicate (n - p) .val ++ rest, ?_, rest, ?_, hr⟩
    · rw [← List.append_assoc, ← replicate_split p n hp .val]
    · rw [← List.append_assoc, replicate_app m (n - p) .val]

/-- `popPush a p m = some a'`: the top `p` cells of the function's own part are ordinary
values; replacing them by `m` values is described by `a'`. -/
theorem popPush_sound (a a' : AState) (p m : Nat) (own : List Cell)
    (h : popPush a p m = some a') (hc : Conc a.frames a.base own) :
    a'.k = a.k ∧ ∃ tail, own = List.replicate p .val ++ tail ∧
      Conc a'.frames a'.base (List.replicate m .val ++ tail) := by
  obtain ⟨k, frames, base⟩ := a
  cases frames with
  | nil =>
    simp only [popPush] at h
    split at h
    · rename_i hp
      cases h
      cases hc
      refine ⟨rfl, List.replicate (base - p) .val, replicate_split p base hp .val, ?_⟩
      simp only
      rw [replicate_app]
      exact Conc.base _
    · cases h
  | cons fr rest =>
    simp only [popPush] at h
    split at h
    · rename_i hp
      cases h
      cases hc with
      | frame _ _ _ above below hcnt hrest =>
        obtain ⟨tail, ht, hok⟩ := cntOk_popPush _ fr.cnt above p m hp hcnt
        refine ⟨rfl, tail ++ delim fr.kind :: below, ?_, ?_⟩
        · rw [ht, List.append_assoc]
        · simp only
          rw [← List.append_assoc]
          have hk : ({ fr with cnt := { fr.cnt with n := fr.cnt.n - p + m } } : Frame).kind = fr.kind := rfl
          have := Conc.frame { fr with cnt := { fr.cnt with n := fr.cnt.n - p + m } } rest base
            (List.replicate m .val ++ tail) below
          rw [hk] at this
          apply this
          · have ho : openMarks ({ fr with cnt := { fr.cnt with n := fr.cnt.n - p + m } } :: rest)
                = openMarks (fr :: rest) := by
              obtain ⟨fk, fc⟩ := fr
              cases fk <;> rfl
            rw [ho]; exact hok
          · exact hrest
    · cases h

/-! ## Cutting back to an open stack-mark -/

theorem cutTo_spec : ∀ (s : Nat) (fs pre rest : List Frame) (fr : Frame),
    cutTo s fs = some (pre, fr, rest) → fs = pre ++ fr :: rest ∧ fr.kind = .mark s
  | _, [], _, _, _, h => by simp [cutTo] at h
  | s, f :: fs, pre, rest, fr, h => by
    simp only [cutTo] at h
    split at h
    · rename_i hk
      cases h
      exact ⟨rfl, hk⟩
    · split at h
      · cases h
      · rename_i pre' f' r' heq
        obtain ⟨h1, h2⟩ := cutTo_spec s fs pre' r' f' heq
        cases h
        exact ⟨by rw [h1]; rfl, h2⟩

theorem openMarks_append (pre rest : List Frame) :
    openMarks (pre ++ rest) = openMarks pre ++ openMarks rest := by
  induction pre with
  | nil => rfl
  | cons f pre ih =>
    obtain ⟨fk, fc⟩ := f
    cases fk <;> simp [openMarks, ih]

/-- cells of a region avoid every stack-mark open at or below it -/
theorem cntOk_avoid (opn : List Nat) (c : Cnt) (above : List Cell) (h : CntOk opn c above) :
    ∀ x ∈ above, ∀ s ∈ opn, x ≠ .mark s := by
  obtain ⟨sh, n⟩ := c
  intro x hx s hs
  cases sh <;> simp only [CntOk] at h
  · rw [h, List.mem_replicate] at hx; rw [hx.2]; simp
  · obtain ⟨m, _, rfl⟩ := h
    rw [List.mem_replicate] at hx; rw [hx.2]; simp
  · obtain ⟨rest, rfl, hr⟩ := h
    rcases List.mem_append.mp hx with hx | hx
    · rw [List.mem_replicate] at hx; rw [hx.2]; simp
    · exact hr x hx s hs

/-- The cells above the delimiter of the frame `cutTo` finds contain no stack-mark that is open
at or below that frame; in particular not the mark itself, so the VM's search for the first
`mark s` stops exactly there. -/
theorem cut_sound : ∀ (s : Nat) (fs pre rest : List Frame) (fr : Frame) (n : Nat) (own : List Cell),
    cutTo s fs = some (pre, fr, rest) → (openMarks fs).Nodup → Conc fs n own →
    ∃ X below, own = X ++ .mark s :: below ∧ Conc rest n below ∧
      (∀ x ∈ X, ∀ t ∈ openMarks (fr :: rest), x ≠ .mark t)
  | _, [], _, _, _, _, _, h, _, _ => by simp [cutTo] at h
  | s, f :: fs, pre, rest, fr, n, own, h, hnd, hc => by
    simp only [cutTo] at h
    cases hc with
    | frame _ _ _ above below hcnt hrest =>
      split at h
      · rename_i hk
        cases h
        refine ⟨above, below, ?_, hrest, cntOk_avoid _ _ _ hcnt⟩
        rw [hk]; rfl
      · rename_i hk
        split at h
        · cases h
        · rename_i pre' f' r' heq
          have hspec := cutTo_spec s fs pre' r' f' heq
          have hnd' : (openMarks fs).Nodup := by
            obtain ⟨fk, fc⟩ := f
            cases fk
            · simpa [openMarks] using hnd
            · simp only [openMarks, List.nodup_cons] at hnd; exact hnd.2
          obtain ⟨X, below', hb, hcr, hav⟩ := cut_sound s fs pre' r' f' n below heq hnd' hrest
          cases h
          refine ⟨above ++ delim f.kind :: X, below', ?_, hcr, ?_⟩
          · rw [hb]; simp
          · -- marks open at or below the found frame are a suffix of those open below `f`
            have hsub : ∀ t ∈ openMarks (fr :: rest), t ∈ openMarks fs := by
              intro t ht
              rw [hspec.1, openMarks_append]
              exact List.mem_append.mpr (Or.inr ht)
            intro x hx t ht
            rcases List.mem_append.mp hx with hx | hx
            · -- cells of f's own region
              have hopen : t ∈ openMarks (f :: fs) := by
                obtain ⟨fk, fc⟩ := f
                cases fk
                · simpa [openMarks] using hsub t ht
                · simp only [openMarks, List.mem_cons]; exact Or.inr (hsub t ht)
              exact cntOk_avoid _ _ _ hcnt x hx t hopen
            · rcases List.mem_cons.mp hx with hx | hx
              · -- f's delimiter
                rw [hx]
                obtain ⟨fk, fc⟩ := f
                cases fk
                · simp [delim]
                · rename_i u
                  simp only [delim]
                  intro he
                  cases he
                  simp only [openMarks, List.nodup_cons] at hnd
                  exact hnd.1 (hsub t ht)
              · exact hav x hx t ht

/-! ## What `verify` establishes -/

/-- the local condition alone: every annotated position maps into annotated positions. This is all
the preservation theorem `inv_step` needs (used for code that runs from a position other than 0:
a top-level text appended to `mainfunc`). -/
structure StepVerified (f : Fn) (ann : Ann) : Prop where
  step : ∀ pc a i, annAt ann pc = some a → f.code[pc]? = some i →
    a.wf = true ∧ ∃ succs, astep f pc i a = .ok succs ∧
      ∀ p ∈ succs, ∃ t, annAt ann p.1 = some t ∧ p.2.le t = true

structure Verified (f : Fn) (ann : Ann) : Prop where
  entry : ∃ t, annAt ann 0 = some t ∧ f.entry.le t = true
  step : ∀ pc a i, annAt ann pc = some a → f.code[pc]? = some i →
    a.wf = true ∧ ∃ succs, astep f pc i a = .ok succs ∧
      ∀ p ∈ succs, ∃ t, annAt ann p.1 = some t ∧ p.2.le t = true
  fin : endOk f ann = true

theorem succOk_elim (ann : Ann) (p : Nat × AState) (h : succOk ann p = true) :
    ∃ t, annAt ann p.1 = some t ∧ p.2.le t = true := by
  unfold succOk at h
  split at h
  · rename_i t ht; exact ⟨t, ht, h⟩
  · cases h

theorem verified_of_verify (f : Fn) (ann : Ann) (h : verify f ann = true) : Verified f ann := by
  simp only [verify, Bool.and_eq_true] at h
  obtain ⟨⟨⟨_, hentry⟩, hall⟩, hfin⟩ := h
  refine ⟨succOk_elim ann (0, f.entry) hentry, ?_, hfin⟩
  intro pc a i ha hi
  have hlt : pc < f.code.length := by
    rcases Nat.lt_or_ge pc f.code.length with h | h
    · exact h
    · rw [List.getElem?_eq_none_iff.mpr h] at hi; cases hi
  have hok := List.all_eq_true.mp hall pc (List.mem_range.mpr hlt)
  unfold okAt at hok
  rw [ha, hi] at hok
  simp only [Bool.and_eq_true] at hok
  obtain ⟨hwf, hrest⟩ := hok
  refine ⟨hwf, ?_⟩
  split at hrest
  · rename_i succs hs
    exact ⟨succs, hs, fun p hp => succOk_elim ann p (List.all_eq_true.mp hrest p hp)⟩
  · cases hrest

theorem le_elim (s t : AState) (h : s.le t = true) :
    s.k = t.k ∧ s.base = t.base ∧ framesLe s.frames t.frames = true := by
  simp only [AState.le, Bool.and_eq_true, beq_iff_eq] at h
  exact ⟨h.1.1, h.1.2, h.2⟩

/-! ## The invariant -/

/-- The machine state `c` is described by the annotation at its pc; underneath the cells the
function put on the data stack lies the caller's part `D`, untouched; `S` scopes and `A`
return addresses were there at entry. -/
def Inv (ann : Ann) (D : List Cell) (S A : Nat) (c : CState) : Prop :=
  ∃ a own, annAt ann c.pc = some a ∧ c.data = own ++ D ∧ Conc a.frames a.base own ∧
    c.sc = S + a.k ∧ c.addr = A

theorem inv_mk {ann : Ann} {D : List Cell} {S A : Nat} {c' : CState} {s' : AState} {own' : List Cell}
    (hs : ∃ t, annAt ann c'.pc = some t ∧ s'.le t = true)
    (hd : c'.data = own' ++ D) (hc : Conc s'.frames s'.base own')
    (hsc : c'.sc = S + s'.k) (ha : c'.addr = A) : Inv ann D S A c' := by
  obtain ⟨t, ht, hle⟩ := hs
  obtain ⟨hk, hb, hf⟩ := le_elim s' t hle
  refine ⟨t, own', ht, hd, ?_, ?_, ha⟩
  · rw [← hb]; exact conc_mono _ _ _ _ hf hc
  · rw [← hk]; exact hsc

/-! ## Every step preserves the invariant -/

theorem target_bound {pc : Nat} {off : Int} {len t : Nat} (h : target pc off len = some t) :
    (t : Int) = (pc : Int) + off := by
  unfold target at h
  simp only at h
  split at h
  · rename_i hb
    cases h
    omega
  · cases h

theorem inv_step_s (f : Fn) (ann : Ann) (hv : StepVerified f ann) (D : List Cell) (S A : Nat)
    (c c' : CState) (hinv : Inv ann D S A c) (hstep : CStep f c c') : Inv ann D S A c' := by
  obtain ⟨a, own, hann, hdata, hconc, hsc, haddr⟩ := hinv
  cases hstep with
  | simple i p m popped rest hi he hd hl =>
    obtain ⟨hwf, succs, hast, hall⟩ := hv.step c.pc a i hann hi
    simp only [astep, he] at hast
    split at hast
    · rename_i a' hpp
      cases hast
      obtain ⟨hk, tail, hown, hc'⟩ := popPush_sound a a' p m own hpp hconc
      have hsplit : popped = List.replicate p .val ∧ rest = tail ++ D :=
        pop_known (by rw [← hd, hdata, hown, List.append_assoc]) (by simp [hl])
      refine inv_mk (s' := a') (own' := List.replicate m .val ++ tail) (hall (c.pc + 1, a') (by simp)) ?_ hc' ?_ haddr
      · simp [hsplit.2]
      · simp [hk, hsc]
    · cases hast
  | dup i x rest hi he hd =>
    obtain ⟨hwf, succs, hast, hall⟩ := hv.step c.pc a i hann hi
    simp only [astep, he] at hast
    split at hast
    · rename_i a' hpp
      cases hast
      obtain ⟨hk, tail, hown, hc'⟩ := popPush_sound a a' 1 2 own hpp hconc
      have hsplit : [x] = List.replicate 1 .val ∧ rest = tail ++ D :=
        pop_known (popped := [x]) (by rw [List.singleton_append, ← hd, hdata, hown, List.append_assoc]) (by simp)
      have hx : x = .val := by simpa using hsplit.1
      refine inv_mk (s' := a') (own' := List.replicate 2 .val ++ tail) (hall (c.pc + 1, a') (by simp)) ?_ hc' ?_ haddr
      · simp [hsplit.2, hx, List.replicate]
      · simp [hk, hsc]
    · cases hast
  | popCell i x rest hi he hd =>
    obtain ⟨hwf, succs, hast, hall⟩ := hv.step c.pc a i hann hi
    simp only [astep, he] at hast
    split at hast
    · rename_i a' hpp
      cases hast
      obtain ⟨hk, tail, hown, hc'⟩ := popPush_sound a a' 1 0 own hpp hconc
      have hsplit : [x] = List.replicate 1 .val ∧ rest = tail ++ D :=
        pop_known (popped := [x]) (by rw [List.singleton_append, ← hd, hdata, hown, List.append_assoc]) (by simp)
      refine inv_mk (s' := a') (own' := tail) (hall (c.pc + 1, a') (by simp)) ?_ (by simpa using hc') ?_ haddr
      · simp [hsplit.2]
      · simp [hk, hsc]
    · split at hast
      · rename_i s rest' hfr
        cases hast
        rw [hfr] at hconc
        cases hconc with
        | frame _ _ _ above below hcnt hrest =>
          simp only [CntOk] at hcnt
          subst hcnt
          have hrest' : rest = below ++ D := by
            have : x :: rest = Cell.mark s :: (below ++ D) := by
              rw [← hd, hdata]; simp [delim]
            exact (List.cons.inj this).2
          refine inv_mk (s' := { a with frames := rest' }) (own' := below)
            (hall (c.pc + 1, { a with frames := rest' }) (by simp)) ?_ hrest ?_ haddr
          · simp [hrest']
          · simp [hsc]
      · cases hast
  | popEmpty i hi he hd =>
    obtain ⟨hwf, succs, hast, hall⟩ := hv.step c.pc a i hann hi
    have hown : own = [] := by
      have : own ++ D = [] := by rw [← hdata, hd]
      exact (List.append_eq_nil_iff.mp this).1
    simp only [astep, he] at hast
    split at hast
    · rename_i a' hpp
      obtain ⟨_, tail, hown', _⟩ := popPush_sound a a' 1 0 own hpp hconc
      rw [hown] at hown'
      simp [List.replicate] at hown'
    · split at hast
      · rename_i s rest' hfr
        rw [hfr] at hconc
        cases hconc with
        | frame _ _ _ above below hcnt hrest =>
          simp at hown
      · cases hast
  | jump i off t hi he ht =>
    obtain ⟨hwf, succs, hast, hall⟩ := hv.step c.pc a i hann hi
    simp only [astep, he, ht] at hast
    cases hast
    exact inv_mk (s' := a) (own' := own) (hall (t, a) (by simp)) hdata hconc hsc haddr
  | goto i loc t hi he ht =>
    obtain ⟨hwf, succs, hast, hall⟩ := hv.step c.pc a i hann hi
    simp only [astep, he, ht] at hast
    cases hast
    exact inv_mk (s' := a) (own' := own) (hall (t, a) (by simp)) hdata hconc hsc haddr
  | branchTaken i off x rest t hi he hd ht =>
    obtain ⟨hwf, succs, hast, hall⟩ := hv.step c.pc a i hann hi
    simp only [astep, he, ht] at hast
    split at hast
    · rename_i a' t' hpp htt
      cases htt
      cases hast
      obtain ⟨hk, tail, hown, hc'⟩ := popPush_sound a a' 1 0 own hpp hconc
      have hsplit : [x] = List.replicate 1 .val ∧ rest = tail ++ D :=
        pop_known (popped := [x]) (by rw [List.singleton_append, ← hd, hdata, hown, List.append_assoc]) (by simp)
      refine inv_mk (s' := a') (own' := tail) (hall (t, a') (by simp)) ?_ (by simpa using hc') ?_ haddr
      · simp [hsplit.2]
      · simp [hk, hsc]
    · cases hast
    · cases hast
  | branchFall i off x rest hi he hd =>
    obtain ⟨hwf, succs, hast, hall⟩ := hv.step c.pc a i hann hi
    simp only [astep, he] at hast
    split at hast
    · rename_i a' t' hpp htt
      cases hast
      obtain ⟨hk, tail, hown, hc'⟩ := popPush_sound a a' 1 0 own hpp hconc
      have hsplit : [x] = List.replicate 1 .val ∧ rest = tail ++ D :=
        pop_known (popped := [x]) (by rw [List.singleton_append, ← hd, hdata, hown, List.append_assoc]) (by simp)
      refine inv_mk (s' := a') (own' := tail) (hall (c.pc + 1, a') (by simp)) ?_ (by simpa using hc') ?_ haddr
      · simp [hsplit.2]
      · simp [hk, hsc]
    · cases hast
    · cases hast
  | guardTaken i off t hi he ht =>
    obtain ⟨hwf, succs, hast, hall⟩ := hv.step c.pc a i hann hi
    simp only [astep, he, ht] at hast
    cases hast
    exact inv_mk (s' := a) (own' := own) (hall (t, a) (by simp)) hdata hconc hsc haddr
  | guardFall i off hi he =>
    obtain ⟨hwf, succs, hast, hall⟩ := hv.step c.pc a i hann hi
    simp only [astep, he] at hast
    split at hast
    · cases hast
      exact inv_mk (s' := a) (own' := own) (hall (c.pc + 1, a) (by simp)) hdata hconc hsc haddr
    · cases hast
  | scopeUp i hi he =>
    obtain ⟨hwf, succs, hast, hall⟩ := hv.step c.pc a i hann hi
    simp only [astep, he] at hast
    cases hast
    refine inv_mk (s' := { a with k := a.k + 1 }) (own' := own)
      (hall (c.pc + 1, { a with k := a.k + 1 }) (by simp)) hdata hconc ?_ haddr
    simp [hsc]; omega
  | scopeDown i n hi he hn =>
    obtain ⟨hwf, succs, hast, hall⟩ := hv.step c.pc a i hann hi
    simp only [astep, he] at hast
    split at hast
    · rename_i hk
      cases hast
      refine inv_mk (s' := { a with k := a.k - 1 }) (own' := own)
        (hall (c.pc + 1, { a with k := a.k - 1 }) (by simp)) hdata hconc ?_ haddr
      simp; omega
    · cases hast
  | pushMarker i hi he =>
    obtain ⟨hwf, succs, hast, hall⟩ := hv.step c.pc a i hann hi
    simp only [astep, he] at hast
    cases hast
    refine inv_mk (s' := { a with frames := ⟨.marker, ⟨.exact, 0⟩⟩ :: a.frames }) (own' := .marker :: own)
      (hall (c.pc + 1, _) (by simp)) (by simp [hdata]) ?_ hsc haddr
    exact Conc.frame ⟨.marker, ⟨.exact, 0⟩⟩ a.frames a.base [] own (by simp [CntOk]) hconc
  | closeMarker i above below hi he hd hnm =>
    obtain ⟨hwf, succs, hast, hall⟩ := hv.step c.pc a i hann hi
    simp only [astep, he] at hast
    split at hast
    · rename_i cnt rest' hfr
      split at hast
      · cases hast
      · rename_i hnj
        split at hast
        · rename_i a' hpp
          cases hast
          rw [hfr] at hconc
          cases hconc with
          | frame _ _ _ ab bl hcnt hrest =>
            have hvals : ∀ x ∈ ab, x = Cell.val := by
              obtain ⟨sh, n⟩ := cnt
              cases sh <;> simp only [CntOk] at hcnt
              · intro x hx; rw [hcnt, List.mem_replicate] at hx; exact hx.2
              · obtain ⟨m, _, rfl⟩ := hcnt
                intro x hx; rw [List.mem_replicate] at hx; exact hx.2
              · exact absurd rfl hnj
            have hnm' : Cell.marker ∉ ab := fun hm => by have := hvals _ hm; cases this
            have heq : above ++ Cell.marker :: below = ab ++ Cell.marker :: (bl ++ D) := by
              rw [← hd, hdata]; simp [delim]
            obtain ⟨_, hbelow⟩ := split_unique above ab below (bl ++ D) heq hnm hnm'
            obtain ⟨hk, tail, hown, hc'⟩ := popPush_sound { a with frames := rest' } a' 0 1 bl hpp hrest
            simp only [List.replicate, List.nil_append] at hown
            subst hown
            refine inv_mk (s' := a') (own' := .val :: bl) (hall (c.pc + 1, a') (by simp)) ?_ (by simpa [List.replicate] using hc') ?_ haddr
            · simp [hbelow]
            · simp [hk, hsc]
        · cases hast
    · cases hast
  | explode i x rest n hi he hd =>
    obtain ⟨hwf, succs, hast, hall⟩ := hv.step c.pc a i hann hi
    simp only [astep, he] at hast
    split at hast
    · rename_i cnt rest' hfr
      split at hast
      · cases hast
      · rename_i hnj
        split at hast
        · rename_i hge
          cases hast
          rw [hfr] at hconc
          cases hconc with
          | frame _ _ _ ab bl hcnt hrest =>
            -- the region holds m ≥ cnt.n ≥ 1 values
            have hm : ∃ m, cnt.n ≤ m ∧ ab = List.replicate m .val := by
              obtain ⟨sh, k⟩ := cnt
              cases sh <;> simp only [CntOk] at hcnt
              · exact ⟨k, Nat.le_refl _, hcnt⟩
              · exact hcnt
              · exact absurd rfl hnj
            obtain ⟨m, hmn, rfl⟩ := hm
            obtain ⟨m', rfl⟩ : ∃ m', m = m' + 1 := ⟨m - 1, by omega⟩
            have hrest' : rest = List.replicate m' .val ++ Cell.marker :: (bl ++ D) := by
              have : x :: rest = Cell.val :: (List.replicate m' .val ++ Cell.marker :: (bl ++ D)) := by
                rw [← hd, hdata]; simp [delim, List.replicate_succ]
              exact (List.cons.inj this).2
            refine inv_mk (s' := { a with frames := ⟨.marker, ⟨.vals, cnt.n - 1⟩⟩ :: rest' })
              (own' := (List.replicate n .val ++ List.replicate m' .val) ++ Cell.marker :: bl)
              (hall (c.pc + 1, _) (by simp)) ?_ ?_ hsc haddr
            · show List.replicate n .val ++ rest
                = ((List.replicate n .val ++ List.replicate m' .val) ++ Cell.marker :: bl) ++ D
              rw [hrest']
              simp only [List.append_assoc, List.cons_append]
            · refine Conc.frame ⟨.marker, ⟨.vals, cnt.n - 1⟩⟩ rest' a.base _ bl ?_ hrest
              simp only [CntOk]
              exact ⟨m' + n, by omega, replicate_app n m' .val⟩
        · cases hast
    · cases hast
  | pushMark i s hi he =>
    obtain ⟨hwf, succs, hast, hall⟩ := hv.step c.pc a i hann hi
    simp only [astep, he] at hast
    split at hast
    · cases hast
    · cases hast
      refine inv_mk (s' := { a with frames := ⟨.mark s, ⟨.exact, 0⟩⟩ :: a.frames }) (own' := .mark s :: own)
        (hall (c.pc + 1, _) (by simp)) (by simp [hdata]) ?_ hsc haddr
      exact Conc.frame ⟨.mark s, ⟨.exact, 0⟩⟩ a.frames a.base [] own (by simp [CntOk]) hconc
  | popUntil i s above below hi he hd hnm =>
    obtain ⟨hwf, succs, hast, hall⟩ := hv.step c.pc a i hann hi
    simp only [astep, he] at hast
    split at hast
    · rename_i pre fr rest' hcut
      cases hast
      have hnd : (openMarks a.frames).Nodup := by simpa [AState.wf] using hwf
      obtain ⟨X, bl, hown, hcr, hav⟩ := cut_sound s a.frames pre rest' fr a.base own hcut hnd hconc
      have hkind := (cutTo_spec s a.frames pre rest' fr hcut).2
      have hsin : s ∈ openMarks (fr :: rest') := by
        obtain ⟨fk, fc⟩ := fr; simp only at hkind; subst hkind; simp [openMarks]
      have hnm' : Cell.mark s ∉ X := fun hm => hav _ hm s hsin rfl
      have heq : above ++ Cell.mark s :: below = X ++ Cell.mark s :: (bl ++ D) := by
        rw [← hd, hdata, hown]; simp
      obtain ⟨_, hbelow⟩ := split_unique above X below (bl ++ D) heq hnm hnm'
      refine inv_mk (s' := { a with frames := { fr with cnt := ⟨.exact, 0⟩ } :: rest' }) (own' := .mark s :: bl)
        (hall (c.pc + 1, _) (by simp)) (by simp [hbelow]) ?_ hsc haddr
      have := Conc.frame { fr with cnt := ⟨.exact, 0⟩ } rest' a.base [] bl (by simp [CntOk]) hcr
      simpa [hkind, delim] using this
    · cases hast
  | clearMark i s above below hi he hd hnm =>
    obtain ⟨hwf, succs, hast, hall⟩ := hv.step c.pc a i hann hi
    simp only [astep, he] at hast
    split at hast
    · rename_i pre fr rest' hcut
      cases hast
      have hnd : (openMarks a.frames).Nodup := by simpa [AState.wf] using hwf
      obtain ⟨X, bl, hown, hcr, hav⟩ := cut_sound s a.frames pre rest' fr a.base own hcut hnd hconc
      have hkind := (cutTo_spec s a.frames pre rest' fr hcut).2
      have hsin : s ∈ openMarks (fr :: rest') := by
        obtain ⟨fk, fc⟩ := fr; simp only at hkind; subst hkind; simp [openMarks]
      have hnm' : Cell.mark s ∉ X := fun hm => hav _ hm s hsin rfl
      have heq : above ++ Cell.mark s :: below = X ++ Cell.mark s :: (bl ++ D) := by
        rw [← hd, hdata, hown]; simp
      obtain ⟨_, hbelow⟩ := split_unique above X below (bl ++ D) heq hnm hnm'
      exact inv_mk (s' := { a with frames := rest' }) (own' := bl)
        (hall (c.pc + 1, _) (by simp)) (by simp [hbelow]) hcr hsc haddr
    · cases hast
  | exitLoop i l off p pos hi he hpos hge hp =>
    obtain ⟨hwf, succs, hast, hall⟩ := hv.step c.pc a i hann hi
    simp only [astep, he, hpos] at hast
    split at hast
    · rename_i pre fr rest' hcut
      split at hast
      · rename_i hpk
        split at hast
        · rename_i t ht
          cases hast
          have htt : ((pos : Int) + off).toNat = t := by
            have := target_bound ht; omega
          have hnd : (openMarks a.frames).Nodup := by simpa [AState.wf] using hwf
          obtain ⟨X, bl, hown, hcr, hav⟩ := cut_sound l a.frames pre rest' fr a.base own hcut hnd hconc
          have hkind := (cutTo_spec l a.frames pre rest' fr hcut).2
          refine inv_mk (s' := { a with k := a.k - p, frames := { fr with cnt := ⟨.junk, 0⟩ } :: rest' })
            (own' := own) ?_ hdata ?_ ?_ haddr
          · have := hall (t, { a with k := a.k - p, frames := { fr with cnt := ⟨.junk, 0⟩ } :: rest' }) (by simp)
            simpa [htt] using this
          · have hom : openMarks ({ fr with cnt := ⟨.junk, 0⟩ } :: rest') = openMarks (fr :: rest') := by
              obtain ⟨fk, fc⟩ := fr; cases fk <;> rfl
            have := Conc.frame { fr with cnt := ⟨.junk, 0⟩ } rest' a.base X bl
              (by simp only [CntOk]; exact ⟨X, by simp, by rw [hom]; exact hav⟩) hcr
            rw [hown]
            simpa [hkind, delim] using this
          · simp [hsc]; omega
        · cases hast
      · cases hast
    · cases hast
  | xfer i n hi he hn =>
    obtain ⟨hwf, succs, hast, hall⟩ := hv.step c.pc a i hann hi
    simp only [astep, he] at hast
    split at hast
    · rename_i hk
      split at hast
      · rename_i a' hpp
        cases hast
        obtain ⟨hk', tail, hown, hc'⟩ := popPush_sound { a with k := a.k - 1 } a' 0 1 own hpp hconc
        simp only [List.replicate, List.nil_append] at hown
        subst hown
        refine inv_mk (s' := a') (own' := .val :: own) (hall (c.pc + 1, a') (by simp)) (by simp [hdata])
          (by simpa [List.replicate] using hc') ?_ haddr
        simp [hk']; omega
      · cases hast
    · cases hast
  | prepareVar i n popped rest hi he hvar hn hd hl =>
    obtain ⟨hwf, succs, hast, hall⟩ := hv.step c.pc a i hann hi
    simp only [astep, he, hvar, hn, if_true] at hast
    split at hast
    · rename_i a' hpp
      cases hast
      obtain ⟨hk, tail, hown, hc'⟩ := popPush_sound a a' (n - f.nfixed) 1 own hpp hconc
      have hsplit : popped = List.replicate (n - f.nfixed) .val ∧ rest = tail ++ D :=
        pop_known (by rw [← hd, hdata, hown, List.append_assoc]) (by simp [hl])
      refine inv_mk (s' := a') (own' := .val :: tail) (hall (c.pc + 1, a') (by simp)) ?_
        (by simpa [List.replicate] using hc') ?_ haddr
      · simp [hsplit.2]
      · simp [hk, hsc]
    · cases hast
  | prepareFix i n hi he hvar =>
    obtain ⟨hwf, succs, hast, hall⟩ := hv.step c.pc a i hann hi
    simp only [astep, he, hvar] at hast
    cases hast
    exact inv_mk (s' := a) (own' := own) (hall (c.pc + 1, a) (by simp)) hdata hconc hsc haddr

/-! ## Executions -/

theorem Verified.toStep {f : Fn} {ann : Ann} (hv : Verified f ann) : StepVerified f ann := ⟨hv.step⟩

theorem inv_step (f : Fn) (ann : Ann) (hv : Verified f ann) (D : List Cell) (S A : Nat)
    (c c' : CState) (hinv : Inv ann D S A c) (hstep : CStep f c c') : Inv ann D S A c' :=
  inv_step_s f ann hv.toStep D S A c c' hinv hstep

theorem inv_entry (f : Fn) (ann : Ann) (hv : Verified f ann) (D : List Cell) (S A : Nat) (c0 : CState)
    (h0 : c0.pc = 0) (hd : c0.data = List.replicate f.entryCount .val ++ D)
    (hs : c0.sc = S) (ha : c0.addr = A) : Inv ann D S A c0 :=
  inv_mk (s' := f.entry) (own' := List.replicate f.entryCount .val)
    (by rw [h0]; exact hv.entry) hd (Conc.base _) (by simp [Fn.entry, hs]) ha

theorem inv_reach (f : Fn) (ann : Ann) (hv : Verified f ann) (D : List Cell) (S A : Nat)
    (c0 c : CState) (hr : Reach f c0 c) (h0 : Inv ann D S A c0) : Inv ann D S A c := by
  induction hr with
  | refl => exact h0
  | step c' c'' _ hstep ih => exact inv_step f ann hv D S A c' c'' ih hstep

/-- At `ret`: exactly one value on top of the caller's stack, the caller's scopes. -/
theorem inv_at_ret_s (f : Fn) (ann : Ann) (hv : StepVerified f ann) (D : List Cell) (S A : Nat) (c : CState)
    (hinv : Inv ann D S A c) (hret : AtRet f c) : c.data = .val :: D ∧ c.sc = S ∧ c.addr = A := by
  obtain ⟨a, own, hann, hdata, hconc, hsc, haddr⟩ := hinv
  obtain ⟨_, succs, hast, _⟩ := hv.step c.pc a (.ret false) hann hret
  simp only [astep, eff] at hast
  split at hast
  · rename_i h
    obtain ⟨hk, hf, hb⟩ := h
    rw [hf, hb] at hconc
    cases hconc
    exact ⟨by simp [hdata, List.replicate], by omega, haddr⟩
  · cases hast

/-- At the end of the code: only a top-level text gets there, with one value — or none at all
when the text is empty. -/
theorem inv_at_ret (f : Fn) (ann : Ann) (hv : Verified f ann) (D : List Cell) (S A : Nat) (c : CState)
    (hinv : Inv ann D S A c) (hret : AtRet f c) : c.data = .val :: D ∧ c.sc = S ∧ c.addr = A :=
  inv_at_ret_s f ann hv.toStep D S A c hinv hret

theorem inv_at_end (f : Fn) (ann : Ann) (hv : Verified f ann) (D : List Cell) (S A : Nat) (c : CState)
    (hinv : Inv ann D S A c) (hend : c.pc = f.code.length) :
    f.kind = .top ∧ c.sc = S ∧ c.addr = A ∧ (c.data = .val :: D ∨ (f.code = [] ∧ c.data = D)) := by
  obtain ⟨a, own, hann, hdata, hconc, hsc, haddr⟩ := hinv
  have hfin := hv.fin
  unfold endOk at hfin
  rw [← hend, hann] at hfin
  simp only at hfin
  split at hfin
  · rename_i hk
    simp only [Bool.and_eq_true, Bool.or_eq_true, beq_iff_eq, List.isEmpty_iff] at hfin
    obtain ⟨⟨hk0, hfr⟩, hb⟩ := hfin
    rw [hfr] at hconc
    refine ⟨hk, by omega, haddr, ?_⟩
    rcases hb with hb | ⟨hcode, hb⟩
    · rw [hb] at hconc; cases hconc
      exact Or.inl (by simp [hdata, List.replicate])
    · rw [hb] at hconc; cases hconc
      exact Or.inr ⟨hcode, by simp [hdata]⟩
  · cases hfin

/-- The caller's part of the data stack is never touched, and no scope of the caller is popped. -/
theorem inv_frame (ann : Ann) (D : List Cell) (S A : Nat) (c : CState) (hinv : Inv ann D S A c) :
    (∃ own, c.data = own ++ D) ∧ S ≤ c.sc ∧ c.addr = A := by
  obtain ⟨a, own, _, hdata, _, hsc, haddr⟩ := hinv
  exact ⟨⟨own, hdata⟩, by omega, haddr⟩

theorem check_verifies (f : Fn) (h : check f = .ok ()) : ∃ ann, verify f ann = true := by
  unfold check at h
  split at h
  · cases h
  · rename_i ann _
    split at h
    · rename_i hv; exact ⟨ann, hv⟩
    · split at h
      · cases h
      · split at h <;> cases h

/-- Whenever a verified function is (back) at its first instruction — a self tail call jumped
there — its part of the data stack holds exactly the arguments and no scope is open: every
iteration of a tail-recursive loop starts at the depths of the first one. -/
theorem inv_at_pc0 (f : Fn) (ann : Ann) (hv : Verified f ann) (D : List Cell) (S A : Nat) (c : CState)
    (hinv : Inv ann D S A c) (hpc : c.pc = 0) :
    c.data = List.replicate f.entryCount .val ++ D ∧ c.sc = S := by
  obtain ⟨a, own, hann, hdata, hconc, hsc, _⟩ := hinv
  obtain ⟨t, ht, hle⟩ := hv.entry
  rw [hpc, ht] at hann
  cases hann
  obtain ⟨hk, hb, hf⟩ := le_elim f.entry a hle
  have hfr : a.frames = [] := by
    cases hfs : a.frames with
    | nil => rfl
    | cons x xs => rw [hfs] at hf; simp [Fn.entry, framesLe] at hf
  rw [hfr] at hconc
  cases hconc
  refine ⟨?_, ?_⟩
  · rw [hdata, ← hb]; rfl
  · rw [hsc, ← hk]; rfl

end ZygoVerif.Bal
