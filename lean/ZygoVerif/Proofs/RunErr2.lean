/-
Proofs/RunErr2.lean — the calling contract on the ERROR path, part 2: the nested evaluators.

By the same induction on the fuel as `RunInv.allSpec`, with an error specification per function
of the VM's mutual block (`ErrSpec`), for the outcome `err`: the function leaves well-formed
tables that have only grown, the set-aside stacks as they were and the scope stack as it was
(`ErrOut`) — every evaluator that starts a nested `Run` restores the control state it captured,
and that restore is exact on the scope stack and the set-aside stacks because the nested `Run`
came back to ITS captured state (`run_err`). The successful prefix of every function is covered
by `allSpec'`. A host panic of a Go builtin would be turned into an error by `CallUserFunction`'s
`recover`, at a state nothing is known about; that no builtin panics from a state without nil
cells is `RunInv.sSpec` (Proofs/RunSafe.lean), so every specification here also assumes `NoNil`
(no nil cell, a scope to bind in) — which `sSpec` hands on along the successful prefix.
-/
import ZygoVerif.Proofs.RunSafe
set_option linter.unusedSimpArgs false
set_option linter.unusedVariables false
namespace ZygoVerif.RunInv
open ZygoVerif.Core ZygoVerif.VM ZygoVerif.Bal ZygoVerif.Refine ZygoVerif.TailVM ZygoVerif.Sim ZygoVerif.Contain

/-- the tables are well-formed (the data stack aside: an error exit may leave padding on it) -/
def WFd (s : St) : Prop := WF { s with data := [] }

theorem WF.wfd {s : St} (h : WF s) : WFd s := h.setData [] s.pc (fun c hc => by cases hc)

theorem WFd.same {s s' : St} (h : WFd s) (h1 : s'.fns = s.fns) (h2 : s'.loops = s.loops) (h3 : s'.loopstack = s.loopstack)
    (h4 : s'.scopes = s.scopes) (h5 : s'.heap = s.heap) (h6 : s'.lazies = s.lazies) : WFd s' := by
  have he : TExt { s with data := [] } { s' with data := [] } := TExt.same h1 h2
  refine WF.mk' h he (fun id a b => ?_) ?_ ?_ ?_ ?_ (fun c hc => by cases hc)
  · have : ({ s' with data := [] } : St).fns.length = ({ s with data := [] } : St).fns.length := by
      show s'.fns.length = s.fns.length; rw [h1]
    omega
  · show s'.loopstack = []; rw [h3]; exact h.loopstack
  · show ∀ sc ∈ s'.scopes, ∀ p ∈ sc.vars, vok s'.fns.length p.2 = true
    rw [h4, h1]; exact h.scopes
  · show ∀ a ∈ s'.heap.arrs, ∀ v ∈ a, vok s'.fns.length v = true
    rw [h5, h1]; exact h.heap
  · show ∀ lz ∈ s'.lazies, okL lz.e = true ∧ ∀ v, lz.value = some v → vok s'.fns.length v = true
    rw [h6, h1]; exact h.lazies

theorem WFd.restore {s : St} (h : WFd s) (st : CtlState) : WFd (restoreSt st s) := h.same rfl rfl rfl rfl rfl rfl
theorem WFd.park {s : St} (h : WFd s) : WFd (park s) := h.same rfl rfl rfl rfl rfl rfl

/-- what a function of the mutual block leaves when it fails -/
structure ErrOut (s s' : St) : Prop where
  tab : WFd s'
  ext : TExt s s'
  susp : s'.suspended = s.suspended
  lin : s'.linear = s.linear
  lz : LzOK s'

theorem ErrOut.refl {s : St} (h : WF s) (hl : LzOK s) : ErrOut s s := ⟨h.wfd, TExt.refl s, rfl, rfl, hl⟩

theorem ErrOut.pre {s s1 s' : St} (he : TExt s s1) (hs : s1.suspended = s.suspended) (hl : s1.linear = s.linear)
    (h : ErrOut s1 s') : ErrOut s s' := ⟨h.tab, he.trans h.ext, h.susp.trans hs, h.lin.trans hl, h.lz⟩

theorem ErrOut.faultOK {b : Base} {s s' : St} {top : Act} {rest : List Act} (hr : Running b s top rest) (h : ErrOut s s') :
    FaultOK b s s' := ⟨h.tab, h.ext, h.susp, by rw [h.lin]; exact hr.lin, h.lz⟩

/-- the error specifications of the functions of the mutual block, at one fuel -/
structure ErrSpec (n : Nat) : Prop where
  exec : ∀ (b : Base) (s s' : St) (top : Act) (rest : List Act) (i : Instr), NoNil s → WF s → Running b s top rest →
    (fnOf s s.curfunc).code[s.pc.toNat]? = some i → (exec n i).run s = (.error .err, s') → FaultOK b s s'
  resolved : ∀ (s s' : St) (f : Val) (args : List Expr), NoNil s → WF s → okLs args = true →
    (callResolved n f args).run s = (.error .err, s') → ErrOut s s'
  loop : ∀ (b : Base) (st : CtlState) (s s' : St), NoNil s → WF s → Live b s → b.linear ≠ [] → b.pc = -2 → b.main = false →
    (runLoop n st).run s = (.error .err, s') →
    ∃ s₀ s₁, TExt s s₀ ∧ s₀.suspended = s.suspended ∧ FaultOK b s₀ s₁ ∧ s' = park (restoreSt st s₁)
  run : ∀ (b : Base) (s s' : St) (top : Act), NoNil s → WF s → Running b s top [] → b.pc = -2 → b.main = false → b.linear = s.linear →
    (run n).run s = (.error .err, s') → ErrOut s s'
  nested : ∀ (f : Nat) (st : CtlState) (s s' : St), NoNil s → WF s → 2 ≤ f → f < s.fns.length →
    (fnOf s f).params.length = 0 → s.pc = -2 → (nested n f st).run s = (.error .err, s') →
    ∃ s2, s' = restoreSt st s2 ∧ ErrOut s s2
  eval : ∀ (e : Expr) (s s' : St), NoNil s → WF s → okL e = true → (evalCallExpr n e).run s = (.error .err, s') → ErrOut s s'
  prep : ∀ (f : Option FnObj) (i : Nat) (args : List Expr) (s s' : St), NoNil s → WF s → okLs args = true →
    (prepareArgs n f i args).run s = (.error .err, s') → ErrOut s s'
  user : ∀ (name : String) (k : Nat) (s s' : St) (tail : List Cell), NoNil s → WF s →
    s.data.map cellOf = List.replicate k .val ++ tail → (callUser n name k).run s = (.error .err, s') → ErrOut s s'
  builtin : ∀ (name : String) (args : List Val) (s s' : St), NoNil s → WF s → s.pc = -1 → (∀ a ∈ args, vok s.fns.length a = true) →
    (builtin n name args).run s = (.error .err, s') → ErrOut s s'
  apply : ∀ (f : Val) (args : List Val) (s s' : St), NoNil s → WF s → s.pc = -1 → vok s.fns.length f = true →
    (∀ a ∈ args, vok s.fns.length a = true) → (applyFn n f args).run s = (.error .err, s') → ErrOut s s'
  mapArr : ∀ (f : Val) (r i k : Nat) (s s' : St), NoNil s → WF s → s.pc = -1 → vok s.fns.length f = true →
    (mapArr n f r i k).run s = (.error .err, s') → ErrOut s s'
  mapList : ∀ (f l : Val) (s s' : St), NoNil s → WF s → s.pc = -1 → vok s.fns.length f = true → vok s.fns.length l = true →
    (mapList n f l).run s = (.error .err, s') → ErrOut s s'
  force : ∀ (id : Nat) (s s' : St), NoNil s → WF s → (forceLazy n id).run s = (.error .err, s') → ErrOut s s'

/-! ## `CallFunction` fails before it changes anything but the variadic tail -/

theorem callFunction_err (f k : Nat) (s s' : St) (hw : WF s) (hlz : LzOK s) (h : (callFunction f k).run s = (.error .err, s')) :
    ErrOut s s' := by
  unfold callFunction at h
  have key : Tab s s' ∧ s'.suspended = s.suspended ∧ s'.linear = s.linear ∧ s'.loopstack = s.loopstack := by
    by_cases h0 : s.data.length < k
    · vmsimp_at h [h0]; cases h; exact ⟨Tab.refl _, rfl, rfl, rfl⟩
    · by_cases h00 : (s.data.take k).any Option.isNone = true
      · vmsimp_at h [h0, h00]; cases h
      · cases hv : (fnOf s f).varargs with
        | false =>
          by_cases hk : k ≠ (fnOf s f).nargs
          · vmsimp_at h [h0, h00, hv, hk]; cases h; exact ⟨Tab.refl _, rfl, rfl, rfl⟩
          · vmsimp_at h [h0, h00, hv, hk]; cases h
        | true =>
          rw [run_bind, run_get] at h
          dsimp only at h
          simp only [h0, if_false, h00, Bool.false_eq_true, hv, if_true, run_bind, run_pure] at h
          have hwr := wrangle_frame (fnOf s f).nargs k s
          have htab := tab_wrangle (fnOf s f).nargs k s
          rcases hwo : (wrangleOptargs (fnOf s f).nargs k).run s with ⟨r, s1⟩
          rw [hwo] at h hwr htab
          cases r with
          | ok u => simp only [run_modify] at h; cases h
          | error e =>
            cases h
            exact ⟨htab, hwr.2.1, hwr.1, hwr.2.2⟩
  obtain ⟨ht, h1, h2, h3⟩ := key
  exact ⟨hw.wfd.same ht.fns ht.loops h3 ht.scopes ht.heap ht.lazies, TExt.same ht.fns ht.loops, h1, h2, hlz.same ht.lazies⟩

/-! ## `runLoop`, `run`, `nested` -/

theorem loop_err (n : Nat) (ih : AllSpec n) (ihe : ErrSpec n) (b : Base) (st : CtlState) (s s' : St) (hg : NoNil s) (hw : WF s)
    (hl : Live b s) (hbl : b.linear ≠ []) (hb : b.pc = -2) (hm : b.main = false) (hex : (runLoop (n + 1) st).run s = (.error .err, s')) :
    ∃ s₀ s₁, TExt s s₀ ∧ s₀.suspended = s.suspended ∧ FaultOK b s₀ s₁ ∧ s' = park (restoreSt st s₁) := by
  rcases hl with ⟨top, rest, hr⟩ | hf
  · obtain ⟨hns, i, hi⟩ := hr.fetch (hr.A_pos hm)
    rw [runLoop] at hex
    simp only [run_bind, run_get, run_ite, hns, if_false, hi] at hex
    rcases hx : (exec n i).run s with ⟨r, s1⟩
    simp only [hx, run_set] at hex
    cases r with
    | error e =>
      cases e with
      | err =>
        simp only [run_bind, run_restore, run_modify, run_throw] at hex
        refine ⟨s, s1, TExt.refl _, rfl, ihe.exec b s s1 top rest i hg hw hr hi hx, ?_⟩
        injection hex with _ h2
        exact h2.symm
      | panic => simp only [run_throw] at hex; cases hex
      | timeout => simp only [run_throw] at hex; cases hex
    | ok u =>
      obtain ⟨hw1, he1, hl1, hs1⟩ := ih.exec b s s1 top rest i hw hr hi hx
      have hg1 : NoNil s1 := ((sSpec n).exec b s top rest i hg hw hr hbl hi _ s1 hx).2 u rfl
      obtain ⟨s₀, s₁, q1, q2, q3, q4⟩ := ihe.loop b st s1 s' hg1 hw1 hl1.live hbl hb hm hex
      exact ⟨s₀, s₁, he1.trans q1, q2.trans hs1, q3, q4⟩
  · have hpc : s.pc = -1 := by rw [hf.pc, hb]; rfl
    rw [runLoop_finished n st s hpc] at hex
    cases hex

theorem run_err (n : Nat) (ih : AllSpec n) (ihe : ErrSpec n) (b : Base) (s s' : St) (top : Act) (hg : NoNil s) (hw : WF s)
    (hr : Running b s top []) (hb : b.pc = -2) (hm : b.main = false) (hlin : b.linear = s.linear)
    (hex : (run (n + 1)).run s = (.error .err, s')) : ErrOut s s' := by
  rw [run_succ_eq] at hex
  simp only [run_bind, run_capture] at hex
  rcases hl : (runLoop n (captureOf s)).run s with ⟨r, s2⟩
  rw [hl] at hex
  cases r with
  | ok u => exact absurd hex (runTail_not_err s2 s')
  | error flt =>
    dsimp only at hex
    injection hex with h1 h2
    subst h2
    injection h1 with h1
    subst h1
    obtain ⟨s₀, s₁, q1, q2, q3, rfl⟩ := ihe.loop b _ s s2 hg hw (Or.inl ⟨top, [], hr⟩) (by rw [hlin]; exact hg.lin) hb hm hl
    have hsu : s₁.suspended = s.suspended := q3.susp.trans q2
    have hla : linAt (captureOf s) s₁ = s₁.linear := by
      unfold linAt captureOf
      simp only [hsu, Nat.lt_irrefl, gt_iff_lt, if_false]
    have hsa : suspAt (captureOf s) s₁ = s.suspended := by
      unfold suspAt captureOf
      simp only [hsu, Nat.lt_irrefl, gt_iff_lt, if_false]
    refine ⟨WFd.park (WFd.restore (s := s₁) q3.tab _), q1.trans (q3.ext.trans (TExt.same rfl rfl)), hsa, ?_, q3.lz.same rfl⟩
    show truncate (linAt (captureOf s) s₁) s.linear.length = s.linear
    rw [hla]
    exact truncate_of_suffix _ _ (by rw [← hlin]; exact q3.lin)

theorem nested_err (n : Nat) (ih : AllSpec n) (ihe : ErrSpec n) (f : Nat) (st : CtlState) (s s' : St) (hg : NoNil s) (hw : WF s) (h2 : 2 ≤ f)
    (hlt : f < s.fns.length) (hp0 : (fnOf s f).params.length = 0) (hpc : s.pc = -2)
    (hex : (nested (n + 1) f st).run s = (.error .err, s')) : ∃ s2, s' = restoreSt st s2 ∧ ErrOut s s2 := by
  simp only [VM.nested] at hex
  rw [run_bind, run_get] at hex
  dsimp only at hex
  rw [run_bind, run_set] at hex
  rcases hm : (do callFunction f 0; run n : M Val).run s with ⟨r, s2⟩
  rw [hm] at hex
  cases r with
  | ok w => simp only [run_bind, run_restore, run_pure] at hex; cases hex
  | error e =>
    cases e with
    | panic => simp only [run_throw] at hex; cases hex
    | timeout => simp only [run_throw] at hex; cases hex
    | err =>
      simp only [run_bind, run_restore, run_throw] at hex
      injection hex with _ hs'
      refine ⟨s2, hs'.symm, ?_⟩
      rw [run_bind] at hm
      rcases hc : (callFunction f 0).run s with ⟨r1, s1⟩
      rw [hc] at hm
      cases r1 with
      | error e =>
        cases hm
        exact callFunction_err f 0 s s2 hw hg.lzok hc
      | ok u =>
        simp only at hm
        have hgd := hw.fns f h2 hlt
        obtain ⟨c1, c2, c3, c4, c5, c6, c7, hw1, c9⟩ := callFunction_ok f 0 s s1 (s.data.map cellOf) hw hgd rfl hc
        rw [hp0] at c9
        simp only [List.replicate_zero, List.nil_append] at c9
        have hid1 : f < s1.fns.length := by rw [c6]; exact hlt
        obtain ⟨ann, hV, hact⟩ := actOK_of_good (hw1.fns f h2 hid1) hid1
        have hfo : fnOf s1 f = fnOf s f := by simp only [VM.fnOf, c6]
        let b : Base := ⟨s.data, s.linear, s.addr, s.curfunc, -2, false⟩
        have hrun : Running b s1 ⟨f, ann, s.data.map cellOf, s.linear.length, s.addr.length + 1⟩ [] := by
          refine ⟨c1, by rw [c2]; exact Int.le_refl 0, ?_, hact _ _ _, ⟨rfl, rfl, by rw [c3, hpc]; exact (if_neg Bool.false_ne_true).mpr rfl⟩, by rw [c4]; exact List.suffix_refl _⟩
          apply inv_entry _ _ hV
          · show s1.pc.toNat = 0; rw [c2]; rfl
          · show s1.data.map cellOf = List.replicate (fnOf s1 f).params.length Cell.val ++ _
            rw [c9, hfo, hp0]; rfl
          · show s1.linear.length = _; rw [c4]
          · show s1.addr.length = _; rw [c3]; simp
        have hg1 : NoNil s1 := (callFunction_safe' f 0 s hg _ s1 hc).2 u rfl
        have := ihe.run b s1 s2 _ hg1 hw1 hrun rfl rfl c4.symm hm
        exact this.pre (TExt.same c6 c7) c5 c4

/-! ## `evalCallExpr` -/

theorem runGen_err {α} (g : G α) (s s' : St) (e : Fault) (h : (runGen g).run s = (.error e, s')) : s' = s := by
  rw [run_runGen] at h
  split at h
  · cases h
  · cases h; rfl

/-- the restore of a nested evaluation that came back with the scope stack and the set-aside
stacks of the state captured -/
theorem restore_lin (s s2 : St) (hl : s2.linear = s.linear) (hs : s2.suspended = s.suspended) :
    (restoreSt (captureOf s) s2).linear = s.linear ∧ (restoreSt (captureOf s) s2).suspended = s.suspended := by
  have hla : linAt (captureOf s) s2 = s2.linear := by
    unfold linAt captureOf
    simp only [hs, Nat.lt_irrefl, gt_iff_lt, if_false]
  have hsa : suspAt (captureOf s) s2 = s.suspended := by
    unfold suspAt captureOf
    simp only [hs, Nat.lt_irrefl, gt_iff_lt, if_false]
  refine ⟨?_, hsa⟩
  show truncate (linAt (captureOf s) s2) s.linear.length = s.linear
  rw [hla, hl]; exact truncate_self _

/-- … and of a lazy force, whose nested evaluation ran with the live stack set aside -/
theorem restore_lin_force (s s2 : St) (hs : s2.suspended = s.linear :: s.suspended) :
    (restoreSt (captureOf s) s2).linear = s.linear ∧ (restoreSt (captureOf s) s2).suspended = s.suspended := by
  have hgt : s2.suspended.length > (captureOf s).susp := by
    show s2.suspended.length > s.suspended.length; rw [hs]; simp
  have hla : linAt (captureOf s) s2 = s.linear := by
    unfold linAt
    rw [if_pos hgt, hs]
    show (s.linear :: s.suspended).getD ((s.linear :: s.suspended).length - s.suspended.length - 1) [] = s.linear
    simp
  have hsa : suspAt (captureOf s) s2 = s.suspended := by
    unfold suspAt
    rw [if_pos hgt, hs]
    show (s.linear :: s.suspended).drop ((s.linear :: s.suspended).length - s.suspended.length) = s.suspended
    simp
  refine ⟨?_, hsa⟩
  show truncate (linAt (captureOf s) s2) s.linear.length = s.linear
  rw [hla]; exact truncate_self _

theorem thunk_err (n : Nat) (ihe : ErrSpec n) (name : String) (s1 s' : St) (code : List Instr) (cl : List (Option Nat))
    (par : Option Nat) (hw1 : WF s1) (hc : AllOK (szS s1) code)
    (hv : ∃ ann, verify { kind := .fn, nformals := 0, varargs := false, nfixed := 0, code := B s1.loops (code ++ [Instr.ret]) } ann = true)
    (st : CtlState) (lin : List (Option Nat)) (susp : List (List (Option Nat)))
    (hgt : NoNil (thunkSt s1 (thunkObj name code cl par) lin susp))
    (hex : (nested n s1.fns.length st).run (thunkSt s1 (thunkObj name code cl par) lin susp) = (.error .err, s')) :
    ∃ s2, s' = restoreSt st s2 ∧ WFd s2 ∧ TExt s1 s2 ∧ s2.suspended = susp ∧ s2.linear = lin ∧ LzOK s2 := by
  obtain ⟨hw2, hg2⟩ := wf_mkThunk name code cl par hw1 hc hv
  have hw3 : WF (thunkSt s1 (thunkObj name code cl par) lin susp) :=
    hw2.mk' (TExt.same rfl rfl) (fun j h1 h2 => absurd h2 (Nat.not_lt.mpr h1)) hw2.loopstack hw2.scopes hw2.heap hw2.lazies hw2.data
  have hfo : fnOf (thunkSt s1 (thunkObj name code cl par) lin susp) s1.fns.length = thunkObj name code cl par := by
    show (s1.fns ++ [_]).getD s1.fns.length {} = _
    rw [List.getD_eq_getElem?_getD, List.getElem?_append_right (Nat.le_refl _), Nat.sub_self]
    rfl
  obtain ⟨s2, h1, h2⟩ := ihe.nested s1.fns.length st _ s' hgt hw3 hw1.two (by simp [thunkSt]) (by rw [hfo]; rfl) rfl hex
  exact ⟨s2, h1, h2.tab,
    (show TExt s1 (thunkSt s1 (thunkObj name code cl par) lin susp) from ⟨⟨_, rfl⟩, ⟨[], by simp [thunkSt]⟩⟩).trans h2.ext, h2.susp, h2.lin, h2.lz⟩

theorem eval_err (n : Nat) (ih : AllSpec n) (ihe : ErrSpec n) (e : Expr) (s s' : St) (hg : NoNil s) (hw : WF s) (hok : okL e = true)
    (hex : (evalCallExpr (n + 1) e).run s = (.error .err, s')) : ErrOut s s' := by
  unfold VM.evalCallExpr at hex
  split at hex
  · rename_i x
    rw [run_bind, run_get] at hex
    dsimp only at hex
    split at hex
    · simp only [run_pure] at hex; cases hex
    · cases hex; exact ErrOut.refl hw hg.lzok
  · rw [run_bind, run_get] at hex
    dsimp only at hex
    rw [run_bind] at hex
    rcases hgn : (runGen (compile (isFnScope s) {} e)).run s with ⟨r, s1⟩
    rw [hgn] at hex
    cases r with
    | error er =>
      have := runGen_err _ s s1 er hgn
      subst this
      cases hex
      exact ErrOut.refl hw hg.lzok
    | ok ct =>
      obtain ⟨code, t⟩ := ct
      obtain ⟨hw1, he1, g1, g2, g3, g4, g5, g6, g7, g8, g9, hcode, hver⟩ := wf_runGen (isFnScope s) e code t hw hok hgn
      dsimp only at hex
      split at hex
      · simp only [run_pure] at hex; cases hex
      · rw [run_bind, run_capture] at hex
        dsimp only at hex
        rw [run_bind, run_get] at hex
        dsimp only at hex
        rw [run_bind, run_mkFunction] at hex
        dsimp only at hex
        rw [run_bind, run_modify] at hex
        dsimp only at hex
        have hg1 : NoNil s1 := hg.same g1 g2 g3 g6 g9
        obtain ⟨s2, h1, hw2, he2, su2, l2, lz2⟩ :=
          thunk_err n ihe "callExprEval" s1 s' code _ _ hw1 hcode hver (captureOf s1) s1.linear s1.suspended
            (hg1.same rfl rfl rfl rfl rfl) hex
        obtain ⟨r1, r2⟩ := restore_lin s1 s2 l2 su2
        rw [h1]
        exact ⟨hw2.restore _, he1.trans (he2.trans (TExt.same rfl rfl)), r2.trans g6, r1.trans g2, lz2.same rfl⟩

/-! ## `prepareArgs` -/

theorem prep_lazy_any (e : Expr) (k : M Unit) (s s' : St) (r : Except Fault Unit) (hg : NoNil s) (hw : WF s) (hok : okL e = true)
    (hex : (do
      let t ← get
      set { t with lazies := t.lazies ++ [({ e, stack := t.linear, curfunc := t.curfunc, value := none } : LazyObj)] }
      pushData (.lazy t.lazies.length)
      k : M Unit).run s = (r, s')) :
    ∃ s1, NoNil s1 ∧ WF s1 ∧ TExt s s1 ∧ s1.linear = s.linear ∧ s1.suspended = s.suspended ∧ k.run s1 = (r, s') := by
  rw [run_bind, run_get] at hex
  dsimp only at hex
  rw [run_bind, run_set] at hex
  dsimp only at hex
  rw [run_bind, run_pushData] at hex
  dsimp only at hex
  refine ⟨prepLazySt s e, ?_, ?_, TExt.same rfl rfl, rfl, rfl, hex⟩
  · refine ⟨⟨VMSafe.allSome_cons hg.good.data, hg.good.linear, hg.good.addr, hg.good.susp, ?_⟩, hg.lin, ?_⟩
    · intro z hz
      rcases List.mem_append.mp hz with hm | hm
      · exact hg.good.lazies z hm
      · simp only [List.mem_cons, List.mem_nil_iff, or_false] at hm; subst hm; exact hg.good.linear
    · intro z hz hv
      rcases List.mem_append.mp hz with hm | hm
      · exact hg.lz z hm hv
      · simp only [List.mem_cons, List.mem_nil_iff, or_false] at hm; subst hm; exact hg.lin
  refine hw.grow (TExt.same rfl rfl) (fun j h1 h2 => absurd h2 (Nat.not_lt.mpr h1)) rfl rfl rfl ?_ ?_
  · intro lz hlz
    rcases List.mem_append.mp hlz with hm | hm
    · left; exact hm
    · right
      simp at hm; subst hm
      exact ⟨hok, fun v hv => by cases hv⟩
  · intro c hcm
    rcases List.mem_cons.mp hcm with rfl | hcm
    · right; trivial
    · left; exact hcm

theorem prep_eval_err (n : Nat) (ih : AllSpec n) (ihe : ErrSpec n) (e : Expr) (k : M Unit) (s s' : St) (hg : NoNil s) (hw : WF s) (hok : okL e = true)
    (hex : (do
      let v ← evalCallExpr n e
      pushData v
      k : M Unit).run s = (.error .err, s')) :
    ErrOut s s' ∨ ∃ s1, NoNil s1 ∧ WF s1 ∧ TExt s s1 ∧ s1.linear = s.linear ∧ s1.suspended = s.suspended ∧ k.run s1 = (.error .err, s') := by
  rw [run_bind] at hex
  rcases hev : (evalCallExpr n e).run s with ⟨r, s0⟩
  rw [hev] at hex
  cases r with
  | error er =>
    cases hex
    exact Or.inl (ihe.eval e s s' hg hw hok hev)
  | ok v =>
    dsimp only at hex
    rw [run_bind, run_pushData] at hex
    dsimp only at hex
    obtain ⟨hk, hv⟩ := ih.eval e s s0 v hw hok hev
    have hg0 : NoNil s0 := ((sSpec n).eval e s hg hw hok _ s0 hev).2 v rfl
    refine Or.inr ⟨{ s0 with data := some v :: s0.data }, hg0.push v, ?_, hk.ext.trans (TExt.same rfl rfl), hk.same.linear, hk.same.susp, hex⟩
    refine hk.wf.setData _ _ ?_
    intro c hcm
    rcases List.mem_cons.mp hcm with rfl | hcm
    · exact cellOK_of_vok hv
    · exact hk.wf.data c hcm

theorem prep_err (n : Nat) (ih : AllSpec n) (ihe : ErrSpec n) (args : List Expr) (f : Option FnObj) (i : Nat) (s s' : St) (hg : NoNil s) (hw : WF s)
    (hok : okLs args = true) (hex : (prepareArgs (n + 1) f i args).run s = (.error .err, s')) : ErrOut s s' := by
  cases args with
  | nil => simp only [VM.prepareArgs, run_pure] at hex; cases hex
  | cons e es =>
    simp only [okLs, Bool.and_eq_true] at hok
    unfold VM.prepareArgs at hex
    have key : ErrOut s s' ∨ ∃ s1, NoNil s1 ∧ WF s1 ∧ TExt s s1 ∧ s1.linear = s.linear ∧ s1.suspended = s.suspended ∧
        (prepareArgs n f (i + 1) es).run s1 = (.error .err, s') := by
      cases f with
      | none =>
        dsimp only at hex
        simp only [Bool.false_eq_true, if_false] at hex
        exact prep_eval_err n ih ihe e _ s s' hg hw hok.1 hex
      | some fo =>
        dsimp only at hex
        by_cases hl : (!fo.user && fo.hasLazyFormals && fo.isLazyCallArg i) = true
        · simp only [hl, if_true] at hex
          exact Or.inr (prep_lazy_any e _ s s' _ hg hw hok.1 hex)
        · simp only [hl, if_false] at hex
          exact prep_eval_err n ih ihe e _ s s' hg hw hok.1 hex
    rcases key with h | ⟨s1, hg1, hw1, he1, l1, su1, hrest⟩
    · exact h
    · exact (ihe.prep f (i + 1) es s1 s' hg1 hw1 hok.2 hrest).pre he1 su1 l1

/-! ## `callResolved` -/

theorem guarded_err (start : Nat) (m : M Unit) (s s' : St)
    (h : (do
      let s ← get
      let r : Except Fault Unit × St := m.run s
      set r.2
      match r.1 with
      | .ok _ => pure ()
      | .error .err => do modify (fun s => { s with data := truncate s.data start }); throw .err
      | .error flt => throw flt : M Unit).run s = (.error .err, s')) :
    ∃ s1, m.run s = (.error .err, s1) ∧ s' = { s1 with data := truncate s1.data start } := by
  simp only [run_bind, run_get, run_set] at h
  rcases hm : m.run s with ⟨r, s1⟩
  rw [hm] at h
  cases r with
  | ok u => simp only [run_pure] at h; cases h
  | error e =>
    cases e with
    | err =>
      simp only [run_bind, run_modify, run_throw] at h
      injection h with _ h2
      exact ⟨s1, rfl, h2.symm⟩
    | panic => simp only [run_throw] at h; cases h
    | timeout => simp only [run_throw] at h; cases h

theorem ErrOut.setData {s s1 : St} (h : ErrOut s s1) (d : List (Option Val)) : ErrOut s { s1 with data := d } :=
  ⟨h.tab.same rfl rfl rfl rfl rfl rfl, h.ext.trans (TExt.same rfl rfl), h.susp, h.lin, h.lz.same rfl⟩

theorem resolved_err (n : Nat) (ih : AllSpec n) (ihe : ErrSpec n) (s s' : St) (f : Val) (args : List Expr) (hg : NoNil s) (hw : WF s)
    (hoa : okLs args = true) (hex : (callResolved (n + 1) f args).run s = (.error .err, s')) : ErrOut s s' := by
  unfold VM.callResolved at hex
  rw [run_bind, run_get] at hex
  dsimp only at hex
  split at hex
  · rename_i fid
    obtain ⟨s2, hex', rfl⟩ := guarded_err _ _ s s' hex
    apply ErrOut.setData
    rw [run_bind] at hex'
    rcases hp : (prepareArgs n (some (fnOf s fid)) 0 args).run s with ⟨r, s1⟩
    rw [hp] at hex'
    cases r with
    | error e => cases hex'; exact ihe.prep _ _ _ s s2 hg hw hoa hp
    | ok u =>
      simp only at hex'
      obtain ⟨hw1, he1, hd1, hl1, ha1, hc1, hp1, hs1⟩ := ih.prep _ _ _ s s1 hw hoa hp
      exact (callFunction_err fid args.length s1 s2 hw1 (((sSpec n).prep _ _ _ s hg hw hoa _ s1 hp).2 u rfl).lzok hex').pre he1 hs1 hl1
  · rename_i name
    obtain ⟨s2, hex', rfl⟩ := guarded_err _ _ s s' hex
    apply ErrOut.setData
    rw [run_bind] at hex'
    rcases hp : (prepareArgs n none 0 args).run s with ⟨r, s1⟩
    rw [hp] at hex'
    cases r with
    | error e => cases hex'; exact ihe.prep _ _ _ s s2 hg hw hoa hp
    | ok u =>
      simp only at hex'
      obtain ⟨hw1, he1, hd1, hl1, ha1, hc1, hp1, hs1⟩ := ih.prep _ _ _ s s1 hw hoa hp
      have hg1 : NoNil s1 := ((sSpec n).prep _ _ _ s hg hw hoa _ s1 hp).2 u rfl
      exact (ihe.user name args.length s1 s2 (s.data.map cellOf) hg1 hw1 hd1 hex').pre he1 hs1 hl1
  · obtain ⟨s2, hex', rfl⟩ := guarded_err _ _ s s' hex
    apply ErrOut.setData
    rw [run_bind] at hex'
    rcases hp : (prepareArgs n none 0 args).run s with ⟨r, s1⟩
    rw [hp] at hex'
    cases r with
    | error e => cases hex'; exact ihe.prep _ _ _ s s2 hg hw hoa hp
    | ok u =>
      simp only at hex'
      obtain ⟨hw1, he1, hd1, hl1, ha1, hc1, hp1, hs1⟩ := ih.prep _ _ _ s s1 hw hoa hp
      have hlz1 := (((sSpec n).prep _ _ _ s hg hw hoa _ s1 hp).2 u rfl).lzok
      cases hex'
      exact ⟨hw1.wfd, he1, hs1, hl1, hlz1⟩
  · split at hex
    · simp only [run_bind, run_pushData, run_incPc] at hex; cases hex
    · cases hex; exact ErrOut.refl hw hg.lzok

/-! ## `callUser` -/

theorem user_err (n : Nat) (ih : AllSpec n) (ihe : ErrSpec n) (name : String) (k : Nat) (s s' : St)
    (tail : List Cell) (hg : NoNil s) (hw : WF s) (hd : s.data.map cellOf = List.replicate k .val ++ tail)
    (hex : (callUser (n + 1) name k).run s = (.error .err, s')) : ErrOut s s' := by
  unfold VM.callUser at hex
  rw [run_bind, run_get] at hex
  dsimp only at hex
  by_cases h0 : s.data.length < k
  · simp only [h0, if_true, run_bind, run_err] at hex; cases hex; exact ErrOut.refl hw hg.lzok
  · by_cases h00 : (s.data.take k).any Option.isNone = true
    · simp only [h0, h00, if_true, if_false, run_bind, run_pure, run_hostPanic] at hex; cases hex
    · simp only [h0, h00, if_false, run_bind, run_pure, Bool.false_eq_true] at hex
      rw [run_popN] at hex
      simp only [h0, if_false] at hex
      cases hm : (s.data.take k).mapM id with
      | none => rw [hm] at hex; cases hex
      | some vs =>
        rw [hm] at hex
        simp only [run_capture, run_modify, run_get, run_set] at hex
        have htake : (s.data.take k).map cellOf = List.replicate k Cell.val := by
          rw [List.map_take, hd, List.take_left' (by simp)]
        have hvs : ∀ v ∈ vs, vok s.fns.length v = true := by
          apply vals_vok _ vs hm (fun c hcm => hw.data c (List.mem_of_mem_take hcm))
          intro c hcm
          rw [htake] at hcm
          exact List.eq_of_mem_replicate hcm
        let s2 : St := { s with data := s.data.drop k, addr := some (s.curfunc, s.pc + 1) :: s.addr, curfunc := builtinFn, pc := -1 }
        have hw2 : WF s2 :=
          hw.mk' (TExt.same rfl rfl) (fun j h1 h2 => absurd h2 (Nat.not_lt.mpr h1)) hw.loopstack hw.scopes hw.heap hw.lazies
            (fun c hcm => hw.data c (List.mem_of_mem_drop hcm))
        have hg2 : NoNil s2 :=
          ⟨⟨VMSafe.allSome_drop hg.good.data k, hg.good.linear, VMSafe.allSome_cons hg.good.addr, hg.good.susp, hg.good.lazies⟩, hg.lin, hg.lz⟩
        rcases hb : (builtin n name vs.reverse).run s2 with ⟨r, s3⟩
        have hb' : (builtin n name vs.reverse).run
            { s with data := s.data.drop k, addr := some (s.curfunc, s.pc + 1) :: s.addr, curfunc := builtinFn, pc := -1 } = (r, s3) := hb
        rw [hb'] at hex
        cases r with
        | ok v =>
          exfalso
          simp only [run_bind, run_pushData, run_get] at hex
          split at hex
          · split at hex
            · simp only [run_set] at hex; cases hex
            · simp only [run_hostPanic] at hex; cases hex
          · simp only [run_set] at hex; cases hex
        | error e =>
          cases e with
          | timeout => simp only [run_throw] at hex; cases hex
          | panic => exact absurd rfl ((sSpec n).builtin name vs.reverse s2 hg2 hw2 rfl (fun a ha => hvs a (List.mem_reverse.mp ha)) _ s3 hb).1
          | err =>
            simp only [run_bind, run_restore, run_throw] at hex
            injection hex with _ h2
            subst h2
            have hb3 := ihe.builtin name vs.reverse s2 s3 hg2 hw2 rfl (fun a ha => hvs a (List.mem_reverse.mp ha)) hb
            obtain ⟨r1, r2⟩ := restore_lin { s with data := s.data.drop k } s3 hb3.lin hb3.susp
            exact ⟨hb3.tab.restore _, (show TExt s s2 from TExt.same rfl rfl).trans (hb3.ext.trans (TExt.same rfl rfl)), r2, r1, hb3.lz.same rfl⟩

/-! ## `exec` -/

theorem exec_err (n : Nat) (ih : AllSpec n) (ihe : ErrSpec n) (b : Base) (s s' : St) (top : Act) (rest : List Act) (i : Instr)
    (hg : NoNil s) (hw : WF s) (hr : Running b s top rest) (hf : (fnOf s s.curfunc).code[s.pc.toNat]? = some i)
    (hex : (exec (n + 1) i).run s = (.error .err, s')) : FaultOK b s s' := by
  by_cases hs : simple i = true
  · exact faultOK_simple hw hr hf hs n .err hex hg.lzok
  · cases i with
    | callArr k =>
      simp only [exec] at hex
      obtain ⟨tail, ht⟩ := hr.top_vals hf (p := k) (m := 1) rfl
      exact (ihe.user "array" k s s' tail hg hw ht hex).faultOK hr
    | callExpr c args =>
      have hio := hr.instrOK hf
      simp only [instrOK, Bool.and_eq_true] at hio
      simp only [exec] at hex
      rw [run_bind] at hex
      rcases hev : (evalCallExpr n c).run s with ⟨r, s1⟩
      rw [hev] at hex
      cases r with
      | error e => cases hex; exact (ihe.eval c s s' hg hw hio.1 hev).faultOK hr
      | ok f =>
        dsimp only at hex
        obtain ⟨hk, hv⟩ := ih.eval c s s1 f hw hio.1 hev
        have hg1 : NoNil s1 := ((sSpec n).eval c s hg hw hio.1 _ s1 hev).2 f rfl
        exact ((ihe.resolved s1 s' f args hg1 hk.wf hio.2 hex).pre hk.ext hk.same.susp hk.same.linear).faultOK hr
    | _ => exact absurd rfl hs

/-! ## The Go builtins -/

theorem builtin_err (n : Nat) (ih : AllSpec n) (ihe : ErrSpec n) (name : String) (args : List Val) (s s' : St)
    (hg : NoNil s) (hw : WF s) (hpc : s.pc = -1) (ha : ∀ a ∈ args, vok s.fns.length a = true)
    (hex : (builtin (n + 1) name args).run s = (.error .err, s')) : ErrOut s s' := by
  unfold VM.builtin at hex
  split at hex
  · simp only [run_bind, run_modify, run_pure] at hex; cases hex
  split at hex
  · simp only [run_bind, run_modify, run_pure] at hex; cases hex
  split at hex
  · -- force
    split at hex
    · exact ihe.force _ s s' hg hw hex
    · simp only [run_pure] at hex; cases hex
    · cases hex; exact ErrOut.refl hw hg.lzok
  split at hex
  · -- substitute
    split at hex
    · rename_i id
      rw [run_bind, run_get] at hex
      dsimp only at hex
      split at hex
      · cases hex; exact ErrOut.refl hw hg.lzok
      · rename_i lz hlz
        split at hex
        · simp only [run_pure] at hex; cases hex
        · rcases hq : quoteE lz.e s.heap with ⟨w, h'⟩
          simp only [hq, run_bind, run_set, run_pure] at hex
          cases hex
    · simp only [run_pure] at hex; cases hex
    · cases hex; exact ErrOut.refl hw hg.lzok
  split at hex
  · -- apply
    split at hex
    · rename_i f coll
      split at hex
      · cases hex; exact ErrOut.refl hw hg.lzok
      · rw [run_bind, run_get] at hex
        dsimp only at hex
        have hf := ha f (by simp)
        have hc := ha coll (by simp)
        split at hex
        · rename_i r
          exact ihe.apply f _ s s' hg hw hpc hf (heap_get_vok hw r) hex
        · rename_i a b
          split at hex
          · rename_i xs hxs
            exact ihe.apply f xs s s' hg hw hpc hf (listToArray_vok _ xs hxs hc) hex
          · cases hex; exact ErrOut.refl hw hg.lzok
        · cases hex; exact ErrOut.refl hw hg.lzok
    · cases hex; exact ErrOut.refl hw hg.lzok
  split at hex
  · -- map
    split at hex
    · rename_i f coll
      split at hex
      · cases hex; exact ErrOut.refl hw hg.lzok
      · have hf := ha f (by simp)
        have hc := ha coll (by simp)
        split at hex
        · rename_i r
          rw [run_bind, run_get] at hex
          dsimp only at hex
          rw [run_bind] at hex
          rcases hm : (mapArr n f r 0 (s.heap.get r).length).run s with ⟨rr, s1⟩
          rw [hm] at hex
          cases rr with
          | error e => cases hex; exact ihe.mapArr f r 0 _ s s' hg hw hpc hf hm
          | ok vs =>
            dsimp only at hex
            rw [run_bind, run_get] at hex
            dsimp only at hex
            simp only [run_bind, run_set, run_pure] at hex
            cases hex
        · rename_i a b
          exact ihe.mapList f _ s s' hg hw hpc hf hc hex
        · cases hex; exact ErrOut.refl hw hg.lzok
    · cases hex; exact ErrOut.refl hw hg.lzok
  · -- the pure builtins
    rw [run_bind, run_get] at hex
    dsimp only at hex
    split at hex
    · simp only [run_bind, run_set, run_pure] at hex; cases hex
    · cases hex; exact ErrOut.refl hw hg.lzok

/-! ## `applyFn`, `mapArr`, `mapList` -/

theorem apply_err (n : Nat) (ih : AllSpec n) (ihe : ErrSpec n) (f : Val) (args : List Val) (s s' : St) (hg : NoNil s) (hw : WF s)
    (hpc : s.pc = -1) (hvf : vok s.fns.length f = true) (ha : ∀ a ∈ args, vok s.fns.length a = true)
    (hex : (applyFn (n + 1) f args).run s = (.error .err, s')) : ErrOut s s' := by
  unfold VM.applyFn at hex
  split at hex
  · rename_i name
    exact ihe.builtin name args s s' hg hw hpc ha hex
  · rename_i fid
    simp only [vok, decide_eq_true_eq] at hvf
    rw [run_bind, run_capture] at hex
    dsimp only at hex
    rw [run_bind, run_modify] at hex
    dsimp only at hex
    rw [run_bind, run_get] at hex
    dsimp only at hex
    rw [run_bind, run_set] at hex
    dsimp only at hex
    rw [run_bind, run_get] at hex
    dsimp only at hex
    have hw1 : WF { s with pc := -2 } := hw.setPc _
    obtain ⟨hw2, d2, f2, l2, li2, a2, c2, p2, su2⟩ := applyWrap_spec (fnOf { s with pc := -2 } fid) args { s with pc := -2 } 0 hw1 ha
    have hg2 := applyWrap_nonil (fnOf { s with pc := -2 } fid) args { s with pc := -2 } 0 (hg.same rfl rfl rfl rfl rfl)
    generalize hs2 : (args.foldl (fun (p : St × Nat) v =>
      if (fnOf { s with pc := -2 } fid).isLazyCallArg p.2 then
        ({ p.1 with lazies := p.1.lazies ++ [({ e := .nilLit, stack := [], curfunc := 0, value := some v, isValue := true } : LazyObj)],
                    data := some (.lazy p.1.lazies.length) :: p.1.data }, p.2 + 1)
      else ({ p.1 with data := some v :: p.1.data }, p.2 + 1)) ({ s with pc := -2 }, 0)).1 = s2 at hex hw2 d2 f2 l2 li2 a2 c2 p2 su2 hg2
    rw [run_bind, run_set] at hex
    rcases hm : (do callFunction fid args.length; run n : M Val).run s2 with ⟨r, s4⟩
    rw [hm] at hex
    cases r with
    | ok w => simp only [run_pure] at hex; cases hex
    | error e =>
      cases e with
      | panic => simp only [run_throw] at hex; cases hex
      | timeout => simp only [run_throw] at hex; cases hex
      | err =>
        simp only [run_bind, run_restore, run_throw] at hex
        injection hex with _ h2
        subst h2
        have he2 : TExt s s2 := TExt.same f2 l2
        -- what the nested `callFunction; run` left
        have hout : ErrOut s2 s4 := by
          rw [run_bind] at hm
          rcases hc : (callFunction fid args.length).run s2 with ⟨r1, s3⟩
          rw [hc] at hm
          cases r1 with
          | error e => cases hm; exact callFunction_err fid args.length s2 s4 hw2 hg2.lzok hc
          | ok u =>
            simp only at hm
            have hid2 : fid < s2.fns.length := by rw [f2]; exact hvf.2
            have hgd := hw2.fns fid hvf.1 hid2
            obtain ⟨c1, c2', c3, c4, c5, c6, c7, hw3, c9⟩ := callFunction_ok fid args.length s2 s3 (s.data.map cellOf) hw2 hgd d2 hc
            have hid3 : fid < s3.fns.length := by rw [c6]; exact hid2
            obtain ⟨ann, hV, hact⟩ := actOK_of_good (hw3.fns fid hvf.1 hid3) hid3
            have hfo : fnOf s3 fid = fnOf s2 fid := by simp only [VM.fnOf, c6]
            let b : Base := ⟨s.data, s.linear, s.addr, s.curfunc, -2, false⟩
            have hrun : Running b s3 ⟨fid, ann, s.data.map cellOf, s.linear.length, s.addr.length + 1⟩ [] := by
              refine ⟨c1, by rw [c2']; exact Int.le_refl 0, ?_, hact _ _ _, ⟨rfl, rfl, by rw [c3, c2, p2, a2]; exact (if_neg Bool.false_ne_true).mpr rfl⟩,
                by rw [c4, li2]; exact List.suffix_refl _⟩
              apply inv_entry _ _ hV
              · show s3.pc.toNat = 0; rw [c2']; rfl
              · show s3.data.map cellOf = List.replicate (fnOf s3 fid).params.length Cell.val ++ _
                rw [c9, hfo]
              · show s3.linear.length = _; rw [c4, li2]
              · show s3.addr.length = _; rw [c3, a2]; simp
            have hg3 : NoNil s3 := (callFunction_safe' fid args.length s2 hg2 _ s3 hc).2 u rfl
            have := ihe.run b s3 s4 _ hg3 hw3 hrun rfl rfl (by show s.linear = s3.linear; rw [c4, li2]) hm
            exact this.pre (TExt.same c6 c7) c5 c4
        obtain ⟨r1, r2⟩ := restore_lin s s4 (hout.lin.trans li2) (hout.susp.trans su2)
        exact ⟨hout.tab.restore _, he2.trans (hout.ext.trans (TExt.same rfl rfl)), r2, r1, hout.lz.same rfl⟩
  · cases hex; exact ErrOut.refl hw hg.lzok

theorem ErrOut.ofKept {s s1 s' : St} (hk : Kept s s1) (h : ErrOut s1 s') : ErrOut s s' :=
  h.pre hk.ext hk.same.susp hk.same.linear

theorem mapArr_err (n : Nat) (ih : AllSpec n) (ihe : ErrSpec n) (f : Val) (r i k : Nat) (s s' : St) (hg : NoNil s) (hw : WF s) (hpc : s.pc = -1)
    (hvf : vok s.fns.length f = true) (hex : (mapArr (n + 1) f r i k).run s = (.error .err, s')) : ErrOut s s' := by
  unfold VM.mapArr at hex
  split at hex
  · simp only [run_pure] at hex; cases hex
  · rw [run_bind, run_get] at hex
    dsimp only at hex
    rw [run_bind] at hex
    have harg : ∀ a ∈ [(s.heap.get r).getD i Val.nil], vok s.fns.length a = true := by
      intro a hav
      simp only [List.mem_cons, List.mem_nil_iff, or_false] at hav
      subst hav
      rw [List.getD_eq_getElem?_getD]
      cases hg : (s.heap.get r)[i]? with
      | none => rfl
      | some x => exact heap_get_vok hw r x (List.mem_of_getElem? hg)
    rcases ha : (applyFn n f [(s.heap.get r).getD i .nil]).run s with ⟨rr, s1⟩
    rw [ha] at hex
    cases rr with
    | error e => cases hex; exact ihe.apply f _ s s' hg hw hpc hvf harg ha
    | ok v =>
      dsimp only at hex
      rw [run_bind] at hex
      rcases hm : (mapArr n f r (i + 1) k).run s1 with ⟨rr2, s2⟩
      rw [hm] at hex
      obtain ⟨hk1, hv1⟩ := ih.apply f _ s s1 v hw hpc hvf harg ha
      cases rr2 with
      | error e =>
        cases hex
        exact ErrOut.ofKept hk1 (ihe.mapArr f r (i + 1) k s1 s' (((sSpec n).apply f _ s hg hw hpc hvf harg _ s1 ha).2 v rfl) hk1.wf (hk1.same.pc.trans hpc) (kept_vok_mono hk1 hvf) hm)
      | ok ws => simp only [run_pure] at hex; cases hex

theorem mapList_err (n : Nat) (ih : AllSpec n) (ihe : ErrSpec n) (f l : Val) (s s' : St) (hg : NoNil s) (hw : WF s) (hpc : s.pc = -1)
    (hvf : vok s.fns.length f = true) (hvl : vok s.fns.length l = true) (hex : (mapList (n + 1) f l).run s = (.error .err, s')) :
    ErrOut s s' := by
  unfold VM.mapList at hex
  split at hex
  · simp only [run_pure] at hex; cases hex
  · rename_i a b
    simp only [vok, Bool.and_eq_true] at hvl
    rw [run_bind] at hex
    have harg : ∀ x ∈ [a], vok s.fns.length x = true := fun x hx => by simp at hx; subst hx; exact hvl.1
    rcases ha : (applyFn n f [a]).run s with ⟨rr, s1⟩
    rw [ha] at hex
    cases rr with
    | error e => cases hex; exact ihe.apply f [a] s s' hg hw hpc hvf harg ha
    | ok w =>
      dsimp only at hex
      rw [run_bind] at hex
      rcases hm : (mapList n f b).run s1 with ⟨rr2, s2⟩
      rw [hm] at hex
      obtain ⟨hk1, hv1⟩ := ih.apply f [a] s s1 w hw hpc hvf harg ha
      cases rr2 with
      | error e =>
        cases hex
        exact ErrOut.ofKept hk1 (ihe.mapList f b s1 s' (((sSpec n).apply f [a] s hg hw hpc hvf harg _ s1 ha).2 w rfl) hk1.wf (hk1.same.pc.trans hpc) (kept_vok_mono hk1 hvf)
          (kept_vok_mono hk1 hvl.2) hm)
      | ok t => simp only [run_pure] at hex; cases hex
  · cases hex; exact ErrOut.refl hw hg.lzok

/-! ## `forceLazy` -/

theorem bind_err_inv {α β} (m : M α) (k : α → M β) (s s' : St) (e : Fault) (h : (m >>= k).run s = (.error e, s')) :
    m.run s = (.error e, s') ∨ ∃ a s1, m.run s = (.ok a, s1) ∧ (k a).run s1 = (.error e, s') := by
  rw [run_bind] at h
  rcases hm : m.run s with ⟨r, s1⟩
  rw [hm] at h
  cases r with
  | error e' => cases h; exact Or.inl rfl
  | ok a => exact Or.inr ⟨a, s1, rfl, h⟩

theorem force_err (n : Nat) (ih : AllSpec n) (ihe : ErrSpec n) (id : Nat) (s s' : St) (hg : NoNil s) (hw : WF s)
    (hex : (forceLazy (n + 1) id).run s = (.error .err, s')) : ErrOut s s' := by
  unfold VM.forceLazy at hex
  rw [run_bind, run_get] at hex
  dsimp only at hex
  split at hex
  · cases hex; exact ErrOut.refl hw hg.lzok
  · rename_i lz hlz
    have hmem : lz ∈ s.lazies := List.mem_of_getElem? hlz
    have hlzm := hw.lazies lz hmem
    have hst : VMSafe.allSome lz.stack := hg.good.lazies lz hmem
    cases hval : lz.value with
    | some v0 => simp only [hval, run_pure] at hex; cases hex
    | none =>
      simp only [hval] at hex
      rw [run_bind] at hex
      rcases hgn : (runGen (compile (isFnScope s) {} lz.e)).run s with ⟨r, s1⟩
      rw [hgn] at hex
      cases r with
      | error er =>
        have := runGen_err _ s s1 er hgn
        subst this
        cases hex
        exact ErrOut.refl hw hg.lzok
      | ok ct =>
        obtain ⟨code, t⟩ := ct
        obtain ⟨hw1, he1, g1, g2, g3, g4, g5, g6, g7, g8, g9, hcode, hver⟩ := wf_runGen (isFnScope s) lz.e code t hw hlzm.1 hgn
        have hg1 : NoNil s1 := hg.same g1 g2 g3 g6 g9
        dsimp only at hex
        split at hex
        · simp only [run_bind, run_modify, run_pure] at hex; cases hex
        · rw [run_bind, run_mkFunction] at hex
          dsimp only at hex
          rw [run_bind, run_capture] at hex
          dsimp only at hex
          rw [run_bind, run_modify] at hex
          dsimp only at hex
          have hgt : NoNil (thunkSt s1 (thunkObj "lazyArgForce" code lz.stack (some lz.curfunc)) lz.stack (s1.linear :: s1.suspended)) := by
            refine ⟨⟨hg1.good.data, hst, hg1.good.addr, ?_, hg1.good.lazies⟩, hg.lz lz hmem hval, hg1.lz⟩
            intro l hl
            rcases List.mem_cons.mp hl with rfl | hl
            · exact hg1.good.linear
            · exact hg1.good.susp l hl
          rcases bind_err_inv _ _ _ _ _ hex with hn | ⟨w, s4, hn, hfin⟩
          · obtain ⟨s3, h1, hw3, he3, su3, l3, lz3⟩ :=
              thunk_err n ihe "lazyArgForce" s1 s' code lz.stack (some lz.curfunc) hw1 hcode hver
                (captureOf s1) lz.stack (s1.linear :: s1.suspended) hgt hn
            obtain ⟨r1, r2⟩ := restore_lin_force s1 s3 su3
            rw [h1]
            exact ⟨hw3.restore _, he1.trans (he3.trans (TExt.same rfl rfl)), r2.trans g6, r1.trans g2, lz3.same rfl⟩
          · simp only [run_bind, run_modify, run_pure] at hfin; cases hfin

/-! ## The induction on the fuel -/

theorem errSpec_zero : ErrSpec 0 where
  exec := fun b s s' top rest i _ _ _ _ h => by simp only [VM.exec, run_throw] at h; cases h
  resolved := fun s s' f args _ _ _ h => by simp only [VM.callResolved, run_throw] at h; cases h
  loop := fun b st s s' _ _ _ _ _ _ h => by rw [runLoop_zero] at h; cases h
  run := fun b s s' top _ _ _ _ _ _ h => by simp only [VM.run, run_throw] at h; cases h
  nested := fun f st s s' _ _ _ _ _ _ h => by simp only [VM.nested, run_throw] at h; cases h
  eval := fun e s s' _ _ _ h => by simp only [VM.evalCallExpr, run_throw] at h; cases h
  prep := fun f i args s s' _ _ _ h => by
    cases args with
    | nil => simp only [VM.prepareArgs, run_throw] at h; cases h
    | cons e es => simp only [VM.prepareArgs, run_throw] at h; cases h
  user := fun name k s s' tail _ _ _ h => by simp only [VM.callUser, run_throw] at h; cases h
  builtin := fun name args s s' _ _ _ _ h => by simp only [VM.builtin, run_throw] at h; cases h
  apply := fun f args s s' _ _ _ _ _ h => by simp only [VM.applyFn, run_throw] at h; cases h
  mapArr := fun f r i k s s' _ _ _ _ h => by simp only [VM.mapArr, run_throw] at h; cases h
  mapList := fun f l s s' _ _ _ _ _ h => by simp only [VM.mapList, run_throw] at h; cases h
  force := fun id s s' _ _ h => by simp only [VM.forceLazy, run_throw] at h; cases h

/-- **(C2) the error-path contract**, all thirteen functions, outcome `err`, every fuel. -/
theorem errSpec : ∀ n, ErrSpec n
  | 0 => errSpec_zero
  | n + 1 =>
    have ih := allSpec' n
    have ihe := errSpec n
    { exec := fun b s s' top rest i hg hw hr hf h => exec_err n ih ihe b s s' top rest i hg hw hr hf h
      resolved := fun s s' f args hg hw ho h => resolved_err n ih ihe s s' f args hg hw ho h
      loop := fun b st s s' hg hw hl hbl hb hm h => loop_err n ih ihe b st s s' hg hw hl hbl hb hm h
      run := fun b s s' top hg hw hr hb hm hl h => run_err n ih ihe b s s' top hg hw hr hb hm hl h
      nested := fun f st s s' hg hw h2 hlt hp hpc h => nested_err n ih ihe f st s s' hg hw h2 hlt hp hpc h
      eval := fun e s s' hg hw hok h => eval_err n ih ihe e s s' hg hw hok h
      prep := fun f i args s s' hg hw hok h => prep_err n ih ihe args f i s s' hg hw hok h
      user := fun name k s s' tail hg hw hd h => user_err n ih ihe name k s s' tail hg hw hd h
      builtin := fun name args s s' hg hw hpc ha h => builtin_err n ih ihe name args s s' hg hw hpc ha h
      apply := fun f args s s' hg hw hpc hf ha h => apply_err n ih ihe f args s s' hg hw hpc hf ha h
      mapArr := fun f r i k s s' hg hw hpc hf h => mapArr_err n ih ihe f r i k s s' hg hw hpc hf h
      mapList := fun f l s s' hg hw hpc hf hl h => mapList_err n ih ihe f l s s' hg hw hpc hf hl h
      force := fun id s s' hg hw h => force_err n ih ihe id s s' hg hw h }

end ZygoVerif.RunInv
