/-
C02, execution half — F2 at top level: program texts.

A program text of F2 is a list of top-level forms of `Ff true ""`: expressions, `defn`s, `fn`s.
`LoadExpressions` compiles the whole text at once: the templates of all its `fn`/`defn` — nested
ones too — are in the function table before the first instruction runs (`GenOk`).
-/
import ZygoVerif.Proofs.SimF2Ind
import ZygoVerif.Proofs.SimFcTop
set_option linter.unusedSimpArgs false
set_option linter.unusedVariables false
namespace ZygoVerif.Sim
open ZygoVerif.Core ZygoVerif.VM

/-- the program texts of the fragment -/
def FtList (p : List Expr) : Bool := FfList true "" p

/-! ## `LoadExpressions` + `Run` -/

/-- the VM state with the tables the generator left -/
def withGen (s : St) (gs' : GS) : St := { s with fns := gs'.fns, loops := gs'.loops, loopstack := gs'.loopstack }

theorem run_runGen_gen {α} (g : G α) (s : St) (a : α) (gs' : GS)
    (h : g.run { fns := s.fns, loops := s.loops, loopstack := s.loopstack, live := s.linear } = .ok (a, gs')) :
    (runGen g).run s = (.ok a, withGen s gs') := by
  unfold runGen
  simp only [run_bind, run_get, h, run_set, run_pure]
  rfl

/-- the state after `LoadExpressions` -/
def loadedF (s : St) (gs' : GS) (code : List Instr) : St :=
  loadState (clearTrace s) (withGen (clearTrace s) gs') code

theorem fnOf_loadedF (s : St) (gs' : GS) (code : List Instr) (id : Nat) :
    fnOf (loadedF s gs' code) id
      = ((List.set gs'.fns mainFn { gs'.fns.getD mainFn {} with
          code := (gs'.fns.getD mainFn {}).code ++ (if (clearTrace s).pc ≥ curSize (clearTrace s) then [] else [.pop]) ++ code })[id]?).getD {} := by
  show (List.set gs'.fns mainFn _).getD id {} = _
  rw [List.getD_eq_getElem?_getD]; rfl

/-- **A non-empty F2 program text, loaded and run** from a resting top-level state related to the
reference state: `runText` reports what the reference evaluator yields. -/
theorem runText_Ft (m : Nat → Nat) (s : St) (rs : Ref.St) (p : List Expr) (hne : p ≠ []) (hp : FtList p = true)
    (hs : AtRest s) (hlin : s.linear = [some 0]) (hrel : RelF m s rs 0) (n : Nat) :
    ∃ N, ∀ fuel, N ≤ fuel → TextOut (runText fuel p s) (Ref.evalBegin n p 0 { rs with trace := [] }) := by
  obtain ⟨code, t, gs', hc, -, hk, -⟩ := compileBegin_total_Ff true "" p hne hp (isFnScope (clearTrace s)) {}
    { fns := s.fns, loops := s.loops, loopstack := s.loopstack, live := s.linear } (Or.inl rfl)
  have hload : (runGen (compileBegin (isFnScope (clearTrace s)) {} p)).run (clearTrace s)
      = (.ok (code, t), withGen (clearTrace s) gs') := run_runGen_gen _ (clearTrace s) _ gs' hc
  -- the loaded state
  have hsz : curSize (clearTrace s) = ((fnOf s mainFn).code.length : Int) := by
    show (if (fnOf s s.curfunc).user then (0 : Int) else ((fnOf s s.curfunc).code.length : Int)) = _
    rw [hs.cur, hs.user]; rfl
  have hpre : (if (clearTrace s).pc ≥ curSize (clearTrace s) then ([] : List Instr) else [.pop]) = [] :=
    if_pos (by rw [hsz]; show s.pc ≥ _; rw [hs.pc]; exact Int.le_refl _)
  have hmain' : gs'.fns.getD mainFn {} = fnOf s mainFn := hk.fns mainFn hs.main
  have hmlt : mainFn < gs'.fns.length := Nat.lt_of_lt_of_le hs.main hk.len
  have hfmain : fnOf (loadedF s gs' code) mainFn = { fnOf s mainFn with code := (fnOf s mainFn).code ++ code } := by
    rw [fnOf_loadedF, hpre, hmain']
    simp only [List.getElem?_set_self hmlt, Option.getD_some, List.append_nil]
  have hfother : ∀ id, id ≠ mainFn → fnOf (loadedF s gs' code) id = gs'.fns.getD id {} := fun id hid => by
    rw [fnOf_loadedF, List.getElem?_set_ne (fun e => hid e.symm), List.getD_eq_getElem?_getD]
  have hseg : Seg (loadedF s gs' code) (fnOf s mainFn).code code [] :=
    ⟨by show (fnOf (loadedF s gs' code) mainFn).user = false; rw [hfmain]; exact hs.user,
     by show (fnOf (loadedF s gs' code) mainFn).code = _; rw [hfmain]; simp, hs.pc⟩
  have hlenL : (loadedF s gs' code).fns.length = gs'.fns.length := by
    show (List.set gs'.fns mainFn _).length = _; simp
  have hkeep : FnsKeep s (loadedF s gs' code) :=
    ⟨by rw [hlenL]; exact hk.len, fun id hid hne' => by rw [hfother id hne']; exact hk.fns id hid,
     by rw [hfmain], by rw [hfmain], ⟨hk.loopsLen, hk.loopsGet⟩⟩
  have hrelL : RelF m (loadedF s gs' code) { rs with trace := [] } 0 :=
    hrel.load rfl rfl hs.cur.symm rfl rfl hkeep
  have hgen : GenOk { fns := s.fns, loops := s.loops, loopstack := s.loopstack, live := s.linear } gs' (loadedF s gs' code) :=
    ⟨hlin, hs.main, by rw [hlenL]; exact Nat.le_refl _,
     fun t' h1 _ => hfother t' (by have := hs.main; simp only at h1; omega), ⟨Nat.le_refl _, fun _ _ _ => rfl⟩⟩
  have hsim := segment_Ff_begin true "" p hne hp _ {} (Or.inl rfl) _ ((code, t), gs') hc m (loadedF s gs' code)
    { rs with trace := [] } 0 (fnOf s mainFn).code [] hrelL (fun _ => hgen) hseg n
  cases hres : Ref.evalBegin n p 0 { rs with trace := [] } with
  | ok v' rs' =>
    rw [hres] at hsim
    obtain ⟨s1, m1, v, r, l, hv, rel1, -, -, -, -⟩ := hsim
    obtain ⟨N, hN⟩ := run_of_landsE hseg r l
    refine ⟨N, fun fuel hf => ?_⟩
    refine ⟨s1.jmp s1.pc (loadedF s gs' code).data, depths (s1.jmp s1.pc (loadedF s gs' code).data), ?_⟩
    have e : loadState (clearTrace s) (withGen (clearTrace s) gs') code = loadedF s gs' code := rfl
    rw [runText_eq]
    simp only [hload, e, hN fuel hf]
    have hpr : pr (s1.jmp s1.pc (loadedF s gs' code).data).heap v = pr rs'.heap v' := by
      rw [hv, rel1.heap]; exact (pr_tr m1 id id s1.heap v).symm
    rw [hpr, show (s1.jmp s1.pc (loadedF s gs' code).data).trace = rs'.trace from rel1.trace]
  | err rs' =>
    rw [hres] at hsim
    obtain ⟨N, hN⟩ := run_of_failsE hsim
    refine ⟨N, fun fuel hf => ?_⟩
    obtain ⟨sf, hrun, htr⟩ := hN fuel hf
    refine ⟨sf, depths sf, ?_⟩
    have e : loadState (clearTrace s) (withGen (clearTrace s) gs') code = loadedF s gs' code := rfl
    rw [runText_eq]
    simp only [hload, e, hrun, htr]
  | timeout => exact ⟨0, fun _ _ => trivial⟩
  | brk l rs' => rw [hres] at hsim; exact hsim.elim
  | cont l rs' => rw [hres] at hsim; exact hsim.elim

/-! ## The initial states -/

theorem lookup_builtins (x : String) (v : Val) : ∀ (names : List String),
    (names.map (fun n => (n, Val.builtin n))).lookup x = some v → v = .builtin x ∧ x ∈ names
  | [], h => by simp at h
  | n :: names, h => by
    simp only [List.map_cons, List.lookup_cons] at h
    by_cases hx : (x == n) = true
    · rw [hx] at h
      have hxn : x = n := by simpa using hx
      subst hxn
      simp only [Option.some.injEq] at h
      exact ⟨h.symm, by simp⟩
    · have hx' : (x == n) = false := by simpa using hx
      rw [hx'] at h
      obtain ⟨h1, h2⟩ := lookup_builtins x v names h
      exact ⟨h1, List.mem_cons_of_mem _ h2⟩

theorem initVars_lookup (x : String) (v : Val)
    (h : ([("nil", Val.nil), ("null", Val.nil)] ++ VM.globalNames.map (fun n => (n, Val.builtin n))).lookup x = some v) :
    v = .nil ∨ (v = .builtin x ∧ x ∈ VM.globalNames) := by
  simp only [List.cons_append, List.nil_append, List.lookup_cons] at h
  split at h
  · left; injection h with h; exact h.symm
  · split at h
    · left; injection h with h; exact h.symm
    · right; exact lookup_builtins x v _ h

theorem globalNames_fo : ∀ n ∈ VM.globalNames, okSym n = true → (n ∈ foBuiltins ∨ (n = "force" ∨ n = "apply" ∨ n = "map")) := by decide

theorem relF_initSt (m : Nat → Nat) : RelF m initSt Ref.initSt 0 := by
  have hsc : ∀ i, 0 < i → scopeOf initSt i = {} := fun i hi => by
    cases i with
    | zero => omega
    | succ i => rfl
  refine ⟨rfl, ?_, ⟨_, rfl, rfl, rfl⟩, ?_, rfl, ⟨none, ChainF.root _ rfl rfl rfl, FnChainF.root _ 0 (by decide) rfl ⟨[], rfl⟩⟩, ?_,
    rfl, rfl, globals_initSt, ?_, fun _ _ _ _ _ _ _ => rfl, ⟨rfl, fun id lz h => by simp [initSt] at h⟩⟩
  · intro i x
    cases i with
    | zero =>
      show ([("nil", Val.nil), ("null", Val.nil)] ++ Ref.globalNames.map (fun n => (n, Val.builtin n))).lookup x
        = (([("nil", Val.nil), ("null", Val.nil)] ++ VM.globalNames.map (fun n => (n, Val.builtin n))).lookup x).map (trf m)
      have hg : Ref.globalNames = VM.globalNames := rfl
      rw [hg]
      cases hl : ([("nil", Val.nil), ("null", Val.nil)] ++ VM.globalNames.map (fun n => (n, Val.builtin n))).lookup x with
      | none => rfl
      | some v =>
        rcases initVars_lookup x v hl with rfl | ⟨rfl, _⟩ <;> rfl
    | succ i => rfl
  · intro i fr hf p hp
    cases i with
    | zero =>
      simp only [Ref.initSt, List.getElem?_cons_zero, Option.some.injEq] at hf
      subst hf; cases hp
    | succ i => simp [Ref.initSt] at hf
  · intro i hi
    cases i with
    | zero => cases hi
    | succ i => cases hi
  · intro i x v hv
    cases i with
    | zero =>
      rcases initVars_lookup x v hv with rfl | ⟨rfl, hx⟩
      · exact valIn_of_const (fun _ _ _ => rfl)
      · exact valIn_builtin (fun hok => globalNames_fo x hx hok)
    | succ i => cases hv


end ZygoVerif.Sim
