/-
C02, execution half — F2a at top level: `defn`, program texts.

A program text of F2a is a list of top-level forms, each a `defn` (fixed arity, distinct non-lazy
parameters, a body in `Ff name`) or an expression of `Ff ""`. `LoadExpressions` compiles the whole
text at once: the templates of all its `defn`s are in the function table before the first
instruction runs; `createClosure t` copies template `t`.
-/
import ZygoVerif.Proofs.SimF2
import ZygoVerif.Proofs.SimFcTop
set_option linter.unusedSimpArgs false
set_option linter.unusedVariables false
namespace ZygoVerif.Sim
open ZygoVerif.Core ZygoVerif.VM

/-! ## `defn` in the generator -/

/-- the template `buildSexpFun` registers for a top-level `defn` -/
def tmplOf (isFn : Nat → Bool) (gs : GS) (name : String) (ps : List String) : FnObj :=
  { name := name, nargs := ps.length, varargs := false, params := ps, closing := newClosing isFn gs.live }

/-- … and when its body is compiled -/
def tmplDone (isFn : Nat → Bool) (gs : GS) (name : String) (ps : List String) (b : List Instr) : FnObj :=
  { tmplOf isFn gs name ps with code := fnCode gs.fns.length ps b }

/-- the generator state after `allocTemplate` -/
def gsAlloc (isFn : Nat → Bool) (gs : GS) (name : String) (ps : List String) : GS :=
  { gs with fns := gs.fns ++ [tmplOf isFn gs name ps] }

/-- … and after `finishTemplate` -/
def gsDone (isFn : Nat → Bool) (gs : GS) (name : String) (ps : List String) (b : List Instr) : GS :=
  { gs with fns := (gs.fns ++ [tmplOf isFn gs name ps]).set gs.fns.length (tmplDone isFn gs name ps b) }

/-- the context in which the body of `defn name` is compiled -/
def bodyCtx (c : Ctx) (gs : GS) (name : String) (ps : List String) (body : List Expr) : Ctx :=
  { tail := true, scopes := 0, funcname := if !rebindsOwnName name ps none body then name else "", known := (name, gs.fns.length) :: c.known }

theorem compile_defn_ok (isFn : Nat → Bool) (c : Ctx) (name : String) (ps : List String) (body : List Expr) (gs : GS)
    (b : List Instr) (tl : Bool) (hname : name ≠ "")
    (hb : (compileBegin isFn (bodyCtx c gs name ps body) body).run (gsAlloc isFn gs name ps)
      = .ok ((b, tl), gsAlloc isFn gs name ps)) :
    (compile isFn c (.defn name ps none body)).run gs =
      .ok (([.createClosure gs.fns.length, .popStackPutEnv name, .push .nil], c.tail), gsDone isFn gs name ps b) := by
  rw [compile]
  have hemp : name.isEmpty = false := by
    simpa [String.isEmpty_iff] using hname
  unfold allocTemplate finishTemplate
  simp only [bind, StateT.bind, StateT.run, get, getThe, MonadStateOf.get, StateT.get, pure, Except.pure, Except.bind,
    set, StateT.set, StateT.pure, modify, modifyGet, MonadStateOf.modifyGet, StateT.modifyGet, hemp, Bool.false_eq_true,
    if_false, Option.toList, List.append_nil, Option.isSome]
  have hb' := hb
  unfold bodyCtx gsAlloc tmplOf at hb'
  simp only [StateT.run] at hb'
  rw [hb']
  simp only [gsDone, tmplDone, tmplOf, fnCode, List.getD_eq_getElem?_getD, List.getElem?_append_right (Nat.le_refl _),
    Nat.sub_self, List.getElem?_cons_zero, Option.getD_some]

theorem newClosing_single (isFn : Nat → Bool) : newClosing isFn [some 0] = [some 0] := by
  unfold newClosing
  simp only [newClosing.go]
  split <;> simp [newClosing.go]

/-! ## Top-level forms -/

def FtForm : Expr → Bool
  | .defn name ps rest body =>
    rest.isNone && okName name && (name != "") && decide ps.Nodup && ps.all okParam && !body.isEmpty && FfList name body
  | e => Ff "" e

def FtList : List Expr → Bool
  | [] => true
  | e :: es => FtForm e && FtList es

/-- what compiling top-level forms does to the generator state: templates appended, nothing else -/
structure KeepFns (g₁ g₂ : GS) : Prop where
  len : g₁.fns.length ≤ g₂.fns.length
  fns : ∀ t, t < g₁.fns.length → g₂.fns.getD t {} = g₁.fns.getD t {}
  live : g₂.live = g₁.live
  loops : g₂.loops = g₁.loops
  loopstack : g₂.loopstack = g₁.loopstack

theorem KeepFns.refl (g : GS) : KeepFns g g := ⟨Nat.le_refl _, fun _ _ => rfl, rfl, rfl, rfl⟩

theorem KeepFns.trans {a b c : GS} (h₁ : KeepFns a b) (h₂ : KeepFns b c) : KeepFns a c :=
  ⟨Nat.le_trans h₁.len h₂.len, fun t ht => (h₂.fns t (Nat.lt_of_lt_of_le ht h₁.len)).trans (h₁.fns t ht),
   h₂.live.trans h₁.live, h₂.loops.trans h₁.loops, h₂.loopstack.trans h₁.loopstack⟩

theorem keepFns_done (isFn : Nat → Bool) (gs : GS) (name : String) (ps : List String) (b : List Instr) :
    KeepFns gs (gsDone isFn gs name ps b) := by
  refine ⟨by simp [gsDone], fun t ht => ?_, rfl, rfl, rfl⟩
  simp only [gsDone, List.getD_eq_getElem?_getD]
  rw [List.getElem?_set_ne (by omega), List.getElem?_append_left ht]

theorem bodyCtx_funcname (c : Ctx) (gs : GS) (name : String) (ps : List String) (body : List Expr) :
    (bodyCtx c gs name ps body).funcname = name ∨ (bodyCtx c gs name ps body).funcname = "" := by
  unfold bodyCtx
  simp only
  split
  · exact Or.inl rfl
  · exact Or.inr rfl

theorem compile_total_Ft (e : Expr) (he : FtForm e = true) (isFn : Nat → Bool) (c : Ctx) (gs : GS) (hfn : c.funcname = "") :
    ∃ code t gs', (compile isFn c e).run gs = .ok ((code, t), gs') ∧ code ≠ [] ∧ KeepFns gs gs' := by
  cases e with
  | defn name ps rest body =>
    simp only [FtForm, Bool.and_eq_true, Option.isNone_iff_eq_none, bne_iff_ne, ne_eq, decide_eq_true_eq,
      Bool.not_eq_true', List.isEmpty_eq_false_iff] at he
    obtain ⟨⟨⟨⟨⟨⟨hrest, hname⟩, hne⟩, hnd⟩, hps⟩, hbody⟩, hff⟩ := he
    subst hrest
    obtain ⟨b, tl, hb, _⟩ := compileBegin_total_Ff name body hbody hff isFn (bodyCtx c gs name ps body)
      (gsAlloc isFn gs name ps) (bodyCtx_funcname c gs name ps body)
    exact ⟨_, _, _, compile_defn_ok isFn c name ps body gs b tl hne hb, by simp, keepFns_done isFn gs name ps b⟩
  | _ =>
    all_goals
      obtain ⟨code, t, h1, hne⟩ := compile_total_Ff "" _ he isFn c gs (Or.inr hfn)
      exact ⟨code, t, gs, h1, hne, KeepFns.refl gs⟩

theorem compileBegin_total_Ft : ∀ (es : List Expr), es ≠ [] → FtList es = true → ∀ isFn c gs, c.funcname = "" →
    ∃ code t gs', (compileBegin isFn c es).run gs = .ok ((code, t), gs') ∧ code ≠ [] ∧ KeepFns gs gs'
  | [], hne, _, _, _, _, _ => absurd rfl hne
  | [e], _, he, isFn, c, gs, hfn => by
    rw [FtList] at he
    simp only [Bool.and_eq_true] at he
    rw [compileBegin]
    exact compile_total_Ft e he.1 isFn c gs hfn
  | e :: e' :: es, _, he, isFn, c, gs, hfn => by
    rw [FtList] at he
    simp only [Bool.and_eq_true] at he
    obtain ⟨a, ta, g1, ha, hane, hf1⟩ := compile_total_Ft e he.1 isFn { c with tail := false } gs hfn
    obtain ⟨b, tb, g2, hb, _, hf2⟩ := compileBegin_total_Ft (e' :: es) (by simp) he.2 isFn c g1 hfn
    refine ⟨a ++ (if a.isEmpty then [] else [.pop]) ++ b, tb, g2, ?_, by simp [hane], hf1.trans hf2⟩
    rw [compileBegin]
    · simp only [g_bind_ok, g_pure_ok]
      exact ⟨_, _, ha, _, _, hb, rfl⟩
    · intro hh; cases hh

/-! ## `defn` at top level -/

/-- top level: the live stack is the global scope, the running function has no parent -/
structure TopCtx (s : St) : Prop where
  lin : s.linear = [some 0]
  par : (fnOf s s.curfunc).parent = none
  cur : s.curfunc < s.fns.length
  main : mainFn < s.fns.length

theorem TopCtx.frame {s s' : St} (h : TopCtx s) (hf : Frame s s') : TopCtx s' :=
  ⟨by rw [hf.linear]; exact h.lin, by rw [hf.curfunc, hf.fns _ h.cur]; exact h.par,
   by rw [hf.curfunc]; exact Nat.lt_of_lt_of_le h.cur hf.fnsLen, Nat.lt_of_lt_of_le h.main hf.fnsLen⟩

theorem simF_defn {n : Nat} (name : String) (ps : List String) (body : List Expr)
    (hform : FtForm (.defn name ps none body) = true) (isFn : Nat → Bool) (c : Ctx) (gs : GS)
    (r : (List Instr × Bool) × GS) (hc : (compile isFn c (.defn name ps none body)).run gs = .ok r)
    (hlive : gs.live = [some 0]) {m : Nat → Nat} {s : St} {rs : Ref.St} {pre post : List Instr}
    (hrel : RelF m s rs 0) (htop : TopCtx s) (hlen : r.2.fns.length ≤ s.fns.length)
    (hT' : ∀ t, gs.fns.length ≤ t → t < r.2.fns.length → fnOf s t = r.2.fns.getD t {}) (hseg : Seg s pre r.1.1 post) :
    SimF r.1.1 m s rs 0 (Ref.eval (n + 1) (.defn name ps none body) 0 rs) := by
  simp only [FtForm, Bool.and_eq_true, Option.isNone_none, true_and, bne_iff_ne, ne_eq, decide_eq_true_eq,
    Bool.not_eq_true', List.isEmpty_eq_false_iff, List.all_eq_true] at hform
  obtain ⟨⟨⟨⟨⟨hname, hne⟩, hnd⟩, hps⟩, hbody⟩, hff⟩ := hform
  obtain ⟨b, tl, hb, _⟩ := compileBegin_total_Ff name body hbody hff isFn (bodyCtx c gs name ps body)
    (gsAlloc isFn gs name ps) (bodyCtx_funcname c gs name ps body)
  have hceq := compile_defn_ok isFn c name ps body gs b tl hne hb
  rw [hceq] at hc
  injection hc with hc
  subst hc
  have hlenD : (gsDone isFn gs name ps b).fns.length = gs.fns.length + 1 := by simp [gsDone]
  have htl : gs.fns.length < s.fns.length := by have := hlen; simp only at this; omega
  have hT := hT' gs.fns.length (Nat.le_refl _) (by simp only; omega)
  simp only at hseg hT ⊢
  -- the template in the running state
  have hTd : fnOf s gs.fns.length = tmplDone isFn gs name ps b := by
    rw [hT]; simp [gsDone, List.getD_eq_getElem?_getD]
  -- the reference side
  rw [Ref.eval]
  show SimF _ m s rs 0
    (match Ref.define { rs with clos := rs.clos ++ [{ ps := ps, rest := none, body := body, env := 0 }] } 0 name
        (.fn ((rs.clos ++ [({ ps := ps, rest := none, body := body, env := 0 } : Ref.Clos)]).length - 1)) with
     | some s' => .ok .nil s'
     | none => .err { rs with clos := rs.clos ++ [{ ps := ps, rest := none, body := body, env := 0 }] })
  have hcid : (rs.clos ++ [({ ps := ps, rest := none, body := body, env := 0 } : Ref.Clos)]).length - 1 = rs.clos.length := by
    simp
  rw [hcid]
  generalize hrs1 : ({ rs with clos := rs.clos ++ [{ ps := ps, rest := none, body := body, env := 0 }] } : Ref.St) = rs₁
  -- createClosure
  have a0 : At s pre (.createClosure gs.fns.length) ([.popStackPutEnv name, .push .nil] ++ post) :=
    ⟨hseg.user, by rw [hseg.code]; simp, hseg.pc⟩
  have r0 : ReachX s (afterClosure s gs.fns.length) := (Reach.step a0 (fun f => exec_createClosure f _ s)).toX
  generalize hs1 : afterClosure s gs.fns.length = s₁ at r0
  have hfns1 : s₁.fns = s.fns ++ [closureObj s gs.fns.length] := by subst hs1; rfl
  have hfo1 : ∀ id, id < s.fns.length → fnOf s₁ id = fnOf s id := fun id hid => by
    unfold fnOf; rw [hfns1]; simp only [List.getD_eq_getElem?_getD, List.getElem?_append_left hid]
  have hfl1 : s.fns.length ≤ s₁.fns.length := by rw [hfns1]; simp
  have hnew1 : fnOf s₁ s.fns.length = closureObj s gs.fns.length := by
    unfold fnOf; rw [hfns1]; simp [List.getD_eq_getElem?_getD]
  have hclos1 : ClosExt rs rs₁ := fun i c' hc' => by
    subst hrs1; show (rs.clos ++ [_])[i]? = some c'
    rw [List.getElem?_append_left (lt_of_getElem?_some hc')]; exact hc'
  have hmext : MExt s m (mapWith m s.fns.length rs.clos.length) := fun id hid => by
    unfold mapWith; rw [if_neg (by omega)]
  have hk01 : FnsKeep s s₁ := FnsKeep.of_eq hfl1 hfo1 htop.main
  have rel1 : RelF (mapWith m s.fns.length rs.clos.length) s₁ rs₁ 0 :=
    hrel.grow (by subst hs1; rfl) (by subst hs1; rfl) (by subst hs1; rfl) (by subst hs1; rfl)
      (by subst hs1; subst hrs1; exact hrel.trace) hk01 (by subst hrs1; rfl) (by subst hrs1; rfl) hclos1 hmext
  -- the new closure object is good
  have hmv : mapWith m s.fns.length rs.clos.length s.fns.length = rs.clos.length := by unfold mapWith; rw [if_pos rfl]
  have hgood : GoodFn (mapWith m s.fns.length rs.clos.length) s₁ rs₁ s.fns.length :=
    GoodFn.create hrel gs.fns.length { ps := ps, rest := none, body := body, env := 0 } htop.main rfl rfl hnd hps hbody
      (by rw [hTd]; rfl) (by rw [hTd]; rfl) (by rw [hTd]; rfl) (by rw [hTd]; rfl) htl
      (by rw [hTd]; show newClosing isFn gs.live = [some 0]; rw [hlive]; exact newClosing_single _)
      ⟨b, tl, isFn, bodyCtx c gs name ps body, gsAlloc isFn gs name ps, gsAlloc isFn gs name ps, name,
        by rw [hTd]; rfl, hb, rfl, bodyCtx_funcname c gs name ps body, hff⟩
      s₁ rs₁ hs1.symm hrs1.symm
  -- popStackPutEnv name
  have a1 : At s₁ (pre ++ [.createClosure gs.fns.length]) (.popStackPutEnv name) ([.push .nil] ++ post) := by
    subst hs1
    exact ⟨hseg.user.trans rfl |> fun h => by
        show (fnOf (afterClosure s gs.fns.length) s.curfunc).user = false
        rw [show fnOf (afterClosure s gs.fns.length) s.curfunc = fnOf s s.curfunc from hfo1 _ htop.cur]; exact hseg.user,
      by show (fnOf (afterClosure s gs.fns.length) s.curfunc).code = _
         rw [show fnOf (afterClosure s gs.fns.length) s.curfunc = fnOf s s.curfunc from hfo1 _ htop.cur, hseg.code]; simp,
      by show s.pc + 1 = _; rw [hseg.pc]; simp⟩
  have hd1 : s₁.data = some (.fn s.fns.length) :: s.data := by subst hs1; rfl
  have hp := psp_stepF a1 hd1 rel1 hname (valIn_fn hgood)
  have htrfn : trf (mapWith m s.fns.length rs.clos.length) (.fn s.fns.length) = .fn rs.clos.length := by
    show Val.fn (mapWith m s.fns.length rs.clos.length s.fns.length) = _; rw [hmv]
  rw [htrfn] at hp
  have hfr01 : FrameF s s₁ := by
    subst hs1
    exact ⟨⟨rfl, rfl, rfl, rfl, hfl1, hfo1, Nat.le_refl _, fun _ _ => rfl⟩, Nat.le_refl _, fun _ _ => rfl⟩
  have hext01 : RExt rs rs₁ := ⟨by subst hrs1; exact fun i fr hf => ⟨fr, hf, rfl⟩, hclos1⟩
  cases hdef : Ref.define rs₁ 0 name (.fn rs.clos.length) with
  | none =>
    rw [hdef] at hp
    simp only
    exact FailsX.of_reach r0 hp.toX
  | some rs₂ =>
    rw [hdef] at hp
    obtain ⟨r2, rel2, ext2⟩ := hp
    simp only
    generalize hs2 : (s₁.jmp (s₁.pc + 1) s.data).bind 0 name (.fn s.fns.length) = s₂ at r2 rel2
    have hfr12 : FrameF s₁ s₂ := by subst hs2; exact (FrameF.jmp _ _ _).trans (FrameF.bind _ _ _ _)
    have a2 : At s₂ (pre ++ [.createClosure gs.fns.length, .popStackPutEnv name]) (.push .nil) post := by
      have hfn2 : fnOf s₂ s₂.curfunc = fnOf s s.curfunc := by
        rw [hfr12.curfunc, hfr01.curfunc, hfr12.fns _ (Nat.lt_of_lt_of_le htop.cur hfl1), hfo1 _ htop.cur]
      refine ⟨by rw [hfn2]; exact hseg.user, by rw [hfn2, hseg.code]; simp, ?_⟩
      subst hs2; subst hs1
      show s.pc + 1 + 1 = _; rw [hseg.pc]; simp; omega
    have r3 := (reach_push a2).toX
    refine ⟨s₂.jmp (s₂.pc + 1) (some .nil :: s₂.data), mapWith m s.fns.length rs.clos.length, .nil,
      ((r0.trans r2.toX).trans r3), ⟨?_, ?_, ?_⟩, rfl, rel2.jmp _ _, hmext, hext01.trans ext2,
      (hfr01.trans hfr12).trans (FrameF.jmp _ _ _), vOk_lit .nil (fun _ _ _ => rfl)⟩
    · show fnOf s₂ s₂.curfunc = _
      rw [hfr12.curfunc, hfr01.curfunc, hfr12.fns _ (Nat.lt_of_lt_of_le htop.cur hfl1), hfo1 _ htop.cur]
    · subst hs2; subst hs1
      show s.pc + 1 + 1 + 1 = _; simp; omega
    · subst hs2; subst hs1; rfl

/-! ## Program texts -/

/-- one top-level form -/
theorem simF_form (n : Nat) (e : Expr) (he : FtForm e = true) (isFn : Nat → Bool) (c : Ctx) (gs : GS)
    (r : (List Instr × Bool) × GS) (hc : (compile isFn c e).run gs = .ok r) (hfn : c.funcname = "")
    (hlive : gs.live = [some 0]) (m : Nat → Nat) (s : St) (rs : Ref.St) (pre post : List Instr)
    (hrel : RelF m s rs 0) (htop : TopCtx s) (hlen : r.2.fns.length ≤ s.fns.length)
    (hT : ∀ t, gs.fns.length ≤ t → t < r.2.fns.length → fnOf s t = r.2.fns.getD t {}) (hseg : Seg s pre r.1.1 post) :
    SimF r.1.1 m s rs 0 (Ref.eval n e 0 rs) := by
  cases e with
  | defn name ps rest body =>
    have hrest : rest = none := by
      simp only [FtForm, Bool.and_eq_true, Option.isNone_iff_eq_none] at he
      exact he.1.1.1.1.1.1
    subst hrest
    cases n with
    | zero => rw [Ref.eval]; trivial
    | succ k => exact simF_defn name ps body he isFn c gs r hc hlive hrel htop hlen hT hseg
  | _ => all_goals exact segment_Ff "" _ he isFn c (Or.inr hfn) gs r hc m s rs 0 pre post hrel hseg n

def FClaimT (n : Nat) : Prop :=
  ∀ es, es ≠ [] → FtList es = true → ∀ isFn c gs r, (compileBegin isFn c es).run gs = .ok r → c.funcname = "" →
    gs.live = [some 0] → ∀ m s rs pre post, RelF m s rs 0 → TopCtx s → r.2.fns.length ≤ s.fns.length →
    (∀ t, gs.fns.length ≤ t → t < r.2.fns.length → fnOf s t = r.2.fns.getD t {}) → Seg s pre r.1.1 post →
    SimF r.1.1 m s rs 0 (Ref.evalBegin n es 0 rs)

theorem fclaimT : ∀ n, FClaimT n
  | 0 => by
    intro es hne hes isFn c gs r hc hfn hlive m s rs pre post hrel htop hlen hT hseg
    rw [Ref.evalBegin]; trivial
  | n + 1 => by
    intro es hne hes isFn c gs r hc hfn hlive m s rs pre post hrel htop hlen hT hseg
    match es, hne with
    | [e], _ =>
      rw [FtList] at hes
      simp only [Bool.and_eq_true] at hes
      rw [compileBegin] at hc
      rw [Ref.evalBegin]
      exact simF_form n e hes.1 isFn c gs r hc hfn hlive m s rs pre post hrel htop hlen hT hseg
    | e :: e' :: es', _ =>
      rw [FtList] at hes
      simp only [Bool.and_eq_true] at hes
      rw [compileBegin] at hc
      · simp only [g_bind_ok, g_pure_ok] at hc
        obtain ⟨ra, g1, ha, rb, g2, hb, rfl⟩ := hc
        -- what the generator did
        obtain ⟨ca, ta, g1', ha', hane', hk1'⟩ := compile_total_Ft e hes.1 isFn { c with tail := false } gs hfn
        rw [ha] at ha'
        injection ha' with ha'
        have hra : ra = (ca, ta) := (Prod.mk.inj ha').1
        have hg1 : g1 = g1' := (Prod.mk.inj ha').2
        subst hg1
        have hk1 := hk1'
        obtain ⟨cb, tb, g2', hb', _, hk2'⟩ := compileBegin_total_Ft (e' :: es') (by simp) hes.2 isFn c g1 hfn
        rw [hb] at hb'
        injection hb' with hb'
        have hg2 : g2 = g2' := (Prod.mk.inj hb').2
        subst hg2
        have hk2 := hk2'
        have hane : ra.1.isEmpty = false := by
          rw [hra]; simpa [List.isEmpty_eq_false_iff] using hane'
        simp only [hane, Bool.false_eq_true, if_false] at hseg hlen hT ⊢
        rw [Ref.evalBegin]
        · have ih := simF_form n e hes.1 isFn _ gs (ra, g1) ha hfn hlive m s rs pre ([.pop] ++ rb.1 ++ post) hrel htop
            (Nat.le_trans hk2.len hlen)
            (fun t h1 h2 => by rw [hT t h1 (Nat.lt_of_lt_of_le h2 hk2.len)]; exact hk2.fns t h2)
            (hseg.refocus (by simp))
          cases h1 : Ref.eval n e 0 rs with
          | ok v1 rs1 =>
            rw [h1] at ih
            obtain ⟨s1, m1, w1, r1, l1, hv1, rel1, hm1, ext1, fr1, hcl1⟩ := ih
            obtain ⟨r2, m2⟩ := glue_pop hseg l1
            have ih2 := fclaimT n (e' :: es') (by simp) hes.2 isFn c g1 (rb, g2) hb hfn (hk1.live.trans hlive) m1
              (s1.jmp (s1.pc + 1) s.data) rs1 _ post
              (rel1.jmp _ _) (htop.frame (fr1.toFrame.trans (Frame.jmp s1 (s1.pc + 1) s.data)))
              (Nat.le_trans hlen fr1.fnsLen)
              (fun t h1 h2 => by
                show fnOf s1 t = _
                rw [fr1.fns t (Nat.lt_of_lt_of_le h2 hlen)]
                exact hT t (Nat.le_trans hk1.len h1) h2)
              (hseg.moved m2 (c₁ := ra.1 ++ [.pop]) (c₂ := rb.1) (post' := post) rfl (by simp))
            exact SimF.seq (r1.trans r2.toX) m2 hm1 ext1 (fr1.trans (FrameF.jmp _ _ _)) ih2 (by lenarith)
          | err rs1 => rw [h1] at ih; exact SimF.prefix ih (fun _ _ hh => by cases hh)
          | timeout => trivial
          | brk l rs1 => rw [h1] at ih; exact ih.elim
          | cont l rs1 => rw [h1] at ih; exact ih.elim
        · intro hh; cases hh
      · intro hh; cases hh

/-! ## `LoadExpressions` + `Run` -/

/-- the VM state with the tables the generator left -/
def withGen (s : St) (gs' : GS) : St := { s with fns := gs'.fns, loops := gs'.loops, loopstack := gs'.loopstack }

theorem run_runGen_gen {α} (g : G α) (s : St) (a : α) (gs' : GS)
    (h : g.run { fns := s.fns, loops := s.loops, loopstack := s.loopstack, live := s.linear } = .ok (a, gs')) :
    (runGen g).run s = (.ok a, withGen s gs') := by
  unfold runGen
  simp only [run_bind, run_get, h, run_set, run_pure]
  rfl

/-- the state after `LoadExpressions` -/
def loadedF (s : St) (gs' : GS) (code : List Instr) : St :=
  loadState (clearTrace s) (withGen (clearTrace s) gs') code

theorem fnOf_loadedF (s : St) (gs' : GS) (code : List Instr) (id : Nat) :
    fnOf (loadedF s gs' code) id
      = ((List.set gs'.fns mainFn { gs'.fns.getD mainFn {} with
          code := (gs'.fns.getD mainFn {}).code ++ (if (clearTrace s).pc ≥ curSize (clearTrace s) then [] else [.pop]) ++ code })[id]?).getD {} := by
  show (List.set gs'.fns mainFn _).getD id {} = _
  rw [List.getD_eq_getElem?_getD]; rfl

/-- **A non-empty F2a program text, loaded and run** from a resting top-level state related to the
reference state: `runText` reports what the reference evaluator yields. -/
theorem runText_Ft (m : Nat → Nat) (s : St) (rs : Ref.St) (p : List Expr) (hne : p ≠ []) (hp : FtList p = true)
    (hs : AtRest s) (htop : TopCtx s) (hrel : RelF m s rs 0) (n : Nat) :
    ∃ N, ∀ fuel, N ≤ fuel → TextOut (runText fuel p s) (Ref.evalBegin n p 0 { rs with trace := [] }) := by
  obtain ⟨code, t, gs', hc, -, hk⟩ := compileBegin_total_Ft p hne hp (isFnScope (clearTrace s)) {}
    { fns := s.fns, loops := s.loops, loopstack := s.loopstack, live := s.linear } rfl
  have hload : (runGen (compileBegin (isFnScope (clearTrace s)) {} p)).run (clearTrace s)
      = (.ok (code, t), withGen (clearTrace s) gs') := run_runGen_gen _ (clearTrace s) _ gs' hc
  -- the loaded state
  have hsz : curSize (clearTrace s) = ((fnOf s mainFn).code.length : Int) := by
    show (if (fnOf s s.curfunc).user then (0 : Int) else ((fnOf s s.curfunc).code.length : Int)) = _
    rw [hs.cur, hs.user]; rfl
  have hpre : (if (clearTrace s).pc ≥ curSize (clearTrace s) then ([] : List Instr) else [.pop]) = [] :=
    if_pos (by rw [hsz]; show s.pc ≥ _; rw [hs.pc]; exact Int.le_refl _)
  have hmain' : gs'.fns.getD mainFn {} = fnOf s mainFn := hk.fns mainFn hs.main
  have hmlt : mainFn < gs'.fns.length := Nat.lt_of_lt_of_le hs.main hk.len
  have hfmain : fnOf (loadedF s gs' code) mainFn = { fnOf s mainFn with code := (fnOf s mainFn).code ++ code } := by
    rw [fnOf_loadedF, hpre, hmain']
    simp only [List.getElem?_set_self hmlt, Option.getD_some, List.append_nil]
  have hfother : ∀ id, id ≠ mainFn → fnOf (loadedF s gs' code) id = gs'.fns.getD id {} := fun id hid => by
    rw [fnOf_loadedF, List.getElem?_set_ne (fun e => hid e.symm), List.getD_eq_getElem?_getD]
  have hseg : Seg (loadedF s gs' code) (fnOf s mainFn).code code [] :=
    ⟨by show (fnOf (loadedF s gs' code) mainFn).user = false; rw [hfmain]; exact hs.user,
     by show (fnOf (loadedF s gs' code) mainFn).code = _; rw [hfmain]; simp, hs.pc⟩
  have hlenL : (loadedF s gs' code).fns.length = gs'.fns.length := by
    show (List.set gs'.fns mainFn _).length = _; simp
  have hkeep : FnsKeep s (loadedF s gs' code) :=
    ⟨by rw [hlenL]; exact hk.len, fun id hid hne' => by rw [hfother id hne']; exact hk.fns id hid,
     by rw [hfmain], by rw [hfmain]⟩
  have hrelL : RelF m (loadedF s gs' code) { rs with trace := [] } 0 :=
    hrel.load rfl rfl hs.cur.symm rfl rfl hkeep
  have htopL : TopCtx (loadedF s gs' code) :=
    ⟨htop.lin, by show (fnOf (loadedF s gs' code) mainFn).parent = none; rw [hfmain]; have := htop.par; rw [hs.cur] at this; exact this,
     by show mainFn < _; rw [hlenL]; exact hmlt, by rw [hlenL]; exact hmlt⟩
  have hsim := fclaimT n p hne hp _ {} _ ((code, t), gs') hc rfl htop.lin m (loadedF s gs' code) { rs with trace := [] }
    (fnOf s mainFn).code [] hrelL htopL (by rw [hlenL]; exact Nat.le_refl _)
    (fun t' h1 h2 => hfother t' (by have := hs.main; simp only at h1; omega)) hseg
  cases hres : Ref.evalBegin n p 0 { rs with trace := [] } with
  | ok v' rs' =>
    rw [hres] at hsim
    obtain ⟨s1, m1, v, r, l, hv, rel1, -, -, -, -⟩ := hsim
    obtain ⟨N, hN⟩ := run_of_landsE hseg r l
    refine ⟨N, fun fuel hf => ?_⟩
    refine ⟨s1.jmp s1.pc (loadedF s gs' code).data, depths (s1.jmp s1.pc (loadedF s gs' code).data), ?_⟩
    have e : loadState (clearTrace s) (withGen (clearTrace s) gs') code = loadedF s gs' code := rfl
    rw [runText_eq]
    simp only [hload, e, hN fuel hf]
    have hpr : pr (s1.jmp s1.pc (loadedF s gs' code).data).heap v = pr rs'.heap v' := by
      rw [hv, rel1.heap]; exact (pr_tr m1 id id s1.heap v).symm
    rw [hpr, show (s1.jmp s1.pc (loadedF s gs' code).data).trace = rs'.trace from rel1.trace]
  | err rs' =>
    rw [hres] at hsim
    obtain ⟨N, hN⟩ := run_of_failsE hsim
    refine ⟨N, fun fuel hf => ?_⟩
    obtain ⟨sf, hrun, htr⟩ := hN fuel hf
    refine ⟨sf, depths sf, ?_⟩
    have e : loadState (clearTrace s) (withGen (clearTrace s) gs') code = loadedF s gs' code := rfl
    rw [runText_eq]
    simp only [hload, e, hrun, htr]
  | timeout => exact ⟨0, fun _ _ => trivial⟩
  | brk l rs' => rw [hres] at hsim; exact hsim.elim
  | cont l rs' => rw [hres] at hsim; exact hsim.elim

/-! ## The initial states -/

theorem lookup_builtins (x : String) (v : Val) : ∀ (names : List String),
    (names.map (fun n => (n, Val.builtin n))).lookup x = some v → v = .builtin x ∧ x ∈ names
  | [], h => by simp at h
  | n :: names, h => by
    simp only [List.map_cons, List.lookup_cons] at h
    by_cases hx : (x == n) = true
    · rw [hx] at h
      have hxn : x = n := by simpa using hx
      subst hxn
      simp only [Option.some.injEq] at h
      exact ⟨h.symm, by simp⟩
    · have hx' : (x == n) = false := by simpa using hx
      rw [hx'] at h
      obtain ⟨h1, h2⟩ := lookup_builtins x v names h
      exact ⟨h1, List.mem_cons_of_mem _ h2⟩

theorem initVars_lookup (x : String) (v : Val)
    (h : ([("nil", Val.nil), ("null", Val.nil)] ++ VM.globalNames.map (fun n => (n, Val.builtin n))).lookup x = some v) :
    v = .nil ∨ (v = .builtin x ∧ x ∈ VM.globalNames) := by
  simp only [List.cons_append, List.nil_append, List.lookup_cons] at h
  split at h
  · left; injection h with h; exact h.symm
  · split at h
    · left; injection h with h; exact h.symm
    · right; exact lookup_builtins x v _ h

theorem globalNames_fo : ∀ n ∈ VM.globalNames, okSym n = true → n ∈ foBuiltins := by decide

theorem relF_initSt (m : Nat → Nat) : RelF m initSt Ref.initSt 0 := by
  have hsc : ∀ i, 0 < i → scopeOf initSt i = {} := fun i hi => by
    cases i with
    | zero => omega
    | succ i => rfl
  refine ⟨rfl, ?_, ⟨_, rfl, rfl, rfl⟩, ?_, rfl, ⟨none, ChainF.root _ rfl rfl rfl, FnChainF.root _ 0 (by decide) rfl ⟨[], rfl⟩⟩, ?_,
    rfl, rfl, globals_initSt, ?_, fun _ _ _ _ _ _ _ => rfl⟩
  · intro i x
    cases i with
    | zero =>
      show ([("nil", Val.nil), ("null", Val.nil)] ++ Ref.globalNames.map (fun n => (n, Val.builtin n))).lookup x
        = (([("nil", Val.nil), ("null", Val.nil)] ++ VM.globalNames.map (fun n => (n, Val.builtin n))).lookup x).map (trf m)
      have hg : Ref.globalNames = VM.globalNames := rfl
      rw [hg]
      cases hl : ([("nil", Val.nil), ("null", Val.nil)] ++ VM.globalNames.map (fun n => (n, Val.builtin n))).lookup x with
      | none => rfl
      | some v =>
        rcases initVars_lookup x v hl with rfl | ⟨rfl, _⟩ <;> rfl
    | succ i => rfl
  · intro i fr hf p hp
    cases i with
    | zero =>
      simp only [Ref.initSt, List.getElem?_cons_zero, Option.some.injEq] at hf
      subst hf; cases hp
    | succ i => simp [Ref.initSt] at hf
  · intro i hi
    cases i with
    | zero => cases hi
    | succ i => cases hi
  · intro i x v hv
    cases i with
    | zero =>
      rcases initVars_lookup x v hv with rfl | ⟨rfl, hx⟩
      · exact valIn_of_const (fun _ _ _ => rfl)
      · exact valIn_builtin (fun hok => globalNames_fo x hx hok)
    | succ i => cases hv

theorem topCtx_initSt : TopCtx initSt := ⟨rfl, rfl, by decide, by decide⟩

end ZygoVerif.Sim
