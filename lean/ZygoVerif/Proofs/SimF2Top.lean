/-
C02, execution half — F2a at top level: `defn`, program texts.

A program text of F2a is a list of top-level forms, each a `defn` (fixed arity, distinct non-lazy
parameters, a body in `Ff name`) or an expression of `Ff ""`. `LoadExpressions` compiles the whole
text at once: the templates of all its `defn`s are in the function table before the first
instruction runs; `createClosure t` copies template `t`.
-/
import ZygoVerif.Proofs.SimF2
import ZygoVerif.Proofs.SimFcTop
set_option linter.unusedSimpArgs false
set_option linter.unusedVariables false
namespace ZygoVerif.Sim
open ZygoVerif.Core ZygoVerif.VM

/-! ## `defn` in the generator -/

/-- the template `buildSexpFun` registers for a top-level `defn` -/
def tmplOf (isFn : Nat → Bool) (gs : GS) (name : String) (ps : List String) : FnObj :=
  { name := name, nargs := ps.length, varargs := false, params := ps, closing := newClosing isFn gs.live }

/-- … and when its body is compiled -/
def tmplDone (isFn : Nat → Bool) (gs : GS) (name : String) (ps : List String) (b : List Instr) : FnObj :=
  { tmplOf isFn gs name ps with code := fnCode gs.fns.length ps b }

/-- the generator state after `allocTemplate` -/
def gsAlloc (isFn : Nat → Bool) (gs : GS) (name : String) (ps : List String) : GS :=
  { gs with fns := gs.fns ++ [tmplOf isFn gs name ps] }

/-- … and after `finishTemplate` -/
def gsDone (isFn : Nat → Bool) (gs : GS) (name : String) (ps : List String) (b : List Instr) : GS :=
  { gs with fns := (gs.fns ++ [tmplOf isFn gs name ps]).set gs.fns.length (tmplDone isFn gs name ps b) }

/-- the context in which the body of `defn name` is compiled -/
def bodyCtx (c : Ctx) (gs : GS) (name : String) (ps : List String) (body : List Expr) : Ctx :=
  { tail := true, scopes := 0, funcname := if !rebindsOwnName name ps none body then name else "", known := (name, gs.fns.length) :: c.known }

theorem compile_defn_ok (isFn : Nat → Bool) (c : Ctx) (name : String) (ps : List String) (body : List Expr) (gs : GS)
    (b : List Instr) (tl : Bool) (hname : name ≠ "")
    (hb : (compileBegin isFn (bodyCtx c gs name ps body) body).run (gsAlloc isFn gs name ps)
      = .ok ((b, tl), gsAlloc isFn gs name ps)) :
    (compile isFn c (.defn name ps none body)).run gs =
      .ok (([.createClosure gs.fns.length, .popStackPutEnv name, .push .nil], c.tail), gsDone isFn gs name ps b) := by
  rw [compile]
  have hemp : name.isEmpty = false := by
    simpa [String.isEmpty_iff] using hname
  unfold allocTemplate finishTemplate
  simp only [bind, StateT.bind, StateT.run, get, getThe, MonadStateOf.get, StateT.get, pure, Except.pure, Except.bind,
    set, StateT.set, StateT.pure, modify, modifyGet, MonadStateOf.modifyGet, StateT.modifyGet, hemp, Bool.false_eq_true,
    if_false, Option.toList, List.append_nil, Option.isSome]
  have hb' := hb
  unfold bodyCtx gsAlloc tmplOf at hb'
  simp only [StateT.run] at hb'
  rw [hb']
  simp only [gsDone, tmplDone, tmplOf, fnCode, List.getD_eq_getElem?_getD, List.getElem?_append_right (Nat.le_refl _),
    Nat.sub_self, List.getElem?_cons_zero, Option.getD_some]

theorem newClosing_single (isFn : Nat → Bool) : newClosing isFn [some 0] = [some 0] := by
  unfold newClosing
  simp only [newClosing.go]
  split <;> simp [newClosing.go]

/-! ## Top-level forms -/

def FtForm : Expr → Bool
  | .defn name ps rest body =>
    rest.isNone && okName name && (name != "") && decide ps.Nodup && ps.all okParam && !body.isEmpty && FfList name body
  | e => Ff "" e

def FtList : List Expr → Bool
  | [] => true
  | e :: es => FtForm e && FtList es

/-- what compiling top-level forms does to the generator state: templates appended, nothing else -/
structure KeepFns (g₁ g₂ : GS) : Prop where
  len : g₁.fns.length ≤ g₂.fns.length
  fns : ∀ t, t < g₁.fns.length → g₂.fns.getD t {} = g₁.fns.getD t {}
  live : g₂.live = g₁.live
  loops : g₂.loops = g₁.loops
  loopstack : g₂.loopstack = g₁.loopstack

theorem KeepFns.refl (g : GS) : KeepFns g g := ⟨Nat.le_refl _, fun _ _ => rfl, rfl, rfl, rfl⟩

theorem KeepFns.trans {a b c : GS} (h₁ : KeepFns a b) (h₂ : KeepFns b c) : KeepFns a c :=
  ⟨Nat.le_trans h₁.len h₂.len, fun t ht => (h₂.fns t (Nat.lt_of_lt_of_le ht h₁.len)).trans (h₁.fns t ht),
   h₂.live.trans h₁.live, h₂.loops.trans h₁.loops, h₂.loopstack.trans h₁.loopstack⟩

theorem keepFns_done (isFn : Nat → Bool) (gs : GS) (name : String) (ps : List String) (b : List Instr) :
    KeepFns gs (gsDone isFn gs name ps b) := by
  refine ⟨by simp [gsDone], fun t ht => ?_, rfl, rfl, rfl⟩
  simp only [gsDone, List.getD_eq_getElem?_getD]
  rw [List.getElem?_set_ne (by omega), List.getElem?_append_left ht]

theorem bodyCtx_funcname (c : Ctx) (gs : GS) (name : String) (ps : List String) (body : List Expr) :
    (bodyCtx c gs name ps body).funcname = name ∨ (bodyCtx c gs name ps body).funcname = "" := by
  unfold bodyCtx
  simp only
  split
  · exact Or.inl rfl
  · exact Or.inr rfl

theorem compile_total_Ft (e : Expr) (he : FtForm e = true) (isFn : Nat → Bool) (c : Ctx) (gs : GS) (hfn : c.funcname = "") :
    ∃ code t gs', (compile isFn c e).run gs = .ok ((code, t), gs') ∧ code ≠ [] ∧ KeepFns gs gs' := by
  cases e with
  | defn name ps rest body =>
    simp only [FtForm, Bool.and_eq_true, Option.isNone_iff_eq_none, bne_iff_ne, ne_eq, decide_eq_true_eq,
      Bool.not_eq_true', List.isEmpty_eq_false_iff] at he
    obtain ⟨⟨⟨⟨⟨⟨hrest, hname⟩, hne⟩, hnd⟩, hps⟩, hbody⟩, hff⟩ := he
    subst hrest
    obtain ⟨b, tl, hb, _⟩ := compileBegin_total_Ff name body hbody hff isFn (bodyCtx c gs name ps body)
      (gsAlloc isFn gs name ps) (bodyCtx_funcname c gs name ps body)
    exact ⟨_, _, _, compile_defn_ok isFn c name ps body gs b tl hne hb, by simp, keepFns_done isFn gs name ps b⟩
  | _ =>
    all_goals
      obtain ⟨code, t, h1, hne⟩ := compile_total_Ff "" _ he isFn c gs (Or.inr hfn)
      exact ⟨code, t, gs, h1, hne, KeepFns.refl gs⟩

theorem compileBegin_total_Ft : ∀ (es : List Expr), es ≠ [] → FtList es = true → ∀ isFn c gs, c.funcname = "" →
    ∃ code t gs', (compileBegin isFn c es).run gs = .ok ((code, t), gs') ∧ code ≠ [] ∧ KeepFns gs gs'
  | [], hne, _, _, _, _, _ => absurd rfl hne
  | [e], _, he, isFn, c, gs, hfn => by
    rw [FtList] at he
    simp only [Bool.and_eq_true] at he
    rw [compileBegin]
    exact compile_total_Ft e he.1 isFn c gs hfn
  | e :: e' :: es, _, he, isFn, c, gs, hfn => by
    rw [FtList] at he
    simp only [Bool.and_eq_true] at he
    obtain ⟨a, ta, g1, ha, hane, hf1⟩ := compile_total_Ft e he.1 isFn { c with tail := false } gs hfn
    obtain ⟨b, tb, g2, hb, _, hf2⟩ := compileBegin_total_Ft (e' :: es) (by simp) he.2 isFn c g1 hfn
    refine ⟨a ++ (if a.isEmpty then [] else [.pop]) ++ b, tb, g2, ?_, by simp [hane], hf1.trans hf2⟩
    rw [compileBegin]
    · simp only [g_bind_ok, g_pure_ok]
      exact ⟨_, _, ha, _, _, hb, rfl⟩
    · intro hh; cases hh

end ZygoVerif.Sim
