/-
Lemmas for property C16 (lazy parameters) about the VM model `Model/VM.lean`.

1. A small program logic for the model's monad `M = ExceptT Fault (StateM St)`: `runM`, its
   equations, and `PresAt L s m` ("running `m` from `s` moves the thunk table along the
   preorder `L`") with one rule per monadic construct. The tactic `pres` decomposes a `do`
   block by the head symbol of the program (bind / pure / throw / get / set / modify / if /
   match / let), closes leaves with registered lemmas (`pres_leaf`) or hypotheses, and side
   conditions `L l l'` with `pres_side`.
2. The non-recursive helpers of the machine never touch the thunk table (for every preorder).
3. `LExt`: the extension order on thunk tables — every thunk stays under its index with the
   same expression, captured scope stack and function, and a value once stored stays.
4. `allPres`: **every** function of the mutual block of the machine (`run`, `runLoop`, `exec`
   for every instruction, `evalCallExpr`, `nested`, `prepareArgs`, `callResolved`, `callUser`,
   `builtin`, `applyFn`, `mapArr`, `mapList`, `forceLazy`), for every fuel, from every state,
   whatever the outcome (value, error, host panic, timeout), extends the thunk table.
   `forceLazy` is the one place that writes into an existing thunk; its proof carries the
   table at the beginning of the force as origin (`PresO`), because a re-entrant force of the
   same thunk may have stored a value in between.
-/
import Lean
import ZygoVerif.Model.VM
open ZygoVerif.Core
namespace ZygoVerif.VM

/-- run a model action on a state -/
abbrev runM {α} (m : M α) (s : St) : Except Fault α × St := ExceptT.run m s

theorem runM_pure {α} (a : α) (s : St) : runM (pure a : M α) s = (.ok a, s) := rfl
theorem runM_bind {α β} (m : M α) (f : α → M β) (s : St) :
    runM (m >>= f) s = match runM m s with
      | (.ok a, s') => runM (f a) s'
      | (.error e, s') => (.error e, s') := by
  simp only [runM, ExceptT.run_bind]
  show (ExceptT.run m >>= _) s = _
  simp only [bind, StateT.bind]
  cases h : ExceptT.run m s with
  | mk r s' => cases r <;> rfl
theorem runM_get (s : St) : runM (get : M St) s = (.ok s, s) := rfl
theorem runM_set (s' s : St) : runM (set s' : M Unit) s = (.ok (), s') := rfl
theorem runM_modify (f : St → St) (s : St) : runM (modify f : M Unit) s = (.ok (), f s) := rfl
theorem runM_throw {α} (e : Fault) (s : St) : runM (throw e : M α) s = (.error e, s) := rfl

structure LPre (L : List LazyObj → List LazyObj → Prop) : Prop where
  refl : ∀ l, L l l
  trans : ∀ {a b c}, L a b → L b c → L a c

structure PresAt {α} (L : List LazyObj → List LazyObj → Prop) (s : St) (m : M α) : Prop where
  h : L s.lazies (runM m s).2.lazies

variable {L : List LazyObj → List LazyObj → Prop}

theorem pres_pure {α} (hL : LPre L) (s : St) (a : α) : PresAt L s (pure a : M α) := ⟨hL.refl _⟩
theorem pres_throw {α} (hL : LPre L) (s : St) (e : Fault) : PresAt L s (throw e : M α) := ⟨hL.refl _⟩
theorem pres_err {α} (hL : LPre L) (s : St) : PresAt L s (err : M α) := ⟨hL.refl _⟩
theorem pres_hostPanic {α} (hL : LPre L) (s : St) : PresAt L s (hostPanic : M α) := ⟨hL.refl _⟩
theorem pres_get (hL : LPre L) (s : St) : PresAt L s (get : M St) := ⟨hL.refl _⟩

theorem pres_bind {α β} (hL : LPre L) {s : St} {m : M α} {f : α → M β}
    (hm : PresAt L s m) (hf : ∀ a s', runM m s = (.ok a, s') → PresAt L s' (f a)) :
    PresAt L s (m >>= f) := by
  constructor
  have hm := hm.h
  rw [runM_bind]
  cases h : runM m s with
  | mk r s' =>
    rw [h] at hm
    cases r with
    | ok a => exact hL.trans hm (hf a s' h).h
    | error e => exact hm

theorem pres_get_bind {β} {s : St} {f : St → M β} (h : PresAt L s (f s)) : PresAt L s (get >>= f) := by
  constructor; rw [runM_bind, runM_get]; exact h.h

theorem pres_set_bind {β} (hL : LPre L) {s s' : St} {f : Unit → M β} (h1 : L s.lazies s'.lazies)
    (h2 : PresAt L s' (f ())) : PresAt L s (set s' >>= f) := by
  constructor; rw [runM_bind, runM_set]; exact hL.trans h1 h2.h

theorem pres_modify_bind {β} (hL : LPre L) {s : St} {g : St → St} {f : Unit → M β} (h1 : L s.lazies (g s).lazies)
    (h2 : PresAt L (g s) (f ())) : PresAt L s (modify g >>= f) := by
  constructor; rw [runM_bind, runM_modify]; exact hL.trans h1 h2.h

theorem pres_set {s s' : St} (h1 : L s.lazies s'.lazies) : PresAt L s (set s' : M Unit) := ⟨h1⟩
theorem pres_modify {s : St} {g : St → St} (h1 : L s.lazies (g s).lazies) : PresAt L s (modify g : M Unit) := ⟨h1⟩

/-- leaves: lemmas about helper functions, registered as they are proved -/
syntax "pres_leaf" : tactic
macro_rules | `(tactic| pres_leaf) => `(tactic| solve_by_elim)
/-- side goals `L l l'` -/
syntax "pres_side" : tactic
macro_rules | `(tactic| pres_side) => `(tactic| exact LPre.refl (by assumption) _)

open Lean Meta Elab Tactic in
/-- One decomposition step of a goal `PresAt L s prog`, chosen by the head of `prog`. -/
elab "pres_step" : tactic => withMainContext do
  let g ← getMainGoal
  let t ← instantiateMVars (← g.getType)
  let t := t.consumeMData
  if t.isForall || t.isLet then
    evalTactic (← `(tactic| intro _)); return
  if !t.isAppOf ``PresAt then
    evalTactic (← `(tactic| pres_side)); return
  let args := t.getAppArgs
  let prog := (args[3]!).consumeMData
  let headName (e : Lean.Expr) : Name := match e.consumeMData.getAppFn with | Lean.Expr.const n _ => n | _ => Name.anonymous
  if prog.isLet || prog.getAppFn.isLambda || prog.isMData then
    evalTactic (← `(tactic| dsimp only)); return
  let hn := headName prog
  if hn == ``Bind.bind then
    let m := prog.getAppArgs[4]!
    let mh := headName m
    if mh == ``MonadState.get || mh == ``getThe || mh == ``MonadStateOf.get then
      evalTactic (← `(tactic| apply pres_get_bind))
    else if mh == ``MonadState.set || mh == ``MonadStateOf.set then
      evalTactic (← `(tactic| apply pres_set_bind (by assumption)))
    else if mh == ``modify || mh == ``modifyThe then
      evalTactic (← `(tactic| apply pres_modify_bind (by assumption)))
    else
      evalTactic (← `(tactic| apply pres_bind (by assumption)))
  else if hn == ``Pure.pure then evalTactic (← `(tactic| exact pres_pure (by assumption) _ _))
  else if hn == ``MonadExcept.throw || hn == ``throwThe || hn == ``MonadExceptOf.throw then evalTactic (← `(tactic| exact pres_throw (by assumption) _ _))
  else if hn == ``err then evalTactic (← `(tactic| exact pres_err (by assumption) _))
  else if hn == ``hostPanic then evalTactic (← `(tactic| exact pres_hostPanic (by assumption) _))
  else if hn == ``MonadState.get || hn == ``getThe then evalTactic (← `(tactic| exact pres_get (by assumption) _))
  else if hn == ``MonadState.set || hn == ``MonadStateOf.set then evalTactic (← `(tactic| apply pres_set))
  else if hn == ``modify || hn == ``modifyThe then evalTactic (← `(tactic| apply pres_modify))
  else if hn == ``ite || hn == ``dite || (← isMatcherApp prog) then evalTactic (← `(tactic| split))
  else evalTactic (← `(tactic| pres_leaf))

macro "pres" : tactic => `(tactic| repeat' pres_step)


macro_rules | `(tactic| pres_side) => `(tactic| exact PresAt.h (by pres))

/-! ## The helpers of `Model/VM.lean` never touch the thunk table -/

theorem pushData_pres (hL : LPre L) (v : Val) (s : St) : PresAt L s (pushData v) := by
  unfold pushData; pres
macro_rules | `(tactic| pres_leaf) => `(tactic| exact pushData_pres (by assumption) _ _)
theorem popData_pres (hL : LPre L) (s : St) : PresAt L s popData := by
  unfold popData; pres
macro_rules | `(tactic| pres_leaf) => `(tactic| exact popData_pres (by assumption) _)
theorem popN_pres (hL : LPre L) (n : Nat) (s : St) : PresAt L s (popN n) := by
  unfold popN; pres
macro_rules | `(tactic| pres_leaf) => `(tactic| exact popN_pres (by assumption) _ _)
theorem capture_pres (hL : LPre L) (s : St) : PresAt L s capture := by
  unfold capture; pres
macro_rules | `(tactic| pres_leaf) => `(tactic| exact capture_pres (by assumption) _)
theorem restore_pres (hL : LPre L) (c : CtlState) (s : St) : PresAt L s (restore c) := by
  unfold restore; pres
macro_rules | `(tactic| pres_leaf) => `(tactic| exact restore_pres (by assumption) _ _)
theorem setInScope_pres (hL : LPre L) (id : Nat) (x : String) (v : Val) (s : St) : PresAt L s (setInScope id x v) := by
  unfold setInScope; pres
macro_rules | `(tactic| pres_leaf) => `(tactic| exact setInScope_pres (by assumption) _ _ _ _)
theorem bindTop_pres (hL : LPre L) (x : String) (v : Val) (s : St) : PresAt L s (bindTop x v) := by
  unfold bindTop; pres
macro_rules | `(tactic| pres_leaf) => `(tactic| exact bindTop_pres (by assumption) _ _ _)
theorem runGen_pres {α} (hL : LPre L) (g : G α) (s : St) : PresAt L s (runGen g) := by
  unfold runGen; pres
macro_rules | `(tactic| pres_leaf) => `(tactic| exact runGen_pres (by assumption) _ _)
theorem mkFunction_pres (hL : LPre L) (name : String) (code : List Instr) (cl : List (Option Nat)) (p : Option Nat) (s : St) :
    PresAt L s (mkFunction name code cl p) := by
  unfold mkFunction; pres
macro_rules | `(tactic| pres_leaf) => `(tactic| exact mkFunction_pres (by assumption) _ _ _ _ _)
theorem jumpTo_pres (hL : LPre L) (pc : Int) (s : St) : PresAt L s (jumpTo pc) := by
  unfold jumpTo; pres
macro_rules | `(tactic| pres_leaf) => `(tactic| exact jumpTo_pres (by assumption) _ _)
theorem incPc_pres (hL : LPre L) (s : St) : PresAt L s incPc := by
  unfold incPc; pres
macro_rules | `(tactic| pres_leaf) => `(tactic| exact incPc_pres (by assumption) _)
theorem wrangleOptargs_pres (hL : LPre L) (a b : Nat) (s : St) : PresAt L s (wrangleOptargs a b) := by
  unfold wrangleOptargs; pres
macro_rules | `(tactic| pres_leaf) => `(tactic| exact wrangleOptargs_pres (by assumption) _ _ _)
theorem callFunction_pres (hL : LPre L) (f n : Nat) (s : St) : PresAt L s (callFunction f n) := by
  unfold callFunction; pres
macro_rules | `(tactic| pres_leaf) => `(tactic| exact callFunction_pres (by assumption) _ _ _)
theorem popScope_pres (hL : LPre L) (s : St) : PresAt L s popScope := by
  unfold popScope; pres
macro_rules | `(tactic| pres_leaf) => `(tactic| exact popScope_pres (by assumption) _)
theorem popScopes_pres (hL : LPre L) (n : Nat) : ∀ s, PresAt L s (popScopes n) := by
  induction n with
  | zero => intro s; unfold popScopes; pres
  | succ n ih => intro s; unfold popScopes; pres
macro_rules | `(tactic| pres_leaf) => `(tactic| exact popScopes_pres (by assumption) _ _)
theorem popToMark_pres (hL : LPre L) (l : Nat) (k : Bool) (n : Nat) : ∀ s, PresAt L s (popToMark l k n) := by
  induction n with
  | zero => intro s; unfold popToMark; pres
  | succ n ih => intro s; unfold popToMark; pres
macro_rules | `(tactic| pres_leaf) => `(tactic| exact popToMark_pres (by assumption) _ _ _ _)


/-! ## The thunk table only grows, and a thunk only gains its value -/

/-- `b` is a later version of thunk `a`: same expression, same captured scope stack, same
function, and a value once stored stays. -/
def LazyObj.le (a b : LazyObj) : Prop :=
  b.e = a.e ∧ b.stack = a.stack ∧ b.curfunc = a.curfunc ∧ b.isValue = a.isValue ∧
    ∀ v, a.value = some v → b.value = some v

theorem LazyObj.le_refl (a : LazyObj) : a.le a := ⟨rfl, rfl, rfl, rfl, fun _ h => h⟩
theorem LazyObj.le_trans {a b c : LazyObj} (h1 : a.le b) (h2 : b.le c) : a.le c :=
  ⟨h2.1.trans h1.1, h2.2.1.trans h1.2.1, h2.2.2.1.trans h1.2.2.1, h2.2.2.2.1.trans h1.2.2.2.1,
   fun v h => h2.2.2.2.2 v (h1.2.2.2.2 v h)⟩

/-- `l'` extends `l`: every thunk of `l` is still there, under the same index, as a later version. -/
@[reducible] def LExt (l l' : List LazyObj) : Prop :=
  ∀ (i : Nat) (lz : LazyObj), l[i]? = some lz → ∃ lz', l'[i]? = some lz' ∧ lz.le lz'

theorem LExt.refl (l : List LazyObj) : LExt l l := fun _ lz h => ⟨lz, h, lz.le_refl⟩
theorem LExt.trans {a b c : List LazyObj} (h1 : LExt a b) (h2 : LExt b c) : LExt a c := by
  intro id lz h
  obtain ⟨lz1, e1, l1⟩ := h1 id lz h
  obtain ⟨lz2, e2, l2⟩ := h2 id lz1 e1
  exact ⟨lz2, e2, LazyObj.le_trans l1 l2⟩
theorem LExt.pre : LPre LExt := ⟨LExt.refl, LExt.trans⟩

theorem LExt.append (l x : List LazyObj) : LExt l (l ++ x) := by
  intro id lz h
  refine ⟨lz, ?_, lz.le_refl⟩
  have hlt : id < l.length := by
    rcases Nat.lt_or_ge id l.length with h' | h'
    · exact h'
    · rw [List.getElem?_eq_none h'] at h; cases h
  rw [List.getElem?_append_left hlt]; exact h

theorem LExt.length_le {l l' : List LazyObj} (h : LExt l l') : l.length ≤ l'.length := by
  rcases Nat.lt_or_ge l'.length l.length with h' | h'
  · have hlt : l'.length < l.length := h'
    obtain ⟨lz', e, _⟩ := h l'.length l[l'.length] (List.getElem?_eq_getElem hlt)
    rw [List.getElem?_eq_none (Nat.le_refl _)] at e; cases e
  · exact h'

/-- storing the value of a thunk that had none (at the origin `l0`) keeps the extension. -/
theorem LExt.set_forced {l0 l : List LazyObj} {id : Nat} {lz : LazyObj} (v : Val)
    (h : LExt l0 l) (hlz : l0[id]? = some lz) (hv : lz.value = none) :
    LExt l0 (l.set id { lz with value := some v }) := by
  intro j lzj hj
  by_cases hji : j = id
  · subst hji
    rw [hlz] at hj; cases hj
    obtain ⟨lz', e, _⟩ := h j lz hlz
    have hlt : j < l.length := by
      rcases Nat.lt_or_ge j l.length with h' | h'
      · exact h'
      · rw [List.getElem?_eq_none h'] at e; cases e
    refine ⟨{ lz with value := some v }, ?_, rfl, rfl, rfl, rfl, ?_⟩
    · rw [List.getElem?_set_self hlt]
    · intro w hw; rw [hv] at hw; cases hw
  · obtain ⟨lz', e, le⟩ := h j lzj hj
    refine ⟨lz', ?_, le⟩
    rw [List.getElem?_set_ne (Ne.symm hji)]; exact e

macro_rules | `(tactic| pres_side) => `(tactic| exact LExt.append _ _)

theorem foldl_lazies_ext (f : St × Nat → Val → St × Nat)
    (hf : ∀ x v, LExt x.1.lazies (f x v).1.lazies) :
    ∀ (args : List Val) (x : St × Nat), LExt x.1.lazies (args.foldl f x).1.lazies := by
  intro args
  induction args with
  | nil => intro x; exact LExt.refl _
  | cons a as ih => intro x; exact LExt.trans (hf x a) (ih (f x a))

/-! ### `forceLazy`: the one place that writes into an existing thunk -/

/-- preservation relative to an origin `l0` (the thunk table when the enclosing force began) -/
structure PresO {α} (l0 : List LazyObj) (s : St) (m : M α) : Prop where
  h : LExt l0 s.lazies → LExt l0 (runM m s).2.lazies

theorem presO_to_pres {α} {s : St} {m : M α} (h : PresO s.lazies s m) : PresAt LExt s m := ⟨h.h (LExt.refl _)⟩
theorem presO_of_pres {α} {l0 : List LazyObj} {s : St} {m : M α} (h : PresAt LExt s m) : PresO l0 s m :=
  ⟨fun h0 => LExt.trans h0 h.h⟩
theorem presO_bind {α β} {l0 : List LazyObj} {s : St} {m : M α} {f : α → M β}
    (hm : PresO l0 s m) (hf : ∀ a s', runM m s = (.ok a, s') → PresO l0 s' (f a)) : PresO l0 s (m >>= f) := by
  constructor
  intro h0
  have hm := hm.h h0
  rw [runM_bind]
  cases h : runM m s with
  | mk r s' =>
    rw [h] at hm
    cases r with
    | ok a => exact (hf a s' h).h hm
    | error e => exact hm

theorem presO_finish {l0 : List LazyObj} {id : Nat} {lz : LazyObj} (v : Val) (s : St)
    (hlz : l0[id]? = some lz) (hv : lz.value = none) :
    PresO l0 s (do
      modify (fun s => { s with lazies := s.lazies.set id ({ lz with value := some v } : LazyObj) })
      pure v : M Val) := by
  constructor
  intro h0
  rw [runM_bind, runM_modify]
  exact LExt.set_forced v h0 hlz hv

theorem forceLazy_pres (fuel : Nat) (ih_nested : ∀ f st s, PresAt LExt s (nested fuel f st)) (id : Nat) (s : St) :
    PresAt LExt s (forceLazy (fuel + 1) id) := by
  have hL := LExt.pre
  rw [forceLazy.eq_2]
  apply pres_get_bind
  split
  · pres
  · rename_i lz hlz
    split
    · pres
    · rename_i hv
      apply presO_to_pres
      apply presO_bind (presO_of_pres (runGen_pres hL _ _))
      intro a s1 _
      obtain ⟨code, snd⟩ := a
      dsimp only
      split
      · exact presO_finish _ _ hlz hv
      · apply presO_bind (presO_of_pres (mkFunction_pres hL _ _ _ _ _))
        intro f s2 _
        apply presO_bind (presO_of_pres (capture_pres hL _))
        intro st s3 _
        apply presO_bind (presO_of_pres (pres_modify (LExt.refl _)))
        intro _ s4 _
        apply presO_bind (presO_of_pres (ih_nested _ _ _))
        intro v s5 _
        exact presO_finish _ _ hlz hv


theorem foldl_lazies_ext' (f : St × Nat → Val → St × Nat)
    (hf : ∀ x v, LExt x.1.lazies (f x v).1.lazies) (args : List Val) (s : St) (i : Nat) :
    LExt s.lazies (args.foldl f (s, i)).1.lazies := foldl_lazies_ext f hf args (s, i)

macro_rules | `(tactic| pres_side) => `(tactic|
  (apply foldl_lazies_ext'; intro x v; split <;> first | exact LExt.append _ _ | exact LExt.refl _))

/-! ## Every function of the machine preserves the extension order -/

def AllPres (fuel : Nat) : Prop :=
  (∀ s, PresAt LExt s (run fuel)) ∧
  (∀ st s, PresAt LExt s (runLoop fuel st)) ∧
  (∀ i s, PresAt LExt s (exec fuel i)) ∧
  (∀ e s, PresAt LExt s (evalCallExpr fuel e)) ∧
  (∀ f st s, PresAt LExt s (nested fuel f st)) ∧
  (∀ f i es s, PresAt LExt s (prepareArgs fuel f i es)) ∧
  (∀ f args s, PresAt LExt s (callResolved fuel f args)) ∧
  (∀ name n s, PresAt LExt s (callUser fuel name n)) ∧
  (∀ name args s, PresAt LExt s (builtin fuel name args)) ∧
  (∀ f args s, PresAt LExt s (applyFn fuel f args)) ∧
  (∀ f r i n s, PresAt LExt s (mapArr fuel f r i n)) ∧
  (∀ f l s, PresAt LExt s (mapList fuel f l)) ∧
  (∀ id s, PresAt LExt s (forceLazy fuel id))

theorem allPres_zero : AllPres 0 := by
  have hL := LExt.pre
  refine ⟨?_, ?_, ?_, ?_, ?_, ?_, ?_, ?_, ?_, ?_, ?_, ?_, ?_⟩
  · intro s; rw [run.eq_1]; pres
  · intro st s; rw [runLoop.eq_1]; pres
  · intro i s; rw [exec.eq_1]; pres
  · intro e s; rw [evalCallExpr.eq_1]; pres
  · intro f st s; rw [nested.eq_1]; pres
  · intro f i es s; rw [prepareArgs.eq_1]; pres
  · intro f args s; rw [callResolved.eq_1]; pres
  · intro name n s; rw [callUser.eq_1]; pres
  · intro name args s; rw [builtin.eq_1]; pres
  · intro f args s; rw [applyFn.eq_1]; pres
  · intro f r i n s; rw [mapArr.eq_1]; pres
  · intro f l s; rw [mapList.eq_1]; pres
  · intro id s; rw [forceLazy.eq_1]; pres


theorem run_succ_pres {fuel : Nat} (ih : AllPres fuel)  (s : St) : PresAt LExt s (run (fuel + 1)) := by
  have hL := LExt.pre
  obtain ⟨ih_run, ih_runLoop, ih_exec, ih_evalCallExpr, ih_nested, ih_prepareArgs, ih_callResolved, ih_callUser, ih_builtin, ih_applyFn, ih_mapArr, ih_mapList, ih_forceLazy⟩ := ih
  unfold run
  pres

theorem runLoop_succ_pres {fuel : Nat} (ih : AllPres fuel) (st : CtlState) (s : St) : PresAt LExt s (runLoop (fuel + 1) st) := by
  have hL := LExt.pre
  obtain ⟨ih_run, ih_runLoop, ih_exec, ih_evalCallExpr, ih_nested, ih_prepareArgs, ih_callResolved, ih_callUser, ih_builtin, ih_applyFn, ih_mapArr, ih_mapList, ih_forceLazy⟩ := ih
  unfold runLoop
  pres
set_option maxHeartbeats 600000 in
theorem exec_succ_pres {fuel : Nat} (ih : AllPres fuel) (i : Instr) (s : St) : PresAt LExt s (exec (fuel + 1) i) := by
  have hL := LExt.pre
  obtain ⟨ih_run, ih_runLoop, ih_exec, ih_evalCallExpr, ih_nested, ih_prepareArgs, ih_callResolved, ih_callUser, ih_builtin, ih_applyFn, ih_mapArr, ih_mapList, ih_forceLazy⟩ := ih
  unfold exec
  split
  all_goals pres

theorem evalCallExpr_succ_pres {fuel : Nat} (ih : AllPres fuel) (e : Expr) (s : St) : PresAt LExt s (evalCallExpr (fuel + 1) e) := by
  have hL := LExt.pre
  obtain ⟨ih_run, ih_runLoop, ih_exec, ih_evalCallExpr, ih_nested, ih_prepareArgs, ih_callResolved, ih_callUser, ih_builtin, ih_applyFn, ih_mapArr, ih_mapList, ih_forceLazy⟩ := ih
  unfold evalCallExpr
  pres

theorem nested_succ_pres {fuel : Nat} (ih : AllPres fuel) (f : Nat) (st : CtlState) (s : St) : PresAt LExt s (nested (fuel + 1) f st) := by
  have hL := LExt.pre
  obtain ⟨ih_run, ih_runLoop, ih_exec, ih_evalCallExpr, ih_nested, ih_prepareArgs, ih_callResolved, ih_callUser, ih_builtin, ih_applyFn, ih_mapArr, ih_mapList, ih_forceLazy⟩ := ih
  unfold nested
  pres

theorem prepareArgs_succ_pres {fuel : Nat} (ih : AllPres fuel) (f : Option FnObj) (i : Nat) (es : List Expr) (s : St) : PresAt LExt s (prepareArgs (fuel + 1) f i es) := by
  have hL := LExt.pre
  obtain ⟨ih_run, ih_runLoop, ih_exec, ih_evalCallExpr, ih_nested, ih_prepareArgs, ih_callResolved, ih_callUser, ih_builtin, ih_applyFn, ih_mapArr, ih_mapList, ih_forceLazy⟩ := ih
  cases es with
  | nil => simp only [prepareArgs]; pres
  | cons e es => cases f <;> simp only [prepareArgs] <;> pres

theorem callResolved_succ_pres {fuel : Nat} (ih : AllPres fuel) (f : Val) (args : List Expr) (s : St) : PresAt LExt s (callResolved (fuel + 1) f args) := by
  have hL := LExt.pre
  obtain ⟨ih_run, ih_runLoop, ih_exec, ih_evalCallExpr, ih_nested, ih_prepareArgs, ih_callResolved, ih_callUser, ih_builtin, ih_applyFn, ih_mapArr, ih_mapList, ih_forceLazy⟩ := ih
  unfold callResolved
  pres

theorem callUser_succ_pres {fuel : Nat} (ih : AllPres fuel) (name : String) (n : Nat) (s : St) : PresAt LExt s (callUser (fuel + 1) name n) := by
  have hL := LExt.pre
  obtain ⟨ih_run, ih_runLoop, ih_exec, ih_evalCallExpr, ih_nested, ih_prepareArgs, ih_callResolved, ih_callUser, ih_builtin, ih_applyFn, ih_mapArr, ih_mapList, ih_forceLazy⟩ := ih
  unfold callUser
  pres

theorem builtin_succ_pres {fuel : Nat} (ih : AllPres fuel) (name : String) (args : List Val) (s : St) : PresAt LExt s (builtin (fuel + 1) name args) := by
  have hL := LExt.pre
  obtain ⟨ih_run, ih_runLoop, ih_exec, ih_evalCallExpr, ih_nested, ih_prepareArgs, ih_callResolved, ih_callUser, ih_builtin, ih_applyFn, ih_mapArr, ih_mapList, ih_forceLazy⟩ := ih
  unfold builtin
  pres

theorem applyFn_succ_pres {fuel : Nat} (ih : AllPres fuel) (f : Val) (args : List Val) (s : St) : PresAt LExt s (applyFn (fuel + 1) f args) := by
  have hL := LExt.pre
  obtain ⟨ih_run, ih_runLoop, ih_exec, ih_evalCallExpr, ih_nested, ih_prepareArgs, ih_callResolved, ih_callUser, ih_builtin, ih_applyFn, ih_mapArr, ih_mapList, ih_forceLazy⟩ := ih
  unfold applyFn
  pres

theorem mapArr_succ_pres {fuel : Nat} (ih : AllPres fuel) (f : Val) (r i n : Nat) (s : St) : PresAt LExt s (mapArr (fuel + 1) f r i n) := by
  have hL := LExt.pre
  obtain ⟨ih_run, ih_runLoop, ih_exec, ih_evalCallExpr, ih_nested, ih_prepareArgs, ih_callResolved, ih_callUser, ih_builtin, ih_applyFn, ih_mapArr, ih_mapList, ih_forceLazy⟩ := ih
  unfold mapArr
  pres

theorem mapList_succ_pres {fuel : Nat} (ih : AllPres fuel) (f l : Val) (s : St) : PresAt LExt s (mapList (fuel + 1) f l) := by
  have hL := LExt.pre
  obtain ⟨ih_run, ih_runLoop, ih_exec, ih_evalCallExpr, ih_nested, ih_prepareArgs, ih_callResolved, ih_callUser, ih_builtin, ih_applyFn, ih_mapArr, ih_mapList, ih_forceLazy⟩ := ih
  unfold mapList
  pres


theorem allPres : ∀ fuel, AllPres fuel := by
  intro fuel
  induction fuel with
  | zero => exact allPres_zero
  | succ n ih =>
    exact ⟨run_succ_pres ih, runLoop_succ_pres ih, exec_succ_pres ih, evalCallExpr_succ_pres ih,
      nested_succ_pres ih, prepareArgs_succ_pres ih, callResolved_succ_pres ih, callUser_succ_pres ih,
      builtin_succ_pres ih, applyFn_succ_pres ih, mapArr_succ_pres ih, mapList_succ_pres ih,
      forceLazy_pres n ih.2.2.2.2.1⟩

end ZygoVerif.VM
