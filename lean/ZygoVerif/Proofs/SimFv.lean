/-
C02, execution half — Stage C: variables.

Fv = F0c + symbol reference + `def` + `set`, nested arbitrarily (no form of Fv opens a scope, so
everything runs in the scope the expression starts in; at top level that is the global scope).

* `Sim code s env res` — what the VM does on `code` from `s`, given the reference result `res`
  (from a related reference state, in environment `env`): a value ⇒ the code runs to its end,
  pushes that value, and the final states are related again (`Rel`: same bindings in every
  scope/frame); an error ⇒ the VM run ends in a script error with the same trace; the
  reference evaluator never yields `break`/`continue` on Fv;
* `segment_Fv` — the segment lemma, by induction on the reference evaluator's fuel.
-/
import ZygoVerif.Proofs.SimGlue
import ZygoVerif.Proofs.SimBind
import ZygoVerif.Proofs.SimF0c
set_option linter.unusedSimpArgs false
namespace ZygoVerif.Sim
open ZygoVerif.Core ZygoVerif.VM

/-! ## The fragment -/

mutual
def Fv : Expr → Bool
  | .int _ | .bool _ | .str _ | .nilLit | .sym _ => true
  | .begin_ es => FvList es
  | .def_ _ e => Fv e
  | .set_ _ e => Fv e
  | .cond arms d => FvArms arms && Fv d
  | .and_ es => FvList es
  | .or_ es => FvList es
  | .newScope es => !es.isEmpty && FvList es
  | .let_ seq bs body =>
    (seq || decide ((bs.map (·.1)).Nodup)) && !body.isEmpty && FvBinds bs && FvList body
  | _ => false
def FvList : List Expr → Bool
  | [] => true
  | e :: es => Fv e && FvList es
def FvArms : List (Expr × Expr) → Bool
  | [] => true
  | (p, b) :: r => Fv p && Fv b && FvArms r
def FvBinds : List (String × Expr) → Bool
  | [] => true
  | (_, e) :: r => Fv e && FvBinds r
end

/-! ## Reference-side facts about `define` and `lookup` -/

theorem ref_define_eq (rs : Ref.St) (env : Nat) (x : String) (v : Val) (fr : Ref.Frame)
    (h : rs.frames[env]? = some fr) :
    Ref.define rs env x v = match fr.vars.lookup x with
      | some cur => if rebindOk rs.heap cur v then some (Ref.setVar rs env x v) else none
      | none => some (Ref.setVar rs env x v) := by
  unfold Ref.define; rw [h]; rfl

theorem ref_lookupIn_lt (frames : List Ref.Frame) (x : String) : ∀ fuel env id w,
    Ref.lookupIn frames fuel env x = some (id, w) → id < frames.length
  | 0, _, _, _, h => by simp [Ref.lookupIn] at h
  | fuel + 1, env, id, w, h => by
    rw [Ref.lookupIn] at h
    cases hf : frames[env]? with
    | none => rw [hf] at h; cases h
    | some fr =>
      rw [hf] at h
      simp only at h
      cases hl : fr.vars.lookup x with
      | some v =>
        rw [hl] at h
        simp only [Option.some.injEq, Prod.mk.injEq] at h
        rw [← h.1]; exact lt_of_getElem?_some hf
      | none =>
        rw [hl] at h
        simp only at h
        cases hp : fr.parent with
        | none => rw [hp] at h; cases h
        | some p => rw [hp] at h; exact ref_lookupIn_lt frames x fuel p id w h

theorem ref_lookup_none_top (rs : Ref.St) (env : Nat) (x : String) (fr : Ref.Frame)
    (hf : rs.frames[env]? = some fr) (h : Ref.lookup rs env x = none) : fr.vars.lookup x = none := by
  unfold Ref.lookup at h
  rw [Ref.lookupIn, hf] at h
  simp only at h
  cases hl : fr.vars.lookup x with
  | none => rfl
  | some v => rw [hl] at h; cases h

/-! ## The simulation statement -/

/-- see the file header -/
def Sim (code : List Instr) (s : St) (rs : Ref.St) (env : Nat) (res : Ref.R Val) : Prop :=
  match res with
  | .ok v rs' => ∃ s', Reach code.length 1 s s' ∧ Lands code.length v s s' ∧ Rel s' rs' env ∧ FramesExt rs rs'
  | .err rs' => Fails code.length s rs'.trace
  | .timeout => True
  | .brk _ _ => False
  | .cont _ _ => False

def VClaimE (n : Nat) : Prop :=
  ∀ e, Fv e = true → ∀ isFn c gs r, (compile isFn c e).run gs = .ok r →
    ∀ s rs env pre post, Rel s rs env → Seg s pre r.1.1 post → Sim r.1.1 s rs env (Ref.eval n e env rs)

def VClaimB (n : Nat) : Prop :=
  ∀ es, es ≠ [] → FvList es = true → ∀ isFn c gs r, (compileBegin isFn c es).run gs = .ok r →
    ∀ s rs env pre post, Rel s rs env → Seg s pre r.1.1 post → Sim r.1.1 s rs env (Ref.evalBegin n es env rs)

def VClaimC (n : Nat) : Prop :=
  ∀ arms d, FvArms arms = true → Fv d = true → ∀ isFn c gs r gs0 rd,
    (compileArms isFn c arms).run gs = .ok r → (compile isFn c d).run gs0 = .ok rd →
    ∀ s rs env pre post, Rel s rs env → Seg s pre (asmCond r.1 rd.1.1) post →
      Sim (asmCond r.1 rd.1.1) s rs env (Ref.evalCond n arms d env rs)

def VClaimS (n : Nat) : Prop :=
  ∀ isOr es, FvList es = true → ∀ isFn c gs r, (compileSC isFn c es).run gs = .ok r →
    ∀ s rs env pre post, Rel s rs env → Seg s pre (asmSC isOr r.1) post →
      Sim (asmSC isOr r.1) s rs env (Ref.evalAndOr n isOr es env rs)

/-- the same for code that leaves no value (the bindings of `letseq`) -/
def SimU (code : List Instr) (s : St) (rs : Ref.St) (env : Nat) (res : Ref.R Unit) : Prop :=
  match res with
  | .ok _ rs' => ∃ s', Reach code.length 1 s s' ∧ Moved code.length s s' ∧ Rel s' rs' env ∧ FramesExt rs rs'
  | .err rs' => Fails code.length s rs'.trace
  | .timeout => True
  | .brk _ _ => False
  | .cont _ _ => False

def VClaimN (n : Nat) : Prop :=
  ∀ es, es ≠ [] → FvList es = true → ∀ isFn c oldtail gs r, (compileNewScope isFn c oldtail es).run gs = .ok r →
    ∀ s rs env pre post, Rel s rs env → Seg s pre r.1.1 post → Sim r.1.1 s rs env (Ref.evalBegin n es env rs)

def VClaimL (n : Nat) : Prop :=
  ∀ bs, FvBinds bs = true → ∀ isFn c gs r, (compileBinds isFn c true bs).run gs = .ok r →
    ∀ s rs env pre post, Rel s rs env → Seg s pre r.1.1 post → SimU r.1.1 s rs env (Ref.evalLetSeq n bs env rs)

/-- the same for code that pushes a list of values, first value deepest (the initialisers of `let`) -/
def SimL (code : List Instr) (s : St) (rs : Ref.St) (env : Nat) (res : Ref.R (List Val)) : Prop :=
  match res with
  | .ok vs rs' => ∃ s', Reach code.length 1 s s' ∧ fnOf s' s'.curfunc = fnOf s s.curfunc
      ∧ s'.pc = s.pc + (code.length : Int) ∧ s'.data = vs.reverse.map some ++ s.data
      ∧ Rel s' rs' env ∧ FramesExt rs rs'
  | .err rs' => Fails code.length s rs'.trace
  | .timeout => True
  | .brk _ _ => False
  | .cont _ _ => False

def VClaimP (n : Nat) : Prop :=
  ∀ bs, FvBinds bs = true → ∀ isFn c gs r, (compileBinds isFn c false bs).run gs = .ok r →
    ∀ s rs env pre post, Rel s rs env → Seg s pre r.1.1 post →
      SimL r.1.1 s rs env (Ref.evalList n (bs.map (·.2)) env rs)

/-- a literal -/
theorem sim_push {s : St} {rs : Ref.St} {env : Nat} {pre post : List Instr} (v : Val)
    (hrel : Rel s rs env) (h : Seg s pre [.push v] post) : Sim [.push v] s rs env (.ok v rs) :=
  ⟨s.jmp (s.pc + 1) (some v :: s.data), reach_push h.head, ⟨rfl, by simp, rfl⟩, hrel.jmp _ _, FramesExt.refl rs⟩

/-! ## `compile` on Fv: total, generator state untouched, code never empty -/

theorem asmCond_ne_nil (as : List (List Instr × List Instr)) (d : List Instr) (hd : d ≠ []) : asmCond as d ≠ [] := by
  cases as with
  | nil => simpa [asmCond] using hd
  | cons a as => obtain ⟨p, b⟩ := a; simp [asmCond]

theorem asmSC_ne_nil (isOr : Bool) : ∀ (cs : List (List Instr)), (∀ c ∈ cs, c ≠ []) → asmSC isOr cs ≠ []
  | [], _ => by simp [asmSC]
  | [c], h => by simpa [asmSC] using h c (by simp)
  | c :: c' :: cs, _ => by simp [asmSC]

mutual
theorem compile_total_Fv : ∀ (e : Expr), Fv e = true → ∀ isFn c gs,
    ∃ code t, (compile isFn c e).run gs = .ok ((code, t), gs) ∧ code ≠ []
  | .int v, _, isFn, c, gs => ⟨_, _, by rw [compile]; rfl, by simp⟩
  | .bool v, _, isFn, c, gs => ⟨_, _, by rw [compile]; rfl, by simp⟩
  | .str v, _, isFn, c, gs => ⟨_, _, by rw [compile]; rfl, by simp⟩
  | .nilLit, _, isFn, c, gs => ⟨_, _, by rw [compile]; rfl, by simp⟩
  | .sym x, _, isFn, c, gs => ⟨_, _, by rw [compile]; rfl, by simp⟩
  | .begin_ es, he, isFn, c, gs => by
    rw [Fv] at he
    cases es with
    | nil => exact ⟨[.push .nil], c.tail, by rw [compile]; rfl, by simp⟩   -- (begin) yields nil (fix C04-02)
    | cons e0 es0 =>
      rw [compile]
      · exact compileBegin_total_Fv (e0 :: es0) (by simp) he isFn c gs
      · intro hh; cases hh
  | .def_ x e, he, isFn, c, gs => by
    rw [Fv] at he
    obtain ⟨ce, t, h1, _⟩ := compile_total_Fv e he isFn { c with tail := false } gs
    refine ⟨ce ++ [.dup, .popStackPutEnv x], false, ?_, by simp⟩
    rw [compile]
    simp only [g_bind_ok, g_pure_ok]
    exact ⟨_, _, h1, rfl⟩
  | .set_ x e, he, isFn, c, gs => by
    rw [Fv] at he
    obtain ⟨ce, t, h1, _⟩ := compile_total_Fv e he isFn { c with tail := false } gs
    refine ⟨ce ++ [.dup, .update x], false, ?_, by simp⟩
    rw [compile]
    simp only [g_bind_ok, g_pure_ok]
    exact ⟨_, _, h1, rfl⟩
  | .cond arms d, he, isFn, c, gs => by
    rw [Fv] at he
    simp only [Bool.and_eq_true] at he
    obtain ⟨dc, t, hd, hdne⟩ := compile_total_Fv d he.2 isFn c gs
    obtain ⟨as, has⟩ := compileArms_total_Fv arms he.1 isFn c gs
    refine ⟨asmCond as dc, c.tail, ?_, asmCond_ne_nil as dc hdne⟩
    rw [compile]
    simp only [g_bind_ok, g_pure_ok]
    exact ⟨_, _, hd, _, _, has, rfl⟩
  | .and_ es, he, isFn, c, gs => by
    rw [Fv] at he
    obtain ⟨cs, hcs, hne⟩ := compileSC_total_Fv es he isFn c gs
    refine ⟨asmSC false cs, c.tail, ?_, asmSC_ne_nil false cs hne⟩
    rw [compile]
    simp only [g_bind_ok, g_pure_ok]
    exact ⟨_, _, hcs, rfl⟩
  | .or_ es, he, isFn, c, gs => by
    rw [Fv] at he
    obtain ⟨cs, hcs, hne⟩ := compileSC_total_Fv es he isFn c gs
    refine ⟨asmSC true cs, c.tail, ?_, asmSC_ne_nil true cs hne⟩
    rw [compile]
    simp only [g_bind_ok, g_pure_ok]
    exact ⟨_, _, hcs, rfl⟩
  | .newScope es, he, isFn, c, gs => by
    rw [Fv] at he
    simp only [Bool.and_eq_true, Bool.not_eq_true', List.isEmpty_eq_false_iff] at he
    obtain ⟨code, t, h1, _⟩ := compileNewScope_total_Fv es he.1 he.2 isFn { c with scopes := c.scopes + 1 } c.tail gs
    refine ⟨[.addScope] ++ code ++ [.removeScope], t, ?_, by simp⟩
    cases es with
    | nil => exact absurd rfl he.1
    | cons e es =>
      rw [compile]
      · simp only [g_bind_ok, g_pure_ok]
        exact ⟨_, _, h1, rfl⟩
      · intro hh; cases hh
  | .let_ seq bs body, he, isFn, c, gs => by
    rw [Fv] at he
    simp only [Bool.and_eq_true, Bool.not_eq_true', List.isEmpty_eq_false_iff] at he
    obtain ⟨⟨⟨_, hbody⟩, hbs⟩, hbl⟩ := he
    -- since fix C04-08 the initialisers are compiled with the tail flag off, the body with the form's own flag
    obtain ⟨rhs, t1, h1⟩ := compileBinds_total_Fv bs hbs isFn { c with scopes := c.scopes + 1, tail := false } seq gs
    obtain ⟨b, t2, h2, _⟩ := compileBegin_total_Fv body hbody hbl isFn
      { c with scopes := c.scopes + 1 } gs
    refine ⟨[.addScope] ++ rhs ++ (if seq then [] else (bs.map (fun p => Instr.popStackPutEnv p.1)).reverse)
      ++ b ++ [.removeScope], t2, ?_, by simp⟩
    rw [compile]
    simp only [g_bind_ok, g_pure_ok]
    exact ⟨_, _, h1, _, _, h2, rfl⟩
  | .arr _, he, _, _, _ | .call _ _, he, _, _, _
  | .for_ _ _ _ _ _, he, _, _, _ | .break_ _, he, _, _, _ | .continue_ _, he, _, _, _
  | .fn _ _ _, he, _, _, _ | .defn _ _ _ _, he, _, _, _ | .assign _ _, he, _, _, _ | .bad _, he, _, _, _ => by
    simp [Fv] at he
theorem compileBegin_total_Fv : ∀ (es : List Expr), es ≠ [] → FvList es = true → ∀ isFn c gs,
    ∃ code t, (compileBegin isFn c es).run gs = .ok ((code, t), gs) ∧ code ≠ []
  | [], hne, _, _, _, _ => absurd rfl hne
  | [e], _, he, isFn, c, gs => by
    rw [FvList] at he
    simp only [Bool.and_eq_true] at he
    rw [compileBegin]
    exact compile_total_Fv e he.1 isFn c gs
  | e :: e' :: es, _, he, isFn, c, gs => by
    rw [FvList] at he
    simp only [Bool.and_eq_true] at he
    obtain ⟨a, ta, ha, hane⟩ := compile_total_Fv e he.1 isFn { c with tail := false } gs
    obtain ⟨b, tb, hb, _⟩ := compileBegin_total_Fv (e' :: es) (by simp) he.2 isFn c gs
    refine ⟨a ++ (if a.isEmpty then [] else [.pop]) ++ b, tb, ?_, by simp [hane]⟩
    rw [compileBegin]
    · simp only [g_bind_ok, g_pure_ok]
      exact ⟨_, _, ha, _, _, hb, rfl⟩
    · intro hh; cases hh
theorem compileSC_total_Fv : ∀ (es : List Expr), FvList es = true → ∀ isFn c gs,
    ∃ cs, (compileSC isFn c es).run gs = .ok (cs, gs) ∧ ∀ c ∈ cs, c ≠ []
  | [], _, isFn, c, gs => ⟨[], by rw [compileSC]; rfl, by simp⟩
  | [e], he, isFn, c, gs => by
    rw [FvList] at he
    simp only [Bool.and_eq_true] at he
    obtain ⟨a, t, ha, hane⟩ := compile_total_Fv e he.1 isFn c gs
    refine ⟨[a], ?_, by simpa using hane⟩
    rw [compileSC]
    simp only [g_bind_ok, g_pure_ok]
    exact ⟨_, _, ha, rfl⟩
  | e :: e' :: es, he, isFn, c, gs => by
    rw [FvList] at he
    simp only [Bool.and_eq_true] at he
    obtain ⟨a, t, ha, hane⟩ := compile_total_Fv e he.1 isFn { c with tail := false } gs
    obtain ⟨b, hb, hbne⟩ := compileSC_total_Fv (e' :: es) he.2 isFn c gs
    refine ⟨a :: b, ?_, ?_⟩
    · rw [compileSC]
      · simp only [g_bind_ok, g_pure_ok]
        exact ⟨_, _, hb, _, _, ha, rfl⟩
      · intro hh; cases hh
    · intro x hx
      rcases List.mem_cons.mp hx with rfl | hx
      · exact hane
      · exact hbne x hx
theorem compileNewScope_total_Fv : ∀ (es : List Expr), es ≠ [] → FvList es = true → ∀ isFn c oldtail gs,
    ∃ code t, (compileNewScope isFn c oldtail es).run gs = .ok ((code, t), gs) ∧ code ≠ []
  | [], hne, _, _, _, _, _ => absurd rfl hne
  | [e], _, he, isFn, c, oldtail, gs => by
    rw [FvList] at he
    simp only [Bool.and_eq_true] at he
    rw [compileNewScope]
    exact compile_total_Fv e he.1 isFn _ gs
  | e :: e' :: es, _, he, isFn, c, oldtail, gs => by
    rw [FvList] at he
    simp only [Bool.and_eq_true] at he
    obtain ⟨a, ta, ha, hane⟩ := compile_total_Fv e he.1 isFn { c with tail := false } gs
    obtain ⟨b, tb, hb, _⟩ := compileNewScope_total_Fv (e' :: es) (by simp) he.2 isFn c oldtail gs
    refine ⟨a ++ [.pop] ++ b, tb, ?_, by simp⟩
    rw [compileNewScope]
    · simp only [g_bind_ok, g_pure_ok]
      exact ⟨_, _, ha, _, _, hb, rfl⟩
    · intro hh; cases hh
theorem compileBinds_total_Fv : ∀ (bs : List (String × Expr)), FvBinds bs = true → ∀ isFn c seq gs,
    ∃ code t, (compileBinds isFn c seq bs).run gs = .ok ((code, t), gs)
  | [], _, isFn, c, seq, gs => ⟨[], c.tail, by rw [compileBinds]; rfl⟩
  | (x, e) :: bs, he, isFn, c, seq, gs => by
    rw [FvBinds] at he
    simp only [Bool.and_eq_true] at he
    obtain ⟨a, ta, ha, _⟩ := compile_total_Fv e he.1 isFn c gs
    obtain ⟨b, tb, hb⟩ := compileBinds_total_Fv bs he.2 isFn { c with tail := ta } seq gs
    refine ⟨a ++ (if seq then [.popStackPutEnv x] else []) ++ b, tb, ?_⟩
    rw [compileBinds]
    simp only [g_bind_ok, g_pure_ok]
    exact ⟨_, _, ha, _, _, hb, rfl⟩
theorem compileArms_total_Fv : ∀ (arms : List (Expr × Expr)), FvArms arms = true → ∀ isFn c gs,
    ∃ as, (compileArms isFn c arms).run gs = .ok (as, gs)
  | [], _, isFn, c, gs => ⟨[], by rw [compileArms]; rfl⟩
  | (p, b) :: arms, he, isFn, c, gs => by
    rw [FvArms] at he
    simp only [Bool.and_eq_true] at he
    obtain ⟨pc, _, hp, _⟩ := compile_total_Fv p he.1.1 isFn { c with tail := false } gs   -- `scopes` inherited since fix C04-06
    obtain ⟨bc, _, hb, _⟩ := compile_total_Fv b he.1.2 isFn c gs
    obtain ⟨r, hr⟩ := compileArms_total_Fv arms he.2 isFn c gs
    refine ⟨(pc, bc) :: r, ?_⟩
    rw [compileArms]
    simp only [g_bind_ok, g_pure_ok]
    exact ⟨_, _, hr, _, _, hp, _, _, hb, rfl⟩
end

/-- whatever `compile` returns for an Fv expression is non-empty code -/
theorem compile_ne_nil_Fv {e : Expr} (he : Fv e = true) {isFn c gs r}
    (h : (compile isFn c e).run gs = .ok r) : r.1.1 ≠ [] := by
  obtain ⟨code, t, h1, hne⟩ := compile_total_Fv e he isFn c gs
  rw [h1] at h
  injection h with h
  subst h
  exact hne

/-! ## The inductive step -/

theorem Sim.of_err {code : List Instr} {s : St} {rs : Ref.St} {env : Nat} {rs' : Ref.St} {K : Nat}
    (h : Fails K s rs'.trace) (hK : K ≤ code.length) : Sim code s rs env (.err rs') :=
  h.mono hK

/-- symbol reference -/
theorem sim_sym {s : St} {rs : Ref.St} {env : Nat} {pre post : List Instr} (x : String) (n : Nat)
    (hrel : Rel s rs env) (h : Seg s pre [.envToStack x] post) :
    Sim [.envToStack x] s rs env (Ref.eval (n + 1) (.sym x) env rs) := by
  rw [Ref.eval]
  have hl := hrel.lexLookup x
  cases hr : Ref.lookup rs env x with
  | none =>
    rw [hr] at hl
    simp only [Sim]
    have : Fails 1 s s.trace := Fails.step h.head (fun f => by rw [exec_envToStack, hl])
    rw [hrel.trace] at this
    exact this
  | some r =>
    obtain ⟨id, v⟩ := r
    rw [hr] at hl
    simp only [Sim]
    exact ⟨s.jmp (s.pc + 1) (some v :: s.data),
      Reach.step h.head (fun f => by rw [exec_envToStack, hl]),
      ⟨rfl, by simp, rfl⟩, hrel.jmp _ _, FramesExt.refl rs⟩

/-- `def x e`, after `e` has produced `v`: `dup`, then bind in the top scope (re-binding rule) -/
theorem sim_def_tail {s s₁ : St} {rs rs₁ : Ref.St} {env : Nat} {pre post ce : List Instr} {x : String} {v : Val}
    (h : Seg s pre (ce ++ [.dup, .popStackPutEnv x]) post)
    (r1 : Reach ce.length 1 s s₁) (l1 : Lands ce.length v s s₁) (rel1 : Rel s₁ rs₁ env) (ext1 : FramesExt rs rs₁) :
    Sim (ce ++ [.dup, .popStackPutEnv x]) s rs env
      (match Ref.define rs₁ env x v with | some s' => .ok v s' | none => .err rs₁) := by
  obtain ⟨r2, a3⟩ := glue_dup h l1
  obtain ⟨rest, hlin⟩ := rel1.chain.head
  have hlt := rel1.chain.lt
  obtain ⟨fr, hfr⟩ : ∃ fr, rs₁.frames[env]? = some fr := ⟨rs₁.frames[env], by simp [hlt]⟩
  have hv := rel1.vars env x
  rw [List.getD_eq_getElem?_getD, hfr, Option.getD_some] at hv
  -- the state `bindTop` runs in
  have hx : ∀ f, (exec (f + 1) (.popStackPutEnv x)).run (s₁.jmp (s₁.pc + 1) (some v :: some v :: s.data))
      = (bindTop x v).run (s₁.jmp (s₁.pc + 1 + 1) (some v :: s.data)) := fun f => by
    rw [exec_popStackPutEnv f x _ v (some v :: s.data) rfl]; rfl
  have hb := run_bindTop x v (s₁.jmp (s₁.pc + 1 + 1) (some v :: s.data))
  rw [show (s₁.jmp (s₁.pc + 1 + 1) (some v :: s.data)).linear = some env :: rest from hlin] at hb
  simp only at hb
  rw [show scopeOf (s₁.jmp (s₁.pc + 1 + 1) (some v :: s.data)) env = scopeOf s₁ env from rfl, hv,
    show (s₁.jmp (s₁.pc + 1 + 1) (some v :: s.data)).heap = rs₁.heap from rel1.heap] at hb
  rw [ref_define_eq rs₁ env x v fr hfr]
  have hlen : (ce ++ [Instr.dup, Instr.popStackPutEnv x]).length = ce.length + 1 + 1 := by simp
  have hok : (bindTop x v).run (s₁.jmp (s₁.pc + 1 + 1) (some v :: s.data))
        = (.ok (), (s₁.jmp (s₁.pc + 1 + 1) (some v :: s.data)).bind env x v) →
      Sim (ce ++ [.dup, .popStackPutEnv x]) s rs env (.ok v (Ref.setVar rs₁ env x v)) := by
    intro hb'
    refine ⟨(s₁.jmp (s₁.pc + 1 + 1) (some v :: s.data)).bind env x v, ?_, ⟨l1.fn, ?_, rfl⟩,
      (rel1.jmp _ _).bind env hlt x v, ext1.trans (FramesExt.setVar _ _ _ _)⟩
    · exact ((r1.trans r2).trans (Reach.step a3 (fun f => (hx f).trans hb'))).mono (by rw [hlen]; exact Nat.le_refl _) (by simp)
    · show s₁.pc + 1 + 1 = _
      rw [l1.pc, hlen]; push_cast; omega
  have herr : (bindTop x v).run (s₁.jmp (s₁.pc + 1 + 1) (some v :: s.data))
        = (.error .err, s₁.jmp (s₁.pc + 1 + 1) (some v :: s.data)) →
      Sim (ce ++ [.dup, .popStackPutEnv x]) s rs env (.err rs₁) := by
    intro hb'
    have hf := Fails.of_reach (r1.trans r2) (Fails.step a3 (fun f => (hx f).trans hb'))
    rw [show (s₁.jmp (s₁.pc + 1 + 1) (some v :: s.data)).trace = rs₁.trace from rel1.trace] at hf
    exact hf.mono (by rw [hlen]; exact Nat.le_refl _)
  cases hl : fr.vars.lookup x with
  | none =>
    rw [hl] at hb
    exact hok hb
  | some cur =>
    rw [hl] at hb
    simp only at hb ⊢
    by_cases hrb : rebindOk rs₁.heap cur v = true
    · rw [if_pos hrb] at hb ⊢
      exact hok hb
    · rw [if_neg hrb] at hb ⊢
      exact herr hb

/-- `set x e`, after `e` has produced `v`: `dup`, then assign where the symbol is found, else
bind in the top scope -/
theorem sim_set_tail {s s₁ : St} {rs rs₁ : Ref.St} {env : Nat} {pre post ce : List Instr} {x : String} {v : Val}
    (h : Seg s pre (ce ++ [.dup, .update x]) post)
    (r1 : Reach ce.length 1 s s₁) (l1 : Lands ce.length v s s₁) (rel1 : Rel s₁ rs₁ env) (ext1 : FramesExt rs rs₁) :
    Sim (ce ++ [.dup, .update x]) s rs env
      (match Ref.lookup rs₁ env x with
       | some (fr, _) => .ok v (Ref.setVar rs₁ fr x v)
       | none => .ok v (Ref.setVar rs₁ env x v)) := by
  obtain ⟨r2, a3⟩ := glue_dup h l1
  obtain ⟨rest, hlin⟩ := rel1.chain.head
  have hlt := rel1.chain.lt
  obtain ⟨fr, hfr⟩ : ∃ fr, rs₁.frames[env]? = some fr := ⟨rs₁.frames[env], by simp [hlt]⟩
  have hv := rel1.vars env x
  rw [List.getD_eq_getElem?_getD, hfr, Option.getD_some] at hv
  have hlen : (ce ++ [Instr.dup, Instr.update x]).length = ce.length + 1 + 1 := by simp
  have hll : lexLookup (s₁.jmp (s₁.pc + 1 + 1) (some v :: s.data)) x = Ref.lookup rs₁ env x := by
    rw [lexLookup_jmp]; exact rel1.lexLookup x
  have hx : ∀ f, (exec (f + 1) (.update x)).run (s₁.jmp (s₁.pc + 1) (some v :: some v :: s.data))
      = match Ref.lookup rs₁ env x with
        | some (id, _) => (.ok (), (s₁.jmp (s₁.pc + 1 + 1) (some v :: s.data)).bind id x v)
        | none => (bindTop x v).run (s₁.jmp (s₁.pc + 1 + 1) (some v :: s.data)) := fun f => by
    rw [exec_update f x _ v (some v :: s.data) rfl]
    show (match lexLookup (s₁.jmp (s₁.pc + 1 + 1) (some v :: s.data)) x with
      | some (id, _) => _ | none => _) = _
    rw [hll]
    rfl
  have hok : ∀ id, id < rs₁.frames.length →
      (∀ f, (exec (f + 1) (.update x)).run (s₁.jmp (s₁.pc + 1) (some v :: some v :: s.data))
        = (.ok (), (s₁.jmp (s₁.pc + 1 + 1) (some v :: s.data)).bind id x v)) →
      Sim (ce ++ [.dup, .update x]) s rs env (.ok v (Ref.setVar rs₁ id x v)) := by
    intro id hid hx'
    refine ⟨(s₁.jmp (s₁.pc + 1 + 1) (some v :: s.data)).bind id x v, ?_, ⟨l1.fn, ?_, rfl⟩,
      (rel1.jmp _ _).bind id hid x v, ext1.trans (FramesExt.setVar _ _ _ _)⟩
    · exact ((r1.trans r2).trans (Reach.step a3 hx')).mono (by rw [hlen]; exact Nat.le_refl _) (by simp)
    · show s₁.pc + 1 + 1 = _
      rw [l1.pc, hlen]; push_cast; omega
  cases hl : Ref.lookup rs₁ env x with
  | some r =>
    obtain ⟨id, w⟩ := r
    simp only
    refine hok id (ref_lookupIn_lt _ x _ _ id w hl) (fun f => ?_)
    rw [hx f, hl]
  | none =>
    simp only
    refine hok env hlt (fun f => ?_)
    rw [hx f, hl]
    simp only
    have hb := run_bindTop x v (s₁.jmp (s₁.pc + 1 + 1) (some v :: s.data))
    rw [show (s₁.jmp (s₁.pc + 1 + 1) (some v :: s.data)).linear = some env :: rest from hlin] at hb
    simp only at hb
    rw [show scopeOf (s₁.jmp (s₁.pc + 1 + 1) (some v :: s.data)) env = scopeOf s₁ env from rfl, hv,
      ref_lookup_none_top rs₁ env x fr hfr hl] at hb
    exact hb

/-- `popStackPutEnv x` with `v` on top of the data stack, in related states: the VM binds in its
top scope exactly when the reference evaluator's `define` succeeds in the current frame. -/
theorem psp_step {s₁ : St} {rs₁ : Ref.St} {env : Nat} {P Q : List Instr} {x : String} {v : Val}
    {D : List (Option Val)} (a : At s₁ P (.popStackPutEnv x) Q) (hd : s₁.data = some v :: D) (rel1 : Rel s₁ rs₁ env) :
    match Ref.define rs₁ env x v with
    | some rs₂ => Reach 1 1 s₁ ((s₁.jmp (s₁.pc + 1) D).bind env x v)
        ∧ Rel ((s₁.jmp (s₁.pc + 1) D).bind env x v) rs₂ env ∧ FramesExt rs₁ rs₂
    | none => Fails 1 s₁ rs₁.trace := by
  obtain ⟨rest, hlin⟩ := rel1.chain.head
  have hlt := rel1.chain.lt
  obtain ⟨fr, hfr⟩ : ∃ fr, rs₁.frames[env]? = some fr := ⟨rs₁.frames[env], by simp [hlt]⟩
  have hv := rel1.vars env x
  rw [List.getD_eq_getElem?_getD, hfr, Option.getD_some] at hv
  have hx : ∀ f, (exec (f + 1) (.popStackPutEnv x)).run s₁ = (bindTop x v).run (s₁.jmp (s₁.pc + 1) D) :=
    fun f => exec_popStackPutEnv f x _ v D hd
  have hb := run_bindTop x v (s₁.jmp (s₁.pc + 1) D)
  rw [show (s₁.jmp (s₁.pc + 1) D).linear = some env :: rest from hlin] at hb
  simp only at hb
  rw [show scopeOf (s₁.jmp (s₁.pc + 1) D) env = scopeOf s₁ env from rfl, hv,
    show (s₁.jmp (s₁.pc + 1) D).heap = rs₁.heap from rel1.heap] at hb
  rw [ref_define_eq rs₁ env x v fr hfr]
  have hok : (bindTop x v).run (s₁.jmp (s₁.pc + 1) D) = (.ok (), (s₁.jmp (s₁.pc + 1) D).bind env x v) →
      Reach 1 1 s₁ ((s₁.jmp (s₁.pc + 1) D).bind env x v)
        ∧ Rel ((s₁.jmp (s₁.pc + 1) D).bind env x v) (Ref.setVar rs₁ env x v) env
        ∧ FramesExt rs₁ (Ref.setVar rs₁ env x v) := fun hb' =>
    ⟨Reach.step a (fun f => (hx f).trans hb'), (rel1.jmp _ _).bind env hlt x v, FramesExt.setVar _ _ _ _⟩
  have herr : (bindTop x v).run (s₁.jmp (s₁.pc + 1) D) = (.error .err, s₁.jmp (s₁.pc + 1) D) →
      Fails 1 s₁ rs₁.trace := fun hb' => by
    have hf := Fails.step a (fun f => (hx f).trans hb')
    rw [show (s₁.jmp (s₁.pc + 1) D).trace = rs₁.trace from rel1.trace] at hf
    exact hf
  cases hl : fr.vars.lookup x with
  | none =>
    rw [hl] at hb
    exact hok hb
  | some cur =>
    rw [hl] at hb
    simp only at hb ⊢
    by_cases hrb : rebindOk rs₁.heap cur v = true
    · rw [if_pos hrb] at hb ⊢
      exact hok hb
    · rw [if_neg hrb] at hb ⊢
      exact herr hb

/-! ## Sequencing -/

/-- From `s` the VM reaches `s₁'` (same function, `k` instructions further, same data stack)
and from there `c₂` simulates `res`: then the whole `code` (of which `c₂` is the tail) simulates
`res` from `s`. -/
theorem Sim.seq {code c₂ : List Instr} {s s₁' : St} {rs rs₁ : Ref.St} {env K₁ k : Nat} {res : Ref.R Val}
    (hreach : Reach K₁ 1 s s₁') (hmoved : Moved k s s₁') (hext : FramesExt rs rs₁) (h₂ : Sim c₂ s₁' rs₁ env res)
    (hK : K₁ + c₂.length ≤ code.length) (hk : k + c₂.length = code.length) : Sim code s rs env res := by
  cases res with
  | ok v rs' =>
    obtain ⟨s₂, r, l, rel, ext⟩ := h₂
    exact ⟨s₂, (hreach.trans r).mono hK (by simp), hk ▸ hmoved.lands l, rel, hext.trans ext⟩
  | err rs' => exact (Fails.of_reach hreach h₂).mono hK
  | timeout => trivial
  | brk l rs' => exact h₂
  | cont l rs' => exact h₂

/-- a result that is not a value passes through the enclosing form unchanged -/
theorem Sim.prefix {code c₁ : List Instr} {s : St} {rs : Ref.St} {env : Nat} {res : Ref.R Val}
    (h₁ : Sim c₁ s rs env res) (hnot : ∀ v rs', res ≠ .ok v rs') (hK : c₁.length ≤ code.length) :
    Sim code s rs env res := by
  cases res with
  | ok v rs' => exact absurd rfl (hnot v rs')
  | err rs' => exact Fails.mono h₁ hK
  | timeout => trivial
  | brk l rs' => exact h₁
  | cont l rs' => exact h₁

/-- `cond`, after the body of the chosen arm: the `jump` behind the form -/
theorem Sim.cond_exit {p b rest pre post : List Instr} {s s₁' : St} {rs rs₁ : Ref.St} {env K₁ : Nat} {res : Ref.R Val}
    (h : Seg s pre (p ++ [.branch false (b.length + 2)] ++ b ++ [.jump (rest.length + 1)] ++ rest) post)
    (hreach : Reach K₁ 1 s s₁') (hmoved : Moved (p.length + 1) s s₁') (hext : FramesExt rs rs₁)
    (h₂ : Sim b s₁' rs₁ env res) (hK : K₁ ≤ p.length + 1) :
    Sim (p ++ [.branch false (b.length + 2)] ++ b ++ [.jump (rest.length + 1)] ++ rest) s rs env res := by
  have hlen : (p ++ [Instr.branch false (b.length + 2)] ++ b ++ [Instr.jump (rest.length + 1)] ++ rest).length
      = p.length + 1 + b.length + 1 + rest.length := by simp; omega
  cases res with
  | ok v rs' =>
    obtain ⟨s₂, r, l, rel, ext⟩ := h₂
    have l2 : Lands (p.length + 1 + b.length) v s s₂ := hmoved.lands l
    obtain ⟨r3, l3⟩ := glue_cond_exit h l2
    exact ⟨_, ((hreach.trans r).trans r3).mono (by rw [hlen]; omega) (by simp), l3, rel.jmp _ _, hext.trans ext⟩
  | err rs' => exact (Fails.of_reach hreach h₂).mono (by rw [hlen]; omega)
  | timeout => trivial
  | brk l rs' => exact h₂
  | cont l rs' => exact h₂

/-- `let`/`letseq`/`newScope`: `addScope`, the inner code in the fresh scope (reference: in the
fresh frame), `removeScope` -/
theorem Sim.scoped {inner pre post : List Instr} {s : St} {rs : Ref.St} {env : Nat} {res : Ref.R Val}
    (h : Seg s pre ([.addScope] ++ inner ++ [.removeScope]) post)
    (hin : Sim inner s.pushScope (Ref.newFrame rs env).2 rs.frames.length res) :
    Sim ([.addScope] ++ inner ++ [.removeScope]) s rs env res := by
  obtain ⟨r1, m1⟩ := glue_addScope h
  have hlen : ([Instr.addScope] ++ inner ++ [Instr.removeScope]).length = 1 + inner.length + 1 := by simp; omega
  cases res with
  | ok v rs3 =>
    obtain ⟨s3, r, l, rel3, ext3⟩ := hin
    have l' : Lands (1 + inner.length) v s s3 := m1.lands l
    obtain ⟨rest, hlin⟩ := rel3.chain.head
    obtain ⟨f, hf, hp⟩ := ext3 rs.frames.length { parent := some env }
      (by show (rs.frames ++ [_])[rs.frames.length]? = _; simp)
    obtain ⟨r4, l4⟩ := glue_removeScope h l' hlin
    exact ⟨_, ((r1.trans r).trans r4).mono (by rw [hlen]; omega) (by simp), l4, rel3.popScope f hf hp,
      (FramesExt.newFrame rs env).trans ext3⟩
  | err rs3 => exact (Fails.of_reach r1 hin).mono (by rw [hlen]; omega)
  | timeout => trivial
  | brk l rs3 => exact hin
  | cont l rs3 => exact hin

/-- the segment of the inner code of a scoped form, seen from the state after `addScope` -/
theorem Seg.inner {inner pre post : List Instr} {s : St}
    (h : Seg s pre ([.addScope] ++ inner ++ [.removeScope]) post) :
    Seg s.pushScope (pre ++ [.addScope]) inner ([.removeScope] ++ post) :=
  h.moved (glue_addScope h).2 (c₁ := [.addScope]) (c₂ := inner) (post' := [.removeScope] ++ post) (by simp) rfl

/-! ## The parallel bindings of `let` -/

theorem ref_define_trace {rs rs' : Ref.St} {fr : Nat} {x : String} {v : Val}
    (h : Ref.define rs fr x v = some rs') : rs'.trace = rs.trace := by
  have hs : (Ref.setVar rs fr x v).trace = rs.trace := by
    unfold Ref.setVar; cases rs.frames[fr]? <;> rfl
  unfold Ref.define at h
  cases hf : rs.frames[fr]? with
  | none => rw [hf] at h; cases h
  | some f =>
    rw [hf] at h
    simp only at h
    cases hl : f.vars.lookup x with
    | none => rw [hl] at h; simp only [Option.some.injEq] at h; rw [← h]; exact hs
    | some cur =>
      rw [hl] at h
      simp only at h
      split at h
      · simp only [Option.some.injEq] at h; rw [← h]; exact hs
      · cases h

theorem ref_evalList_length : ∀ (n : Nat) (es : List Expr) (env : Nat) (rs : Ref.St) (vs : List Val) (rs' : Ref.St),
    Ref.evalList n es env rs = .ok vs rs' → vs.length = es.length
  | 0, es, env, rs, vs, rs', h => by rw [Ref.evalList] at h; cases h
  | n + 1, [], env, rs, vs, rs', h => by
    rw [Ref.evalList] at h
    · injection h with h1 _; subst h1; rfl
    · omega
  | n + 1, e :: es, env, rs, vs, rs', h => by
    rw [Ref.evalList] at h
    cases h1 : Ref.eval n e env rs with
    | ok v rs1 =>
      rw [h1] at h
      simp only at h
      cases h2 : Ref.evalList n es env rs1 with
      | ok vs2 rs2 =>
        rw [h2] at h
        simp only at h
        injection h with h3 _
        subst h3
        simp [ref_evalList_length n es env rs1 vs2 rs2 h2]
      | err _ => rw [h2] at h; cases h
      | timeout => rw [h2] at h; cases h
      | brk _ _ => rw [h2] at h; cases h
      | cont _ _ => rw [h2] at h; cases h
    | err _ => rw [h1] at h; cases h
    | timeout => rw [h1] at h; cases h
    | brk _ _ => rw [h1] at h; cases h
    | cont _ _ => rw [h1] at h; cases h

/-- A run of `popStackPutEnv` instructions over matching values on the data stack is
`defineAll` in the current frame. -/
theorem vm_defineAll : ∀ (ps : List (String × Val)) (s : St) (rs : Ref.St) (fr : Nat) (P Q : List Instr)
    (D : List (Option Val)),
    Seg s P (ps.map (fun p => Instr.popStackPutEnv p.1)) Q → s.data = ps.map (fun p => some p.2) ++ D → Rel s rs fr →
    match defineAll rs fr ps with
    | some rs' => ∃ s', Reach ps.length 1 s s' ∧ fnOf s' s'.curfunc = fnOf s s.curfunc
        ∧ s'.pc = s.pc + (ps.length : Int) ∧ s'.data = D ∧ Rel s' rs' fr ∧ FramesExt rs rs'
    | none => Fails ps.length s rs.trace
  | [], s, rs, fr, P, Q, D, _, hd, hrel => by
    simp only [defineAll]
    exact ⟨s, Reach.refl s |>.mono (Nat.le_refl _) (by simp), rfl, by simp, by simpa using hd, hrel, FramesExt.refl rs⟩
  | (x, v) :: ps, s, rs, fr, P, Q, D, hseg, hd, hrel => by
    simp only [List.map_cons] at hseg hd
    have a1 : At s P (.popStackPutEnv x) (ps.map (fun p => Instr.popStackPutEnv p.1) ++ Q) := hseg.head
    have hp := psp_step a1 hd hrel
    simp only [defineAll]
    cases hdef : Ref.define rs fr x v with
    | none =>
      rw [hdef] at hp
      exact Fails.mono hp (by simp)
    | some rs1 =>
      rw [hdef] at hp
      obtain ⟨r1, rel1, ext1⟩ := hp
      simp only
      have hseg1 : Seg ((s.jmp (s.pc + 1) (ps.map (fun p => some p.2) ++ D)).bind fr x v) (P ++ [.popStackPutEnv x])
          (ps.map (fun p => Instr.popStackPutEnv p.1)) Q :=
        hseg.move (s' := (s.jmp (s.pc + 1) (ps.map (fun p => some p.2) ++ D)).bind fr x v) rfl (by simp)
          (by show s.pc + 1 = _; rw [hseg.pc]; simp)
      have ih := vm_defineAll ps _ rs1 fr _ Q D hseg1 rfl rel1
      cases hda : defineAll rs1 fr ps with
      | none =>
        rw [hda] at ih
        rw [ref_define_trace hdef] at ih
        exact (Fails.of_reach r1 ih).mono (by simp; omega)
      | some rs' =>
        rw [hda] at ih
        obtain ⟨s', r2, hfn, hpc, hdata, rel', ext'⟩ := ih
        refine ⟨s', (r1.trans r2).mono (by simp; omega) (by simp), hfn, ?_, hdata, rel', ext1.trans ext'⟩
        rw [hpc]
        show s.pc + 1 + (ps.length : Int) = s.pc + (((x, v) :: ps).length : Int)
        simp only [List.length_cons]; push_cast; omega

/-- list-length arithmetic -/
macro "lenarith" : tactic =>
  `(tactic| (first | omega | (simp only [List.length_append, List.length_cons, List.length_nil]; done)
                   | (simp only [List.length_append, List.length_cons, List.length_nil]; omega)))

/-! ## The four inductive steps -/

/-- `let` with pairwise distinct names: the initialisers in the fresh scope, the bindings
(popped in reverse order), the body, `removeScope`. -/
theorem vclaimE_letpar {n : Nat} (hB : VClaimB n) (hP : VClaimP n) {bs : List (String × Expr)} {body : List Expr}
    (isFn : Nat → Bool) (c : Ctx) (gs : GS) (r : (List Instr × Bool) × GS)
    (hc : (compile isFn c (.let_ false bs body)).run gs = .ok r)
    (s : St) (rs : Ref.St) (env : Nat) (pre post : List Instr) (hrel : Rel s rs env) (hseg : Seg s pre r.1.1 post)
    (hnd : (bs.map (·.1)).Nodup) (hbody : body ≠ []) (hbs : FvBinds bs = true) (hbl : FvList body = true) :
    Sim r.1.1 s rs env (Ref.eval (n + 1) (.let_ false bs body) env rs) := by
  rw [compile] at hc
  simp only [g_bind_ok, g_pure_ok] at hc
  obtain ⟨ra, gs1, ha, rb, gs2, hb, rfl⟩ := hc
  have hcode : ([Instr.addScope] ++ ra.1 ++ (if False then [] else (List.map (fun p => Instr.popStackPutEnv p.fst) bs).reverse)
      ++ rb.1 ++ [Instr.removeScope])
      = [Instr.addScope] ++ (ra.1 ++ (bs.map (fun p => Instr.popStackPutEnv p.1)).reverse ++ rb.1) ++ [Instr.removeScope] := by
    simp
  simp only [Bool.false_eq_true, hcode] at hseg ⊢
  rw [Ref.eval]
  show Sim _ s rs env (if false = true then _ else
      (match Ref.evalList n (bs.map (·.2)) rs.frames.length (Ref.newFrame rs env).2 with
       | .ok vs s => (match Ref.bindAll s rs.frames.length (bs.map (·.1)) vs with
          | some s => Ref.evalBegin n body rs.frames.length s
          | none => .err s)
       | .err s => .err s | .brk l s => .brk l s | .cont l s => .cont l s | .timeout => .timeout))
  rw [if_neg (by decide)]
  refine Sim.scoped hseg ?_
  have hseg1 := hseg.inner
  have hL := hP bs hbs isFn _ gs (ra, gs1) ha _ _ _ _ _ hrel.pushScope
    (hseg1.refocus (c' := ra.1)
      (post' := (bs.map (fun p => Instr.popStackPutEnv p.1)).reverse ++ rb.1 ++ ([.removeScope] ++ post)) (by simp))
  cases h1 : Ref.evalList n (bs.map (·.2)) rs.frames.length (Ref.newFrame rs env).2 with
  | ok vs rs2 =>
    rw [h1] at hL
    obtain ⟨s2, r2, hfn2, hpc2, hdata2, rel2, ext2⟩ := hL
    simp only
    have hlen : vs.length = bs.length := by
      have := ref_evalList_length _ _ _ _ _ _ h1
      simpa using this
    -- the pairs in the order the VM binds them
    have hmapI : ((bs.map (·.1)).zip vs).reverse.map (fun p => Instr.popStackPutEnv p.1)
        = (bs.map (fun p => Instr.popStackPutEnv p.1)).reverse := by
      rw [List.map_reverse]
      congr 1
      have : ((bs.map (·.1)).zip vs).map (fun p => Instr.popStackPutEnv p.1)
          = (((bs.map (·.1)).zip vs).map (·.1)).map Instr.popStackPutEnv := by rw [List.map_map]; rfl
      rw [this, List.map_fst_zip (by simp [hlen]), List.map_map]; rfl
    have hmapD : ((bs.map (·.1)).zip vs).reverse.map (fun p => some p.2) = vs.reverse.map some := by
      have : ((bs.map (·.1)).zip vs).map (fun p => some p.2)
          = (((bs.map (·.1)).zip vs).map (·.2)).map some := by rw [List.map_map]; rfl
      rw [List.map_reverse, List.map_reverse, this, List.map_snd_zip (by simp [hlen])]
    have hndz : (((bs.map (·.1)).zip vs).map (·.1)).Nodup := by
      rw [List.map_fst_zip (by simp [hlen])]; exact hnd
    have hsegB : Seg s2 (pre ++ [Instr.addScope] ++ ra.1)
        (((bs.map (·.1)).zip vs).reverse.map (fun p => Instr.popStackPutEnv p.1)) (rb.1 ++ ([.removeScope] ++ post)) := by
      rw [hmapI]
      exact hseg1.move hfn2 (by simp) (by rw [hpc2, hseg1.pc]; simp; omega)
    have hvm := vm_defineAll ((bs.map (·.1)).zip vs).reverse s2 rs2 rs.frames.length _ _ s.pushScope.data hsegB
      (by rw [hmapD]; exact hdata2) rel2
    have hlt2 := rel2.chain.lt
    obtain ⟨fr0, hfr0⟩ : ∃ fr0, rs2.frames[rs.frames.length]? = some fr0 := ⟨rs2.frames[rs.frames.length], by simp [hlt2]⟩
    have hrev := defineAll_reverse rs2 rs.frames.length fr0 hfr0 ((bs.map (·.1)).zip vs) hndz
    rw [bindAll_eq_defineAll]
    cases hfwd : defineAll rs2 rs.frames.length ((bs.map (·.1)).zip vs) with
    | some a =>
      cases hbwd : defineAll rs2 rs.frames.length ((bs.map (·.1)).zip vs).reverse with
      | some b =>
        rw [hfwd, hbwd] at hrev
        rw [hbwd] at hvm
        obtain ⟨va, vb, hva, hvb, hlook⟩ := hrev
        obtain ⟨s3, r3, hfn3, hpc3, hdata3, rel3, ext3⟩ := hvm
        simp only
        rw [hvb] at rel3 ext3
        have rel3a : Rel s3 a rs.frames.length := by rw [hva]; exact rel3.withVars_congr hfr0 hlook
        have ext3a : FramesExt rs2 a := by rw [hva]; exact ext3.withVars_congr
        have m3 : Moved (ra.1.length + (bs.map (fun p => Instr.popStackPutEnv p.1)).reverse.length) s.pushScope s3 :=
          ⟨hfn3.trans hfn2, by
            rw [hpc3, hpc2]; simp only [List.length_reverse, List.length_map, List.length_zip, hlen, Nat.min_self]
            push_cast; omega, hdata3⟩
        have ihb := hB body hbody hbl isFn _ gs1 (rb, gs2) hb s3 a _ _ _ rel3a
          (hseg1.moved m3 (c₁ := ra.1 ++ (bs.map (fun p => Instr.popStackPutEnv p.1)).reverse) (c₂ := rb.1)
            (post' := [.removeScope] ++ post) (by simp) (by simp))
        refine Sim.seq (r2.trans r3) m3 (ext2.trans ext3a) ihb ?_ ?_
        · simp only [List.length_append, List.length_reverse, List.length_map, List.length_zip, hlen, Nat.min_self]
          omega
        · simp only [List.length_append, List.length_reverse, List.length_map]
      | none =>
        rw [hfwd, hbwd] at hrev
        exact hrev.elim
    | none =>
      cases hbwd : defineAll rs2 rs.frames.length ((bs.map (·.1)).zip vs).reverse with
      | some b =>
        rw [hfwd, hbwd] at hrev
        exact hrev.elim
      | none =>
        rw [hbwd] at hvm
        simp only
        refine (Fails.of_reach r2 hvm).mono ?_
        simp only [List.length_append, List.length_reverse, List.length_map, List.length_zip, hlen, Nat.min_self]
        omega
  | err rs2 => rw [h1] at hL; exact Fails.mono hL (by lenarith)
  | timeout => trivial
  | brk l rs2 => rw [h1] at hL; exact hL.elim
  | cont l rs2 => rw [h1] at hL; exact hL.elim

theorem vclaimE_succ {n : Nat} (hE : VClaimE n) (hB : VClaimB n) (hC : VClaimC n) (hS : VClaimS n)
    (hN : VClaimN n) (hL : VClaimL n) (hP : VClaimP n) : VClaimE (n + 1) := by
  intro e he isFn c gs r hc s rs env pre post hrel hseg
  cases e with
  | int x =>
    rw [compile] at hc; simp only [g_pure_ok] at hc; subst hc
    rw [Ref.eval]; exact sim_push _ hrel hseg
  | bool x =>
    rw [compile] at hc; simp only [g_pure_ok] at hc; subst hc
    rw [Ref.eval]; exact sim_push _ hrel hseg
  | str x =>
    rw [compile] at hc; simp only [g_pure_ok] at hc; subst hc
    rw [Ref.eval]; exact sim_push _ hrel hseg
  | nilLit =>
    rw [compile] at hc; simp only [g_pure_ok] at hc; subst hc
    rw [Ref.eval]; exact sim_push _ hrel hseg
  | sym x =>
    rw [compile] at hc; simp only [g_pure_ok] at hc; subst hc
    exact sim_sym x n hrel hseg
  | begin_ es =>
    rw [Fv] at he
    cases es with
    | nil =>
      rw [compile] at hc; simp only [g_pure_ok] at hc; subst hc
      rw [Ref.eval]
      cases n with
      | zero => rw [Ref.evalBegin]; trivial
      | succ m =>
        rw [Ref.evalBegin]
        · exact sim_push _ hrel hseg
        · omega
    | cons e0 es0 =>
      rw [compile] at hc
      · rw [Ref.eval]
        exact hB (e0 :: es0) (by simp) he isFn c gs r hc s rs env pre post hrel hseg
      · intro hh; cases hh
  | def_ x e1 =>
    rw [Fv] at he
    rw [compile] at hc
    simp only [g_bind_ok, g_pure_ok] at hc
    obtain ⟨ra, gs1, ha, rfl⟩ := hc
    rw [Ref.eval]
    have ih := hE e1 he isFn _ gs (ra, gs1) ha s rs env pre ([.dup, .popStackPutEnv x] ++ post) hrel
      (hseg.refocus (by simp))
    cases h1 : Ref.eval n e1 env rs with
    | ok v rs1 =>
      rw [h1] at ih
      obtain ⟨s1, r1, l1, rel1, ext1⟩ := ih
      exact sim_def_tail hseg r1 l1 rel1 ext1
    | err rs1 => rw [h1] at ih; exact Sim.prefix ih (fun _ _ hh => by cases hh) (by lenarith)
    | timeout => trivial
    | brk l rs1 => rw [h1] at ih; exact ih.elim
    | cont l rs1 => rw [h1] at ih; exact ih.elim
  | set_ x e1 =>
    rw [Fv] at he
    rw [compile] at hc
    simp only [g_bind_ok, g_pure_ok] at hc
    obtain ⟨ra, gs1, ha, rfl⟩ := hc
    rw [Ref.eval]
    have ih := hE e1 he isFn _ gs (ra, gs1) ha s rs env pre ([.dup, .update x] ++ post) hrel
      (hseg.refocus (by simp))
    cases h1 : Ref.eval n e1 env rs with
    | ok v rs1 =>
      rw [h1] at ih
      obtain ⟨s1, r1, l1, rel1, ext1⟩ := ih
      exact sim_set_tail hseg r1 l1 rel1 ext1
    | err rs1 => rw [h1] at ih; exact Sim.prefix ih (fun _ _ hh => by cases hh) (by lenarith)
    | timeout => trivial
    | brk l rs1 => rw [h1] at ih; exact ih.elim
    | cont l rs1 => rw [h1] at ih; exact ih.elim
  | cond arms d =>
    rw [Fv] at he
    simp only [Bool.and_eq_true] at he
    rw [compile] at hc
    simp only [g_bind_ok, g_pure_ok] at hc
    obtain ⟨rd, gs1, hd, as, gs2, has, rfl⟩ := hc
    rw [Ref.eval]
    exact hC arms d he.1 he.2 isFn c gs1 (as, gs2) gs (rd, gs1) has hd s rs env pre post hrel hseg
  | and_ es =>
    rw [Fv] at he
    rw [compile] at hc
    simp only [g_bind_ok, g_pure_ok] at hc
    obtain ⟨cs, gs1, hcs, rfl⟩ := hc
    rw [Ref.eval]
    exact hS false es he isFn c gs (cs, gs1) hcs s rs env pre post hrel hseg
  | or_ es =>
    rw [Fv] at he
    rw [compile] at hc
    simp only [g_bind_ok, g_pure_ok] at hc
    obtain ⟨cs, gs1, hcs, rfl⟩ := hc
    rw [Ref.eval]
    exact hS true es he isFn c gs (cs, gs1) hcs s rs env pre post hrel hseg
  | newScope es =>
    rw [Fv] at he
    simp only [Bool.and_eq_true, Bool.not_eq_true', List.isEmpty_eq_false_iff] at he
    cases es with
    | nil => exact absurd rfl he.1
    | cons e0 es0 =>
      rw [compile] at hc
      · simp only [g_bind_ok, g_pure_ok] at hc
        obtain ⟨ra, gs1, ha, rfl⟩ := hc
        rw [Ref.eval]
        show Sim _ s rs env (Ref.evalBegin n (e0 :: es0) rs.frames.length (Ref.newFrame rs env).2)
        exact Sim.scoped hseg (hN (e0 :: es0) he.1 he.2 isFn _ _ gs (ra, gs1) ha _ _ _ _ _ hrel.pushScope hseg.inner)
      · intro hh; cases hh
  | let_ seq bs body =>
    rw [Fv] at he
    simp only [Bool.and_eq_true, Bool.not_eq_true', List.isEmpty_eq_false_iff] at he
    obtain ⟨⟨⟨hseq, hbody⟩, hbs⟩, hbl⟩ := he
    cases seq
    · exact vclaimE_letpar hB hP isFn c gs r hc s rs env pre post hrel hseg
        (by simpa using hseq) hbody hbs hbl
    rw [compile] at hc
    simp only [g_bind_ok, g_pure_ok] at hc
    obtain ⟨ra, gs1, ha, rb, gs2, hb, rfl⟩ := hc
    have hcode : ([Instr.addScope] ++ ra.1 ++ (if True then [] else (List.map (fun p => Instr.popStackPutEnv p.fst) bs).reverse)
        ++ rb.1 ++ [Instr.removeScope]) = [Instr.addScope] ++ (ra.1 ++ rb.1) ++ [Instr.removeScope] := by simp
    simp only [hcode] at hseg ⊢
    rw [Ref.eval]
    show Sim _ s rs env (if true = true then
        (match Ref.evalLetSeq n bs rs.frames.length (Ref.newFrame rs env).2 with
         | .ok _ s => Ref.evalBegin n body rs.frames.length s
         | .err s => .err s | .brk l s => .brk l s | .cont l s => .cont l s | .timeout => .timeout)
      else _)
    rw [if_pos rfl]
    refine Sim.scoped hseg ?_
    have hseg1 := hseg.inner
    have hU := hL bs hbs isFn _ gs (ra, gs1) ha _ _ _ _ _ hrel.pushScope
      (hseg1.refocus (c' := ra.1) (post' := rb.1 ++ ([.removeScope] ++ post)) (by simp))
    cases h1 : Ref.evalLetSeq n bs rs.frames.length (Ref.newFrame rs env).2 with
    | ok u rs2 =>
      rw [h1] at hU
      obtain ⟨s2, r2, m2, rel2, ext2⟩ := hU
      have ihb := hB body hbody hbl isFn _ gs1 (rb, gs2) hb s2 rs2 _ _ _ rel2
        (hseg1.moved m2 (c₁ := ra.1) (c₂ := rb.1) (post' := [.removeScope] ++ post) (by simp) rfl)
      exact Sim.seq r2 m2 ext2 ihb (by lenarith) (by lenarith)
    | err rs2 => rw [h1] at hU; exact Fails.mono hU (by lenarith)
    | timeout => trivial
    | brk l rs2 => rw [h1] at hU; exact hU.elim
    | cont l rs2 => rw [h1] at hU; exact hU.elim
  | _ => simp [Fv] at he

theorem vclaimN_succ {n : Nat} (hE : VClaimE n) (hN : VClaimN n) : VClaimN (n + 1) := by
  intro es hne hes isFn c oldtail gs r hc s rs env pre post hrel hseg
  match es, hne with
  | [e], _ =>
    rw [FvList] at hes
    simp only [Bool.and_eq_true] at hes
    rw [compileNewScope] at hc
    rw [Ref.evalBegin]
    exact hE e hes.1 isFn _ gs r hc s rs env pre post hrel hseg
  | e :: e' :: es', _ =>
    rw [FvList] at hes
    simp only [Bool.and_eq_true] at hes
    rw [compileNewScope] at hc
    · simp only [g_bind_ok, g_pure_ok] at hc
      obtain ⟨ra, gs1, ha, rb, gs2, hb, rfl⟩ := hc
      rw [Ref.evalBegin]
      · have ih := hE e hes.1 isFn _ gs (ra, gs1) ha s rs env pre ([.pop] ++ rb.1 ++ post) hrel
          (hseg.refocus (by simp))
        cases h1 : Ref.eval n e env rs with
        | ok v1 rs1 =>
          rw [h1] at ih
          obtain ⟨s1, r1, l1, rel1, ext1⟩ := ih
          obtain ⟨r2, m2⟩ := glue_pop hseg l1
          have ih2 := hN (e' :: es') (by simp) hes.2 isFn c oldtail gs1 (rb, gs2) hb _ rs1 env _ post (rel1.jmp _ _)
            (hseg.moved m2 (c₁ := ra.1 ++ [.pop]) (c₂ := rb.1) (post' := post) rfl (by simp))
          exact Sim.seq (r1.trans r2) m2 ext1 ih2 (by lenarith) (by lenarith)
        | err rs1 => rw [h1] at ih; exact Sim.prefix ih (fun _ _ hh => by cases hh) (by lenarith)
        | timeout => trivial
        | brk l rs1 => rw [h1] at ih; exact ih.elim
        | cont l rs1 => rw [h1] at ih; exact ih.elim
      · intro hh; cases hh
    · intro hh; cases hh

theorem vclaimL_succ {n : Nat} (hE : VClaimE n) (hL : VClaimL n) : VClaimL (n + 1) := by
  intro bs hbs isFn c gs r hc s rs env pre post hrel hseg
  match bs with
  | [] =>
    rw [compileBinds] at hc; simp only [g_pure_ok] at hc; subst hc
    rw [Ref.evalLetSeq]
    · exact ⟨s, Reach.refl s |>.mono (Nat.le_refl _) (by simp), Moved.refl s, hrel, FramesExt.refl rs⟩
    · omega
  | (x, e) :: bs' =>
    rw [FvBinds] at hbs
    simp only [Bool.and_eq_true] at hbs
    rw [compileBinds] at hc
    simp only [g_bind_ok, g_pure_ok] at hc
    obtain ⟨ra, gs1, ha, rb, gs2, hb, rfl⟩ := hc
    have hcode : (ra.1 ++ (if True then [Instr.popStackPutEnv x] else []) ++ rb.1)
        = ra.1 ++ [Instr.popStackPutEnv x] ++ rb.1 := by simp
    simp only [hcode] at hseg ⊢
    rw [Ref.evalLetSeq]
    have ih := hE e hbs.1 isFn _ gs (ra, gs1) ha s rs env pre ([.popStackPutEnv x] ++ rb.1 ++ post) hrel
      (hseg.refocus (by simp))
    cases h1 : Ref.eval n e env rs with
    | ok v1 rs1 =>
      rw [h1] at ih
      obtain ⟨s1, r1, l1, rel1, ext1⟩ := ih
      simp only
      have a2 : At s1 (pre ++ ra.1) (.popStackPutEnv x) (rb.1 ++ post) :=
        hseg.landed l1 (c₁ := ra.1) (by simp) rfl
      have hp := psp_step a2 l1.data rel1
      cases hdef : Ref.define rs1 env x v1 with
      | none =>
        rw [hdef] at hp
        simp only
        exact (Fails.of_reach r1 hp).mono (by lenarith)
      | some rs2 =>
        rw [hdef] at hp
        obtain ⟨r2, rel2, ext2⟩ := hp
        simp only
        have m2 : Moved (ra.1.length + 1) s ((s1.jmp (s1.pc + 1) s.data).bind env x v1) :=
          ⟨l1.fn, by show s1.pc + 1 = _; rw [l1.pc]; push_cast; omega, rfl⟩
        have ih2 := hL bs' hbs.2 isFn _ gs1 (rb, gs2) hb _ rs2 env _ post rel2
          (hseg.moved m2 (c₁ := ra.1 ++ [.popStackPutEnv x]) (c₂ := rb.1) (post' := post) rfl (by simp))
        cases h2 : Ref.evalLetSeq n bs' env rs2 with
        | ok u rs3 =>
          rw [h2] at ih2
          obtain ⟨s3, r3, m3, rel3, ext3⟩ := ih2
          exact ⟨s3, ((r1.trans r2).trans r3).mono (by lenarith) (by simp),
            ⟨m3.fn.trans m2.fn, by rw [m3.pc, m2.pc]; simp only [List.length_append, List.length_cons, List.length_nil]; push_cast; omega,
              m3.data.trans m2.data⟩, rel3, (ext1.trans ext2).trans ext3⟩
        | err rs3 => rw [h2] at ih2; exact (Fails.of_reach (r1.trans r2) ih2).mono (by lenarith)
        | timeout => trivial
        | brk l rs3 => rw [h2] at ih2; exact ih2.elim
        | cont l rs3 => rw [h2] at ih2; exact ih2.elim
    | err rs1 => rw [h1] at ih; exact Fails.mono ih (by lenarith)
    | timeout => trivial
    | brk l rs1 => rw [h1] at ih; exact ih.elim
    | cont l rs1 => rw [h1] at ih; exact ih.elim

theorem vclaimP_succ {n : Nat} (hE : VClaimE n) (hP : VClaimP n) : VClaimP (n + 1) := by
  intro bs hbs isFn c gs r hc s rs env pre post hrel hseg
  match bs with
  | [] =>
    rw [compileBinds] at hc; simp only [g_pure_ok] at hc; subst hc
    simp only [List.map_nil]
    rw [Ref.evalList]
    · exact ⟨s, Reach.refl s |>.mono (Nat.le_refl _) (by simp), rfl, by simp, by simp, hrel, FramesExt.refl rs⟩
    · omega
  | (x, e) :: bs' =>
    rw [FvBinds] at hbs
    simp only [Bool.and_eq_true] at hbs
    rw [compileBinds] at hc
    simp only [g_bind_ok, g_pure_ok] at hc
    obtain ⟨ra, gs1, ha, rb, gs2, hb, rfl⟩ := hc
    have hcode : (ra.1 ++ (if False then [Instr.popStackPutEnv x] else []) ++ rb.1) = ra.1 ++ rb.1 := by simp
    simp only [Bool.false_eq_true, hcode] at hseg ⊢
    simp only [List.map_cons]
    rw [Ref.evalList]
    have ih := hE e hbs.1 isFn _ gs (ra, gs1) ha s rs env pre (rb.1 ++ post) hrel (hseg.refocus (by simp))
    cases h1 : Ref.eval n e env rs with
    | ok v1 rs1 =>
      rw [h1] at ih
      obtain ⟨s1, r1, l1, rel1, ext1⟩ := ih
      simp only
      have ih2 := hP bs' hbs.2 isFn _ gs1 (rb, gs2) hb s1 rs1 env (pre ++ ra.1) post rel1
        (hseg.move l1.fn (by simp) (by rw [l1.pc, hseg.pc]; simp))
      cases h2 : Ref.evalList n (bs'.map (·.2)) env rs1 with
      | ok vs rs2 =>
        rw [h2] at ih2
        obtain ⟨s2, r2, hfn2, hpc2, hdata2, rel2, ext2⟩ := ih2
        refine ⟨s2, (r1.trans r2).mono (by lenarith) (by simp), hfn2.trans l1.fn, ?_, ?_, rel2, ext1.trans ext2⟩
        · rw [hpc2, l1.pc]; simp only [List.length_append]; push_cast; omega
        · rw [hdata2, l1.data]; simp
      | err rs2 => rw [h2] at ih2; exact (Fails.of_reach r1 ih2).mono (by lenarith)
      | timeout => trivial
      | brk l rs2 => rw [h2] at ih2; exact ih2.elim
      | cont l rs2 => rw [h2] at ih2; exact ih2.elim
    | err rs1 => rw [h1] at ih; exact Fails.mono ih (by lenarith)
    | timeout => trivial
    | brk l rs1 => rw [h1] at ih; exact ih.elim
    | cont l rs1 => rw [h1] at ih; exact ih.elim

theorem vclaimB_succ {n : Nat} (hE : VClaimE n) (hB : VClaimB n) : VClaimB (n + 1) := by
  intro es hne hes isFn c gs r hc s rs env pre post hrel hseg
  match es, hne with
  | [e], _ =>
    rw [FvList] at hes
    simp only [Bool.and_eq_true] at hes
    rw [compileBegin] at hc
    rw [Ref.evalBegin]
    exact hE e hes.1 isFn c gs r hc s rs env pre post hrel hseg
  | e :: e' :: es', _ =>
    rw [FvList] at hes
    simp only [Bool.and_eq_true] at hes
    rw [compileBegin] at hc
    · simp only [g_bind_ok, g_pure_ok] at hc
      obtain ⟨ra, gs1, ha, rb, gs2, hb, rfl⟩ := hc
      have hane : ra.1.isEmpty = false := by
        simpa [List.isEmpty_eq_false_iff] using compile_ne_nil_Fv hes.1 ha
      simp only [hane, Bool.false_eq_true, if_false] at hseg ⊢
      rw [Ref.evalBegin]
      · have ih := hE e hes.1 isFn _ gs (ra, gs1) ha s rs env pre ([.pop] ++ rb.1 ++ post) hrel
          (hseg.refocus (by simp))
        cases h1 : Ref.eval n e env rs with
        | ok v1 rs1 =>
          rw [h1] at ih
          obtain ⟨s1, r1, l1, rel1, ext1⟩ := ih
          obtain ⟨r2, m2⟩ := glue_pop hseg l1
          have ih2 := hB (e' :: es') (by simp) hes.2 isFn c gs1 (rb, gs2) hb _ rs1 env _ post (rel1.jmp _ _)
            (hseg.moved m2 (c₁ := ra.1 ++ [.pop]) (c₂ := rb.1) (post' := post) rfl (by simp))
          exact Sim.seq (r1.trans r2) m2 ext1 ih2 (by lenarith) (by lenarith)
        | err rs1 => rw [h1] at ih; exact Sim.prefix ih (fun _ _ hh => by cases hh) (by lenarith)
        | timeout => trivial
        | brk l rs1 => rw [h1] at ih; exact ih.elim
        | cont l rs1 => rw [h1] at ih; exact ih.elim
      · intro hh; cases hh
    · intro hh; cases hh

theorem vclaimC_succ {n : Nat} (hE : VClaimE n) (hC : VClaimC n) : VClaimC (n + 1) := by
  intro arms d harms hd isFn c gs r gs0 rd hc hcd s rs env pre post hrel hseg
  match arms with
  | [] =>
    rw [compileArms] at hc; simp only [g_pure_ok] at hc; subst hc
    rw [Ref.evalCond]
    simp only [asmCond] at hseg ⊢
    exact hE d hd isFn c gs0 rd hcd s rs env pre post hrel hseg
  | (p, b) :: arms' =>
    rw [FvArms] at harms
    simp only [Bool.and_eq_true] at harms
    rw [compileArms] at hc
    simp only [g_bind_ok, g_pure_ok] at hc
    obtain ⟨rest, gs1, hrest, rp, gs2, hp, rb, gs3, hb, rfl⟩ := hc
    rw [Ref.evalCond]
    simp only [asmCond] at hseg ⊢
    have ih := hE p harms.1.1 isFn _ gs1 (rp, gs2) hp s rs env pre _ hrel (hseg.refocus (c' := rp.1)
      (post' := [.branch false (rb.1.length + 2)] ++ rb.1 ++ [.jump ((asmCond rest rd.1.1).length + 1)]
        ++ asmCond rest rd.1.1 ++ post) (by simp))
    cases h1 : Ref.eval n p env rs with
    | ok v1 rs1 =>
      rw [h1] at ih
      obtain ⟨s1, r1, l1, rel1, ext1⟩ := ih
      simp only
      by_cases ht : truthy v1 = true
      · rw [if_pos ht]
        obtain ⟨r2, m2⟩ := glue_brn_fall hseg l1 ht
        have ih2 := hE b harms.1.2 isFn c gs2 (rb, gs3) hb _ rs1 env _ _ (rel1.jmp _ _)
          (hseg.moved m2 (c₁ := rp.1 ++ [.branch false (rb.1.length + 2)]) (c₂ := rb.1)
            (post' := [.jump ((asmCond rest rd.1.1).length + 1)] ++ asmCond rest rd.1.1 ++ post)
            (by simp) (by simp))
        exact Sim.cond_exit hseg (r1.trans r2) m2 ext1 ih2 (Nat.le_refl _)
      · rw [if_neg ht]
        obtain ⟨r2, m2⟩ := glue_brn_taken hseg l1 (by simpa using ht)
        have ih2 := hC arms' d harms.2 hd isFn c gs (rest, gs1) gs0 rd hrest hcd _ rs1 env _ post (rel1.jmp _ _)
          (hseg.moved m2 (c₁ := rp.1 ++ [.branch false (rb.1.length + 2)] ++ rb.1
              ++ [.jump ((asmCond rest rd.1.1).length + 1)]) (c₂ := asmCond rest rd.1.1) (post' := post)
            (by simp) (by lenarith))
        exact Sim.seq (r1.trans r2) m2 ext1 ih2 (by lenarith) (by lenarith)
    | err rs1 => rw [h1] at ih; exact Sim.prefix ih (fun _ _ hh => by cases hh) (by lenarith)
    | timeout => trivial
    | brk l rs1 => rw [h1] at ih; exact ih.elim
    | cont l rs1 => rw [h1] at ih; exact ih.elim

theorem vclaimS_succ {n : Nat} (hE : VClaimE n) (hS : VClaimS n) : VClaimS (n + 1) := by
  intro isOr es hes isFn c gs r hc s rs env pre post hrel hseg
  match es with
  | [] =>
    rw [compileSC] at hc; simp only [g_pure_ok] at hc; subst hc
    rw [Ref.evalAndOr]
    · simp only [asmSC] at hseg ⊢
      exact sim_push _ hrel hseg
    · omega
  | [e] =>
    rw [FvList] at hes
    simp only [Bool.and_eq_true] at hes
    rw [compileSC] at hc
    simp only [g_bind_ok, g_pure_ok] at hc
    obtain ⟨ra, gs1, ha, rfl⟩ := hc
    rw [Ref.evalAndOr]
    simp only [asmSC] at hseg ⊢
    exact hE e hes.1 isFn c gs (ra, gs1) ha s rs env pre post hrel hseg
  | e :: e' :: es' =>
    rw [FvList] at hes
    simp only [Bool.and_eq_true] at hes
    rw [compileSC] at hc
    · simp only [g_bind_ok, g_pure_ok] at hc
      obtain ⟨rest, gs1, hrest, ra, gs2, ha, rfl⟩ := hc
      have hlen := compileSC_length hrest
      obtain ⟨r0, rs0, hr0⟩ : ∃ r0 rs0, rest = r0 :: rs0 := by
        cases rest with
        | nil => simp at hlen
        | cons r0 rs0 => exact ⟨r0, rs0, rfl⟩
      have hasm : asmSC isOr (ra.1 :: rest)
          = ra.1 ++ [.dup, .branch isOr ((asmSC isOr rest).length + 2), .pop] ++ asmSC isOr rest := by
        rw [hr0]; simp only [asmSC]
      simp only [hasm] at hseg ⊢
      rw [Ref.evalAndOr]
      · have ih := hE e hes.1 isFn _ gs1 (ra, gs2) ha s rs env pre _ hrel (hseg.refocus (c' := ra.1)
          (post' := [.dup, .branch isOr ((asmSC isOr rest).length + 2), .pop] ++ asmSC isOr rest ++ post) (by simp))
        cases h1 : Ref.eval n e env rs with
        | ok v1 rs1 =>
          rw [h1] at ih
          obtain ⟨s1, r1, l1, rel1, ext1⟩ := ih
          simp only
          by_cases ht : (truthy v1 == isOr) = true
          · rw [if_pos ht]
            obtain ⟨r2, l2⟩ := glue_sc_stop hseg l1 (by simpa using ht)
            exact ⟨_, (r1.trans r2).mono (by lenarith) (by simp), l2, rel1.jmp _ _, ext1⟩
          · rw [if_neg ht]
            obtain ⟨r2, m2⟩ := glue_sc_go hseg l1 (by simpa using ht)
            have ih2 := hS isOr (e' :: es') hes.2 isFn c gs (rest, gs1) hrest _ rs1 env _ post (rel1.jmp _ _)
              (hseg.moved m2 (c₁ := ra.1 ++ [.dup, .branch isOr ((asmSC isOr rest).length + 2), .pop])
                (c₂ := asmSC isOr rest) (post' := post) (by simp) (by simp))
            exact Sim.seq (r1.trans r2) m2 ext1 ih2 (by lenarith) (by lenarith)
        | err rs1 => rw [h1] at ih; exact Sim.prefix ih (fun _ _ hh => by cases hh) (by lenarith)
        | timeout => trivial
        | brk l rs1 => rw [h1] at ih; exact ih.elim
        | cont l rs1 => rw [h1] at ih; exact ih.elim
      · intro hh; cases hh
    · intro hh; cases hh

theorem vclaims_zero : VClaimE 0 ∧ VClaimB 0 ∧ VClaimC 0 ∧ VClaimS 0 ∧ VClaimN 0 ∧ VClaimL 0 ∧ VClaimP 0 := by
  refine ⟨?_, ?_, ?_, ?_, ?_, ?_, ?_⟩
  · intro e _ isFn c gs r _ s rs env pre post _ _
    rw [Ref.eval]; trivial
  · intro es _ _ isFn c gs r _ s rs env pre post _ _
    rw [Ref.evalBegin]; trivial
  · intro arms d _ _ isFn c gs r gs0 rd _ _ s rs env pre post _ _
    rw [Ref.evalCond]; trivial
  · intro isOr es _ isFn c gs r _ s rs env pre post _ _
    rw [Ref.evalAndOr]; trivial
  · intro es _ _ isFn c ot gs r _ s rs env pre post _ _
    rw [Ref.evalBegin]; trivial
  · intro bs _ isFn c gs r _ s rs env pre post _ _
    rw [Ref.evalLetSeq]; trivial
  · intro bs _ isFn c gs r _ s rs env pre post _ _
    rw [Ref.evalList]; trivial

theorem vclaims : ∀ n, VClaimE n ∧ VClaimB n ∧ VClaimC n ∧ VClaimS n ∧ VClaimN n ∧ VClaimL n ∧ VClaimP n
  | 0 => vclaims_zero
  | n + 1 => by
    obtain ⟨hE, hB, hC, hS, hN, hL, hP⟩ := vclaims n
    exact ⟨vclaimE_succ hE hB hC hS hN hL hP, vclaimB_succ hE hB, vclaimC_succ hE hC, vclaimS_succ hE hS,
      vclaimN_succ hE hN, vclaimL_succ hE hL, vclaimP_succ hE hP⟩

/-- **Segment lemma for Fv** (literals, symbols, `def`, `set`, `begin`, `cond`, `and`, `or`).
In related states (`Rel s rs env`: same bindings scope by scope, linear stack = static chain of
`env`, same heap and trace), with the VM on the first instruction of the code `compile`
produced for `e`, embedded anywhere: if the reference evaluator yields a value, the VM runs the
code to its end within `code.length` instructions, pushes that value, and the states are related
again (the effects on the scopes are the same); if it yields an error, the VM run ends in a
script error with the same trace; it never yields `break`/`continue`. -/
theorem segment_Fv (e : Expr) (he : Fv e = true) (isFn : Nat → Bool) (c : Ctx) (gs : GS)
    (code : List Instr) (t : Bool) (gs' : GS) (hc : (compile isFn c e).run gs = .ok ((code, t), gs'))
    (s : St) (rs : Ref.St) (env : Nat) (pre post : List Instr) (hrel : Rel s rs env) (hseg : Seg s pre code post)
    (n : Nat) : Sim code s rs env (Ref.eval n e env rs) :=
  (vclaims n).1 e he isFn c gs ((code, t), gs') hc s rs env pre post hrel hseg

theorem segment_Fv_begin (es : List Expr) (hne : es ≠ []) (he : FvList es = true) (isFn : Nat → Bool) (c : Ctx) (gs : GS)
    (code : List Instr) (t : Bool) (gs' : GS) (hc : (compileBegin isFn c es).run gs = .ok ((code, t), gs'))
    (s : St) (rs : Ref.St) (env : Nat) (pre post : List Instr) (hrel : Rel s rs env) (hseg : Seg s pre code post)
    (n : Nat) : Sim code s rs env (Ref.evalBegin n es env rs) :=
  (vclaims n).2.1 es hne he isFn c gs ((code, t), gs') hc s rs env pre post hrel hseg

end ZygoVerif.Sim
