/-
Histories on shared records (`Model/ToGoHist.lean`): what a conversion in the middle of a history
can depend on.

* `step_store`, `run_store`            only `hset` changes the script's records; no conversion, no
                                       method call does (whatever the attached structs are)
* `stepArg_ans_of_store`               a record passed to a Go method: the answer is a function of
                                       the records' CURRENT fields alone — not of the heap, not of
                                       any struct attached by an earlier conversion
* `stepTogo_fresh_ans_of_store`, `stepSelf_fresh_ans_of_store`
                                       the same for `(togo r)` / a receiver that has no struct attached
* `arg_reflects_current_record`        for ALL histories: after any sequence of steps, passing `r`
                                       to a Go method answers exactly like the first conversion of a
                                       never-converted record with the fields `r` has now
* `refill_writes_current_values`       `(togo r)` on a record with a struct attached: every pair of
                                       the record as it is now is converted and written (the field
                                       loop of `Props/C10.togo_fills_every_field_at` runs on the current
                                       pairs, starting from the attached struct)
-/
import ZygoVerif.Model.ToGoHist
namespace ZygoVerif.ToGoHistProofs
open ZygoVerif.ToGo ZygoVerif.ToGoHist

theorem record_of_store (h h' : HSt) (hs : h.store = h'.store) (r : Nat) : h.record r = h'.record r := by
  simp [HSt.record, hs]

/-! ### only `hset` changes a record -/

theorem convertFresh_store (w : World) (fuel : Nat) (h : HSt) (want : Option String) (x : Sx) (a : Bool)
    (f : Fresh) (hf : convertFresh w fuel h want x a = .ok f) : f.st.store = h.store := by
  simp only [convertFresh] at hf
  split at hf
  · simp at hf
  · simp only [Except.ok.injEq] at hf
    subst hf; rfl

theorem convertRefill_store (w : World) (fuel : Nat) (h : HSt) (o : Nat) (x : Sx) (h1 : HSt)
    (hr : convertRefill w fuel h o x = .ok h1) : h1.store = h.store := by
  simp only [convertRefill] at hr
  split at hr
  · split at hr
    · split at hr
      · simp only [Except.ok.injEq] at hr
        subst hr; rfl
      · simp at hr
    · simp at hr
  · simp at hr

theorem stepTogo_store (w : World) (fuel : Nat) (h : HSt) (r : Nat) : (stepTogo w fuel h r).2.store = h.store := by
  simp only [stepTogo]
  split
  · split
    · rename_i h1 hr
      simp [convertRefill_store w fuel h _ _ h1 hr]
    · rfl
  · split
    · rename_i f hf
      exact convertFresh_store w fuel h _ _ _ f hf
    · rfl

theorem stepArg_store (w : World) (fuel : Nat) (h : HSt) (r : Nat) (m : Bool) : (stepArg w fuel h r m).2.store = h.store := by
  simp only [stepArg]
  split
  · rename_i f hf
    simp [convertFresh_store w fuel h _ _ _ f hf]
  · rfl

theorem stepSelf_store (w : World) (fuel : Nat) (h : HSt) (r : Nat) : (stepSelf w fuel h r).2.store = h.store := by
  simp only [stepSelf]
  split
  · rfl
  · split
    · rename_i f hf
      exact convertFresh_store w fuel h _ _ _ f hf
    · rfl

/-- the records after one step: an `hset` updates its record, every other step leaves all alone -/
def storeStep (s : Store) : Step → Store
  | .hset r k v => (hset s r k v).getD s
  | _ => s

theorem step_store (w : World) (fuel : Nat) (h : HSt) (s : Step) : (step w fuel h s).2.store = storeStep h.store s := by
  cases s with
  | togo r => exact stepTogo_store w fuel h r
  | hset r k v =>
    simp only [step, storeStep]
    cases hset h.store r k v <;> rfl
  | echo r => exact stepArg_store w fuel h r false
  | touch r => exact stepArg_store w fuel h r true
  | read r => rfl
  | self r => exact stepSelf_store w fuel h r

/-- the steps of a history that were executed (it ends at the first failing step) -/
def executed (w : World) (fuel : Nat) : HSt → List Step → List Step
  | _, [] => []
  | h, s :: rest =>
    let (a, h1) := step w fuel h s
    if a.failed then [s] else s :: executed w fuel h1 rest

/-- `run_store`: after ANY history the script's records are what the executed `hset`s made them —
conversions, method calls and everything they attach do not enter. -/
theorem run_store (w : World) (fuel : Nat) : ∀ (steps : List Step) (h : HSt),
    (run w fuel h steps).2.store = (executed w fuel h steps).foldl storeStep h.store := by
  intro steps
  induction steps with
  | nil => intro h; rfl
  | cons s rest ih =>
    intro h
    simp only [run, executed]
    cases hs : step w fuel h s with
    | mk a h1 =>
      have hst : h1.store = storeStep h.store s := by
        have := step_store w fuel h s
        rw [hs] at this; exact this
      by_cases hf : a.failed = true
      · simp [hf, hst]
      · simp only [hf, if_false, Bool.false_eq_true]
        rw [List.foldl_cons, ← hst]
        exact ih h1

/-! ### conversions answer from the records' current fields -/

/-- `stepArg_ans_of_store`: two states with the same records — whatever their heaps and attached
structs — answer an argument conversion (identity method or mutating method) identically. -/
theorem stepArg_ans_of_store (w : World) (fuel : Nat) (h h' : HSt) (hs : h.store = h'.store) (r : Nat) (m : Bool) :
    (stepArg w fuel h r m).1 = (stepArg w fuel h' r m).1 := by
  simp only [stepArg, convertFresh, record_of_store h h' hs r]
  cases toGoTop w fuel (wantOf w (h'.record r)) (h'.record r) with
  | error e => rfl
  | ok p => rfl

theorem stepTogo_fresh_ans_of_store (w : World) (fuel : Nat) (h h' : HSt) (hs : h.store = h'.store) (r : Nat)
    (hn : h.shadowOf r = none) (hn' : h'.shadowOf r = none) :
    (stepTogo w fuel h r).1 = (stepTogo w fuel h' r).1 := by
  simp only [stepTogo, hn, hn', convertFresh, record_of_store h h' hs r]
  cases toGoTop w fuel none (h'.record r) with
  | error e => rfl
  | ok p => rfl

theorem stepSelf_fresh_ans_of_store (w : World) (fuel : Nat) (h h' : HSt) (hs : h.store = h'.store) (r : Nat)
    (hn : h.shadowOf r = none) (hn' : h'.shadowOf r = none) :
    (stepSelf w fuel h r).1 = (stepSelf w fuel h' r).1 := by
  simp only [stepSelf, hn, hn', convertFresh, record_of_store h h' hs r]
  cases toGoTop w fuel none (h'.record r) with
  | error e => rfl
  | ok p => rfl

/-- a state in which nothing was ever converted: the given records, no Go object -/
def pristine (s : Store) : HSt := ⟨s, [], []⟩

/-- `arg_reflects_current_record` (no stale cache), for ALL histories: run any steps from any state;
then passing record `r` to a Go method answers exactly as it would in a world where the records
have their present fields and nothing was ever converted. -/
theorem arg_reflects_current_record (w : World) (fuel : Nat) (h0 : HSt) (pre : List Step) (r : Nat) (m : Bool) :
    (stepArg w fuel (run w fuel h0 pre).2 r m).1 =
      (stepArg w fuel (pristine ((executed w fuel h0 pre).foldl storeStep h0.store)) r m).1 :=
  stepArg_ans_of_store w fuel _ _ (run_store w fuel pre h0) r m

/-- the same for `(togo r)` when `r` has no struct attached after the history -/
theorem togo_reflects_current_record_unattached (w : World) (fuel : Nat) (h0 : HSt) (pre : List Step) (r : Nat)
    (hn : (run w fuel h0 pre).2.shadowOf r = none) :
    (stepTogo w fuel (run w fuel h0 pre).2 r).1 =
      (stepTogo w fuel (pristine ((executed w fuel h0 pre).foldl storeStep h0.store)) r).1 :=
  stepTogo_fresh_ans_of_store w fuel _ _ (run_store w fuel pre h0) r hn rfl

/-! ### `(togo r)` on a record that has its struct attached -/

/-- `refill_writes_current_values`: the struct attached to `r` is filled again by the field loop
over the pairs `r` has NOW, starting from what the struct holds; the result is written back to the
same object. (What the loop guarantees for each pair: `C10.togo_fills_every_field_at`.) -/
theorem refill_writes_current_values (w : World) (fuel : Nat) (h h1 : HSt) (o : Nat) (id : Nat) (tn : String)
    (kvs : List (Key × Sx)) (hr : convertRefill w fuel h o (.hash id tn kvs) = .ok h1) :
    ∃ d cur sv st1, w.lookupReg tn = some d ∧ h.heap[o]? = some cur ∧
      fillFields (conv w fuel) (fieldTable w 8 d.fields 0 []) ⟨h.heap, []⟩ cur kvs = .ok (sv, st1) ∧
      h1.heap = st1.heap.set o sv := by
  simp only [convertRefill] at hr
  split at hr
  · rename_i d cur hd hc
    split at hr
    · rename_i sv st1 hfill
      simp only [Except.ok.injEq] at hr
      subst hr
      exact ⟨d, cur, sv, st1, hd, hc, hfill, rfl⟩
    · simp at hr
  · simp at hr

end ZygoVerif.ToGoHistProofs
