/-
C02, execution half — F2: the expression step and the induction on the reference fuel.
-/
import ZygoVerif.Proofs.SimF2Forms
import ZygoVerif.Proofs.SimF2Tail
import ZygoVerif.Proofs.SimF2Lazy
import ZygoVerif.Proofs.SimF2Apply
set_option linter.unusedSimpArgs false
set_option linter.unusedVariables false
namespace ZygoVerif.Sim
open ZygoVerif.Core ZygoVerif.VM

/-! ## The expression step, the induction -/

theorem fclaimE_succ {n : Nat} (hE : FClaimE n) (hB : FClaimB n) (hC : FClaimC n) (hA : FClaimA n) (hU : FClaimU n)
    (hS : FClaimS n) (hN : FClaimN n) (hL : FClaimL n) (hP : FClaimP n) (hV : FClaimV n) (hF : FClaimF n)
    (hG : ∀ k, n = k + 1 → ∀ name, hoB name → FClaimH k name) : FClaimE (n + 1) := by
  intro fnOk self e he isFn c gs r hc hfn m s rs env pre post hrel hgen hseg
  cases e with
  | int x =>
    rw [compile] at hc; simp only [g_pure_ok] at hc; subst hc
    rw [Ref.eval]; exact simF_push _ (fun _ _ _ => rfl) hrel hseg
  | bool x =>
    rw [compile] at hc; simp only [g_pure_ok] at hc; subst hc
    rw [Ref.eval]; exact simF_push _ (fun _ _ _ => rfl) hrel hseg
  | str x =>
    rw [compile] at hc; simp only [g_pure_ok] at hc; subst hc
    rw [Ref.eval]; exact simF_push _ (fun _ _ _ => rfl) hrel hseg
  | nilLit =>
    rw [compile] at hc; simp only [g_pure_ok] at hc; subst hc
    rw [Ref.eval]; exact simF_push _ (fun _ _ _ => rfl) hrel hseg
  | sym x =>
    rw [compile] at hc; simp only [g_pure_ok] at hc; subst hc
    exact simF_sym x n (by simpa [Ff] using he) hrel hseg
  | begin_ es =>
    rw [Ff] at he
    cases es with
    | nil =>
      rw [compile] at hc; simp only [g_pure_ok] at hc; subst hc
      rw [Ref.eval]
      cases n with
      | zero => rw [Ref.evalBegin]; trivial
      | succ k =>
        rw [Ref.evalBegin]
        · exact simF_push _ (fun _ _ _ => rfl) hrel hseg
        · omega
    | cons e0 es0 =>
      rw [compile] at hc
      · rw [Ref.eval]
        exact hB fnOk self (e0 :: es0) (by simp) he isFn c gs r hc hfn m s rs env pre post hrel hgen hseg
      · intro hh; cases hh
  | def_ x e1 =>
    rw [Ff] at he
    simp only [Bool.and_eq_true] at he
    rw [compile] at hc
    simp only [g_bind_ok, g_pure_ok] at hc
    obtain ⟨ra, gs1, ha, rfl⟩ := hc
    rw [Ref.eval]
    have ih := hE fnOk self e1 he.2 isFn _ gs (ra, gs1) ha hfn m s rs env pre ([.dup, .popStackPutEnv x] ++ post) hrel
      hgen (hseg.refocus (by simp))
    cases h1 : Ref.eval n e1 env rs with
    | ok v rs1 =>
      rw [h1] at ih
      obtain ⟨s1, m1, w1, r1, l1, hv1, rel1, hm1, ext1, fr1, hcl1⟩ := ih
      subst hv1
      exact simF_def_tail hseg he.1 r1 l1 rel1 hm1 ext1 fr1 hcl1
    | err rs1 => rw [h1] at ih; exact SimF.prefix ih (fun _ _ hh => by cases hh)
    | timeout => trivial
    | brk l rs1 => rw [h1] at ih; exact ih.elim
    | cont l rs1 => rw [h1] at ih; exact ih.elim
  | set_ x e1 =>
    rw [Ff] at he
    simp only [Bool.and_eq_true] at he
    rw [compile] at hc
    simp only [g_bind_ok, g_pure_ok] at hc
    obtain ⟨ra, gs1, ha, rfl⟩ := hc
    rw [Ref.eval]
    have ih := hE fnOk self e1 he.2 isFn _ gs (ra, gs1) ha hfn m s rs env pre ([.dup, .update x] ++ post) hrel
      hgen (hseg.refocus (by simp))
    cases h1 : Ref.eval n e1 env rs with
    | ok v rs1 =>
      rw [h1] at ih
      obtain ⟨s1, m1, w1, r1, l1, hv1, rel1, hm1, ext1, fr1, hcl1⟩ := ih
      subst hv1
      exact simF_set_tail hseg he.1 r1 l1 rel1 hm1 ext1 fr1 hcl1
    | err rs1 => rw [h1] at ih; exact SimF.prefix ih (fun _ _ hh => by cases hh)
    | timeout => trivial
    | brk l rs1 => rw [h1] at ih; exact ih.elim
    | cont l rs1 => rw [h1] at ih; exact ih.elim
  | cond arms d =>
    rw [Ff] at he
    simp only [Bool.and_eq_true] at he
    rw [compile] at hc
    simp only [g_bind_ok, g_pure_ok] at hc
    obtain ⟨rd, gs1, hd, as, gs2, has, rfl⟩ := hc
    have hk1 := compile_keep_Ff he.2 hd hfn
    have hk2 := compileArms_keep_Ff he.1 has hfn
    rw [Ref.eval]
    exact hC fnOk self arms d he.1 he.2 isFn c gs1 (as, gs2) gs (rd, gs1) has hd hfn m s rs env pre post hrel
      (fun h => (hgen h).rest hk1.1) (fun h => (hgen h).first hk2.1) hseg
  | and_ es =>
    rw [Ff] at he
    rw [compile] at hc
    simp only [g_bind_ok, g_pure_ok] at hc
    obtain ⟨cs, gs1, hcs, rfl⟩ := hc
    rw [Ref.eval]
    exact hS fnOk self false es he isFn c gs (cs, gs1) hcs hfn m s rs env pre post hrel hgen hseg
  | or_ es =>
    rw [Ff] at he
    rw [compile] at hc
    simp only [g_bind_ok, g_pure_ok] at hc
    obtain ⟨cs, gs1, hcs, rfl⟩ := hc
    rw [Ref.eval]
    exact hS fnOk self true es he isFn c gs (cs, gs1) hcs hfn m s rs env pre post hrel hgen hseg
  | newScope es =>
    rw [Ff] at he
    simp only [Bool.and_eq_true, Bool.not_eq_true', List.isEmpty_eq_false_iff] at he
    cases es with
    | nil => exact absurd rfl he.1
    | cons e0 es0 =>
      rw [compile] at hc
      · simp only [g_bind_ok, g_pure_ok] at hc
        obtain ⟨ra, gs1, ha, rfl⟩ := hc
        rw [Ref.eval]
        show SimF _ m s rs env (Ref.evalBegin n (e0 :: es0) rs.frames.length (Ref.newFrame rs env).2)
        exact SimF.scoped hseg hrel (hN fnOk self (e0 :: es0) he.1 he.2 isFn _ _ gs (ra, gs1) ha hfn m _ _ _ _ _
          hrel.pushScope (fun h => (hgen h).mono (FnsKeep.of_fns_eq rfl)) hseg.inner)
      · intro hh; cases hh
  | let_ seq bs body =>
    rw [Ff] at he
    simp only [Bool.and_eq_true, Bool.not_eq_true', List.isEmpty_eq_false_iff] at he
    obtain ⟨⟨⟨hseq, hbody⟩, hbs⟩, hbl⟩ := he
    cases seq
    · exact fclaimE_letpar hB hP isFn c gs r hc m s rs env pre post hrel hgen hseg hfn
        (by simpa using hseq) hbody hbs hbl
    rw [compile] at hc
    simp only [g_bind_ok, g_pure_ok] at hc
    obtain ⟨ra, gs1, ha, rb, gs2, hb, rfl⟩ := hc
    have hk1 := compileBinds_keep_Ff hbs ha hfn
    have hk2 := compileBegin_keep_Ff hbody hbl hb hfn
    have hcode : ([Instr.addScope] ++ ra.1 ++ (if True then [] else (List.map (fun p => Instr.popStackPutEnv p.fst) bs).reverse)
        ++ rb.1 ++ [Instr.removeScope]) = [Instr.addScope] ++ (ra.1 ++ rb.1) ++ [Instr.removeScope] := by simp
    simp only [hcode] at hseg hgen ⊢
    rw [Ref.eval]
    show SimF _ m s rs env (if true = true then
        (match Ref.evalLetSeq n bs rs.frames.length (Ref.newFrame rs env).2 with
         | .ok _ s => Ref.evalBegin n body rs.frames.length s
         | .err s => .err s | .brk l s => .brk l s | .cont l s => .cont l s | .timeout => .timeout)
      else _)
    rw [if_pos rfl]
    refine SimF.scoped hseg hrel ?_
    have hseg1 := hseg.inner
    have hUl := hL fnOk self bs hbs isFn _ gs (ra, gs1) ha hfn m _ _ _ _ _ hrel.pushScope
      (fun h => ((hgen h).first hk2.1).mono (FnsKeep.of_fns_eq rfl))
      (hseg1.refocus (c' := ra.1) (post' := rb.1 ++ ([.removeScope] ++ post)) (by simp))
    cases h1 : Ref.evalLetSeq n bs rs.frames.length (Ref.newFrame rs env).2 with
    | ok u rs2 =>
      rw [h1] at hUl
      obtain ⟨s2, m2, r2, mv2, rel2, hm2, ext2, fr2⟩ := hUl
      have ihb := hB fnOk self body hbody hbl isFn _ gs1 (rb, gs2) hb hfn m2 s2 rs2 _ _ _ rel2
        (fun h => (((hgen h).rest hk1.1).mono (s' := s.pushScope) (FnsKeep.of_fns_eq rfl)).frame fr2.toFrame)
        (hseg1.moved mv2 (c₁ := ra.1) (c₂ := rb.1) (post' := [.removeScope] ++ post) (by simp) rfl)
      exact SimF.seq r2 mv2 hm2 ext2 fr2 ihb (by lenarith)
    | err rs2 => rw [h1] at hUl; exact hUl
    | timeout => trivial
    | brk l rs2 => rw [h1] at hUl; exact hUl.elim
    | cont l rs2 => rw [h1] at hUl; exact hUl.elim
  | arr es =>
    rw [Ff] at he
    rw [compile] at hc
    simp only [g_bind_ok, g_pure_ok] at hc
    obtain ⟨ra, gs1, ha, rfl⟩ := hc
    rw [Ref.eval]
    have ih := hV fnOk self es he isFn _ gs (ra, gs1) ha hfn m s rs env pre ([.callArr es.length] ++ post) hrel
      hgen (hseg.refocus (by simp))
    cases h1 : Ref.evalList n es env rs with
    | ok vs' rs1 =>
      rw [h1] at ih
      obtain ⟨s1, m1, vs, r1, hfn1, hpc1, hd1, hvs, rel1, hm1, ext1, fr1, hclvs⟩ := ih
      have hlen : es.length = vs.length := by
        rw [← ref_evalList_length _ _ _ _ _ _ h1, hvs, List.length_map]
      simp only
      rw [hvs]
      exact simF_arr_tail hseg hlen r1 hfn1 hpc1 hd1 rel1 hm1 ext1 fr1 hclvs
    | err rs1 => rw [h1] at ih; exact ih
    | timeout => trivial
    | brk l rs1 => rw [h1] at ih; exact ih.elim
    | cont l rs1 => rw [h1] at ih; exact ih.elim
  | call f args =>
    cases f with
    | sym h =>
      rw [Ff] at he
      simp only [Bool.and_eq_true] at he
      rw [compile] at hc
      have hne := ff_call_ne hfn he.1.1.1 he.1.1.2 he.1.2
      simp only [hne, Bool.and_false, Bool.false_eq_true, if_false, g_pure_ok] at hc
      subst hc
      have hok : okSym h = true := by
        have := he.1.2; unfold okHead at this; simp only [Bool.and_eq_true] at this; exact this.1
      cases n with
      | zero =>
        rw [Ref.eval, Ref.eval]; trivial
      | succ k => exact simF_call hA hU (hG k rfl) hok he.2 hrel hseg
    | _ =>
      rw [ff_call_nonsym (fun _ hh => by cases hh)] at he
      simp only [Bool.and_eq_true] at he
      rw [compile_call_nonsym isFn c args gs (fun _ hh => by cases hh)] at hc
      injection hc with hc; subst hc
      cases n with
      | zero => rw [Ref.eval, Ref.eval]; trivial
      | succ k => exact simF_callE hE hA hU (hG k rfl) he.1 he.2 hrel hseg
  | fn ps rest body =>
    have hfo : fnOk = true := by
      rw [Ff] at he
      simp only [Bool.and_eq_true] at he
      exact he.1.1.1.1.1
    subst hfo
    exact simF_fn ps rest body he isFn c gs r hc hrel (hgen rfl) hseg
  | defn name ps rest body =>
    have hfo : fnOk = true := by
      rw [Ff] at he
      simp only [Bool.and_eq_true] at he
      exact he.1.1.1.1.1.1.1
    subst hfo
    exact simF_defn name ps rest body he isFn c gs r hc hrel (hgen rfl) hseg
  | for_ label init test incr body =>
    rw [Ff] at he
    simp only [Bool.and_eq_true] at he
    exact fclaimE_for hE hF he.1.1.1 he.1.1.2 he.1.2 he.2 isFn c gs r hc hfn m s rs env pre post hrel hgen hseg
  | break_ _ | continue_ _ | assign _ _ | bad _ => simp [Ff] at he

theorem fclaims_zero : FClaimE 0 ∧ FClaimB 0 ∧ FClaimC 0 ∧ FClaimA 0 ∧ FClaimU 0 ∧ FClaimS 0 ∧ FClaimN 0 ∧ FClaimL 0
    ∧ FClaimP 0 ∧ FClaimV 0 ∧ FClaimF 0 := by
  refine ⟨?_, ?_, ?_, ?_, ?_, ?_, ?_, ?_, ?_, ?_, ?_⟩
  · intro fnOk self e he isFn c gs r hc hfn m s rs env pre post hrel hgen hseg
    rw [Ref.eval]; trivial
  · intro fnOk self es hne hes isFn c gs r hc hfn m s rs env pre post hrel hgen hseg
    rw [Ref.evalBegin]; trivial
  · intro fnOk self arms d harms hd isFn c gs r gs0 rd hc hcd hfn m s rs env pre post hrel hgen hgend hseg
    rw [Ref.evalCond]; trivial
  · intro args hargs fo lazyAt hfo i m s rs env hrel
    rw [Ref.evalArgs]; trivial
  · intro m s₁ rs₁ env vid c vs D f₀ hrel hg hc hd hvs hlen
    rw [Ref.applyFn]; trivial
  · intro fnOk self isOr es hes isFn c gs r hc hfn m s rs env pre post hrel hgen hseg
    rw [Ref.evalAndOr]; trivial
  · intro fnOk self es hne hes isFn c oldtail gs r hc hfn m s rs env pre post hrel hgen hseg
    rw [Ref.evalBegin]; trivial
  · intro fnOk self bs hbs isFn c gs r hc hfn m s rs env pre post hrel hgen hseg
    rw [Ref.evalLetSeq]; trivial
  · intro fnOk self bs hbs isFn c gs r hc hfn m s rs env pre post hrel hgen hseg
    rw [Ref.evalList]; trivial
  · intro fnOk self es hes isFn c gs r hc hfn m s rs env pre post hrel hgen hseg
    rw [Ref.evalList]; trivial
  · intro fnOk self label test incr body htest hincr hbody isFn c gb rb g2 gt rt g4 gi ri g5 hcb hct hci hfn
      L ci pre post m σ rs fr D hin hpc hd hrel hgen
    rw [Ref.loop]; trivial

theorem fclaims : ∀ n, FClaimE n ∧ FClaimB n ∧ FClaimC n ∧ FClaimA n ∧ FClaimU n ∧ FClaimS n ∧ FClaimN n ∧ FClaimL n
    ∧ FClaimP n ∧ FClaimV n ∧ FClaimF n ∧ TClaimV n ∧ TClaimE n ∧ TClaimB n ∧ TClaimC n ∧ TClaimN n
    ∧ XClaimE n ∧ XClaimB n ∧ XClaimC n ∧ XClaimN n ∧ XClaimF n ∧ (∀ j, j < n → FClaimE j ∧ FClaimU j)
  | 0 => by
    obtain ⟨hE, hB, hC, hA, hU, hS, hN, hL, hP, hV, hF⟩ := fclaims_zero
    obtain ⟨tV, tE, tB, tC, tN⟩ := tclaims_zero
    obtain ⟨xE, xB, xC, xN, xF⟩ := xclaims_zero
    exact ⟨hE, hB, hC, hA, hU, hS, hN, hL, hP, hV, hF, tV, tE, tB, tC, tN, xE, xB, xC, xN, xF, fun j hj => absurd hj (Nat.not_lt_zero j)⟩
  | n + 1 => by
    obtain ⟨hE, hB, hC, hA, hU, hS, hN, hL, hP, hV, hF, tV, tE, tB, tC, tN, xE, xB, xC, xN, xF, hlow⟩ := fclaims n
    -- a call of `force`, `apply`, `map` at this fuel runs thunks and closure bodies with less fuel
    have hG : ∀ k, n = k + 1 → ∀ name, hoB name → FClaimH k name := fun k hk => by
      subst hk; exact fclaimH hlow hA
    have hE1 := fclaimE_succ hE hB hC hA hU hS hN hL hP hV hF hG
    have xE1 := xclaimE_succ hE1 hE hL hP xE xB xC xN xF
    exact ⟨hE1, fclaimB_succ hE hB, fclaimC_succ hE hC, fclaimA_succ hE hA,
      fclaimU_succ tB, fclaimS_succ hE hS, fclaimN_succ hE hN, fclaimL_succ hE hL, fclaimP_succ hE hP, fclaimV_succ hE hV,
      fclaimF_succ hE hB hF, tclaimV_succ hE tV, tclaimE_succ hE1 xE1 tV hA hU hG hL hP tB tC tN, tclaimB_succ hE xE tE tB,
      tclaimC_succ hE tE tC, tclaimN_succ hE xE tE tN, xE1, xclaimB_succ xE xB, xclaimC_succ hE xE xC,
      xclaimN_succ xE xN, xclaimF_succ hE xB xF,
      fun j hj => by
        rcases Nat.lt_succ_iff_lt_or_eq.mp hj with h | h
        · exact hlow j h
        · subst h; exact ⟨hE, hU⟩⟩

/-- **Segment lemma for F2 expressions.** -/
theorem segment_Ff (fnOk : Bool) (self : String) (e : Expr) (he : Ff fnOk self e = true) (isFn : Nat → Bool) (c : Ctx)
    (hfn : FnameOk self c) (gs : GS) (r : (List Instr × Bool) × GS)
    (hc : (compile isFn c e).run gs = .ok r) (m : Nat → Nat) (s : St) (rs : Ref.St) (env : Nat) (pre post : List Instr)
    (hrel : RelF m s rs env) (hgen : fnOk = true → GenOk gs r.2 s) (hseg : Seg s pre r.1.1 post) (n : Nat) :
    SimF r.1.1 m s rs env (Ref.eval n e env rs) :=
  (fclaims n).1 fnOk self e he isFn c gs r hc hfn m s rs env pre post hrel hgen hseg

/-- … and for statement lists (a program text, a function body) -/
theorem segment_Ff_begin (fnOk : Bool) (self : String) (es : List Expr) (hne : es ≠ []) (he : FfList fnOk self es = true)
    (isFn : Nat → Bool) (c : Ctx) (hfn : FnameOk self c) (gs : GS) (r : (List Instr × Bool) × GS)
    (hc : (compileBegin isFn c es).run gs = .ok r) (m : Nat → Nat) (s : St) (rs : Ref.St) (env : Nat)
    (pre post : List Instr) (hrel : RelF m s rs env) (hgen : fnOk = true → GenOk gs r.2 s) (hseg : Seg s pre r.1.1 post)
    (n : Nat) : SimF r.1.1 m s rs env (Ref.evalBegin n es env rs) :=
  (fclaims n).2.1 fnOk self es hne he isFn c gs r hc hfn m s rs env pre post hrel hgen hseg

end ZygoVerif.Sim
