/-
C02, execution half — Stage D, second half: the call machinery of the VM model as state
transformers (`builtin`, `CallUserFunction`, `RetInstr`, `CallFunction` of a helper function,
`restoreControlState` after a balanced nested run).
-/
import ZygoVerif.Proofs.SimCallEnv
import ZygoVerif.Proofs.SimF0cTop
set_option linter.unusedSimpArgs false
namespace ZygoVerif.Sim
open ZygoVerif.Core ZygoVerif.VM

/-! ## First-order builtins -/

/-- what a first-order builtin does to the VM state and what it returns -/
def foResult (name : String) (args : List Val) (s : St) : Except Fault Val × St :=
  if name = "trace" then
    (.ok (args.headD .nil), { s with trace := s.trace ++ [pr s.heap (args.headD .nil)] })
  else match prim name args s.heap with
    | some (v, h) => (.ok v, { s with heap := h })
    | none => (.error .err, s)

theorem run_builtin_fo (f : Nat) (name : String) (hn : name ∈ foBuiltins) (args : List Val) (s : St) :
    (builtin (f + 1) name args).run s = foResult name args s := by
  obtain ⟨h1, h2, h3⟩ := foBuiltins_not_ho name hn
  have h4 := foBuiltins_not_substitute name hn
  have h5 := foBuiltins_not_probe name hn
  rw [builtin.eq_def]
  unfold foResult
  by_cases ht : name = "trace"
  · simp only [ht, if_true, run_bind, run_modify, run_pure]
  · simp only [ht, h1, h2, h3, h4, h5, if_false, run_bind, run_get]
    cases prim name args s.heap with
    | none => simp only [run_err]
    | some r => obtain ⟨v, h⟩ := r; simp only [run_bind, run_set, run_pure]

/-- the reference evaluator on a first-order builtin -/
theorem ref_applyFn_fo (n : Nat) (name : String) (hn : name ∈ foBuiltins) (args : List Val) (rs : Ref.St) :
    Ref.applyFn (n + 1) (.builtin name) args rs =
      if name = "trace" then
        .ok (args.headD .nil) { rs with trace := rs.trace ++ [pr rs.heap (args.headD .nil)] }
      else match prim name args rs.heap with
        | some (v, h) => .ok v { rs with heap := h }
        | none => .err rs := by
  obtain ⟨h1, h2, h3⟩ := foBuiltins_not_ho name hn
  have h4 := foBuiltins_not_substitute name hn
  have h5 := foBuiltins_not_probe name hn
  rw [Ref.applyFn.eq_def]
  by_cases ht : name = "trace"
  · simp only [ht, if_true]
  · simp only [ht, h1, h2, h3, h4, h5, if_false]
    cases prim name args rs.heap with
    | none => rfl
    | some r => rfl

theorem foResult_err {name args s e s3} (h : foResult name args s = (.error e, s3)) : e = .err := by
  unfold foResult at h
  split at h
  · cases h
  · split at h
    · cases h
    · injection h with h1 _; injection h1 with h1; exact h1.symm

/-- a first-order builtin touches heap and trace only -/
theorem foResult_frame {name args s r s3} (h : foResult name args s = (r, s3)) :
    s3.addr = s.addr ∧ s3.data = s.data ∧ s3.scopes = s.scopes ∧ s3.linear = s.linear ∧ s3.fns = s.fns
      ∧ s3.suspended = s.suspended ∧ s3.curfunc = s.curfunc ∧ s3.pc = s.pc ∧ s3.loops = s.loops
      ∧ s3.loopstack = s.loopstack ∧ s3.lazies = s.lazies := by
  unfold foResult at h
  split at h
  · injection h with _ h2; subst h2; exact ⟨rfl, rfl, rfl, rfl, rfl, rfl, rfl, rfl, rfl, rfl, rfl⟩
  · split at h
    · injection h with _ h2; subst h2; exact ⟨rfl, rfl, rfl, rfl, rfl, rfl, rfl, rfl, rfl, rfl, rfl⟩
    · injection h with _ h2; subst h2; exact ⟨rfl, rfl, rfl, rfl, rfl, rfl, rfl, rfl, rfl, rfl, rfl⟩

theorem foResult_addr {name args s r s3} (h : foResult name args s = (r, s3)) : s3.addr = s.addr :=
  (foResult_frame h).1
theorem foResult_data {name args s r s3} (h : foResult name args s = (r, s3)) : s3.data = s.data :=
  (foResult_frame h).2.1

/-! ## `CallUserFunction` -/

theorem mapM_id_map_some {α} : ∀ (l : List α), (l.map some).mapM id = some l
  | [] => rfl
  | a :: l => by
    rw [List.map_cons, List.mapM_cons, mapM_id_map_some l]
    rfl

theorem run_popN (args : List Val) (D : List (Option Val)) (s : St) (hd : s.data = args.reverse.map some ++ D) :
    (popN args.length).run s = (.ok args, { s with data := D }) := by
  unfold popN
  have hlen : (args.reverse.map some).length = args.length := by simp
  have htake : s.data.take args.length = args.reverse.map some := by
    rw [hd, ← hlen, List.take_left]
  have hdrop : s.data.drop args.length = D := by
    rw [hd, ← hlen, List.drop_left]
  have hnlt : ¬ s.data.length < args.length := by
    rw [hd]; simp
  simp only [run_bind, run_get, run_ite, if_neg hnlt, htake, mapM_id_map_some, run_set, run_pure, hdrop,
    List.reverse_reverse]

/-- the state in which the Go builtin runs: arguments popped, return address pushed -/
def inBuiltin (s : St) (D : List (Option Val)) : St :=
  { s with data := D, addr := some (s.curfunc, s.pc + 1) :: s.addr, curfunc := builtinFn, pc := -1 }

/-- what `CallUserFunction` captures after popping the arguments -/
def capPopped (s : St) (D : List (Option Val)) : CtlState :=
  { curfunc := s.curfunc, pc := s.pc, susp := s.suspended.length, addrSize := s.addr.length,
    linearSize := s.linear.length, dataSize := D.length }

/-- `CallUserFunction` on a first-order builtin, arguments on the data stack (last on top) -/
theorem run_callUser_fo (f : Nat) (name : String) (hn : name ∈ foBuiltins) (args : List Val)
    (D : List (Option Val)) (s : St) (hd : s.data = args.reverse.map some ++ D) :
    (callUser (f + 2) name args.length).run s =
      match foResult name args (inBuiltin s D) with
      | (.ok v, s3) => (.ok (), { s3 with data := some v :: D, addr := s.addr, curfunc := s.curfunc, pc := s.pc + 1 })
      | (.error _, s3) =>
        (.error .err, ((restore (capPopped s D)).run s3).2) := by
  rw [callUser]
  have hnlt : ¬ s.data.length < args.length := by rw [hd]; simp
  have hnone : ((s.data.take args.length).any Option.isNone) = false := by
    have hlen : (args.reverse.map some).length = args.length := by simp
    rw [hd, ← hlen, List.take_left]
    simp
  simp only [run_bind, run_get, run_ite, if_neg hnlt, hnone, Bool.false_eq_true, if_false, run_pure,
    run_popN args D s hd]
  simp only [run_capture, run_modify, run_set]
  have hb := run_builtin_fo f name hn args (inBuiltin s D)
  unfold inBuiltin at hb
  simp only [hb]
  rcases hres : foResult name args (inBuiltin s D) with ⟨e | v, s3⟩
  · have he := foResult_err hres
    subst he
    unfold inBuiltin at hres
    simp only [hres, run_bind, run_throw]
    rfl
  · unfold inBuiltin at hres
    simp only [hres, run_bind, run_pushData, run_get]
    have hs3 : s3.addr = some (s.curfunc, s.pc + 1) :: s.addr := foResult_addr hres
    have hgt : (some v :: s3.data = some v :: s3.data) ∧ s3.addr.length > s.addr.length := ⟨rfl, by rw [hs3]; simp⟩
    simp only [capOf, run_ite, hs3, List.length_cons, gt_iff_lt, Nat.lt_succ_self, if_true, run_set]
    have hd3 : s3.data = D := foResult_data hres
    rw [hd3]

/-! ## Helper functions for operands: `mkFunction`, `CallFunction`, `ret`, `restoreControlState` -/

theorem exec_ret (f : Nat) (s : St) :
    (exec (f + 1) .ret).run s = match s.addr with
      | [] => (.error .err, s)
      | none :: _ => (.error .panic, s)
      | some (fn, pc) :: rest => (.ok (), { s with addr := rest, curfunc := fn, pc := pc }) := by
  rw [exec]
  simp only [run_bind, run_get]
  rcases ha : s.addr with _ | ⟨_ | ⟨fn, pc⟩, rest⟩ <;> simp only [run_err, run_hostPanic, run_set]

theorem run_mkFunction (name : String) (code : List Instr) (closing : List (Option Nat)) (parent : Option Nat) (s : St) :
    (mkFunction name code closing parent).run s =
      (.ok s.fns.length, { s with fns := s.fns ++ [({ name, code, closing, parent } : FnObj)] }) := by
  unfold mkFunction
  simp only [run_bind, run_get, run_set, run_pure]

/-- `CallFunction(f, 0)` of a function object with no parameters -/
theorem run_callFunction0 (f : Nat) (s : St) (hv : (fnOf s f).varargs = false) (hn : (fnOf s f).nargs = 0) :
    (callFunction f 0).run s =
      (.ok (), { s with addr := some (s.curfunc, s.pc + 1) :: s.addr, curfunc := f, pc := 0 }) := by
  unfold callFunction
  simp only [run_bind, run_get, Nat.not_lt_zero, List.take_zero, List.any_nil, Bool.false_eq_true, if_false, run_pure,
    hv, hn, ne_eq, not_true_eq_false, run_modify]

theorem truncate_self {α} (l : List (Option α)) : truncate l l.length = l := by
  unfold truncate
  simp

/-- `restoreControlState` when the three stacks have the recorded sizes and nothing was suspended:
only `curfunc` and `pc` are reset -/
theorem run_restore_balanced (c : CtlState) (s : St) (hs : s.suspended.length = c.susp)
    (ha : s.addr.length = c.addrSize) (hl : s.linear.length = c.linearSize) (hd : s.data.length = c.dataSize) :
    (restore c).run s = (.ok (), { s with curfunc := c.curfunc, pc := c.pc }) := by
  unfold restore
  rw [run_modify]
  have hgt : ¬ s.suspended.length > c.susp := by omega
  simp only [hgt, if_false, ← ha, ← hl, ← hd, truncate_self]

/-- with no function scope on the stack, `NewClosing` is the whole stack -/
theorem newClosing_go_nofn (isFn : Nat → Bool) (hno : ∀ i, isFn i = false) :
    ∀ (l acc : List (Option Nat)), newClosing.go isFn l acc = none
  | [], _ => rfl
  | none :: rest, acc => by
    simp only [newClosing.go]
    exact newClosing_go_nofn isFn hno rest _
  | some id :: rest, acc => by
    simp only [newClosing.go, hno id, Bool.false_eq_true, if_false]
    exact newClosing_go_nofn isFn hno rest _

theorem closingNow_nofn (s : St) (hno : ∀ i, (scopeOf s i).isFunction = false) : closingNow s = s.linear := by
  unfold closingNow newClosing
  rw [newClosing_go_nofn (isFnScope s) (fun i => hno i)]
  rfl

/-! ## Loops: labels and stack marks -/

theorem exec_loopStart (f : Nat) (l : Nat) (s : St) :
    (exec (f + 1) (.loopStart l)).run s = (.ok (), s.jmp (s.pc + 1) s.data) := by rw [exec]; rfl

theorem exec_label (f : Nat) (s : St) :
    (exec (f + 1) .label).run s = (.ok (), s.jmp (s.pc + 1) s.data) := by rw [exec]; rfl

theorem exec_pushMark (f : Nat) (l : Nat) (s : St) :
    (exec (f + 1) (.pushMark l)).run s = (.ok (), s.jmp (s.pc + 1) (some (.mark l) :: s.data)) := by
  rw [exec]; rfl

/-- popping down to the mark of `l`: the mark is on top -/
theorem run_popToMark_hit (l : Nat) (keep : Bool) (f : Nat) (s : St) (D : List (Option Val))
    (hd : s.data = some (.mark l) :: D) :
    (popToMark l keep (f + 1)).run s = (.ok (), { s with data := if keep then some (.mark l) :: D else D }) := by
  rw [popToMark]
  simp only [run_bind, run_popData, hd, if_true]
  cases keep
  · simp only [Bool.false_eq_true, if_false, run_pure]
  · simp only [if_true, run_pushData]

/-- … a value that is not that mark is on top: it is dropped -/
theorem run_popToMark_skip (l : Nat) (keep : Bool) (f : Nat) (s : St) (v : Val) (rest : List (Option Val))
    (hd : s.data = some v :: rest) (hv : v ≠ .mark l) :
    (popToMark l keep (f + 1)).run s = (popToMark l keep f).run { s with data := rest } := by
  rw [popToMark]
  simp only [run_bind, run_popData, hd]
  cases v with
  | mark l' =>
    have : l' ≠ l := fun e => hv (by rw [e])
    simp only [this, if_false]
  | _ => rfl

/-- `PopUntilStackmark` over at most one value above the mark -/
theorem exec_popUntilMark (f : Nat) (l : Nat) (s : St) (G : List (Option Val)) (D : List (Option Val))
    (hd : s.data = G ++ some (.mark l) :: D) (hG : G = [] ∨ ∃ v, G = [some v] ∧ v ≠ .mark l) :
    (exec (f + 1) (.popUntilMark l)).run s = (.ok (), s.jmp (s.pc + 1) (some (.mark l) :: D)) := by
  rw [exec]
  simp only [run_bind, run_incPc, run_get]
  rcases hG with rfl | ⟨v, rfl, hv⟩
  · have hlen : ({ s with pc := s.pc + 1 } : St).data.length + 1 = (D.length + 1) + 1 := by
      show s.data.length + 1 = _; rw [hd]; simp
    rw [hlen, run_popToMark_hit l true _ _ D (by show s.data = _; rw [hd]; rfl)]
    rfl
  · have hlen : ({ s with pc := s.pc + 1 } : St).data.length + 1 = ((D.length + 1) + 1) + 1 := by
      show s.data.length + 1 = _; rw [hd]; simp
    rw [hlen, run_popToMark_skip l true _ _ v (some (.mark l) :: D) (by show s.data = _; rw [hd]; rfl) hv,
      run_popToMark_hit l true _ _ D rfl]
    rfl

/-- `ClearStackmark` with the mark on top -/
theorem exec_clearMark (f : Nat) (l : Nat) (s : St) (D : List (Option Val)) (hd : s.data = some (.mark l) :: D) :
    (exec (f + 1) (.clearMark l)).run s = (.ok (), s.jmp (s.pc + 1) D) := by
  rw [exec]
  simp only [run_bind, run_get]
  have hlen : s.data.length + 1 = (D.length + 1) + 1 := by rw [hd]; simp
  rw [hlen, run_popToMark_hit l false _ s D hd]
  simp only [Bool.false_eq_true, if_false, run_incPc]
  rfl

end ZygoVerif.Sim
