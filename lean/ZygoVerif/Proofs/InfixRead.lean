/-
C06 front end, parser half: the parser model, run on the complete token queue of a block
(`Spacing.Src` trees: tokens, `[ … ]`, `( … )`, nested `{ … }`), returns the expression tree of
the block — by structural induction over the source tree, nested to any depth, with the fuel
the model's loops need made explicit (`cost…`, as in Proofs/ReadPrintParse).

One parser look-ahead matters: after a symbol `-` or `+` `ParseExpression` peeks at the next
token and joins the sign to a following `Inf`/`inf` float token. No token of a `Src` tree is
that token (`GoodTok`), and inside brackets a token always follows, so the peek never fires.
-/
import ZygoVerif.Proofs.ParseTokens
import ZygoVerif.Proofs.ReadPrintParse
import ZygoVerif.Proofs.LexSpacingSpec
namespace ZygoVerif.InfixRead
open ZygoVerif ZygoVerif.Lexer ZygoVerif.Parser
open ZygoVerif.Spacing (Tok Src)
open ZygoVerif.ReadPrint (consumes_peek0 consumes_pop consumes_bind consumes_pure consumes_nested parseExprNested_succ
  parseList_succ parseArray_succ)

/-! ## the expression a source tree stands for -/

def isInfTok (t : Token) : Bool := t.typ == .float && (t.str == "Inf".toList || t.str == "inf".toList)

/-- the expression `ParseExpression` builds from a single non-bracket token -/
def tokSexp (tk : Token) : Sexp :=
  if tk.typ == .symbol then .sym tk.str false false else
  match atomOfTok tk with
  | some (some e) => e
  | _ => .null

def isCommaSrc : Src → Bool
  | .tok (.punct c) => c == ','
  | _ => false

mutual
def toSexp : Src → Sexp
  | .tok t => tokSexp (expTok t)
  | .arr xs => .array (arrElems xs) false
  | .call xs => callList xs
  | .block [] => .emptyHash
  | .block (x :: xs) => .pair (Parser.sym "infix") (.pair (.array (elems (x :: xs)) true) .null)
def elems : List Src → List Sexp
  | [] => []
  | x :: r => toSexp x :: elems r
/-- `ParseArray` skips comma tokens -/
def arrElems : List Src → List Sexp
  | [] => []
  | x :: r => if isCommaSrc x then arrElems r else toSexp x :: arrElems r
def callList : List Src → Sexp
  | [] => .null
  | x :: r => .pair (toSexp x) (callList r)
end

/-- the tokens of a source tree -/
def toks (x : Src) : List Token := x.flat.map expTok
def toksL (xs : List Src) : List Token := (Spacing.flatL xs).map expTok

theorem toksL_nil : toksL [] = [] := rfl
theorem toksL_cons (x : Src) (r : List Src) : toksL (x :: r) = toks x ++ toksL r := by
  simp [toksL, toks, Spacing.flatL]

def tLC : Token := ⟨.lcurly, []⟩
def tRC : Token := ⟨.rcurly, []⟩
open ZygoVerif.ReadPrint (tLP tRP tLS tRS)

theorem toks_arr (xs : List Src) : toks (.arr xs) = tLS :: (toksL xs ++ [tRS]) := by
  simp [toks, toksL, Src.flat, expTok, braceTok, tLS, tRS]
theorem toks_call (xs : List Src) : toks (.call xs) = tLP :: (toksL xs ++ [tRP]) := by
  simp [toks, toksL, Src.flat, expTok, braceTok, tLP, tRP]
theorem toks_block (xs : List Src) : toks (.block xs) = tLC :: (toksL xs ++ [tRC]) := by
  simp [toks, toksL, Src.flat, expTok, braceTok, tLC, tRC]
theorem toks_tok (t : Tok) : toks (.tok t) = [expTok t] := rfl

/-- well-formed source trees: well-formed tokens whose atom the parser can convert (numerals in
range), brackets only as tree structure -/
def atomOK (t : Tok) : Bool :=
  t.wf && !t.isBracket &&
  ((expTok t).typ == .symbol || (match atomOfTok (expTok t) with | some (some _) => true | _ => false))

mutual
def okSrc : Src → Bool
  | .tok t => atomOK t
  | .arr xs => okL xs
  | .call xs => okL xs
  | .block xs => okL xs
def okL : List Src → Bool
  | [] => true
  | x :: r => okSrc x && okL r
end

/-! ## conditional consumption: the rest of the queue does not start with an `Inf` token -/

def NoInfHead (rest : List Token) : Prop := ∃ t r, rest = t :: r ∧ isInfTok t = false

def ConsumesN {α : Type} (p : Prog α) (pre : List Token) (a : α) : Prop :=
  ∀ (c : LexCore) (rest : List Token) (ex : List Sexp), NoInfHead rest → c.tokens = pre ++ rest →
    runA p (tv c ex) = (.ret a, tv (setToks c rest) ex)

theorem Consumes.toN {α : Type} {p : Prog α} {pre : List Token} {a : α} (h : Consumes p pre a) : ConsumesN p pre a :=
  fun c rest ex _ hc => h c rest ex hc

/-- sequencing under a bracket: the first part is followed by the (non-empty, well-started) second -/
theorem consumes_bindN {α β : Type} (p : Prog α) (f : α → Prog β) (pre1 pre2 : List Token) (a : α) (b : β)
    (h1 : ConsumesN p pre1 a) (h2 : Consumes (f a) pre2 b) (hne : NoInfHead pre2) : Consumes (p.bind f) (pre1 ++ pre2) b := by
  intro c rest ex hc
  have hn : NoInfHead (pre2 ++ rest) := by
    obtain ⟨t, r, hr, ht⟩ := hne
    exact ⟨t, r ++ rest, by rw [hr]; rfl, ht⟩
  rw [runA_bind, h1 c (pre2 ++ rest) ex hn (by rw [hc, List.append_assoc])]
  simp only
  have := h2 (setToks c (pre2 ++ rest)) rest ex rfl
  simpa [setToks] using this

theorem consumes_nestedN (f : Nat) (t : Token) (ts : List Token) (a : Sexp)
    (h : ConsumesN (parseExprTok f t) ts a) : ConsumesN (parseExprNested (f + 1)) (t :: ts) a := by
  intro c rest ex hn hc
  have hq : c.tokens = t :: (ts ++ rest) := by simpa using hc
  rw [parseExprNested_succ, runA_waitPeek0 _ c ex t _ hq, runA_getTok _ c ex t _ hq]
  have := h (setToks c (ts ++ rest)) rest ex hn rfl
  simpa [setToks] using this

/-- the look-ahead after a sign at a non-empty complete queue -/
theorem runA_signPeek {α : Type} (k : Token → Prog α) (c : LexCore) (ex : List Sexp) (t : Token) (ts : List Token)
    (h : c.tokens = t :: ts) : runA (.signPeek k) (tv c ex) = runA (k t) (tv c ex) := by
  simp only [runA, tv, peekWaitA, headIf_zero_cons c t ts h]

/-! ## single tokens -/

/-- the token types of the non-bracket tokens -/
theorem atom_typ (t : Tok) (h : atomOK t = true) :
    (expTok t).typ = .symbol ∨ (expTok t).typ = .dotSymbol ∨ (expTok t).typ = .decimal ∨ (expTok t).typ = .float ∨
    (expTok t).typ = .freshAssign ∨ (expTok t).typ = .comma ∨ (expTok t).typ = .semicolon := by
  simp only [atomOK, Bool.and_eq_true, Bool.not_eq_true'] at h
  obtain ⟨⟨hwf, hnb⟩, _⟩ := h
  cases t with
  | name lead segs => simp only [expTok]; split <;> simp
  | num neg ip fp ex => simp only [expTok]; split <;> simp
  | op o => simp only [expTok]; split <;> (try split) <;> (try split) <;> simp
  | punct c =>
    simp only [Tok.isBracket, Bool.not_eq_false', Bool.or_eq_true, beq_iff_eq] at hnb
    rcases hnb with rfl | rfl <;> simp [expTok]

theorem parseExprTok_atomlike (f : Nat) (tk : Token) (e : Sexp)
    (h : tk.typ = .dotSymbol ∨ tk.typ = .decimal ∨ tk.typ = .float ∨ tk.typ = .freshAssign ∨ tk.typ = .comma ∨ tk.typ = .semicolon)
    (he : atomOfTok tk = some (some e)) : parseExprTok (f + 1) tk = Prog.pure e := by
  unfold parseExprTok
  rcases h with h | h | h | h | h | h <;> simp only [h, he] <;> rfl

theorem parseExprTok_symbol (f : Nat) (tk : Token) (h : tk.typ = .symbol) (h1 : tk.str ≠ ['-']) (h2 : tk.str ≠ ['+']) :
    parseExprTok (f + 1) tk = Prog.pure (.sym tk.str false false) := by
  unfold parseExprTok
  have e1 : (tk.str == ['-']) = false := by simpa using h1
  have e2 : (tk.str == ['+']) = false := by simpa using h2
  simp only [h, e1, e2, Bool.or_self, Bool.false_eq_true, ↓reduceIte]
  rfl

theorem parseExprTok_sign (f : Nat) (tk : Token) (h : tk.typ = .symbol) (hs : tk.str = ['-'] ∨ tk.str = ['+']) :
    parseExprTok (f + 1) tk = signPeek.bind fun tok2 =>
      if (tok2.typ == .float && (tok2.str == "Inf".toList || tok2.str == "inf".toList)) = true then
        popTok.bind fun _ =>
          match NumLit.parseFloat (tk.str ++ "Inf".toList) with
          | some b => Prog.pure (.float b false)
          | none => Parser.fail
      else Prog.pure (.sym tk.str false false) := by
  unfold parseExprTok
  have e : (tk.str == ['-'] || tk.str == ['+']) = true := by
    rcases hs with hs | hs <;> simp [hs]
  simp only [h, e, ↓reduceIte, bind, pure]
  rfl

/-- **a single token** is consumed alone and gives its expression, provided the queue does not go
on with an `Inf` token -/
theorem parse_tok (t : Tok) (h : atomOK t = true) (f : Nat) :
    ConsumesN (parseExprTok (f + 1) (expTok t)) [] (tokSexp (expTok t)) := by
  have htyp := atom_typ t h
  simp only [atomOK, Bool.and_eq_true, Bool.or_eq_true, beq_iff_eq] at h
  obtain ⟨_, hconv⟩ := h
  by_cases hsym : (expTok t).typ = .symbol
  · have hts : tokSexp (expTok t) = .sym (expTok t).str false false := by simp [tokSexp, hsym]
    rw [hts]
    by_cases hs : (expTok t).str = ['-'] ∨ (expTok t).str = ['+']
    · rw [parseExprTok_sign f _ hsym hs]
      intro c rest ex hn hc
      obtain ⟨t2, r2, hr, hinf⟩ := hn
      have hq : c.tokens = t2 :: r2 := by simpa [hr] using hc
      show runA (Prog.signPeek fun x => (Prog.pure x).bind _) (tv c ex) = _
      rw [runA_signPeek _ c ex t2 r2 hq]
      have hinf' : (t2.typ == TokType.float && (t2.str == "Inf".toList || t2.str == "inf".toList)) = false := hinf
      have hset : setToks c rest = c := by
        rw [hr, ← hq]; cases c; rfl
      simp only [Prog.bind, hinf', Bool.false_eq_true, ↓reduceIte, runA, hset]
    · have h1 : (expTok t).str ≠ ['-'] := fun he => hs (Or.inl he)
      have h2 : (expTok t).str ≠ ['+'] := fun he => hs (Or.inr he)
      rw [parseExprTok_symbol f _ hsym h1 h2]
      exact Consumes.toN (consumes_pure _)
  · have hty : (expTok t).typ = .dotSymbol ∨ (expTok t).typ = .decimal ∨ (expTok t).typ = .float ∨
        (expTok t).typ = .freshAssign ∨ (expTok t).typ = .comma ∨ (expTok t).typ = .semicolon := by
      rcases htyp with h | h
      · exact absurd h hsym
      · exact h
    rcases hconv with hc | hc
    · exact absurd hc hsym
    · cases ha : atomOfTok (expTok t) with
      | none => rw [ha] at hc; cases hc
      | some o =>
        cases o with
        | none => rw [ha] at hc; cases hc
        | some e =>
          have hts : tokSexp (expTok t) = e := by
            have : ((expTok t).typ == TokType.symbol) = false := by simpa using hsym
            simp [tokSexp, this, ha]
          rw [hts, parseExprTok_atomlike f _ e hty ha]
          exact Consumes.toN (consumes_pure _)

/-! ## fuel -/

mutual
def costTok : Src → Nat
  | .tok _ => 1
  | .arr xs => 1 + costSeq xs
  | .call xs => 1 + costSeq xs
  | .block xs => 2 + costSeq xs
/-- fuel for a bracket loop (`parseArray`, `parseList`, `parseInfix`) on the elements `xs` and the
closing bracket -/
def costSeq : List Src → Nat
  | [] => 1
  | x :: r => 1 + max (1 + costTok x) (costSeq r)
end

/-- a token that can start an element inside any bracket -/
def elemHead (t : Token) : Prop :=
  t.typ ≠ .rparen ∧ t.typ ≠ .backslash ∧ t.typ ≠ .rsquare ∧ t.typ ≠ .rcurly ∧ isInfTok t = false ∧
  t.typ ≠ .symbolColon ∧ t.typ ≠ .string ∧ t.typ ≠ .beginBacktickString ∧ t.typ ≠ .beginBlockComment ∧ t.typ ≠ .comment

theorem elemHead_of_typ (t : Token)
    (h : t.typ = .symbol ∨ t.typ = .dotSymbol ∨ t.typ = .decimal ∨ t.typ = .freshAssign ∨ t.typ = .comma ∨ t.typ = .semicolon ∨
      t.typ = .lparen ∨ t.typ = .lsquare ∨ t.typ = .lcurly) : elemHead t := by
  rcases h with h | h | h | h | h | h | h | h | h <;> simp [elemHead, isInfTok, h]

/-- the float token of a numeral is not `Inf` -/
theorem num_not_inf (neg : Bool) (ip : List Char) (fp : Option (List Char)) (ex : Option (Char × List Char))
    (h : Tok.wf (.num neg ip fp ex) = true) : isInfTok (expTok (.num neg ip fp ex)) = false := by
  have hd := num_last_digit neg ip fp ex h
  have hne := tok_text_ne_nil _ h
  have hlast : ∀ s : List Char, s = "Inf".toList ∨ s = "inf".toList → Tok.text (.num neg ip fp ex) ≠ s := by
    intro s hs he
    have : Tok.last (.num neg ip fp ex) = 'f' := by
      simp only [Tok.last, he]
      rcases hs with rfl | rfl <;> decide
    rw [this] at hd; revert hd; decide
  simp only [isInfTok, expTok]
  split
  · simp
  · have h1 := hlast "Inf".toList (Or.inl rfl)
    have h2 := hlast "inf".toList (Or.inr rfl)
    simp only [beq_eq_false_iff_ne.2 h1, beq_eq_false_iff_ne.2 h2, Bool.or_self, Bool.and_false]

theorem elemHead_atom (t : Tok) (h : atomOK t = true) : elemHead (expTok t) := by
  have htyp := atom_typ t h
  by_cases hf : (expTok t).typ = .float
  · simp only [atomOK, Bool.and_eq_true] at h
    cases t with
    | num neg ip fp ex =>
      have := num_not_inf neg ip fp ex h.1.1
      simp [elemHead, hf, this]
    | name lead segs => simp only [expTok] at hf; split at hf <;> cases hf
    | op o => simp only [expTok] at hf; (repeat' split at hf) <;> cases hf
    | punct c => simp only [expTok] at hf; (repeat' split at hf) <;> simp [braceTok] at hf <;> (repeat' split at hf) <;> cases hf
  · apply elemHead_of_typ
    rcases htyp with h | h | h | h | h | h | h
    · exact Or.inl h
    · exact Or.inr (Or.inl h)
    · exact Or.inr (Or.inr (Or.inl h))
    · exact absurd h hf
    · exact Or.inr (Or.inr (Or.inr (Or.inl h)))
    · exact Or.inr (Or.inr (Or.inr (Or.inr (Or.inl h))))
    · exact Or.inr (Or.inr (Or.inr (Or.inr (Or.inr (Or.inl h)))))

/-- the first token of a source tree -/
theorem toks_head (x : Src) (h : okSrc x = true) : ∃ t ts, toks x = t :: ts ∧ elemHead t := by
  cases x with
  | tok t => exact ⟨expTok t, [], rfl, elemHead_atom t (by simpa [okSrc] using h)⟩
  | arr xs => exact ⟨tLS, _, toks_arr xs, elemHead_of_typ _ (by simp [tLS])⟩
  | call xs => exact ⟨tLP, _, toks_call xs, elemHead_of_typ _ (by simp [tLP])⟩
  | block xs => exact ⟨tLC, _, toks_block xs, elemHead_of_typ _ (by simp [tLC])⟩

theorem noInf_of_head (t : Token) (ts : List Token) (h : elemHead t) : NoInfHead (t :: ts) :=
  ⟨t, ts, rfl, h.2.2.2.2.1⟩

/-- what follows an element inside a bracket: the next element or the closing bracket -/
theorem noInf_seq (r : List Src) (close : Token) (hr : okL r = true) (hc : isInfTok close = false) :
    NoInfHead (toksL r ++ [close]) := by
  cases r with
  | nil => exact ⟨close, [], rfl, hc⟩
  | cons y r' =>
    simp only [okL, Bool.and_eq_true] at hr
    obtain ⟨t, ts, hts, hh⟩ := toks_head y hr.1
    rw [toksL_cons, hts]
    exact ⟨t, ts ++ toksL r' ++ [close], by simp, hh.2.2.2.2.1⟩

/-! ## the bracket loops -/

theorem parseInfix_succ (f : Nat) (acc : List Sexp) :
    parseInfix (f + 1) acc = ((waitPeek 0).bind fun tok =>
      if (tok.typ == TokType.rcurly) = true then
        popTok.bind fun _ =>
          if acc.isEmpty = true then Prog.pure (Sexp.pair (Parser.sym "infix") Sexp.null)
          else Prog.pure (Sexp.pair (Parser.sym "infix") (Sexp.pair (Sexp.array acc.reverse true) Sexp.null))
      else (parseExprNested f).bind fun e => parseInfix f (e :: acc)) := by
  rw [parseInfix]
  simp only [bind, pure]

theorem consumes_infix_end (f : Nat) (acc : List Sexp) (hne : acc ≠ []) :
    Consumes (parseInfix (f + 1) acc) [tRC] (.pair (Parser.sym "infix") (.pair (.array acc.reverse true) .null)) := by
  rw [parseInfix_succ]
  apply consumes_peek0
  have h1 : (tRC.typ == TokType.rcurly) = true := by decide
  have h2 : acc.isEmpty = false := by cases acc <;> simp_all
  simp only [h1, h2, Bool.false_eq_true, ↓reduceIte]
  exact consumes_pop _ tRC [] _ (consumes_pure _)

theorem consumes_infix_cons (f : Nat) (acc : List Sexp) (e : Sexp) (pre : List Token) (th : Token) (tsh rst : List Token) (r : Sexp)
    (hth : pre = th :: tsh) (hok : elemHead th) (he : ConsumesN (parseExprNested f) pre e)
    (hn : NoInfHead rst) (hr : Consumes (parseInfix f (e :: acc)) rst r) :
    Consumes (parseInfix (f + 1) acc) (pre ++ rst) r := by
  rw [parseInfix_succ, hth]
  apply consumes_peek0
  have h1 : (th.typ == TokType.rcurly) = false := by rw [beq_eq_false_iff_ne]; exact hok.2.2.2.1
  simp only [h1, Bool.false_eq_true, ↓reduceIte]
  have e' : th :: tsh.append rst = pre ++ rst := by rw [hth]; rfl
  rw [e']
  exact consumes_bindN _ _ pre rst e r he hr hn

theorem consumes_array_endI (f : Nat) (acc : List Sexp) :
    Consumes (parseArray (f + 1) acc) [tRS] (.array acc.reverse false) := ReadPrint.consumes_array_end f acc

theorem consumes_array_consI (f : Nat) (acc : List Sexp) (e : Sexp) (pre : List Token) (th : Token) (tsh rst : List Token) (r : Sexp)
    (hth : pre = th :: tsh) (hok : elemHead th) (hnc : th.typ ≠ .comma) (he : ConsumesN (parseExprNested f) pre e)
    (hn : NoInfHead rst) (hr : Consumes (parseArray f (e :: acc)) rst r) :
    Consumes (parseArray (f + 1) acc) (pre ++ rst) r := by
  rw [parseArray_succ, hth]
  apply consumes_peek0
  have h1 : (th.typ == TokType.comma) = false := by rw [beq_eq_false_iff_ne]; exact hnc
  have h2 : (th.typ == TokType.rsquare) = false := by rw [beq_eq_false_iff_ne]; exact hok.2.2.1
  simp only [h1, h2, Bool.false_eq_true, ↓reduceIte]
  have e' : th :: tsh.append rst = pre ++ rst := by rw [hth]; rfl
  rw [e']
  exact consumes_bindN _ _ pre rst e r he hr hn

theorem consumes_array_comma (f : Nat) (acc : List Sexp) (rst : List Token) (r : Sexp)
    (hr : Consumes (parseArray f acc) rst r) :
    Consumes (parseArray (f + 1) acc) (⟨.comma, [',']⟩ :: rst) r := by
  rw [parseArray_succ]
  apply consumes_peek0
  have h1 : ((⟨.comma, [',']⟩ : Token).typ == TokType.comma) = true := by decide
  simp only [h1, ↓reduceIte]
  exact consumes_pop _ _ rst r hr

theorem consumes_list_endI (f : Nat) : Consumes (parseList (f + 1) .rparen) [tRP] Sexp.null := ReadPrint.consumes_list_end f

theorem consumes_list_consI (f : Nat) (h t : Sexp) (pre : List Token) (th : Token) (tsh rst : List Token)
    (hth : pre = th :: tsh) (hok : elemHead th) (hh : ConsumesN (parseExprNested f) pre h)
    (tr : Token) (tsr : List Token) (hrst : rst = tr :: tsr) (hnb : (tr.typ == TokType.backslash) = false)
    (hni : isInfTok tr = false) (ht : Consumes (parseList f .rparen) rst t) :
    Consumes (parseList (f + 1) .rparen) (pre ++ rst) (.pair h t) := by
  rw [parseList_succ, hth]
  apply consumes_peek0
  have : (th.typ == TokType.rparen) = false := by rw [beq_eq_false_iff_ne]; exact hok.1
  simp only [this, Bool.false_eq_true, ↓reduceIte]
  have e : th :: tsh.append rst = pre ++ rst := by rw [hth]; rfl
  rw [e]
  apply consumes_bindN _ _ pre rst h _ hh _ ⟨tr, tsr, hrst, hni⟩
  rw [hrst]
  apply consumes_peek0
  simp only [hnb, Bool.false_eq_true, ↓reduceIte]
  rw [← hrst]
  have := consumes_bind (parseList f .rparen) (fun tail => Prog.pure (h.pair tail)) rst [] t (h.pair t) ht (consumes_pure _)
  simpa using this

/-! ## `{` -/

theorem skipComments_plain (f : Nat) (tok2 : Token) (extra : Nat) (h1 : tok2.typ ≠ .beginBlockComment) (h2 : tok2.typ ≠ .comment) :
    skipComments (f + 1) tok2 extra = Prog.pure (tok2, extra) := by
  unfold skipComments
  have e1 : (tok2.typ == TokType.beginBlockComment) = false := by simpa using h1
  have e2 : (tok2.typ == TokType.comment) = false := by simpa using h2
  simp only [e1, e2, Bool.or_self, Bool.false_eq_true, ↓reduceIte, pure]

/-- `{` followed by a token that starts an element: the infix loop -/
theorem parseExprTok_lcurly (f : Nat) (c : LexCore) (ex : List Sexp) (t2 : Token) (ts2 : List Token)
    (hq : c.tokens = t2 :: ts2) (hh : elemHead t2) :
    runA (parseExprTok (f + 2) tLC) (tv c ex) = runA (parseInfix (f + 1) []) (tv c ex) := by
  obtain ⟨_, _, _, h4, _, h6, h7, h8, h9, h10⟩ := hh
  unfold parseExprTok
  simp only [tLC, bind, Prog.bind, waitPeek]
  rw [runA_waitPeek0 _ c ex t2 ts2 hq]
  -- the default arm of `match tok2.typ`: its side conditions are the hypotheses h4 h6 h7 h8
  simp only [Prog.bind, skipComments_plain f t2 1 h9 h10, pure]
  all_goals (cases hty : t2.typ <;> simp_all)

/-- `{}`: the empty hash -/
theorem consumes_empty_block (f : Nat) : Consumes (parseExprTok (f + 2) tLC) [tRC] .emptyHash := by
  intro c rest ex hc
  have hq : c.tokens = tRC :: rest := by simpa using hc
  unfold parseExprTok
  simp only [tLC, bind, Prog.bind, waitPeek]
  rw [runA_waitPeek0 _ c ex tRC rest hq]
  have h1 : tRC.typ ≠ .beginBlockComment := by decide
  have h2 : tRC.typ ≠ .comment := by decide
  simp only [Prog.bind, skipComments_plain f tRC 1 h1 h2, pure]
  have : tRC.typ = .rcurly := rfl
  simp only [this, popTok, Prog.bind]
  rw [runA_getTok _ c ex tRC rest hq]
  rfl

/-! ## the induction over the source tree -/

theorem arrElems_comma (c : Char) (h : c = ',') (r : List Src) : arrElems (.tok (.punct c) :: r) = arrElems r := by
  subst h; simp [arrElems, isCommaSrc]

mutual
theorem parse_src : (x : Src) → okSrc x = true → ∀ f, costTok x ≤ f →
    ∃ t ts, toks x = t :: ts ∧ elemHead t ∧ ConsumesN (parseExprTok f t) ts (toSexp x)
  | .tok t, hx, f, hf => by
    have ha : atomOK t = true := by simpa [okSrc] using hx
    obtain ⟨f', rfl⟩ : ∃ f', f = f' + 1 := ⟨f - 1, by simp only [costTok] at hf; omega⟩
    exact ⟨expTok t, [], rfl, elemHead_atom t ha, by simpa [toSexp] using parse_tok t ha f'⟩
  | .arr xs, hx, f, hf => by
    have hxs : okL xs = true := by simpa [okSrc] using hx
    simp only [costTok] at hf
    have hpos : 1 ≤ costSeq xs := by cases xs <;> simp [costSeq] <;> omega
    obtain ⟨f', rfl⟩ : ∃ f', f = f' + 2 := ⟨f - 2, by omega⟩
    refine ⟨tLS, toksL xs ++ [tRS], toks_arr xs, elemHead_of_typ _ (by simp [tLS]), Consumes.toN ?_⟩
    rw [show f' + 2 = (f' + 1) + 1 from rfl, ReadPrint.parseExprTok_lsquare]
    have := parse_arr xs hxs [] f' (by omega)
    simpa [toSexp] using this
  | .call xs, hx, f, hf => by
    have hxs : okL xs = true := by simpa [okSrc] using hx
    simp only [costTok] at hf
    have hpos : 1 ≤ costSeq xs := by cases xs <;> simp [costSeq] <;> omega
    obtain ⟨f', rfl⟩ : ∃ f', f = f' + 2 := ⟨f - 2, by omega⟩
    refine ⟨tLP, toksL xs ++ [tRP], toks_call xs, elemHead_of_typ _ (by simp [tLP]), Consumes.toN ?_⟩
    rw [show f' + 2 = (f' + 1) + 1 from rfl, ReadPrint.parseExprTok_lparen]
    have := parse_call xs hxs f' (by omega)
    simpa [toSexp] using this
  | .block [], _, f, hf => by
    simp only [costTok, costSeq] at hf
    obtain ⟨f', rfl⟩ : ∃ f', f = f' + 2 := ⟨f - 2, by omega⟩
    refine ⟨tLC, [tRC], by simp [toks_block, toksL_nil], elemHead_of_typ _ (by simp [tLC]), Consumes.toN ?_⟩
    simpa [toSexp] using consumes_empty_block f'
  | .block (x :: xs), hx, f, hf => by
    have hxs : okL (x :: xs) = true := by simpa [okSrc] using hx
    simp only [costTok] at hf
    have hpos : 2 ≤ costSeq (x :: xs) := by simp [costSeq]; omega
    obtain ⟨f', rfl⟩ : ∃ f', f = f' + 3 := ⟨f - 3, by omega⟩
    refine ⟨tLC, toksL (x :: xs) ++ [tRC], toks_block _, elemHead_of_typ _ (by simp [tLC]), Consumes.toN ?_⟩
    have hx1 : okSrc x = true := by simp only [okL, Bool.and_eq_true] at hxs; exact hxs.1
    obtain ⟨t2, ts2, hts2, hh2⟩ := toks_head x hx1
    have hinf := parse_infix (x :: xs) hxs [] (f' + 1) (by omega) (Or.inr (by simp))
    intro c rest ex hc
    have hq : c.tokens = t2 :: (ts2 ++ toksL xs ++ [tRC] ++ rest) := by
      rw [hc, toksL_cons, hts2]; simp
    rw [show f' + 3 = (f' + 1) + 2 from rfl, parseExprTok_lcurly (f' + 1) c ex t2 _ hq hh2]
    have := hinf c rest ex hc
    simpa [toSexp] using this
theorem parse_arr : (xs : List Src) → okL xs = true → ∀ (acc : List Sexp) (f : Nat), costSeq xs ≤ f + 1 →
    Consumes (parseArray (f + 1) acc) (toksL xs ++ [tRS]) (.array (acc.reverse ++ arrElems xs) false)
  | [], _, acc, f, _ => by
    have := consumes_array_endI f acc
    simpa [toksL_nil, arrElems] using this
  | x :: r, hxs, acc, f, hf => by
    simp only [okL, Bool.and_eq_true] at hxs
    simp only [costSeq] at hf
    obtain ⟨f', rfl⟩ : ∃ f', f = f' + 1 := ⟨f - 1, by omega⟩
    by_cases hc : isCommaSrc x = true
    · -- a comma is skipped
      have hx : x = .tok (.punct ',') := by
        cases x with
        | tok t =>
          cases t with
          | punct c => simp only [isCommaSrc, beq_iff_eq] at hc; rw [hc]
          | _ => simp [isCommaSrc] at hc
        | _ => simp [isCommaSrc] at hc
      subst hx
      have hrec := parse_arr r hxs.2 acc f' (by omega)
      have := consumes_array_comma (f' + 1) acc _ _ hrec
      simpa [toksL_cons, toks_tok, expTok, arrElems, isCommaSrc] using this
    · obtain ⟨th, tsh, hth, hok, hcons⟩ := parse_src x hxs.1 f' (by omega)
      have he : ConsumesN (parseExprNested (f' + 1)) (toks x) (toSexp x) := by
        rw [hth]; exact consumes_nestedN f' th tsh _ hcons
      have hrec := parse_arr r hxs.2 (toSexp x :: acc) f' (by omega)
      have hnc : th.typ ≠ .comma := by
        intro hty
        apply hc
        cases x with
        | tok t =>
          have ht : expTok t = th := by
            rw [toks_tok] at hth; simp only [List.cons.injEq] at hth; exact hth.1
          cases t with
          | punct c =>
            have hwf : atomOK (.punct c) = true := by simpa [okSrc] using hxs.1
            simp only [atomOK, Bool.and_eq_true, Tok.isBracket, Bool.not_eq_true', Bool.not_eq_false', Bool.or_eq_true, beq_iff_eq] at hwf
            rcases hwf.1.2 with rfl | rfl
            · rfl
            · rw [← ht] at hty; simp [expTok] at hty
          | name lead segs => rw [← ht] at hty; simp only [expTok] at hty; split at hty <;> cases hty
          | num neg ip fp ex => rw [← ht] at hty; simp only [expTok] at hty; split at hty <;> cases hty
          | op o => rw [← ht] at hty; simp only [expTok] at hty; (repeat' split at hty) <;> cases hty
        | arr ys => rw [toks_arr] at hth; simp only [List.cons.injEq] at hth; rw [← hth.1] at hty; cases hty
        | call ys => rw [toks_call] at hth; simp only [List.cons.injEq] at hth; rw [← hth.1] at hty; cases hty
        | block ys => rw [toks_block] at hth; simp only [List.cons.injEq] at hth; rw [← hth.1] at hty; cases hty
      have := consumes_array_consI (f' + 1) acc (toSexp x) (toks x) th tsh (toksL r ++ [tRS]) _ hth hok hnc he
        (noInf_seq r tRS hxs.2 (by decide)) hrec
      have hne : isCommaSrc x = false := by simpa using hc
      simpa [toksL_cons, arrElems, hne, List.append_assoc] using this
theorem parse_call : (xs : List Src) → okL xs = true → ∀ (f : Nat), costSeq xs ≤ f + 1 →
    Consumes (parseList (f + 1) .rparen) (toksL xs ++ [tRP]) (callList xs)
  | [], _, f, _ => by
    have := consumes_list_endI f
    simpa [toksL_nil, callList] using this
  | x :: r, hxs, f, hf => by
    simp only [okL, Bool.and_eq_true] at hxs
    simp only [costSeq] at hf
    obtain ⟨f', rfl⟩ : ∃ f', f = f' + 1 := ⟨f - 1, by omega⟩
    obtain ⟨th, tsh, hth, hok, hcons⟩ := parse_src x hxs.1 f' (by omega)
    have he : ConsumesN (parseExprNested (f' + 1)) (toks x) (toSexp x) := by
      rw [hth]; exact consumes_nestedN f' th tsh _ hcons
    have hrec := parse_call r hxs.2 f' (by omega)
    obtain ⟨tr, tsr, hrst, hnb, hni⟩ : ∃ tr tsr, toksL r ++ [tRP] = tr :: tsr ∧ (tr.typ == TokType.backslash) = false ∧ isInfTok tr = false := by
      cases r with
      | nil => exact ⟨tRP, [], rfl, by decide, by decide⟩
      | cons y r' =>
        simp only [okL, Bool.and_eq_true] at hxs
        obtain ⟨t, ts, hts, hh⟩ := toks_head y hxs.2.1
        refine ⟨t, ts ++ toksL r' ++ [tRP], by rw [toksL_cons, hts]; simp, ?_, hh.2.2.2.2.1⟩
        rw [beq_eq_false_iff_ne]; exact hh.2.1
    have := consumes_list_consI (f' + 1) (toSexp x) (callList r) (toks x) th tsh (toksL r ++ [tRP]) hth hok he tr tsr hrst hnb hni hrec
    simpa [toksL_cons, callList, List.append_assoc] using this
theorem parse_infix : (xs : List Src) → okL xs = true → ∀ (acc : List Sexp) (f : Nat), costSeq xs ≤ f + 1 →
    (acc ≠ [] ∨ xs ≠ []) →
    Consumes (parseInfix (f + 1) acc) (toksL xs ++ [tRC])
      (.pair (Parser.sym "infix") (.pair (.array (acc.reverse ++ elems xs) true) .null))
  | [], _, acc, f, _, hne => by
    have hacc : acc ≠ [] := by rcases hne with h | h; exact h; exact absurd rfl h
    have := consumes_infix_end f acc hacc
    simpa [toksL_nil, elems] using this
  | x :: r, hxs, acc, f, hf, _ => by
    simp only [okL, Bool.and_eq_true] at hxs
    simp only [costSeq] at hf
    obtain ⟨f', rfl⟩ : ∃ f', f = f' + 1 := ⟨f - 1, by omega⟩
    obtain ⟨th, tsh, hth, hok, hcons⟩ := parse_src x hxs.1 f' (by omega)
    have he : ConsumesN (parseExprNested (f' + 1)) (toks x) (toSexp x) := by
      rw [hth]; exact consumes_nestedN f' th tsh _ hcons
    have hrec := parse_infix r hxs.2 (toSexp x :: acc) f' (by omega) (Or.inl (by simp))
    have := consumes_infix_cons (f' + 1) acc (toSexp x) (toks x) th tsh (toksL r ++ [tRC]) _ hth hok he
      (noInf_seq r tRC hxs.2 (by decide)) hrec
    simpa [toksL_cons, elems, List.append_assoc] using this
end

end ZygoVerif.InfixRead
