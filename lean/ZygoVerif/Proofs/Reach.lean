/-
Reachability in a directed graph and the certificate lemma used by C08: a set that contains
the roots and is closed under the edge relation contains every node that any path from a
root can reach. Core Lean only.

The graph arrives from the extractor as an adjacency table `(source, label, target mask)`
(bit i of the mask = node i); `EdgeIn keep adj a b` is the edge relation it denotes once the
labels rejected by `keep` are dropped. Sets of nodes are `Nat` bit masks, so the closure
check is ~one big-number operation per table row and `decide +kernel` evaluates it quickly.
-/
namespace ZygoVerif.Reach

/-- `Path E a c`: `c` can be reached from `a` by following zero or more `E`-edges. -/
inductive Path (E : Nat → Nat → Prop) : Nat → Nat → Prop
  | refl (a : Nat) : Path E a a
  | step {a b c : Nat} : E a b → Path E b c → Path E a c

theorem Path.trans {E : Nat → Nat → Prop} {a b c : Nat} (p : Path E a b) (q : Path E b c) :
    Path E a c := by
  induction p with
  | refl => exact q
  | step h _ ih => exact Path.step h (ih q)

theorem Path.single {E : Nat → Nat → Prop} {a b : Nat} (h : E a b) : Path E a b :=
  Path.step h (Path.refl b)

/-- A path stays a path when edges are added. -/
theorem Path.mono {E E' : Nat → Nat → Prop} (hsub : ∀ a b, E a b → E' a b) {a c : Nat}
    (p : Path E a c) : Path E' a c := by
  induction p with
  | refl => exact Path.refl _
  | step h _ ih => exact Path.step (hsub _ _ h) ih

/-- The general lemma: `R` holds of the roots and is preserved by every edge ⇒ `R` holds of
everything reachable from a root. Induction on the path; nothing about the size of the
graph or the length of the path is assumed. -/
theorem closed_contains_reach {E : Nat → Nat → Prop} {roots : List Nat} {R : Nat → Prop}
    (hroots : ∀ r ∈ roots, R r)
    (hclosed : ∀ a b, E a b → R a → R b)
    {r p : Nat} (hr : r ∈ roots) (path : Path E r p) : R p := by
  have start : R r := hroots r hr
  clear hr
  induction path with
  | refl => exact start
  | step hab _ ih => exact ih (hclosed _ _ hab start)

/-! ### Adjacency tables and bit-mask certificates -/

/-- the edge relation of an adjacency table, labels filtered by `keep` -/
def EdgeIn (keep : Nat → Bool) (adj : List (Nat × Nat × Nat)) (a b : Nat) : Prop :=
  ∃ e ∈ adj, e.1 = a ∧ keep e.2.1 = true ∧ e.2.2.testBit b = true

/-- every kept row whose source is in `R` has all its targets in `R` -/
def closedB (R : Nat) (keep : Nat → Bool) (adj : List (Nat × Nat × Nat)) : Bool :=
  adj.all fun e => !keep e.2.1 || !R.testBit e.1 || (e.2.2 ||| R == R)

def containsB (R : Nat) (xs : List Nat) : Bool := xs.all fun x => R.testBit x

theorem mask_subset {m R : Nat} (h : (m ||| R == R) = true) (b : Nat) (hb : m.testBit b = true) :
    R.testBit b = true := by
  have e : m ||| R = R := by simpa using h
  have := Nat.testBit_or m R b
  rw [e, hb] at this
  simpa using this

theorem closedB_sound {R : Nat} {keep : Nat → Bool} {adj : List (Nat × Nat × Nat)}
    (h : closedB R keep adj = true) :
    ∀ a b, EdgeIn keep adj a b → R.testBit a = true → R.testBit b = true := by
  intro a b ⟨e, he, hsrc, hkeep, hbit⟩ ha
  have := List.all_eq_true.mp h e he
  simp only [Bool.or_eq_true, Bool.not_eq_true'] at this
  rcases this with (hk | hs) | hm
  · rw [hkeep] at hk; cases hk
  · rw [hsrc, ha] at hs; cases hs
  · exact mask_subset hm b hbit

/-- From a checked certificate: every node that a path from a root reaches is in the mask. -/
theorem reach_in_cert {R : Nat} {keep : Nat → Bool} {adj : List (Nat × Nat × Nat)} {roots : List Nat}
    (hroots : containsB R roots = true) (hclosed : closedB R keep adj = true)
    {r p : Nat} (hr : r ∈ roots) (path : Path (EdgeIn keep adj) r p) : R.testBit p = true :=
  closed_contains_reach (R := fun n => R.testBit n = true)
    (fun x hx => List.all_eq_true.mp hroots x hx) (closedB_sound hclosed) hr path

/-- … hence no path from a root to anything outside the mask. -/
theorem no_path_of_cert {R : Nat} {keep : Nat → Bool} {adj : List (Nat × Nat × Nat)} {roots : List Nat}
    (hroots : containsB R roots = true) (hclosed : closedB R keep adj = true) :
    ∀ r ∈ roots, ∀ p, R.testBit p = false → ¬ Path (EdgeIn keep adj) r p := by
  intro r hr p hp path
  rw [reach_in_cert hroots hclosed hr path] at hp
  cases hp

/-! ### Explicit paths (for counterexamples and "the analysis has teeth" witnesses) -/

def edgeB (keep : Nat → Bool) (adj : List (Nat × Nat × Nat)) (a b : Nat) : Bool :=
  adj.any fun e => e.1 == a && keep e.2.1 && e.2.2.testBit b

theorem edgeB_sound {keep : Nat → Bool} {adj : List (Nat × Nat × Nat)} {a b : Nat}
    (h : edgeB keep adj a b = true) : EdgeIn keep adj a b := by
  obtain ⟨e, he, hc⟩ := List.any_eq_true.mp h
  simp only [Bool.and_eq_true, beq_iff_eq] at hc
  exact ⟨e, he, hc.1.1, hc.1.2, hc.2⟩

/-- follow a list of nodes edge by edge -/
def walkB (keep : Nat → Bool) (adj : List (Nat × Nat × Nat)) (a : Nat) : List Nat → Option Nat
  | [] => some a
  | b :: rest => if edgeB keep adj a b then walkB keep adj b rest else none

theorem path_of_walk {keep : Nat → Bool} {adj : List (Nat × Nat × Nat)} {l : List Nat} {a c : Nat}
    (h : walkB keep adj a l = some c) : Path (EdgeIn keep adj) a c := by
  induction l generalizing a with
  | nil => simp only [walkB, Option.some.injEq] at h; subst h; exact Path.refl _
  | cons b rest ih =>
    simp only [walkB] at h
    split at h
    · next hab => exact Path.step (edgeB_sound hab) (ih h)
    · cases h

/-- Non-vacuity / sanity on a toy graph 0→1→2, 3→4 (masks: {1}=2, {2}=4, {4}=16): the mask
{0,1,2} = 7 is a certificate, 2 is reachable from 0, 4 is not. -/
example : containsB 7 [0] = true ∧ closedB 7 (fun _ => true) [(0,0,2),(1,0,4),(3,0,16)] = true := by decide
example : Path (EdgeIn (fun _ => true) [(0,0,2),(1,0,4),(3,0,16)]) 0 2 :=
  path_of_walk (l := [1, 2]) (by decide)
example : ¬ Path (EdgeIn (fun _ => true) [(0,0,2),(1,0,4),(3,0,16)]) 0 4 :=
  no_path_of_cert (R := 7) (roots := [0]) (by decide) (by decide) 0 (by decide) 4 (by decide)

end ZygoVerif.Reach
