/-
Proofs/GenBalancedInv.lean — the invariant that ties the generator's context (`Ctx.scopes`,
`Ctx.tail`, the compile-time loop stack and loop table of `GS`) to the abstract state of the
balance checker at the point where the form's code starts, and its preservation lemmas.
Also: whole functions from fragments (`verify_of_frag_ret`, `verify_of_frag_top`).
-/
import ZygoVerif.Proofs.GenBalancedState
set_option linter.unusedSimpArgs false
namespace ZygoVerif.Bal
open ZygoVerif.VM ZygoVerif.Core

/-! ## Names no call can have as its head -/

/-- the empty name and the generated names `__anon<n>` of anonymous functions -/
def anonLike (h : String) : Bool := h.isEmpty || (h.toList.take 6 == ['_', '_', 'a', 'n', 'o', 'n'])

theorem anonPrefix_toList : (toString "__anon").toList = ['_', '_', 'a', 'n', 'o', 'n'] := by decide

theorem anonLike_gen (n : Nat) : anonLike (s!"__anon{n}") = true := by
  simp [anonLike, String.toList_append, anonPrefix_toList]

theorem anonLike_empty : anonLike "" = true := by decide

/-! ## The invariant -/

/-- What the self tail call needs to know: the name the body is compiled under resolves (in the
generator's `knownFunctions`) to a registered template with the signature of the function being
checked, and the annotation of instruction 0 is the entry state. Names that no call of the
covered grammar can have as its head never reach the tail-call arm. -/
def SelfOK (c : Ctx) (gs : GS) (Γ : Env) : Prop :=
  anonLike c.funcname = true ∨
  ∃ (t : Nat) (fo : FnObj), c.known.lookup c.funcname = some t ∧ gs.fns[t]? = some fo ∧
    ∀ F A, Γ.side F A →
      annAt A 0 = some ⟨0, [], fo.nargs + (if fo.varargs then 1 else 0)⟩ ∧ F.varargs = fo.varargs ∧ F.nfixed = fo.nargs

/-- loop `id` of the compile-time loop stack is a loop of the function being checked: the
context has its record, its stack-mark is open in `σ`, and the generator's scope count says how
many scopes a `break` must pop -/
def LoopLocal (d : Nat) (scopes : Nat) (gs : GS) (Γ : Env) (T : List LoopRec) (σ : AState) (id : Nat) : Prop :=
  ∃ info ∈ Γ.loops, info.id = id ∧ info.brkOff = (T.getD id {}).breakOff ∧ info.contOff = (T.getD id {}).contOff ∧
    (∃ pre fr, cutTo id σ.frames = some (pre, fr, info.below)) ∧ σ.base = info.base ∧
    info.k = (gs.loops.getD id {}).scopeDepth + 1 + d ∧ (gs.loops.getD id {}).scopeDepth + 1 ≤ scopes

/-- **The invariant relating the generator context to the abstract state.**
`d` = 1 inside a function body (its own scope), 0 in a top-level text or helper. -/
structure GInv (d : Nat) (c : Ctx) (gs : GS) (Γ : Env) (T : List LoopRec) (σ : AState) : Prop where
  wf : σ.wf = true
  /-- `gen.scopes` counts the scopes opened since the function's own -/
  k : σ.k = c.scopes + d
  uniq : ∀ F A, Γ.side F A → LoopsUnique F.code
  /-- open stack-marks belong to loops that exist -/
  marks : ∀ m ∈ openMarks σ.frames, m < gs.loops.length
  /-- every loop a `break`/`continue` can name is a loop of this function (then the context
  knows it) or of an enclosing one (then it does not occur in this function) -/
  loops : ∀ id ∈ gs.loopstack, LoopLocal d c.scopes gs Γ T σ id ∨ (∀ F A, Γ.side F A → loopPos F.code id = none)
  /-- in tail position the function's own area is empty -/
  tail : c.tail = true → σ.frames = [] ∧ σ.base = 0 ∧ d = 1 ∧ SelfOK c gs Γ

theorem GInv.off {d : Nat} {c : Ctx} {gs : GS} {Γ : Env} {T : List LoopRec} {σ : AState} (h : GInv d c gs Γ T σ) :
    GInv d { c with tail := false } gs Γ T σ :=
  ⟨h.wf, h.k, h.uniq, h.marks, h.loops, fun ht => by cases ht⟩

/-- the same context with another value of the flag that is also off -/
theorem GInv.flag {d : Nat} {c : Ctx} {gs : GS} {Γ : Env} {T : List LoopRec} {σ : AState} (h : GInv d c gs Γ T σ)
    (t : Bool) (ht : t = false) : GInv d { c with tail := t } gs Γ T σ := by
  subst ht; exact h.off

theorem cutTo_bump (id : Nat) (σ : AState) (n : Nat) (below : List Frame)
    (h : ∃ pre fr, cutTo id σ.frames = some (pre, fr, below)) :
    (∃ pre fr, cutTo id (bump σ n).frames = some (pre, fr, below)) ∧ (bump σ n).base = σ.base := by
  obtain ⟨k, frames, base⟩ := σ
  cases frames with
  | nil => obtain ⟨pre, fr, h⟩ := h; simp [cutTo] at h
  | cons f rest =>
    obtain ⟨pre, fr, h⟩ := h
    refine ⟨?_, by simp [bump]⟩
    simp only [bump, cutTo] at h ⊢
    by_cases hk : f.kind = .mark id
    · simp only [hk, if_true] at h ⊢
      cases h
      exact ⟨_, _, rfl⟩
    · simp only [hk, if_false] at h ⊢
      cases hc : cutTo id rest with
      | none => rw [hc] at h; cases h
      | some v =>
        obtain ⟨p', f', r'⟩ := v
        rw [hc] at h
        cases h
        exact ⟨_, _, rfl⟩

theorem GInv.bump {d : Nat} {c : Ctx} {gs : GS} {Γ : Env} {T : List LoopRec} {σ : AState} (h : GInv d c gs Γ T σ)
    (ht : c.tail = false) (n : Nat) : GInv d c gs Γ T (bump σ n) := by
  refine ⟨by rw [wf_bump]; exact h.wf, by rw [bump_k]; exact h.k, h.uniq, by rw [openMarks_bump]; exact h.marks, ?_,
    fun ht' => by rw [ht] at ht'; cases ht'⟩
  intro id hid
  rcases h.loops id hid with ⟨info, hm, h1, h2, h3, h4, h5, h6, h7⟩ | hf
  · left
    obtain ⟨hc, hb⟩ := cutTo_bump id σ n info.below h4
    exact ⟨info, hm, h1, h2, h3, hc, by rw [hb]; exact h5, h6, h7⟩
  · right; exact hf

theorem SelfOK.ext {c : Ctx} {gs gs' : GS} {Γ : Env} (h : SelfOK c gs Γ) (he : Ext gs gs') : SelfOK c gs' Γ := by
  rcases h with h | ⟨t, fo, h1, h2, h3⟩
  · exact Or.inl h
  · refine Or.inr ⟨t, fo, h1, ?_, h3⟩
    have ht : t < gs.fns.length := by
      rcases Nat.lt_or_ge t gs.fns.length with h' | h'
      · exact h'
      · rw [List.getElem?_eq_none_iff.mpr h'] at h2; cases h2
    rw [he.fns_get t ht]; exact h2

theorem GInv.ext {d : Nat} {c : Ctx} {gs gs' : GS} {Γ : Env} {T : List LoopRec} {σ : AState} (h : GInv d c gs Γ T σ)
    (he : Ext gs gs') (hg : GSok gs) : GInv d c gs' Γ T σ := by
  refine ⟨h.wf, h.k, h.uniq, fun m hm => Nat.lt_of_lt_of_le (h.marks m hm) he.loops_len, ?_, ?_⟩
  · intro id hid
    rw [he.stack] at hid
    rcases h.loops id hid with ⟨info, hm, h1, h2, h3, h4, h5, h6, h7⟩ | hf
    · left
      have := he.loops_getD id (hg id hid)
      exact ⟨info, hm, h1, h2, h3, h4, h5, by rw [this]; exact h6, by rw [this]; exact h7⟩
    · right; exact hf
  · intro ht
    obtain ⟨a, b, c', s⟩ := h.tail ht
    exact ⟨a, b, c', s.ext he⟩

/-- entering a `let` / `newScope` -/
theorem GInv.deeper {d : Nat} {c : Ctx} {gs : GS} {Γ : Env} {T : List LoopRec} {σ : AState} (h : GInv d c gs Γ T σ) :
    GInv d { c with scopes := c.scopes + 1 } gs Γ T (deeper σ 1) := by
  refine ⟨by rw [wf_deeper]; exact h.wf, ?_, h.uniq, h.marks, ?_, ?_⟩
  · show σ.k + 1 = c.scopes + 1 + d
    have := h.k; omega
  · intro id hid
    rcases h.loops id hid with ⟨info, hm, h1, h2, h3, h4, h5, h6, h7⟩ | hf
    · left
      exact ⟨info, hm, h1, h2, h3, h4, h5, h6, Nat.le_succ_of_le h7⟩
    · right; exact hf
  · intro ht
    exact h.tail ht

theorem cutTo_inLoop_self (loop : Nat) (σ : AState) (c : Cnt) :
    cutTo loop (inLoop loop σ c).frames = some ([], ⟨.mark loop, c⟩, σ.frames) := by
  simp [inLoop, cutTo]

theorem cutTo_inLoop_ne (loop id : Nat) (σ : AState) (c : Cnt) (hne : id ≠ loop) (below : List Frame)
    (h : ∃ pre fr, cutTo id σ.frames = some (pre, fr, below)) :
    ∃ pre fr, cutTo id (inLoop loop σ c).frames = some (pre, fr, below) := by
  obtain ⟨pre, fr, h⟩ := h
  have : ¬ (FK.mark loop = FK.mark id) := by
    intro he; cases he; exact hne rfl
  simp only [inLoop, cutTo, this, if_false, h]
  exact ⟨_, _, rfl⟩

/-- entering a `for`: the loop is pushed on the compile-time loop stack, its record appended;
the state has one more scope and the loop's stack-mark on top -/
theorem GInv.enter {d : Nat} {c : Ctx} {gs : GS} {Γ : Env} {T : List LoopRec} {σ : AState} (h : GInv d c gs Γ T σ)
    (hg : GSok gs) (label : Option String) (cnt : Cnt) :
    GInv d { c with tail := false, scopes := c.scopes + 1 } (forGs gs c label)
      (Γ.enter (loopInfo gs.loops.length σ (T.getD gs.loops.length {}).breakOff (T.getD gs.loops.length {}).contOff)) T
      (inLoop gs.loops.length σ cnt) := by
  have hfresh : gs.loops.length ∉ openMarks σ.frames := fun hm => Nat.lt_irrefl _ (h.marks _ hm)
  refine ⟨inLoop_wf _ σ cnt h.wf hfresh, ?_, h.uniq, ?_, ?_, fun ht => by cases ht⟩
  · show σ.k + 1 = c.scopes + 1 + d
    have := h.k; omega
  · intro m hm
    simp only [inLoop, openMarks, List.mem_cons] at hm
    simp only [forGs, List.length_append, List.length_cons, List.length_nil]
    rcases hm with rfl | hm
    · omega
    · have := h.marks m hm; omega
  · intro id hid
    simp only [forGs, List.mem_cons] at hid
    rcases hid with rfl | hid
    · left
      refine ⟨_, List.mem_cons_self, rfl, rfl, rfl, ⟨_, _, cutTo_inLoop_self _ σ cnt⟩, rfl, ?_, ?_⟩
      · rw [forGs_getD_self]
        show σ.k + 1 = c.scopes + 1 + d
        have := h.k; omega
      · rw [forGs_getD_self]
        exact Nat.le_refl _
    · have hlt := hg id hid
      rcases h.loops id hid with ⟨info, hm, h1, h2, h3, h4, h5, h6, h7⟩ | hf
      · left
        have hget : (forGs gs c label).loops.getD id {} = gs.loops.getD id {} := forGs_getD id hlt
        refine ⟨info, List.mem_cons_of_mem _ hm, h1, h2, h3,
          cutTo_inLoop_ne _ id σ cnt (by omega) info.below h4, h5, by rw [hget]; exact h6, ?_⟩
        rw [hget]
        exact Nat.le_succ_of_le h7
      · right; exact hf

/-! ## Whole functions from fragments -/

/-- one value, no open region, no open scope: what `ret` demands -/
def retState : AState := ⟨0, [], 1⟩

/-- a fragment from the entry state to "one value, no scope", followed by `ret`, is a verified
function (closure body or helper) -/
theorem verify_of_frag_ret (Γ : Env) (F : Fn) (code : List BInstr) (mid : List AState)
    (hF : F.code = code ++ [.ret false])
    (h : FragOK Γ code (F.entry :: mid ++ [retState]))
    (henv : EnvOK Γ F ((F.entry :: mid ++ [retState]).map some ++ [none])) :
    verify F ((F.entry :: mid ++ [retState]).map some ++ [none]) = true := by
  obtain ⟨hl, hw, hkk⟩ := h
  have hlen : mid.length + 1 = code.length := by simp at hl; omega
  unfold verify
  simp only [Bool.and_eq_true]
  refine ⟨⟨⟨?_, ?_⟩, ?_⟩, ?_⟩
  · rw [hF]; simp; omega
  · have h0 : annAt ((F.entry :: mid ++ [retState]).map some ++ [none]) 0 = some F.entry := by
      rw [annAt_append_none _ 0 (by simp)]; rfl
    unfold succOk
    simp only [h0]
    exact le_refl _
  · apply List.all_eq_true.mpr
    intro pc hpc
    have hpc' := List.mem_range.mp hpc
    rw [hF] at hpc'
    simp only [List.length_append, List.length_cons, List.length_nil] at hpc'
    rcases Nat.lt_or_ge pc code.length with hlt | hge
    · have := hkk F ((F.entry :: mid ++ [retState]).map some ++ [none]) 0
        ⟨fun i hi => by rw [hF]; simp [List.getElem?_append_left hi],
         fun i hi => by rw [Nat.zero_add]; exact annAt_append_none _ i hi⟩
        henv pc hlt
      simpa using this
    · have hpe : pc = code.length := by omega
      subst hpe
      have hlast : annAt ((F.entry :: mid ++ [retState]).map some ++ [none]) code.length
          = some retState := by
        rw [annAt_append_none _ _ (by simp at hl ⊢; omega), ← hlen]
        have : (F.entry :: (mid ++ [retState]))[mid.length + 1]? = some retState := by
          rw [List.getElem?_cons_succ, List.getElem?_append_right (Nat.le_refl _)]
          simp
        simpa using this
      refine okAt_intro _ _ _ (.ret false) retState [] (by rw [hF]; simp) hlast (by simp [retState, AState.wf, openMarks]) ?_
        (fun p hp => by cases hp)
      simp [astep, eff, retState]
  · unfold endOk
    have hnone : annAt ((F.entry :: mid ++ [retState]).map some ++ [none]) F.code.length = none := by
      unfold annAt
      have : (List.map some (F.entry :: mid ++ [retState]) ++ [none])[F.code.length]? = some none := by
        have hidx : F.code.length = (List.map some (F.entry :: mid ++ [retState])).length := by
          rw [hF]; simp; omega
        rw [hidx, List.getElem?_append_right (Nat.le_refl _)]
        simp
      rw [this]; rfl
    simp only [hnone]

/-- a fragment from "nothing pushed" to "one value pushed" in a context whose side condition
holds for the text itself is a verified top-level text -/
theorem verify_of_frag_top (Γ : Env) (code : List BInstr) (mid : List AState)
    (h : FragOK Γ code (restState :: mid ++ [bump restState 1]))
    (henv : EnvOK Γ { kind := .top, code := code } ((restState :: mid ++ [bump restState 1]).map some)) :
    verify { kind := .top, code := code } ((restState :: mid ++ [bump restState 1]).map some) = true := by
  obtain ⟨hl, hw, hk⟩ := h
  have hlen : mid.length + 1 = code.length := by simp at hl; omega
  unfold verify
  simp only [Bool.and_eq_true]
  refine ⟨⟨⟨?_, ?_⟩, ?_⟩, ?_⟩
  · simp; omega
  · have h0 : annAt ((restState :: mid ++ [bump restState 1]).map some) 0 = some restState := by
      rw [annAt_map_some]; rfl
    unfold succOk
    simp only [h0]
    exact le_refl restState
  · apply List.all_eq_true.mpr
    intro pc hpc
    have hpc' := List.mem_range.mp hpc
    have := hk { kind := .top, code := code } ((restState :: mid ++ [bump restState 1]).map some) 0
      ⟨fun i _ => by simp, fun i _ => by rw [Nat.zero_add]; exact annAt_map_some _ i⟩
      henv pc hpc'
    simpa using this
  · unfold endOk
    have hlast : annAt ((restState :: mid ++ [bump restState 1]).map some) code.length = some (bump restState 1) := by
      rw [annAt_map_some, ← hlen]
      have : (restState :: (mid ++ [bump restState 1]))[mid.length + 1]? = some (bump restState 1) := by
        rw [List.getElem?_cons_succ, List.getElem?_append_right (Nat.le_refl _)]
        simp
      simpa using this
    simp only [hlast]
    simp [bump, restState]

end ZygoVerif.Bal
