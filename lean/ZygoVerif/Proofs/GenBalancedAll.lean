/-
Proofs/GenBalancedAll.lean — the mutual induction over the eight `compile*` functions of
Model/Gen.lean for the whole core grammar (`okL`): loops, break/continue, function templates,
self tail calls. See Proofs/GenBalancedLoopGen.lean for the shapes of the conclusions.
-/
import ZygoVerif.Proofs.GenBalancedLoopGen
set_option linter.unusedSimpArgs false
set_option linter.unusedVariables false
namespace ZygoVerif.Bal
open ZygoVerif.VM ZygoVerif.Core

/-! ## Atoms and templates -/

theorem ilids_single (i : Instr) (h : ilid? i = none) : ilids [i] = [] := by
  rw [ilids_plain_cons _ _ h]; rfl

/-- one instruction that pushes one value -/
theorem res_atom (c : Ctx) (gs : GS) (i : Instr) (hp : ilid? i = none) (he : ∀ T, eff (toB T i) = .simple 0 1) :
    idsIn [i] gs.loops.length gs.loops.length ∧ Res gs gs (fun T => FragE c gs T [i]) :=
  ⟨idsIn_of_plain _ _ (ilids_single i hp),
   Res.pure (fun T d Γ σ hinv => by simpa [B] using efrag_push Γ (toB T i) σ hinv.wf (he T))⟩

theorem GSok.alloc {gs : GS} (h : GSok gs) (isFn : Nat → Bool) (name : String) (ps : List String) (rest : Option String) :
    GSok (allocGs isFn gs name ps rest) := h

theorem params_len (ps : List String) (rest : Option String) :
    (ps ++ rest.toList).length = ps.length + (if rest.isSome then 1 else 0) := by
  cases rest <;> simp

theorem selfOK_body (isFn : Nat → Bool) (c : Ctx) (gs : GS) (name : String) (ps : List String) (rest : Option String)
    (selfTail : Bool) :
    SelfOK (bodyCtx c gs name selfTail) (allocGs isFn gs name ps rest) (fnEnv gs.loops.length ps.length rest.isSome) := by
  cases selfTail with
  | false => left; exact anonLike_empty
  | true =>
    by_cases hn : name.isEmpty = true
    · left
      simp only [bodyCtx, if_true, tmplName, hn]
      exact anonLike_gen _
    · right
      refine ⟨gs.fns.length, tmplOf isFn gs name ps rest, ?_, ?_, ?_⟩
      · simp [bodyCtx, tmplName, hn, List.lookup]
      · simp [allocGs]
      · intro F A h
        exact h.2.2

/-- the body of a template, compiled in the template's own context, makes the template a
verified function; templates nested in the body are verified too -/
theorem template_res (isFn : Nat → Bool) (c : Ctx) (gs g2 : GS) (name : String) (ps : List String) (rest : Option String)
    (selfTail : Bool) (body : List Expr) (b : List Instr) (hne : body ≠ []) (hgs : GSok gs)
    (hids : idsIn b gs.loops.length g2.loops.length)
    (ih : Res (allocGs isFn gs name ps rest) g2
      (fun T => body ≠ [] → FragE (bodyCtx c gs name selfTail) (allocGs isFn gs name ps rest) T b)) :
    Res gs (finishGs gs.fns.length b g2) (fun _ => True) := by
  refine ⟨Ext.finish ih.ext, fun T hT => ⟨?_, trivial⟩⟩
  have hT' : TOk (allocGs isFn gs name ps rest) g2 T := hT
  obtain ⟨hf2, hfr⟩ := ih.sem T hT'
  intro i f hi hf
  by_cases hit : i = gs.fns.length
  · subst hit
    rw [finishGs_get_self ih.ext] at hf
    cases hf
    refine fn_verified T _ gs.fns.length gs.loops.length g2.loops.length b rfl (params_len ps rest) hids ?_
    have hinv : GInv 1 (bodyCtx c gs name selfTail) (allocGs isFn gs name ps rest)
        (fnEnv gs.loops.length ps.length rest.isSome) T ⟨1, [], 0⟩ := by
      refine ⟨by simp [AState.wf, openMarks], rfl, fun F A h => h.1, fun m hm => by simp [openMarks] at hm, ?_, ?_⟩
      · intro id hid
        right
        intro F A h
        exact h.2.1 id (hgs id hid)
      · intro _
        exact ⟨rfl, rfl, rfl, selfOK_body isFn c gs name ps rest selfTail⟩
    exact hfr hne 1 _ _ hinv
  · rw [finishGs_get_ne (Ne.symm hit)] at hf
    refine hf2 i f ?_ hf
    simp only [allocGs, List.length_append, List.length_cons, List.length_nil]
    omega

theorem ilids_popBinds (bs : List (String × Expr)) : ilids ((bs.map (fun p => Instr.popStackPutEnv p.1)).reverse) = [] := by
  rw [← List.map_reverse]
  induction bs.reverse with
  | nil => rfl
  | cons x xs ih => rw [List.map_cons, ilids_plain_cons _ _ rfl]; exact ih

theorem idsIn_asmSC_cons (isOr : Bool) (a : List Instr) (rest : List (List Instr)) (lo mid hi : Nat)
    (h1 : lo ≤ mid) (h2 : mid ≤ hi) (ha : idsIn a mid hi) (hr : idsIn (asmSC isOr rest) lo mid) :
    idsIn (asmSC isOr (a :: rest)) lo hi := by
  cases rest with
  | nil => simpa [asmSC] using idsIn_mono ha h1 (Nat.le_refl _)
  | cons r rs =>
    have hp : ilids [Instr.dup, Instr.branch isOr (((asmSC isOr (r :: rs)).length : Int) + 2), Instr.pop] = [] := rfl
    have := idsIn_app' (idsIn_plain ha hp).1 hr h1 h2
    simpa [asmSC, List.append_assoc] using this

/-- the arity test of `GenerateCallBySymbol` (fix C04-04): the known function, if any, takes `n` arguments -/
def arityFits (fo : Option FnObj) (n : Nat) : Bool :=
  match fo with
  | some fo => if fo.varargs then decide (fo.nargs ≤ n) else n == fo.nargs
  | none => true

/-- a call whose head is a symbol: one ordinary call, or — in tail position, under the function's
own name, with a fitting number of operands — the guard (fix C09-02), the operands inline, the
tail sequence, and behind the jump the ordinary call the guard skips to -/
theorem compile_call_sym_inv (isFn : Nat → Bool) (c : Ctx) (hd : String) (args : List Expr) (gs : GS)
    (code : List Instr) (t : Bool) (gs' : GS)
    (h : compile isFn c (.call (.sym hd) args) gs = Except.ok ((code, t), gs')) :
    (code = [Instr.callExpr (.sym hd) args] ∧ t = c.tail ∧ gs = gs') ∨
    (c.tail = true ∧ hd = c.funcname ∧ t = c.tail ∧
      arityFits ((c.known.lookup hd).bind fun t => gs.fns[t]?) args.length = true ∧
      ∃ argcode, compileCallArgs isFn { c with tail := false } ((c.known.lookup hd).bind fun t => gs.fns[t]?) 0 args gs
          = Except.ok (argcode, gs') ∧
        code = [Instr.tailGuard hd (argcode.length + c.scopes + 4)] ++ argcode ++ [Instr.prepareCall hd args.length] ++
          List.replicate (c.scopes + 1) Instr.removeScope ++ [Instr.goto 0, Instr.callExpr (.sym hd) args]) := by
  simp only [compile] at h
  by_cases hself : (c.tail && hd == c.funcname) = true
  · simp only [hself, ↓reduceIte, bind_ok, get_ok] at h
    obtain ⟨g, gs1, heq, h⟩ := h
    cases heq
    simp only [Bool.and_eq_true, beq_iff_eq] at hself
    generalize hfo : ((c.known.lookup hd).bind fun t => gs.fns[t]?) = fo at h ⊢
    cases fo with
    | none =>
      simp only [↓reduceIte, bind_ok, pure_ok] at h
      obtain ⟨code', gs2, hc, heq⟩ := h
      cases heq
      exact Or.inr ⟨hself.1, hself.2, rfl, rfl, code', hc, rfl⟩
    | some fo =>
      simp only at h
      by_cases har : (if fo.varargs = true then decide (fo.nargs ≤ args.length) else args.length == fo.nargs) = true
      · simp only [har, ↓reduceIte, bind_ok, pure_ok] at h
        obtain ⟨code', gs2, hc, heq⟩ := h
        cases heq
        exact Or.inr ⟨hself.1, hself.2, rfl, har, code', hc, rfl⟩
      · simp only [har, Bool.false_eq_true, ↓reduceIte, pure_ok] at h
        cases h
        exact Or.inl ⟨rfl, rfl, rfl⟩
  · simp only [hself, Bool.false_eq_true, ↓reduceIte, pure_ok] at h
    cases h
    exact Or.inl ⟨rfl, rfl, rfl⟩

/-! ## The induction -/

mutual

theorem balL_compile (isFn : Nat → Bool) : ∀ (e : Expr) (c : Ctx) (gs : GS) (code : List Instr) (t : Bool) (gs' : GS),
    okL e = true → GSok gs → compile isFn c e gs = Except.ok ((code, t), gs') →
    (c.tail = false → t = false) ∧ idsIn code gs.loops.length gs'.loops.length ∧
      Res gs gs' (fun T => FragE c gs T code)
  | .int v, c, gs, code, t, gs', _, _, h => by
    simp only [compile, pure_ok] at h
    cases h
    exact ⟨fun h => h, res_atom c gs _ rfl (fun _ => rfl)⟩
  | .bool v, c, gs, code, t, gs', _, _, h => by
    simp only [compile, pure_ok] at h
    cases h
    exact ⟨fun h => h, res_atom c gs _ rfl (fun _ => rfl)⟩
  | .str v, c, gs, code, t, gs', _, _, h => by
    simp only [compile, pure_ok] at h
    cases h
    exact ⟨fun h => h, res_atom c gs _ rfl (fun _ => rfl)⟩
  | .nilLit, c, gs, code, t, gs', _, _, h => by
    simp only [compile, pure_ok] at h
    cases h
    exact ⟨fun h => h, res_atom c gs _ rfl (fun _ => rfl)⟩
  | .sym x, c, gs, code, t, gs', _, _, h => by
    simp only [compile, pure_ok] at h
    cases h
    exact ⟨fun h => h, res_atom c gs _ rfl (fun _ => rfl)⟩
  | .def_ x e, c, gs, code, t, gs', hok, hgs, h => by
    simp only [compile, bind_ok, pure_ok] at h
    obtain ⟨⟨code1, t1⟩, gs1, h1, heq⟩ := h
    simp only [okL] at hok
    obtain ⟨_, hids, hres⟩ := balL_compile isFn e { c with tail := false } gs code1 t1 gs1 hok hgs h1
    cases heq
    refine ⟨fun _ => rfl, (idsIn_plain hids rfl).1, hres.mono (fun T _ hf d Γ σ hinv => ?_)⟩
    have a := hf d Γ σ hinv.off
    have d' := efrag_dup Γ σ 0 hinv.wf
    have p := frag_simple_at (.popStackPutEnv x) 1 0 2 (fun _ => rfl) (by omega) Γ T σ hinv.wf
    simpa [B, toB] using efrag_seq (efrag_seq a d') p
  | .set_ x e, c, gs, code, t, gs', hok, hgs, h => by
    simp only [compile, bind_ok, pure_ok] at h
    obtain ⟨⟨code1, t1⟩, gs1, h1, heq⟩ := h
    simp only [okL] at hok
    obtain ⟨_, hids, hres⟩ := balL_compile isFn e { c with tail := false } gs code1 t1 gs1 hok hgs h1
    cases heq
    refine ⟨fun _ => rfl, (idsIn_plain hids rfl).1, hres.mono (fun T _ hf d Γ σ hinv => ?_)⟩
    have a := hf d Γ σ hinv.off
    have d' := efrag_dup Γ σ 0 hinv.wf
    have p := frag_simple_at (.update x) 1 0 2 (fun _ => rfl) (by omega) Γ T σ hinv.wf
    simpa [B, toB] using efrag_seq (efrag_seq a d') p
  | .arr es, c, gs, code, t, gs', hok, hgs, h => by
    simp only [compile, bind_ok, pure_ok] at h
    obtain ⟨⟨code1, t1⟩, gs1, h1, heq⟩ := h
    simp only [okL] at hok
    obtain ⟨_, hids, hres⟩ := balL_compileAll isFn es { c with tail := false } gs code1 t1 gs1 hok hgs rfl h1
    cases heq
    refine ⟨fun h => h, (idsIn_plain hids rfl).1, hres.mono (fun T _ hf d Γ σ hinv => ?_)⟩
    have a := hf d Γ σ hinv.off
    have p := frag_simple_at (.callArr es.length) es.length 1 es.length (fun _ => rfl) (Nat.le_refl _) Γ T σ hinv.wf
    rw [Nat.sub_self, Nat.zero_add] at p
    simpa [B] using sfrag_seq_e a p
  | .call f args, c, gs, code, t, gs', hok, hgs, h => by
    -- either the head is a symbol, or the form is one ordinary call
    have hcases : (∃ hd, f = .sym hd) ∨ (code = [Instr.callExpr f args] ∧ t = c.tail ∧ gs = gs') := by
      cases f <;> first
        | (left; exact ⟨_, rfl⟩)
        | (right; simp only [compile, pure_ok] at h; cases h; exact ⟨rfl, rfl, rfl⟩)
    rcases hcases with ⟨hd, rfl⟩ | ⟨rfl, rfl, rfl⟩
    · simp only [okL, Bool.and_eq_true, Bool.not_eq_true'] at hok
      rcases compile_call_sym_inv isFn c hd args gs code t gs' h with ⟨rfl, rfl, rfl⟩ | ⟨htail, hname, rfl, harity, argcode, hargs, rfl⟩
      · exact ⟨fun h => h, res_atom c gs _ rfl (fun _ => rfl)⟩
      · -- the self tail call
        obtain ⟨hids, hres⟩ := balL_compileCallArgs isFn args { c with tail := false }
          ((c.known.lookup hd).bind (fun t => gs.fns[t]?)) 0 gs argcode gs' hok.2 hgs rfl hargs
        have hr : ∀ n, ilids (List.replicate n Instr.removeScope) = [] := by
          intro n
          induction n with
          | zero => rfl
          | succ n ih => rw [List.replicate_succ, ilids_plain_cons _ _ rfl]; exact ih
        have hplain : ilids ([Instr.prepareCall hd args.length] ++ List.replicate (c.scopes + 1) Instr.removeScope ++
            [Instr.goto 0, Instr.callExpr (.sym hd) args]) = [] := by
          have h2 : ilids [Instr.goto 0, Instr.callExpr (.sym hd) args] = [] := rfl
          simp only [ilids_append, hr, ilids_single _ (rfl : ilid? (Instr.prepareCall hd args.length) = none), h2,
            List.append_nil]
        refine ⟨fun h => h, ?_, hres.mono (fun T _ hf d Γ σ hinv => ?_)⟩
        · have h1 := (idsIn_plain hids hplain).1
          have h2 := (idsIn_plain h1 (rfl : ilids [Instr.tailGuard hd (argcode.length + c.scopes + 4)] = [])).2
          simpa [List.append_assoc] using h2
        · obtain ⟨hfr, hb, hd1, hso⟩ := hinv.tail htail
          rcases hso with hanon | ⟨t0, fo, hl, hget, hside⟩
          · rw [← hname, hok.1] at hanon; cases hanon
          · have a := hf d Γ σ hinv.off
            rw [hname, hl] at harity
            simp only [Option.bind_some, hget, arityFits] at harity
            have har : if fo.varargs then fo.nargs ≤ args.length else args.length = fo.nargs := by
              cases hv : fo.varargs with
              | true => rw [hv] at harity; simpa using harity
              | false => rw [hv] at harity; simpa using harity
            have hk : σ.k = c.scopes + 1 := by have := hinv.k; omega
            -- operands and tail sequence: from σ, nothing falls through; annotated σ behind the jump
            have tc := efrag_tailcall Γ T hd args.length c.scopes σ fo hinv.wf hfr hb hk hside har σ hinv.wf
            have x := sfrag_seq_e a tc
            have hlen : ((B T argcode ++ B T ([Instr.prepareCall hd args.length] ++
                List.replicate (c.scopes + 1) Instr.removeScope ++ [Instr.goto 0])).length : Int)
                + 1 = ((argcode.length + c.scopes + 4 : Nat) : Int) := by
              simp only [List.length_append, B_length, List.length_cons, List.length_nil, List.length_replicate]
              push_cast; omega
            have g := efrag_guard_skip (Γ := Γ) ((argcode.length + c.scopes + 4 : Nat) : Int) hlen.symm hinv.wf x
            have call := efrag_push Γ (.callExpr args.length) σ hinv.wf rfl
            have := efrag_seq g call
            simpa [B, toB, List.append_assoc] using this
    · exact ⟨fun h => h, res_atom c gs _ rfl (fun _ => rfl)⟩
  | .begin_ es, c, gs, code, t, gs', hok, hgs, h => by
    simp only [okL] at hok
    cases es with
    | nil =>
      simp only [compile, pure_ok] at h
      cases h
      exact ⟨fun h => h, res_atom c gs _ rfl (fun _ => rfl)⟩
    | cons e es =>
      simp only [compile] at h
      obtain ⟨hfl, hids, _, hres⟩ := balL_compileBegin isFn (e :: es) c gs code t gs' hok hgs h
      exact ⟨hfl, hids, hres.mono (fun T _ hf => hf (by simp))⟩
  | .cond arms dflt, c, gs, code, t, gs', hok, hgs, h => by
    simp only [compile, bind_ok, pure_ok] at h
    obtain ⟨⟨dc, td⟩, gs1, h1, as, gs2, h2, heq⟩ := h
    simp only [okL, Bool.and_eq_true] at hok
    obtain ⟨_, idd, Rd⟩ := balL_compile isFn dflt c gs dc td gs1 hok.2 hgs h1
    obtain ⟨ida, Ra⟩ := balL_compileArms isFn arms c gs1 as gs2 hok.1 (hgs.ext Rd.ext) h2
    cases heq
    refine ⟨fun h => h, ida dc gs.loops.length Rd.ext.loops_len idd, (Rd.seq Ra).mono (fun T _ hf d Γ σ hinv => ?_)⟩
    obtain ⟨hd, ha⟩ := hf
    exact bal_asmCond Γ T σ (bump σ 1) hinv.wf dc (hd d Γ σ hinv) as
      (fun a hm => ha a hm d Γ σ (hinv.ext Rd.ext hgs))
  | .and_ es, c, gs, code, t, gs', hok, hgs, h => by
    simp only [compile, bind_ok, pure_ok] at h
    obtain ⟨cs, gs1, h1, heq⟩ := h
    simp only [okL] at hok
    obtain ⟨ids, Rs⟩ := balL_compileSC isFn es c gs cs gs1 hok hgs h1
    cases heq
    refine ⟨fun h => h, ids false, Rs.mono (fun T _ hf d Γ σ hinv => ?_)⟩
    cases cs with
    | nil => simpa [asmSC, B, toB] using efrag_push Γ .push σ hinv.wf rfl
    | cons x xs => exact bal_asmSC Γ T false σ hinv.wf (x :: xs) (by simp) (fun y hy => hf y hy d Γ σ hinv)
  | .or_ es, c, gs, code, t, gs', hok, hgs, h => by
    simp only [compile, bind_ok, pure_ok] at h
    obtain ⟨cs, gs1, h1, heq⟩ := h
    simp only [okL] at hok
    obtain ⟨ids, Rs⟩ := balL_compileSC isFn es c gs cs gs1 hok hgs h1
    cases heq
    refine ⟨fun h => h, ids true, Rs.mono (fun T _ hf d Γ σ hinv => ?_)⟩
    cases cs with
    | nil => simpa [asmSC, B, toB] using efrag_push Γ .push σ hinv.wf rfl
    | cons x xs => exact bal_asmSC Γ T true σ hinv.wf (x :: xs) (by simp) (fun y hy => hf y hy d Γ σ hinv)
  | .let_ seq bs body, c, gs, code, t, gs', hok, hgs, h => by
    simp only [compile, bind_ok, pure_ok] at h
    obtain ⟨⟨rhs, t1⟩, gs1, h1, ⟨b, t2⟩, gs2, h2, heq⟩ := h
    simp only [okL, Bool.and_eq_true, Bool.not_eq_true', List.isEmpty_eq_false_iff] at hok
    obtain ⟨⟨hokb, hne⟩, hokbody⟩ := hok
    obtain ⟨_, idr, Rr⟩ := balL_compileBinds isFn bs { c with scopes := c.scopes + 1, tail := false } seq gs rhs t1 gs1 hokb hgs rfl h1
    obtain ⟨ht2, idb, _, Rb⟩ := balL_compileBegin isFn body { c with scopes := c.scopes + 1 } gs1 b t2 gs2 hokbody (hgs.ext Rr.ext) h2
    cases heq
    refine ⟨ht2, ?_, (Rr.seq Rb).mono (fun T _ hf d Γ σ hinv => ?_)⟩
    · have hbinds : ilids (if seq then [] else (bs.map (fun p => Instr.popStackPutEnv p.1)).reverse) = [] := by
        cases seq
        · exact ilids_popBinds bs
        · rfl
      have s1 := (idsIn_plain idr (rfl : ilids [Instr.addScope] = [])).2
      have s2 := (idsIn_plain s1 hbinds).1
      have s3 := idsIn_app s2 idb Rr.ext.loops_len Rb.ext.loops_len
      exact (idsIn_plain s3 (rfl : ilids [Instr.removeScope] = [])).1
    · obtain ⟨hr, hb⟩ := hf
      have hσ := hinv.wf
      have hσ' : (deeper σ 1).wf = true := by rw [wf_deeper]; exact hσ
      have up := efrag_scopeUp Γ .addScope σ hσ rfl
      have r := hr d Γ (deeper σ 1) hinv.deeper.off
      have body' := hb hne d Γ (deeper σ 1) (hinv.deeper.ext Rr.ext hgs)
      have down := efrag_scopeDown Γ (bump σ 1) (by rw [wf_bump]; exact hσ)
      rw [← bump_deeper] at down
      cases seq with
      | true =>
        simp only [if_true] at r
        rw [bump_zero] at r
        have := efrag_seq (efrag_seq (efrag_seq_s up r) body') down
        simpa [B, toB, List.append_assoc] using this
      | false =>
        simp only [Bool.false_eq_true, if_false] at r
        have binds : SeqFrag Γ (B T ((bs.map (fun p => Instr.popStackPutEnv p.1)).reverse)) (bump (deeper σ 1) bs.length) (deeper σ 1) :=
          popBinds Γ T bs (deeper σ 1) hσ'
        have := efrag_seq (efrag_seq (efrag_seq_s (efrag_seq_s up r) binds) body') down
        simpa [B, toB, List.append_assoc] using this
  | .newScope es, c, gs, code, t, gs', hok, hgs, h => by
    simp only [okL] at hok
    cases es with
    | nil =>
      simp only [compile, pure_ok] at h
      cases h
      exact ⟨fun _ => rfl, res_atom c gs _ rfl (fun _ => rfl)⟩
    | cons e es =>
      simp only [compile, bind_ok, pure_ok] at h
      obtain ⟨⟨code1, t1⟩, gs1, h1, heq⟩ := h
      obtain ⟨ht, ids, Rn⟩ := balL_compileNewScope isFn (e :: es) { c with scopes := c.scopes + 1 } c.tail gs code1 t1 gs1 hok (by simp) hgs h1
      cases heq
      refine ⟨ht, ?_, Rn.mono (fun T _ hf d Γ σ hinv => ?_)⟩
      · have s1 := (idsIn_plain ids (rfl : ilids [Instr.addScope] = [])).2
        exact (idsIn_plain s1 (rfl : ilids [Instr.removeScope] = [])).1
      · have hσ := hinv.wf
        have up := efrag_scopeUp Γ .addScope σ hσ rfl
        have body' := hf d Γ (deeper σ 1) hinv.deeper
        have down := efrag_scopeDown Γ (bump σ 1) (by rw [wf_bump]; exact hσ)
        rw [← bump_deeper] at down
        simpa [B, toB, List.append_assoc] using efrag_seq (efrag_seq up body') down
  | .for_ label init test incr body, c, gs, code, t, gs', hok, hgs, h => by
    obtain ⟨⟨bc, bt⟩, g2, ⟨ic, it⟩, g3, ⟨tc, tt⟩, g4, ⟨sc, st⟩, g5, hb, hi, ht, hs, heq⟩ :=
      compile_for_ok isFn c label init test incr body gs _ h
    cases heq
    simp only [okL, Bool.and_eq_true] at hok
    obtain ⟨⟨⟨hoi, hot⟩, hos⟩, hob⟩ := hok
    have hgA := hgs.for_ c label
    obtain ⟨_, idb, hbnil, Rb⟩ := balL_compileBegin isFn body { c with tail := false, scopes := c.scopes + 1 }
      (forGs gs c label) bc bt g2 hob hgA hb
    have hg2 := hgA.ext Rb.ext
    obtain ⟨_, idi, Ri⟩ := balL_compile isFn init { c with tail := false, scopes := c.scopes + 1 } g2 ic it g3 hoi hg2 hi
    have hg3 := hg2.ext Ri.ext
    obtain ⟨_, idt, Rt⟩ := balL_compile isFn test { c with tail := false, scopes := c.scopes + 1 } g3 tc tt g4 hot hg3 ht
    have hg4 := hg3.ext Rt.ext
    obtain ⟨_, ids, Rs⟩ := balL_compile isFn incr { c with tail := false, scopes := c.scopes + 1 } g4 sc st g5 hos hg4 hs
    have e25 := ((Rb.ext.trans Ri.ext).trans Rt.ext).trans Rs.ext
    have hlenA : (forGs gs c label).loops.length = gs.loops.length + 1 := by simp [forGs]
    have hlen5 : (forDone g5 gs.loops.length (forBrk gs.loops.length ic tc sc bc) (forCont gs.loops.length ic tc sc bc)).loops.length
        = g5.loops.length := by simp [forDone]
    refine ⟨fun h => h, ?_, ⟨Ext.for_ e25, fun T hT => ?_⟩⟩
    · rw [hlen5]
      rw [hlenA] at idb
      have l1 := Rb.ext.loops_len
      rw [hlenA] at l1
      exact idsIn_for gs.loops.length ic tc sc bc _ _ _ _ idb idi idt ids l1 Ri.ext.loops_len Rt.ext.loops_len Rs.ext.loops_len
    · have l5 := e25.loops_len
      rw [hlenA] at l5
      have hT5 : TOk (forGs gs c label) g5 T := by
        intro l hlo hhi
        rw [hlenA] at hlo
        rw [hT l (by omega) (by rw [hlen5]; exact hhi), forDone_getD_ne (by omega)]
      obtain ⟨hf, ⟨⟨pb, pi⟩, pt⟩, ps⟩ := (((Rb.seq Ri).seq Rt).seq Rs).sem T hT5
      have hTl := hT gs.loops.length (Nat.le_refl _) (by rw [hlen5]; omega)
      obtain ⟨hbo, hco⟩ := forDone_getD_self (brk := forBrk gs.loops.length ic tc sc bc)
        (cont := forCont gs.loops.length ic tc sc bc) e25
      refine ⟨hf, frag_forCode c gs hgs label T ic tc sc bc g2 g3 g4 Rb.ext Ri.ext Rt.ext
        ⟨by rw [hTl]; exact hbo, by rw [hTl]; exact hco⟩ ?_ pi pt ps⟩
      by_cases hbe : body = []
      · left; exact hbnil hbe
      · right; exact pb hbe
  | .break_ l, c, gs, code, t, gs', _, hgs, h => by
    simp only [compile, bind_ok, get_ok] at h
    obtain ⟨_, _, hg, h⟩ := h
    cases hg
    cases hf : findLoop gs l with
    | none =>
      simp only [hf] at h
      exact absurd h (throw_ok _ _)
    | some id =>
      simp only [hf, pure_ok] at h
      cases h
      refine ⟨fun h => h, idsIn_of_plain _ _ rfl, Res.pure (fun T => ?_)⟩
      exact frag_exitLoop c gs T id true (findLoop_mem hf)
  | .continue_ l, c, gs, code, t, gs', _, hgs, h => by
    simp only [compile, bind_ok, get_ok] at h
    obtain ⟨_, _, hg, h⟩ := h
    cases hg
    cases hf : findLoop gs l with
    | none =>
      simp only [hf] at h
      exact absurd h (throw_ok _ _)
    | some id =>
      simp only [hf, pure_ok] at h
      cases h
      refine ⟨fun h => h, idsIn_of_plain _ _ rfl, Res.pure (fun T => ?_)⟩
      exact frag_exitLoop c gs T id false (findLoop_mem hf)
  | .fn ps rest body, c, gs, code, t, gs', hok, hgs, h => by
    simp only [compile, bind_ok, pure_ok] at h
    obtain ⟨⟨tm, cb⟩, gs1, ha, ⟨b, tb⟩, gs2, hb, u, gs3, hf, heq⟩ := h
    rw [allocTemplate_ok] at ha
    cases ha
    rw [finishTemplate_ok] at hf
    cases hf
    cases heq
    simp only [okL, Bool.and_eq_true, Bool.not_eq_true', List.isEmpty_eq_false_iff] at hok
    obtain ⟨_, idb, _, Rb⟩ := balL_compileBegin isFn body (bodyCtx c gs "" true) (allocGs isFn gs "" ps rest) b tb gs2
      hok.2 (hgs.alloc isFn "" ps rest) hb
    have R := template_res isFn c gs gs2 "" ps rest true body b hok.1 hgs idb Rb
    refine ⟨fun h => h, idsIn_of_plain _ _ rfl, R.mono (fun T _ _ d Γ σ hinv => ?_)⟩
    simpa [B, toB] using efrag_push Γ .createClosure σ hinv.wf rfl
  | .defn name ps rest body, c, gs, code, t, gs', hok, hgs, h => by
    simp only [compile, bind_ok, pure_ok] at h
    obtain ⟨⟨tm, cb⟩, gs1, ha, ⟨b, tb⟩, gs2, hb, u, gs3, hf, heq⟩ := h
    rw [allocTemplate_ok] at ha
    cases ha
    rw [finishTemplate_ok] at hf
    cases hf
    cases heq
    simp only [okL, Bool.and_eq_true, Bool.not_eq_true', List.isEmpty_eq_false_iff] at hok
    obtain ⟨_, idb, _, Rb⟩ := balL_compileBegin isFn body (bodyCtx c gs name (!rebindsOwnName name ps rest body))
      (allocGs isFn gs name ps rest) b tb gs2 hok.2 (hgs.alloc isFn name ps rest) hb
    have R := template_res isFn c gs gs2 name ps rest (!rebindsOwnName name ps rest body) body b hok.1 hgs idb Rb
    refine ⟨fun h => h, idsIn_of_plain _ _ rfl, R.mono (fun T _ _ d Γ σ hinv => ?_)⟩
    have a := efrag_push Γ .createClosure σ hinv.wf rfl
    have p := frag_simple_at (.popStackPutEnv name) 1 0 1 (fun _ => rfl) (Nat.le_refl _) Γ T σ hinv.wf
    rw [Nat.sub_self, Nat.zero_add, bump_zero] at p
    have q := efrag_push Γ .push σ hinv.wf rfl
    simpa [B, toB] using efrag_seq (efrag_seq a p) q
  | .assign l r, c, gs, code, t, gs', hok, hgs, h => by
    simp only [compile, bind_ok, pure_ok] at h
    obtain ⟨⟨a, ta⟩, gs1, h1, ⟨b, tb⟩, gs2, h2, heq⟩ := h
    simp only [okL, Bool.and_eq_true] at hok
    obtain ⟨_, ida, Ra⟩ := balL_compile isFn l { c with tail := false } gs a ta gs1 hok.1 hgs h1
    obtain ⟨_, idb, Rb⟩ := balL_compile isFn r { c with tail := false } gs1 b tb gs2 hok.2 (hgs.ext Ra.ext) h2
    cases heq
    refine ⟨fun _ => rfl, (idsIn_plain (idsIn_app ida idb Ra.ext.loops_len Rb.ext.loops_len) rfl).1,
      (Ra.seq Rb).mono (fun T _ hf d Γ σ hinv => ?_)⟩
    obtain ⟨ha, hb⟩ := hf
    have x := ha d Γ σ hinv.off
    have y := hb d Γ (bump σ 1) ((hinv.off.ext Ra.ext hgs).bump rfl 1)
    rw [bump_bump] at y
    have z := frag_simple_at .assign 2 1 2 (fun _ => rfl) (Nat.le_refl _) Γ T σ hinv.wf
    simpa [B, toB] using efrag_seq (efrag_seq x y) z
  | .bad _, c, gs, code, t, gs', _, _, h => by
    simp only [compile] at h
    exact absurd h (throw_ok gs _)

theorem balL_compileAll (isFn : Nat → Bool) : ∀ (es : List Expr) (c : Ctx) (gs : GS) (code : List Instr) (t : Bool) (gs' : GS),
    okLs es = true → GSok gs → c.tail = false → compileAll isFn c es gs = Except.ok ((code, t), gs') →
    t = false ∧ idsIn code gs.loops.length gs'.loops.length ∧ Res gs gs' (fun T => FragS c gs T code es.length)
  | [], c, gs, code, t, gs', _, _, hc, h => by
    simp only [compileAll, pure_ok] at h
    cases h
    exact ⟨hc, idsIn_nil _ _, Res.pure (fun T d Γ σ _ => by simpa [B, bump_zero] using sfrag_nil Γ σ)⟩
  | e :: es, c, gs, code, t, gs', hok, hgs, hc, h => by
    simp only [compileAll, bind_ok, pure_ok] at h
    obtain ⟨⟨a, ta⟩, gs1, h1, ⟨b, tb⟩, gs2, h2, heq⟩ := h
    simp only [okLs, Bool.and_eq_true] at hok
    obtain ⟨hta, ida, Ra⟩ := balL_compile isFn e c gs a ta gs1 hok.1 hgs h1
    have hta' := hta hc
    obtain ⟨htb, idb, Rb⟩ := balL_compileAll isFn es { c with tail := ta } gs1 b tb gs2 hok.2 (hgs.ext Ra.ext) hta' h2
    cases heq
    refine ⟨htb, idsIn_app ida idb Ra.ext.loops_len Rb.ext.loops_len, (Ra.seq Rb).mono (fun T _ hf d Γ σ hinv => ?_)⟩
    obtain ⟨ha, hb⟩ := hf
    have x := ha d Γ σ hinv
    have y := hb d Γ (bump σ 1) (((hinv.ext Ra.ext hgs).bump hc 1).flag ta hta')
    rw [bump_bump] at y
    have := sfrag_seq (sfrag_of_e x) y
    simpa [B, Nat.add_comm] using this

theorem balL_compileCallArgs (isFn : Nat → Bool) : ∀ (args : List Expr) (c : Ctx) (f : Option FnObj) (i : Nat) (gs : GS)
    (code : List Instr) (gs' : GS),
    okLs args = true → GSok gs → c.tail = false → compileCallArgs isFn c f i args gs = Except.ok (code, gs') →
    idsIn code gs.loops.length gs'.loops.length ∧ Res gs gs' (fun T => FragS c gs T code args.length)
  | [], c, f, i, gs, code, gs', _, _, _, h => by
    simp only [compileCallArgs, pure_ok] at h
    cases h
    exact ⟨idsIn_nil _ _, Res.pure (fun T d Γ σ _ => by simpa [B, bump_zero] using sfrag_nil Γ σ)⟩
  | e :: es, c, f, i, gs, code, gs', hok, hgs, hc, h => by
    simp only [compileCallArgs, bind_ok, pure_ok] at h
    obtain ⟨a, gs1, h1, b, gs2, h2, heq⟩ := h
    simp only [okLs, Bool.and_eq_true] at hok
    have hfirst : idsIn a gs.loops.length gs1.loops.length ∧ Res gs gs1 (fun T => FragE c gs T a) := by
      have key : (a = [Instr.pushLazy e] ∧ gs = gs1) ∨ ∃ ta, compile isFn c e gs = Except.ok ((a, ta), gs1) := by
        cases f with
        | none =>
          simp only [Bool.false_eq_true, ↓reduceIte, bind_ok, pure_ok] at h1
          obtain ⟨⟨a', ta⟩, gs1', h1', heq'⟩ := h1
          cases heq'
          exact Or.inr ⟨ta, h1'⟩
        | some fo =>
          simp only at h1
          by_cases hlz : fo.isLazyCallArg i = true
          · simp only [hlz, ↓reduceIte, pure_ok] at h1
            cases h1
            exact Or.inl ⟨rfl, rfl⟩
          · simp only [hlz, Bool.false_eq_true, ↓reduceIte, bind_ok, pure_ok] at h1
            obtain ⟨⟨a', ta⟩, gs1', h1', heq'⟩ := h1
            cases heq'
            exact Or.inr ⟨ta, h1'⟩
      rcases key with ⟨rfl, rfl⟩ | ⟨ta, h1'⟩
      · exact res_atom c gs _ rfl (fun _ => rfl)
      · obtain ⟨_, ida, Ra⟩ := balL_compile isFn e c gs a ta gs1 hok.1 hgs h1'
        exact ⟨ida, Ra⟩
    obtain ⟨ida, Ra⟩ := hfirst
    obtain ⟨idb, Rb⟩ := balL_compileCallArgs isFn es c f (i + 1) gs1 b gs2 hok.2 (hgs.ext Ra.ext) hc h2
    cases heq
    refine ⟨idsIn_app ida idb Ra.ext.loops_len Rb.ext.loops_len, (Ra.seq Rb).mono (fun T _ hf d Γ σ hinv => ?_)⟩
    obtain ⟨ha, hb⟩ := hf
    have x := ha d Γ σ hinv
    have y := hb d Γ (bump σ 1) ((hinv.ext Ra.ext hgs).bump hc 1)
    rw [bump_bump] at y
    have := sfrag_seq (sfrag_of_e x) y
    simpa [B, Nat.add_comm] using this

theorem balL_compileBegin (isFn : Nat → Bool) : ∀ (es : List Expr) (c : Ctx) (gs : GS) (code : List Instr) (t : Bool) (gs' : GS),
    okLs es = true → GSok gs → compileBegin isFn c es gs = Except.ok ((code, t), gs') →
    (c.tail = false → t = false) ∧ idsIn code gs.loops.length gs'.loops.length ∧ (es = [] → code = []) ∧
      Res gs gs' (fun T => es ≠ [] → FragE c gs T code)
  | [], c, gs, code, t, gs', _, _, h => by
    simp only [compileBegin, pure_ok] at h
    cases h
    exact ⟨fun _ => rfl, idsIn_nil _ _, fun _ => rfl, Res.pure (fun T hne => absurd rfl hne)⟩
  | [e], c, gs, code, t, gs', hok, hgs, h => by
    simp only [compileBegin] at h
    simp only [okLs, Bool.and_eq_true] at hok
    obtain ⟨hfl, ids, R⟩ := balL_compile isFn e c gs code t gs' hok.1 hgs h
    exact ⟨hfl, ids, (fun hh => by cases hh), R.mono (fun T _ hf _ => hf)⟩
  | e :: e' :: es, c, gs, code, t, gs', hok, hgs, h => by
    simp only [compileBegin, bind_ok, pure_ok] at h
    obtain ⟨⟨a, ta⟩, gs1, h1, ⟨b, tb⟩, gs2, h2, heq⟩ := h
    simp only [okLs, Bool.and_eq_true] at hok
    obtain ⟨_, ida, Ra⟩ := balL_compile isFn e { c with tail := false } gs a ta gs1 hok.1 hgs h1
    obtain ⟨htb, idb, _, Rb⟩ := balL_compileBegin isFn (e' :: es) c gs1 b tb gs2 (by simp [okLs, hok.2]) (hgs.ext Ra.ext) h2
    cases heq
    refine ⟨htb, ?_, (fun hh => by cases hh), (Ra.seq Rb).mono (fun T _ hf _ d Γ σ hinv => ?_)⟩
    · have hp : ilids (if a.isEmpty then [] else [Instr.pop]) = [] := by
        cases a.isEmpty <;> rfl
      exact idsIn_app (idsIn_plain ida hp).1 idb Ra.ext.loops_len Rb.ext.loops_len
    · obtain ⟨ha, hb⟩ := hf
      have x := ha d Γ σ hinv.off
      have hne : a ≠ [] := by
        intro he; subst he
        obtain ⟨m, hl, _, _⟩ := x
        simp [B] at hl
      have hpop := efrag_pop Γ σ 0 hinv.wf
      rw [bump_zero] at hpop
      simpa [B, toB, hne] using efrag_seq (efrag_seq x hpop) (hb (by simp) d Γ σ (hinv.ext Ra.ext hgs))

theorem balL_compileArms (isFn : Nat → Bool) : ∀ (arms : List (Expr × Expr)) (c : Ctx) (gs : GS)
    (as : List (List Instr × List Instr)) (gs' : GS),
    okLArms arms = true → GSok gs → compileArms isFn c arms gs = Except.ok (as, gs') →
    (∀ dflt lo, lo ≤ gs.loops.length → idsIn dflt lo gs.loops.length → idsIn (asmCond as dflt) lo gs'.loops.length) ∧
      Res gs gs' (fun T => ∀ a ∈ as, ∀ d Γ σ, GInv d c gs Γ T σ →
        ExprFrag Γ (B T a.1) σ (bump σ 1) ∧ ExprFrag Γ (B T a.2) σ (bump σ 1))
  | [], c, gs, as, gs', _, _, h => by
    simp only [compileArms, pure_ok] at h
    cases h
    exact ⟨fun dflt lo _ hd => by simpa [asmCond] using hd, Res.pure (fun T a ha => by cases ha)⟩
  | (p, b) :: arms, c, gs, as, gs', hok, hgs, h => by
    simp only [compileArms, bind_ok, pure_ok] at h
    obtain ⟨rest, gs1, h1, ⟨pc, tp⟩, gs2, h2, ⟨bc, tb⟩, gs3, h3, heq⟩ := h
    simp only [okLArms, Bool.and_eq_true] at hok
    obtain ⟨idr, Rr⟩ := balL_compileArms isFn arms c gs rest gs1 hok.2 hgs h1
    have hg1 := hgs.ext Rr.ext
    obtain ⟨_, idp, Rp⟩ := balL_compile isFn p { c with tail := false } gs1 pc tp gs2 hok.1.1 hg1 h2
    have hg2 := hg1.ext Rp.ext
    obtain ⟨_, idb, Rb⟩ := balL_compile isFn b c gs2 bc tb gs3 hok.1.2 hg2 h3
    cases heq
    refine ⟨fun dflt lo hlo hd => ?_, ((Rr.seq Rp).seq Rb).mono (fun T _ hf a ha d Γ σ hinv => ?_)⟩
    · have hrest := idr dflt lo hlo hd
      have l1 := Rr.ext.loops_len
      have l2 := Rp.ext.loops_len
      have l3 := Rb.ext.loops_len
      -- pc ++ [branch] ++ bc ++ [jump] ++ rest
      have s1 := (idsIn_plain idp (rfl : ilids [Instr.branch false ((bc.length : Int) + 2)] = [])).1
      have s2 := idsIn_app s1 idb l2 l3
      have s3 := (idsIn_plain s2 (rfl : ilids [Instr.jump (((asmCond rest dflt).length : Int) + 1)] = [])).1
      have s4 := idsIn_app' s3 hrest (Nat.le_trans hlo l1) (Nat.le_trans l2 l3)
      simpa [asmCond, List.append_assoc] using s4
    · obtain ⟨⟨hr, hp⟩, hb⟩ := hf
      rcases List.mem_cons.mp ha with rfl | ha
      · exact ⟨hp d Γ σ (hinv.off.ext Rr.ext hgs), hb d Γ σ (hinv.ext (Rr.ext.trans Rp.ext) hgs)⟩
      · exact hr a ha d Γ σ hinv

theorem balL_compileSC (isFn : Nat → Bool) : ∀ (es : List Expr) (c : Ctx) (gs : GS) (cs : List (List Instr)) (gs' : GS),
    okLs es = true → GSok gs → compileSC isFn c es gs = Except.ok (cs, gs') →
    (∀ isOr, idsIn (asmSC isOr cs) gs.loops.length gs'.loops.length) ∧
      Res gs gs' (fun T => ∀ x ∈ cs, ∀ d Γ σ, GInv d c gs Γ T σ → ExprFrag Γ (B T x) σ (bump σ 1))
  | [], c, gs, cs, gs', _, _, h => by
    simp only [compileSC, pure_ok] at h
    cases h
    exact ⟨fun isOr => idsIn_of_plain _ _ rfl, Res.pure (fun T x hx => by cases hx)⟩
  | [e], c, gs, cs, gs', hok, hgs, h => by
    simp only [compileSC, bind_ok, pure_ok] at h
    obtain ⟨⟨a, ta⟩, gs1, h1, heq⟩ := h
    simp only [okLs, Bool.and_eq_true] at hok
    obtain ⟨_, ida, Ra⟩ := balL_compile isFn e c gs a ta gs1 hok.1 hgs h1
    cases heq
    refine ⟨fun isOr => by simpa [asmSC] using ida, Ra.mono (fun T _ hf x hx d Γ σ hinv => ?_)⟩
    simp at hx; subst hx; exact hf d Γ σ hinv
  | e :: e' :: es, c, gs, cs, gs', hok, hgs, h => by
    simp only [compileSC, bind_ok, pure_ok] at h
    obtain ⟨rest, gs1, h1, ⟨a, ta⟩, gs2, h2, heq⟩ := h
    simp only [okLs, Bool.and_eq_true] at hok
    obtain ⟨idr, Rr⟩ := balL_compileSC isFn (e' :: es) c gs rest gs1 (by simp [okLs, hok.2]) hgs h1
    obtain ⟨_, ida, Ra⟩ := balL_compile isFn e { c with tail := false } gs1 a ta gs2 hok.1 (hgs.ext Rr.ext) h2
    cases heq
    refine ⟨fun isOr => idsIn_asmSC_cons isOr a rest _ _ _ Rr.ext.loops_len Ra.ext.loops_len ida (idr isOr),
      (Rr.seq Ra).mono (fun T _ hf x hx d Γ σ hinv => ?_)⟩
    obtain ⟨hr, ha⟩ := hf
    rcases List.mem_cons.mp hx with rfl | hx
    · exact ha d Γ σ (hinv.off.ext Rr.ext hgs)
    · exact hr x hx d Γ σ hinv

theorem balL_compileBinds (isFn : Nat → Bool) : ∀ (bs : List (String × Expr)) (c : Ctx) (seq : Bool) (gs : GS)
    (code : List Instr) (t : Bool) (gs' : GS),
    okLBinds bs = true → GSok gs → c.tail = false → compileBinds isFn c seq bs gs = Except.ok ((code, t), gs') →
    t = false ∧ idsIn code gs.loops.length gs'.loops.length ∧
      Res gs gs' (fun T => FragS c gs T code (if seq then 0 else bs.length))
  | [], c, seq, gs, code, t, gs', _, _, hc, h => by
    simp only [compileBinds, pure_ok] at h
    cases h
    refine ⟨hc, idsIn_nil _ _, Res.pure (fun T d Γ σ _ => ?_)⟩
    have : (if seq = true then 0 else ([] : List (String × Expr)).length) = 0 := by cases seq <;> rfl
    rw [this, bump_zero]; exact sfrag_nil Γ σ
  | (x, e) :: bs, c, seq, gs, code, t, gs', hok, hgs, hc, h => by
    simp only [compileBinds, bind_ok, pure_ok] at h
    obtain ⟨⟨a, ta⟩, gs1, h1, ⟨b, tb⟩, gs2, h2, heq⟩ := h
    simp only [okLBinds, Bool.and_eq_true] at hok
    obtain ⟨hta, ida, Ra⟩ := balL_compile isFn e c gs a ta gs1 hok.1 hgs h1
    have hta' := hta hc
    obtain ⟨htb, idb, Rb⟩ := balL_compileBinds isFn bs { c with tail := ta } seq gs1 b tb gs2 hok.2 (hgs.ext Ra.ext) hta' h2
    cases heq
    refine ⟨htb, ?_, (Ra.seq Rb).mono (fun T _ hf d Γ σ hinv => ?_)⟩
    · have hp : ilids (if seq then [Instr.popStackPutEnv x] else []) = [] := by cases seq <;> rfl
      exact idsIn_app (idsIn_plain ida hp).1 idb Ra.ext.loops_len Rb.ext.loops_len
    · obtain ⟨ha, hb⟩ := hf
      have x1 := ha d Γ σ hinv
      cases seq with
      | true =>
        simp only [if_true] at hb ⊢
        have p := frag_simple_at (.popStackPutEnv x) 1 0 1 (fun _ => rfl) (Nat.le_refl _) Γ T σ hinv.wf
        rw [Nat.sub_self, Nat.zero_add, bump_zero] at p
        have y := hb d Γ σ ((hinv.ext Ra.ext hgs).flag ta hta')
        rw [bump_zero] at y ⊢
        have := sfrag_seq (sfrag_of_e (efrag_seq x1 p)) y
        simpa [B, List.append_assoc] using this
      | false =>
        simp only [Bool.false_eq_true, if_false] at hb ⊢
        have y := hb d Γ (bump σ 1) (((hinv.ext Ra.ext hgs).bump hc 1).flag ta hta')
        rw [bump_bump] at y
        have := sfrag_seq (sfrag_of_e x1) y
        simpa [B, Nat.add_comm] using this

theorem balL_compileNewScope (isFn : Nat → Bool) : ∀ (es : List Expr) (c : Ctx) (oldtail : Bool) (gs : GS)
    (code : List Instr) (t : Bool) (gs' : GS),
    okLs es = true → es ≠ [] → GSok gs → compileNewScope isFn c oldtail es gs = Except.ok ((code, t), gs') →
    (oldtail = false → t = false) ∧ idsIn code gs.loops.length gs'.loops.length ∧
      Res gs gs' (fun T => ∀ d Γ σ, GInv d { c with tail := oldtail } gs Γ T σ → ExprFrag Γ (B T code) σ (bump σ 1))
  | [], _, _, _, _, _, _, _, hne, _, _ => absurd rfl hne
  | [e], c, oldtail, gs, code, t, gs', hok, _, hgs, h => by
    simp only [compileNewScope] at h
    simp only [okLs, Bool.and_eq_true] at hok
    obtain ⟨hfl, ids, R⟩ := balL_compile isFn e { c with tail := oldtail } gs code t gs' hok.1 hgs h
    exact ⟨hfl, ids, R⟩
  | e :: e' :: es, c, oldtail, gs, code, t, gs', hok, _, hgs, h => by
    simp only [compileNewScope, bind_ok, pure_ok] at h
    obtain ⟨⟨a, ta⟩, gs1, h1, ⟨b, tb⟩, gs2, h2, heq⟩ := h
    simp only [okLs, Bool.and_eq_true] at hok
    obtain ⟨_, ida, Ra⟩ := balL_compile isFn e { c with tail := false } gs a ta gs1 hok.1 hgs h1
    obtain ⟨htb, idb, Rb⟩ := balL_compileNewScope isFn (e' :: es) c oldtail gs1 b tb gs2 (by simp [okLs, hok.2]) (by simp)
      (hgs.ext Ra.ext) h2
    cases heq
    refine ⟨htb, idsIn_app (idsIn_plain ida (rfl : ilids [Instr.pop] = [])).1 idb Ra.ext.loops_len Rb.ext.loops_len,
      (Ra.seq Rb).mono (fun T _ hf d Γ σ hinv => ?_)⟩
    obtain ⟨ha, hb⟩ := hf
    have hpop := efrag_pop Γ σ 0 hinv.wf
    rw [bump_zero] at hpop
    simpa [B, toB] using efrag_seq (efrag_seq (ha d Γ σ hinv.off) hpop) (hb d Γ σ (hinv.ext Ra.ext hgs))

end

/-! ## Whole programs -/

/-- the context of a top-level text: loop ids occur once; loops allocated before the text
(`< N`; their `for` forms are not in this text) do not occur -/
def topEnv (N : Nat) : Env :=
  { loops := [], side := fun F _ => LoopsUnique F.code ∧ ∀ l, l < N → loopPos F.code l = none }

/-- **The generator emits balanced code** (all forms): the top-level code of a text of the covered
grammar is verified, and so is every function template the generator allocates on the way
(bodies of `fn`/`defn` at any nesting depth), for every loop table `T` that agrees with the
records of the loops allocated while compiling the text. -/
theorem program_verified (isFn : Nat → Bool) (es : List Expr) (gs gs' : GS) (code : List Instr) (t : Bool)
    (T : List LoopRec) (hok : okLs es = true) (hgs : GSok gs) (hT : TOk gs gs' T)
    (h : compileBegin isFn {} es gs = Except.ok ((code, t), gs')) :
    (∃ ann, verify { kind := .top, code := B T code } ann = true) ∧ FnsOK gs gs' T := by
  obtain ⟨_, ids, hnil, R⟩ := balL_compileBegin isFn es {} gs code t gs' hok hgs h
  obtain ⟨hf, hfr⟩ := R.sem T hT
  refine ⟨?_, hf⟩
  by_cases hne : es = []
  · have := hnil hne
    subst this
    exact ⟨[some restState], by simp only [B, List.map_nil]; decide⟩
  · have hinv : GInv 0 {} gs (topEnv gs.loops.length) T restState := by
      refine ⟨by decide, rfl, fun F A h => h.1, fun m hm => by simp [restState, openMarks] at hm, ?_, fun ht => by cases ht⟩
      intro id hid
      right
      intro F A h
      exact h.2 id (hgs id hid)
    obtain ⟨mid, hfrag⟩ := hfr hne 0 (topEnv gs.loops.length) restState hinv
    refine ⟨_, verify_of_frag_top (topEnv gs.loops.length) (B T code) mid hfrag ⟨⟨?_, ?_⟩, fun i hi => by cases hi⟩⟩
    · apply loopsUnique_of_nodup
      show (lids (B T code)).Nodup
      rw [lids_B]; exact nodup_of_idsIn ids
    · intro l hl
      apply loopPos_none
      show l ∉ lids (B T code)
      rw [lids_B]
      intro hm
      have := (mem_range_of_idsIn ids l hm).1
      omega

theorem TOk.self (gs gs' : GS) : TOk gs gs' gs'.loops := fun _ _ _ => rfl

end ZygoVerif.Bal
