/-
Character literals as the printer writes them (`strconv.QuoteRune`) are lexed to one character
token holding the rune — for every valid code point.
-/
import ZygoVerif.Proofs.LexLiterals
import ZygoVerif.Proofs.DecodeAtom
namespace ZygoVerif.Lexer
open ZygoVerif.PrintData

theorem step_open_squote (s : LexCore) (hs : s.state = .normal) (hb : s.buffer = []) :
    step s '\'' = .ok { pushRing s '\'' with buffer := (pushRing s '\'').buffer ++ ['\''], state := .runeLit } := by
  have hst : (pushRing s '\'').state = .normal := hs
  have hbb : (pushRing s '\'').buffer = [] := hb
  rw [step_def, stepMode_normal _ _ hst]
  simp [stepNormal, hbb]

theorem step_close_squote (s : LexCore) (c : Char) (hs : s.state = .runeLit) (hb : s.buffer = ['\'', c]) :
    step s '\'' = .ok { appendToken { pushRing s '\'' with buffer := [] } ⟨.char, [c]⟩ with state := .normal } := by
  have hst : (pushRing s '\'').state = .runeLit := hs
  have hbb : (pushRing s '\'').buffer = ['\'', c] := hb
  have hd : dumpBuffer { pushRing s '\'' with buffer := (pushRing s '\'').buffer ++ ['\''] } =
      .ok (appendToken { pushRing s '\'' with buffer := [] } ⟨.char, [c]⟩) := by
    have := dumpBuffer_atom { pushRing s '\'' with buffer := (pushRing s '\'').buffer ++ ['\''] } ⟨.char, [c]⟩
      (by simp) (by show decodeAtom ((pushRing s '\'').buffer ++ ['\'']) = _; rw [hbb]; exact decodeAtom_char c)
    rw [this]
  rw [step_def, stepMode_runeLit_close _ _ hst hd]

/-- **character literals**: for every valid code point `v`, `strconv.QuoteRune v` is lexed to the
character token holding that rune -/
theorem lex_char (v : Nat) (hv : v.isValidChar) (T : List Token) (l : Char) :
    Lex ⟨.normal, [], T, l⟩ (quoteRune v) ⟨.normal, [], T ++ [⟨.char, [Char.ofNat v]⟩], '\''⟩ := by
  have hq : quoteRune v = '\'' :: (escapedRune (Char.ofNat v) '\'' ++ ['\'']) := by
    simp [quoteRune, hv]
  rw [hq]
  apply Lex.of_feed
  · intro s hs
    have h1 := step_open_squote s hs.state hs.buffer
    obtain ⟨s2, hf2, hs2⟩ := escaped_reads_back runeMode (Or.inr rfl) (Char.ofNat v)
      { pushRing s '\'' with buffer := (pushRing s '\'').buffer ++ ['\''], state := .runeLit } ['\''] T
      ⟨rfl, by show s.buffer ++ ['\''] = ['\'']; rw [hs.buffer]; rfl, hs.tokens⟩
    have h3 := step_close_squote s2 (Char.ofNat v) hs2.state hs2.buffer
    refine ⟨{ appendToken { pushRing s2 '\'' with buffer := [] } ⟨.char, [Char.ofNat v]⟩ with state := .normal },
      feed_chain3 _ _ _ _ _ _ _ h1 hf2 h3, rfl, rfl, ?_⟩
    show s2.tokens ++ [_] = _
    rw [hs2.tokens]
  · simp

end ZygoVerif.Lexer
