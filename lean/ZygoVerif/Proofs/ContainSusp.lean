/-
C05 on the executable VM model, part 2c: the scope-stack OBJECT is restored, unconditionally.

A lazy force sets the live scope stack aside (`suspended`, newest first) and works on the
thunk's own stack; `restoreControlState` puts the recorded stack object back. This file proves
for EVERY function of the VM's mutual block (`run`, `runLoop`, `exec` for every instruction,
`evalCallExpr`, `nested`, `prepareArgs`, `callResolved`, `callUser`, `builtin`, `applyFn`,
`mapArr`, `mapList`, `forceLazy`), by induction on the fuel, from every state and whatever the
outcome: the stacks that were set aside when the function was entered are still set aside, in
place, when it returns (`allKeeps`). No instruction reaches into `suspended`; only `restore`
shrinks it, and never below the size recorded by the bracket that owns it.

Consequence (`run_error_susp`): on the error exit of `Run` the set-aside stacks are EXACTLY
those of entry — the `susp` component of `Extends` needs no hypothesis.
-/
import ZygoVerif.Proofs.ContainExact
import ZygoVerif.Proofs.ContainGen
set_option linter.unusedSimpArgs false
set_option linter.unusedVariables false
namespace ZygoVerif.Contain
open ZygoVerif.Core ZygoVerif.VM ZygoVerif.Sim

abbrev Susp := List (List (Option Nat))

/-- the stacks `base` set aside before are still set aside, in place — and the loop-record
stack (which only the code generator touches, balanced) is what it was -/
def SK (base : Susp) (s s' : St) : Prop :=
  base <:+ s.suspended → base <:+ s'.suspended ∧ s'.loopstack = s.loopstack

theorem SK.refl (base : Susp) (s : St) : SK base s s := fun h => ⟨h, rfl⟩
theorem SK.trans {base : Susp} {a b c : St} (h1 : SK base a b) (h2 : SK base b c) : SK base a c := fun h =>
  ⟨(h2 (h1 h).1).1, (h2 (h1 h).1).2.trans (h1 h).2⟩
theorem SK.same {base : Susp} {s s' : St} (h : s'.suspended = s.suspended) (hl : s'.loopstack = s.loopstack := by rfl) :
    SK base s s' := fun hb => ⟨h ▸ hb, hl⟩

/-- running `m` keeps `base` set aside, from every state, whatever the outcome -/
def Keeps {α} (base : Susp) (m : M α) : Prop := ∀ s, SK base s (m.run s).2

variable {base : Susp}

theorem keeps_pure {α} (a : α) : Keeps base (pure a : M α) := fun s => SK.refl _ s
theorem keeps_throw {α} (e : Fault) : Keeps base (throw e : M α) := fun s => SK.refl _ s
theorem keeps_err {α} : Keeps base (err : M α) := fun s => SK.refl _ s
theorem keeps_hostPanic {α} : Keeps base (hostPanic : M α) := fun s => SK.refl _ s
theorem keeps_get : Keeps base (get : M St) := fun s => SK.refl _ s

theorem keeps_bind {α β} {m : M α} {f : α → M β} (hm : Keeps base m) (hf : ∀ a, Keeps base (f a)) :
    Keeps base (m >>= f) := by
  intro s
  rw [run_bind]
  have h := hm s
  rcases hr : m.run s with ⟨r, s'⟩
  rw [hr] at h
  cases r with
  | ok a => exact h.trans (hf a s')
  | error e => exact h

theorem keeps_throw_bind {α β} (e : Fault) (f : α → M β) : Keeps base ((throw e : M α) >>= f) := by
  intro s; rw [run_bind, run_throw]; exact SK.refl _ s
theorem keeps_err_bind {α β} (f : α → M β) : Keeps base ((err : M α) >>= f) := keeps_throw_bind _ f
theorem keeps_hostPanic_bind {α β} (f : α → M β) : Keeps base ((hostPanic : M α) >>= f) := keeps_throw_bind _ f

/-- after `get` the bound value is the current state -/
theorem keeps_get_bind {β} {f : St → M β} (hf : ∀ s, SK base s ((f s).run s).2) : Keeps base (get >>= f) := by
  intro s; rw [run_bind, run_get]; exact hf s

theorem to_keeps {α} {m : M α} (h : Keeps base m) (s : St) : SK base s (m.run s).2 := h s

/-- after `capture` the bound record holds the present number of set-aside stacks -/
theorem keeps_capture_bind {β} {f : CtlState → M β} (hf : ∀ st, base.length ≤ st.susp → Keeps base (f st)) :
    Keeps base (capture >>= f) := by
  intro s hb
  rw [run_bind, run_capture]
  exact hf (captureOf s) (by obtain ⟨t, ht⟩ := hb; show base.length ≤ s.suspended.length; rw [← ht]; simp) s hb

/-- a computation that leaves `suspended` alone -/
theorem keeps_of_same {α} {m : M α}
    (h : ∀ s, (m.run s).2.suspended = s.suspended ∧ (m.run s).2.loopstack = s.loopstack) : Keeps base m :=
  fun s => SK.same (h s).1 (h s).2

theorem keeps_of_eff {α} {m : M α} {a b c : Nat} (h : ∀ s, Eff a b c s (m.run s).2) : Keeps base m :=
  keeps_of_same (fun s => ⟨(h s).susp, (h s).loopstack⟩)

theorem keeps_modify_same (g : St → St) (h : ∀ s, (g s).suspended = s.suspended ∧ (g s).loopstack = s.loopstack) :
    Keeps base (modify g) :=
  keeps_of_same (fun s => h s)

/-- `restore` drops set-aside stacks down to the recorded number only -/
theorem keeps_restore (st : CtlState) (hst : base.length ≤ st.susp) : Keeps base (restore st) := by
  intro s hb
  rw [run_restore]
  refine ⟨?_, rfl⟩
  show base <:+ suspAt st s
  unfold suspAt
  split
  · obtain ⟨t, ht⟩ := hb
    rw [← ht]
    have : (t ++ base).length - st.susp ≤ t.length := by simp only [List.length_append]; omega
    rw [List.drop_append_of_le_length this]
    exact ⟨t.drop _, rfl⟩
  · exact hb

/-! ### leaves -/

theorem keeps_pushData (v : Val) : Keeps base (pushData v) := keeps_of_eff (eff_pushData v)
theorem keeps_popData : Keeps base popData := keeps_of_eff eff_popData
theorem keeps_popN (n : Nat) : Keeps base (popN n) := keeps_of_eff (eff_popN n)
theorem keeps_incPc : Keeps base incPc := keeps_of_same (fun _ => ⟨rfl, rfl⟩)
theorem keeps_jumpTo (n : Int) : Keeps base (jumpTo n) := keeps_of_eff (eff_jumpTo n)
theorem keeps_capture : Keeps base capture := keeps_of_same (fun _ => ⟨rfl, rfl⟩)
theorem keeps_wrangleOptargs (a b : Nat) : Keeps base (wrangleOptargs a b) := keeps_of_eff (eff_wrangleOptargs a b)
theorem keeps_popScope : Keeps base popScope := keeps_of_eff eff_popScope
theorem keeps_popScopes (n : Nat) : Keeps base (popScopes n) := keeps_of_eff (eff_popScopes n)
theorem keeps_popToMark (l : Nat) (k : Bool) (f : Nat) : Keeps base (popToMark l k f) :=
  keeps_of_same (fun s => ⟨(eff_popToMark l k f s).susp, (eff_popToMark l k f s).loopstack⟩)
theorem keeps_setInScope (id : Nat) (x : String) (v : Val) : Keeps base (setInScope id x v) :=
  keeps_of_same (fun _ => ⟨rfl, rfl⟩)
theorem keeps_bindTop (x : String) (v : Val) : Keeps base (bindTop x v) := keeps_of_eff (eff_bindTop x v)
theorem keeps_mkFunction (n : String) (c : List Instr) (cl : List (Option Nat)) (p : Option Nat) :
    Keeps base (mkFunction n c cl p) := keeps_of_same (fun _ => ⟨rfl, rfl⟩)

/-- `runGen`: a failed compilation changes nothing; a successful one hands back the loop stack
the generator was given (`GenLS`) -/
theorem keeps_runGen {α} (g : G α) (hg : GenLS g) : Keeps base (runGen g) := by
  refine keeps_of_same (fun s => ?_)
  rw [run_runGen]
  split
  · rename_i a gs' h
    exact ⟨rfl, hg _ _ _ h⟩
  · exact ⟨rfl, rfl⟩

theorem keeps_ite {α} {c : Prop} [Decidable c] {a b : M α} (ha : Keeps base a) (hb : Keeps base b) :
    Keeps base (if c then a else b) := by
  split <;> assumption

/-- One step of a compositional proof: a leaf lemma, a bind, a case split. -/
macro "keeps_step" : tactic => `(tactic| first
  | split
  | with_reducible (first
    | exact keeps_pure _ | exact keeps_err | exact keeps_hostPanic | exact keeps_throw _ | exact keeps_get
    | exact keeps_err_bind _ | exact keeps_hostPanic_bind _ | exact keeps_throw_bind _ _
    | exact keeps_pushData _ | exact keeps_popData | exact keeps_popN _ | exact keeps_incPc | exact keeps_jumpTo _
    | exact keeps_capture | exact keeps_wrangleOptargs _ _ | exact keeps_popScope | exact keeps_popScopes _
    | exact keeps_popToMark _ _ _ | exact keeps_setInScope _ _ _ | exact keeps_bindTop _ _
    | exact keeps_mkFunction _ _ _ _
    | exact keeps_restore _ (by assumption)
    | assumption
    | refine keeps_bind ?_ (fun _ => ?_)))

macro "keeps_auto" : tactic => `(tactic| repeat' (first | keeps_step | (dsimp only; keeps_step)))

theorem keeps_callFunction (f n : Nat) : Keeps base (callFunction f n) := by
  unfold callFunction
  refine keeps_bind keeps_get (fun s0 => ?_)
  dsimp only
  keeps_auto
  all_goals exact keeps_modify_same _ (fun _ => ⟨rfl, rfl⟩)

/-! ## The mutual block -/

structure AllKeeps (base : Susp) (fuel : Nat) : Prop where
  run : Keeps base (run fuel)
  runLoop : ∀ st, base.length ≤ st.susp → Keeps base (runLoop fuel st)
  exec : ∀ i, Keeps base (exec fuel i)
  evalCallExpr : ∀ e, Keeps base (evalCallExpr fuel e)
  nested : ∀ f st, base.length ≤ st.susp → Keeps base (nested fuel f st)
  prepareArgs : ∀ f i es, Keeps base (prepareArgs fuel f i es)
  callResolved : ∀ f args, Keeps base (callResolved fuel f args)
  callUser : ∀ name n, Keeps base (callUser fuel name n)
  builtin : ∀ name args, Keeps base (builtin fuel name args)
  applyFn : ∀ f args, Keeps base (applyFn fuel f args)
  mapArr : ∀ f r i n, Keeps base (mapArr fuel f r i n)
  mapList : ∀ f l, Keeps base (mapList fuel f l)
  forceLazy : ∀ id, Keeps base (forceLazy fuel id)

macro "keeps_ih" ih:ident : tactic => `(tactic| repeat' (first
  | keeps_step
  | with_reducible (first
    | exact ($ih).run | exact ($ih).runLoop _ (by assumption) | exact ($ih).exec _ | exact ($ih).evalCallExpr _
    | exact ($ih).nested _ _ (by assumption) | exact ($ih).prepareArgs _ _ _ | exact ($ih).callResolved _ _
    | exact ($ih).callUser _ _ | exact ($ih).builtin _ _ | exact ($ih).applyFn _ _
    | exact ($ih).mapArr _ _ _ _ | exact ($ih).mapList _ _ | exact ($ih).forceLazy _
    | exact keeps_callFunction _ _)
  | exact keeps_modify_same _ (fun _ => ⟨rfl, rfl⟩)
  | (dsimp only; keeps_step)))

/-- run `m` from the current state, keep its state, continue on its result (the shape of
`runLoop`, `nested`, `callResolved`, `callUser`, `applyFn`) -/
theorem sk_run_set {α β} (m : M α) (hm : Keeps base m) (k : Except Fault α → M β) (hk : ∀ r, Keeps base (k r)) (s : St) :
    SK base s ((do set (m.run s).2; k (m.run s).1 : M β).run s).2 := by
  rw [run_bind, run_set]
  have hstep := hm s
  generalize m.run s = p at hstep ⊢
  obtain ⟨r1, s1⟩ := p
  exact hstep.trans (hk r1 s1)

theorem keeps_exec_succ (n : Nat) (ih : AllKeeps base n) (i : Instr) : Keeps base (exec (n+1) i) := by
  by_cases hs : simple i = true
  · exact keeps_of_same (fun s => ⟨exec_simple_susp n i s hs, exec_simple_loopstack n i s hs⟩)
  · cases i with
    | callArr k => simp only [VM.exec]; keeps_ih ih
    | callExpr c a => simp only [VM.exec]; keeps_ih ih
    | _ => exact absurd rfl hs

theorem keeps_run_succ (n : Nat) (ih : AllKeeps base n) : Keeps base (run (n+1)) := by
  rw [run_succ_eq]
  refine keeps_capture_bind (fun st hst => ?_)
  unfold runTail
  keeps_ih ih

theorem keeps_runLoop_succ (n : Nat) (ih : AllKeeps base n) (st : CtlState) (hst : base.length ≤ st.susp) :
    Keeps base (runLoop (n+1) st) := by
  simp only [VM.runLoop]
  apply keeps_get_bind
  intro s
  split
  · exact SK.refl _ s
  · split
    · exact SK.refl _ s
    · rename_i instr hi
      try dsimp only
      rw [run_bind, run_set]
      have hstep := ih.exec instr s
      rcases hr : (exec n instr).run s with ⟨r1, s1⟩
      rw [hr] at hstep
      dsimp only
      refine hstep.trans (to_keeps ?_ s1)
      keeps_ih ih

theorem keeps_evalCallExpr_succ (n : Nat) (ih : AllKeeps base n) (e : Expr) : Keeps base (evalCallExpr (n+1) e) := by
  unfold ZygoVerif.VM.evalCallExpr
  split
  · keeps_ih ih
  · refine keeps_bind keeps_get (fun s0 => ?_)
    refine keeps_bind (keeps_runGen _ (genLS_compile _ _ _)) (fun p => ?_)
    obtain ⟨code, t⟩ := p
    dsimp only
    split
    · exact keeps_pure _
    · refine keeps_capture_bind (fun st hst => ?_)
      keeps_ih ih

theorem keeps_nested_succ (n : Nat) (ih : AllKeeps base n) (f : Nat) (st : CtlState) (hst : base.length ≤ st.susp) :
    Keeps base (nested (n+1) f st) := by
  simp only [VM.nested]
  apply keeps_get_bind; intro s
  try dsimp only
  rw [run_bind, run_set]
  have hm : Keeps base (do callFunction f 0; run n : M Val) := keeps_bind (keeps_callFunction _ _) (fun _ => ih.run)
  have hstep := hm s
  rcases hr : (do callFunction f 0; run n : M Val).run s with ⟨r1, s1⟩
  rw [hr] at hstep
  dsimp only
  refine hstep.trans (to_keeps ?_ s1)
  keeps_ih ih

theorem keeps_prepareArgs_succ (n : Nat) (ih : AllKeeps base n) (f : Option FnObj) (i : Nat) (es : List Expr) :
    Keeps base (prepareArgs (n+1) f i es) := by
  cases es with
  | nil => simp only [VM.prepareArgs]; exact keeps_pure _
  | cons e es =>
    unfold ZygoVerif.VM.prepareArgs
    refine keeps_ite ?_ ?_
    · apply keeps_get_bind; intro s
      rw [run_bind, run_set]
      have hk : Keeps base (do let r ← pushData (.lazy s.lazies.length); prepareArgs n f (i + 1) es : M Unit) := by
        keeps_ih ih
      exact SK.trans (b := { s with lazies := s.lazies ++ [({ e, stack := s.linear, curfunc := s.curfunc, value := none } : LazyObj)] })
        (SK.same rfl) (hk _)
    · keeps_ih ih

theorem keeps_callResolved_succ (n : Nat) (ih : AllKeeps base n) (f : Val) (args : List Expr) :
    Keeps base (callResolved (n+1) f args) := by
  unfold ZygoVerif.VM.callResolved
  refine keeps_bind keeps_get (fun s0 => ?_)
  have guarded : ∀ (m : M Unit), Keeps base m → Keeps base (do
      let s ← get
      let r : Except Fault Unit × St := m.run s
      set r.2
      match r.1 with
      | .ok _ => pure ()
      | .error .err => do modify (fun s => { s with data := truncate s.data s0.data.length }); throw .err
      | .error flt => throw flt : M Unit) := by
    intro m hm
    apply keeps_get_bind; intro s
    dsimp only
    rw [run_bind, run_set]
    have hstep := hm s
    generalize m.run s = p at hstep ⊢
    obtain ⟨r1, s1⟩ := p
    dsimp only
    refine hstep.trans (to_keeps ?_ s1)
    keeps_ih ih
  dsimp only
  split
  · exact guarded _ (by keeps_ih ih)
  · exact guarded _ (by keeps_ih ih)
  · exact guarded _ (by keeps_ih ih)
  · keeps_ih ih

theorem keeps_callUser_succ (n : Nat) (ih : AllKeeps base n) (name : String) (nargs : Nat) :
    Keeps base (callUser (n+1) name nargs) := by
  unfold ZygoVerif.VM.callUser
  refine keeps_bind keeps_get (fun s0 => ?_)
  dsimp only
  split
  · exact keeps_err_bind _
  split
  · exact keeps_hostPanic_bind _
  refine keeps_bind (keeps_popN _) (fun args => ?_)
  refine keeps_capture_bind (fun st hst => ?_)
  refine keeps_bind (keeps_modify_same _ (fun _ => ⟨rfl, rfl⟩)) (fun _ => ?_)
  apply keeps_get_bind; intro s
  try dsimp only
  rw [run_bind, run_set]
  have hstep := ih.builtin name args s
  generalize (builtin n name args).run s = p at hstep ⊢
  obtain ⟨r1, s1⟩ := p
  dsimp only
  refine hstep.trans (to_keeps ?_ s1)
  split
  · refine keeps_bind (keeps_pushData _) (fun _ => ?_)
    apply keeps_get_bind; intro s2
    split
    · split
      · simp only [run_set]; exact SK.same rfl
      · exact SK.refl _ _
    · simp only [run_set]; exact SK.same rfl
  · exact keeps_throw _
  · keeps_ih ih

theorem keeps_allocRet (vs : List Val) : Keeps base (do
    let s ← get
    let (a, h) := s.heap.alloc vs
    set { s with heap := h }
    pure a : M Val) := by
  apply keeps_get_bind; intro s
  split
  simp only [run_bind, run_set, run_pure]; exact SK.same rfl

theorem keeps_primCall (name : String) (args : List Val) : Keeps base (do
    let s ← get
    match prim name args s.heap with
    | some (v, h) => set { s with heap := h }; pure v
    | none => err : M Val) := by
  apply keeps_get_bind; intro s
  split
  · simp only [run_bind, run_set, run_pure]; exact SK.same rfl
  · exact SK.refl _ s

theorem keeps_substituteLazy (id : Nat) : Keeps base (do
    let s ← get
    match s.lazies[id]? with
    | none => err
    | some lz =>
      if lz.isValue then pure (lz.value.getD .nil)
      else
        let (v, h) := quoteE lz.e s.heap
        set { s with heap := h }
        pure v : M Val) := by
  apply keeps_get_bind; intro s
  split
  · exact SK.refl _ s
  · split
    · exact SK.refl _ s
    · split
      simp only [run_bind, run_set, run_pure]; exact SK.same rfl

set_option maxHeartbeats 1000000 in
theorem keeps_builtin_succ (n : Nat) (ih : AllKeeps base n) (name : String) (args : List Val) :
    Keeps base (builtin (n+1) name args) := by
  unfold ZygoVerif.VM.builtin
  repeat' (first
    | with_reducible exact keeps_allocRet _
    | exact keeps_substituteLazy _
    | exact keeps_primCall _ _
    | (keeps_ih ih; done)
    | split
    | refine keeps_bind ?_ (fun _ => ?_))

theorem applyWrap_susp (fo : FnObj) (args : List Val) (s : St) (i : Nat) :
    (args.foldl (fun (p : St × Nat) v =>
      if fo.isLazyCallArg p.2 then
        ({ p.1 with lazies := p.1.lazies ++ [({ e := .nilLit, stack := [], curfunc := 0, value := some v, isValue := true } : LazyObj)],
                    data := some (.lazy p.1.lazies.length) :: p.1.data }, p.2 + 1)
      else ({ p.1 with data := some v :: p.1.data }, p.2 + 1)) (s, i)).1.suspended = s.suspended ∧
    (args.foldl (fun (p : St × Nat) v =>
      if fo.isLazyCallArg p.2 then
        ({ p.1 with lazies := p.1.lazies ++ [({ e := .nilLit, stack := [], curfunc := 0, value := some v, isValue := true } : LazyObj)],
                    data := some (.lazy p.1.lazies.length) :: p.1.data }, p.2 + 1)
      else ({ p.1 with data := some v :: p.1.data }, p.2 + 1)) (s, i)).1.loopstack = s.loopstack := by
  induction args generalizing s i with
  | nil => exact ⟨rfl, rfl⟩
  | cons v rest ih =>
    simp only [List.foldl_cons]
    split
    · exact ⟨(ih _ _).1, (ih _ _).2⟩
    · exact ⟨(ih _ _).1, (ih _ _).2⟩

theorem keeps_applyFn_succ (n : Nat) (ih : AllKeeps base n) (f : Val) (args : List Val) :
    Keeps base (applyFn (n+1) f args) := by
  unfold ZygoVerif.VM.applyFn
  split
  · exact ih.builtin _ _
  · rename_i id
    refine keeps_capture_bind (fun st hst => ?_)
    refine keeps_bind (keeps_modify_same _ (fun _ => ⟨rfl, rfl⟩)) (fun _ => ?_)
    apply keeps_get_bind; intro s
    dsimp only
    rw [run_bind, run_set]
    refine SK.trans (SK.same (applyWrap_susp (fnOf s id) args s 0).1 (applyWrap_susp (fnOf s id) args s 0).2) ?_
    generalize (List.foldl _ (s, 0) args).1 = s1
    refine to_keeps ?_ s1
    apply keeps_get_bind; intro s2
    try dsimp only
    rw [run_bind, run_set]
    have hm : Keeps base (do callFunction id args.length; run n : M Val) := keeps_bind (keeps_callFunction _ _) (fun _ => ih.run)
    have hstep := hm s2
    generalize (do callFunction id args.length; run n : M Val).run s2 = p at hstep ⊢
    obtain ⟨r1, s3⟩ := p
    dsimp only
    refine hstep.trans (to_keeps ?_ s3)
    keeps_ih ih
  · exact keeps_err

theorem keeps_mapArr_succ (n : Nat) (ih : AllKeeps base n) (f : Val) (r i k : Nat) : Keeps base (mapArr (n+1) f r i k) := by
  unfold ZygoVerif.VM.mapArr
  keeps_ih ih

theorem keeps_mapList_succ (n : Nat) (ih : AllKeeps base n) (f : Val) (l : Val) : Keeps base (mapList (n+1) f l) := by
  unfold ZygoVerif.VM.mapList
  keeps_ih ih

/-- `Force`: the live scope stack is set aside ON TOP of what was set aside, the recorded
number is the one from before, so the `restore` of `nested` takes exactly that one off. -/
theorem keeps_forceLazy_succ (n : Nat) (ih : AllKeeps base n) (id : Nat) : Keeps base (forceLazy (n+1) id) := by
  unfold ZygoVerif.VM.forceLazy
  apply keeps_get_bind; intro s0
  split
  · exact SK.refl _ s0
  · rename_i lz hlz
    split
    · exact SK.refl _ s0
    · refine to_keeps ?_ s0
      refine keeps_bind (keeps_runGen _ (genLS_compile _ _ _)) (fun p => ?_)
      obtain ⟨code, t⟩ := p
      have hfin : ∀ v : Val, Keeps base (do
          modify (fun s => { s with lazies := s.lazies.set id ({ lz with value := some v } : LazyObj) })
          pure v : M Val) := fun v => keeps_bind (keeps_modify_same _ (fun _ => ⟨rfl, rfl⟩)) (fun _ => keeps_pure _)
      dsimp only
      split
      · exact hfin _
      · refine keeps_bind (keeps_mkFunction _ _ _ _) (fun f => ?_)
        refine keeps_capture_bind (fun st hst => ?_)
        refine keeps_bind ?_ (fun _ => keeps_bind (ih.nested _ _ hst) (fun v => hfin v))
        intro s hb
        rw [run_modify]
        exact ⟨List.IsSuffix.trans hb (List.suffix_cons _ _), rfl⟩

theorem allKeeps_zero : AllKeeps base 0 where
  run := by unfold ZygoVerif.VM.run; exact keeps_throw _
  runLoop := fun _ _ => by unfold ZygoVerif.VM.runLoop; exact keeps_throw _
  exec := fun _ => by unfold ZygoVerif.VM.exec; exact keeps_throw _
  evalCallExpr := fun _ => by unfold ZygoVerif.VM.evalCallExpr; exact keeps_throw _
  nested := fun _ _ _ => by unfold ZygoVerif.VM.nested; exact keeps_throw _
  prepareArgs := fun _ _ es => by unfold ZygoVerif.VM.prepareArgs; exact keeps_throw _
  callResolved := fun _ _ => by unfold ZygoVerif.VM.callResolved; exact keeps_throw _
  callUser := fun _ _ => by unfold ZygoVerif.VM.callUser; exact keeps_throw _
  builtin := fun _ _ => by unfold ZygoVerif.VM.builtin; exact keeps_throw _
  applyFn := fun _ _ => by unfold ZygoVerif.VM.applyFn; exact keeps_throw _
  mapArr := fun _ _ _ _ => by unfold ZygoVerif.VM.mapArr; exact keeps_throw _
  mapList := fun _ _ => by unfold ZygoVerif.VM.mapList; exact keeps_throw _
  forceLazy := fun _ => by unfold ZygoVerif.VM.forceLazy; exact keeps_throw _

/-- **Every function of the VM's mutual block, at every fuel, from every state, whatever the
outcome: the scope stacks set aside at entry are still set aside, in place, at exit.** -/
theorem allKeeps (base : Susp) : ∀ fuel, AllKeeps base fuel
  | 0 => allKeeps_zero
  | n+1 =>
    have ih := allKeeps base n
    { run := keeps_run_succ n ih
      runLoop := keeps_runLoop_succ n ih
      exec := keeps_exec_succ n ih
      evalCallExpr := keeps_evalCallExpr_succ n ih
      nested := keeps_nested_succ n ih
      prepareArgs := keeps_prepareArgs_succ n ih
      callResolved := keeps_callResolved_succ n ih
      callUser := keeps_callUser_succ n ih
      builtin := keeps_builtin_succ n ih
      applyFn := keeps_applyFn_succ n ih
      mapArr := keeps_mapArr_succ n ih
      mapList := keeps_mapList_succ n ih
      forceLazy := keeps_forceLazy_succ n ih }

/-! ## Consequences for the error exit of `Run` -/

/-- `runLoop_err_shape` with an invariant of the instruction steps carried to the fault state -/
theorem runLoop_err_inv (P : St → Prop) (hP : ∀ f i s₀, P s₀ → P ((exec f i).run s₀).2) :
    ∀ (fuel : Nat) (st : CtlState) (s s' : St), P s → (runLoop fuel st).run s = (.error .err, s') →
    ∃ s₁, P s₁ ∧ (∃ s₀ i f, (exec f i).run s₀ = (.error .err, s₁)) ∧ s' = park (restoreSt st s₁)
  | 0, st, s, s', _, h => by rw [runLoop_zero] at h; cases h
  | fuel + 1, st, s, s', hp, h => by
    rw [runLoop] at h
    simp only [run_bind, run_get, run_ite] at h
    split at h
    · rw [run_pure] at h; cases h
    · split at h
      · rw [run_pure] at h; cases h
      · rename_i instr _
        have hp1 := hP fuel instr s hp
        rcases hx : (exec fuel instr).run s with ⟨r, s1⟩
        rw [hx] at hp1
        simp only [hx, run_set] at h
        cases r with
        | ok u => exact runLoop_err_inv P hP fuel st s1 s' hp1 h
        | error flt =>
          cases flt with
          | err =>
            simp only [run_bind, run_restore, run_modify, run_throw] at h
            refine ⟨s1, hp1, ⟨s, instr, fuel, hx⟩, ?_⟩
            injection h with _ h2
            exact h2.symm
          | panic => simp only [run_throw] at h; cases h
          | timeout => simp only [run_throw] at h; cases h

/-- every error of `Run` has a fault state in which the stacks set aside at entry are still
set aside -/
theorem faultState_susp (fuel : Nat) (s s' : St) (h : (run fuel).run s = (.error .err, s')) :
    ∃ s₁, FaultState fuel s s₁ ∧ s.suspended <:+ s₁.suspended ∧ s₁.loopstack = s.loopstack ∧
      s' = park (restoreSt (captureOf s) s₁) := by
  cases fuel with
  | zero => rw [run] at h; cases h
  | succ fuel =>
    have h0 := h
    rw [run_succ_eq] at h
    simp only [run_bind, run_capture] at h
    rcases hl : (runLoop fuel (captureOf s)).run s with ⟨r, s2⟩
    rw [hl] at h
    cases r with
    | ok u => exact absurd h (runTail_not_err s2 s')
    | error flt =>
      dsimp only at h
      injection h with h1 h2
      subst h2
      injection h1 with h1
      subst h1
      obtain ⟨s1, hp, hx, rfl⟩ := runLoop_err_inv (fun x => s.suspended <:+ x.suspended ∧ x.loopstack = s.loopstack)
        (fun f i s0 hp => ⟨((allKeeps s.suspended f).exec i s0 hp.1).1, (((allKeeps s.suspended f).exec i s0 hp.1).2).trans hp.2⟩)
        fuel _ s _ ⟨List.suffix_refl _, rfl⟩ hl
      exact ⟨s1, ⟨hx, h0⟩, hp.1, hp.2, rfl⟩

/-- **run_error_susp** — on the error exit of `Run`, from any state and whatever ran, the scope
stacks set aside by enclosing lazy forces are EXACTLY those of entry: `restoreControlState`
puts back the scope-stack object that was current at entry. No hypothesis. -/
theorem run_error_susp (fuel : Nat) (s s' : St) (h : (run fuel).run s = (.error .err, s')) :
    s'.suspended = s.suspended := by
  obtain ⟨s1, _, hs, _, rfl⟩ := faultState_susp fuel s s' h
  exact suspAt_of_suffix s s1 hs

/-- … and the loop-record stack is that of entry (the VM never touches it; the generator,
called at run time for operands and lazy arguments, hands it back balanced). -/
theorem run_error_loopstack (fuel : Nat) (s s' : St) (h : (run fuel).run s = (.error .err, s')) :
    s'.loopstack = s.loopstack := by
  obtain ⟨s1, _, _, hl, rfl⟩ := faultState_susp fuel s s' h
  exact hl

/-- `Run` — whatever its outcome — leaves the loop-record stack as it was. -/
theorem run_loopstack (fuel : Nat) (s : St) : ((run fuel).run s).2.loopstack = s.loopstack :=
  ((allKeeps [] fuel).run s List.nil_suffix).2

/-- the frame condition on the three stacks (the part that is NOT unconditional) -/
structure Extends3 (s s₁ : St) : Prop where
  data : s.data <:+ s₁.data
  linear : s.linear <:+ linAt (captureOf s) s₁
  addr : s.addr <:+ s₁.addr

/-- **run_error_exact'** — `run_error_exact` with the set-aside stacks discharged: whenever
`Run` returns an error there is a fault state `s₁`, and if `s₁` extends the state of entry on
the three stacks, the result is the state of entry with the tables of `s₁`. -/
theorem run_error_exact' (fuel : Nat) (s s' : St) (h : (run fuel).run s = (.error .err, s')) :
    ∃ s₁, FaultState fuel s s₁ ∧ SameStore s' s₁ ∧ s'.suspended = s.suspended ∧
      (Extends3 s s₁ → s'.data = s.data ∧ s'.linear = s.linear ∧ s'.addr = s.addr) := by
  obtain ⟨s1, hf, hs, _, rfl⟩ := faultState_susp fuel s s' h
  refine ⟨s1, hf, restore_park_sameStore _ _, suspAt_of_suffix s s1 hs, fun hx => ?_⟩
  have := restore_exact_vm s s1 ⟨hx.data, hx.linear, hx.addr, hs⟩
  rw [this]
  exact ⟨rfl, rfl, rfl⟩

/-- **run_error_exact_of_invariant** — the interface to a typing of states (C04's balance
discipline): ANY predicate `P` on states that holds at entry, is preserved by every instruction
step (whatever the outcome of the step), and implies that the three stacks of entry are still
in place, makes the error exit of `Run` exact. Nothing else about `P` is needed: the re-entrant
instructions are steps like the others. -/
theorem run_error_exact_of_invariant (P : St → Prop) (s : St)
    (hstep : ∀ f i s₀, P s₀ → P ((exec f i).run s₀).2) (hext : ∀ s₁, P s₁ → Extends3 s s₁)
    (fuel : Nat) (s' : St) (hp : P s) (h : (run fuel).run s = (.error .err, s')) :
    s'.data = s.data ∧ s'.linear = s.linear ∧ s'.addr = s.addr ∧ s'.suspended = s.suspended := by
  cases fuel with
  | zero => rw [run] at h; cases h
  | succ fuel =>
    rw [run_succ_eq] at h
    simp only [run_bind, run_capture] at h
    rcases hl : (runLoop fuel (captureOf s)).run s with ⟨r, s2⟩
    rw [hl] at h
    cases r with
    | ok u => exact absurd h (runTail_not_err s2 s')
    | error flt =>
      dsimp only at h
      injection h with h1 h2
      subst h2
      injection h1 with h1
      subst h1
      obtain ⟨s1, hp1, _, rfl⟩ := runLoop_err_inv (fun x => P x ∧ s.suspended <:+ x.suspended)
        (fun f i s0 hp => ⟨hstep f i s0 hp.1, ((allKeeps s.suspended f).exec i s0 hp.2).1⟩)
        fuel _ s _ ⟨hp, List.suffix_refl _⟩ hl
      have hx := hext s1 hp1.1
      rw [restore_exact_vm s s1 ⟨hx.data, hx.linear, hx.addr, hp1.2⟩]
      exact ⟨rfl, rfl, rfl, rfl⟩

theorem finishRun_state (r : Except Fault Val × St) : (finishRun r).2.1 = r.2 := by
  unfold finishRun
  rcases r with ⟨(_ | _ | _) | _, s⟩ <;> rfl

/-- **runText_loopstack** — one program text, whatever its outcome (value, error, compile error,
host panic, fuel): the loop-record stack afterwards is the one before. -/
theorem runText_loopstack (fuel : Nat) (es : List Expr) (s : St) : (runText fuel es s).2.1.loopstack = s.loopstack := by
  rw [runText_eq]
  split
  · rfl
  · rename_i code t gs' hc
    rw [finishRun_state, run_loopstack]
    exact genLS_compileBegin _ es _ _ _ _ hc

end ZygoVerif.Contain
