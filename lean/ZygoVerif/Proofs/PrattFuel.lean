/-
C06, Pratt loop = stratified grammar, part 1: facts about the model of pratt.go that do not
mention the grammar. On token lists of the fragment (`OKs`: every token starts an expression as
an atom or as a prefix operator — no `if`, `for`, `break`, `continue`):
  * `expr_loop_basic` — the stale token is never changed, the unconsumed rest is a suffix of the
    input, and when `Expression(rbp)` returns before the end of the input the next token binds no
    tighter than `rbp` (the stop property);
  * `mono` — more fuel never changes a result (`Frag`: the fragment condition also inside selectors);
  * `PE`/`PL`/`POne`/`PSel` — "returns … with enough fuel", and their fuel-free unfolding equations;
  * `PL_decomp` — `loop rbp = loop c ; loop rbp` for every `c ≥ rbp`.
-/
import ZygoVerif.Model.Pratt
namespace ZygoVerif.Pratt

/-- the token starts an expression as an atom or as a prefix operator -/
def okNud (T : Table) (t : Sx) : Prop := nudOf T t = .atom ∨ ∃ n r, nudOf T t = .pre n r

def OKs (T : Table) (ts : List Sx) : Prop := ∀ t ∈ ts, okNud T t

theorem OKs.tail {T : Table} {t : Sx} {ts : List Sx} (h : OKs T (t :: ts)) : OKs T ts :=
  fun x hx => h x (List.mem_cons_of_mem _ hx)

theorem OKs.suffix {T : Table} {ts ts' : List Sx} (h : OKs T ts) (hs : ts' <:+ ts) : OKs T ts' :=
  fun x hx => h x (hs.subset hx)

/-- what `Expression`/its loop guarantee about a result -/
def Basic (T : Table) (rbp : Nat) (st : Sx) (ts : List Sx) (res : Sx × Sx × List Sx) : Prop :=
  res.2.1 = st ∧ res.2.2 <:+ ts ∧ ∀ t r, res.2.2 = t :: r → ∃ l, lbp T t = some l ∧ l ≤ rbp

theorem Basic.weaken {T : Table} {rbp : Nat} {st t : Sx} {ts : List Sx} {res : Sx × Sx × List Sx}
    (h : Basic T rbp st ts res) : Basic T rbp st (t :: ts) res :=
  ⟨h.1, h.2.1.trans (List.suffix_cons t ts), h.2.2⟩

theorem expr_loop_basic (T : Table) : ∀ f,
    (∀ rbp st ts res, OKs T ts → expr T f rbp st ts = some res → Basic T rbp st ts res) ∧
    (∀ rbp left st ts res, OKs T ts → loop T f rbp left st ts = some res → Basic T rbp st ts res) := by
  intro f
  induction f with
  | zero => exact ⟨fun _ _ _ _ _ h => by simp [expr] at h, fun _ _ _ _ _ _ h => by simp [loop] at h⟩
  | succ f ih =>
    obtain ⟨ihE, ihL⟩ := ih
    constructor
    · intro rbp st ts res hok h
      cases ts with
      | nil =>
        rw [expr.eq_2] at h
        cases h
        exact ⟨rfl, List.suffix_refl _, fun t r hr => by cases hr⟩
      | cons t ts =>
        rw [expr.eq_3] at h
        rcases hok t (by simp) with hn | ⟨n, r, hn⟩
        · rw [hn] at h
          exact (ihL _ _ _ _ _ hok.tail h).weaken
        · rw [hn] at h
          simp only at h
          cases hx : expr T f r st ts with
          | none => rw [hx] at h; cases h
          | some p =>
            obtain ⟨x, st1, ts1⟩ := p
            rw [hx] at h
            obtain ⟨h1, h2, _⟩ := ihE _ _ _ _ hok.tail hx
            simp only at h1 h2 h
            subst h1
            obtain ⟨g1, g2, g3⟩ := ihL _ _ _ _ _ (hok.tail.suffix h2) h
            exact ⟨g1, (g2.trans h2).trans (List.suffix_cons t ts), g3⟩
    · intro rbp left st ts res hok h
      cases ts with
      | nil =>
        rw [loop.eq_2] at h
        cases h
        exact ⟨rfl, List.suffix_refl _, fun t r hr => by cases hr⟩
      | cons t ts =>
        rw [loop.eq_3] at h
        cases hl : lbp T t with
        | none => rw [hl] at h; cases h
        | some l =>
          rw [hl] at h
          simp only at h
          by_cases hge : rbp ≥ l
          · rw [if_pos hge] at h
            cases h
            refine ⟨rfl, List.suffix_refl _, fun t' r hr => ?_⟩
            simp only [List.cons.injEq] at hr
            obtain ⟨rfl, _⟩ := hr
            exact ⟨l, hl, hge⟩
          · rw [if_neg hge] at h
            cases hled : ledOf T t with
            | bin name r =>
              rw [hled] at h
              simp only at h
              cases hx : expr T f r st ts with
              | none => rw [hx] at h; cases h
              | some p =>
                obtain ⟨x, st1, ts1⟩ := p
                rw [hx] at h
                obtain ⟨h1, h2, _⟩ := ihE _ _ _ _ hok.tail hx
                simp only at h1 h2 h
                subst h1
                obtain ⟨g1, g2, g3⟩ := ihL _ _ _ _ _ (hok.tail.suffix h2) h
                exact ⟨g1, (g2.trans h2).trans (List.suffix_cons t ts), g3⟩
            | post name => rw [hled] at h; exact (ihL _ _ _ _ _ hok.tail h).weaken
            | field => rw [hled] at h; exact (ihL _ _ _ _ _ hok.tail h).weaken
            | drop => rw [hled] at h; exact (ihL _ _ _ _ _ hok.tail h).weaken
            | index =>
              rw [hled] at h
              simp only at h
              cases hs : normSelector T f t with
              | none => rw [hs] at h; cases h
              | some sel => rw [hs] at h; exact (ihL _ _ _ _ _ hok.tail h).weaken

/-! ## the fragment at every depth -/

def okNudB (T : Table) (t : Sx) : Bool :=
  match nudOf T t with
  | .atom => true
  | .pre _ _ => true
  | _ => false

theorem okNud_of_B {T : Table} {t : Sx} (h : okNudB T t = true) : okNud T t := by
  unfold okNudB at h
  cases hn : nudOf T t with
  | atom => exact Or.inl hn
  | pre n r => exact Or.inr ⟨n, r, hn⟩
  | ifop => rw [hn] at h; cases h
  | forop => rw [hn] at h; cases h
  | loopctl n => rw [hn] at h; cases h

mutual
/-- `p` holds of the token and of every token inside its selectors -/
def fragTok (p : Sx → Bool) : Sx → Bool
  | .arr xs => p (.arr xs) && fragList p xs
  | .sym n => p (.sym n)
  | .dot n => p (.dot n)
  | .lab n => p (.lab n)
  | .lit s => p (.lit s)
  | .other u s => p (.other u s)
  | .list xs => p (.list xs)
  | .comma => p .comma
  | .semi => p .semi
  | .hash => p .hash
  | .null => p .null
def fragList (p : Sx → Bool) : List Sx → Bool
  | [] => true
  | t :: ts => fragTok p t && fragList p ts
end

theorem fragTok_top (p : Sx → Bool) (t : Sx) (h : fragTok p t = true) : p t = true := by
  cases t <;> simp_all [fragTok]

theorem fragList_mem (p : Sx → Bool) (ts : List Sx) (h : fragList p ts = true) : ∀ t ∈ ts, fragTok p t = true := by
  induction ts with
  | nil => intro t ht; cases ht
  | cons a r ih =>
    simp only [fragList, Bool.and_eq_true] at h
    intro t ht
    rw [List.mem_cons] at ht
    rcases ht with rfl | ht
    · exact h.1
    · exact ih h.2 t ht

theorem fragList_of_mem (p : Sx → Bool) (ts : List Sx) (h : ∀ t ∈ ts, fragTok p t = true) : fragList p ts = true := by
  induction ts with
  | nil => rfl
  | cons a r ih =>
    simp only [fragList, Bool.and_eq_true]
    exact ⟨h a (by simp), ih (fun t ht => h t (by simp [ht]))⟩

theorem fragList_sublist (p : Sx → Bool) (ts ts' : List Sx) (h : fragList p ts = true) (hs : ∀ t ∈ ts', t ∈ ts) :
    fragList p ts' = true :=
  fragList_of_mem p ts' (fun t ht => fragList_mem p ts h t (hs t ht))

theorem fragList_OKs (T : Table) (ts : List Sx) (h : fragList (okNudB T) ts = true) : OKs T ts :=
  fun t ht => okNud_of_B (fragTok_top _ t (fragList_mem _ ts h t ht))

theorem nudOf_lab (T : Table) (n : String) : nudOf T (.lab n) = nudOf T (.sym n) := rfl

/-- the tokens of a selector after `splitColonTailSelectorSymbols` -/
theorem fragList_split (T : Table) (hc : okNudB T (.sym ":") = true) (xs : List Sx)
    (h : fragList (okNudB T) xs = true) : fragList (okNudB T) (splitColonTail xs) = true := by
  induction xs with
  | nil => rfl
  | cons a r ih =>
    simp only [fragList, Bool.and_eq_true] at h
    have hr := ih h.2
    cases a with
    | lab n =>
      have : okNudB T (.sym n) = true := by
        have := fragTok_top _ _ h.1
        simpa [okNudB, nudOf_lab] using this
      simp [splitColonTail, fragList, fragTok, this, hc, hr]
    | _ => simp only [splitColonTail, fragList, Bool.and_eq_true]; exact ⟨h.1, hr⟩

theorem fragTok_arr (p : Sx → Bool) (xs : List Sx) (h : fragTok p (.arr xs) = true) : fragList p xs = true := by
  simp only [fragTok, Bool.and_eq_true] at h; exact h.2

/-! ## more fuel never changes a result -/

theorem mono_step (T : Table) (hc : okNudB T (.sym ":") = true) : ∀ f,
    (∀ rbp st ts r, fragList (okNudB T) ts = true → expr T f rbp st ts = some r → expr T (f + 1) rbp st ts = some r) ∧
    (∀ rbp left st ts r, fragList (okNudB T) ts = true → loop T f rbp left st ts = some r →
      loop T (f + 1) rbp left st ts = some r) ∧
    (∀ ts r, fragList (okNudB T) ts = true → prattOne T f ts = some r → prattOne T (f + 1) ts = some r) ∧
    (∀ t r, fragTok (okNudB T) t = true → normSelector T f t = some r → normSelector T (f + 1) t = some r) := by
  intro f
  induction f with
  | zero =>
    exact ⟨fun _ _ _ _ _ h => by simp [expr] at h, fun _ _ _ _ _ _ h => by simp [loop] at h,
      fun _ _ _ h => by simp [prattOne] at h, fun _ _ _ h => by simp [normSelector] at h⟩
  | succ f ih =>
    obtain ⟨ihE, ihL, ihO, ihS⟩ := ih
    refine ⟨?_, ?_, ?_, ?_⟩
    · intro rbp st ts r hfr h
      cases ts with
      | nil => rw [expr.eq_2] at h ⊢; exact h
      | cons t ts =>
        have hfr' : fragList (okNudB T) ts = true := by simp only [fragList, Bool.and_eq_true] at hfr; exact hfr.2
        have hok := fragList_OKs T _ hfr
        rw [expr.eq_3] at h ⊢
        rcases hok t (by simp) with hn | ⟨n, r0, hn⟩
        · rw [hn] at h ⊢
          exact ihL _ _ _ _ _ hfr' h
        · rw [hn] at h ⊢
          simp only at h ⊢
          cases hx : expr T f r0 st ts with
          | none => rw [hx] at h; cases h
          | some p =>
            obtain ⟨x, st1, ts1⟩ := p
            rw [hx] at h
            rw [ihE _ _ _ _ hfr' hx]
            simp only at h ⊢
            have hb := (expr_loop_basic T f).1 _ _ _ _ hok.tail hx
            exact ihL _ _ _ _ _ (fragList_sublist _ ts ts1 hfr' (fun a ha => hb.2.1.subset ha)) h
    · intro rbp left st ts r hfr h
      cases ts with
      | nil => rw [loop.eq_2] at h ⊢; exact h
      | cons t ts =>
        have hfr' : fragList (okNudB T) ts = true := by simp only [fragList, Bool.and_eq_true] at hfr; exact hfr.2
        have hft : fragTok (okNudB T) t = true := by simp only [fragList, Bool.and_eq_true] at hfr; exact hfr.1
        have hok := fragList_OKs T _ hfr
        rw [loop.eq_3] at h ⊢
        cases hl : lbp T t with
        | none => rw [hl] at h; cases h
        | some l =>
          rw [hl] at h
          simp only at h ⊢
          by_cases hge : rbp ≥ l
          · rw [if_pos hge] at h ⊢; exact h
          · rw [if_neg hge] at h ⊢
            cases hled : ledOf T t with
            | bin name r0 =>
              rw [hled] at h
              simp only at h ⊢
              cases hx : expr T f r0 st ts with
              | none => rw [hx] at h; cases h
              | some p =>
                obtain ⟨x, st1, ts1⟩ := p
                rw [hx] at h
                rw [ihE _ _ _ _ hfr' hx]
                simp only at h ⊢
                have hb := (expr_loop_basic T f).1 _ _ _ _ hok.tail hx
                exact ihL _ _ _ _ _ (fragList_sublist _ ts ts1 hfr' (fun a ha => hb.2.1.subset ha)) h
            | post name => rw [hled] at h; exact ihL _ _ _ _ _ hfr' h
            | field => rw [hled] at h; exact ihL _ _ _ _ _ hfr' h
            | drop => rw [hled] at h; exact ihL _ _ _ _ _ hfr' h
            | index =>
              rw [hled] at h
              simp only at h ⊢
              cases hs : normSelector T f t with
              | none => rw [hs] at h; cases h
              | some sel =>
                rw [hs] at h
                rw [ihS _ _ hft hs]
                exact ihL _ _ _ _ _ hfr' h
    · intro ts r hfr h
      rw [prattOne.eq_2] at h ⊢
      cases hx : expr T f 0 (staleOf ts) ts with
      | none => rw [hx] at h; cases h
      | some p =>
        rw [ihE _ _ _ _ hfr hx]
        rw [hx] at h
        exact h
    · intro t r hft h
      cases t with
      | arr xs =>
        have htoks := fragList_split T hc xs (fragTok_arr _ xs hft)
        rw [normSelector.eq_2] at h ⊢
        by_cases h1 : countNamed ":" (splitColonTail xs) > 1
        · rw [if_pos h1] at h; cases h
        · rw [if_neg h1] at h ⊢
          by_cases h2 : (countNamed ":" (splitColonTail xs) == 1) = true
          · rw [if_pos h2] at h ⊢
            simp only at h ⊢
            have hbef : fragList (okNudB T) (List.takeWhile (fun t => !t.isNamed ":") (splitColonTail xs)) = true :=
              fragList_sublist _ _ _ htoks (fun a ha => (List.takeWhile_sublist _).subset ha)
            have haft : fragList (okNudB T) (List.dropWhile (fun t => !t.isNamed ":") (splitColonTail xs)).tail = true :=
              fragList_sublist _ _ _ htoks (fun a ha => (List.dropWhile_sublist _).subset (List.mem_of_mem_tail ha))
            have key : ∀ (l : List Sx) (s : List Sx), fragList (okNudB T) l = true →
                (if l.isEmpty = true then some [] else Option.map (fun x => [x]) (prattOne T f l)) = some s →
                (if l.isEmpty = true then some [] else Option.map (fun x => [x]) (prattOne T (f + 1) l)) = some s := by
              intro l s hl hh
              by_cases he : l.isEmpty = true
              · rw [if_pos he] at hh ⊢; exact hh
              · rw [if_neg he] at hh ⊢
                cases hp : prattOne T f l with
                | none => rw [hp] at hh; cases hh
                | some y => rw [hp] at hh; rw [ihO _ _ hl hp]; exact hh
            cases hb : (if (List.takeWhile (fun t => !t.isNamed ":") (splitColonTail xs)).isEmpty = true then some []
                else Option.map (fun x => [x]) (prattOne T f (List.takeWhile (fun t => !t.isNamed ":") (splitColonTail xs)))) with
            | none => rw [hb] at h; cases h
            | some s =>
              rw [hb] at h
              rw [key _ _ hbef hb]
              simp only at h ⊢
              cases ha : (if (List.dropWhile (fun t => !t.isNamed ":") (splitColonTail xs)).tail.isEmpty = true then some []
                  else Option.map (fun x => [x]) (prattOne T f (List.dropWhile (fun t => !t.isNamed ":") (splitColonTail xs)).tail)) with
              | none => rw [ha] at h; cases h
              | some e =>
                rw [ha] at h
                rw [key _ _ haft ha]
                exact h
          · rw [if_neg h2] at h ⊢
            by_cases h3 : (splitColonTail xs).length ≤ 1
            · rw [if_pos h3] at h ⊢; exact h
            · rw [if_neg h3] at h ⊢
              cases hx : expr T f 0 (staleOf (splitColonTail xs)) (splitColonTail xs) with
              | none => rw [hx] at h; cases h
              | some p =>
                rw [ihE _ _ _ _ htoks hx]
                rw [hx] at h
                exact h
      | _ => simp only [normSelector] at h ⊢; exact h

theorem mono (T : Table) (hc : okNudB T (.sym ":") = true) {f f' : Nat} (hle : f ≤ f') :
    (∀ rbp st ts r, fragList (okNudB T) ts = true → expr T f rbp st ts = some r → expr T f' rbp st ts = some r) ∧
    (∀ rbp left st ts r, fragList (okNudB T) ts = true → loop T f rbp left st ts = some r →
      loop T f' rbp left st ts = some r) ∧
    (∀ ts r, fragList (okNudB T) ts = true → prattOne T f ts = some r → prattOne T f' ts = some r) ∧
    (∀ t r, fragTok (okNudB T) t = true → normSelector T f t = some r → normSelector T f' t = some r) := by
  induction hle with
  | refl => exact ⟨fun _ _ _ _ _ h => h, fun _ _ _ _ _ _ h => h, fun _ _ _ h => h, fun _ _ _ h => h⟩
  | step _ ih =>
    obtain ⟨a, b, c, d⟩ := ih
    obtain ⟨a', b', c', d'⟩ := mono_step T hc _
    exact ⟨fun _ _ _ _ hf h => a' _ _ _ _ hf (a _ _ _ _ hf h), fun _ _ _ _ _ hf h => b' _ _ _ _ _ hf (b _ _ _ _ _ hf h),
      fun _ _ hf h => c' _ _ hf (c _ _ hf h), fun _ _ hf h => d' _ _ hf (d _ _ hf h)⟩

/-! ## "returns … with enough fuel" -/

/-- `Pratt.Expression(rbp)` on the tokens `ts` returns the tree `r.1` and leaves `r.2` -/
def PE (T : Table) (st : Sx) (rbp : Nat) (ts : List Sx) (r : Sx × List Sx) : Prop :=
  ∃ f, expr T f rbp st ts = some (r.1, st, r.2)

/-- the loop of `Expression(rbp)` with `left` parsed so far -/
def PL (T : Table) (st : Sx) (rbp : Nat) (left : Sx) (ts : List Sx) (r : Sx × List Sx) : Prop :=
  ∃ f, loop T f rbp left st ts = some (r.1, st, r.2)

def PSel (T : Table) (t : Sx) (s : Sx) : Prop := ∃ f, normSelector T f t = some s

def POne (T : Table) (ts : List Sx) (x : Sx) : Prop := ∃ f, prattOne T f ts = some x

section Eqns
variable {T : Table} (hc : okNudB T (.sym ":") = true) {st : Sx}

theorem frag_tail {t : Sx} {ts : List Sx} (h : fragList (okNudB T) (t :: ts) = true) : fragList (okNudB T) ts = true := by
  simp only [fragList, Bool.and_eq_true] at h; exact h.2

theorem frag_head {t : Sx} {ts : List Sx} (h : fragList (okNudB T) (t :: ts) = true) : fragTok (okNudB T) t = true := by
  simp only [fragList, Bool.and_eq_true] at h; exact h.1

theorem frag_suffix {ts ts' : List Sx} (h : fragList (okNudB T) ts = true) (hs : ts' <:+ ts) :
    fragList (okNudB T) ts' = true :=
  fragList_sublist _ ts ts' h (fun _ ha => hs.subset ha)

/-- a result of `expr` in the fragment, with the facts of `expr_loop_basic` -/
theorem expr_res {f rbp : Nat} {ts : List Sx} {x st1 : Sx} {ts1 : List Sx} (hfr : fragList (okNudB T) ts = true)
    (h : expr T f rbp st ts = some (x, st1, ts1)) :
    st1 = st ∧ ts1 <:+ ts ∧ ∀ t r, ts1 = t :: r → ∃ l, lbp T t = some l ∧ l ≤ rbp :=
  (expr_loop_basic T f).1 _ _ _ _ (fragList_OKs T _ hfr) h

theorem loop_res {f rbp : Nat} {left : Sx} {ts : List Sx} {x st1 : Sx} {ts1 : List Sx} (hfr : fragList (okNudB T) ts = true)
    (h : loop T f rbp left st ts = some (x, st1, ts1)) :
    st1 = st ∧ ts1 <:+ ts ∧ ∀ t r, ts1 = t :: r → ∃ l, lbp T t = some l ∧ l ≤ rbp :=
  (expr_loop_basic T f).2 _ _ _ _ _ (fragList_OKs T _ hfr) h

theorem PE.suffix {rbp : Nat} {ts : List Sx} {r : Sx × List Sx} (hfr : fragList (okNudB T) ts = true) (h : PE T st rbp ts r) :
    r.2 <:+ ts := by
  obtain ⟨f, h⟩ := h; exact (expr_res hfr h).2.1

theorem PL.suffix {rbp : Nat} {left : Sx} {ts : List Sx} {r : Sx × List Sx} (hfr : fragList (okNudB T) ts = true)
    (h : PL T st rbp left ts r) : r.2 <:+ ts := by
  obtain ⟨f, h⟩ := h; exact (loop_res hfr h).2.1

/-- **the stop property**: when `Expression(rbp)` returns before the end, the next token binds no tighter than `rbp` -/
theorem PE.stop {rbp : Nat} {ts : List Sx} {x t : Sx} {ts1 : List Sx} (hfr : fragList (okNudB T) ts = true)
    (h : PE T st rbp ts (x, t :: ts1)) : ∃ l, lbp T t = some l ∧ l ≤ rbp := by
  obtain ⟨f, h⟩ := h; exact (expr_res hfr h).2.2 t ts1 rfl

theorem PL.stop {rbp : Nat} {left : Sx} {ts : List Sx} {x t : Sx} {ts1 : List Sx} (hfr : fragList (okNudB T) ts = true)
    (h : PL T st rbp left ts (x, t :: ts1)) : ∃ l, lbp T t = some l ∧ l ≤ rbp := by
  obtain ⟨f, h⟩ := h; exact (loop_res hfr h).2.2 t ts1 rfl

theorem PE_nil (rbp : Nat) (r : Sx × List Sx) : PE T st rbp [] r ↔ r = (st, []) := by
  constructor
  · rintro ⟨f, h⟩
    cases f with
    | zero => simp [expr] at h
    | succ f => rw [expr.eq_2] at h; simp only [Option.some.injEq, Prod.mk.injEq] at h; exact Prod.ext h.1.symm h.2.2.symm
  · rintro rfl; exact ⟨1, by rw [expr.eq_2]⟩

theorem PL_nil (rbp : Nat) (left : Sx) (r : Sx × List Sx) : PL T st rbp left [] r ↔ r = (left, []) := by
  constructor
  · rintro ⟨f, h⟩
    cases f with
    | zero => simp [loop] at h
    | succ f => rw [loop.eq_2] at h; simp only [Option.some.injEq, Prod.mk.injEq] at h; exact Prod.ext h.1.symm h.2.2.symm
  · rintro rfl; exact ⟨1, by rw [loop.eq_2]⟩

theorem PE_atom {rbp : Nat} {t : Sx} {ts : List Sx} {r : Sx × List Sx} (hn : nudOf T t = .atom) :
    PE T st rbp (t :: ts) r ↔ PL T st rbp t ts r := by
  constructor
  · rintro ⟨f, h⟩
    cases f with
    | zero => simp [expr] at h
    | succ f => rw [expr.eq_3, hn] at h; exact ⟨f, h⟩
  · rintro ⟨f, h⟩; exact ⟨f + 1, by rw [expr.eq_3, hn]; exact h⟩

include hc in
theorem PE_pre {rbp : Nat} {t : Sx} {ts : List Sx} {r : Sx × List Sx} {n : String} {r0 : Nat}
    (hfr : fragList (okNudB T) (t :: ts) = true) (hn : nudOf T t = .pre n r0) :
    PE T st rbp (t :: ts) r ↔ ∃ x ts1, PE T st r0 ts (x, ts1) ∧ PL T st rbp (.list [.sym n, x]) ts1 r := by
  have hfr' := frag_tail hfr
  constructor
  · rintro ⟨f, h⟩
    cases f with
    | zero => simp [expr] at h
    | succ f =>
      rw [expr.eq_3, hn] at h
      simp only at h
      cases hx : expr T f r0 st ts with
      | none => rw [hx] at h; cases h
      | some p =>
        obtain ⟨x, st1, ts1⟩ := p
        rw [hx] at h
        obtain ⟨rfl, _, _⟩ := expr_res hfr' hx
        exact ⟨x, ts1, ⟨f, hx⟩, ⟨f, h⟩⟩
  · rintro ⟨x, ts1, ⟨f1, h1⟩, ⟨f2, h2⟩⟩
    have hs := (expr_res hfr' h1).2.1
    have g1 := (mono T hc (Nat.le_max_left f1 f2)).1 _ _ _ _ hfr' h1
    have g2 := (mono T hc (Nat.le_max_right f1 f2)).2.1 _ _ _ _ _ (frag_suffix hfr' hs) h2
    exact ⟨max f1 f2 + 1, by rw [expr.eq_3, hn]; simp only; rw [g1]; exact g2⟩

theorem PL_stop {rbp l : Nat} {left t : Sx} {ts : List Sx} {r : Sx × List Sx} (hl : lbp T t = some l) (hge : rbp ≥ l) :
    PL T st rbp left (t :: ts) r ↔ r = (left, t :: ts) := by
  constructor
  · rintro ⟨f, h⟩
    cases f with
    | zero => simp [loop] at h
    | succ f =>
      rw [loop.eq_3, hl] at h
      simp only [if_pos hge, Option.some.injEq, Prod.mk.injEq] at h
      exact Prod.ext h.1.symm h.2.2.symm
  · rintro rfl; exact ⟨1, by rw [loop.eq_3, hl]; simp only [if_pos hge]⟩

include hc in
theorem PL_bin {rbp l : Nat} {left t : Sx} {ts : List Sx} {r : Sx × List Sx} {name : String} {r0 : Nat}
    (hfr : fragList (okNudB T) (t :: ts) = true) (hl : lbp T t = some l) (hlt : ¬ rbp ≥ l) (hled : ledOf T t = .bin name r0) :
    PL T st rbp left (t :: ts) r ↔ ∃ x ts1, PE T st r0 ts (x, ts1) ∧ PL T st rbp (.list [.sym name, left, x]) ts1 r := by
  have hfr' := frag_tail hfr
  constructor
  · rintro ⟨f, h⟩
    cases f with
    | zero => simp [loop] at h
    | succ f =>
      rw [loop.eq_3, hl] at h
      simp only [if_neg hlt, hled] at h
      cases hx : expr T f r0 st ts with
      | none => rw [hx] at h; cases h
      | some p =>
        obtain ⟨x, st1, ts1⟩ := p
        rw [hx] at h
        obtain ⟨rfl, _, _⟩ := expr_res hfr' hx
        exact ⟨x, ts1, ⟨f, hx⟩, ⟨f, h⟩⟩
  · rintro ⟨x, ts1, ⟨f1, h1⟩, ⟨f2, h2⟩⟩
    have hs := (expr_res hfr' h1).2.1
    have g1 := (mono T hc (Nat.le_max_left f1 f2)).1 _ _ _ _ hfr' h1
    have g2 := (mono T hc (Nat.le_max_right f1 f2)).2.1 _ _ _ _ _ (frag_suffix hfr' hs) h2
    exact ⟨max f1 f2 + 1, by rw [loop.eq_3, hl]; simp only [if_neg hlt, hled]; rw [g1]; exact g2⟩

/-- the three operators without a right operand: the loop goes on with a new left tree -/
theorem PL_noarg {rbp l : Nat} {left t : Sx} {ts : List Sx} {r : Sx × List Sx}
    (hl : lbp T t = some l) (hlt : ¬ rbp ≥ l) :
    (∀ name, ledOf T t = .post name → (PL T st rbp left (t :: ts) r ↔ PL T st rbp (.list [.sym name, left]) ts r)) ∧
    (ledOf T t = .field → (PL T st rbp left (t :: ts) r ↔ PL T st rbp (.list [.sym "hashidx", left, t]) ts r)) ∧
    (ledOf T t = .drop → (PL T st rbp left (t :: ts) r ↔ PL T st rbp t ts r)) := by
  refine ⟨fun name hled => ⟨?_, ?_⟩, fun hled => ⟨?_, ?_⟩, fun hled => ⟨?_, ?_⟩⟩
  all_goals first
    | (rintro ⟨f, h⟩
       cases f with
       | zero => simp [loop] at h
       | succ f => rw [loop.eq_3, hl] at h; simp only [if_neg hlt, hled] at h; exact ⟨f, h⟩)
    | (rintro ⟨f, h⟩; exact ⟨f + 1, by rw [loop.eq_3, hl]; simp only [if_neg hlt, hled]; exact h⟩)

include hc in
theorem PL_index {rbp l : Nat} {left t : Sx} {ts : List Sx} {r : Sx × List Sx}
    (hfr : fragList (okNudB T) (t :: ts) = true) (hl : lbp T t = some l) (hlt : ¬ rbp ≥ l) (hled : ledOf T t = .index) :
    PL T st rbp left (t :: ts) r ↔ ∃ sel, PSel T t sel ∧ PL T st rbp (.list [.sym "arrayidx", left, sel]) ts r := by
  have hfr' := frag_tail hfr
  constructor
  · rintro ⟨f, h⟩
    cases f with
    | zero => simp [loop] at h
    | succ f =>
      rw [loop.eq_3, hl] at h
      simp only [if_neg hlt, hled] at h
      cases hs : normSelector T f t with
      | none => rw [hs] at h; cases h
      | some sel => rw [hs] at h; exact ⟨sel, ⟨f, hs⟩, ⟨f, h⟩⟩
  · rintro ⟨sel, ⟨f1, h1⟩, ⟨f2, h2⟩⟩
    have g1 := (mono T hc (Nat.le_max_left f1 f2)).2.2.2 _ _ (frag_head hfr) h1
    have g2 := (mono T hc (Nat.le_max_right f1 f2)).2.1 _ _ _ _ _ hfr' h2
    exact ⟨max f1 f2 + 1, by rw [loop.eq_3, hl]; simp only [if_neg hlt, hled]; rw [g1]; exact g2⟩

/-! ## selectors -/

theorem POne_iff {ts : List Sx} {x : Sx} (hfr : fragList (okNudB T) ts = true) :
    POne T ts x ↔ PE T (staleOf ts) 0 ts (x, []) := by
  constructor
  · rintro ⟨f, h⟩
    cases f with
    | zero => simp [prattOne] at h
    | succ f =>
      rw [prattOne.eq_2] at h
      cases hx : expr T f 0 (staleOf ts) ts with
      | none => rw [hx] at h; cases h
      | some p =>
        obtain ⟨x', st1, ts1⟩ := p
        rw [hx] at h
        obtain ⟨rfl, _, _⟩ := expr_res hfr hx
        cases ts1 with
        | nil => simp only [Option.some.injEq] at h; subst h; exact ⟨f, hx⟩
        | cons a b => cases h
  · rintro ⟨f, h⟩
    exact ⟨f + 1, by rw [prattOne.eq_2, h]⟩

/-- the shape shared by `normalizeArraySelector` and the selector of the specification: `one l y` —
the tokens `l` are one expression `y`; `whole toks r` — an expression `r.1` from the front of
`toks` leaves `r.2` -/
def selShape (one : List Sx → Sx → Prop) (whole : List Sx → Sx × List Sx → Prop) (toks : List Sx) (s : Sx) : Prop :=
  let optOne := fun (l : List Sx) (o : List Sx) => if l.isEmpty = true then o = [] else ∃ y, one l y ∧ o = [y]
  ¬ (countNamed ":" toks > 1) ∧
  (if (countNamed ":" toks == 1) = true then
     ∃ sb se, optOne (toks.takeWhile (fun t => !t.isNamed ":")) sb ∧
              optOne (toks.dropWhile (fun t => !t.isNamed ":")).tail se ∧ s = .arr (sb ++ .sym ":" :: se)
   else if toks.length ≤ 1 then s = .arr toks
   else ∃ x ts', whole toks (x, ts') ∧ s = (if ts'.isEmpty = true then .arr [x] else .arr toks))

theorem selShape_congr {one one' : List Sx → Sx → Prop} {whole whole' : List Sx → Sx × List Sx → Prop} {toks : List Sx}
    (h1 : ∀ y, one (toks.takeWhile (fun t => !t.isNamed ":")) y ↔ one' (toks.takeWhile (fun t => !t.isNamed ":")) y)
    (h2 : ∀ y, one (toks.dropWhile (fun t => !t.isNamed ":")).tail y ↔ one' (toks.dropWhile (fun t => !t.isNamed ":")).tail y)
    (h3 : ∀ r, whole toks r ↔ whole' toks r) (s : Sx) :
    selShape one whole toks s ↔ selShape one' whole' toks s := by
  unfold selShape
  simp only [h1, h2, h3]

include hc in
theorem PSel_arr {xs : List Sx} {s : Sx} (hft : fragTok (okNudB T) (.arr xs) = true) :
    PSel T (.arr xs) s ↔
      selShape (POne T) (fun toks r => PE T (staleOf toks) 0 toks r) (splitColonTail xs) s := by
  have htoks := fragList_split T hc xs (fragTok_arr _ xs hft)
  have hbef : fragList (okNudB T) (List.takeWhile (fun t => !t.isNamed ":") (splitColonTail xs)) = true :=
    fragList_sublist _ _ _ htoks (fun a ha => (List.takeWhile_sublist _).subset ha)
  have haft : fragList (okNudB T) (List.dropWhile (fun t => !t.isNamed ":") (splitColonTail xs)).tail = true :=
    fragList_sublist _ _ _ htoks (fun a ha => (List.dropWhile_sublist _).subset (List.mem_of_mem_tail ha))
  unfold selShape
  constructor
  · rintro ⟨f, h⟩
    cases f with
    | zero => simp [normSelector] at h
    | succ f =>
      rw [normSelector.eq_2] at h
      by_cases h1 : countNamed ":" (splitColonTail xs) > 1
      · rw [if_pos h1] at h; cases h
      · rw [if_neg h1] at h
        refine ⟨h1, ?_⟩
        by_cases h2 : (countNamed ":" (splitColonTail xs) == 1) = true
        · rw [if_pos h2] at h ⊢
          simp only at h
          have key : ∀ (l : List Sx) (o : List Sx),
              (if l.isEmpty = true then some [] else Option.map (fun x => [x]) (prattOne T f l)) = some o →
              (if l.isEmpty = true then o = [] else ∃ y, POne T l y ∧ o = [y]) := by
            intro l o hh
            by_cases he : l.isEmpty = true
            · rw [if_pos he] at hh ⊢; exact (Option.some.inj hh).symm
            · rw [if_neg he] at hh ⊢
              cases hp : prattOne T f l with
              | none => rw [hp] at hh; cases hh
              | some y => rw [hp] at hh; exact ⟨y, ⟨f, hp⟩, (Option.some.inj hh).symm⟩
          cases hb : (if (List.takeWhile (fun t => !t.isNamed ":") (splitColonTail xs)).isEmpty = true then some []
              else Option.map (fun x => [x]) (prattOne T f (List.takeWhile (fun t => !t.isNamed ":") (splitColonTail xs)))) with
          | none => rw [hb] at h; cases h
          | some sb =>
            rw [hb] at h
            simp only at h
            cases ha : (if (List.dropWhile (fun t => !t.isNamed ":") (splitColonTail xs)).tail.isEmpty = true then some []
                else Option.map (fun x => [x]) (prattOne T f (List.dropWhile (fun t => !t.isNamed ":") (splitColonTail xs)).tail)) with
            | none => rw [ha] at h; cases h
            | some se =>
              rw [ha] at h
              exact ⟨sb, se, key _ _ hb, key _ _ ha, (Option.some.inj h).symm⟩
        · rw [if_neg h2] at h ⊢
          by_cases h3 : (splitColonTail xs).length ≤ 1
          · rw [if_pos h3] at h ⊢; exact (Option.some.inj h).symm
          · rw [if_neg h3] at h ⊢
            cases hx : expr T f 0 (staleOf (splitColonTail xs)) (splitColonTail xs) with
            | none => rw [hx] at h; cases h
            | some p =>
              obtain ⟨x, st1, ts1⟩ := p
              rw [hx] at h
              obtain ⟨rfl, _, _⟩ := expr_res htoks hx
              refine ⟨x, ts1, ⟨f, hx⟩, ?_⟩
              cases ts1 with
              | nil => exact (Option.some.inj h).symm
              | cons a b => exact (Option.some.inj h).symm
  · rintro ⟨h1, h⟩
    by_cases h2 : (countNamed ":" (splitColonTail xs) == 1) = true
    · rw [if_pos h2] at h
      obtain ⟨sb, se, hb, ha, rfl⟩ := h
      have key : ∀ (l : List Sx) (o : List Sx), fragList (okNudB T) l = true →
          (if l.isEmpty = true then o = [] else ∃ y, POne T l y ∧ o = [y]) →
          ∃ f0, ∀ f, f0 ≤ f → (if l.isEmpty = true then some [] else Option.map (fun x => [x]) (prattOne T f l)) = some o := by
        intro l o hl hh
        by_cases he : l.isEmpty = true
        · rw [if_pos he] at hh; exact ⟨0, fun f _ => by rw [if_pos he, hh]⟩
        · rw [if_neg he] at hh
          obtain ⟨y, ⟨f0, hp⟩, rfl⟩ := hh
          exact ⟨f0, fun f hf => by rw [if_neg he, (mono T hc hf).2.2.1 _ _ hl hp]; rfl⟩
      obtain ⟨f1, k1⟩ := key _ _ hbef hb
      obtain ⟨f2, k2⟩ := key _ _ haft ha
      refine ⟨max f1 f2 + 1, ?_⟩
      rw [normSelector.eq_2, if_neg h1, if_pos h2]
      simp only
      rw [k1 _ (Nat.le_max_left f1 f2), k2 _ (Nat.le_max_right f1 f2)]
    · rw [if_neg h2] at h
      by_cases h3 : (splitColonTail xs).length ≤ 1
      · rw [if_pos h3] at h
        exact ⟨1, by rw [normSelector.eq_2, if_neg h1, if_neg h2, if_pos h3, h]⟩
      · rw [if_neg h3] at h
        obtain ⟨x, ts1, ⟨f, hx⟩, rfl⟩ := h
        refine ⟨f + 1, ?_⟩
        rw [normSelector.eq_2, if_neg h1, if_neg h2, if_neg h3, hx]
        cases ts1 <;> rfl

/-! ## the loop can be cut at any higher binding power -/

include hc in
/-- `loop rbp` = `loop c` (which stops at the first operator binding no tighter than `c`) followed by
`loop rbp` again: each step of the loop depends on the operator met, not on `rbp`. -/
theorem PL_decomp {rbp c : Nat} (hle : rbp ≤ c) {ts : List Sx} (hfr : fragList (okNudB T) ts = true) (left : Sx) (r : Sx × List Sx) :
    PL T st rbp left ts r ↔ ∃ y ts1, PL T st c left ts (y, ts1) ∧ PL T st rbp y ts1 r := by
  constructor
  · rintro ⟨f, h⟩
    induction f generalizing left ts r with
    | zero => simp [loop] at h
    | succ f ih =>
      cases ts with
      | nil =>
        have hr : r = (left, []) := (PL_nil rbp left r).1 ⟨f + 1, h⟩
        subst hr
        exact ⟨left, [], (PL_nil c left _).2 rfl, (PL_nil rbp left _).2 rfl⟩
      | cons t ts =>
        have hfr' := frag_tail hfr
        have h0 := h
        rw [loop.eq_3] at h
        cases hl : lbp T t with
        | none => rw [hl] at h; cases h
        | some l =>
          rw [hl] at h
          simp only at h
          by_cases hc1 : c ≥ l
          · exact ⟨left, t :: ts, (PL_stop hl hc1).2 rfl, ⟨f + 1, h0⟩⟩
          · have hlt : ¬ rbp ≥ l := by omega
            rw [if_neg hlt] at h
            cases hled : ledOf T t with
            | bin name r0 =>
              rw [hled] at h
              simp only at h
              cases hx : expr T f r0 st ts with
              | none => rw [hx] at h; cases h
              | some p =>
                obtain ⟨x, st1, ts1⟩ := p
                rw [hx] at h
                obtain ⟨rfl, hs, _⟩ := expr_res hfr' hx
                obtain ⟨y, ts2, g1, g2⟩ := ih (frag_suffix hfr' hs) _ _ h
                exact ⟨y, ts2, (PL_bin hc hfr hl hc1 hled).2 ⟨x, ts1, ⟨f, hx⟩, g1⟩, g2⟩
            | post name =>
              rw [hled] at h
              obtain ⟨y, ts2, g1, g2⟩ := ih hfr' _ _ h
              exact ⟨y, ts2, ((PL_noarg hl hc1).1 name hled).2 g1, g2⟩
            | field =>
              rw [hled] at h
              obtain ⟨y, ts2, g1, g2⟩ := ih hfr' _ _ h
              exact ⟨y, ts2, ((PL_noarg hl hc1).2.1 hled).2 g1, g2⟩
            | drop =>
              rw [hled] at h
              obtain ⟨y, ts2, g1, g2⟩ := ih hfr' _ _ h
              exact ⟨y, ts2, ((PL_noarg hl hc1).2.2 hled).2 g1, g2⟩
            | index =>
              rw [hled] at h
              simp only at h
              cases hs : normSelector T f t with
              | none => rw [hs] at h; cases h
              | some sel =>
                rw [hs] at h
                obtain ⟨y, ts2, g1, g2⟩ := ih hfr' _ _ h
                exact ⟨y, ts2, (PL_index hc hfr hl hc1 hled).2 ⟨sel, ⟨f, hs⟩, g1⟩, g2⟩
  · rintro ⟨y, ts1, ⟨f, h⟩, h2⟩
    induction f generalizing left ts with
    | zero => simp [loop] at h
    | succ f ih =>
      cases ts with
      | nil =>
        have hr := (PL_nil c left (y, ts1)).1 ⟨f + 1, h⟩
        simp only [Prod.mk.injEq] at hr
        obtain ⟨rfl, rfl⟩ := hr
        exact h2
      | cons t ts =>
        have hfr' := frag_tail hfr
        have h0 := h
        rw [loop.eq_3] at h
        cases hl : lbp T t with
        | none => rw [hl] at h; cases h
        | some l =>
          rw [hl] at h
          simp only at h
          by_cases hc1 : c ≥ l
          · have hr := (PL_stop (st := st) (left := left) (ts := ts) (r := (y, ts1)) hl hc1).1 ⟨f + 1, h0⟩
            simp only [Prod.mk.injEq] at hr
            obtain ⟨rfl, rfl⟩ := hr
            exact h2
          · have hlt : ¬ rbp ≥ l := by omega
            rw [if_neg hc1] at h
            cases hled : ledOf T t with
            | bin name r0 =>
              rw [hled] at h
              simp only at h
              cases hx : expr T f r0 st ts with
              | none => rw [hx] at h; cases h
              | some p =>
                obtain ⟨x, st1, ts2⟩ := p
                rw [hx] at h
                obtain ⟨rfl, hs, _⟩ := expr_res hfr' hx
                exact (PL_bin hc hfr hl hlt hled).2 ⟨x, ts2, ⟨f, hx⟩, ih (frag_suffix hfr' hs) _ h⟩
            | post name => rw [hled] at h; exact ((PL_noarg hl hlt).1 name hled).2 (ih hfr' _ h)
            | field => rw [hled] at h; exact ((PL_noarg hl hlt).2.1 hled).2 (ih hfr' _ h)
            | drop => rw [hled] at h; exact ((PL_noarg hl hlt).2.2 hled).2 (ih hfr' _ h)
            | index =>
              rw [hled] at h
              simp only at h
              cases hs : normSelector T f t with
              | none => rw [hs] at h; cases h
              | some sel =>
                rw [hs] at h
                exact (PL_index hc hfr hl hlt hled).2 ⟨sel, ⟨f, hs⟩, ih hfr' _ h⟩

end Eqns

end ZygoVerif.Pratt
