/-
Lemmas for the history theorems of C11 (Props/C11.lean): the store model
(Model/JsonHistory.lean `machine`) satisfies the history laws of Spec/JsonHistory.lean.
-/
import ZygoVerif.Model.JsonHistory
namespace ZygoVerif.Proofs.JsonHistory
open ZygoVerif.Print ZygoVerif.Rfc8259 ZygoVerif.Json ZygoVerif.JsonData ZygoVerif.JsonHistory

variable (c : Codecs) (fp : FloatParse)

/-- one operation only appends to the store -/
theorem op_extends (s : Store) (o : Op) : ∃ ext, (machine c fp).op s o = s ++ ext := by
  cases o with
  | enc f v => exact ⟨[encBytes c f v], rfl⟩
  | dec f h =>
    refine ⟨[], ?_⟩
    simp only [Machine.op, Machine.decodeNow, List.append_nil]
    cases (machine c fp).read s h <;> rfl

/-- any sequence of operations only appends to the store -/
theorem ops_extends (l : List Op) : ∀ s : Store, ∃ ext, (machine c fp).ops s l = s ++ ext := by
  induction l with
  | nil => intro s; exact ⟨[], by simp [Machine.ops]⟩
  | cons o r ih =>
    intro s
    obtain ⟨e1, h1⟩ := op_extends c fp s o
    obtain ⟨e2, h2⟩ := ih (s ++ e1)
    refine ⟨e1 ++ e2, ?_⟩
    simp only [Machine.ops, List.foldl_cons] at h2 ⊢
    rw [h1, h2, List.append_assoc]

/-- a cell that exists is read the same after any operations -/
theorem read_stable (s : Store) (l : List Op) (h : Nat) (hh : h < s.length) :
    (machine c fp).read ((machine c fp).ops s l) h = (machine c fp).read s h := by
  obtain ⟨ext, he⟩ := ops_extends c fp l s
  rw [he]
  simp only [machine, List.getElem?_append_left hh]

theorem read_new (s : Store) (f : Fmt) (v : V) :
    (machine c fp).read ((machine c fp).encode f v s).1 ((machine c fp).encode f v s).2 = encBytes c f v := by
  simp [machine]

theorem decode_pure (s : Store) (f : Fmt) (b : Bytes) :
    ((machine c fp).decode f b s).2 = decBytes c fp f b := rfl

/-! ### the two laws on the store model -/

theorem encode_results_stable : EncodeResultsStable (machine c fp) := by
  intro pre post f v
  apply read_stable
  simp [machine]

theorem history_roundtrip (dom : Fmt → V → Prop)
    (rt : ∀ f v, dom f v → (encBytes c f v).bind (decBytes c fp f) = some (norm v)) :
    HistoryRoundTrip (machine c fp) dom := by
  intro pre post f v hd
  unfold Machine.decodeNow
  rw [encode_results_stable c fp pre post f v, read_new]
  have h := rt f v hd
  cases he : encBytes c f v with
  | none => rw [he] at h; simp at h
  | some b => rw [he] at h; simpa [machine] using h

/-! ### the model's answers for a history are the spec's answers -/

/-- what the simulation needs of a value: it can be encoded in every format, and the json
and msgpack encodings decode to `norm v` (for `gojson` only stability is judged) -/
def Good (v : V) : Prop :=
  ∀ f, ∃ b, encBytes c f v = some b ∧ (f ≠ .gojson → decBytes c fp f b = some (norm v))

structure SlotRel (ma : Store) (mb : List V) (sa : Slot Bytes) (sb : Slot V) : Prop where
  fmt : sa.fmt = sb.fmt
  h : sa.h = sb.h
  dead : sa.dead = sb.dead
  val : ∃ v, Good c fp v ∧ mb[sb.h]? = some v ∧ sb.snap = some v ∧
        ma[sa.h]? = some (encBytes c sa.fmt v) ∧ sa.snap = encBytes c sa.fmt v

/-- `Good`, also after the original has been mutated by `mv` -/
def GoodC (v : V) : Prop := Good c fp v ∧ ∀ v', setFirstV v = some v' → Good c fp v'

theorem setFirstV_idem {v v' : V} (h : setFirstV v = some v') : setFirstV v' = some v' := by
  unfold setFirstV at h
  split at h
  · cases h; rfl
  · cases h; rfl
  · cases h

theorem goodC_setFirst {v v' : V} (hg : GoodC c fp v) (h : setFirstV v = some v') : GoodC c fp v' :=
  ⟨hg.2 v' h, fun v'' h2 => by rw [setFirstV_idem h] at h2; cases h2; exact hg.2 v' h⟩

structure Rel (a : St Store Bytes) (b : St (List V) V) : Prop where
  results : a.results = b.results
  vals : a.vals = b.vals
  good : ∀ l ∈ a.vals, ∀ v ∈ l, GoodC c fp v
  mlen : a.m.length = b.m.length
  len : a.slots.length = b.slots.length
  slot : ∀ (k : Nat) sa sb, a.slots[k]? = some sa → b.slots[k]? = some sb → SlotRel c fp a.m b.m sa sb

theorem slotRel_mono {ma : Store} {mb : List V} {sa : Slot Bytes} {sb : Slot V} (xa : Store) (xb : List V)
    (h : SlotRel c fp ma mb sa sb) : SlotRel c fp (ma ++ xa) (mb ++ xb) sa sb := by
  obtain ⟨hf, hh, hd, v, hg, hb, hs, ha, hsa⟩ := h
  refine ⟨hf, hh, hd, v, hg, ?_, hs, ?_, hsa⟩
  · have : sb.h < mb.length := (List.getElem?_eq_some_iff.mp hb).1
    rw [List.getElem?_append_left this]; exact hb
  · have : sa.h < ma.length := (List.getElem?_eq_some_iff.mp ha).1
    rw [List.getElem?_append_left this]; exact ha

theorem rel_init (vals : List V) (hg : ∀ v ∈ vals, GoodC c fp v) :
    Rel c fp (St.init (machine c fp) vals) (St.init valueMachine vals) :=
  ⟨rfl, rfl, by intro l hl v hv; simp [St.init] at hl; subst hl; exact hg v hv, rfl, rfl,
   by intro k sa sb h; simp [St.init] at h⟩

/-- a mutation of a result cell acts on the result lists only -/
theorem mutate_sim (a : St Store Bytes) (b : St (List V) V) (hr : Rel c fp a b) (r : Nat) (fn : V → Option V) :
    (mutate a r fn = none ∧ mutate b r fn = none) ∨
    ∃ a' b' o, mutate a r fn = some (a', o) ∧ mutate b r fn = some (b', o) ∧ Rel c fp a' b' := by
  unfold mutate
  rw [← hr.results]
  cases hres : a.results[r]? with
  | none => left; exact ⟨rfl, rfl⟩
  | some cell =>
    right
    cases cell with
    | none => exact ⟨a, b, .na, rfl, rfl, hr⟩
    | some v =>
      cases hfn : fn v with
      | none => exact ⟨a, b, .na, by simp [hfn], by simp [hfn], hr⟩
      | some v' =>
        refine ⟨{ a with results := a.results.set r (some v') }, { b with results := a.results.set r (some v') }, .ok,
          by simp only [hfn], by simp only [hfn], ⟨rfl, hr.vals, hr.good, hr.mlen, hr.len, ?_⟩⟩
        intro k sa sb h1 h2
        exact hr.slot k sa sb h1 h2

/-- the result of a step pair: both malformed, or both answer the same and stay related -/
def Sim (ra : Option (St Store Bytes × Out)) (rb : Option (St (List V) V × Out)) : Prop :=
  (ra = none ∧ rb = none) ∨ ∃ a' b' o, ra = some (a', o) ∧ rb = some (b', o) ∧ Rel c fp a' b'

theorem slot_pair (a : St Store Bytes) (b : St (List V) V) (hr : Rel c fp a b) (s : Nat) :
    (a.slots[s]? = none ∧ b.slots[s]? = none) ∨
    ∃ sa sb, a.slots[s]? = some sa ∧ b.slots[s]? = some sb ∧ SlotRel c fp a.m b.m sa sb := by
  by_cases hs : s < a.slots.length
  · right
    have hs' : s < b.slots.length := hr.len ▸ hs
    exact ⟨a.slots[s], b.slots[s], List.getElem?_eq_getElem hs, List.getElem?_eq_getElem hs',
      hr.slot s _ _ (List.getElem?_eq_getElem hs) (List.getElem?_eq_getElem hs')⟩
  · left
    have hs' : ¬ s < b.slots.length := hr.len ▸ hs
    exact ⟨List.getElem?_eq_none (Nat.le_of_not_lt hs), List.getElem?_eq_none (Nat.le_of_not_lt hs')⟩

theorem enc_sim (a : St Store Bytes) (b : St (List V) V)
    (hr : Rel c fp a b) (f : Fmt) (ip i : Nat) :
    Sim c fp (step (machine c fp) a (.enc f ip i)) (step valueMachine b (.enc f ip i)) := by
  cases hv : (a.vals[ip]?).bind (·[i]?) with
  | none => left; simp [step, ← hr.vals, hv]
  | some v =>
    right
    have hgv : Good c fp v := by
      cases hl : a.vals[ip]? with
      | none => simp [hl] at hv
      | some l =>
        simp only [hl, Option.bind_some] at hv
        exact (hr.good l (List.mem_of_getElem? hl) v (List.mem_of_getElem? hv)).1
    obtain ⟨bts, hb, _⟩ := hgv f
    refine ⟨{ a with m := a.m ++ [encBytes c f v], slots := a.slots ++ [⟨f, a.m.length, encBytes c f v, false⟩] },
            { b with m := b.m ++ [v], slots := b.slots ++ [⟨f, b.m.length, some v, false⟩] }, .ok, ?_, ?_, ?_⟩
    · simp [step, hv, machine, hb]
    · simp [step, ← hr.vals, hv, valueMachine]
    · refine ⟨hr.results, hr.vals, hr.good, by simp [hr.mlen], by simp [hr.len], ?_⟩
      intro k sa sb h1 h2
      by_cases hk : k < a.slots.length
      · have hk' : k < b.slots.length := hr.len ▸ hk
        simp only [List.getElem?_append_left hk] at h1
        simp only [List.getElem?_append_left hk'] at h2
        exact slotRel_mono c fp _ _ (hr.slot k sa sb h1 h2)
      · have hk1 : k = a.slots.length := by
          have := (List.getElem?_eq_some_iff.mp h1).1
          simp at this; omega
        have hk2 : k = b.slots.length := hr.len ▸ hk1
        have e1 : sa = ⟨f, a.m.length, encBytes c f v, false⟩ := by
          rw [hk1] at h1; simpa using h1.symm
        have e2 : sb = ⟨f, b.m.length, some v, false⟩ := by
          rw [hk2] at h2; simpa using h2.symm
        subst e1; subst e2
        exact ⟨rfl, hr.mlen, rfl, v, hgv, by simp, rfl, by simp, rfl⟩

/-- appending a result cell on both sides keeps the relation -/
theorem rel_push (a : St Store Bytes) (b : St (List V) V) (hr : Rel c fp a b) (r : Option V) :
    Rel c fp { a with results := a.results ++ [r] } { b with results := b.results ++ [r] } :=
  ⟨by simp [hr.results], hr.vals, hr.good, hr.mlen, hr.len, hr.slot⟩

theorem dec_sim (a : St Store Bytes) (b : St (List V) V)
    (hr : Rel c fp a b) (ip s : Nat) :
    Sim c fp (step (machine c fp) a (.dec ip s)) (step valueMachine b (.dec ip s)) := by
  by_cases hip : ip > 1
  · left; simp [step, hip]
  · rcases slot_pair c fp a b hr s with ⟨h1, h2⟩ | ⟨sa, sb, h1, h2, hf, hh, hd, v, hg, hbv, hsb, hav, hsa⟩
    · left; simp [step, hip, h1, h2]
    · right
      obtain ⟨bts, hb, hdec⟩ := hg sa.fmt
      by_cases hdead : sa.dead = true
      · have hdead' : sb.dead = true := hd ▸ hdead
        exact ⟨_, _, .dead, by simp [step, hip, h1, hdead], by simp [step, hip, h2, hdead'], rel_push c fp a b hr none⟩
      · have hdead' : ¬ sb.dead = true := hd ▸ hdead
        have hra : a.m[sa.h]?.bind id = some bts := by simp [hav, hb]
        by_cases hgj : sa.fmt = .gojson
        · have hgj' : sb.fmt = .gojson := hf ▸ hgj
          have hb' : encBytes c .gojson v = some bts := hgj ▸ hb
          refine ⟨_, _, .sameAsFirst, ?_, ?_, rel_push c fp a b hr none⟩
          · simp [step, hip, h1, hdead, hsa, hb', hgj, hra, machine]
          · simp [step, hip, h2, hdead', hsb, hgj', hbv, valueMachine]
        · have hgj' : ¬ sb.fmt = .gojson := hf ▸ hgj
          have hd1 : (machine c fp).decodeNow a.m sa.fmt sa.h = (a.m, some (norm v)) := by
            simp [Machine.decodeNow, hra, machine, hdec hgj]
          have hd2 : valueMachine.decodeNow b.m sb.fmt sb.h = (b.m, some (norm v)) := by
            simp [Machine.decodeNow, hbv, valueMachine]
          refine ⟨{ a with results := a.results ++ [some (norm v)] }, { b with results := b.results ++ [some (norm v)] },
            .val (norm v), ?_, ?_, rel_push c fp a b hr _⟩
          · simp [step, hip, h1, hdead, hsa, hb, hgj, hd1]
          · simp [step, hip, h2, hdead', hsb, hgj', hd2]

theorem stable_sim (a : St Store Bytes) (b : St (List V) V)
    (hr : Rel c fp a b) (s : Nat) :
    Sim c fp (step (machine c fp) a (.stable s)) (step valueMachine b (.stable s)) := by
  rcases slot_pair c fp a b hr s with ⟨h1, h2⟩ | ⟨sa, sb, h1, h2, hf, hh, hd, v, hg, hbv, hsb, hav, hsa⟩
  · left; simp [step, h1, h2]
  · right
    obtain ⟨bts, hb, _⟩ := hg sa.fmt
    by_cases hdead : sa.dead = true
    · have hdead' : sb.dead = true := hd ▸ hdead
      exact ⟨a, b, .dead, by simp [step, h1, hdead], by simp [step, h2, hdead'], hr⟩
    · have hdead' : ¬ sb.dead = true := hd ▸ hdead
      have hra : a.m[sa.h]?.bind id = some bts := by simp [hav, hb]
      refine ⟨a, b, .same, ?_, ?_, hr⟩
      · simp [step, h1, hdead, hsa, hb, hra, machine]
      · simp [step, h2, hdead', hsb, hbv, valueMachine]

theorem clobber_sim (a : St Store Bytes) (b : St (List V) V)
    (hr : Rel c fp a b) (s : Nat) :
    Sim c fp (step (machine c fp) a (.clobber s)) (step valueMachine b (.clobber s)) := by
  rcases slot_pair c fp a b hr s with ⟨h1, h2⟩ | ⟨sa, sb, h1, h2, hsr⟩
  · left; simp [step, h1, h2]
  · right
    refine ⟨{ a with slots := a.slots.set s { sa with dead := true } }, { b with slots := b.slots.set s { sb with dead := true } },
      .ok, by simp [step, h1], by simp [step, h2], ⟨hr.results, hr.vals, hr.good, hr.mlen, by simp [hr.len], ?_⟩⟩
    intro k ka kb hk1 hk2
    by_cases hks : s = k
    · subst hks
      have l1 : s < a.slots.length := (List.getElem?_eq_some_iff.mp h1).1
      have l2 : s < b.slots.length := (List.getElem?_eq_some_iff.mp h2).1
      simp only [List.getElem?_set_self l1, Option.some.injEq] at hk1
      simp only [List.getElem?_set_self l2, Option.some.injEq] at hk2
      subst hk1; subst hk2
      obtain ⟨hf, hh, _, hv⟩ := hsr
      exact ⟨hf, hh, rfl, hv⟩
    · simp only [List.getElem?_set_ne hks] at hk1 hk2
      exact hr.slot k ka kb hk1 hk2

theorem show_sim (a : St Store Bytes) (b : St (List V) V)
    (hr : Rel c fp a b) (r : Nat) :
    Sim c fp (step (machine c fp) a (.show r)) (step valueMachine b (.show r)) := by
  simp only [step, ← hr.results]
  cases hres : a.results[r]? with
  | none => left; exact ⟨rfl, rfl⟩
  | some cell =>
    right
    cases cell with
    | none => exact ⟨a, b, .na, rfl, rfl, hr⟩
    | some v => exact ⟨a, b, .val v, rfl, rfl, hr⟩

theorem setVal_sim (a : St Store Bytes) (b : St (List V) V) (hr : Rel c fp a b) (ip i : Nat) :
    Sim c fp (step (machine c fp) a (.setVal ip i)) (step valueMachine b (.setVal ip i)) := by
  simp only [step, ← hr.vals]
  cases hl : a.vals[ip]? with
  | none => left; exact ⟨rfl, rfl⟩
  | some l =>
    cases hv : l[i]? with
    | none => left; exact ⟨by simp [hv], by simp [hv]⟩
    | some v =>
      right
      cases hs : setFirstV v with
      | none => exact ⟨a, b, .na, by simp [hv, hs], by simp [hv, hs], hr⟩
      | some v' =>
        refine ⟨{ a with vals := a.vals.set ip (l.set i v') }, { b with vals := a.vals.set ip (l.set i v') }, .ok,
          by simp [hv, hs], by simp [hv, hs], ⟨hr.results, rfl, ?_, hr.mlen, hr.len, hr.slot⟩⟩
        intro l2 hl2 w hw
        rcases List.mem_or_eq_of_mem_set hl2 with hin | rfl
        · exact hr.good l2 hin w hw
        · rcases List.mem_or_eq_of_mem_set hw with hin | rfl
          · exact hr.good l (List.mem_of_getElem? hl) w hin
          · exact goodC_setFirst c fp (hr.good l (List.mem_of_getElem? hl) v (List.mem_of_getElem? hv)) hs

/-- one step of any history: the store model and the reference machine answer the same -/
theorem step_sim (a : St Store Bytes) (b : St (List V) V)
    (hr : Rel c fp a b) (s : Step) :
    Sim c fp (step (machine c fp) a s) (step valueMachine b s) := by
  cases s with
  | enc f ip i => exact enc_sim c fp a b hr f ip i
  | dec ip s => exact dec_sim c fp a b hr ip s
  | stable s => exact stable_sim c fp a b hr s
  | clobber s => exact clobber_sim c fp a b hr s
  | setFirst r => exact mutate_sim c fp a b hr r setFirstV
  | setInner r => exact mutate_sim c fp a b hr r setInnerV
  | addKey r => exact mutate_sim c fp a b hr r (addKeyV r)
  | «show» r => exact show_sim c fp a b hr r
  | setVal ip i => exact setVal_sim c fp a b hr ip i

theorem runFrom_sim (steps : List Step) :
    ∀ (a : St Store Bytes) (b : St (List V) V), Rel c fp a b →
      runFrom (machine c fp) a steps = runFrom valueMachine b steps := by
  induction steps with
  | nil => intro a b _; rfl
  | cons s r ih =>
    intro a b hr
    rcases step_sim c fp a b hr s with ⟨h1, h2⟩ | ⟨a', b', o, h1, h2, hr'⟩
    · simp [runFrom, h1, h2]
    · simp [runFrom, h1, h2, ih a' b' hr']

end ZygoVerif.Proofs.JsonHistory
