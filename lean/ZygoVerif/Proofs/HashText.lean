/-
Lemmas for C14, part 5: the printed form and the JSON encoding, as ropes.
-/
import ZygoVerif.Proofs.HashRefine
namespace ZygoVerif.Hash
variable {K V : Type} {o : KeyOps K}

theorem dropLast_sep {α : Type} (f : α → String) (sep x : String) (l : List α) (hl : l ≠ []) :
    (x :: l.flatMap (fun e => [f e, sep])).dropLast = x :: (l.map f).intersperse sep := by
  induction l generalizing x with
  | nil => exact absurd rfl hl
  | cons a r ih =>
    cases r with
    | nil => simp
    | cons b r' =>
      have := ih sep (by simp)
      simp only [List.flatMap_cons, List.cons_append, List.nil_append, List.map_cons] at this ⊢
      rw [List.dropLast_cons_of_ne_nil (by simp), List.dropLast_cons_of_ne_nil (by simp), this]
      simp [List.intersperse]

theorem sep_shift {α : Type} (f : α → String) (sep x : String) (l : List α) :
    x :: sep :: l.flatMap (fun e => [f e, sep]) = (x :: l.flatMap (fun e => [sep, f e])) ++ [sep] := by
  induction l generalizing x with
  | nil => rfl
  | cons a r ih =>
    simp only [List.flatMap_cons, List.cons_append, List.nil_append]
    rw [ih (f a)]
    simp

theorem flatMap_entries (ko : List K) (g : K → Option V) (f : K × V → List String) :
    ko.flatMap (fun k => match g k with | some v => f (k, v) | none => []) =
      (ko.filterMap (entry g)).flatMap f := by
  induction ko with
  | nil => rfl
  | cons a r ih =>
    have hga : g a = none ∨ ∃ x, g a = some x := by cases g a <;> simp
    rcases hga with hg | ⟨x, hg⟩
    · simp only [List.flatMap_cons, List.filterMap_cons, entry, hg, Option.map_none, List.nil_append]
      exact ih
    · simp only [List.flatMap_cons, List.filterMap_cons, entry, hg, Option.map_some]
      rw [ih]

theorem map_nonempty_iff (L : KeyLaws o) (h : Hash K V) (I : Inv o h) :
    h.map.length > 0 ↔ abs o h ≠ [] := by
  constructor
  · intro hp
    obtain ⟨c, b, hm⟩ := exists_mget_of_length_pos _ hp
    have hne := I.bucketNe c b hm
    obtain ⟨e, he⟩ := List.exists_mem_of_ne_nil _ hne
    have hc := I.bucketCode c b hm e he
    have hs : (get? o h e.1).isSome = true := by
      simp only [get?, hc, hm]
      cases hb : bfind o b e.1 with
      | some x => rfl
      | none => have := (bfind_none_iff b e.1).1 hb e he; rw [L.refl] at this; cases this
    obtain ⟨k0, h0, _⟩ := I.rep e.1 hs
    intro habs
    have := abs_length h I
    rw [habs] at this
    cases hk : h.keyOrder with
    | nil => rw [hk] at h0; cases h0
    | cons a r => rw [hk] at this; simp at this
  · intro hne
    have hl := abs_length h I
    cases hk : h.keyOrder with
    | nil => rw [hk] at hl; simp at hl; exact absurd hl hne
    | cons a r =>
      have := I.koLive a (by rw [hk]; exact List.mem_cons_self)
      simp only [get?] at this
      cases hm : mget h.map (o.code a) with
      | none => rw [hm] at this; cases this
      | some b => exact mget_some_length_pos _ _ _ hm

theorem strRope_inv (L : KeyLaws o) (sh : Show K V) (h : Hash K V) (I : Inv o h) :
    strRope o sh h = Spec.strRope sh (abs o h) := by
  have hb : h.keyOrder.flatMap (fun k => match get? o h k with
          | some v => [sh.inHash k ++ ":" ++ sh.val v, " "] | none => []) =
      (abs o h).flatMap (fun e => [sh.inHash e.1 ++ ":" ++ sh.val e.2, " "]) :=
    flatMap_entries h.keyOrder (get? o h) (fun e => [sh.inHash e.1 ++ ":" ++ sh.val e.2, " "])
  have hdef : strRope o sh h =
      if h.map.length > 0 then
        ("{" :: h.keyOrder.flatMap (fun k => match get? o h k with
          | some v => [sh.inHash k ++ ":" ++ sh.val v, " "] | none => [])).dropLast ++ ["}"]
      else ("{" :: h.keyOrder.flatMap (fun k => match get? o h k with
          | some v => [sh.inHash k ++ ":" ++ sh.val v, " "] | none => [])) ++ ["}"] := rfl
  rw [hdef, hb]
  unfold Spec.strRope
  by_cases hne : abs o h = []
  · have : ¬ h.map.length > 0 := fun hp => (map_nonempty_iff L h I).1 hp hne
    simp only [this, if_false]
    rw [hne]; rfl
  · have : h.map.length > 0 := (map_nonempty_iff L h I).2 hne
    simp only [this, if_true]
    rw [dropLast_sep (fun e : K × V => sh.inHash e.1 ++ ":" ++ sh.val e.2) " " "{" _ hne]
    rfl

theorem jsonFields_live (sh : Show K V) (h : Hash K V) (ko : List K)
    (hl : ∀ k ∈ ko, (get? o h k).isSome = true) :
    jsonFields o sh h ko = some ((ko.filterMap (entry (get? o h))).flatMap
      (fun e => [sh.jsonKey e.1 ++ ":" ++ sh.val e.2, ", "])) := by
  induction ko with
  | nil => rfl
  | cons a r ih =>
    obtain ⟨x, hx⟩ := Option.isSome_iff_exists.1 (hl a List.mem_cons_self)
    simp only [jsonFields, hx, ih (fun k hk => hl k (List.mem_cons_of_mem _ hk)), Option.map_some,
      List.filterMap_cons, entry, List.flatMap_cons]

theorem jsonRope_inv (sh : Show K V) (h : Hash K V) (I : Inv o h) :
    jsonRope o sh h = some (Spec.jsonRope sh (abs o h)) := by
  unfold jsonRope Spec.jsonRope
  have hlen := abs_length h I
  by_cases hne : abs o h = []
  · have h0 : h.keyOrder.length = 0 := by rw [← hlen, hne]; rfl
    simp [h0, hne]
  · have h0 : ¬ h.keyOrder.length = 0 := by
      rw [← hlen]; intro h'; exact hne (List.length_eq_zero_iff.1 h')
    have hemp : (abs o h).isEmpty = false := by
      cases habs : abs o h with
      | nil => exact absurd habs hne
      | cons a r => rfl
    have hjf : jsonFields o sh h h.keyOrder = some ((abs o h).flatMap
        (fun e => [sh.jsonKey e.1 ++ ":" ++ sh.val e.2, ", "])) :=
      jsonFields_live sh h h.keyOrder I.koLive
    simp only [h0, if_false, hjf, hemp, Bool.false_eq_true]
    show some _ = _
    congr 1
    have hko : h.keyOrder.flatMap (fun k => [sh.jsonKey k, ", "]) =
        (abs o h).flatMap (fun e => [sh.jsonKey e.1, ", "]) := by
      conv => lhs; rw [← abs_keys h I]
      rw [List.flatMap_map]
    rw [hko]
    have e1 := sep_shift (fun e : K × V => sh.jsonKey e.1 ++ ":" ++ sh.val e.2) ", "
      "{\"Atype\":\"hash\"" (abs o h)
    have e2 := dropLast_sep (fun e : K × V => sh.jsonKey e.1) ", " "\"zKeyOrder\":[" (abs o h) hne
    simp only [List.cons_append, List.nil_append] at e1 ⊢
    generalize hA : (abs o h).flatMap (fun e => [sh.jsonKey e.1 ++ ":" ++ sh.val e.2, ", "]) = A at e1 ⊢
    generalize hB : (abs o h).flatMap (fun e => [sh.jsonKey e.1, ", "]) = B at e2 ⊢
    have step : "{\"Atype\":\"hash\"" :: ", " :: (A ++ ["\"zKeyOrder\":["] ++ B) =
        ("{\"Atype\":\"hash\"" :: ", " :: A) ++ ("\"zKeyOrder\":[" :: B) := by simp
    rw [step, e1, List.dropLast_append_of_ne_nil (by simp), e2]
    simp

end ZygoVerif.Hash
