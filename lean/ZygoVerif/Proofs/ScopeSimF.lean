/-
The bridge between C03's simulation statement (`Scope.Sim`, `Proofs/ScopeSim.lean`) and the
relation of the C02 simulation proofs (`Sim.RelF`, `Proofs/SimF2Env.lean`).

`RelF m s rs env` implies `SimX id (trf m) s rs env`, where `SimX` is `Scope.Sim` with the
variables of corresponding scope and frame compared by LOOKUP instead of as lists (the two
evaluators bind parameters and `let` names in opposite orders, `RelF` is extensional there).
`SimX` is all `lookup_sound` needs (`lookup_sound_x`). The work is the `chain` field: the
reference static chain of `env` is the VM's search list (live scopes down to the function
scope, then the captured stacks along the parent chain of closures) with repetitions removed
— by induction over `ChainF` (one segment) and `FnChainF` (the walk).
Used by `Props/C03Sim.lean`.
-/
import ZygoVerif.Proofs.ScopeSim
import ZygoVerif.Proofs.SimF2Env
namespace ZygoVerif.Scope
open ZygoVerif.Core ZygoVerif.VM ZygoVerif.Sim

/-! ## `dedupFirst` -/

theorem mem_dedupFirst {x : Nat} : ∀ {l : List Nat}, x ∈ dedupFirst l ↔ x ∈ l
  | [] => Iff.rfl
  | a :: l => by
    have ih := @mem_dedupFirst x l
    by_cases hx : x = a
    · simp [dedupFirst, hx]
    · simp [dedupFirst, List.mem_filter, ih, hx]

theorem dedupFirst_append (a b : List Nat) :
    dedupFirst (a ++ b) = dedupFirst a ++ (dedupFirst b).filter (fun x => !a.contains x) := by
  induction a with
  | nil =>
    simp only [List.nil_append, dedupFirst, List.contains_nil, Bool.not_false]
    exact (List.filter_eq_self.mpr (fun _ _ => rfl)).symm
  | cons x a ih =>
    simp only [List.cons_append, dedupFirst, ih, List.filter_append, List.filter_filter, List.cons.injEq, true_and,
      List.append_cancel_left_eq]
    apply List.filter_congr
    intro y _
    by_cases hy : y = x <;> simp [bne, hy]

/-- ids that were searched before add nothing -/
theorem dedupFirst_skip (a b c : List Nat) (h : ∀ x ∈ b, x ∈ a) :
    dedupFirst (a ++ (b ++ c)) = dedupFirst (a ++ c) := by
  rw [dedupFirst_append, dedupFirst_append b c, dedupFirst_append a c, List.filter_append, List.filter_filter]
  have h1 : (dedupFirst b).filter (fun x => !a.contains x) = [] := by
    rw [List.filter_eq_nil_iff]
    intro y hy
    have := h y (mem_dedupFirst.mp hy)
    simp [this]
  rw [h1, List.nil_append]
  congr 1
  apply List.filter_congr
  intro y _
  by_cases hy : y ∈ a
  · simp [hy]
  · have : y ∉ b := fun hb => hy (h y hb)
    simp [hy, this]

theorem dedupFirst_nodup : ∀ {l : List Nat}, l.Nodup → dedupFirst l = l
  | [], _ => rfl
  | a :: l, h => by
    have hn := List.nodup_cons.mp h
    rw [dedupFirst, dedupFirst_nodup hn.2, List.filter_eq_self.mpr]
    intro y hy
    have : y ≠ a := fun e => hn.1 (e ▸ hy)
    simpa using this

/-! ## The reference static chain -/

theorem refChain_fuel {frames : List Ref.Frame} (hp : ParOk frames) : ∀ (env fuel : Nat), env + 1 ≤ fuel →
    refChain frames fuel env = refChain frames (env + 1) env := by
  intro env
  induction env using Nat.strongRecOn with
  | _ env ih =>
    intro fuel hf
    obtain ⟨f, rfl⟩ : ∃ f, fuel = f + 1 := ⟨fuel - 1, by omega⟩
    simp only [refChain]
    cases hfr : frames[env]? with
    | none => rfl
    | some fr =>
      simp only
      cases hpar : fr.parent with
      | none => rfl
      | some p =>
        have hlt := hp env fr hfr p hpar
        simp only
        rw [ih p hlt f (by omega), ih p hlt env (by omega)]

/-- the static chain from `env`: `env`, then the static chain from its parent -/
theorem refChain_unfold {frames : List Ref.Frame} (hp : ParOk frames) {env : Nat} {fr : Ref.Frame}
    (hf : frames[env]? = some fr) :
    refChain frames (env + 1) env
      = env :: (match fr.parent with | some p => refChain frames (p + 1) p | none => []) := by
  cases hpar : fr.parent with
  | none => simp [refChain, hf, hpar]
  | some p =>
    have h1 : refChain frames (env + 1) env = env :: refChain frames env p := by simp [refChain, hf, hpar]
    rw [h1, refChain_fuel hp p env (hp env fr hf p hpar)]

theorem refChain_le {frames : List Ref.Frame} (hp : ParOk frames) : ∀ (env x : Nat),
    x ∈ refChain frames (env + 1) env → x ≤ env := by
  intro env
  induction env using Nat.strongRecOn with
  | _ env ih =>
    intro x hx
    cases hfr : frames[env]? with
    | none => simp [refChain, hfr] at hx
    | some fr =>
      rw [refChain_unfold hp hfr] at hx
      rcases List.mem_cons.mp hx with rfl | hx
      · exact Nat.le_refl _
      · cases hpar : fr.parent with
        | none => rw [hpar] at hx; cases hx
        | some p =>
          rw [hpar] at hx
          have hlt := hp env fr hfr p hpar
          exact Nat.le_of_lt (Nat.lt_of_le_of_lt (ih p hlt x hx) hlt)

theorem refChain_nodup {frames : List Ref.Frame} (hp : ParOk frames) : ∀ (env : Nat),
    (refChain frames (env + 1) env).Nodup := by
  intro env
  induction env using Nat.strongRecOn with
  | _ env ih =>
    cases hfr : frames[env]? with
    | none => simp [refChain, hfr]
    | some fr =>
      rw [refChain_unfold hp hfr]
      cases hpar : fr.parent with
      | none => simp
      | some p =>
        have hlt := hp env fr hfr p hpar
        refine List.nodup_cons.mpr ⟨fun hm => ?_, ih p hlt⟩
        have := refChain_le hp p env hm
        omega

/-- where the static chain goes on after a segment -/
def chainRest (frames : List Ref.Frame) : Option Nat → List Nat
  | none => []
  | some p => refChain frames (p + 1) p

/-- **One segment.** A stack chained from `env` (`ChainF`): the static chain of `env` is what a
lookup reads of that stack (down to and including the first function scope), followed by the
static chain of the frame the segment ends at. -/
theorem chainF_refChain {s : St} {frames : List Ref.Frame} (hp : ParOk frames) :
    ∀ {k env lin}, ChainF (isFnScope s) frames k env lin →
      refChain frames (env + 1) env = aboveBoundary s lin ++ chainRest frames k := by
  intro k env lin hc
  induction hc with
  | root fr hf hpar hfl =>
    rw [refChain_unfold hp hf, hpar]
    simp [aboveBoundary, hfl, chainRest]
  | cons k env p fr rest hf hpar hlt hfl _ ih =>
    rw [refChain_unfold hp hf, hpar]
    simp only [aboveBoundary, hfl, Bool.false_eq_true, if_false, List.cons_append, ih]
  | fn env p fr below hf hpar hlt hfl =>
    rw [refChain_unfold hp hf, hpar]
    simp [aboveBoundary, hfl, chainRest]

/-- a suffix of a segment holds no scope the segment does not hold -/
theorem aboveBoundary_of_suffix (s : St) : ∀ (t l c : List (Option Nat)),
    takeToBoundary (isFnScope s) l = t ++ c → ∀ x ∈ aboveBoundary s c, x ∈ aboveBoundary s l
  | [], l, c, h, x, hx => by
    simp only [List.nil_append] at h
    rw [← h, aboveBoundary_takeToBoundary] at hx; exact hx
  | a :: t, [], c, h, _, _ => by simp [takeToBoundary] at h
  | a :: t, y :: rest, c, h, x, hx => by
    simp only [takeToBoundary] at h
    by_cases hy : isFnElem (isFnScope s) y = true
    · rw [if_pos hy] at h
      have : t ++ c = [] := by
        have := congrArg List.tail h
        simpa using this.symm
      have hc : c = [] := (List.append_eq_nil_iff.mp this).2
      subst hc; cases hx
    · rw [if_neg hy] at h
      have hrest : takeToBoundary (isFnScope s) rest = t ++ c := (List.cons.inj h).2
      have ih := aboveBoundary_of_suffix s t rest c hrest x hx
      cases y with
      | none => simpa only [aboveBoundary] using ih
      | some id =>
        have hf' : isFnScope s id = false := by simpa [isFnElem] using hy
        simp only [aboveBoundary, hf', Bool.false_eq_true, if_false]
        exact List.mem_cons_of_mem _ ih

/-- **The walk.** Along the parent chain of function `f` (`FnChainF`), after a prefix `A` of the
search list that holds the segment just searched: the ids the walk adds are, repetitions removed,
the rest of the static chain. -/
theorem fnChainF_dedup {s : St} {frames : List Ref.Frame} (hp : ParOk frames) :
    ∀ {seg k f}, FnChainF s frames seg k f → ∀ (A : List Nat), (∀ x ∈ aboveBoundary s seg, x ∈ A) →
      ∀ fuel, f + 1 ≤ fuel →
      dedupFirst (A ++ chainIds s fuel f) = dedupFirst (A ++ chainRest frames k) := by
  intro seg k f hc
  induction hc with
  | root seg f hlt hpar hs =>
    intro A _ fuel hfu
    obtain ⟨j, rfl⟩ : ∃ j, fuel = j + 1 := ⟨fuel - 1, by omega⟩
    simp only [chainIds, hpar, chainRest]
  | step seg k f p hlt hpar hpf hs _ ih =>
    intro A hA fuel hfu
    obtain ⟨j, rfl⟩ : ∃ j, fuel = j + 1 := ⟨fuel - 1, by omega⟩
    obtain ⟨t, ht⟩ := hs
    simp only [chainIds, hpar]
    rw [dedupFirst_skip A _ _ (fun x hx => hA x (aboveBoundary_of_suffix s t seg _ ht x hx))]
    exact ih A hA j (by omega)
  | sfx seg k f p hlt hpar hpf _ hs _ ih =>
    intro A hA fuel hfu
    obtain ⟨j, rfl⟩ : ∃ j, fuel = j + 1 := ⟨fuel - 1, by omega⟩
    obtain ⟨t, ht⟩ := hs
    simp only [chainIds, hpar]
    rw [dedupFirst_skip A _ _ (fun x hx => hA x (aboveBoundary_of_suffix s t seg _ ht x
      (by rw [aboveBoundary_takeToBoundary]; exact hx)))]
    exact ih A hA j (by omega)
  | clos seg e f p k' hlt hpar hpf hch _ ih =>
    intro A _ fuel hfu
    obtain ⟨j, rfl⟩ : ∃ j, fuel = j + 1 := ⟨fuel - 1, by omega⟩
    simp only [chainIds, hpar, chainRest]
    rw [chainF_refChain hp hch, ← List.append_assoc, ← List.append_assoc]
    exact ih (A ++ aboveBoundary s (fnOf s f).closing) (fun x hx => List.mem_append.mpr (Or.inr hx)) j (by omega)

/-- the global scope is on the search list: in the live segment … -/
theorem chainF_zero_mem {s : St} {frames : List Ref.Frame} :
    ∀ {k env lin}, ChainF (isFnScope s) frames k env lin → k = none → 0 ∈ aboveBoundary s lin := by
  intro k env lin hc
  induction hc with
  | root fr hf hpar hfl => intro _; simp [aboveBoundary, hfl]
  | cons k env p fr rest hf hpar hlt hfl _ ih =>
    intro hk
    simp only [aboveBoundary, hfl, Bool.false_eq_true, if_false]
    exact List.mem_cons_of_mem _ (ih hk)
  | fn env p fr below hf hpar hlt hfl => intro hk; cases hk

/-- … or in a captured stack of the walk -/
theorem fnChainF_zero_mem {s : St} {frames : List Ref.Frame} :
    ∀ {seg k f}, FnChainF s frames seg k f → k ≠ none → ∀ fuel, f + 1 ≤ fuel → 0 ∈ chainIds s fuel f := by
  intro seg k f hc
  induction hc with
  | root seg f hlt hpar hs => intro hk; exact (hk rfl).elim
  | step seg k f p hlt hpar hpf hs _ ih =>
    intro hk fuel hfu
    obtain ⟨j, rfl⟩ : ∃ j, fuel = j + 1 := ⟨fuel - 1, by omega⟩
    simp only [chainIds, hpar]
    exact List.mem_append.mpr (Or.inr (ih hk j (by omega)))
  | sfx seg k f p hlt hpar hpf _ hs _ ih =>
    intro hk fuel hfu
    obtain ⟨j, rfl⟩ : ∃ j, fuel = j + 1 := ⟨fuel - 1, by omega⟩
    simp only [chainIds, hpar]
    exact List.mem_append.mpr (Or.inr (ih hk j (by omega)))
  | clos seg e f p k' hlt hpar hpf hch _ ih =>
    intro _ fuel hfu
    obtain ⟨j, rfl⟩ : ∃ j, fuel = j + 1 := ⟨fuel - 1, by omega⟩
    simp only [chainIds, hpar]
    cases k' with
    | none => exact List.mem_append.mpr (Or.inl (chainF_zero_mem hch rfl))
    | some q => exact List.mem_append.mpr (Or.inr (ih (by simp) j (by omega)))

/-- what stage 3 adds under `FScopes`: the global scope, at most -/
theorem templateCaptured_zero {s : St} (hfs : FScopes s) : ∀ (l : List (Option Nat)) (id : Nat),
    id ∈ templateCaptured s l → id = 0
  | [], _, h => by cases h
  | none :: rest, id, h => templateCaptured_zero hfs rest id (by simpa only [templateCaptured] using h)
  | some j :: rest, id, h => by
    simp only [templateCaptured] at h
    by_cases hj : isFnScope s j = true
    · rw [if_pos hj] at h
      obtain ⟨t, hmy, hclo⟩ := hfs j hj
      rw [hmy] at h
      simp only [hclo, idsOf, List.mem_singleton] at h
      exact h
    · rw [if_neg hj] at h
      exact templateCaptured_zero hfs rest id h

/-! ## `Sim` up to the order of bindings -/

/-- `Scope.Sim` with the variables of corresponding scope and frame compared by lookup. -/
structure SimX (ρ : Nat → Nat) (φ : Val → Val) (s : St) (rs : Ref.St) (env : Nat) : Prop where
  chain : refChain rs.frames (rs.frames.length + 1) env = dedupFirst ((lexCore s).map ρ)
  vars : ∀ id ∈ lexCore s, ∀ x, (rs.frames.getD (ρ id) {}).vars.lookup x = ((scopeOf s id).vars.lookup x).map φ
  template : ∀ id ∈ templateCaptured s s.linear, id ∈ lexCore s

/-- `Sim` is the special case where the bindings also come in the same order. -/
theorem Sim.toX {ρ : Nat → Nat} {φ : Val → Val} {s : St} {rs : Ref.St} {env : Nat} (h : Sim ρ φ s rs env) :
    SimX ρ φ s rs env :=
  ⟨h.chain, fun id hid x => by rw [h.vars id hid, lookup_map_val], h.template⟩

theorem refFirst_map_x (ρ : Nat → Nat) (φ : Val → Val) (s : St) (frames : List Ref.Frame) (x : String) (l : List Nat)
    (hv : ∀ id ∈ l, (frames.getD (ρ id) {}).vars.lookup x = ((scopeOf s id).vars.lookup x).map φ) :
    refFirst frames x (l.map ρ) = (firstBinding s x l).map (fun p => (ρ p.1, φ p.2)) := by
  induction l with
  | nil => rfl
  | cons id rest ih =>
    simp only [List.map_cons, refFirst, firstBinding]
    rw [hv id (by simp)]
    cases (scopeOf s id).vars.lookup x with
    | some v => rfl
    | none => exact ih (fun j hj => hv j (by simp [hj]))

/-- **Lookup soundness** needs no more than `SimX`. -/
theorem lookup_sound_x {ρ : Nat → Nat} {φ : Val → Val} {s : St} {rs : Ref.St} {env : Nat}
    (h : SimX ρ φ s rs env) (x : String) :
    (lexLookup s x).map (fun p => (ρ p.1, φ p.2)) = Ref.lookup rs env x := by
  have h1 : lexLookup s x = firstBinding s x (lexCore s) := by
    rw [lexLookup_eq]
    have : lexChain s = lexCore s ++ (aboveBoundary s s.linear ++ templateCaptured s s.linear) := by
      simp [lexChain, lexCore]
    rw [this]
    apply firstBinding_append_sub
    intro id hid
    rcases List.mem_append.mp hid with hid | hid
    · exact List.mem_append.mpr (Or.inl hid)
    · exact h.template id hid
  rw [h1, Ref.lookup, lookupIn_eq, h.chain, refFirst_dedupFirst,
    refFirst_map_x ρ φ s rs.frames x (lexCore s) (fun id hid => h.vars id hid x)]

/-- **`RelF` implies `SimX`** — scope ids ARE frame ids (`ρ = id`), values correspond modulo the
numbering of closures (`φ = trf m`). -/
theorem simX_of_relF {m : Nat → Nat} {s : St} {rs : Ref.St} {env : Nat} (h : RelF m s rs env) :
    SimX id (trf m) s rs env := by
  obtain ⟨k, hc, hfc⟩ := h.ctx
  have hchain : refChain rs.frames (rs.frames.length + 1) env = dedupFirst (lexCore s) := by
    rw [refChain_fuel h.par env _ (by have := hc.lt; omega)]
    have hB := chainF_refChain (s := s) h.par hc
    have hnd : dedupFirst (aboveBoundary s s.linear ++ chainRest rs.frames k)
        = refChain rs.frames (env + 1) env := by
      rw [← hB]; exact dedupFirst_nodup (refChain_nodup h.par env)
    rw [← hnd]
    unfold lexCore capturedChain
    cases hpar : (fnOf s s.curfunc).parent with
    | some p =>
      simp only [Option.isSome_some, if_true]
      exact (fnChainF_dedup h.par hfc _ (fun x hx => hx) _ (by have := hfc.lt; omega)).symm
    | none =>
      simp only [Option.isSome_none, Bool.false_eq_true, if_false]
      cases hfc with
      | root seg f hlt hp' hs =>
        obtain ⟨t, ht⟩ := hs
        have := dedupFirst_skip (aboveBoundary s s.linear) (aboveBoundary s (fnOf s s.curfunc).closing) []
          (fun x hx => aboveBoundary_of_suffix s t s.linear _ ht x hx)
        simpa [chainRest] using this.symm
      | step seg k f p hlt hp' => rw [hpar] at hp'; cases hp'
      | clos seg e f p k' hlt hp' => rw [hpar] at hp'; cases hp'
      | sfx seg k f p hlt hp' => rw [hpar] at hp'; cases hp'
  refine ⟨by rw [List.map_id]; exact hchain, fun id _ x => h.vars id x, fun id hid => ?_⟩
  have h0 := templateCaptured_zero h.fscopes s.linear id hid
  subst h0
  unfold lexCore capturedChain
  cases k with
  | none => exact List.mem_append.mpr (Or.inl (chainF_zero_mem hc rfl))
  | some e =>
    have hz := fnChainF_zero_mem hfc (by simp) (s.fns.length + 1) (by have := hfc.lt; omega)
    cases hpar : (fnOf s s.curfunc).parent with
    | some p => simp only [Option.isSome_some, if_true]; exact List.mem_append.mpr (Or.inr hz)
    | none =>
      obtain ⟨j, hj⟩ : ∃ j, s.fns.length + 1 = j + 1 := ⟨_, rfl⟩
      rw [hj] at hz
      simp [chainIds, hpar] at hz

end ZygoVerif.Scope
