/-
C05 on the executable VM model (`Model/VM.lean`), part 1: the error exit of `Run`.

`runLoop`'s error arm is `restore st; pc := curSize; throw err`, and nothing else in `run` can
produce `Fault.err`. So whatever the failing instruction did — at ANY depth of re-entry
(`callExpr → evalCallExpr → nested → run`, `callUser → builtin → applyFn/forceLazy → run`:
all of that happens inside the opaque `exec fuel instr` of this loop) — the state in which
`run` returns the error is `park (restoreSt st s₁)` for the captured control state `st` and
the state `s₁` in which the failing instruction stopped. `restore` sets the three stack
SIZES unconditionally (`truncate` cuts or pads), `curfunc` and `pc`.

No hypothesis on the instruction set, the code, the stacks or the call depth.
-/
import ZygoVerif.Proofs.SimMachine
set_option linter.unusedSimpArgs false
namespace ZygoVerif.Contain
open ZygoVerif.Core ZygoVerif.VM ZygoVerif.Sim

/-! ## `truncate` -/

theorem truncate_length {α} (l : List (Option α)) (n : Nat) : (truncate l n).length = n := by
  unfold truncate
  split
  · simp only [List.length_drop]; omega
  · simp only [List.length_append, List.length_replicate]; omega

/-- `TruncateToSize` down to (or at) the present size keeps the deepest `n` cells … -/
theorem truncate_of_suffix {α} (l base : List (Option α)) (h : base <:+ l) :
    truncate l base.length = base := by
  obtain ⟨t, rfl⟩ := h
  unfold truncate
  rw [if_pos (by simp)]
  simp

/-- … and above the present size it PADS with nil cells on top. -/
theorem truncate_pad {α} (l : List (Option α)) (n : Nat) (h : l.length < n) :
    truncate l n = List.replicate (n - l.length) none ++ l := by
  unfold truncate
  rw [if_neg (by omega)]

/-! ## capture / restore as functions of the state -/

/-- what `captureControlState` records in state `s` -/
def captureOf (s : St) : CtlState :=
  { curfunc := s.curfunc, pc := s.pc, susp := s.suspended.length, addrSize := s.addr.length,
    linearSize := s.linear.length, dataSize := s.data.length }

theorem run_capture (s : St) : capture.run s = (.ok (captureOf s), s) := rfl

/-- the scope-stack OBJECT that was current when `c` was captured, as seen from `s`: the live
one, or — when lazy forces have set stacks aside since — the oldest one set aside since. -/
def linAt (c : CtlState) (s : St) : List (Option Nat) :=
  if s.suspended.length > c.susp then s.suspended.getD (s.suspended.length - c.susp - 1) [] else s.linear

def suspAt (c : CtlState) (s : St) : List (List (Option Nat)) :=
  if s.suspended.length > c.susp then s.suspended.drop (s.suspended.length - c.susp) else s.suspended

/-- `restoreControlState` as a function -/
def restoreSt (c : CtlState) (s : St) : St :=
  { s with addr := truncate s.addr c.addrSize, linear := truncate (linAt c s) c.linearSize,
           suspended := suspAt c s, data := truncate s.data c.dataSize, curfunc := c.curfunc, pc := c.pc }

theorem run_restore (c : CtlState) (s : St) : (restore c).run s = (.ok (), restoreSt c s) := by
  unfold restore restoreSt linAt suspAt
  rw [run_modify]
  by_cases h : s.suspended.length > c.susp <;> simp only [h, if_true, if_false]

/-- `env.pc = env.CurrentFunctionSize()` — the program counter parked behind the code. -/
def park (s : St) : St := { s with pc := curSize s }

/-- The control part of `s'` has the sizes, function and (parked) pc that `c` prescribes. -/
structure SizedAs (c : CtlState) (s' : St) : Prop where
  data : s'.data.length = c.dataSize
  linear : s'.linear.length = c.linearSize
  addr : s'.addr.length = c.addrSize
  curfunc : s'.curfunc = c.curfunc
  pcEnd : s'.pc = curSize s'
  susp : s'.suspended.length ≤ c.susp

/-- **restore sets the sizes** — for EVERY state `s` it is applied to. -/
theorem restore_park_sized (c : CtlState) (s : St) : SizedAs c (park (restoreSt c s)) where
  data := truncate_length _ _
  linear := truncate_length _ _
  addr := truncate_length _ _
  curfunc := rfl
  pcEnd := rfl
  susp := by
    show (suspAt c s).length ≤ c.susp
    unfold suspAt
    split
    · simp only [List.length_drop]; omega
    · omega

/-- what restore/park leave alone: every table of the interpreter (scope cells, function
objects, loop records, thunks, data heap, trace) -/
structure SameStore (a b : St) : Prop where
  scopes : a.scopes = b.scopes
  fns : a.fns = b.fns
  loops : a.loops = b.loops
  loopstack : a.loopstack = b.loopstack
  lazies : a.lazies = b.lazies
  heap : a.heap = b.heap
  trace : a.trace = b.trace

theorem SameStore.rfl' (a : St) : SameStore a a := ⟨rfl, rfl, rfl, rfl, rfl, rfl, rfl⟩

theorem restore_park_sameStore (c : CtlState) (s : St) : SameStore (park (restoreSt c s)) s :=
  ⟨rfl, rfl, rfl, rfl, rfl, rfl, rfl⟩

/-! ## The error exit of the run loop -/

/-- **The only way `runLoop` returns `err`**: some instruction of THIS loop (fetched in a state
`s₀` of this loop, executed with some fuel) returned `err` in state `s₁`; the loop answers
with `restore st` applied to `s₁` and the pc parked. -/
theorem runLoop_err_shape : ∀ (fuel : Nat) (st : CtlState) (s s' : St),
    (runLoop fuel st).run s = (.error .err, s') →
    ∃ s₀ i f s₁, (exec f i).run s₀ = (.error .err, s₁) ∧ s' = park (restoreSt st s₁)
  | 0, st, s, s', h => by
    rw [runLoop_zero] at h
    cases h
  | fuel + 1, st, s, s', h => by
    rw [runLoop] at h
    simp only [run_bind, run_get, run_ite] at h
    split at h
    · rw [run_pure] at h; cases h
    · split at h
      · rw [run_pure] at h; cases h
      · rename_i instr _
        rcases hx : (exec fuel instr).run s with ⟨r, s1⟩
        simp only [hx, run_set] at h
        cases r with
        | ok u => exact runLoop_err_shape fuel st s1 s' h
        | error flt =>
          cases flt with
          | err =>
            simp only [run_bind, run_restore, run_modify, run_throw] at h
            refine ⟨s, instr, fuel, s1, hx, ?_⟩
            injection h with _ h2
            exact h2.symm
          | panic => simp only [run_throw] at h; cases h
          | timeout => simp only [run_throw] at h; cases h

/-- the tail of `Run`: `if the data stack is empty push nil; pop` -/
def runTail : M Val := do
  let s ← get
  if s.data.isEmpty then pushData .nil
  popData

/-- … never returns `err` -/
theorem runTail_not_err (s s' : St) : runTail.run s ≠ (.error .err, s') := by
  unfold runTail
  simp only [run_bind, run_get]
  rcases hd : s.data with _ | ⟨_ | v, rest⟩
  · simp only [List.isEmpty_nil, if_true, run_pushData, run_popData, hd]
    intro h; cases h
  · simp only [List.isEmpty_cons, Bool.false_eq_true, if_false, run_pure, run_popData, hd]
    intro h; cases h
  · simp only [List.isEmpty_cons, Bool.false_eq_true, if_false, run_pure, run_popData, hd]
    intro h; cases h

theorem run_succ_eq (fuel : Nat) : run (fuel + 1) = (do let st ← capture; runLoop fuel st; runTail) := by
  rw [run]; rfl

/-- **The only way `Run` returns `err`** — the same, with the control state captured at entry. -/
theorem run_err_shape (fuel : Nat) (s s' : St) (h : (run fuel).run s = (.error .err, s')) :
    ∃ s₀ i f s₁, (exec f i).run s₀ = (.error .err, s₁) ∧ s' = park (restoreSt (captureOf s) s₁) := by
  cases fuel with
  | zero => rw [run] at h; cases h
  | succ fuel =>
    rw [run_succ_eq] at h
    simp only [run_bind, run_capture] at h
    rcases hl : (runLoop fuel (captureOf s)).run s with ⟨r, s2⟩
    rw [hl] at h
    cases r with
    | ok u => exact absurd h (runTail_not_err s2 s')
    | error flt =>
      dsimp only at h
      injection h with h1 h2
      subst h2
      injection h1 with h1
      subst h1
      exact runLoop_err_shape fuel _ s s2 hl

/-- **run_error_sized** — whatever state `s` `Run` was entered in (any call depth, any stacks)
and whatever ran: when `Run` returns an error, the address, scope and data stacks have exactly
the sizes they had on entry, `curfunc` is the function of entry, the pc is parked behind its
code, and no scope stack set aside after entry remains. -/
theorem run_error_sized (fuel : Nat) (s s' : St) (h : (run fuel).run s = (.error .err, s')) :
    SizedAs (captureOf s) s' := by
  obtain ⟨_, _, _, s1, _, rfl⟩ := run_err_shape fuel s s' h
  exact restore_park_sized _ _

theorem runLoop_error_sized (fuel : Nat) (st : CtlState) (s s' : St)
    (h : (runLoop fuel st).run s = (.error .err, s')) : SizedAs st s' := by
  obtain ⟨_, _, _, s1, _, rfl⟩ := runLoop_err_shape fuel st s s' h
  exact restore_park_sized _ _

end ZygoVerif.Contain
