/-
Proofs/GenCodeOK.lean — what generated code carries with it: the expressions inside `callExpr`
and `pushLazy` (compiled at run time by `EvalCallExpression` / `Force`) are again in the covered
grammar, pushed constants are literals, loop ids name existing loop records, and every
template has a well-formed signature. By the same mutual induction as Proofs/GenBalancedAll.lean.
Used by the run-time invariant of Proofs/RunInv.lean ("compile at run time only adds verified
functions").
-/
import ZygoVerif.Proofs.GenBalancedAll
set_option linter.unusedSimpArgs false
set_option linter.unusedVariables false
namespace ZygoVerif.Bal
open ZygoVerif.VM ZygoVerif.Core

/-- a constant the generator pushes -/
def litVal : Val → Bool
  | .nil => true
  | .bool _ => true
  | .int _ => true
  | .str _ => true
  | _ => false

/-- the sizes of the loop table and of the function table -/
structure Sz where
  loops : Nat
  fns : Nat

def Sz.le (a b : Sz) : Prop := a.loops ≤ b.loops ∧ a.fns ≤ b.fns

def szOf (gs : GS) : Sz := ⟨gs.loops.length, gs.fns.length⟩

/-- an instruction of generated code, with tables of sizes `N` -/
def instrOK (N : Sz) : Instr → Bool
  | .callExpr c as => okL c && okLs as
  | .pushLazy e => okL e
  | .push v => litVal v
  | .brk l _ => decide (l < N.loops)
  | .cont l _ => decide (l < N.loops)
  | .createClosure t => decide (2 ≤ t ∧ t < N.fns)
  | _ => true

def AllOK (N : Sz) (code : List Instr) : Prop := ∀ i ∈ code, instrOK N i = true

theorem instrOK_mono {N M : Sz} (h : N.le M) (i : Instr) (hi : instrOK N i = true) : instrOK M i = true := by
  obtain ⟨h1, h2⟩ := h
  cases i <;> simp only [instrOK, decide_eq_true_eq] at hi ⊢ <;> first | exact hi | omega

theorem AllOK.mono {N M : Sz} {code : List Instr} (h : AllOK N code) (hle : N.le M) : AllOK M code :=
  fun i hi => instrOK_mono hle i (h i hi)

theorem Ext.sz {a b : GS} (h : Ext a b) : (szOf a).le (szOf b) := ⟨h.loops_len, h.fns_len⟩

theorem AllOK.monoE {a b : GS} {code : List Instr} (h : AllOK (szOf a) code) (e : Ext a b) : AllOK (szOf b) code :=
  h.mono e.sz

theorem AllOK.nil (N : Sz) : AllOK N [] := fun _ h => by cases h

theorem AllOK.append {N : Sz} {a b : List Instr} (ha : AllOK N a) (hb : AllOK N b) : AllOK N (a ++ b) := by
  intro i hi
  rcases List.mem_append.mp hi with h | h
  · exact ha i h
  · exact hb i h

theorem AllOK.of_forall {N : Sz} {code : List Instr} (h : ∀ i ∈ code, instrOK N i = true) : AllOK N code := h

/-- a list of instructions that are fine whatever the table -/
theorem AllOK.plain {N : Sz} (code : List Instr) (h : ∀ i ∈ code, instrOK ⟨0, 0⟩ i = true) : AllOK N code :=
  fun i hi => instrOK_mono ⟨Nat.zero_le _, Nat.zero_le _⟩ i (h i hi)

theorem AllOK.asmCond {N : Sz} : ∀ (arms : List (List Instr × List Instr)) (d : List Instr),
    AllOK N d → (∀ a ∈ arms, AllOK N a.1 ∧ AllOK N a.2) → AllOK N (asmCond arms d)
  | [], d, hd, _ => by simpa [VM.asmCond] using hd
  | (p, b) :: arms, d, hd, h => by
    have ih := AllOK.asmCond arms d hd (fun a ha => h a (by simp [ha]))
    obtain ⟨hp, hb⟩ := h (p, b) (by simp)
    simp only [VM.asmCond]
    refine AllOK.append (AllOK.append (AllOK.append (AllOK.append hp ?_) hb) ?_) ih
    · exact AllOK.plain _ (fun i hi => by simp at hi; subst hi; rfl)
    · exact AllOK.plain _ (fun i hi => by simp at hi; subst hi; rfl)

theorem AllOK.asmSC {N : Sz} (isOr : Bool) : ∀ (cs : List (List Instr)), (∀ c ∈ cs, AllOK N c) → AllOK N (asmSC isOr cs)
  | [], _ => AllOK.plain _ (fun i hi => by simp [VM.asmSC] at hi; subst hi; rfl)
  | [c], h => by simpa [VM.asmSC] using h c (by simp)
  | c :: c' :: rest, h => by
    have ih := AllOK.asmSC isOr (c' :: rest) (fun x hx => h x (by simp [hx]))
    simp only [VM.asmSC]
    refine AllOK.append (AllOK.append (h c (by simp)) ?_) ih
    exact AllOK.plain _ (fun i hi => by
      simp only [List.mem_cons, List.mem_nil_iff, or_false] at hi
      rcases hi with rfl | rfl | rfl <;> rfl)

theorem allOK_forCode {N : Sz} (loop : Nat) (i t s b : List Instr)
    (hi : AllOK N i) (ht : AllOK N t) (hs : AllOK N s) (hb : AllOK N b) : AllOK N (forCode loop i t s b) := by
  have key : ∀ x, x ∈ forCode loop i t s b → x ∈ i ∨ x ∈ t ∨ x ∈ s ∨ x ∈ b ∨ instrOK ⟨0, 0⟩ x = true := by
    intro x hx
    unfold forCode asmFor at hx
    simp only [List.mem_append, List.mem_cons, List.mem_nil_iff, or_false, or_assoc] at hx
    rcases hx with h|h|h|h|h|h|h|h|h|h|h|h|h|h|h|h|h|h|h|h|h
    all_goals first
      | exact Or.inl h | exact Or.inr (Or.inl h) | exact Or.inr (Or.inr (Or.inl h))
      | exact Or.inr (Or.inr (Or.inr (Or.inl h)))
      | (subst h; exact Or.inr (Or.inr (Or.inr (Or.inr rfl))))
  intro x hx
  rcases key x hx with h | h | h | h | h
  · exact hi x h
  · exact ht x h
  · exact hs x h
  · exact hb x h
  · exact instrOK_mono ⟨Nat.zero_le _, Nat.zero_le _⟩ x h

/-- a template with a well-formed signature and fine code -/
def tmplOK (N : Sz) (f : FnObj) : Prop :=
  AllOK N f.code ∧ f.user = false ∧ f.params.length = f.nargs + (if f.varargs then 1 else 0)

/-- the code is fine, and so is every template allocated on the way -/
structure COK (gs gs' : GS) (code : List Instr) : Prop where
  code : AllOK (szOf gs') code
  fns : ∀ i f, gs.fns.length ≤ i → gs'.fns[i]? = some f → tmplOK (szOf gs') f

theorem tmplOK.mono {N M : Sz} {f : FnObj} (h : tmplOK N f) (hle : N.le M) : tmplOK M f :=
  ⟨h.1.mono hle, h.2⟩

def FnsCOK (gs gs' : GS) : Prop := ∀ i f, gs.fns.length ≤ i → gs'.fns[i]? = some f → tmplOK (szOf gs') f

theorem FnsCOK.refl (gs : GS) : FnsCOK gs gs := by
  intro i f hi hf
  have : i < gs.fns.length := by
    rcases Nat.lt_or_ge i gs.fns.length with h | h
    · exact h
    · rw [List.getElem?_eq_none_iff.mpr h] at hf; cases hf
  omega

theorem FnsCOK.trans {a b c : GS} (h1 : FnsCOK a b) (h2 : FnsCOK b c) (e2 : Ext b c) : FnsCOK a c := by
  intro i f hi hf
  rcases Nat.lt_or_ge i b.fns.length with h | h
  · rw [e2.fns_get i h] at hf
    exact (h1 i f hi hf).mono e2.sz
  · exact h2 i f h hf

theorem COK.seq {gs gs1 gs2 : GS} {c1 c2 : List Instr} (r1 : COK gs gs1 c1) (r2 : COK gs1 gs2 c2) (e2 : Ext gs1 gs2) :
    COK gs gs2 (c1 ++ c2) :=
  ⟨(r1.code.monoE e2).append r2.code, FnsCOK.trans r1.fns r2.fns e2⟩

theorem COK.recode {gs gs' : GS} {c c' : List Instr} (r : COK gs gs' c) (h : AllOK (szOf gs') c') : COK gs gs' c' :=
  ⟨h, r.fns⟩

theorem COK.pure (gs : GS) (code : List Instr) (h : ∀ i ∈ code, instrOK ⟨0, 0⟩ i = true) : COK gs gs code :=
  ⟨AllOK.plain _ h, FnsCOK.refl gs⟩

theorem plain1 (i : Instr) (h : instrOK ⟨0, 0⟩ i = true) : ∀ x ∈ [i], instrOK ⟨0, 0⟩ x = true := by
  intro x hx; simp at hx; subst hx; exact h

theorem plainN {N : Sz} (code : List Instr) (h : ∀ i ∈ code, instrOK ⟨0, 0⟩ i = true) : AllOK N code := AllOK.plain code h

theorem szOf_finish (t : Nat) (b : List Instr) (g2 : GS) : szOf (finishGs t b g2) = szOf g2 := by
  simp [szOf, finishGs]

theorem szOf_forDone (g5 : GS) (l : Nat) (x y : Int) : szOf (forDone g5 l x y) = szOf g5 := by
  simp [szOf, forDone]

/-- the finished template -/
theorem cok_template (isFn : Nat → Bool) (c : Ctx) (gs g2 : GS) (name : String) (ps : List String) (rest : Option String)
    (b : List Instr) (e : Ext (allocGs isFn gs name ps rest) g2) (hb : COK (allocGs isFn gs name ps rest) g2 b) :
    FnsCOK gs (finishGs gs.fns.length b g2) := by
  intro i f hi hf
  rw [szOf_finish]
  by_cases hit : i = gs.fns.length
  · subst hit
    rw [finishGs_get_self e] at hf
    cases hf
    refine ⟨?_, rfl, params_len ps rest⟩
    show AllOK (szOf g2) (fnCode gs.fns.length (ps ++ rest.toList) b)
    simp only [fnCode]
    refine AllOK.append (AllOK.append (AllOK.append ?_ ?_) hb.code) ?_
    · exact plainN _ (plain1 _ rfl)
    · exact plainN _ (fun x hx => by
        simp only [List.mem_reverse, List.mem_map] at hx
        obtain ⟨p, _, rfl⟩ := hx
        rfl)
    · exact plainN _ (fun x hx => by
        simp only [List.mem_cons, List.mem_nil_iff, or_false] at hx
        rcases hx with rfl | rfl <;> rfl)
  · rw [finishGs_get_ne (Ne.symm hit)] at hf
    refine hb.fns i f ?_ hf
    simp only [allocGs, List.length_append, List.length_cons, List.length_nil]
    omega

mutual

theorem cok_compile (isFn : Nat → Bool) : ∀ (e : Expr) (c : Ctx) (gs : GS) (code : List Instr) (t : Bool) (gs' : GS),
    okL e = true → GSok gs → 2 ≤ gs.fns.length → compile isFn c e gs = Except.ok ((code, t), gs') → COK gs gs' code
  | .int v, c, gs, code, t, gs', _, _, hn2, h => by
    simp only [compile, pure_ok] at h; cases h
    exact COK.pure gs _ (plain1 _ (by simp [instrOK, litVal, intOfLit]))
  | .bool v, c, gs, code, t, gs', _, _, hn2, h => by
    simp only [compile, pure_ok] at h; cases h
    exact COK.pure gs _ (plain1 _ rfl)
  | .str v, c, gs, code, t, gs', _, _, hn2, h => by
    simp only [compile, pure_ok] at h; cases h
    exact COK.pure gs _ (plain1 _ rfl)
  | .nilLit, c, gs, code, t, gs', _, _, hn2, h => by
    simp only [compile, pure_ok] at h; cases h
    exact COK.pure gs _ (plain1 _ rfl)
  | .sym x, c, gs, code, t, gs', _, _, hn2, h => by
    simp only [compile, pure_ok] at h; cases h
    exact COK.pure gs _ (plain1 _ rfl)
  | .def_ x e, c, gs, code, t, gs', hok, hgs, hn2, h => by
    simp only [compile, bind_ok, pure_ok] at h
    obtain ⟨⟨code1, t1⟩, gs1, h1, heq⟩ := h
    simp only [okL] at hok
    have r := cok_compile isFn e { c with tail := false } gs code1 t1 gs1 hok hgs hn2 h1
    cases heq
    exact r.recode (r.code.append (plainN _ (fun x hx => by
      simp only [List.mem_cons, List.mem_nil_iff, or_false] at hx
      rcases hx with rfl | rfl <;> rfl)))
  | .set_ x e, c, gs, code, t, gs', hok, hgs, hn2, h => by
    simp only [compile, bind_ok, pure_ok] at h
    obtain ⟨⟨code1, t1⟩, gs1, h1, heq⟩ := h
    simp only [okL] at hok
    have r := cok_compile isFn e { c with tail := false } gs code1 t1 gs1 hok hgs hn2 h1
    cases heq
    exact r.recode (r.code.append (plainN _ (fun x hx => by
      simp only [List.mem_cons, List.mem_nil_iff, or_false] at hx
      rcases hx with rfl | rfl <;> rfl)))
  | .arr es, c, gs, code, t, gs', hok, hgs, hn2, h => by
    simp only [compile, bind_ok, pure_ok] at h
    obtain ⟨⟨code1, t1⟩, gs1, h1, heq⟩ := h
    simp only [okL] at hok
    have r := cok_compileAll isFn es { c with tail := false } gs code1 t1 gs1 hok hgs hn2 h1
    cases heq
    exact r.recode (r.code.append (plainN _ (plain1 _ rfl)))
  | .call f args, c, gs, code, t, gs', hok, hgs, hn2, h => by
    have hcases : (∃ hd, f = .sym hd) ∨ (code = [Instr.callExpr f args] ∧ t = c.tail ∧ gs = gs') := by
      cases f <;> first
        | (left; exact ⟨_, rfl⟩)
        | (right; simp only [compile, pure_ok] at h; cases h; exact ⟨rfl, rfl, rfl⟩)
    have hcall : ∀ f', okL (.call f' args) = true → instrOK ⟨0, 0⟩ (Instr.callExpr f' args) = true := by
      intro f' hk
      cases f' <;> simp_all [instrOK, okL]
    rcases hcases with ⟨hd, rfl⟩ | ⟨rfl, rfl, rfl⟩
    · have hok' := hok
      simp only [okL, Bool.and_eq_true, Bool.not_eq_true'] at hok
      rcases compile_call_sym_inv isFn c hd args gs code t gs' h with ⟨rfl, rfl, rfl⟩ | ⟨htail, hname, rfl, harity, argcode, hargs, rfl⟩
      · exact COK.pure gs _ (plain1 _ (hcall _ hok'))
      · obtain ⟨r, _⟩ := cok_compileCallArgs isFn args { c with tail := false }
          ((c.known.lookup hd).bind (fun t => gs.fns[t]?)) 0 gs argcode gs' hok.2 hgs hn2 hargs
        refine r.recode ?_
        refine AllOK.append (AllOK.append (AllOK.append (AllOK.append ?_ r.code) ?_) ?_) ?_
        · exact plainN _ (plain1 _ rfl)
        · exact plainN _ (plain1 _ rfl)
        · exact plainN _ (fun x hx => by rw [List.eq_of_mem_replicate hx]; rfl)
        · exact plainN _ (fun x hx => by
            simp only [List.mem_cons, List.mem_nil_iff, or_false] at hx
            rcases hx with rfl | rfl
            · rfl
            · exact hcall _ hok')
    · exact COK.pure gs _ (plain1 _ (hcall _ hok))
  | .begin_ es, c, gs, code, t, gs', hok, hgs, hn2, h => by
    simp only [okL] at hok
    cases es with
    | nil =>
      simp only [compile, pure_ok] at h; cases h
      exact COK.pure gs _ (plain1 _ rfl)
    | cons e es =>
      simp only [compile] at h
      exact cok_compileBegin isFn (e :: es) c gs code t gs' hok hgs hn2 h
  | .cond arms dflt, c, gs, code, t, gs', hok, hgs, hn2, h => by
    simp only [compile, bind_ok, pure_ok] at h
    obtain ⟨⟨dc, td⟩, gs1, h1, as, gs2, h2, heq⟩ := h
    simp only [okL, Bool.and_eq_true] at hok
    have rd := cok_compile isFn dflt c gs dc td gs1 hok.2 hgs hn2 h1
    have ed := (balL_compile isFn dflt c gs dc td gs1 hok.2 hgs h1).2.2.ext
    obtain ⟨ra, rf⟩ := cok_compileArms isFn arms c gs1 as gs2 hok.1 (hgs.ext ed) (Nat.le_trans hn2 ed.fns_len) h2
    have ea := (balL_compileArms isFn arms c gs1 as gs2 hok.1 (hgs.ext ed) h2).2.ext
    cases heq
    exact ⟨AllOK.asmCond as dc (rd.code.monoE ea) ra, FnsCOK.trans rd.fns rf ea⟩
  | .and_ es, c, gs, code, t, gs', hok, hgs, hn2, h => by
    simp only [compile, bind_ok, pure_ok] at h
    obtain ⟨cs, gs1, h1, heq⟩ := h
    simp only [okL] at hok
    obtain ⟨ra, rf⟩ := cok_compileSC isFn es c gs cs gs1 hok hgs hn2 h1
    cases heq
    exact ⟨AllOK.asmSC false cs ra, rf⟩
  | .or_ es, c, gs, code, t, gs', hok, hgs, hn2, h => by
    simp only [compile, bind_ok, pure_ok] at h
    obtain ⟨cs, gs1, h1, heq⟩ := h
    simp only [okL] at hok
    obtain ⟨ra, rf⟩ := cok_compileSC isFn es c gs cs gs1 hok hgs hn2 h1
    cases heq
    exact ⟨AllOK.asmSC true cs ra, rf⟩
  | .let_ seq bs body, c, gs, code, t, gs', hok, hgs, hn2, h => by
    simp only [compile, bind_ok, pure_ok] at h
    obtain ⟨⟨rhs, t1⟩, gs1, h1, ⟨b, t2⟩, gs2, h2, heq⟩ := h
    simp only [okL, Bool.and_eq_true, Bool.not_eq_true', List.isEmpty_eq_false_iff] at hok
    obtain ⟨⟨hokb, hne⟩, hokbody⟩ := hok
    have rr := cok_compileBinds isFn bs { c with scopes := c.scopes + 1, tail := false } seq gs rhs t1 gs1 hokb hgs hn2 h1
    have er := (balL_compileBinds isFn bs { c with scopes := c.scopes + 1, tail := false } seq gs rhs t1 gs1 hokb hgs rfl h1).2.2.ext
    have rb := cok_compileBegin isFn body { c with scopes := c.scopes + 1 } gs1 b t2 gs2 hokbody (hgs.ext er) (Nat.le_trans hn2 er.fns_len) h2
    have eb := (balL_compileBegin isFn body { c with scopes := c.scopes + 1 } gs1 b t2 gs2 hokbody (hgs.ext er) h2).2.2.2.ext
    cases heq
    refine ⟨?_, FnsCOK.trans rr.fns rb.fns eb⟩
    refine AllOK.append (AllOK.append (AllOK.append (AllOK.append (plainN _ (plain1 _ rfl)) (rr.code.monoE eb)) ?_) rb.code)
      (plainN _ (plain1 _ rfl))
    cases seq
    · exact plainN _ (fun x hx => by
        simp only [Bool.false_eq_true, if_false, List.mem_reverse, List.mem_map] at hx
        obtain ⟨p, _, rfl⟩ := hx
        rfl)
    · exact AllOK.nil _
  | .newScope es, c, gs, code, t, gs', hok, hgs, hn2, h => by
    simp only [okL] at hok
    cases es with
    | nil =>
      simp only [compile, pure_ok] at h; cases h
      exact COK.pure gs _ (plain1 _ rfl)
    | cons e es =>
      simp only [compile, bind_ok, pure_ok] at h
      obtain ⟨⟨code1, t1⟩, gs1, h1, heq⟩ := h
      have r := cok_compileNewScope isFn (e :: es) { c with scopes := c.scopes + 1 } c.tail gs code1 t1 gs1 hok hgs hn2 h1
      cases heq
      exact r.recode (AllOK.append (AllOK.append (plainN _ (plain1 _ rfl)) r.code) (plainN _ (plain1 _ rfl)))
  | .for_ label init test incr body, c, gs, code, t, gs', hok, hgs, hn2, h => by
    obtain ⟨⟨bc, bt⟩, g2, ⟨ic, it⟩, g3, ⟨tc, tt⟩, g4, ⟨sc, st⟩, g5, hb, hi, ht, hs, heq⟩ :=
      compile_for_ok isFn c label init test incr body gs _ h
    cases heq
    simp only [okL, Bool.and_eq_true] at hok
    obtain ⟨⟨⟨hoi, hot⟩, hos⟩, hob⟩ := hok
    have hgA := hgs.for_ c label
    have rb := cok_compileBegin isFn body { c with tail := false, scopes := c.scopes + 1 } (forGs gs c label) bc bt g2 hob hgA hn2 hb
    have eb := (balL_compileBegin isFn body { c with tail := false, scopes := c.scopes + 1 } (forGs gs c label) bc bt g2 hob hgA hb).2.2.2.ext
    have hg2 := hgA.ext eb
    have ri := cok_compile isFn init { c with tail := false, scopes := c.scopes + 1 } g2 ic it g3 hoi hg2 (Nat.le_trans hn2 eb.fns_len) hi
    have ei := (balL_compile isFn init { c with tail := false, scopes := c.scopes + 1 } g2 ic it g3 hoi hg2 hi).2.2.ext
    have hg3 := hg2.ext ei
    have rt := cok_compile isFn test { c with tail := false, scopes := c.scopes + 1 } g3 tc tt g4 hot hg3 (Nat.le_trans hn2 (eb.trans ei).fns_len) ht
    have et := (balL_compile isFn test { c with tail := false, scopes := c.scopes + 1 } g3 tc tt g4 hot hg3 ht).2.2.ext
    have hg4 := hg3.ext et
    have rs := cok_compile isFn incr { c with tail := false, scopes := c.scopes + 1 } g4 sc st g5 hos hg4 (Nat.le_trans hn2 ((eb.trans ei).trans et).fns_len) hs
    have es := (balL_compile isFn incr { c with tail := false, scopes := c.scopes + 1 } g4 sc st g5 hos hg4 hs).2.2.ext
    have hlen5 : (forDone g5 gs.loops.length (forBrk gs.loops.length ic tc sc bc) (forCont gs.loops.length ic tc sc bc)).loops.length
        = g5.loops.length := by simp [forDone]
    have hfns5 : (forDone g5 gs.loops.length (forBrk gs.loops.length ic tc sc bc) (forCont gs.loops.length ic tc sc bc)).fns = g5.fns := rfl
    refine ⟨?_, ?_⟩
    · rw [szOf_forDone]
      exact allOK_forCode _ ic tc sc bc (ri.code.monoE (et.trans es)) (rt.code.monoE es) rs.code
        (rb.code.monoE (ei.trans (et.trans es)))
    · have hall : FnsCOK (forGs gs c label) g5 :=
        FnsCOK.trans (FnsCOK.trans (FnsCOK.trans rb.fns ri.fns ei) rt.fns et) rs.fns es
      intro i f hi' hf
      rw [hfns5] at hf
      rw [szOf_forDone]
      exact hall i f hi' hf
  | .break_ l, c, gs, code, t, gs', _, hgs, hn2, h => by
    simp only [compile, bind_ok, get_ok] at h
    obtain ⟨_, _, hg, h⟩ := h
    cases hg
    cases hf : findLoop gs l with
    | none => simp only [hf] at h; exact absurd h (throw_ok _ _)
    | some id =>
      simp only [hf, pure_ok] at h
      cases h
      refine ⟨fun x hx => ?_, FnsCOK.refl gs⟩
      simp only [List.mem_cons, List.mem_nil_iff, or_false] at hx
      subst hx
      simp only [instrOK, decide_eq_true_eq]
      exact hgs id (findLoop_mem hf)
  | .continue_ l, c, gs, code, t, gs', _, hgs, hn2, h => by
    simp only [compile, bind_ok, get_ok] at h
    obtain ⟨_, _, hg, h⟩ := h
    cases hg
    cases hf : findLoop gs l with
    | none => simp only [hf] at h; exact absurd h (throw_ok _ _)
    | some id =>
      simp only [hf, pure_ok] at h
      cases h
      refine ⟨fun x hx => ?_, FnsCOK.refl gs⟩
      simp only [List.mem_cons, List.mem_nil_iff, or_false] at hx
      subst hx
      simp only [instrOK, decide_eq_true_eq]
      exact hgs id (findLoop_mem hf)
  | .fn ps rest body, c, gs, code, t, gs', hok, hgs, hn2, h => by
    simp only [compile, bind_ok, pure_ok] at h
    obtain ⟨⟨tm, cb⟩, gs1, ha, ⟨b, tb⟩, gs2, hb, u, gs3, hf, heq⟩ := h
    rw [allocTemplate_ok] at ha; cases ha
    rw [finishTemplate_ok] at hf; cases hf
    cases heq
    simp only [okL, Bool.and_eq_true, Bool.not_eq_true', List.isEmpty_eq_false_iff] at hok
    have rb := cok_compileBegin isFn body (bodyCtx c gs "" true) (allocGs isFn gs "" ps rest) b tb gs2 hok.2 (hgs.alloc isFn "" ps rest) (Nat.le_trans hn2 (Ext.alloc isFn gs "" ps rest).fns_len) hb
    have eb := (balL_compileBegin isFn body (bodyCtx c gs "" true) (allocGs isFn gs "" ps rest) b tb gs2 hok.2 (hgs.alloc isFn "" ps rest) hb).2.2.2.ext
    refine ⟨fun x hx => ?_, cok_template isFn c gs gs2 "" ps rest b eb rb⟩
    simp only [List.mem_cons, List.mem_nil_iff, or_false] at hx
    subst hx
    have hl2 : gs.fns.length < (finishGs gs.fns.length b gs2).fns.length := by
      have := eb.fns_len
      simp only [allocGs, finishGs, List.length_append, List.length_cons, List.length_nil, List.length_set] at this ⊢
      omega
    exact decide_eq_true (show 2 ≤ gs.fns.length ∧ gs.fns.length < (szOf (finishGs gs.fns.length b gs2)).fns from ⟨hn2, hl2⟩)
  | .defn name ps rest body, c, gs, code, t, gs', hok, hgs, hn2, h => by
    simp only [compile, bind_ok, pure_ok] at h
    obtain ⟨⟨tm, cb⟩, gs1, ha, ⟨b, tb⟩, gs2, hb, u, gs3, hf, heq⟩ := h
    rw [allocTemplate_ok] at ha; cases ha
    rw [finishTemplate_ok] at hf; cases hf
    cases heq
    simp only [okL, Bool.and_eq_true, Bool.not_eq_true', List.isEmpty_eq_false_iff] at hok
    have rb := cok_compileBegin isFn body (bodyCtx c gs name (!rebindsOwnName name ps rest body)) (allocGs isFn gs name ps rest) b tb gs2
      hok.2 (hgs.alloc isFn name ps rest) (Nat.le_trans hn2 (Ext.alloc isFn gs name ps rest).fns_len) hb
    have eb := (balL_compileBegin isFn body (bodyCtx c gs name (!rebindsOwnName name ps rest body)) (allocGs isFn gs name ps rest) b tb gs2
      hok.2 (hgs.alloc isFn name ps rest) hb).2.2.2.ext
    refine ⟨fun x hx => ?_, cok_template isFn c gs gs2 name ps rest b eb rb⟩
    simp only [List.mem_cons, List.mem_nil_iff, or_false] at hx
    have hl2 : gs.fns.length < (finishGs gs.fns.length b gs2).fns.length := by
      have := eb.fns_len
      simp only [allocGs, finishGs, List.length_append, List.length_cons, List.length_nil, List.length_set] at this ⊢
      omega
    rcases hx with rfl | rfl | rfl
    · exact decide_eq_true (show 2 ≤ gs.fns.length ∧ gs.fns.length < (szOf (finishGs gs.fns.length b gs2)).fns from ⟨hn2, hl2⟩)
    · rfl
    · rfl
  | .assign l r, c, gs, code, t, gs', hok, hgs, hn2, h => by
    simp only [compile, bind_ok, pure_ok] at h
    obtain ⟨⟨a, ta⟩, gs1, h1, ⟨b, tb⟩, gs2, h2, heq⟩ := h
    simp only [okL, Bool.and_eq_true] at hok
    have ra := cok_compile isFn l { c with tail := false } gs a ta gs1 hok.1 hgs hn2 h1
    have ea := (balL_compile isFn l { c with tail := false } gs a ta gs1 hok.1 hgs h1).2.2.ext
    have rb := cok_compile isFn r { c with tail := false } gs1 b tb gs2 hok.2 (hgs.ext ea) (Nat.le_trans hn2 ea.fns_len) h2
    have eb := (balL_compile isFn r { c with tail := false } gs1 b tb gs2 hok.2 (hgs.ext ea) h2).2.2.ext
    cases heq
    exact (ra.seq rb eb).recode (((ra.code.monoE eb).append rb.code).append (plainN _ (plain1 _ rfl)))
  | .bad _, c, gs, code, t, gs', _, _, hn2, h => by
    simp only [compile] at h
    exact absurd h (throw_ok gs _)

theorem cok_compileAll (isFn : Nat → Bool) : ∀ (es : List Expr) (c : Ctx) (gs : GS) (code : List Instr) (t : Bool) (gs' : GS),
    okLs es = true → GSok gs → 2 ≤ gs.fns.length → compileAll isFn c es gs = Except.ok ((code, t), gs') → COK gs gs' code
  | [], c, gs, code, t, gs', _, _, hn2, h => by
    simp only [compileAll, pure_ok] at h; cases h
    exact COK.pure gs _ (fun _ hx => by cases hx)
  | e :: es, c, gs, code, t, gs', hok, hgs, hn2, h => by
    simp only [compileAll, bind_ok, pure_ok] at h
    obtain ⟨⟨a, ta⟩, gs1, h1, ⟨b, tb⟩, gs2, h2, heq⟩ := h
    simp only [okLs, Bool.and_eq_true] at hok
    have ra := cok_compile isFn e c gs a ta gs1 hok.1 hgs hn2 h1
    have ea := (balL_compile isFn e c gs a ta gs1 hok.1 hgs h1).2.2.ext
    have rb := cok_compileAll isFn es { c with tail := ta } gs1 b tb gs2 hok.2 (hgs.ext ea) (Nat.le_trans hn2 ea.fns_len) h2
    have eb : Ext gs1 gs2 := ext_compileAll isFn es { c with tail := ta } gs1 b tb gs2 hok.2 (hgs.ext ea) h2
    cases heq
    exact ra.seq rb eb

theorem ext_compileAll (isFn : Nat → Bool) : ∀ (es : List Expr) (c : Ctx) (gs : GS) (code : List Instr) (t : Bool) (gs' : GS),
    okLs es = true → GSok gs → compileAll isFn c es gs = Except.ok ((code, t), gs') → Ext gs gs'
  | [], c, gs, code, t, gs', _, _, h => by
    simp only [compileAll, pure_ok] at h; cases h
    exact Ext.refl gs
  | e :: es, c, gs, code, t, gs', hok, hgs, h => by
    simp only [compileAll, bind_ok, pure_ok] at h
    obtain ⟨⟨a, ta⟩, gs1, h1, ⟨b, tb⟩, gs2, h2, heq⟩ := h
    simp only [okLs, Bool.and_eq_true] at hok
    have ea := (balL_compile isFn e c gs a ta gs1 hok.1 hgs h1).2.2.ext
    have eb := ext_compileAll isFn es { c with tail := ta } gs1 b tb gs2 hok.2 (hgs.ext ea) h2
    cases heq
    exact ea.trans eb

theorem cok_compileCallArgs (isFn : Nat → Bool) : ∀ (args : List Expr) (c : Ctx) (f : Option FnObj) (i : Nat) (gs : GS)
    (code : List Instr) (gs' : GS),
    okLs args = true → GSok gs → 2 ≤ gs.fns.length → compileCallArgs isFn c f i args gs = Except.ok (code, gs') → COK gs gs' code ∧ Ext gs gs'
  | [], c, f, i, gs, code, gs', _, _, hn2, h => by
    simp only [compileCallArgs, pure_ok] at h; cases h
    exact ⟨COK.pure gs _ (fun _ hx => by cases hx), Ext.refl gs⟩
  | e :: es, c, f, i, gs, code, gs', hok, hgs, hn2, h => by
    simp only [compileCallArgs, bind_ok, pure_ok] at h
    obtain ⟨a, gs1, h1, b, gs2, h2, heq⟩ := h
    simp only [okLs, Bool.and_eq_true] at hok
    have key : (a = [Instr.pushLazy e] ∧ gs = gs1) ∨ ∃ ta, compile isFn c e gs = Except.ok ((a, ta), gs1) := by
      cases f with
      | none =>
        simp only [Bool.false_eq_true, ↓reduceIte, bind_ok, pure_ok] at h1
        obtain ⟨⟨a', ta⟩, gs1', h1', heq'⟩ := h1
        cases heq'
        exact Or.inr ⟨ta, h1'⟩
      | some fo =>
        simp only at h1
        by_cases hlz : fo.isLazyCallArg i = true
        · simp only [hlz, ↓reduceIte, pure_ok] at h1
          cases h1
          exact Or.inl ⟨rfl, rfl⟩
        · simp only [hlz, Bool.false_eq_true, ↓reduceIte, bind_ok, pure_ok] at h1
          obtain ⟨⟨a', ta⟩, gs1', h1', heq'⟩ := h1
          cases heq'
          exact Or.inr ⟨ta, h1'⟩
    have hfirst : COK gs gs1 a ∧ Ext gs gs1 := by
      rcases key with ⟨rfl, rfl⟩ | ⟨ta, h1'⟩
      · exact ⟨COK.pure gs _ (plain1 _ (by simp only [instrOK]; exact hok.1)), Ext.refl gs⟩
      · exact ⟨cok_compile isFn e c gs a ta gs1 hok.1 hgs hn2 h1', (balL_compile isFn e c gs a ta gs1 hok.1 hgs h1').2.2.ext⟩
    obtain ⟨ra, ea⟩ := hfirst
    obtain ⟨rb, eb⟩ := cok_compileCallArgs isFn es c f (i + 1) gs1 b gs2 hok.2 (hgs.ext ea) (Nat.le_trans hn2 ea.fns_len) h2
    cases heq
    exact ⟨ra.seq rb eb, ea.trans eb⟩

theorem cok_compileBegin (isFn : Nat → Bool) : ∀ (es : List Expr) (c : Ctx) (gs : GS) (code : List Instr) (t : Bool) (gs' : GS),
    okLs es = true → GSok gs → 2 ≤ gs.fns.length → compileBegin isFn c es gs = Except.ok ((code, t), gs') → COK gs gs' code
  | [], c, gs, code, t, gs', _, _, hn2, h => by
    simp only [compileBegin, pure_ok] at h; cases h
    exact COK.pure gs _ (fun _ hx => by cases hx)
  | [e], c, gs, code, t, gs', hok, hgs, hn2, h => by
    simp only [compileBegin] at h
    simp only [okLs, Bool.and_eq_true] at hok
    exact cok_compile isFn e c gs code t gs' hok.1 hgs hn2 h
  | e :: e' :: es, c, gs, code, t, gs', hok, hgs, hn2, h => by
    simp only [compileBegin, bind_ok, pure_ok] at h
    obtain ⟨⟨a, ta⟩, gs1, h1, ⟨b, tb⟩, gs2, h2, heq⟩ := h
    simp only [okLs, Bool.and_eq_true] at hok
    have ra := cok_compile isFn e { c with tail := false } gs a ta gs1 hok.1 hgs hn2 h1
    have ea := (balL_compile isFn e { c with tail := false } gs a ta gs1 hok.1 hgs h1).2.2.ext
    have rb := cok_compileBegin isFn (e' :: es) c gs1 b tb gs2 (by simp [okLs, hok.2]) (hgs.ext ea) (Nat.le_trans hn2 ea.fns_len) h2
    have eb := (balL_compileBegin isFn (e' :: es) c gs1 b tb gs2 (by simp [okLs, hok.2]) (hgs.ext ea) h2).2.2.2.ext
    cases heq
    refine (ra.seq rb eb).recode (((ra.code.monoE eb).append ?_).append rb.code)
    cases a.isEmpty
    · exact plainN _ (plain1 _ rfl)
    · exact AllOK.nil _

theorem cok_compileArms (isFn : Nat → Bool) : ∀ (arms : List (Expr × Expr)) (c : Ctx) (gs : GS)
    (as : List (List Instr × List Instr)) (gs' : GS),
    okLArms arms = true → GSok gs → 2 ≤ gs.fns.length → compileArms isFn c arms gs = Except.ok (as, gs') →
    (∀ a ∈ as, AllOK (szOf gs') a.1 ∧ AllOK (szOf gs') a.2) ∧ FnsCOK gs gs'
  | [], c, gs, as, gs', _, _, hn2, h => by
    simp only [compileArms, pure_ok] at h; cases h
    exact ⟨fun a ha => (by cases ha), FnsCOK.refl gs⟩
  | (p, b) :: arms, c, gs, as, gs', hok, hgs, hn2, h => by
    simp only [compileArms, bind_ok, pure_ok] at h
    obtain ⟨rest, gs1, h1, ⟨pc, tp⟩, gs2, h2, ⟨bc, tb⟩, gs3, h3, heq⟩ := h
    simp only [okLArms, Bool.and_eq_true] at hok
    obtain ⟨rr, rf⟩ := cok_compileArms isFn arms c gs rest gs1 hok.2 hgs hn2 h1
    have er := (balL_compileArms isFn arms c gs rest gs1 hok.2 hgs h1).2.ext
    have hg1 := hgs.ext er
    have rp := cok_compile isFn p { c with tail := false } gs1 pc tp gs2 hok.1.1 hg1 (Nat.le_trans hn2 er.fns_len) h2
    have ep := (balL_compile isFn p { c with tail := false } gs1 pc tp gs2 hok.1.1 hg1 h2).2.2.ext
    have hg2 := hg1.ext ep
    have rb := cok_compile isFn b c gs2 bc tb gs3 hok.1.2 hg2 (Nat.le_trans hn2 (er.trans ep).fns_len) h3
    have eb := (balL_compile isFn b c gs2 bc tb gs3 hok.1.2 hg2 h3).2.2.ext
    cases heq
    refine ⟨fun a ha => ?_, FnsCOK.trans (FnsCOK.trans rf rp.fns ep) rb.fns eb⟩
    rcases List.mem_cons.mp ha with rfl | ha
    · exact ⟨rp.code.monoE eb, rb.code⟩
    · exact ⟨(rr a ha).1.monoE (ep.trans eb), (rr a ha).2.monoE (ep.trans eb)⟩

theorem cok_compileSC (isFn : Nat → Bool) : ∀ (es : List Expr) (c : Ctx) (gs : GS) (cs : List (List Instr)) (gs' : GS),
    okLs es = true → GSok gs → 2 ≤ gs.fns.length → compileSC isFn c es gs = Except.ok (cs, gs') →
    (∀ x ∈ cs, AllOK (szOf gs') x) ∧ FnsCOK gs gs'
  | [], c, gs, cs, gs', _, _, hn2, h => by
    simp only [compileSC, pure_ok] at h; cases h
    exact ⟨fun x hx => (by cases hx), FnsCOK.refl gs⟩
  | [e], c, gs, cs, gs', hok, hgs, hn2, h => by
    simp only [compileSC, bind_ok, pure_ok] at h
    obtain ⟨⟨a, ta⟩, gs1, h1, heq⟩ := h
    simp only [okLs, Bool.and_eq_true] at hok
    have ra := cok_compile isFn e c gs a ta gs1 hok.1 hgs hn2 h1
    cases heq
    exact ⟨fun x hx => (by simp at hx; subst hx; exact ra.code), ra.fns⟩
  | e :: e' :: es, c, gs, cs, gs', hok, hgs, hn2, h => by
    simp only [compileSC, bind_ok, pure_ok] at h
    obtain ⟨rest, gs1, h1, ⟨a, ta⟩, gs2, h2, heq⟩ := h
    simp only [okLs, Bool.and_eq_true] at hok
    obtain ⟨rr, rf⟩ := cok_compileSC isFn (e' :: es) c gs rest gs1 (by simp [okLs, hok.2]) hgs hn2 h1
    have er := (balL_compileSC isFn (e' :: es) c gs rest gs1 (by simp [okLs, hok.2]) hgs h1).2.ext
    have ra := cok_compile isFn e { c with tail := false } gs1 a ta gs2 hok.1 (hgs.ext er) (Nat.le_trans hn2 er.fns_len) h2
    have ea := (balL_compile isFn e { c with tail := false } gs1 a ta gs2 hok.1 (hgs.ext er) h2).2.2.ext
    cases heq
    refine ⟨fun x hx => ?_, FnsCOK.trans rf ra.fns ea⟩
    rcases List.mem_cons.mp hx with rfl | hx
    · exact ra.code
    · exact (rr x hx).monoE ea

theorem cok_compileBinds (isFn : Nat → Bool) : ∀ (bs : List (String × Expr)) (c : Ctx) (seq : Bool) (gs : GS)
    (code : List Instr) (t : Bool) (gs' : GS),
    okLBinds bs = true → GSok gs → 2 ≤ gs.fns.length → compileBinds isFn c seq bs gs = Except.ok ((code, t), gs') → COK gs gs' code
  | [], c, seq, gs, code, t, gs', _, _, hn2, h => by
    simp only [compileBinds, pure_ok] at h; cases h
    exact COK.pure gs _ (fun _ hx => by cases hx)
  | (x, e) :: bs, c, seq, gs, code, t, gs', hok, hgs, hn2, h => by
    simp only [compileBinds, bind_ok, pure_ok] at h
    obtain ⟨⟨a, ta⟩, gs1, h1, ⟨b, tb⟩, gs2, h2, heq⟩ := h
    simp only [okLBinds, Bool.and_eq_true] at hok
    have ra := cok_compile isFn e c gs a ta gs1 hok.1 hgs hn2 h1
    have ea := (balL_compile isFn e c gs a ta gs1 hok.1 hgs h1).2.2.ext
    have rb := cok_compileBinds isFn bs { c with tail := ta } seq gs1 b tb gs2 hok.2 (hgs.ext ea) (Nat.le_trans hn2 ea.fns_len) h2
    have eb : Ext gs1 gs2 := ext_compileBinds isFn bs { c with tail := ta } seq gs1 b tb gs2 hok.2 (hgs.ext ea) h2
    cases heq
    refine (ra.seq rb eb).recode (((ra.code.monoE eb).append ?_).append rb.code)
    cases seq
    · exact AllOK.nil _
    · exact plainN _ (plain1 _ rfl)

theorem ext_compileBinds (isFn : Nat → Bool) : ∀ (bs : List (String × Expr)) (c : Ctx) (seq : Bool) (gs : GS)
    (code : List Instr) (t : Bool) (gs' : GS),
    okLBinds bs = true → GSok gs → compileBinds isFn c seq bs gs = Except.ok ((code, t), gs') → Ext gs gs'
  | [], c, seq, gs, code, t, gs', _, _, h => by
    simp only [compileBinds, pure_ok] at h; cases h
    exact Ext.refl gs
  | (x, e) :: bs, c, seq, gs, code, t, gs', hok, hgs, h => by
    simp only [compileBinds, bind_ok, pure_ok] at h
    obtain ⟨⟨a, ta⟩, gs1, h1, ⟨b, tb⟩, gs2, h2, heq⟩ := h
    simp only [okLBinds, Bool.and_eq_true] at hok
    have ea := (balL_compile isFn e c gs a ta gs1 hok.1 hgs h1).2.2.ext
    have eb := ext_compileBinds isFn bs { c with tail := ta } seq gs1 b tb gs2 hok.2 (hgs.ext ea) h2
    cases heq
    exact ea.trans eb

theorem cok_compileNewScope (isFn : Nat → Bool) : ∀ (es : List Expr) (c : Ctx) (oldtail : Bool) (gs : GS)
    (code : List Instr) (t : Bool) (gs' : GS),
    okLs es = true → GSok gs → 2 ≤ gs.fns.length → compileNewScope isFn c oldtail es gs = Except.ok ((code, t), gs') → COK gs gs' code
  | [], c, oldtail, gs, code, t, gs', _, _, hn2, h => by
    simp only [compileNewScope, pure_ok] at h; cases h
    exact COK.pure gs _ (fun _ hx => by cases hx)
  | [e], c, oldtail, gs, code, t, gs', hok, hgs, hn2, h => by
    simp only [compileNewScope] at h
    simp only [okLs, Bool.and_eq_true] at hok
    exact cok_compile isFn e { c with tail := oldtail } gs code t gs' hok.1 hgs hn2 h
  | e :: e' :: es, c, oldtail, gs, code, t, gs', hok, hgs, hn2, h => by
    simp only [compileNewScope, bind_ok, pure_ok] at h
    obtain ⟨⟨a, ta⟩, gs1, h1, ⟨b, tb⟩, gs2, h2, heq⟩ := h
    simp only [okLs, Bool.and_eq_true] at hok
    have ra := cok_compile isFn e { c with tail := false } gs a ta gs1 hok.1 hgs hn2 h1
    have ea := (balL_compile isFn e { c with tail := false } gs a ta gs1 hok.1 hgs h1).2.2.ext
    have rb := cok_compileNewScope isFn (e' :: es) c oldtail gs1 b tb gs2 (by simp [okLs, hok.2]) (hgs.ext ea) (Nat.le_trans hn2 ea.fns_len) h2
    have eb := (balL_compileNewScope isFn (e' :: es) c oldtail gs1 b tb gs2 (by simp [okLs, hok.2]) (by simp) (hgs.ext ea) h2).2.2.ext
    cases heq
    exact (ra.seq rb eb).recode (((ra.code.monoE eb).append (plainN _ (plain1 _ rfl))).append rb.code)

end

end ZygoVerif.Bal
