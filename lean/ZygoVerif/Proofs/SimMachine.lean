/-
C02, execution half — Stage A: machine lemmas about the VM model (`Model/VM.lean`).

* a small toolkit to evaluate computations of the VM monad `M = ExceptT Fault (StateM St)`
  from a given state (`run_bind`, `run_get`, …);
* one equation per simple instruction (`exec_push`, `exec_pop`, `exec_dup`, `exec_jump`,
  `exec_goto`, `exec_branch`): `Instruction.Execute` as a state transformer, all cases;
* `runLoop_step`, `runLoop_step_err`, `runLoop_halt`: one turn of the `Run` loop;
* `Reach K m s s'`: "from `s` the run loop arrives at `s'` after at most `K` instructions,
  whatever the enclosing `Run` (its captured control state) and the remaining fuel `≥ m`";
  reflexive, transitive, monotone — the vocabulary of the segment lemmas.

Nothing here changes a definition of the model; every statement is about `VM.runLoop` and
`VM.exec` themselves.
-/
import ZygoVerif.Model.VM
set_option linter.unusedSimpArgs false
namespace ZygoVerif.Sim
open ZygoVerif.Core ZygoVerif.VM

/-! ## Evaluating `M` computations -/

theorem run_pure {α} (a : α) (s : St) : (pure a : M α).run s = (.ok a, s) := rfl

theorem run_bind {α β} (x : M α) (f : α → M β) (s : St) :
    (x >>= f).run s = match x.run s with
      | (.ok a, s') => (f a).run s'
      | (.error e, s') => (.error e, s') := by
  show (ExceptT.bind x f).run s = _
  unfold ExceptT.bind ExceptT.run ExceptT.mk ExceptT.bindCont
  simp only [bind, StateT.bind]
  rcases h : x s with ⟨r, s'⟩
  cases r <;> rfl

theorem run_get (s : St) : (get : M St).run s = (.ok s, s) := rfl
theorem run_set (s' s : St) : (set s' : M Unit).run s = (.ok (), s') := rfl
theorem run_modify (f : St → St) (s : St) : (modify f : M Unit).run s = (.ok (), f s) := rfl
theorem run_throw {α} (e : Fault) (s : St) : (throw e : M α).run s = (.error e, s) := rfl
theorem run_err {α} (s : St) : (err : M α).run s = (.error .err, s) := rfl
theorem run_hostPanic {α} (s : St) : (hostPanic : M α).run s = (.error .panic, s) := rfl
theorem run_ite {α} (c : Prop) [Decidable c] (a b : M α) (s : St) :
    (if c then a else b).run s = if c then a.run s else b.run s := by split <;> rfl

theorem run_pushData (v : Val) (s : St) :
    (pushData v).run s = (.ok (), { s with data := some v :: s.data }) := rfl
theorem run_incPc (s : St) : incPc.run s = (.ok (), { s with pc := s.pc + 1 }) := rfl

theorem run_popData (s : St) :
    popData.run s = match s.data with
      | [] => (.error .err, s)
      | none :: _ => (.error .panic, s)
      | some v :: rest => (.ok v, { s with data := rest }) := by
  unfold popData
  simp only [run_bind, run_get]
  rcases hd : s.data with _ | ⟨_ | v, rest⟩ <;> simp only [run_err, run_hostPanic, run_bind, run_set, run_pure]

theorem run_jumpTo (n : Int) (s : St) :
    (jumpTo n).run s = if n < 0 ∨ n > curSize s then (.error .err, s) else (.ok (), { s with pc := n }) := by
  unfold jumpTo
  simp only [run_bind, run_get, run_ite, run_err, run_set]

/-- `curSize` depends on the function table and the current function only. -/
theorem curSize_congr {s s' : St} (h1 : s'.fns = s.fns) (h2 : s'.curfunc = s.curfunc) :
    curSize s' = curSize s := by
  unfold curSize fnOf; rw [h1, h2]

/-! ## The simple instructions as state transformers -/

theorem exec_push (f : Nat) (v : Val) (s : St) :
    (exec (f + 1) (.push v)).run s = (.ok (), { s with data := some v :: s.data, pc := s.pc + 1 }) := by
  rw [exec]; rfl

theorem exec_pop (f : Nat) (s : St) :
    (exec (f + 1) .pop).run s = match s.data with
      | [] => (.ok (), { s with pc := s.pc + 1 })          -- underflow is ignored
      | none :: _ => (.error .panic, s)
      | some _ :: rest => (.ok (), { s with data := rest, pc := s.pc + 1 }) := by
  rw [exec]
  simp only [run_bind, run_get]
  rcases hd : s.data with _ | ⟨_ | v, rest⟩ <;> simp only [run_incPc, run_hostPanic, run_set, hd]

theorem exec_dup (f : Nat) (s : St) :
    (exec (f + 1) .dup).run s = match s.data with
      | [] => (.error .err, s)
      | none :: _ => (.error .panic, s)
      | some v :: _ => (.ok (), { s with data := some v :: s.data, pc := s.pc + 1 }) := by
  rw [exec]
  simp only [run_bind, run_get]
  rcases hd : s.data with _ | ⟨_ | v, rest⟩ <;>
    simp only [run_err, run_hostPanic, run_bind, run_pushData, run_incPc, hd]

theorem exec_jump (f : Nat) (off : Int) (s : St) :
    (exec (f + 1) (.jump off)).run s =
      if s.pc + off < 0 ∨ s.pc + off > curSize s then (.error .err, s)
      else (.ok (), { s with pc := s.pc + off }) := by
  rw [exec]
  simp only [run_bind, run_get, run_jumpTo]

theorem exec_goto (f : Nat) (loc : Nat) (s : St) :
    (exec (f + 1) (.goto loc)).run s =
      if (loc : Int) < 0 ∨ (loc : Int) > curSize s then (.error .err, s)
      else (.ok (), { s with pc := loc }) := by
  rw [exec, run_jumpTo]

theorem exec_branch (f : Nat) (dir : Bool) (off : Int) (s : St) :
    (exec (f + 1) (.branch dir off)).run s = match s.data with
      | [] => (.error .err, s)
      | none :: _ => (.error .panic, s)
      | some v :: rest =>
        if dir = truthy v then
          (if s.pc + off < 0 ∨ s.pc + off > curSize s then (.error .err, { s with data := rest })
           else (.ok (), { s with data := rest, pc := s.pc + off }))
        else (.ok (), { s with data := rest, pc := s.pc + 1 }) := by
  rw [exec]
  simp only [run_bind, run_popData]
  rcases hd : s.data with _ | ⟨_ | v, rest⟩
  · rfl
  · rfl
  · simp only [run_bind, run_get, run_ite, run_jumpTo, run_incPc, beq_iff_eq]
    rfl

/-! ## One turn of the `Run` loop -/

/-- The VM stands in front of instruction `i` of the current (compiled) function. -/
structure At (s : St) (pre : List Instr) (i : Instr) (post : List Instr) : Prop where
  user : (fnOf s s.curfunc).user = false
  code : (fnOf s s.curfunc).code = pre ++ i :: post
  pc : s.pc = (pre.length : Int)

theorem At.curSize {s pre i post} (h : At s pre i post) :
    curSize s = ((pre.length + 1 + post.length : Nat) : Int) := by
  unfold VM.curSize
  simp only [h.user, h.code, Bool.false_eq_true, if_false, List.length_append, List.length_cons]
  omega

theorem At.fetch {s pre i post} (h : At s pre i post) :
    (fnOf s s.curfunc).code[s.pc.toNat]? = some i := by
  rw [h.code, h.pc]
  simp

theorem At.running {s pre i post} (h : At s pre i post) : ¬ (s.pc = -1 ∨ s.pc ≥ VM.curSize s) := by
  rw [h.curSize, h.pc]; omega

/-- The instruction executes without fault: the loop goes on from the new state. -/
theorem runLoop_step {s s' : St} {pre i post} (h : At s pre i post) (fuel : Nat) (st : CtlState)
    (hx : (exec fuel i).run s = (.ok (), s')) :
    (runLoop (fuel + 1) st).run s = (runLoop fuel st).run s' := by
  rw [runLoop]
  simp only [run_bind, run_get, run_ite, if_neg h.running, h.fetch, hx, run_set]

/-- The instruction returns an error: `Run` restores the captured control state, parks the
program counter behind the current function and returns the error. -/
theorem runLoop_step_err {s s' : St} {pre i post} (h : At s pre i post) (fuel : Nat) (st : CtlState)
    (hx : (exec fuel i).run s = (.error .err, s')) :
    (runLoop (fuel + 1) st).run s =
      (.error .err, (fun s => { s with pc := VM.curSize s }) ((restore st).run s').2) := by
  rw [runLoop]
  simp only [run_bind, run_get, run_ite, if_neg h.running, h.fetch, hx, run_set, run_modify, run_throw]
  rfl

/-- A host panic or fuel exhaustion inside the instruction leaves the loop at once. -/
theorem runLoop_step_fault {s s' : St} {pre i post} (h : At s pre i post) (fuel : Nat) (st : CtlState)
    (flt : Fault) (hf : flt ≠ .err) (hx : (exec fuel i).run s = (.error flt, s')) :
    (runLoop (fuel + 1) st).run s = (.error flt, s') := by
  rw [runLoop]
  simp only [run_bind, run_get, run_ite, if_neg h.running, h.fetch, hx, run_set]
  cases flt <;> first | exact absurd rfl hf | rfl

/-- Behind the last instruction (or at `pc = -1`) the loop stops. -/
theorem runLoop_halt (s : St) (fuel : Nat) (st : CtlState) (h : s.pc = -1 ∨ s.pc ≥ VM.curSize s) :
    (runLoop (fuel + 1) st).run s = (.ok (), s) := by
  rw [runLoop]
  simp only [run_bind, run_get, run_ite, if_pos h, run_pure]

theorem runLoop_zero (s : St) (st : CtlState) : (runLoop 0 st).run s = (.error .timeout, s) := by
  rw [runLoop]; rfl

/-! ## Reachability inside one `Run` -/

/-- From `s` the run loop arrives at `s'` after at most `K` instructions, for every enclosing
`Run` (captured control state `st`) and every remaining fuel `≥ m`. -/
def Reach (K m : Nat) (s s' : St) : Prop :=
  ∃ k, k ≤ K ∧ ∀ fuel, m ≤ fuel → ∀ st, (runLoop (fuel + k) st).run s = (runLoop fuel st).run s'

theorem Reach.refl (s : St) : Reach 0 0 s s := ⟨0, Nat.le_refl _, fun _ _ _ => rfl⟩

theorem Reach.of_eq {s s' : St} (h : s = s') : Reach 0 0 s s' := h ▸ Reach.refl s

theorem Reach.mono {K m K' m' : Nat} {s s' : St} (h : Reach K m s s') (hK : K ≤ K') (hm : m ≤ m') :
    Reach K' m' s s' := by
  obtain ⟨k, hk, H⟩ := h
  exact ⟨k, Nat.le_trans hk hK, fun fuel hf st => H fuel (Nat.le_trans hm hf) st⟩

theorem Reach.trans {K₁ m₁ K₂ m₂ : Nat} {s s₁ s₂ : St} (h₁ : Reach K₁ m₁ s s₁) (h₂ : Reach K₂ m₂ s₁ s₂) :
    Reach (K₁ + K₂) (max m₁ m₂) s s₂ := by
  obtain ⟨k₁, hk₁, H₁⟩ := h₁
  obtain ⟨k₂, hk₂, H₂⟩ := h₂
  refine ⟨k₂ + k₁, by omega, fun fuel hf st => ?_⟩
  rw [← Nat.add_assoc, H₁ (fuel + k₂) (by omega) st, H₂ fuel (by omega) st]

/-- One instruction that executes without fault (for every fuel `≥ 1`). -/
theorem Reach.step {s s' : St} {pre i post} (h : At s pre i post)
    (hx : ∀ f, (exec (f + 1) i).run s = (.ok (), s')) : Reach 1 1 s s' := by
  refine ⟨1, Nat.le_refl _, fun fuel hf st => ?_⟩
  obtain ⟨f, rfl⟩ : ∃ f, fuel = f + 1 := ⟨fuel - 1, by omega⟩
  exact runLoop_step h (f + 1) st (hx f)

/-- Arrived behind the code of the current function, `Run`'s loop returns. -/
theorem Reach.finish {K m : Nat} {s s' : St} (h : Reach K m s s') (hh : s'.pc = -1 ∨ s'.pc ≥ VM.curSize s')
    (fuel : Nat) (hf : K + m + 1 ≤ fuel) (st : CtlState) :
    (runLoop fuel st).run s = (.ok (), s') := by
  obtain ⟨k, hk, H⟩ := h
  obtain ⟨f, rfl⟩ : ∃ f, fuel = (f + 1) + k := ⟨fuel - k - 1, by omega⟩
  rw [H (f + 1) (by omega) st, runLoop_halt s' f st hh]

theorem Reach.cast {K m : Nat} {s s' s'' : St} (h : Reach K m s s') (e : s' = s'') : Reach K m s s'' := e ▸ h

/-! ## States that differ in program counter and data stack only -/

/-- `s` with a new program counter and data stack (what the control fragment touches). -/
def _root_.ZygoVerif.VM.St.jmp (s : St) (pc : Int) (data : List (Option Val)) : St := { s with pc := pc, data := data }

@[simp] theorem St.jmp_pc (s : St) (p d) : (s.jmp p d).pc = p := rfl
@[simp] theorem St.jmp_data (s : St) (p d) : (s.jmp p d).data = d := rfl
@[simp] theorem St.jmp_curfunc (s : St) (p d) : (s.jmp p d).curfunc = s.curfunc := rfl
@[simp] theorem St.jmp_fns (s : St) (p d) : (s.jmp p d).fns = s.fns := rfl
@[simp] theorem St.jmp_jmp (s : St) (p d p' d') : (s.jmp p d).jmp p' d' = s.jmp p' d' := rfl
@[simp] theorem St.jmp_self (s : St) : s.jmp s.pc s.data = s := rfl
@[simp] theorem fnOf_jmp (s : St) (p d) (x : Nat) : fnOf (s.jmp p d) x = fnOf s x := rfl
@[simp] theorem curSize_jmp (s : St) (p d) : curSize (s.jmp p d) = curSize s := rfl

theorem St.jmp_congr (s : St) {p p' : Int} {d d' : List (Option Val)} (hp : p = p') (hd : d = d') :
    s.jmp p d = s.jmp p' d' := by rw [hp, hd]

/-- Moving the program counter (and changing the data stack) keeps the VM inside the same
function; what it stands in front of is determined by the new `pc`. -/
theorem At.jmp {s pre i post} (h : At s pre i post) {pre' i' post'} (p : Int) (d : List (Option Val))
    (hc : pre ++ i :: post = pre' ++ i' :: post') (hp : p = (pre'.length : Int)) :
    At (s.jmp p d) pre' i' post' :=
  ⟨h.user, by rw [fnOf_jmp, St.jmp_curfunc, h.code, hc], hp⟩

/-! ## The simple instructions as `Reach` steps -/

theorem reach_push {s pre v post} (h : At s pre (.push v) post) :
    Reach 1 1 s (s.jmp (s.pc + 1) (some v :: s.data)) :=
  Reach.step h (fun f => exec_push f v s)

theorem reach_pop {s pre post v rest} (h : At s pre .pop post) (hd : s.data = some v :: rest) :
    Reach 1 1 s (s.jmp (s.pc + 1) rest) :=
  Reach.step h (fun f => by rw [exec_pop, hd]; rfl)

theorem reach_dup {s pre post v rest} (h : At s pre .dup post) (hd : s.data = some v :: rest) :
    Reach 1 1 s (s.jmp (s.pc + 1) (some v :: s.data)) :=
  Reach.step h (fun f => by rw [exec_dup, hd]; rfl)

theorem reach_jump {s pre post off} (h : At s pre (.jump off) post)
    (h0 : 0 ≤ s.pc + off) (h1 : s.pc + off ≤ ((pre.length + 1 + post.length : Nat) : Int)) :
    Reach 1 1 s (s.jmp (s.pc + off) s.data) :=
  Reach.step h (fun f => by
    rw [exec_jump, if_neg (by rw [h.curSize]; omega)]; rfl)

theorem reach_goto {s pre post loc} (h : At s pre (.goto loc) post)
    (h1 : loc ≤ pre.length + 1 + post.length) :
    Reach 1 1 s (s.jmp loc s.data) :=
  Reach.step h (fun f => by
    rw [exec_goto, if_neg (by rw [h.curSize]; omega)]; rfl)

theorem reach_branch_taken {s pre post dir off v rest} (h : At s pre (.branch dir off) post)
    (hd : s.data = some v :: rest) (ht : dir = truthy v)
    (h0 : 0 ≤ s.pc + off) (h1 : s.pc + off ≤ ((pre.length + 1 + post.length : Nat) : Int)) :
    Reach 1 1 s (s.jmp (s.pc + off) rest) :=
  Reach.step h (fun f => by
    rw [exec_branch, hd]
    simp only [ht, if_true]
    rw [if_neg (by rw [h.curSize]; omega)]; rfl)

theorem reach_branch_fall {s pre post dir off v rest} (h : At s pre (.branch dir off) post)
    (hd : s.data = some v :: rest) (ht : dir ≠ truthy v) :
    Reach 1 1 s (s.jmp (s.pc + 1) rest) :=
  Reach.step h (fun f => by
    rw [exec_branch, hd]
    simp only [ht, if_false]; rfl)

end ZygoVerif.Sim
