/-
Lexing printed data gives the token image `toks` (the lexer half of `read (print v) = v`), by
structural induction over lists, dotted tails and arrays nested to any depth.
-/
import ZygoVerif.Proofs.ReadPrintDefs
import ZygoVerif.Proofs.LexNumbers
import ZygoVerif.Proofs.LexChar
namespace ZygoVerif.ReadPrint
open ZygoVerif ZygoVerif.Lexer ZygoVerif.PrintData

/-- what follows a printed value: white space or a closing bracket -/
def isDelim (d : Char) : Bool := isBlank d || d == ')' || d == ']'

def delimTok (d : Char) : List Token := if d == ')' then [tRP] else if d == ']' then [tRS] else []

theorem flush_nil : flush [] = [] := rfl

theorem flush_atom (b : List Char) (t : Token) (hne : b ≠ []) (hd : decodeAtom b = .ok t) : flush b = [t] := by
  have : b.isEmpty = false := by cases b <;> simp_all
  simp [flush, this, hd]

/-- the delimiter after a value ends the pending atom and, for a bracket, queues its token -/
theorem lex_delim (b : List Char) (T : List Token) (l d : Char) (hd : isDelim d = true) (hf : Flushable b) :
    Lex ⟨.normal, b, T, l⟩ [d] ⟨.normal, [], T ++ flush b ++ delimTok d, d⟩ := by
  simp only [isDelim, Bool.or_eq_true, beq_iff_eq] at hd
  rcases hd with (hd | rfl) | rfl
  · have := lex_blank b T l d hd hf
    have hne : delimTok d = [] := by
      simp only [isBlank, Bool.or_eq_true, beq_iff_eq] at hd
      rcases hd with ((rfl | rfl) | rfl) | rfl <;> rfl
    simpa [hne] using this
  · exact lex_brace b T l ')' (by decide) hf
  · exact lex_brace b T l ']' (by decide) hf

/-- a value printed as one pending atom `a` -/
theorem lex_pending_then_delim (text : List Char) (tok : Token) (T : List Token) (l d : Char)
    (hne : text ≠ []) (hdec : decodeAtom text = .ok tok)
    (hlex : Lex ⟨.normal, [], T, l⟩ text ⟨.normal, text, T, lastOf l text⟩) (hd : isDelim d = true) :
    Lex ⟨.normal, [], T, l⟩ (text ++ [d]) ⟨.normal, [], T ++ [tok] ++ delimTok d, d⟩ := by
  have h2 := lex_delim text T (lastOf l text) d hd (Or.inr ⟨tok, hdec⟩)
  rw [flush_atom text tok hne hdec] at h2
  exact Lex.trans hlex h2

/-- a value whose last rune completes its token -/
theorem lex_done_then_delim (text : List Char) (tok : Token) (T : List Token) (l l' d : Char)
    (hlex : Lex ⟨.normal, [], T, l⟩ text ⟨.normal, [], T ++ [tok], l'⟩) (hd : isDelim d = true) :
    Lex ⟨.normal, [], T, l⟩ (text ++ [d]) ⟨.normal, [], T ++ [tok] ++ delimTok d, d⟩ := by
  have h2 := lex_delim [] (T ++ [tok]) l' d hd (Or.inl rfl)
  simp only [flush_nil, List.append_nil] at h2
  exact Lex.trans hlex h2

theorem decodeAtom_true : decodeAtom "true".toList = .ok ⟨.bool, "true".toList⟩ := by rfl
theorem decodeAtom_false : decodeAtom "false".toList = .ok ⟨.bool, "false".toList⟩ := by rfl
theorem decodeAtom_backslash : decodeAtom ['\\'] = .ok tBS := by rfl

theorem plain_true : ∀ c ∈ "true".toList, isSpecial c = false := by decide
theorem plain_false : ∀ c ∈ "false".toList, isSpecial c = false := by decide

/-- every atom of the domain, followed by a delimiter, is lexed to its token -/
theorem lex_atom (ff : FloatFmt) (hlaw : FloatLaw ff) (a : Sexp) (h : okAtom a = true) (T : List Token) (l d : Char)
    (hl : canStartSignedNumberAfter l = true) (hd : isDelim d = true) :
    Lex ⟨.normal, [], T, l⟩ (printAtom ff a ++ [d]) ⟨.normal, [], T ++ [atomTok ff a] ++ delimTok d, d⟩ := by
  cases a with
  | uint v =>
    have hne : natDec v ++ "ULL".toList ≠ [] := by simp
    have hlex := lex_plain_run (natDec v ++ "ULL".toList) (natDec_ULL_plain v) [] T l
    exact lex_pending_then_delim (natDec v ++ "ULL".toList) _ T l d hne (decodeAtom_uint v)
      (by simpa [lastOf] using hlex) hd
  | float b sci =>
    simp only [okAtom] at h
    obtain ⟨p, hv, hpr, _, _⟩ := hlaw b sci h
    have hne : p.render ≠ [] := by
      obtain ⟨hipne, _⟩ := hv.ip
      intro hr
      have : p.body = [] := by
        have := p.render_eq; rw [hr] at this
        cases hneg : p.neg <;> simp [hneg] at this
        exact this
      rw [p.body_eq] at this
      simp at this
      exact hipne this.1
    show Lex _ (printFloat ff b sci ++ [d]) ⟨_, _, T ++ [⟨.float, printFloat ff b sci⟩] ++ delimTok d, d⟩
    rw [hpr]
    exact lex_pending_then_delim p.render _ T l d hne (decodeAtom_floatParts p hv) (lex_floatParts p hv T l hl) hd
  | int v =>
    have hne : itoa v ≠ [] := by
      unfold itoa; split
      · simp
      · exact natDec_ne_nil _
    exact lex_pending_then_delim (itoa v) _ T l d hne (decodeAtom_itoa v) (lex_itoa v T l hl) hd
  | char v =>
    simp only [okAtom] at h
    exact lex_done_then_delim _ _ T l '\'' d (lex_char v (by simpa using h) T l) hd
  | str s raw =>
    simp only [okAtom, Bool.not_eq_true'] at h
    subst h
    exact lex_done_then_delim _ _ T l '"' d (lex_string s T l) hd
  | bool b =>
    cases b
    · have := lex_plain_run "false".toList plain_false [] T l
      exact lex_pending_then_delim "false".toList _ T l d (by decide) decodeAtom_false (by simpa [lastOf] using this) hd
    · have := lex_plain_run "true".toList plain_true [] T l
      exact lex_pending_then_delim "true".toList _ T l d (by decide) decodeAtom_true (by simpa [lastOf] using this) hd
  | sym n ct dot =>
    simp only [okAtom, Bool.and_eq_true, Bool.not_eq_true'] at h
    have hs := h.2
    simp only [symOK, Bool.and_eq_true, Bool.not_eq_true', List.all_eq_true] at hs
    obtain ⟨⟨h1, h2⟩, h3⟩ := hs
    have hne : n ≠ [] := by intro hn; rw [hn] at h1; simp at h1
    have hdec : decodeAtom n = .ok ⟨.symbol, n⟩ := by
      cases hdd : decodeAtom n with
      | ok t => rw [hdd] at h3; have : t = ⟨.symbol, n⟩ := by simpa using h3
                rw [this]
      | error e => rw [hdd] at h3; cases h3
    have := lex_plain_run n (fun c hc => by simpa using h2 c hc) [] T l
    exact lex_pending_then_delim n _ T l d hne hdec (by simpa [lastOf] using this) hd
  | _ => simp [okAtom] at h

end ZygoVerif.ReadPrint

namespace ZygoVerif.ReadPrint
open ZygoVerif ZygoVerif.Lexer ZygoVerif.PrintData

theorem canStart_space : canStartSignedNumberAfter ' ' = true := by decide
theorem canStart_lparen : canStartSignedNumberAfter '(' = true := by decide
theorem canStart_lsquare : canStartSignedNumberAfter '[' = true := by decide
theorem isDelim_space : isDelim ' ' = true := by decide
theorem isDelim_rparen : isDelim ')' = true := by decide
theorem isDelim_rsquare : isDelim ']' = true := by decide
theorem delimTok_space : delimTok ' ' = [] := rfl
theorem delimTok_rparen : delimTok ')' = [tRP] := rfl
theorem delimTok_rsquare : delimTok ']' = [tRS] := rfl

/-- the statement for a value followed by a delimiter -/
def LexV (ff : FloatFmt) (v : Sexp) : Prop :=
  ∀ (T : List Token) (l d : Char), canStartSignedNumberAfter l = true → isDelim d = true →
    Lex ⟨.normal, [], T, l⟩ (printSexp ff v ++ [d]) ⟨.normal, [], T ++ toks ff v ++ delimTok d, d⟩

/-- the statement for the rest of a list: its first rune `δ` is the delimiter of the element
before it -/
def LexRest (ff : FloatFmt) (t : Sexp) : Prop :=
  ∀ (T : List Token) (d : Char), isDelim d = true →
    ∃ δ r, printRest ff t = δ :: r ∧ isDelim δ = true ∧
      Lex ⟨.normal, [], T ++ delimTok δ, δ⟩ (r ++ [d]) ⟨.normal, [], T ++ toksRest ff t ++ delimTok d, d⟩

def LexElems (ff : FloatFmt) (es : List Sexp) : Prop :=
  ∀ (T : List Token) (l : Char), canStartSignedNumberAfter l = true →
    Lex ⟨.normal, [], T, l⟩ (printElems ff es ++ [']']) ⟨.normal, [], T ++ toksElems ff es ++ [tRS], ']'⟩

theorem lexV_atom (ff : FloatFmt) (hlaw : FloatLaw ff) (a : Sexp) (h : okAtom a = true) (hp : printSexp ff a = printAtom ff a)
    (ht : toks ff a = [atomTok ff a]) : LexV ff a := by
  intro T l d hl hd
  rw [hp, ht]
  exact lex_atom ff hlaw a h T l d hl hd

/-- an array value from its elements -/
theorem lexV_array (ff : FloatFmt) (es : List Sexp) (h : LexElems ff es) : LexV ff (.array es false) := by
  intro T l d hl hd
  have h1 := lex_brace [] T l '[' (by decide) (Or.inl rfl)
  simp only [flush_nil, List.append_nil] at h1
  have h2 := h (T ++ [braceTok '[']) '[' canStart_lsquare
  have h3 := lex_delim [] (T ++ [braceTok '['] ++ toksElems ff es ++ [tRS]) ']' d hd (Or.inl rfl)
  simp only [flush_nil, List.append_nil] at h3
  have := Lex.trans (Lex.cons h1 h2) h3
  have e1 : printSexp ff (.array es false) ++ [d] = ('[' :: (printElems ff es ++ [']'])) ++ [d] := by
    simp [printSexp, openBr, closeBr]
  rw [e1]
  have e2 : T ++ toks ff (.array es false) ++ delimTok d = T ++ [braceTok '['] ++ toksElems ff es ++ [tRS] ++ delimTok d := by
    simp [toks, tLS, braceTok]
  rw [e2]
  exact this

/-- the dotted end of a list: ` \ x)` -/
theorem lexRest_dotted (ff : FloatFmt) (x : Sexp) (hx : LexV ff x) (hpr : printRest ff x = " \\ ".toList ++ printSexp ff x ++ [')'])
    (htk : toksRest ff x = tBS :: (toks ff x ++ [tRP])) : LexRest ff x := by
  intro T d hd
  refine ⟨' ', '\\' :: ' ' :: (printSexp ff x ++ [')']), by rw [hpr]; rfl, isDelim_space, ?_⟩
  rw [delimTok_space, List.append_nil]
  have h1 := lex_plain [] T ' ' '\\' (by decide)
  have h2 := lex_blank ['\\'] T '\\' ' ' (by decide) (Or.inr ⟨tBS, decodeAtom_backslash⟩)
  rw [flush_atom ['\\'] tBS (by simp) decodeAtom_backslash] at h2
  have h3 := hx (T ++ [tBS]) ' ' ')' canStart_space isDelim_rparen
  rw [delimTok_rparen] at h3
  have h4 := lex_delim [] (T ++ [tBS] ++ toks ff x ++ [tRP]) ')' d hd (Or.inl rfl)
  simp only [flush_nil, List.append_nil] at h4
  have := Lex.cons h1 (Lex.cons h2 (Lex.trans h3 h4))
  have e2 : T ++ toksRest ff x ++ delimTok d = T ++ [tBS] ++ toks ff x ++ [tRP] ++ delimTok d := by
    rw [htk]; simp
  rw [e2]
  simpa using this

mutual
theorem lexV (ff : FloatFmt) (hlaw : FloatLaw ff) : (v : Sexp) → okV v = true → LexV ff v
  | .pair h t, hv => by
    simp only [okV, Bool.and_eq_true] at hv
    intro T l d hl hd
    obtain ⟨δ, r, hpr, hδ, hrest⟩ := lexRest ff hlaw t hv.2 (T ++ [tLP] ++ toks ff h) d hd
    have h1 := lex_brace [] T l '(' (by decide) (Or.inl rfl)
    simp only [flush_nil, List.append_nil] at h1
    have h2 := lexV ff hlaw h hv.1 (T ++ [braceTok '(']) '(' δ canStart_lparen hδ
    have := Lex.cons h1 (Lex.trans h2 hrest)
    have e1 : printSexp ff (.pair h t) ++ [d] = '(' :: ((printSexp ff h ++ [δ]) ++ (r ++ [d])) := by
      simp [printSexp, hpr]
    rw [e1]
    have e2 : T ++ toks ff (.pair h t) ++ delimTok d = T ++ [tLP] ++ toks ff h ++ toksRest ff t ++ delimTok d := by
      simp [toks]
    rw [e2]
    exact this
  | .array es inf, hv => by
    simp only [okV, Bool.and_eq_true, Bool.not_eq_true'] at hv
    obtain ⟨rfl, hes⟩ := hv
    exact lexV_array ff es (lexElems ff hlaw es hes)
  | .int v, hv => lexV_atom ff hlaw _ hv (by simp [printSexp]) (by simp [toks])
  | .char v, hv => lexV_atom ff hlaw _ hv (by simp [printSexp]) (by simp [toks])
  | .str s raw, hv => lexV_atom ff hlaw _ hv (by simp [printSexp]) (by simp [toks])
  | .sym n a b, hv => lexV_atom ff hlaw _ hv (by simp [printSexp]) (by simp [toks])
  | .bool b, hv => lexV_atom ff hlaw _ hv (by simp [printSexp]) (by simp [toks])
  | .uint v, hv => lexV_atom ff hlaw _ hv (by simp [printSexp]) (by simp [toks])
  | .float b s, hv => lexV_atom ff hlaw _ hv (by simp [printSexp]) (by simp [toks])
  | .comment _ _, hv => by simp [okV] at hv
  | .comma, hv => by simp [okV] at hv
  | .semicolon, hv => by simp [okV] at hv
  | .null, hv => by simp [okV] at hv
  | .endS, hv => by simp [okV] at hv
  | .emptyHash, hv => by simp [okV] at hv
theorem lexRest (ff : FloatFmt) (hlaw : FloatLaw ff) : (t : Sexp) → okTail t = true → LexRest ff t
  | .pair h2 t2, ht => by
    simp only [okTail, Bool.and_eq_true] at ht
    intro T d hd
    obtain ⟨δ, r, hpr, hδ, hrest⟩ := lexRest ff hlaw t2 ht.2 (T ++ toks ff h2) d hd
    refine ⟨' ', printSexp ff h2 ++ printRest ff t2, by simp [printRest], isDelim_space, ?_⟩
    rw [delimTok_space, List.append_nil]
    have hv2 := lexV ff hlaw h2 ht.1 T ' ' δ canStart_space hδ
    have := Lex.trans hv2 hrest
    have e1 : (printSexp ff h2 ++ printRest ff t2) ++ [d] = (printSexp ff h2 ++ [δ]) ++ (r ++ [d]) := by
      rw [hpr]; simp
    rw [e1]
    have e2 : T ++ toksRest ff (.pair h2 t2) ++ delimTok d = T ++ toks ff h2 ++ toksRest ff t2 ++ delimTok d := by
      simp [toksRest]
    rw [e2]
    exact this
  | .null, _ => by
    intro T d hd
    refine ⟨')', [], by simp [printRest], isDelim_rparen, ?_⟩
    have := lex_delim [] (T ++ delimTok ')') ')' d hd (Or.inl rfl)
    simpa [toksRest, delimTok_rparen, flush_nil] using this
  | .array es inf, ht => by
    simp only [okTail, Bool.and_eq_true, Bool.not_eq_true'] at ht
    obtain ⟨rfl, hes⟩ := ht
    exact lexRest_dotted ff (.array es false) (lexV_array ff es (lexElems ff hlaw es hes))
      (by simp [printRest, printSexp]) (by simp [toksRest, toks])
  | .int v, ht => lexRest_dotted ff _ (lexV_atom ff hlaw _ ht (by simp [printSexp]) (by simp [toks]))
      (by simp [printRest, printSexp]) (by simp [toksRest, toks])
  | .char v, ht => lexRest_dotted ff _ (lexV_atom ff hlaw _ ht (by simp [printSexp]) (by simp [toks]))
      (by simp [printRest, printSexp]) (by simp [toksRest, toks])
  | .str s raw, ht => lexRest_dotted ff _ (lexV_atom ff hlaw _ ht (by simp [printSexp]) (by simp [toks]))
      (by simp [printRest, printSexp]) (by simp [toksRest, toks])
  | .sym n a b, ht => lexRest_dotted ff _ (lexV_atom ff hlaw _ ht (by simp [printSexp]) (by simp [toks]))
      (by simp [printRest, printSexp]) (by simp [toksRest, toks])
  | .bool b, ht => lexRest_dotted ff _ (lexV_atom ff hlaw _ ht (by simp [printSexp]) (by simp [toks]))
      (by simp [printRest, printSexp]) (by simp [toksRest, toks])
  | .uint v, ht => lexRest_dotted ff _ (lexV_atom ff hlaw _ ht (by simp [printSexp]) (by simp [toks]))
      (by simp [printRest, printSexp]) (by simp [toksRest, toks])
  | .float b s, ht => lexRest_dotted ff _ (lexV_atom ff hlaw _ ht (by simp [printSexp]) (by simp [toks]))
      (by simp [printRest, printSexp]) (by simp [toksRest, toks])
  | .comment _ _, ht => by simp [okTail] at ht
  | .comma, ht => by simp [okTail] at ht
  | .semicolon, ht => by simp [okTail] at ht
  | .endS, ht => by simp [okTail] at ht
  | .emptyHash, ht => by simp [okTail] at ht
theorem lexElems (ff : FloatFmt) (hlaw : FloatLaw ff) : (es : List Sexp) → okList es = true → LexElems ff es
  | [], _ => by
    intro T l _
    have := lex_delim [] T l ']' isDelim_rsquare (Or.inl rfl)
    simpa [printElems, toksElems, delimTok_rsquare, flush_nil] using this
  | [a], hes => by
    simp only [okList, Bool.and_eq_true] at hes
    intro T l hl
    have := lexV ff hlaw a hes.1 T l ']' hl isDelim_rsquare
    simpa [printElems, toksElems, delimTok_rsquare] using this
  | a :: b :: r, hes => by
    simp only [okList, Bool.and_eq_true] at hes
    intro T l hl
    have h1 := lexV ff hlaw a hes.1 T l ' ' hl isDelim_space
    rw [delimTok_space, List.append_nil] at h1
    have h2 := lexElems ff hlaw (b :: r) (by simp [okList, hes.2.1, hes.2.2]) (T ++ toks ff a) ' ' canStart_space
    have := Lex.trans h1 h2
    have e1 : printElems ff (a :: b :: r) ++ [']'] = (printSexp ff a ++ [' ']) ++ (printElems ff (b :: r) ++ [']']) := by
      simp [printElems]
    rw [e1]
    have e2 : T ++ toksElems ff (a :: b :: r) ++ [tRS] = T ++ toks ff a ++ toksElems ff (b :: r) ++ [tRS] := by
      simp [toksElems]
    rw [e2]
    exact this
end

end ZygoVerif.ReadPrint
