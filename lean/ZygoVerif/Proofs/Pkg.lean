/-
Lemmas for Props/C18.lean: the path walkers of `Model/Pkg.lean` against
`Spec/Visibility.lean`, by functional induction on `walk` (one case per arm of the two Go
loops, the hand-overs being the recursive calls).
-/
import ZygoVerif.Model.Pkg
import ZygoVerif.Spec.Visibility
namespace ZygoVerif.Pkg
open ZygoVerif.Visibility

/-- The container a walker stands in, as the value the specification talks about. -/
def curVal : Cur → Val
  | .stack pn sc => .pkg pn sc
  | .hash id _ => .hash id

def curVia : Cur → Bool
  | .stack _ _ => true
  | .hash _ via => via

theorem errIfPrivate_ok_iff (nm : Name) (a : Unit) : errIfPrivate nm = .ok a ↔ capitalised nm = true := by
  cases nm with
  | nil => simp [errIfPrivate, capitalised]
  | cons c cs =>
    simp only [errIfPrivate, capitalised]
    split <;> simp_all

theorem errIfPrivate_err (nm : Name) (e : Err) : errIfPrivate nm = .error e → capitalised nm = false := by
  cases nm with
  | nil => simp [errIfPrivate, capitalised]
  | cons c cs =>
    simp only [errIfPrivate, capitalised]
    split <;> simp_all

theorem readable_nil (h : Heap) (c : Val) (via : Bool) : readable h c via [] = some c := by
  cases c <;> simp [readable, resolve]

theorem readable_pkg_cons (h : Heap) (pn : Name) (sc : List Nat) (via : Bool) (nm : Name) (rest : List Name) :
    readable h (.pkg pn sc) via (nm :: rest) =
      match lookupStack h nm sc with
      | none => none
      | some (v, _) =>
        if hopVisible { inPkg := true, via := true, name := nm, target := v } then readable h v true rest else none := by
  simp only [readable, resolve]
  cases lookupStack h nm sc with
  | none => rfl
  | some p =>
    obtain ⟨v, sid⟩ := p
    simp only []
    cases resolve h v true rest with
    | none => simp
    | some r =>
      obtain ⟨hs, r1, r2⟩ := r
      simp only [List.all_cons]
      by_cases hv : hopVisible { inPkg := true, via := true, name := nm, target := v } = true <;> simp [hv]

theorem readable_pkg_via (h : Heap) (pn : Name) (sc : List Nat) (via : Bool) (p : List Name) :
    readable h (.pkg pn sc) via p = readable h (.pkg pn sc) true p := by
  cases p with
  | nil => simp [readable_nil]
  | cons nm rest => simp [readable_pkg_cons]

theorem readable_hash_cons (h : Heap) (id : Nat) (via : Bool) (nm : Name) (rest : List Name) :
    readable h (.hash id) via (nm :: rest) =
      match assocGet nm (h.hashObj id) with
      | none => none
      | some v =>
        if hopVisible { inPkg := false, via := via, name := nm, target := v } then readable h v via rest else none := by
  simp only [readable, resolve]
  cases assocGet nm (h.hashObj id) with
  | none => rfl
  | some v =>
    simp only []
    cases resolve h v via rest with
    | none => simp
    | some r =>
      obtain ⟨hs, r1, r2⟩ := r
      simp only [List.all_cons]
      by_cases hv : hopVisible { inPkg := false, via := via, name := nm, target := v } = true <;> simp [hv]

theorem readable_other_cons (h : Heap) (c : Val) (via : Bool) (nm : Name) (rest : List Name)
    (h1 : ∀ pn sc, c ≠ .pkg pn sc) (h2 : ∀ id, c ≠ .hash id) :
    readable h c via (nm :: rest) = none := by
  cases c <;> simp_all [readable, resolve]

theorem walk_get_iff (h : Heap) (cur : Cur) (path : List Name) (v : Val) (h' : Heap) (hne : path ≠ []) :
      walk h none cur path = .ok (v, h') ↔
        (h' = h ∧ readable h (curVal cur) (curVia cur) path = some v) := by
  fun_induction walk h none cur path
  all_goals (try simp_all [curVal, curVia, readable_nil, readable_pkg_cons, readable_hash_cons, hopVisible, isPkg, errIfPrivate_ok_iff])
  all_goals (try grind [errIfPrivate_err, readable_other_cons])
  done

theorem assignable_last (h : Heap) (c : Val) (via : Bool) (last : Name) :
    assignable h c via [last] =
      match c with
      | .pkg _ sc => (lookupStack h last sc).isSome && capitalised last
      | .hash _ => !via || capitalised last
      | _ => false := by
  cases c <;> simp [assignable, resolve]

theorem assignable_pkg_cons (h : Heap) (pn : Name) (sc : List Nat) (via : Bool) (nm nxt : Name) (more : List Name) :
    assignable h (.pkg pn sc) via (nm :: nxt :: more) =
      match lookupStack h nm sc with
      | none => false
      | some (v, _) =>
        hopVisible { inPkg := true, via := true, name := nm, target := v } && assignable h v true (nxt :: more) := by
  simp only [assignable, List.getLast?_cons_cons, List.dropLast_cons_cons, resolve]
  cases (nxt :: more).getLast? with
  | none => cases lookupStack h nm sc <;> simp
  | some last =>
    cases lookupStack h nm sc with
    | none => rfl
    | some p =>
      obtain ⟨v, sid⟩ := p
      simp only []
      cases resolve h v true (nxt :: more).dropLast with
      | none => simp
      | some r =>
        obtain ⟨hs, r1, r2⟩ := r
        simp only [List.all_cons, Bool.and_assoc]

theorem assignable_hash_cons (h : Heap) (id : Nat) (via : Bool) (nm nxt : Name) (more : List Name) :
    assignable h (.hash id) via (nm :: nxt :: more) =
      match assocGet nm (h.hashObj id) with
      | none => false
      | some v =>
        hopVisible { inPkg := false, via := via, name := nm, target := v } && assignable h v via (nxt :: more) := by
  simp only [assignable, List.getLast?_cons_cons, List.dropLast_cons_cons, resolve]
  cases (nxt :: more).getLast? with
  | none => cases assocGet nm (h.hashObj id) <;> simp
  | some last =>
    cases assocGet nm (h.hashObj id) with
    | none => rfl
    | some v =>
      simp only []
      cases resolve h v via (nxt :: more).dropLast with
      | none => simp
      | some r =>
        obtain ⟨hs, r1, r2⟩ := r
        simp only [List.all_cons, Bool.and_assoc]

theorem assignable_other_cons (h : Heap) (c : Val) (via : Bool) (nm nxt : Name) (more : List Name)
    (h1 : ∀ pn sc, c ≠ .pkg pn sc) (h2 : ∀ id, c ≠ .hash id) :
    assignable h c via (nm :: nxt :: more) = false := by
  cases c <;> simp_all [assignable, resolve]
  all_goals (cases (nxt :: more).getLast? <;> rfl)

theorem assignable_nil (h : Heap) (c : Val) (via : Bool) : assignable h c via [] = false := by
  simp [assignable]

theorem assignable_pkg_via (h : Heap) (pn : Name) (sc : List Nat) (via : Bool) (p : List Name) :
    assignable h (.pkg pn sc) via p = assignable h (.pkg pn sc) true p := by
  match p with
  | [] => simp [assignable_nil]
  | [last] => simp [assignable_last]
  | nm :: nxt :: more => simp [assignable_pkg_cons]

theorem assignable_pkg_notfound (h : Heap) (pn : Name) (sc : List Nat) (via : Bool) (nm : Name) (rest : List Name)
    (hl : lookupStack h nm sc = none) : assignable h (.pkg pn sc) via (nm :: rest) = false := by
  cases rest with
  | nil => simp [assignable_last, hl]
  | cons nxt more => simp [assignable_pkg_cons, hl]

theorem assignable_hash_private (h : Heap) (id : Nat) (nm : Name) (rest : List Name)
    (hc : capitalised nm = false) : assignable h (.hash id) true (nm :: rest) = false := by
  cases rest with
  | nil => simp [assignable_last, hc]
  | cons nxt more =>
    simp only [assignable_hash_cons]
    cases assocGet nm (h.hashObj id) <;> simp [hopVisible, hc]

theorem assignable_other (h : Heap) (c : Val) (via : Bool) (nm : Name) (rest : List Name)
    (h1 : ∀ pn sc, c ≠ .pkg pn sc) (h2 : ∀ id, c ≠ .hash id) :
    assignable h c via (nm :: rest) = false := by
  cases rest with
  | nil => cases c <;> simp_all [assignable_last]
  | cons nxt more => exact assignable_other_cons h c via nm nxt more h1 h2

theorem walk_set_iff (h : Heap) (x : Val) (cur : Cur) (path : List Name) (hne : path ≠ []) :
      (∃ y h', walk h (some x) cur path = .ok (y, h')) ↔
        assignable h (curVal cur) (curVia cur) path = true := by
  fun_induction walk h (some x) cur path
  all_goals (try simp_all [curVal, curVia, assignable_last, assignable_pkg_cons, assignable_hash_cons, hopVisible, isPkg, errIfPrivate_ok_iff, assignable_pkg_notfound])
  all_goals (try grind [errIfPrivate_err, assignable_hash_private, assignable_pkg_via])
  all_goals (intro _; apply assignable_other <;> assumption)
  done

theorem walk_set_value (h : Heap) (x : Val) (cur : Cur) (path : List Name) (y : Val) (h' : Heap) :
      walk h (some x) cur path = .ok (y, h') → y = x := by
  fun_induction walk h (some x) cur path
  all_goals (try simp_all)
  all_goals (try grind)
  done
end ZygoVerif.Pkg
