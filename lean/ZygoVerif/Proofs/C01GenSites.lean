/-
Lemmas for Props/C01: the index-trace models of the generator prologues
(`Model/GenSites.lean`) never reach a panic, whatever the argument list is, as long as the
recursive `Generate` calls (`sub`) do not.
-/
import ZygoVerif.Model.GenSites
namespace ZygoVerif.GenSites

/-- the outcome is a value or an error, not a panic -/
def NoPanic {α} (m : P α) : Prop := m ≠ .error .panic

theorem np_pure {α} (a : α) : NoPanic (pure a : P α) := by
  intro h; cases h

theorem np_err {α} : NoPanic (err : P α) := by
  intro h; cases h

theorem np_bind {α β} {m : P α} {f : α → P β} (hm : NoPanic m)
    (hf : ∀ a, m = .ok a → NoPanic (f a)) : NoPanic (m >>= f) := by
  cases m with
  | error e =>
    cases e with
    | err => intro h; cases h
    | panic => exact absurd rfl hm
  | ok a => exact hf a rfl

theorem np_guard {c : Prop} [Decidable c] : NoPanic (failIf c) := by
  unfold failIf
  split
  · intro h; cases h
  · exact np_pure _

theorem guard_ok {c : Prop} [Decidable c] {u : PUnit} (h : failIf c = .ok u) : ¬ c := by
  intro hc
  unfold failIf at h
  rw [if_pos hc] at h
  cases h

theorem idx_np {α} (l : List α) (i : Int) (h0 : 0 ≤ i) (h1 : i < l.length) : NoPanic (idx l i) := by
  unfold idx
  have : i.toNat < l.length := by omega
  simp only [h0, if_true]
  rw [List.getElem?_eq_getElem this]
  exact np_pure _

theorem sliceFrom_np {α} (l : List α) (i : Int) (h0 : 0 ≤ i) (h1 : i ≤ l.length) : NoPanic (sliceFrom l i) := by
  unfold sliceFrom
  simp only [h0, h1, and_self, if_true]
  exact np_pure _

theorem sliceTo_np {α} (l : List α) (j : Int) (h0 : 0 ≤ j) (h1 : j ≤ l.length) : NoPanic (sliceTo l j) := by
  unfold sliceTo
  simp only [h0, h1, and_self, if_true]
  exact np_pure _

theorem slice_np {α} (l : List α) (i j : Int) (h0 : 0 ≤ i) (h1 : i ≤ j) (h2 : j ≤ l.length) : NoPanic (slice l i j) := by
  unfold slice
  simp only [h0, h1, h2, and_self, if_true]
  exact np_pure _

variable {sub : Arg → P Unit}

theorem each_np (hs : ∀ a, NoPanic (sub a)) : ∀ l, NoPanic (each sub l)
  | [] => np_pure _
  | a :: as => np_bind (hs a) (fun _ _ => each_np hs as)

theorem genBegin_np (hs : ∀ a, NoPanic (sub a)) (args : List Arg) : NoPanic (genBegin sub args) := by
  unfold genBegin
  simp only
  split
  · exact np_pure _
  · rename_i hne
    have hpos : (0 : Int) < args.length := by omega
    refine np_bind (sliceTo_np _ _ (by omega) (by omega)) (fun front _ => ?_)
    refine np_bind (each_np hs _) (fun _ _ => ?_)
    refine np_bind (idx_np _ _ (by omega) (by omega)) (fun last _ => hs last)

theorem scArms_np (hs : ∀ a, NoPanic (sub a)) (args : List Arg) :
    ∀ k, k ≤ args.length → NoPanic (scArms sub args k)
  | 0, _ => np_pure _
  | k + 1, h => by
    unfold scArms
    refine np_bind (idx_np _ _ (by omega) (by omega)) (fun a _ => ?_)
    exact np_bind (hs a) (fun _ _ => scArms_np hs args k (by omega))

theorem genShortCircuit_np (hs : ∀ a, NoPanic (sub a)) (args : List Arg) :
    NoPanic (genShortCircuit sub args) := by
  unfold genShortCircuit
  simp only
  split
  · exact np_pure _
  · refine np_bind (idx_np _ _ (by omega) (by omega)) (fun last _ => ?_)
    exact np_bind (hs last) (fun _ _ => scArms_np hs args _ (by omega))

theorem condArms_np (hs : ∀ a, NoPanic (sub a)) (args : List Arg) :
    ∀ k, 2 * k < args.length → NoPanic (condArms sub args k)
  | 0, _ => np_pure _
  | k + 1, h => by
    unfold condArms
    refine np_bind (idx_np _ _ (by omega) (by omega)) (fun p _ => ?_)
    refine np_bind (hs p) (fun _ _ => ?_)
    refine np_bind (idx_np _ _ (by omega) (by omega)) (fun b _ => ?_)
    exact np_bind (hs b) (fun _ _ => condArms_np hs args k (by omega))

theorem genCond_np (hs : ∀ a, NoPanic (sub a)) (args : List Arg) : NoPanic (genCond sub args) := by
  unfold genCond
  split
  · exact np_err
  · rename_i hodd
    refine np_bind (idx_np _ _ (by omega) (by omega)) (fun d _ => ?_)
    exact np_bind (hs d) (fun _ _ => condArms_np hs args _ (by omega))

theorem buildSexpFun_np (hs : ∀ a, NoPanic (sub a)) (formals body : List Arg) :
    NoPanic (buildSexpFun sub formals body) := by
  unfold buildSexpFun
  refine np_bind ?_ (fun _ _ => ?_)
  · exact np_guard
  refine np_bind ?_ (fun _ _ => genBegin_np hs body)
  split
  · rename_i hge
    refine np_bind (idx_np _ _ (by omega) (by omega)) (fun amp _ => ?_)
    split
    · refine np_bind (idx_np _ _ (by omega) (by omega)) (fun _ _ => ?_)
      exact np_bind (slice_np _ _ _ (by omega) (by omega) (by omega)) (fun _ _ => np_pure _)
    · exact np_pure _
  · exact np_pure _

theorem genFn_np (hs : ∀ a, NoPanic (sub a)) (args : List Arg) : NoPanic (genFn sub args) := by
  unfold genFn
  refine np_bind ?_ (fun _ hg => ?_)
  · exact np_guard
  have hlen := guard_ok hg
  refine np_bind (idx_np _ _ (by omega) (by omega)) (fun a0 _ => ?_)
  split
  · refine np_bind (sliceFrom_np _ _ (by omega) (by omega)) (fun body _ => ?_)
    exact buildSexpFun_np hs _ _
  · exact np_err

theorem genDefn_np (hs : ∀ a, NoPanic (sub a)) (nameOk : String → Bool) (args : List Arg) :
    NoPanic (genDefn sub nameOk args) := by
  unfold genDefn
  refine np_bind ?_ (fun _ hg => ?_)
  · exact np_guard
  have hlen := guard_ok hg
  refine np_bind (idx_np _ _ (by omega) (by omega)) (fun a1 _ => ?_)
  split
  · refine np_bind (idx_np _ _ (by omega) (by omega)) (fun a0 _ => ?_)
    split
    · refine np_bind np_guard (fun _ _ => ?_)
      refine np_bind (sliceFrom_np _ _ (by omega) (by omega)) (fun body _ => ?_)
      exact buildSexpFun_np hs _ _
    · exact np_err
  · exact np_err

theorem genDef_np (hs : ∀ a, NoPanic (sub a)) (lhsOk : String → Bool) (args : List Arg) :
    NoPanic (genDef sub lhsOk args) := by
  unfold genDef
  refine np_bind ?_ (fun _ hg => ?_)
  · exact np_guard
  have hlen := guard_ok hg
  have h2 : (args.length : Int) = 2 := by
    by_cases h : (args.length : Int) = 2
    · exact h
    · exact absurd h hlen
  refine np_bind (idx_np _ _ (by omega) (by omega)) (fun a0 _ => ?_)
  refine np_bind ?_ (fun _ _ => ?_)
  · split
    · refine np_bind (idx_np _ _ (by omega) (by omega)) (fun a _ => hs a)
    · refine np_bind (idx_np _ _ (by omega) (by omega)) (fun a _ => ?_)
      split
      · split
        · exact np_pure _
        · exact np_err
      · exact np_err
  · exact np_bind (idx_np _ _ (by omega) (by omega)) (fun a _ => hs a)

theorem mdefTargets_np (args : List Arg) : ∀ k i, i + k ≤ args.length → NoPanic (mdefTargets args k i)
  | 0, _, _ => np_pure _
  | k + 1, i, h => by
    unfold mdefTargets
    refine np_bind (idx_np _ _ (by omega) (by omega)) (fun a _ => ?_)
    split
    · exact mdefTargets_np args k (i + 1) (by omega)
    · exact mdefTargets_np args k (i + 1) (by omega)
    · exact np_err

theorem genMultiDef_np (hs : ∀ a, NoPanic (sub a)) (args : List Arg) : NoPanic (genMultiDef sub args) := by
  unfold genMultiDef
  refine np_bind ?_ (fun _ hg => ?_)
  · exact np_guard
  have hlen := guard_ok hg
  refine np_bind (mdefTargets_np args _ 0 (by omega)) (fun _ _ => ?_)
  exact np_bind (idx_np _ _ (by omega) (by omega)) (fun a _ => hs a)

theorem letBinds_np (bs : List Arg) : ∀ k i, 2 * (i + k) ≤ bs.length → NoPanic (letBinds bs k i)
  | 0, _, _ => np_pure _
  | k + 1, i, h => by
    unfold letBinds
    refine np_bind (idx_np _ _ (by omega) (by omega)) (fun l _ => ?_)
    refine np_bind ?_ (fun _ _ => ?_)
    · exact np_guard
    refine np_bind (idx_np _ _ (by omega) (by omega)) (fun r _ => ?_)
    exact np_bind (letBinds_np bs k (i + 1) (by omega)) (fun _ _ => np_pure _)

theorem genLet_np (hs : ∀ a, NoPanic (sub a)) (args : List Arg) : NoPanic (genLet sub args) := by
  unfold genLet
  refine np_bind ?_ (fun _ hg => ?_)
  · exact np_guard
  have hlen := guard_ok hg
  refine np_bind (idx_np _ _ (by omega) (by omega)) (fun a0 _ => ?_)
  split
  · refine np_bind ?_ (fun _ hb => ?_)
    · exact np_guard
    have hev := guard_ok hb
    refine np_bind (letBinds_np _ _ 0 (by omega)) (fun rs _ => ?_)
    refine np_bind (each_np hs rs) (fun _ _ => ?_)
    refine np_bind (sliceFrom_np _ _ (by omega) (by omega)) (fun body _ => ?_)
    exact genBegin_np hs body
  · exact np_err

theorem genAssert_np (hs : ∀ a, NoPanic (sub a)) (args : List Arg) : NoPanic (genAssert sub args) := by
  unfold genAssert
  refine np_bind ?_ (fun _ hg => ?_)
  · exact np_guard
  have hlen := guard_ok hg
  have h1 : (args.length : Int) = 1 := by
    by_cases h : (args.length : Int) = 1
    · exact h
    · exact absurd h hlen
  refine np_bind (idx_np _ _ (by omega) (by omega)) (fun a _ => ?_)
  refine np_bind (hs a) (fun _ _ => ?_)
  exact np_bind (idx_np _ _ (by omega) (by omega)) (fun _ _ => np_pure _)

theorem genMacexpand_np (args : List Arg) : NoPanic (genMacexpand args) := by
  unfold genMacexpand
  refine np_bind ?_ (fun _ hg => ?_)
  · exact np_guard
  have hlen := guard_ok hg
  have h1 : (args.length : Int) = 1 := by
    by_cases h : (args.length : Int) = 1
    · exact h
    · exact absurd h hlen
  exact np_bind (idx_np _ _ (by omega) (by omega)) (fun _ _ => np_pure _)

theorem genSyntaxQuote_np (args : List Arg) : NoPanic (genSyntaxQuote args) := by
  unfold genSyntaxQuote
  refine np_bind ?_ (fun _ hg => ?_)
  · exact np_guard
  have hlen := guard_ok hg
  have h1 : (args.length : Int) = 1 := by
    by_cases h : (args.length : Int) = 1
    · exact h
    · exact absurd h hlen
  exact idx_np _ _ (by omega) (by omega)

theorem genBreak_np (args : List Arg) : NoPanic (genBreak args) := by
  unfold genBreak
  refine np_bind ?_ (fun _ _ => ?_)
  · exact np_guard
  split
  · rename_i h1
    refine np_bind (idx_np _ _ (by omega) (by omega)) (fun a _ => ?_)
    split
    · exact np_pure _
    · exact np_pure _
    · exact np_err
  · exact np_pure _

theorem genPackage_np (hs : ∀ a, NoPanic (sub a)) (args : List Arg) : NoPanic (genPackage sub args) := by
  unfold genPackage
  refine np_bind ?_ (fun _ hg => ?_)
  · exact np_guard
  have hlen := guard_ok hg
  refine np_bind (idx_np _ _ (by omega) (by omega)) (fun name _ => ?_)
  refine np_bind ?_ (fun _ _ => ?_)
  · split
    · exact np_pure _
    · exact np_pure _
    · exact np_err
  refine np_bind ?_ (fun _ _ => ?_)
  · split
    · refine np_bind (slice_np _ _ _ (by omega) (by omega) (by omega)) (fun mid _ => each_np hs mid)
    · exact np_pure _
  · exact np_bind (idx_np _ _ (by omega) (by omega)) (fun a _ => hs a)

theorem genReturn_np (hs : ∀ a, NoPanic (sub a)) (args : List Arg) : NoPanic (genReturn sub args) :=
  each_np hs args

theorem bind_ok_inv {α β} {m : P α} {f : α → P β} {b : β} (h : (m >>= f) = .ok b) :
    ∃ a, m = .ok a ∧ f a = .ok b := by
  cases m with
  | error e => cases h
  | ok a => exact ⟨a, rfl, h⟩

theorem genFor_np (hs : ∀ a, NoPanic (sub a)) (args : List Arg) : NoPanic (genFor sub args) := by
  unfold genFor
  refine np_bind ?_ (fun _ hg => ?_)
  · exact np_guard
  have hlen := guard_ok hg
  refine np_bind (idx_np _ _ (by omega) (by omega)) (fun a0 _ => ?_)
  refine np_bind ?_ (fun labelled _ => ?_)
  · split
    · exact np_pure _
    · exact np_pure _
    · exact np_err
    · exact np_pure _
    · exact np_err
  refine np_bind ?_ (fun control hc => ?_)
  · split
    · refine np_bind ?_ (fun _ hg2 => ?_)
      · exact np_guard
      have hlen2 := guard_ok hg2
      refine np_bind (idx_np _ _ (by omega) (by omega)) (fun a1 _ => ?_)
      split
      · exact np_pure _
      · exact np_err
    · split
      · exact np_pure _
      · exact np_err
  refine np_bind ?_ (fun _ hg3 => ?_)
  · exact np_guard
  have h3 := guard_ok hg3
  have hstart : labelled = true → ¬ ((args.length : Int) < 2) := by
    intro hl
    rw [if_pos hl] at hc
    obtain ⟨u, hu, _⟩ := bind_ok_inv hc
    exact guard_ok hu
  refine np_bind ?_ (fun body _ => ?_)
  · cases labelled with
    | true =>
      have := hstart rfl
      exact sliceFrom_np _ _ (by simp) (by simp; omega)
    | false => exact sliceFrom_np _ _ (by simp) (by simp; omega)
  refine np_bind (genBegin_np hs body) (fun _ _ => ?_)
  have hc3 : control.length = 3 := by
    by_cases h : control.length = 3
    · exact h
    · exact absurd h h3
  refine np_bind (idx_np _ _ (by omega) (by omega)) (fun i _ => ?_)
  refine np_bind (hs i) (fun _ _ => ?_)
  refine np_bind (idx_np _ _ (by omega) (by omega)) (fun t _ => ?_)
  refine np_bind (hs t) (fun _ _ => ?_)
  exact np_bind (idx_np _ _ (by omega) (by omega)) (fun s _ => hs s)

theorem np_ite {α} {c : Prop} [Decidable c] {a b : P α} (ha : NoPanic a) (hb : NoPanic b) :
    NoPanic (if c then a else b) := by
  split
  · exact ha
  · exact hb

/-- Every modelled prologue, through the dispatch of `GenerateCallBySymbol`. -/
theorem genForm_np (hs : ∀ a, NoPanic (sub a)) (nameOk : String → Bool) (head : String) (args : List Arg) :
    NoPanic (genForm sub nameOk head args) := by
  unfold genForm
  refine np_ite (genShortCircuit_np hs args) ?_
  refine np_ite (genCond_np hs args) ?_
  refine np_ite (genDef_np hs nameOk args) ?_
  refine np_ite (genMultiDef_np hs args) ?_
  refine np_ite (genFn_np hs args) ?_
  refine np_ite (genDefn_np hs nameOk args) ?_
  refine np_ite (genBegin_np hs args) ?_
  refine np_ite (genLet_np hs args) ?_
  refine np_ite (genAssert_np hs args) ?_
  refine np_ite (genMacexpand_np args) ?_
  refine np_ite (np_bind (genSyntaxQuote_np args) (fun _ _ => np_pure _)) ?_
  refine np_ite (genFor_np hs args) ?_
  refine np_ite (genBreak_np args) ?_
  refine np_ite (genBegin_np hs args) ?_
  refine np_ite (genPackage_np hs args) ?_
  exact np_ite (genReturn_np hs args) (np_pure _)

theorem genAssignment_np (hs : ∀ a, NoPanic (sub a)) (p : PairShape) (pos : Nat) (hp : p.proper = true) :
    NoPanic (genAssignment sub p pos) := by
  unfold genAssignment
  refine np_bind ?_ (fun _ _ => ?_)
  · unfold listToArrayOrPanic
    rw [if_pos hp]
    exact np_pure _
  refine np_bind ?_ (fun _ _ => ?_)
  · exact np_guard
  refine np_bind ?_ (fun _ _ => hs _)
  exact np_guard

/-- The pair case of `Generate`: the only caller of the panic-capable `GenerateAssignment` is
dominated by the proper-list test, so no pair — proper or dotted, with or without `=`/`:=`
elements — reaches the `panicOn`. -/
theorem genPair_np (hs : ∀ a, NoPanic (sub a)) (p : PairShape) : NoPanic (genPair sub p) := by
  unfold genPair
  split
  · rename_i hp
    split
    · split
      · exact genAssignment_np hs p _ hp
      · exact hs _
    · exact hs _
  · exact np_pure _

end ZygoVerif.GenSites
