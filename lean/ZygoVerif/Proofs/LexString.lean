/-
The escapes the printer writes are read back: in the string mode and in the rune-literal mode
of the lexer model, feeding `escapedRune c q` (what `strconv.Quote`/`QuoteRune` write for the
rune `c`) appends exactly `c` to the buffer — for EVERY rune `c` — and leaves the mode.
-/
import ZygoVerif.Proofs.LexRing
import ZygoVerif.Model.PrintData
namespace ZygoVerif.Lexer
open ZygoVerif.PrintData

/-! ## hex digits -/

theorem lowerhex_mod (n : Nat) : lowerhex n = lowerhex (n % 16) := by
  simp [lowerhex, Nat.mod_mod]

theorem hexDigitValue_lowerhex_small : ∀ m, m < 16 → hexDigitValue (lowerhex m) = some m := by decide

theorem hexDigitValue_lowerhex (n : Nat) : hexDigitValue (lowerhex n) = some (n % 16) := by
  rw [lowerhex_mod]; exact hexDigitValue_lowerhex_small _ (Nat.mod_lt _ (by decide))

/-! ## literal modes: state-level facts -/

/-- the literal mode (`strLit`/`runeLit`), its escape mode and its hex mode, with the quote rune -/
structure LitMode where
  lit : Mode
  esc : Mode
  hex : Mode
  quote : Char
  isStr : Bool

def strMode : LitMode := ⟨.strLit, .strEscaped, .strHexEscape, '"', true⟩
def runeMode : LitMode := ⟨.runeLit, .runeEscaped, .runeHexEscape, '\'', false⟩

def LitMode.ok (m : LitMode) : Prop := m = strMode ∨ m = runeMode

/-- the state fields a literal mode reads and writes -/
structure InLit (s : LexCore) (mode : Mode) (b : List Char) (T : List Token) : Prop where
  state : s.state = mode
  buffer : s.buffer = b
  tokens : s.tokens = T

structure InHex (s : LexCore) (mode : Mode) (k a : Nat) (byte : Bool) (b : List Char) (T : List Token) : Prop where
  state : s.state = mode
  digits : s.escDigits = k
  value : s.escValue = a
  isByte : s.escByte = byte
  buffer : s.buffer = b
  tokens : s.tokens = T

theorem stepMode_strLit (s : LexCore) (r : Char) (h : s.state = .strLit) :
    stepMode s r = (if r == '\\' then .ok { s with state := .strEscaped }
      else if r == '"' then .ok { dumpAs s .string with state := .normal } else writeRune s r) := by
  simp only [stepMode, h]

theorem stepMode_runeLit (s : LexCore) (r : Char) (h : s.state = .runeLit) (h1 : r ≠ '\'') :
    stepMode s r = (if r == '\\' then .ok { s with state := .runeEscaped } else writeRune s r) := by
  simp only [stepMode, h]
  simp [h1]

theorem stepMode_runeLit_close (s s2 : LexCore) (h : s.state = .runeLit)
    (hd : dumpBuffer { s with buffer := s.buffer ++ ['\''] } = .ok s2) :
    stepMode s '\'' = .ok { s2 with state := .normal } := by
  simp only [stepMode, h]
  rw [h] at hd
  simp [hd]

theorem stepMode_strEscaped_hex (s s' : LexCore) (r : Char) (h : s.state = .strEscaped)
    (h1 : startHexEscape s r .strHexEscape = some s') : stepMode s r = .ok s' := by
  simp only [stepMode, h, h1]

theorem stepMode_strEscaped_simple (s : LexCore) (r c : Char) (h : s.state = .strEscaped)
    (h1 : startHexEscape s r .strHexEscape = none) (h2 : escapeChar r = some c) :
    stepMode s r = .ok { s with buffer := s.buffer ++ [c], state := .strLit } := by
  simp only [stepMode, h, h1, h2]

theorem stepMode_runeEscaped_hex (s s' : LexCore) (r : Char) (h : s.state = .runeEscaped)
    (h1 : startHexEscape s r .runeHexEscape = some s') : stepMode s r = .ok s' := by
  simp only [stepMode, h, h1]

theorem stepMode_runeEscaped_simple (s : LexCore) (r c : Char) (h : s.state = .runeEscaped)
    (h1 : startHexEscape s r .runeHexEscape = none) (h2 : escapeChar r = some c) :
    stepMode s r = .ok { s with buffer := s.buffer ++ [c], state := .runeLit } := by
  simp only [stepMode, h, h1, h2]

theorem startHexEscape_none (s : LexCore) (r : Char) (m : Mode) (h : hexEscapeLen r = 0) : startHexEscape s r m = none := by
  simp [startHexEscape, h]

theorem startHexEscape_some (s : LexCore) (r : Char) (m : Mode) (h : hexEscapeLen r ≠ 0) :
    startHexEscape s r m = some { s with escDigits := hexEscapeLen r, escValue := 0,
                                         escByte := r == 'x' && m == .strHexEscape, state := m } := by
  simp [startHexEscape, h]

theorem stepMode_strHex (s : LexCore) (r : Char) (h : s.state = .strHexEscape) :
    stepMode s r = hexEscapeDigit s r .strLit := by
  simp only [stepMode, h]

theorem stepMode_runeHex (s : LexCore) (r : Char) (h : s.state = .runeHexEscape) :
    stepMode s r = hexEscapeDigit s r .runeLit := by
  simp only [stepMode, h]

theorem lit_plain (m : LitMode) (hm : m.ok) (s : LexCore) (b : List Char) (T : List Token) (r : Char)
    (hs : InLit s m.lit b T) (h1 : r ≠ '\\') (h2 : r ≠ m.quote) :
    ∃ s', step s r = .ok s' ∧ InLit s' m.lit (b ++ [r]) T := by
  have hst : (pushRing s r).state = m.lit := hs.state
  refine ⟨{ pushRing s r with buffer := (pushRing s r).buffer ++ [r] }, ?_, hst, ?_, hs.tokens⟩
  · rcases hm with rfl | rfl
    · have h2' : r ≠ '"' := h2
      rw [step_def, stepMode_strLit _ _ hst]
      simp [h1, h2', writeRune]
    · have h2' : r ≠ '\'' := h2
      rw [step_def, stepMode_runeLit _ _ hst h2']
      simp [h1, writeRune]
  · show s.buffer ++ [r] = b ++ [r]; rw [hs.buffer]

theorem lit_backslash (m : LitMode) (hm : m.ok) (s : LexCore) (b : List Char) (T : List Token)
    (hs : InLit s m.lit b T) : ∃ s', step s '\\' = .ok s' ∧ InLit s' m.esc b T := by
  have hst : (pushRing s '\\').state = m.lit := hs.state
  rcases hm with rfl | rfl
  · refine ⟨{ pushRing s '\\' with state := .strEscaped }, ?_, rfl, hs.buffer, hs.tokens⟩
    rw [step_def, stepMode_strLit _ _ hst]; simp
  · refine ⟨{ pushRing s '\\' with state := .runeEscaped }, ?_, rfl, hs.buffer, hs.tokens⟩
    rw [step_def, stepMode_runeLit _ _ hst (by decide)]; simp

theorem esc_simple (m : LitMode) (hm : m.ok) (s : LexCore) (b : List Char) (T : List Token) (e c : Char)
    (hs : InLit s m.esc b T) (h0 : hexEscapeLen e = 0) (he : escapeChar e = some c) :
    ∃ s', step s e = .ok s' ∧ InLit s' m.lit (b ++ [c]) T := by
  have hst : (pushRing s e).state = m.esc := hs.state
  rcases hm with rfl | rfl
  · refine ⟨{ pushRing s e with buffer := (pushRing s e).buffer ++ [c], state := .strLit }, ?_, rfl, ?_, hs.tokens⟩
    · rw [step_def, stepMode_strEscaped_simple _ _ c hst (startHexEscape_none _ _ _ h0) he]
    · show s.buffer ++ [c] = b ++ [c]; rw [hs.buffer]
  · refine ⟨{ pushRing s e with buffer := (pushRing s e).buffer ++ [c], state := .runeLit }, ?_, rfl, ?_, hs.tokens⟩
    · rw [step_def, stepMode_runeEscaped_simple _ _ c hst (startHexEscape_none _ _ _ h0) he]
    · show s.buffer ++ [c] = b ++ [c]; rw [hs.buffer]

theorem esc_hex_start (m : LitMode) (hm : m.ok) (s : LexCore) (b : List Char) (T : List Token) (e : Char)
    (hs : InLit s m.esc b T) (h0 : hexEscapeLen e ≠ 0) :
    ∃ s', step s e = .ok s' ∧ InHex s' m.hex (hexEscapeLen e) 0 (e == 'x' && m.isStr) b T := by
  have hst : (pushRing s e).state = m.esc := hs.state
  rcases hm with rfl | rfl
  · refine ⟨{ pushRing s e with escDigits := hexEscapeLen e, escValue := 0, escByte := e == 'x' && true, state := .strHexEscape },
      ?_, rfl, rfl, rfl, rfl, hs.buffer, hs.tokens⟩
    rw [step_def, stepMode_strEscaped_hex _ _ _ hst (startHexEscape_some _ _ _ h0)]
    simp
  · refine ⟨{ pushRing s e with escDigits := hexEscapeLen e, escValue := 0, escByte := e == 'x' && false, state := .runeHexEscape },
      ?_, rfl, rfl, rfl, rfl, hs.buffer, hs.tokens⟩
    rw [step_def, stepMode_runeEscaped_hex _ _ _ hst (startHexEscape_some _ _ _ h0)]
    simp

theorem stepMode_hex (m : LitMode) (hm : m.ok) (s : LexCore) (r : Char) (hst : s.state = m.hex) :
    stepMode s r = hexEscapeDigit s r m.lit := by
  rcases hm with rfl | rfl
  · exact stepMode_strHex s r hst
  · exact stepMode_runeHex s r hst

/-- what the finished escape writes -/
def escResult (byte : Bool) (v : Nat) : Char := if byte then byteAsRune v else Char.ofNat v

/-- the digits of a hex escape, read from a state that still expects `k` of them -/
theorem hex_run (m : LitMode) (hm : m.ok) (byte : Bool) (b : List Char) (T : List Token) :
    ∀ (k a v : Nat) (s : LexCore), InHex s m.hex (k + 1) a byte b T →
      a * 16 ^ (k + 1) + v % 16 ^ (k + 1) < 2 ^ 32 →
      (byte = true ∨ validRune (a * 16 ^ (k + 1) + v % 16 ^ (k + 1)) = true) →
      ∃ s', feed (.ok s) (hexDigits (k + 1) v) = .ok s' ∧
        InLit s' m.lit (b ++ [escResult byte (a * 16 ^ (k + 1) + v % 16 ^ (k + 1))]) T := by
  intro k
  induction k with
  | zero =>
    intro a v s hs hlt hval
    have hv : v / 16 ^ 0 % 16 = v % 16 := by simp
    simp only [Nat.zero_add, Nat.pow_one] at hlt hval ⊢
    have hd : hexDigitValue (lowerhex (v / 16 ^ 0)) = some (v % 16) := by rw [hexDigitValue_lowerhex, hv]
    have hmod : (a * 16 + v % 16) % 2 ^ 32 = a * 16 + v % 16 := Nat.mod_eq_of_lt hlt
    have hst : (pushRing s (lowerhex (v / 16 ^ 0))).state = m.hex := hs.state
    simp only [hexDigits, feed_ok_cons, feed_nil]
    rw [step_def, stepMode_hex m hm _ _ hst]
    simp only [hexEscapeDigit, hd]
    have h1 : (pushRing s (lowerhex (v / 16 ^ 0))).escValue = a := hs.value
    have h2 : (pushRing s (lowerhex (v / 16 ^ 0))).escDigits = 1 := hs.digits
    have h3 : (pushRing s (lowerhex (v / 16 ^ 0))).escByte = byte := hs.isByte
    simp only [h1, h2, h3, hmod, Nat.sub_self, Nat.lt_irrefl, ↓reduceIte]
    cases byte with
    | true =>
      refine ⟨_, rfl, rfl, ?_, hs.tokens⟩
      show s.buffer ++ _ = _
      rw [hs.buffer]; rfl
    | false =>
      have hv' : validRune (a * 16 + v % 16) = true := by
        rcases hval with h | h
        · cases h
        · exact h
      simp only [Bool.false_eq_true, ↓reduceIte, hv', Bool.not_true]
      refine ⟨_, rfl, rfl, ?_, hs.tokens⟩
      show s.buffer ++ _ = _
      rw [hs.buffer]; rfl
  | succ k ih =>
    intro a v s hs hlt hval
    have hd : hexDigitValue (lowerhex (v / 16 ^ (k + 1))) = some (v / 16 ^ (k + 1) % 16) := hexDigitValue_lowerhex _
    -- v % 16^(k+2) = v % 16^(k+1) + 16^(k+1) * (v / 16^(k+1) % 16)
    have hsplit : v % 16 ^ (k + 1 + 1) = v % 16 ^ (k + 1) + 16 ^ (k + 1) * (v / 16 ^ (k + 1) % 16) := Nat.mod_pow_succ
    have hpow : (16 : Nat) ^ (k + 1 + 1) = 16 * 16 ^ (k + 1) := by rw [Nat.pow_succ, Nat.mul_comm]
    have heq : a * 16 ^ (k + 1 + 1) + v % 16 ^ (k + 1 + 1) =
        (a * 16 + v / 16 ^ (k + 1) % 16) * 16 ^ (k + 1) + v % 16 ^ (k + 1) := by
      rw [hsplit, hpow, Nat.add_mul, Nat.mul_assoc, Nat.mul_comm (v / 16 ^ (k + 1) % 16)]
      omega
    have hpos : 0 < (16 : Nat) ^ (k + 1) := Nat.pow_pos (by decide)
    have hsmall : a * 16 + v / 16 ^ (k + 1) % 16 < 2 ^ 32 := by
      rw [heq] at hlt
      have : (a * 16 + v / 16 ^ (k + 1) % 16) * 1 ≤ (a * 16 + v / 16 ^ (k + 1) % 16) * 16 ^ (k + 1) :=
        Nat.mul_le_mul_left _ hpos
      omega
    have hmod : (a * 16 + v / 16 ^ (k + 1) % 16) % 2 ^ 32 = a * 16 + v / 16 ^ (k + 1) % 16 := Nat.mod_eq_of_lt hsmall
    have hst : (pushRing s (lowerhex (v / 16 ^ (k + 1)))).state = m.hex := hs.state
    have h1 : (pushRing s (lowerhex (v / 16 ^ (k + 1)))).escValue = a := hs.value
    have h2 : (pushRing s (lowerhex (v / 16 ^ (k + 1)))).escDigits = k + 1 + 1 := hs.digits
    have h3 : (pushRing s (lowerhex (v / 16 ^ (k + 1)))).escByte = byte := hs.isByte
    have hstep : step s (lowerhex (v / 16 ^ (k + 1))) =
        .ok { pushRing s (lowerhex (v / 16 ^ (k + 1))) with
              escValue := a * 16 + v / 16 ^ (k + 1) % 16, escDigits := k + 1 } := by
      rw [step_def, stepMode_hex m hm _ _ hst]
      simp only [hexEscapeDigit, hd, h1, h2, hmod]
      simp
    rw [show hexDigits (k + 1 + 1) v = lowerhex (v / 16 ^ (k + 1)) :: hexDigits (k + 1) v from rfl, feed_ok_cons, hstep]
    have := ih (a * 16 + v / 16 ^ (k + 1) % 16) v
      { pushRing s (lowerhex (v / 16 ^ (k + 1))) with escValue := a * 16 + v / 16 ^ (k + 1) % 16, escDigits := k + 1 }
      ⟨hs.state, rfl, rfl, hs.isByte, hs.buffer, hs.tokens⟩ (by rw [← heq]; exact hlt) (by rw [← heq]; exact hval)
    rw [← heq] at this
    exact this

theorem feed_two (s s1 s2 : LexCore) (a b : Char) (h1 : step s a = .ok s1) (h2 : step s1 b = .ok s2) :
    feed (.ok s) [a, b] = .ok s2 := by
  rw [feed_ok_cons, h1, feed_ok_cons, h2]; rfl

/-- `\` followed by a rune of the escape table -/
theorem lit_simple_escape (m : LitMode) (hm : m.ok) (s : LexCore) (b : List Char) (T : List Token) (e c : Char)
    (hs : InLit s m.lit b T) (h0 : hexEscapeLen e = 0) (he : escapeChar e = some c) :
    ∃ s', feed (.ok s) ['\\', e] = .ok s' ∧ InLit s' m.lit (b ++ [c]) T := by
  obtain ⟨s1, hst1, hs1⟩ := lit_backslash m hm s b T hs
  obtain ⟨s2, hst2, hs2⟩ := esc_simple m hm s1 b T e c hs1 h0 he
  exact ⟨s2, feed_two s s1 s2 _ _ hst1 hst2, hs2⟩

/-- `\x`, `\u`, `\U` followed by the hex digits of `v` -/
theorem lit_hex_escape (m : LitMode) (hm : m.ok) (s : LexCore) (b : List Char) (T : List Token) (e : Char) (k v : Nat)
    (hs : InLit s m.lit b T) (hk : hexEscapeLen e = k + 1) (hv : v < 16 ^ (k + 1)) (hv32 : v < 2 ^ 32)
    (hval : (e == 'x' && m.isStr) = true ∨ validRune v = true) :
    ∃ s', feed (.ok s) ('\\' :: e :: hexDigits (k + 1) v) = .ok s' ∧
      InLit s' m.lit (b ++ [escResult (e == 'x' && m.isStr) v]) T := by
  obtain ⟨s1, hst1, hs1⟩ := lit_backslash m hm s b T hs
  obtain ⟨s2, hst2, hs2⟩ := esc_hex_start m hm s1 b T e hs1 (by rw [hk]; omega)
  rw [hk] at hs2
  have hmod : v % 16 ^ (k + 1) = v := Nat.mod_eq_of_lt hv
  have := hex_run m hm (e == 'x' && m.isStr) b T k 0 v s2 hs2 (by simpa [hmod] using hv32) (by simpa [hmod] using hval)
  obtain ⟨s3, hf3, hs3⟩ := this
  refine ⟨s3, ?_, by simpa [hmod] using hs3⟩
  rw [feed_ok_cons, hst1, feed_ok_cons, hst2]; exact hf3

theorem validRune_char (c : Char) : validRune c.toNat = true := by
  have h : c.toNat < 0xd800 ∨ (0xdfff < c.toNat ∧ c.toNat < 0x110000) := c.valid
  simp only [validRune, Bool.or_eq_true, decide_eq_true_eq, Bool.and_eq_true]
  rcases h with h | ⟨h1, h2⟩
  · left; exact h
  · right; exact ⟨by omega, by omega⟩

theorem byteAsRune_ascii (c : Char) (h : c.toNat < 0x80) : byteAsRune c.toNat = c := by
  have h1 : c.toNat % 256 = c.toNat := Nat.mod_eq_of_lt (by omega)
  simp [byteAsRune, h1, h]

/-- the forms `appendEscapedRune` writes -/
inductive EscForm (c q : Char) : List Char → Prop where
  | quoted (h : c = q ∨ c = '\\') : EscForm c q ['\\', c]
  | plain (h1 : c ≠ q) (h2 : c ≠ '\\') : EscForm c q [c]
  | named (e : Char) (h0 : hexEscapeLen e = 0) (he : escapeChar e = some c) : EscForm c q ['\\', e]
  | hex2 (h : c.toNat < 0x80) : EscForm c q ('\\' :: 'x' :: hexDigits 2 c.toNat)
  | hex4 (h : c.toNat < 0x10000) : EscForm c q ('\\' :: 'u' :: hexDigits 4 c.toNat)
  | hex8 : EscForm c q ('\\' :: 'U' :: hexDigits 8 c.toNat)

theorem escapedRune_form (c q : Char) : EscForm c q (escapedRune c q) := by
  unfold escapedRune
  by_cases h1 : (c == q || c == '\\') = true
  · rw [if_pos h1]
    exact .quoted (by simpa using h1)
  rw [if_neg h1]
  have h1' : c ≠ q ∧ c ≠ '\\' := by simpa using h1
  by_cases h2 : Generated.IsPrint.isPrint c.toNat = true
  · rw [if_pos h2]; exact .plain h1'.1 h1'.2
  rw [if_neg h2]
  by_cases h3 : (c == '\x07') = true
  · rw [if_pos h3]; have : c = '\x07' := by simpa using h3
    subst this; exact .named 'a' (by decide) (by decide)
  rw [if_neg h3]
  by_cases h4 : (c == '\x08') = true
  · rw [if_pos h4]; have : c = '\x08' := by simpa using h4
    subst this; exact .named 'b' (by decide) (by decide)
  rw [if_neg h4]
  by_cases h5 : (c == '\x0c') = true
  · rw [if_pos h5]; have : c = '\x0c' := by simpa using h5
    subst this; exact .named 'f' (by decide) (by decide)
  rw [if_neg h5]
  by_cases h6 : (c == '\n') = true
  · rw [if_pos h6]; have : c = '\n' := by simpa using h6
    subst this; exact .named 'n' (by decide) (by decide)
  rw [if_neg h6]
  by_cases h7 : (c == '\r') = true
  · rw [if_pos h7]; have : c = '\r' := by simpa using h7
    subst this; exact .named 'r' (by decide) (by decide)
  rw [if_neg h7]
  by_cases h8 : (c == '\t') = true
  · rw [if_pos h8]; have : c = '\t' := by simpa using h8
    subst this; exact .named 't' (by decide) (by decide)
  rw [if_neg h8]
  by_cases h9 : (c == '\x0b') = true
  · rw [if_pos h9]; have : c = '\x0b' := by simpa using h9
    subst this; exact .named 'v' (by decide) (by decide)
  rw [if_neg h9]
  by_cases h10 : (decide (c.toNat < 0x20) || c == '\x7f') = true
  · rw [if_pos h10]
    refine .hex2 ?_
    simp only [Bool.or_eq_true, decide_eq_true_eq, beq_iff_eq] at h10
    rcases h10 with h | h
    · omega
    · rw [h]; decide
  rw [if_neg h10]
  by_cases h11 : c.toNat < 0x10000
  · rw [if_pos h11]; exact .hex4 h11
  rw [if_neg h11]
  exact .hex8

/-- **The reader's escapes invert the printer's**, for every rune: in the string mode (quote `"`)
and in the rune-literal mode (quote `'`) feeding what `strconv.Quote`/`QuoteRune` write for `c`
appends `c` to the buffer. -/
theorem escaped_reads_back (m : LitMode) (hm : m.ok) (c : Char) (s : LexCore) (b : List Char) (T : List Token)
    (hs : InLit s m.lit b T) :
    ∃ s', feed (.ok s) (escapedRune c m.quote) = .ok s' ∧ InLit s' m.lit (b ++ [c]) T := by
  have hq : m.quote = '"' ∨ m.quote = '\'' := by rcases hm with rfl | rfl <;> simp [strMode, runeMode]
  have hmax : c.toNat < 0x110000 := by
    have h : c.toNat < 0xd800 ∨ (0xdfff < c.toNat ∧ c.toNat < 0x110000) := c.valid
    rcases h with h | ⟨_, h2⟩ <;> omega
  have hform := escapedRune_form c m.quote
  generalize escapedRune c m.quote = txt at hform ⊢
  cases hform with
  | quoted h =>
    have h0 : hexEscapeLen c = 0 := by
      rcases h with h | h
      · rcases hq with hq | hq <;> (rw [h, hq]; decide)
      · rw [h]; decide
    have he : escapeChar c = some c := by
      rcases h with h | h
      · rcases hq with hq | hq <;> (rw [h, hq]; decide)
      · rw [h]; decide
    exact lit_simple_escape m hm s b T c c hs h0 he
  | plain h1 h2 =>
    obtain ⟨s', hst, hs'⟩ := lit_plain m hm s b T c hs h2 h1
    exact ⟨s', by rw [feed_ok_cons, hst]; rfl, hs'⟩
  | named e h0 he => exact lit_simple_escape m hm s b T e c hs h0 he
  | hex2 hlt =>
    obtain ⟨s', hf, hs'⟩ := lit_hex_escape m hm s b T 'x' 1 c.toNat hs (by decide) (by omega) (by omega)
      (Or.inr (validRune_char c))
    refine ⟨s', hf, ?_⟩
    have : escResult ('x' == 'x' && m.isStr) c.toNat = c := by
      cases m.isStr
      · simp [escResult]
      · simp [escResult, byteAsRune_ascii c hlt]
    rw [this] at hs'; exact hs'
  | hex4 hlt =>
    obtain ⟨s', hf, hs'⟩ := lit_hex_escape m hm s b T 'u' 3 c.toNat hs (by decide) (by omega) (by omega)
      (Or.inr (validRune_char c))
    refine ⟨s', hf, ?_⟩
    have : escResult ('u' == 'x' && m.isStr) c.toNat = c := by simp [escResult]
    rw [this] at hs'; exact hs'
  | hex8 =>
    obtain ⟨s', hf, hs'⟩ := lit_hex_escape m hm s b T 'U' 7 c.toNat hs (by decide) (by omega) (by omega)
      (Or.inr (validRune_char c))
    refine ⟨s', hf, ?_⟩
    have : escResult ('U' == 'x' && m.isStr) c.toNat = c := by simp [escResult]
    rw [this] at hs'; exact hs'

/-- the body of a quoted string is read back rune by rune -/
theorem quoteBody_reads_back (m : LitMode) (hm : m.ok) (cs : List Char) (s : LexCore) (b : List Char) (T : List Token)
    (hs : InLit s m.lit b T) :
    ∃ s', feed (.ok s) (quoteBody m.quote cs) = .ok s' ∧ InLit s' m.lit (b ++ cs) T := by
  induction cs generalizing s b with
  | nil => exact ⟨s, rfl, by simpa using hs⟩
  | cons c cs ih =>
    obtain ⟨s1, hf1, hs1⟩ := escaped_reads_back m hm c s b T hs
    obtain ⟨s2, hf2, hs2⟩ := ih s1 (b ++ [c]) hs1
    refine ⟨s2, ?_, by simpa using hs2⟩
    rw [show quoteBody m.quote (c :: cs) = escapedRune c m.quote ++ quoteBody m.quote cs from rfl, feed_append, hf1, hf2]

end ZygoVerif.Lexer
