/-
The scope/closure tables only grow: invariants of the VM model (`Model/VM.lean`) that every
execution step preserves.

* `WF s`   — every scope id held by the live scope stack, by a suspended scope stack, by the
             captured stack of any function object or by the stack of any lazy argument is
             below `s.scopes.length` (ids are allocated monotonically: the next scope gets
             the id `s.scopes.length`).
* `Ext s s'` — `s'` extends `s`: no scope cell and no function object disappears; the
             function-boundary flag and the template of a scope, the captured stack and the
             parent of a function object never change.
* `Step s s' = Ext s s' ∧ (WF s → WF s')`, reflexive and transitive.

`Safe m` says that running `m` from any state is a `Step`. It is proved for every function
of the VM's mutual block by induction on the fuel (`safe_all`).
-/
import ZygoVerif.Proofs.Scope
namespace ZygoVerif.Scope
open ZygoVerif.Core ZygoVerif.VM

structure WF (s : St) : Prop where
  linear : ∀ id ∈ idsOf s.linear, id < s.scopes.length
  suspended : ∀ l ∈ s.suspended, ∀ id ∈ idsOf l, id < s.scopes.length
  closing : ∀ f ∈ s.fns, ∀ id ∈ idsOf f.closing, id < s.scopes.length
  lazies : ∀ z ∈ s.lazies, ∀ id ∈ idsOf z.stack, id < s.scopes.length

structure Ext (s s' : St) : Prop where
  scopesLen : s.scopes.length ≤ s'.scopes.length
  flags : ∀ id, id < s.scopes.length →
    (scopeOf s' id).isFunction = (scopeOf s id).isFunction ∧ (scopeOf s' id).myFunction = (scopeOf s id).myFunction
  fnsLen : s.fns.length ≤ s'.fns.length
  fns : ∀ i, i < s.fns.length →
    (fnOf s' i).closing = (fnOf s i).closing ∧ (fnOf s' i).parent = (fnOf s i).parent
  lazyLen : s.lazies.length ≤ s'.lazies.length
  lazyStack : ∀ i, i < s.lazies.length → (s'.lazies[i]?).map (·.stack) = (s.lazies[i]?).map (·.stack)

def Step (s s' : St) : Prop := Ext s s' ∧ (WF s → WF s')

theorem Ext.refl (s : St) : Ext s s :=
  ⟨Nat.le_refl _, fun _ _ => ⟨rfl, rfl⟩, Nat.le_refl _, fun _ _ => ⟨rfl, rfl⟩, Nat.le_refl _, fun _ _ => rfl⟩

theorem Ext.trans {a b c : St} (h1 : Ext a b) (h2 : Ext b c) : Ext a c where
  scopesLen := Nat.le_trans h1.scopesLen h2.scopesLen
  flags := fun id hid =>
    let p := h1.flags id hid
    let q := h2.flags id (Nat.lt_of_lt_of_le hid h1.scopesLen)
    ⟨q.1.trans p.1, q.2.trans p.2⟩
  fnsLen := Nat.le_trans h1.fnsLen h2.fnsLen
  fns := fun i hi =>
    let p := h1.fns i hi
    let q := h2.fns i (Nat.lt_of_lt_of_le hi h1.fnsLen)
    ⟨q.1.trans p.1, q.2.trans p.2⟩
  lazyLen := Nat.le_trans h1.lazyLen h2.lazyLen
  lazyStack := fun i hi => (h2.lazyStack i (Nat.lt_of_lt_of_le hi h1.lazyLen)).trans (h1.lazyStack i hi)

theorem Step.refl (s : St) : Step s s := ⟨Ext.refl s, id⟩

theorem Step.trans {a b c : St} (h1 : Step a b) (h2 : Step b c) : Step a c :=
  ⟨h1.1.trans h2.1, fun h => h2.2 (h1.2 h)⟩

/-! ## Running the monad -/

theorem run_pure {α} (a : α) (s : St) : (pure a : M α).run s = (.ok a, s) := rfl
theorem run_bind {α β} (m : M α) (f : α → M β) (s : St) :
    (m >>= f).run s = match m.run s with
      | (.ok a, s') => (f a).run s'
      | (.error e, s') => (.error e, s') := by
  show (ExceptT.bind m f).run s = _
  simp only [ExceptT.bind, ExceptT.run, ExceptT.mk, bind, StateT.bind, ExceptT.bindCont]
  rcases h : m s with ⟨r, s'⟩
  cases r <;> simp_all <;> rfl
theorem run_get (s : St) : (get : M St).run s = (.ok s, s) := rfl
theorem run_set (s s' : St) : (set s' : M Unit).run s = (.ok (), s') := rfl
theorem run_modify (f : St → St) (s : St) : (modify f : M Unit).run s = (.ok (), f s) := rfl
theorem run_throw {α} (e : Fault) (s : St) : (throw e : M α).run s = (.error e, s) := rfl
theorem run_err {α} (s : St) : (err : M α).run s = (.error .err, s) := rfl
theorem run_hostPanic {α} (s : St) : (hostPanic : M α).run s = (.error .panic, s) := rfl

/-- Running `m` from any state is a `Step`. -/
def Safe {α} (m : M α) : Prop := ∀ s, Step s (m.run s).2

theorem safe_pure {α} (a : α) : Safe (pure a : M α) := fun s => Step.refl s
theorem safe_throw {α} (e : Fault) : Safe (throw e : M α) := fun s => Step.refl s
theorem safe_err {α} : Safe (err : M α) := fun s => Step.refl s
theorem safe_hostPanic {α} : Safe (hostPanic : M α) := fun s => Step.refl s
theorem safe_get : Safe (get : M St) := fun s => Step.refl s

theorem safe_bind {α β} {m : M α} {f : α → M β} (hm : Safe m) (hf : ∀ a, Safe (f a)) : Safe (m >>= f) := by
  intro s
  rw [run_bind]
  have h := hm s
  rcases hr : m.run s with ⟨r, s'⟩
  rw [hr] at h
  cases r with
  | ok a => exact h.trans (hf a s')
  | error e => exact h

/-- Nothing runs after a throw. -/
theorem safe_throw_bind {α β} (e : Fault) (f : α → M β) : Safe ((throw e : M α) >>= f) := by
  intro s; rw [run_bind, run_throw]; exact Step.refl s
theorem safe_err_bind {α β} (f : α → M β) : Safe ((err : M α) >>= f) := safe_throw_bind _ f
theorem safe_hostPanic_bind {α β} (f : α → M β) : Safe ((hostPanic : M α) >>= f) := safe_throw_bind _ f

/-- After `get` the bound value *is* the current state. -/
theorem safe_get_bind {β} {f : St → M β} (hf : ∀ s, Step s ((f s).run s).2) : Safe (get >>= f) := by
  intro s
  rw [run_bind, run_get]
  exact hf s

theorem safe_of_run {α} {m : M α} (hm : Safe m) {s s' : St} {r : Except Fault α} (h : m.run s = (r, s')) :
    Step s s' := by
  have := hm s
  rw [h] at this
  exact this

/-! ## State updates that are steps -/

/-- An update that leaves the five tables alone. -/
theorem Step.of_same {s s' : St} (h1 : s'.scopes = s.scopes) (h2 : s'.fns = s.fns) (h3 : s'.linear = s.linear)
    (h4 : s'.suspended = s.suspended) (h5 : s'.lazies = s.lazies) : Step s s' := by
  refine ⟨⟨by rw [h1]; exact Nat.le_refl _, fun id _ => by simp [scopeOf, h1], by rw [h2]; exact Nat.le_refl _,
    fun i _ => by simp [fnOf, h2], by rw [h5]; exact Nat.le_refl _, fun i _ => by rw [h5]⟩, fun w => ⟨?_, ?_, ?_, ?_⟩⟩
  · rw [h3, h1]; exact w.linear
  · rw [h4, h1]; exact w.suspended
  · rw [h2, h1]; exact w.closing
  · rw [h5, h1]; exact w.lazies

/-- Only the live stack changes, to a stack whose ids were already held somewhere. -/
theorem Step.of_linear {s s' : St} (h1 : s'.scopes = s.scopes) (h2 : s'.fns = s.fns)
    (h3 : WF s → ∀ id ∈ idsOf s'.linear, id < s.scopes.length)
    (h4 : WF s → ∀ l ∈ s'.suspended, ∀ id ∈ idsOf l, id < s.scopes.length) (h5 : s'.lazies = s.lazies) : Step s s' := by
  refine ⟨⟨by rw [h1]; exact Nat.le_refl _, fun id _ => by simp [scopeOf, h1], by rw [h2]; exact Nat.le_refl _,
    fun i _ => by simp [fnOf, h2], by rw [h5]; exact Nat.le_refl _, fun i _ => by rw [h5]⟩, fun w => ⟨?_, ?_, ?_, ?_⟩⟩
  · rw [h1]; exact h3 w
  · rw [h1]; exact h4 w
  · rw [h2, h1]; exact w.closing
  · rw [h5, h1]; exact w.lazies

theorem idsOf_append (a b : List (Option Nat)) : idsOf (a ++ b) = idsOf a ++ idsOf b := by
  induction a with
  | nil => rfl
  | cons o rest ih => cases o <;> simp [idsOf, ih]

theorem idsOf_replicate_none (n : Nat) : idsOf (List.replicate n none) = [] := by
  induction n with
  | zero => rfl
  | succ n ih => simpa [List.replicate, idsOf] using ih

theorem idsOf_drop_sub (l : List (Option Nat)) (n : Nat) : ∀ id ∈ idsOf (l.drop n), id ∈ idsOf l := by
  induction n generalizing l with
  | zero => simp
  | succ n ih =>
    cases l with
    | nil => simp [idsOf]
    | cons o rest =>
      intro id hid
      have := ih rest id (by simpa using hid)
      cases o <;> simp [idsOf, this]

theorem idsOf_truncate_sub (l : List (Option Nat)) (n : Nat) : ∀ id ∈ idsOf (truncate l n), id ∈ idsOf l := by
  intro id hid
  unfold truncate at hid
  split at hid
  · exact idsOf_drop_sub l _ id hid
  · simpa [idsOf_append, idsOf_replicate_none] using hid

/-- The scope table is untouched; whatever the other tables hold afterwards was bounded
before. -/
theorem Step.of_scopes_same {s s' : St} (hsc : s'.scopes = s.scopes)
    (hfl : s.fns.length ≤ s'.fns.length)
    (hfp : ∀ i, i < s.fns.length → (fnOf s' i).closing = (fnOf s i).closing ∧ (fnOf s' i).parent = (fnOf s i).parent)
    (hlin : WF s → ∀ id ∈ idsOf s'.linear, id < s.scopes.length)
    (hsus : WF s → ∀ l ∈ s'.suspended, ∀ id ∈ idsOf l, id < s.scopes.length)
    (hcl : WF s → ∀ f ∈ s'.fns, ∀ id ∈ idsOf f.closing, id < s.scopes.length)
    (hlz : WF s → ∀ z ∈ s'.lazies, ∀ id ∈ idsOf z.stack, id < s.scopes.length)
    (hll : s.lazies.length ≤ s'.lazies.length := by simp)
    (hls : ∀ i, i < s.lazies.length → (s'.lazies[i]?).map (·.stack) = (s.lazies[i]?).map (·.stack) := by intros; rfl) :
    Step s s' := by
  refine ⟨⟨by rw [hsc]; exact Nat.le_refl _, fun id _ => by simp [scopeOf, hsc], hfl, hfp, hll, hls⟩, fun w => ⟨?_, ?_, ?_, ?_⟩⟩
  · rw [hsc]; exact hlin w
  · rw [hsc]; exact hsus w
  · rw [hsc]; exact hcl w
  · rw [hsc]; exact hlz w

theorem fnOf_append_lt (s : St) (fs extra : List FnObj) (i : Nat) (h : i < fs.length) :
    (fs ++ extra).getD i {} = fs.getD i {} := by
  simp [List.getD_eq_getElem?_getD, List.getElem?_append_left h]

/-- A function object is appended whose captured stack was bounded. -/
theorem Step.of_addFn {s s' : St} (f : FnObj) (hsc : s'.scopes = s.scopes) (hf : s'.fns = s.fns ++ [f])
    (hlin : s'.linear = s.linear) (hsus : s'.suspended = s.suspended) (hlz : s'.lazies = s.lazies)
    (hb : WF s → ∀ id ∈ idsOf f.closing, id < s.scopes.length) : Step s s' := by
  refine Step.of_scopes_same hsc (by simp [hf]) (fun i hi => ?_) (fun w => by rw [hlin]; exact w.linear)
    (fun w => by rw [hsus]; exact w.suspended) (fun w g hg => ?_) (fun w => by rw [hlz]; exact w.lazies)
    (by rw [hlz]; exact Nat.le_refl _) (fun i _ => by rw [hlz])
  · simp only [fnOf, hf, fnOf_append_lt s s.fns [f] i hi, and_self]
  · rw [hf] at hg
    rcases List.mem_append.mp hg with hg | hg
    · exact w.closing g hg
    · simp only [List.mem_singleton] at hg
      subst hg
      exact hb w

/-- A lazy argument is appended whose scope stack was bounded. -/
theorem Step.of_addLazy {s s' : St} (z : LazyObj) (hsc : s'.scopes = s.scopes) (hf : s'.fns = s.fns)
    (hlin : s'.linear = s.linear) (hsus : s'.suspended = s.suspended) (hlz : s'.lazies = s.lazies ++ [z])
    (hb : WF s → ∀ id ∈ idsOf z.stack, id < s.scopes.length) : Step s s' := by
  refine Step.of_scopes_same hsc (by simp [hf]) (fun i _ => by simp [fnOf, hf]) (fun w => by rw [hlin]; exact w.linear)
    (fun w => by rw [hsus]; exact w.suspended) (fun w => by rw [hf]; exact w.closing) (fun w y hy => ?_)
    (by simp [hlz]) (fun i hi => by rw [hlz, List.getElem?_append_left hi])
  rw [hlz] at hy
  rcases List.mem_append.mp hy with hy | hy
  · exact w.lazies y hy
  · simp only [List.mem_singleton] at hy
    subst hy
    exact hb w

theorem scopeOf_set_flags (s : St) (id j : Nat) (sc : Scope)
    (h1 : sc.isFunction = (scopeOf s id).isFunction) (h2 : sc.myFunction = (scopeOf s id).myFunction) :
    (((s.scopes.set id sc).getD j {}).isFunction = (scopeOf s j).isFunction) ∧
    (((s.scopes.set id sc).getD j {}).myFunction = (scopeOf s j).myFunction) := by
  by_cases hj : j = id
  · subst hj
    by_cases hl : j < s.scopes.length
    · simp [scopeOf, List.getD_eq_getElem?_getD, hl, h1, h2]
    · rw [List.set_eq_of_length_le (by omega)]
      exact ⟨rfl, rfl⟩
  · simp [scopeOf, List.getD_eq_getElem?_getD, List.getElem?_set_ne (Ne.symm hj)]

/-- A variable is (re)bound in a scope cell: the cell keeps its place, its boundary flag and
its template. -/
theorem Step.of_setVar (s : St) (id : Nat) (x : String) (v : Val) : Step s (setVarSt s id x v) := by
  refine ⟨⟨by simp [setVarSt], fun j _ => ?_, Nat.le_refl _, fun i _ => ⟨rfl, rfl⟩, Nat.le_refl _, fun _ _ => rfl⟩,
    fun w => ⟨?_, ?_, ?_, ?_⟩⟩
  · exact scopeOf_set_flags s id j _ rfl rfl
  · simpa [setVarSt] using w.linear
  · simpa [setVarSt] using w.suspended
  · simpa [setVarSt] using w.closing
  · simpa [setVarSt] using w.lazies

/-- `AddScopeInstr` / `AddFuncScopeInstr`: a new cell at the end of the table, its id pushed
on the live stack. -/
theorem Step.of_addScope {s s' : St} (sc : Scope) (hsc : s'.scopes = s.scopes ++ [sc]) (hf : s'.fns = s.fns)
    (hlin : s'.linear = some s.scopes.length :: s.linear) (hsus : s'.suspended = s.suspended)
    (hlz : s'.lazies = s.lazies) : Step s s' := by
  refine ⟨⟨by simp [hsc], fun j hj => ?_, by simp [hf], fun i _ => by simp [fnOf, hf], by simp [hlz],
    fun i _ => by rw [hlz]⟩, fun w => ⟨?_, ?_, ?_, ?_⟩⟩
  · simp [scopeOf, hsc, List.getD_eq_getElem?_getD, List.getElem?_append_left hj]
  · intro id hid
    rw [hlin] at hid
    simp only [idsOf, List.mem_cons] at hid
    rw [hsc]
    rcases hid with rfl | hid
    · simp
    · have := w.linear id hid
      simp; omega
  · intro l hl id hid
    rw [hsus] at hl
    have := w.suspended l hl id hid
    rw [hsc]; simp; omega
  · intro f hf' id hid
    rw [hf] at hf'
    have := w.closing f hf' id hid
    rw [hsc]; simp; omega
  · intro z hz id hid
    rw [hlz] at hz
    have := w.lazies z hz id hid
    rw [hsc]; simp; omega

/-! ## The helpers of the VM -/

macro "same_tables" : tactic => `(tactic| exact Step.of_same rfl rfl rfl rfl rfl)

theorem safe_pushData (v : Val) : Safe (pushData v) := by
  intro s; simp only [pushData, run_modify]; same_tables

theorem safe_incPc : Safe incPc := by
  intro s; simp only [incPc, run_modify]; same_tables

theorem safe_popData : Safe popData := by
  apply safe_get_bind
  intro s
  split
  · exact Step.refl s
  · exact Step.refl s
  · simp only [run_bind, run_set, run_pure]; same_tables

theorem safe_popN (n : Nat) : Safe (popN n) := by
  apply safe_get_bind
  intro s
  split
  · exact Step.refl s
  · dsimp only
    split
    · exact Step.refl s
    · simp only [run_bind, run_set, run_pure]; same_tables

theorem safe_jumpTo (pc : Int) : Safe (jumpTo pc) := by
  apply safe_get_bind
  intro s
  split
  · exact Step.refl s
  · simp only [run_set]; same_tables

theorem safe_capture : Safe capture := by
  apply safe_get_bind
  intro s
  exact Step.refl s

theorem safe_wrangleOptargs (a b : Nat) : Safe (wrangleOptargs a b) := by
  unfold wrangleOptargs
  split
  · exact safe_err
  · split
    · exact safe_bind (safe_popN _) (fun _ => safe_pushData _)
    · exact safe_pushData _

theorem safe_popScope : Safe popScope := by
  apply safe_get_bind
  intro s
  split
  · exact Step.refl s
  · rename_i x rest h
    simp only [run_set]
    refine Step.of_linear rfl rfl (fun w id hid => w.linear id ?_) (fun w => w.suspended) rfl
    rw [h]
    cases x <;> simp_all [idsOf]

theorem safe_popScopes (n : Nat) : Safe (popScopes n) := by
  induction n with
  | zero => exact safe_pure ()
  | succ n ih => exact safe_bind safe_popScope (fun _ => ih)

theorem safe_popToMark (l : Nat) (k : Bool) (fuel : Nat) : Safe (popToMark l k fuel) := by
  induction fuel with
  | zero => exact safe_err
  | succ n ih =>
    unfold popToMark
    refine safe_bind safe_popData (fun v => ?_)
    split
    · split
      · split
        · exact safe_pushData _
        · exact safe_pure ()
      · exact ih
    · exact ih

theorem safe_setInScope (id : Nat) (x : String) (v : Val) : Safe (setInScope id x v) := by
  intro s
  rw [setInScope_run]
  exact Step.of_setVar s id x v

theorem safe_bindTop (x : String) (v : Val) : Safe (bindTop x v) := by
  apply safe_get_bind
  intro s
  split
  · split
    · split
      · exact safe_setInScope _ _ _ s
      · exact Step.refl s
    · exact safe_setInScope _ _ _ s
  · exact Step.refl s

theorem getD_mem_or_default {α} (l : List α) (i : Nat) (d : α) : l.getD i d ∈ l ∨ l.getD i d = d := by
  rw [List.getD_eq_getElem?_getD]
  cases h : l[i]? with
  | none => right; rfl
  | some a => left; exact List.mem_of_getElem? h

theorem safe_restore (c : CtlState) : Safe (restore c) := by
  intro s
  simp only [restore, run_modify]
  by_cases hgt : s.suspended.length > c.susp
  · simp only [hgt, if_true]
    refine Step.of_scopes_same rfl (Nat.le_refl _) (fun i _ => ⟨rfl, rfl⟩) (fun w id hid => ?_) (fun w l hl => ?_)
      (fun w => w.closing) (fun w => w.lazies)
    · have hid' := idsOf_truncate_sub _ _ id hid
      rcases getD_mem_or_default s.suspended (s.suspended.length - c.susp - 1) [] with hm | hd
      · exact w.suspended _ hm id hid'
      · rw [hd] at hid'
        simp [idsOf] at hid'
    · exact w.suspended l (List.mem_of_mem_drop hl)
  · simp only [hgt, if_false]
    refine Step.of_scopes_same rfl (Nat.le_refl _) (fun i _ => ⟨rfl, rfl⟩) (fun w id hid => ?_) (fun w => w.suspended)
      (fun w => w.closing) (fun w => w.lazies)
    exact w.linear id (idsOf_truncate_sub _ _ id hid)

theorem safe_ite {α} {c : Prop} [Decidable c] {a b : M α} (ha : Safe a) (hb : Safe b) : Safe (if c then a else b) := by
  split <;> assumption

/-- One step of a compositional safety proof: a leaf lemma, a bind, a binder, a case split. -/
macro "safe_step" : tactic => `(tactic| first
  | split
  | with_reducible (first
    | exact safe_pure _ | exact safe_err | exact safe_hostPanic | exact safe_throw _ | exact safe_get
    | exact safe_err_bind _ | exact safe_hostPanic_bind _ | exact safe_throw_bind _ _
    | exact safe_pushData _ | exact safe_popData | exact safe_popN _ | exact safe_incPc | exact safe_jumpTo _
    | exact safe_capture | exact safe_wrangleOptargs _ _ | exact safe_popScope | exact safe_popScopes _
    | exact safe_popToMark _ _ _ | exact safe_setInScope _ _ _ | exact safe_bindTop _ _ | exact safe_restore _
    | assumption
    | refine safe_bind ?_ (fun _ => ?_)))

macro "safe_auto" : tactic => `(tactic| repeat' (first | safe_step | (dsimp only; safe_step)))

theorem safe_modify_same (f : St → St) (h1 : ∀ s, (f s).scopes = s.scopes) (h2 : ∀ s, (f s).fns = s.fns)
    (h3 : ∀ s, (f s).linear = s.linear) (h4 : ∀ s, (f s).suspended = s.suspended) (h5 : ∀ s, (f s).lazies = s.lazies) :
    Safe (modify f) := by
  intro s
  rw [run_modify]
  exact Step.of_same (h1 s) (h2 s) (h3 s) (h4 s) (h5 s)

theorem safe_callFunction (f n : Nat) : Safe (callFunction f n) := by
  unfold callFunction
  refine safe_bind safe_get (fun s0 => ?_)
  dsimp only
  safe_auto
  all_goals exact safe_modify_same _ (fun _ => rfl) (fun _ => rfl) (fun _ => rfl) (fun _ => rfl) (fun _ => rfl)

/-- `refine to_safe s` turns a goal `Step s ((m).run s).2` into `Safe m`. -/
theorem to_safe {α} {m : M α} (h : Safe m) (s : St) : Step s (m.run s).2 := h s

/-! ## Compilation at run time -/

/-- What a generator run may do to the function table: old entries keep their captured
stack and parent; every entry afterwards has the captured stack of an old entry or one
drawn from the live stack the generator was started with. -/
structure FnsExt (live : List (Option Nat)) (fns fns' : List FnObj) : Prop where
  len : fns.length ≤ fns'.length
  old : ∀ i, i < fns.length →
    (fns'.getD i {}).closing = (fns.getD i {}).closing ∧ (fns'.getD i {}).parent = (fns.getD i {}).parent
  all : ∀ f ∈ fns', (∃ f0 ∈ fns, f.closing = f0.closing) ∨ (∀ id ∈ idsOf f.closing, id ∈ idsOf live)

theorem FnsExt.refl (live : List (Option Nat)) (fns : List FnObj) : FnsExt live fns fns :=
  ⟨Nat.le_refl _, fun _ _ => ⟨rfl, rfl⟩, fun f hf => Or.inl ⟨f, hf, rfl⟩⟩

theorem FnsExt.trans {live : List (Option Nat)} {a b c : List FnObj} (h1 : FnsExt live a b) (h2 : FnsExt live b c) :
    FnsExt live a c where
  len := Nat.le_trans h1.len h2.len
  old := fun i hi =>
    let p := h1.old i hi
    let q := h2.old i (Nat.lt_of_lt_of_le hi h1.len)
    ⟨q.1.trans p.1, q.2.trans p.2⟩
  all := fun f hf => by
    rcases h2.all f hf with ⟨f0, hf0, he⟩ | h
    · rcases h1.all f0 hf0 with ⟨f1, hf1, he1⟩ | h
      · exact Or.inl ⟨f1, hf1, he.trans he1⟩
      · exact Or.inr (by rw [he]; exact h)
    · exact Or.inr h

/-- A generator computation that leaves the live stack alone and extends the function table. -/
def GenOK {α} (g : G α) : Prop :=
  ∀ gs a gs', g.run gs = .ok (a, gs') → gs'.live = gs.live ∧ FnsExt gs.live gs.fns gs'.fns

theorem safe_runGen {α} (g : G α) (hg : GenOK g) : Safe (runGen g) := by
  apply safe_get_bind
  intro s
  dsimp only
  split
  · rename_i a gs' hrun
    obtain ⟨_, hext⟩ := hg _ _ _ hrun
    simp only [run_bind, run_set, run_pure]
    refine Step.of_scopes_same rfl hext.len (fun i hi => hext.old i hi) (fun w => w.linear) (fun w => w.suspended)
      (fun w f hf id hid => ?_) (fun w => w.lazies)
    rcases hext.all f hf with ⟨f0, hf0, he⟩ | h
    · exact w.closing f0 hf0 id (by rw [← he]; exact hid)
    · exact w.linear id (h id hid)
  · exact Step.refl s

theorem safe_mkFunction_at (s : St) (name : String) (code : List Instr) (closing : List (Option Nat)) (parent : Option Nat)
    (hb : WF s → ∀ id ∈ idsOf closing, id < s.scopes.length) :
    Step s ((mkFunction name code closing parent).run s).2 := by
  simp only [mkFunction, run_bind, run_get, run_set, run_pure]
  exact Step.of_addFn { name, code, closing, parent } rfl rfl rfl rfl rfl hb

/-- The ids of a new captured stack were on the live stack. -/
theorem closingNow_sub (s : St) : ∀ id ∈ idsOf (closingNow s), id ∈ idsOf s.linear := by
  intro id hid
  rw [idsOf_closingNow] at hid
  split at hid
  · exact aboveBoundary_sub s s.linear id hid
  · exact hid

/-! ## The mutual block -/

structure AllSafe (fuel : Nat) : Prop where
  run : Safe (run fuel)
  runLoop : ∀ st, Safe (runLoop fuel st)
  exec : ∀ i, Safe (exec fuel i)
  evalCallExpr : ∀ e, Safe (evalCallExpr fuel e)
  nested : ∀ f st, Safe (nested fuel f st)
  prepareArgs : ∀ f i es, Safe (prepareArgs fuel f i es)
  callResolved : ∀ f args, Safe (callResolved fuel f args)
  callUser : ∀ name n, Safe (callUser fuel name n)
  builtin : ∀ name args, Safe (builtin fuel name args)
  applyFn : ∀ f args, Safe (applyFn fuel f args)
  mapArr : ∀ f r i n, Safe (mapArr fuel f r i n)
  mapList : ∀ f l, Safe (mapList fuel f l)
  forceLazy : ∀ id, Safe (forceLazy fuel id)

theorem safe_modify_same' (f : St → St) (h : ∀ s, (f s).scopes = s.scopes ∧ (f s).fns = s.fns ∧
    (f s).linear = s.linear ∧ (f s).suspended = s.suspended ∧ (f s).lazies = s.lazies) : Safe (modify f) :=
  safe_modify_same f (fun s => (h s).1) (fun s => (h s).2.1) (fun s => (h s).2.2.1) (fun s => (h s).2.2.2.1)
    (fun s => (h s).2.2.2.2)

macro "safe_ih" ih:ident : tactic => `(tactic| repeat' (first
  | safe_step
  | with_reducible (first
    | exact ($ih).run | exact ($ih).runLoop _ | exact ($ih).exec _ | exact ($ih).evalCallExpr _
    | exact ($ih).nested _ _ | exact ($ih).prepareArgs _ _ _ | exact ($ih).callResolved _ _
    | exact ($ih).callUser _ _ | exact ($ih).builtin _ _ | exact ($ih).applyFn _ _
    | exact ($ih).mapArr _ _ _ _ | exact ($ih).mapList _ _ | exact ($ih).forceLazy _
    | exact safe_callFunction _ _)
  | exact safe_modify_same' _ (fun _ => ⟨rfl, rfl, rfl, rfl, rfl⟩)
  | (dsimp only; safe_step)))

/-- state-level leaf: a `set` of an update that leaves the tables alone -/
macro "set_same" : tactic => `(tactic| (simp only [run_set, run_bind, run_pure, run_modify]; exact Step.of_same rfl rfl rfl rfl rfl))


/-- state-level leaf: a `set` of an update that leaves the tables alone -/
macro "set_same" : tactic => `(tactic| (simp only [run_set, run_bind, run_pure, run_modify]; exact Step.of_same rfl rfl rfl rfl rfl))

theorem safe_exec_succ (n : Nat) (ih : AllSafe n) (i : Instr) : Safe (exec (n+1) i) := by
  cases i with
  | pop =>
    simp only [VM.exec]
    apply safe_get_bind; intro s
    split
    · exact to_safe safe_incPc s
    · exact Step.refl s
    · set_same
  | ret =>
    simp only [VM.exec]
    apply safe_get_bind; intro s
    split
    · exact Step.refl s
    · exact Step.refl s
    · set_same
  | addScope =>
    simp only [VM.exec]
    intro s; rw [run_modify]
    exact Step.of_addScope {} rfl rfl rfl rfl rfl
  | addFuncScope t =>
    simp only [VM.exec]
    intro s; rw [run_modify]
    exact Step.of_addScope { isFunction := true, myFunction := some t } rfl rfl rfl rfl rfl
  | createClosure t =>
    simp only [VM.exec]
    refine safe_bind safe_incPc (fun _ => ?_)
    apply safe_get_bind; intro s
    try dsimp only
    rw [run_bind, run_set]
    refine Step.trans ?_ (safe_pushData _ _)
    exact Step.of_addFn _ rfl rfl rfl rfl rfl (fun w id hid => w.linear id (closingNow_sub s id hid))
  | pushLazy e =>
    simp only [VM.exec]
    apply safe_get_bind; intro s
    rw [run_bind, run_set]
    try dsimp only
    refine Step.trans (b := _) ?_ (to_safe (m := do pushData (.lazy s.lazies.length); incPc) ?_ _)
    · exact Step.of_addLazy { e, stack := s.linear, curfunc := s.curfunc, value := none } rfl rfl rfl rfl rfl (fun w => w.linear)
    · safe_ih ih
  | push v => simp only [VM.exec]; safe_ih ih
  | dup => simp only [VM.exec]; safe_ih ih
  | envToStack x => simp only [VM.exec]; safe_ih ih
  | popStackPutEnv x => simp only [VM.exec]; safe_ih ih
  | update x => simp only [VM.exec]; safe_ih ih
  | callArr k => simp only [VM.exec]; safe_ih ih
  | callExpr c a => simp only [VM.exec]; safe_ih ih
  | jump o => simp only [VM.exec]; safe_ih ih
  | goto l => simp only [VM.exec]; safe_ih ih
  | branch d o => simp only [VM.exec]; safe_ih ih
  | removeScope => simp only [VM.exec]; safe_ih ih
  | prepareCall x k => simp only [VM.exec]; safe_ih ih
  | tailGuard x k =>
    simp only [VM.exec]
    apply safe_get_bind; intro s
    split
    · split
      · exact to_safe safe_incPc s
      · set_same
    · set_same
  | loopStart l => simp only [VM.exec]; safe_ih ih
  | label => simp only [VM.exec]; safe_ih ih
  | pushMark l => simp only [VM.exec]; safe_ih ih
  | popUntilMark l => simp only [VM.exec]; safe_ih ih
  | clearMark l => simp only [VM.exec]; safe_ih ih
  | brk l k => simp only [VM.exec]; safe_ih ih
  | cont l k => simp only [VM.exec]; safe_ih ih
  | assign => simp only [VM.exec]; safe_ih ih


theorem mkFunction_run (name : String) (code : List Instr) (closing : List (Option Nat)) (parent : Option Nat) (s : St) :
    (mkFunction name code closing parent).run s =
      (.ok s.fns.length, { s with fns := s.fns ++ [({ name, code, closing, parent } : FnObj)] }) := rfl

variable (hC : ∀ isFn c e, GenOK (compile isFn c e))

theorem safe_run_succ (n : Nat) (ih : AllSafe n) : Safe (run (n+1)) := by
  simp only [VM.run]; safe_ih ih

theorem safe_runLoop_succ (n : Nat) (ih : AllSafe n) (st : CtlState) : Safe (runLoop (n+1) st) := by
  simp only [VM.runLoop]
  apply safe_get_bind
  intro s
  split
  · exact Step.refl s
  · split
    · exact Step.refl s
    · rename_i instr hi
      try dsimp only
      rw [run_bind, run_set]
      have hstep := ih.exec instr s
      rcases hr : (exec n instr).run s with ⟨r1, s1⟩
      rw [hr] at hstep
      dsimp only
      refine hstep.trans (to_safe ?_ s1)
      safe_ih ih

include hC in
theorem safe_evalCallExpr_succ (n : Nat) (ih : AllSafe n) (e : Expr) : Safe (evalCallExpr (n+1) e) := by
  unfold ZygoVerif.VM.evalCallExpr
  split
  · safe_ih ih
  · refine safe_bind safe_get (fun s0 => ?_)
    refine safe_bind (safe_runGen _ (hC _ _ _)) (fun p => ?_)
    obtain ⟨code, t⟩ := p
    dsimp only
    split
    · exact safe_pure _
    · refine safe_bind safe_capture (fun st => ?_)
      apply safe_get_bind; intro s
      rw [run_bind, mkFunction_run]
      refine Step.trans (b := _) ?_ (to_safe (m := do modify (fun s => { s with pc := -2 }); nested n s.fns.length st) ?_ _)
      · exact Step.of_addFn _ rfl rfl rfl rfl rfl (fun w id hid => w.linear id (closingNow_sub s id hid))
      · safe_ih ih

theorem safe_nested_succ (n : Nat) (ih : AllSafe n) (f : Nat) (st : CtlState) : Safe (nested (n+1) f st) := by
  simp only [VM.nested]
  apply safe_get_bind; intro s
  try dsimp only
  rw [run_bind, run_set]
  have hm : Safe (do callFunction f 0; run n : M Val) := safe_bind (safe_callFunction _ _) (fun _ => ih.run)
  have hstep := hm s
  rcases hr : (do callFunction f 0; run n : M Val).run s with ⟨r1, s1⟩
  rw [hr] at hstep
  dsimp only
  refine hstep.trans (to_safe ?_ s1)
  safe_ih ih

theorem safe_prepareArgs_succ (n : Nat) (ih : AllSafe n) (f : Option FnObj) (i : Nat) (es : List Expr) :
    Safe (prepareArgs (n+1) f i es) := by
  cases es with
  | nil => simp only [VM.prepareArgs]; exact safe_pure _
  | cons e es =>
    unfold ZygoVerif.VM.prepareArgs
    refine safe_ite ?_ ?_
    · apply safe_get_bind; intro s
      rw [run_bind, run_set]
      refine Step.trans (b := _) ?_
        (to_safe (m := do let r ← pushData (.lazy s.lazies.length); prepareArgs n f (i + 1) es) ?_ _)
      · exact Step.of_addLazy { e, stack := s.linear, curfunc := s.curfunc, value := none } rfl rfl rfl rfl rfl
          (fun w => w.linear)
      · safe_ih ih
    · safe_ih ih

/-- the `guarded` wrapper of `CallResolved`, and the same shape elsewhere: run `m` from the
current state, keep its state, continue on its result. -/
theorem step_run_set {α β} (m : M α) (hm : Safe m) (k : Except Fault α → M β) (hk : ∀ r, Safe (k r)) (s : St) :
    Step s ((do set (m.run s).2; k (m.run s).1 : M β).run s).2 := by
  rw [run_bind, run_set]
  have hstep := hm s
  generalize m.run s = p at hstep ⊢
  obtain ⟨r1, s1⟩ := p
  exact hstep.trans (hk r1 s1)

theorem safe_callResolved_succ (n : Nat) (ih : AllSafe n) (f : Val) (args : List Expr) :
    Safe (callResolved (n+1) f args) := by
  unfold ZygoVerif.VM.callResolved
  refine safe_bind safe_get (fun s0 => ?_)
  have guarded : ∀ (m : M Unit), Safe m → Safe (do
      let s ← get
      let r : Except Fault Unit × St := m.run s
      set r.2
      match r.1 with
      | .ok _ => pure ()
      | .error .err => do modify (fun s => { s with data := truncate s.data s0.data.length }); throw .err
      | .error flt => throw flt : M Unit) := by
    intro m hm
    apply safe_get_bind; intro s
    dsimp only
    rw [run_bind, run_set]
    have hstep := hm s
    generalize m.run s = p at hstep ⊢
    obtain ⟨r1, s1⟩ := p
    dsimp only
    refine hstep.trans (to_safe ?_ s1)
    safe_ih ih
  dsimp only
  split
  · exact guarded _ (by safe_ih ih)
  · exact guarded _ (by safe_ih ih)
  · exact guarded _ (by safe_ih ih)
  · safe_ih ih

theorem safe_callUser_succ (n : Nat) (ih : AllSafe n) (name : String) (nargs : Nat) :
    Safe (callUser (n+1) name nargs) := by
  unfold ZygoVerif.VM.callUser
  refine safe_bind safe_get (fun s0 => ?_)
  dsimp only
  split
  · exact safe_err_bind _
  split
  · exact safe_hostPanic_bind _
  refine safe_bind (safe_popN _) (fun args => ?_)
  refine safe_bind safe_capture (fun st => ?_)
  refine safe_bind (safe_modify_same' _ (fun _ => ⟨rfl, rfl, rfl, rfl, rfl⟩)) (fun _ => ?_)
  apply safe_get_bind; intro s
  try dsimp only
  rw [run_bind, run_set]
  have hstep := ih.builtin name args s
  generalize (builtin n name args).run s = p at hstep ⊢
  obtain ⟨r1, s1⟩ := p
  dsimp only
  refine hstep.trans (to_safe ?_ s1)
  split
  · refine safe_bind (safe_pushData _) (fun _ => ?_)
    apply safe_get_bind; intro s2
    split
    · split
      · set_same
      · exact Step.refl _
    · set_same
  · exact safe_throw _
  · safe_ih ih

theorem safe_allocRet (vs : List Val) : Safe (do
    let s ← get
    let (a, h) := s.heap.alloc vs
    set { s with heap := h }
    pure a : M Val) := by
  apply safe_get_bind; intro s
  split
  set_same

theorem safe_primCall (name : String) (args : List Val) : Safe (do
    let s ← get
    match prim name args s.heap with
    | some (v, h) => set { s with heap := h }; pure v
    | none => err : M Val) := by
  apply safe_get_bind; intro s
  split
  · set_same
  · exact Step.refl s

/-- the `substitute` arm of `builtin` (C16): reads a lazy object, may allocate in the data heap. -/
theorem safe_substituteLazy (id : Nat) : Safe (do
    let s ← get
    match s.lazies[id]? with
    | none => err
    | some lz =>
      if lz.isValue then pure (lz.value.getD .nil)
      else
        let (v, h) := quoteE lz.e s.heap
        set { s with heap := h }
        pure v : M Val) := by
  apply safe_get_bind; intro s
  split
  · exact Step.refl s
  · split
    · exact Step.refl s
    · split
      set_same

theorem safe_builtin_succ (n : Nat) (ih : AllSafe n) (name : String) (args : List Val) :
    Safe (builtin (n+1) name args) := by
  unfold ZygoVerif.VM.builtin
  repeat' (first
    | with_reducible exact safe_allocRet _
    | exact safe_substituteLazy _
    | exact safe_primCall _ _
    | (safe_ih ih; done)
    | split
    | refine safe_bind ?_ (fun _ => ?_))

/-- `Apply` hands the arguments over: pushed on the data stack, a lazy position wrapped in an
already forced lazy object whose scope stack is empty. -/
theorem step_applyWrap (fo : FnObj) (args : List Val) (s : St) (i : Nat) :
    Step s (args.foldl (fun (p : St × Nat) v =>
      if fo.isLazyCallArg p.2 then
        ({ p.1 with lazies := p.1.lazies ++ [({ e := .nilLit, stack := [], curfunc := 0, value := some v, isValue := true } : LazyObj)],
                    data := some (.lazy p.1.lazies.length) :: p.1.data }, p.2 + 1)
      else ({ p.1 with data := some v :: p.1.data }, p.2 + 1)) (s, i)).1 := by
  induction args generalizing s i with
  | nil => exact Step.refl s
  | cons v rest ih =>
    simp only [List.foldl_cons]
    split
    · refine Step.trans ?_ (ih _ _)
      exact Step.of_addLazy { e := .nilLit, stack := [], curfunc := 0, value := some v, isValue := true } rfl rfl rfl rfl rfl
        (fun _ id hid => by simp [idsOf] at hid)
    · refine Step.trans ?_ (ih _ _)
      exact Step.of_same rfl rfl rfl rfl rfl

theorem safe_applyFn_succ (n : Nat) (ih : AllSafe n) (f : Val) (args : List Val) :
    Safe (applyFn (n+1) f args) := by
  unfold ZygoVerif.VM.applyFn
  split
  · exact ih.builtin _ _
  · rename_i id
    refine safe_bind safe_capture (fun st => ?_)
    refine safe_bind (safe_modify_same' _ (fun _ => ⟨rfl, rfl, rfl, rfl, rfl⟩)) (fun _ => ?_)
    apply safe_get_bind; intro s
    dsimp only
    rw [run_bind, run_set]
    refine Step.trans (step_applyWrap (fnOf s id) args s 0) ?_
    generalize (List.foldl _ (s, 0) args).1 = s1
    refine to_safe ?_ s1
    apply safe_get_bind; intro s2
    try dsimp only
    rw [run_bind, run_set]
    have hm : Safe (do callFunction id args.length; run n : M Val) := safe_bind (safe_callFunction _ _) (fun _ => ih.run)
    have hstep := hm s2
    generalize (do callFunction id args.length; run n : M Val).run s2 = p at hstep ⊢
    obtain ⟨r1, s3⟩ := p
    dsimp only
    refine hstep.trans (to_safe ?_ s3)
    safe_ih ih
  · exact safe_err

theorem safe_mapArr_succ (n : Nat) (ih : AllSafe n) (f : Val) (r i k : Nat) : Safe (mapArr (n+1) f r i k) := by
  unfold ZygoVerif.VM.mapArr
  safe_ih ih

theorem safe_mapList_succ (n : Nat) (ih : AllSafe n) (f : Val) (l : Val) : Safe (mapList (n+1) f l) := by
  unfold ZygoVerif.VM.mapList
  safe_ih ih

/-! ### `Force`: safety relative to "lazy object `id` still has the scope stack `stk`" -/

def LazyHas (id : Nat) (stk : List (Option Nat)) (s : St) : Prop := (s.lazies[id]?).map (·.stack) = some stk

theorem LazyHas.stable {id : Nat} {stk : List (Option Nat)} {s s' : St} (h : LazyHas id stk s) (e : Ext s s') :
    LazyHas id stk s' := by
  unfold LazyHas at h ⊢
  have hlt : id < s.lazies.length := by
    cases hg : s.lazies[id]? with
    | none => simp [hg] at h
    | some z => exact (List.getElem?_eq_some_iff.mp hg).1
  rw [e.lazyStack id hlt]; exact h

theorem LazyHas.bounded {id : Nat} {stk : List (Option Nat)} {s : St} (h : LazyHas id stk s) (w : WF s) :
    ∀ j ∈ idsOf stk, j < s.scopes.length := by
  unfold LazyHas at h
  cases hg : s.lazies[id]? with
  | none => simp [hg] at h
  | some z =>
    simp only [hg, Option.map_some, Option.some.injEq] at h
    rw [← h]
    exact w.lazies z (List.mem_of_getElem? hg)

def SafeP {α} (P : St → Prop) (m : M α) : Prop := ∀ s, P s → Step s (m.run s).2

theorem safeP_of_safe {α} {P : St → Prop} {m : M α} (h : Safe m) : SafeP P m := fun s _ => h s

theorem safeP_bind {α β} {P : St → Prop} (hstab : ∀ s s', P s → Ext s s' → P s') {m : M α} {f : α → M β}
    (hm : SafeP P m) (hf : ∀ a, SafeP P (f a)) : SafeP P (m >>= f) := by
  intro s hp
  rw [run_bind]
  have h := hm s hp
  generalize m.run s = p at h ⊢
  obtain ⟨r, s'⟩ := p
  cases r with
  | ok a => exact h.trans (hf a s' (hstab s s' hp h.1))
  | error e => exact h

theorem safeP_finish (id : Nat) (lz : LazyObj) (v : Val) :
    SafeP (LazyHas id lz.stack) (do
      modify (fun s => { s with lazies := s.lazies.set id ({ lz with value := some v } : LazyObj) })
      pure v : M Val) := by
  intro s hp
  simp only [run_bind, run_modify, run_pure]
  have hlt : id < s.lazies.length := by
    unfold LazyHas at hp
    cases hg : s.lazies[id]? with
    | none => simp [hg] at hp
    | some z => exact (List.getElem?_eq_some_iff.mp hg).1
  refine Step.of_scopes_same rfl (Nat.le_refl _) (fun _ _ => ⟨rfl, rfl⟩) (fun w => w.linear) (fun w => w.suspended)
    (fun w => w.closing) (fun w z hz => ?_) (by simp) (fun i hi => ?_)
  · rcases List.mem_or_eq_of_mem_set hz with hz | hz
    · exact w.lazies z hz
    · subst hz; exact hp.bounded w
  · by_cases hi' : i = id
    · subst hi'
      unfold LazyHas at hp
      simp [List.getElem?_set_self hlt, hp]
    · simp [List.getElem?_set_ne (Ne.symm hi')]

include hC in
theorem safe_forceLazy_succ (n : Nat) (ih : AllSafe n) (id : Nat) : Safe (forceLazy (n+1) id) := by
  unfold ZygoVerif.VM.forceLazy
  apply safe_get_bind; intro s0
  split
  · exact Step.refl s0
  · rename_i lz hlz
    split
    · exact Step.refl s0
    · have hp : LazyHas id lz.stack s0 := by unfold LazyHas; simp [hlz]
      have hstab : ∀ s s', LazyHas id lz.stack s → Ext s s' → LazyHas id lz.stack s' := fun _ _ h e => h.stable e
      refine (?_ : SafeP (LazyHas id lz.stack) _) s0 hp
      refine safeP_bind hstab (safeP_of_safe (safe_runGen _ (hC _ _ _))) (fun p => ?_)
      obtain ⟨code, t⟩ := p
      dsimp only
      split
      · exact safeP_finish id lz _
      · refine safeP_bind hstab ?_ (fun f => ?_)
        · intro s hps
          rw [mkFunction_run]
          exact Step.of_addFn _ rfl rfl rfl rfl rfl (fun w => hps.bounded w)
        · refine safeP_bind hstab (safeP_of_safe safe_capture) (fun st => ?_)
          refine safeP_bind hstab ?_ (fun _ => ?_)
          · intro s hps
            rw [run_modify]
            refine Step.of_scopes_same rfl (Nat.le_refl _) (fun _ _ => ⟨rfl, rfl⟩) (fun w => hps.bounded w)
              (fun w l hl => ?_) (fun w => w.closing) (fun w => w.lazies)
            rcases List.mem_cons.mp hl with rfl | hl
            · exact w.linear
            · exact w.suspended l hl
          · exact safeP_bind hstab (safeP_of_safe (ih.nested _ _)) (fun v => safeP_finish id lz v)

theorem allSafe_zero : AllSafe 0 where
  run := by unfold ZygoVerif.VM.run; exact safe_throw _
  runLoop := fun _ => by unfold ZygoVerif.VM.runLoop; exact safe_throw _
  exec := fun _ => by unfold ZygoVerif.VM.exec; exact safe_throw _
  evalCallExpr := fun _ => by unfold ZygoVerif.VM.evalCallExpr; exact safe_throw _
  nested := fun _ _ => by unfold ZygoVerif.VM.nested; exact safe_throw _
  prepareArgs := fun _ _ es => by unfold ZygoVerif.VM.prepareArgs; exact safe_throw _
  callResolved := fun _ _ => by unfold ZygoVerif.VM.callResolved; exact safe_throw _
  callUser := fun _ _ => by unfold ZygoVerif.VM.callUser; exact safe_throw _
  builtin := fun _ _ => by unfold ZygoVerif.VM.builtin; exact safe_throw _
  applyFn := fun _ _ => by unfold ZygoVerif.VM.applyFn; exact safe_throw _
  mapArr := fun _ _ _ _ => by unfold ZygoVerif.VM.mapArr; exact safe_throw _
  mapList := fun _ _ => by unfold ZygoVerif.VM.mapList; exact safe_throw _
  forceLazy := fun _ => by unfold ZygoVerif.VM.forceLazy; exact safe_throw _

include hC in
/-- Every function of the VM's mutual block, at every fuel, from every state: a `Step`. -/
theorem allSafe : ∀ fuel, AllSafe fuel
  | 0 => allSafe_zero
  | n+1 =>
    have ih := allSafe n
    { run := safe_run_succ n ih
      runLoop := safe_runLoop_succ n ih
      exec := safe_exec_succ n ih
      evalCallExpr := safe_evalCallExpr_succ hC n ih
      nested := safe_nested_succ n ih
      prepareArgs := safe_prepareArgs_succ n ih
      callResolved := safe_callResolved_succ n ih
      callUser := safe_callUser_succ n ih
      builtin := safe_builtin_succ n ih
      applyFn := safe_applyFn_succ n ih
      mapArr := safe_mapArr_succ n ih
      mapList := safe_mapList_succ n ih
      forceLazy := safe_forceLazy_succ hC n ih }


end ZygoVerif.Scope
