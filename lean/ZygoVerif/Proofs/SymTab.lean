/-
Lemmas behind Props/C19.lean: the bounded loops of the model never run out of fuel
(pigeonhole), `itoa` is injective, `makeSymbol`/`genSymbol` keep the tables mutually
inverse, only ever add entries, and return what the tables say afterwards.
Core Lean only.
-/
import ZygoVerif.Model.SymTab
namespace ZygoVerif.SymTab

/-! ### association lists -/

theorem alookup_cons {α β} [DecidableEq α] (k a : α) (b : β) (r : List (α × β)) :
    alookup k ((a, b) :: r) = if k = a then some b else alookup k r := rfl

theorem alookup_none_iff {α β} [DecidableEq α] (k : α) (l : List (α × β)) :
    alookup k l = none ↔ k ∉ l.map Prod.fst := by
  induction l with
  | nil => simp [alookup]
  | cons p r ih =>
    obtain ⟨a, b⟩ := p
    rw [alookup_cons]
    by_cases h : k = a
    · simp [h]
    · simp [h, ih]

theorem isSome_false_iff {α} (o : Option α) : o.isSome = false ↔ o = none := by
  cases o <;> simp

/-! ### the loop `for { if !p(n) break; n++ }` -/

theorem findFree_ge (p : Nat → Bool) (fuel n : Nat) : n ≤ findFree p fuel n := by
  induction fuel generalizing n with
  | zero => simp [findFree]
  | succ f ih =>
    simp only [findFree]
    split
    · exact Nat.le_trans (Nat.le_succ n) (ih (n + 1))
    · exact Nat.le_refl n

/-- If some number in `[n, n+fuel]` is free, the loop stops at a free number (it leaves
through `break`, not because the fuel ran out). -/
theorem findFree_free (p : Nat → Bool) (fuel n : Nat)
    (h : ∃ m, n ≤ m ∧ m ≤ n + fuel ∧ p m = false) : p (findFree p fuel n) = false := by
  induction fuel generalizing n with
  | zero =>
    obtain ⟨m, h1, h2, h3⟩ := h
    have : m = n := by omega
    simpa [findFree, this] using h3
  | succ f ih =>
    simp only [findFree]
    by_cases hp : p n = true
    · simp only [hp, if_true]
      apply ih
      obtain ⟨m, h1, h2, h3⟩ := h
      have : m ≠ n := by intro e; rw [e] at h3; rw [hp] at h3; cases h3
      exact ⟨m, by omega, by omega, h3⟩
    · simp only [hp]
      simpa using hp

/-- Everything the loop stepped over was taken. -/
theorem findFree_skipped (p : Nat → Bool) (fuel n m : Nat)
    (h1 : n ≤ m) (h2 : m < findFree p fuel n) : p m = true := by
  induction fuel generalizing n with
  | zero => simp [findFree] at h2; omega
  | succ f ih =>
    simp only [findFree] at h2
    by_cases hp : p n = true
    · simp only [hp, if_true] at h2
      by_cases e : m = n
      · rw [e]; exact hp
      · exact ih (n + 1) (by omega) h2
    · simp only [hp] at h2
      simp at h2; omega

/-- Pigeonhole: an injective sequence cannot keep `keys.length + 1` consecutive values
inside `keys`. -/
theorem exists_free {α} [DecidableEq α] (keys : List α) (f : Nat → α)
    (inj : ∀ a b, f a = f b → a = b) (n : Nat) :
    ∃ m, n ≤ m ∧ m ≤ n + keys.length ∧ f m ∉ keys := by
  apply Classical.byContradiction
  intro hno
  have hall : ∀ m, n ≤ m → m ≤ n + keys.length → f m ∈ keys := by
    intro m h1 h2
    apply Classical.byContradiction
    intro hm
    exact hno ⟨m, h1, h2, hm⟩
  let L := (List.range' n (keys.length + 1)).map f
  have hnd : L.Nodup := by
    have := List.nodup_range' (s := n) (n := keys.length + 1)
    simp only [L, List.Nodup] at this ⊢
    rw [List.pairwise_map]
    exact this.imp (fun hab e => hab (inj _ _ e))
  have hsub : L ⊆ keys := by
    intro x hx
    simp only [L, List.mem_map, List.mem_range'_1] at hx
    obtain ⟨m, ⟨h1, h2⟩, rfl⟩ := hx
    exact hall m h1 (by omega)
  have := hnd.length_le_of_subset hsub
  simp [L] at this
  omega

/-! ### `strconv.Itoa` is injective -/

def digitVal (acc d : Nat) : Nat := acc * 10 + (d - 48)

theorem foldl_digitsAux (fuel n : Nat) (acc : List Nat) (h : n < fuel) :
    (digitsAux fuel n acc).foldl digitVal 0 = acc.foldl digitVal n := by
  induction fuel generalizing n acc with
  | zero => omega
  | succ f ih =>
    simp only [digitsAux]
    split
    · simp [List.foldl_cons, digitVal]
    · rw [ih (n / 10) _ (by omega)]
      simp only [List.foldl_cons, digitVal]
      congr 1
      omega

theorem itoa_val (n : Nat) : (itoa n).foldl digitVal 0 = n := by
  simp [itoa, foldl_digitsAux n.succ n [] (Nat.lt_succ_self n)]

theorem itoa_inj (a b : Nat) (h : itoa a = itoa b) : a = b := by
  have := congrArg (List.foldl digitVal 0) h
  simpa [itoa_val] using this

theorem genName_inj (pre : Name) (a b : Nat) (h : genName pre a = genName pre b) : a = b :=
  itoa_inj a b (List.append_cancel_left h)

/-! ### the tables -/

/-- `symtable` and `revsymtable` are mutually inverse. -/
def Inv (t : Tables) : Prop :=
  ∀ name k, alookup name t.sym = some k ↔ alookup k t.rev = some name

theorem inv_empty : Inv Tables.empty := by
  intro name k; simp [Tables.empty, alookup]

theorem used_false_iff (t : Tables) (k : Nat) : t.used k = false ↔ alookup k t.rev = none := by
  simp [Tables.used]

theorem hasName_false_iff (t : Tables) (n : Name) : t.hasName n = false ↔ alookup n t.sym = none := by
  simp [Tables.hasName]

/-- The skip loop of `MakeSymbol` always ends on an unused number. -/
theorem skip_unused (t : Tables) (c : Nat) :
    alookup (findFree t.used (t.rev.length + 1) c) t.rev = none := by
  rw [← used_false_iff]
  apply findFree_free
  obtain ⟨m, h1, h2, h3⟩ := exists_free (t.rev.map Prod.fst) id (fun _ _ h => h) c
  refine ⟨m, h1, by simp at h2; omega, ?_⟩
  rw [used_false_iff, alookup_none_iff]
  exact h3

/-- The candidate loop of the repaired `GenSymbol` always ends on a name that is not in the
table. -/
theorem gen_candidate_new (t : Tables) (c : Nat) (pre : Name) :
    alookup (genName pre (findFree (fun n => t.hasName (genName pre n)) (t.sym.length + 1) c)) t.sym = none := by
  rw [← hasName_false_iff]
  apply findFree_free (fun n => t.hasName (genName pre n))
  obtain ⟨m, h1, h2, h3⟩ := exists_free (t.sym.map Prod.fst) (genName pre) (genName_inj pre) c
  refine ⟨m, h1, by simp at h2; omega, ?_⟩
  show t.hasName (genName pre m) = false
  rw [hasName_false_iff, alookup_none_iff]
  exact h3

/-- What `makeSymbol` does, as a case split. -/
theorem makeSymbol_cases (t : Tables) (c : Nat) (name : Name) :
    (∃ k, alookup name t.sym = some k ∧ makeSymbol t c name = ⟨t, c, k, name⟩) ∨
    (alookup name t.sym = none ∧ ∃ k, alookup k t.rev = none ∧ c ≤ k ∧
      makeSymbol t c name = ⟨⟨(name, k) :: t.sym, (k, name) :: t.rev⟩, k + 1, k, name⟩) := by
  unfold makeSymbol
  cases h : alookup name t.sym with
  | some k => exact Or.inl ⟨k, rfl, rfl⟩
  | none => exact Or.inr ⟨rfl, _, skip_unused t c, findFree_ge _ _ _, rfl⟩

theorem inv_insert (t : Tables) (name : Name) (k : Nat) (hI : Inv t)
    (hn : alookup name t.sym = none) (hk : alookup k t.rev = none) :
    Inv ⟨(name, k) :: t.sym, (k, name) :: t.rev⟩ := by
  intro n' k'
  simp only [alookup_cons]
  by_cases e1 : n' = name <;> by_cases e2 : k' = k
  · simp [e1, e2]
  · subst e1
    simp only [if_true, e2, if_false]
    constructor
    · intro h; exact absurd (Option.some.inj h).symm e2
    · intro h; rw [← hI] at h; rw [hn] at h; cases h
  · subst e2
    simp only [e1, if_false, if_true]
    constructor
    · intro h; rw [hI] at h; rw [hk] at h; cases h
    · intro h; exact absurd (Option.some.inj h).symm e1
  · simp only [e1, e2, if_false]; exact hI n' k'

theorem makeSymbol_inv (t : Tables) (c : Nat) (name : Name) (hI : Inv t) :
    Inv (makeSymbol t c name).tab := by
  rcases makeSymbol_cases t c name with ⟨k, _, e⟩ | ⟨hn, k, hk, _, e⟩
  · rw [e]; exact hI
  · rw [e]; exact inv_insert t name k hI hn hk

/-- Tables only grow: an existing binding is never changed or removed. -/
theorem makeSymbol_mono_sym (t : Tables) (c : Nat) (name n : Name) (k : Nat)
    (h : alookup n t.sym = some k) : alookup n (makeSymbol t c name).tab.sym = some k := by
  rcases makeSymbol_cases t c name with ⟨k', _, e⟩ | ⟨hn, k', _, _, e⟩
  · rw [e]; exact h
  · rw [e]; simp only [alookup_cons]
    have : n ≠ name := by intro e'; rw [e', hn] at h; cases h
    simp [this, h]

theorem makeSymbol_mono_rev (t : Tables) (c : Nat) (name n : Name) (k : Nat)
    (h : alookup k t.rev = some n) : alookup k (makeSymbol t c name).tab.rev = some n := by
  rcases makeSymbol_cases t c name with ⟨k', _, e⟩ | ⟨_, k', hk, _, e⟩
  · rw [e]; exact h
  · rw [e]; simp only [alookup_cons]
    have : k ≠ k' := by intro e'; rw [e', hk] at h; cases h
    simp [this, h]

/-- The symbol handed out is what the table says afterwards, and it has the requested name. -/
theorem makeSymbol_result (t : Tables) (c : Nat) (name : Name) :
    (makeSymbol t c name).name = name ∧
    alookup name (makeSymbol t c name).tab.sym = some (makeSymbol t c name).num := by
  rcases makeSymbol_cases t c name with ⟨k, h, e⟩ | ⟨_, k, _, _, e⟩
  · rw [e]; exact ⟨rfl, h⟩
  · rw [e]; simp [alookup_cons]

/-- The counter never goes backwards. -/
theorem makeSymbol_ctr (t : Tables) (c : Nat) (name : Name) : c ≤ (makeSymbol t c name).ctr := by
  rcases makeSymbol_cases t c name with ⟨k, _, e⟩ | ⟨_, k, _, hk, e⟩
  · rw [e]; exact Nat.le_refl c
  · rw [e]; exact Nat.le_succ_of_le hk

/-- `genSymbol` is `makeSymbol` of a name that is not in the table. -/
theorem genSymbol_eq (t : Tables) (c : Nat) (pre : Name) :
    ∃ c' , c ≤ c' ∧ alookup (genName pre c') t.sym = none ∧
      genSymbol t c pre = makeSymbol t c' (genName pre c') :=
  ⟨_, findFree_ge _ _ _, gen_candidate_new t c pre, rfl⟩

/-- Freshness at the level of the tables: the generated symbol's name and number were both
absent before the call. -/
theorem genSymbol_new (t : Tables) (c : Nat) (pre : Name) :
    alookup (genSymbol t c pre).name t.sym = none ∧ alookup (genSymbol t c pre).num t.rev = none := by
  obtain ⟨c', _, hn, e⟩ := genSymbol_eq t c pre
  rw [e]
  rcases makeSymbol_cases t c' (genName pre c') with ⟨k, h, _⟩ | ⟨_, k, hk, _, e'⟩
  · rw [hn] at h; cases h
  · rw [e']; exact ⟨hn, hk⟩

/-! ### the family: every operation is (at most) one `makeSymbol` on the shared tables -/

/-- The symbol carried by an observation. -/
def Obs.sym? : Obs → Option (Nat × Name)
  | .sym k n _ => some (k, n)
  | _ => none

/-- What one step does to the shared tables and what it shows: either nothing is interned
(duplicate, clone, bad member index), or exactly one `makeSymbol` call happens — for a
generation, on a name that was not in the table. Which member acts and what its counter is
only determines the argument `c`. -/
theorem step_shape (F : Family) (op : Op) :
    ((step F op).1.tab = F.tab ∧ (step F op).2.sym? = none) ∨
    ∃ c name, (step F op).1.tab = (makeSymbol F.tab c name).tab ∧
      (step F op).2 = .sym (makeSymbol F.tab c name).num name (existedIn F.tab (makeSymbol F.tab c name)) ∧
      (∀ i pre, op = .gen i pre → alookup name F.tab.sym = none) ∧
      (∀ i n, op = .mk i n ∨ op = .read i n → n = name) := by
  cases op with
  | mk i name =>
    simp only [step]
    cases F.mem[i]? with
    | none => exact Or.inl ⟨rfl, rfl⟩
    | some m =>
      refine Or.inr ⟨m.ctr, name, rfl, ?_, ?_, ?_⟩
      · simp [applyRes, (makeSymbol_result F.tab m.ctr name).1]
      · intro i pre h; cases h
      · intro j n h; rcases h with h | h <;> cases h; rfl
  | gen i pre =>
    simp only [step]
    cases F.mem[i]? with
    | none => exact Or.inl ⟨rfl, rfl⟩
    | some m =>
      obtain ⟨c', _, hn, e⟩ := genSymbol_eq F.tab m.ctr pre
      refine Or.inr ⟨c', genName pre c', ?_, ?_, ?_, ?_⟩
      · simp [applyRes, e]
      · simp [applyRes, e, (makeSymbol_result F.tab c' (genName pre c')).1]
      · intro _ _ _; exact hn
      · intro j n h; rcases h with h | h <;> cases h
  | dup i =>
    simp only [step]
    cases F.mem[i]? with
    | none => exact Or.inl ⟨rfl, rfl⟩
    | some m => exact Or.inl ⟨rfl, rfl⟩
  | clone i =>
    simp only [step]
    cases F.mem[i]? with
    | none => exact Or.inl ⟨rfl, rfl⟩
    | some m => exact Or.inl ⟨rfl, rfl⟩
  | read i name =>
    simp only [step]
    cases F.mem[i]? with
    | none => exact Or.inl ⟨rfl, rfl⟩
    | some m =>
      simp only []
      cases F.mem[m.parserOwner]? with
      | none => exact Or.inl ⟨rfl, rfl⟩
      | some o =>
        refine Or.inr ⟨o.ctr, name, rfl, ?_, ?_, ?_⟩
        · simp [applyRes, (makeSymbol_result F.tab o.ctr name).1]
        · intro i pre h; cases h
        · intro j n h; rcases h with h | h <;> cases h; rfl

theorem run_nil (F : Family) : run F [] = (F, []) := rfl

theorem run_cons (F : Family) (op : Op) (rest : List Op) :
    run F (op :: rest) = ((run (step F op).1 rest).1, (step F op).2 :: (run (step F op).1 rest).2) := rfl

theorem run_append_single (F : Family) (ops : List Op) (op : Op) :
    run F (ops ++ [op]) = ((step (run F ops).1 op).1, (run F ops).2 ++ [(step (run F ops).1 op).2]) := by
  induction ops generalizing F with
  | nil => rfl
  | cons o rest ih => simp only [List.cons_append, run_cons, ih]

/-! ### no shadowed entries: the association lists are what the Go maps hold -/

theorem mem_of_alookup {α β} [DecidableEq α] (l : List (α × β)) (a : α) (b : β)
    (h : alookup a l = some b) : (a, b) ∈ l := by
  induction l with
  | nil => cases h
  | cons p r ih =>
    obtain ⟨a', b'⟩ := p
    rw [alookup_cons] at h
    by_cases e : a = a'
    · simp only [e, if_true, Option.some.injEq] at h
      simp [e, h]
    · simp only [e, if_false] at h
      exact List.mem_cons_of_mem _ (ih h)

theorem alookup_of_mem_nodup {α β} [DecidableEq α] (l : List (α × β)) (hnd : (l.map Prod.fst).Nodup)
    (a : α) (b : β) (h : (a, b) ∈ l) : alookup a l = some b := by
  induction l with
  | nil => cases h
  | cons p r ih =>
    obtain ⟨a', b'⟩ := p
    simp only [List.map_cons, List.nodup_cons] at hnd
    rw [alookup_cons]
    rcases List.mem_cons.mp h with e | hin
    · cases e; simp
    · have : a ≠ a' := by
        intro e; apply hnd.1; rw [← e]
        exact List.mem_map.mpr ⟨(a, b), hin, rfl⟩
      simp only [this, if_false]
      exact ih hnd.2 hin

/-- Well-formed tables: mutually inverse, and no key occurs twice (so first-match lookup on
the list and membership in the list say the same thing). -/
structure Wf (t : Tables) : Prop where
  inv : Inv t
  symKeys : (t.sym.map Prod.fst).Nodup
  revKeys : (t.rev.map Prod.fst).Nodup

theorem wf_empty : Wf Tables.empty := ⟨inv_empty, by simp [Tables.empty], by simp [Tables.empty]⟩

theorem wf_insert (t : Tables) (name : Name) (k : Nat) (h : Wf t)
    (hn : alookup name t.sym = none) (hk : alookup k t.rev = none) :
    Wf ⟨(name, k) :: t.sym, (k, name) :: t.rev⟩ := by
  refine ⟨inv_insert t name k h.inv hn hk, ?_, ?_⟩
  · simp only [List.map_cons, List.nodup_cons]
    exact ⟨(alookup_none_iff name t.sym).mp hn, h.symKeys⟩
  · simp only [List.map_cons, List.nodup_cons]
    exact ⟨(alookup_none_iff k t.rev).mp hk, h.revKeys⟩

theorem makeSymbol_wf (t : Tables) (c : Nat) (name : Name) (h : Wf t) : Wf (makeSymbol t c name).tab := by
  rcases makeSymbol_cases t c name with ⟨k, _, e⟩ | ⟨hn, k, hk, _, e⟩
  · rw [e]; exact h
  · rw [e]; exact wf_insert t name k h hn hk

theorem step_wf (F : Family) (op : Op) (h : Wf F.tab) : Wf (step F op).1.tab := by
  rcases step_shape F op with ⟨ht, _⟩ | ⟨c, name, ht, _, _, _⟩
  · rw [ht]; exact h
  · rw [ht]; exact makeSymbol_wf F.tab c name h

theorem run_wf (F : Family) (ops : List Op) (h : Wf F.tab) : Wf (run F ops).1.tab := by
  induction ops generalizing F with
  | nil => exact h
  | cons op rest ih => rw [run_cons]; exact ih _ (step_wf F op h)

end ZygoVerif.SymTab
