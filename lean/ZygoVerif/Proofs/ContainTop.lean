/-
C05 on the executable VM model, part 1b: one program text (`VM.runText` = `LoadExpressions` +
`Run`) given to an interpreter at rest. A text that fails — at compile time (class `cerr`) or
at any point of its execution at any depth of re-entry (class `err`) — leaves the interpreter
with an empty data stack, ONE scope, an empty address stack, `curfunc = mainfunc` and the pc
behind the code of `mainfunc`: depths `0,1,0` in the harness vocabulary. No hypothesis about
the text.
-/
import ZygoVerif.Proofs.ContainSize
import ZygoVerif.Proofs.VMRest
set_option linter.unusedSimpArgs false
namespace ZygoVerif.Contain
open ZygoVerif.Core ZygoVerif.VM ZygoVerif.Sim

/-- the tables the generator hands back to the interpreter -/
def withGen (s : St) (gs' : GS) : St := { s with fns := gs'.fns, loops := gs'.loops, loopstack := gs'.loopstack }

/-- `runGen`: a failed compilation leaves the interpreter state as it was; a successful one
changes the function table, the loop table and the loop stack only. -/
theorem run_runGen {α} (g : G α) (s : St) :
    (runGen g).run s =
      match g.run { fns := s.fns, loops := s.loops, loopstack := s.loopstack, live := s.linear } with
      | .ok (a, gs') => (.ok a, withGen s gs')
      | .error _ => (.error .err, s) := by
  unfold runGen
  simp only [run_bind, run_get]
  split <;> rename_i h <;> simp only [h, run_bind, run_set, run_pure, run_err] <;> rfl

/-- the control part of an interpreter at rest, sizes only: what `VerifDepths`/`VerifAtEnd`
observe (`0,1,0`, at the end of `mainfunc`). -/
structure RestSized (s : St) : Prop where
  data : s.data = []
  linear : s.linear.length = 1
  addr : s.addr = []
  curfunc : s.curfunc = mainFn
  pcEnd : curSize s ≤ s.pc

theorem RestSized.of_atRest {s : St} (h : AtRest s) : RestSized s :=
  ⟨h.1, by rw [h.2.1]; rfl, h.2.2.1, h.2.2.2.2.1, h.2.2.2.2.2⟩

/-- the state `runText` hands to `Run` -/
def loaded (s : St) (gs' : GS) (code : List Instr) : St :=
  let s1 := withGen { s with trace := [] } gs'
  let pre : List Instr := if s.pc ≥ curSize { s with trace := [] } then [] else [.pop]
  let mf := fnOf s1 mainFn
  { s1 with fns := s1.fns.set mainFn { mf with code := mf.code ++ pre ++ code }, curfunc := mainFn }

theorem runText_eq (fuel : Nat) (es : List Expr) (s : St) :
    runText fuel es s =
      match (compileBegin (isFnScope { s with trace := [] }) {} es).run
          { fns := s.fns, loops := s.loops, loopstack := s.loopstack, live := s.linear } with
      | .error _ => (.done "cerr" "-" [] (depths { s with trace := [] }), { s with trace := [] }, true)
      | .ok ((code, _), gs') => finishRun ((run fuel).run (loaded s gs' code)) := by
  unfold runText
  simp only [run_runGen]
  cases hc : StateT.run (compileBegin (isFnScope { s with trace := [] }) {} es)
      { fns := s.fns, loops := s.loops, loopstack := s.loopstack, live := s.linear } with
  | error e => rfl
  | ok p =>
    obtain ⟨⟨code, t⟩, gs'⟩ := p
    rfl

theorem depths_rest (s : St) (hd : s.data = []) (hl : s.linear.length = 1) (ha : s.addr = [])
    (hls : s.loopstack = []) : depths s = "0,1,0,0" := by
  unfold depths
  rw [hd, hl, ha, hls]
  decide

/-- **runText_error_sized** — a failing text, given to an interpreter at rest, leaves it at
rest (sizes, function, pc) and usable. -/
theorem runText_error_sized (fuel : Nat) (es : List Expr) (s s' : St) (cls v d : String) (tr : List String)
    (alive : Bool) (h : AtRest s) (hr : runText fuel es s = (.done cls v tr d, s', alive))
    (hcls : cls = "err" ∨ cls = "cerr") :
    RestSized s' ∧ alive = true ∧ d = depths s' := by
  have hrs := RestSized.of_atRest h
  rw [runText_eq] at hr
  split at hr
  · -- compile error: nothing ran
    injection hr with h1 h2
    injection h2 with h2 h3
    injection h1 with _ _ _ h4
    subst h2
    exact ⟨⟨hrs.data, hrs.linear, hrs.addr, hrs.curfunc, hrs.pcEnd⟩, h3.symm, h4.symm⟩
  · rename_i code t gs' hc
    rcases hrun : (run fuel).run (loaded s gs' code) with ⟨r, s2⟩
    rw [hrun] at hr
    unfold finishRun at hr
    cases r with
    | ok val =>
      injection hr with h1 _
      injection h1 with h1
      subst h1
      rcases hcls with h | h <;> exact absurd h (by decide)
    | error flt =>
      cases flt with
      | err =>
        injection hr with h1 h2
        injection h2 with h2 h3
        injection h1 with _ _ _ h4
        dsimp only at h2 h4
        subst h2
        have hsz := run_error_sized fuel _ _ hrun
        have hd : s2.data = [] := List.eq_nil_of_length_eq_zero (by rw [hsz.data]; show s.data.length = 0; rw [hrs.data]; rfl)
        have ha : s2.addr = [] := List.eq_nil_of_length_eq_zero (by rw [hsz.addr]; show s.addr.length = 0; rw [hrs.addr]; rfl)
        have hl : s2.linear.length = 1 := by rw [hsz.linear]; exact hrs.linear
        exact ⟨⟨hd, hl, ha, hsz.curfunc, by rw [hsz.pcEnd]; exact Int.le_refl _⟩, h3.symm, h4.symm⟩
      | panic =>
        injection hr with h1 _
        injection h1 with h1
        subst h1
        rcases hcls with h | h <;> exact absurd h (by decide)
      | timeout =>
        injection hr with h1 _
        injection h1 with h1
        subst h1
        rcases hcls with h | h <;> exact absurd h (by decide)

end ZygoVerif.Contain
