/-
Proofs/RunCall2.lean — the calling contract, continued: nested runs (`nested`, `evalCallExpr`,
`prepareArgs`, `callUser`, `builtin`, `applyFn`, `mapArr`, `mapList`, `forceLazy`), the
instruction step `exec`, and the induction on the fuel (`allSpec`).
-/
import ZygoVerif.Proofs.RunCall
import ZygoVerif.Proofs.RunGenRT
set_option linter.unusedSimpArgs false
set_option linter.unusedVariables false
namespace ZygoVerif.RunInv
open ZygoVerif.Core ZygoVerif.VM ZygoVerif.Bal ZygoVerif.Refine ZygoVerif.TailVM ZygoVerif.Sim ZygoVerif.Contain

/-! ## `restore` after a nested run that came back to the sizes recorded -/

theorem truncate_self {α} (l : List (Option α)) : truncate l l.length = l :=
  truncate_of_suffix l l (List.suffix_refl l)

theorem restoreSt_same (st : CtlState) (s2 : St) (hd : s2.data.length = st.dataSize) (hl : s2.linear.length = st.linearSize)
    (ha : s2.addr.length = st.addrSize) (hs : s2.suspended.length = st.susp) :
    restoreSt st s2 = { s2 with curfunc := st.curfunc, pc := st.pc } := by
  have h1 : ¬ s2.suspended.length > st.susp := by omega
  simp only [restoreSt, linAt, suspAt, h1, if_false, ← hd, ← hl, ← ha, truncate_self]

theorem mem_truncate {α} {l : List (Option α)} {n : Nat} {c : Option α} (h : c ∈ truncate l n) : c ∈ l ∨ c = none := by
  unfold truncate at h
  split at h
  · exact Or.inl (List.mem_of_mem_drop h)
  · rcases List.mem_append.mp h with h | h
    · exact Or.inr (List.eq_of_mem_replicate h)
    · exact Or.inl h

theorem WF.restore {s : St} (h : WF s) (st : CtlState) : WF (restoreSt st s) := by
  refine h.mk' (TExt.same rfl rfl) (fun j h1 h2 => absurd h2 (Nat.not_lt.mpr h1)) h.loopstack h.scopes h.heap h.lazies ?_
  intro c hc
  rcases mem_truncate hc with hm | rfl
  · exact h.data c hm
  · trivial

/-! ## `nested` -/

theorem nested_succ (n : Nat) (ih : AllSpec n) (f : Nat) (st : CtlState) (s s' : St) (v : Val) (hw : WF s) (h2 : 2 ≤ f)
    (hlt : f < s.fns.length) (hp0 : (fnOf s f).params.length = 0) (hpc : s.pc = -2)
    (hex : (nested (n + 1) f st).run s = (.ok v, s')) :
    ∃ s2, s' = restoreSt st s2 ∧ WF s2 ∧ TExt s s2 ∧ vok s2.fns.length v = true ∧
      s2.data.map cellOf = s.data.map cellOf ∧ s2.linear = s.linear ∧ s2.addr = s.addr ∧ s2.curfunc = s.curfunc ∧
      s2.suspended = s.suspended := by
  simp only [VM.nested] at hex
  rw [run_bind, run_get] at hex
  dsimp only at hex
  rw [run_bind, run_set] at hex
  rcases hm : (do callFunction f 0; run n : M Val).run s with ⟨r, s2⟩
  rw [hm] at hex
  cases r with
  | error e => cases e <;> simp only [run_bind, run_restore, run_throw] at hex <;> cases hex
  | ok w =>
    simp only [run_bind, run_restore, run_pure] at hex
    cases hex
    rw [run_bind] at hm
    rcases hc : (callFunction f 0).run s with ⟨r1, s1⟩
    rw [hc] at hm
    cases r1 with
    | error e => cases hm
    | ok u =>
      simp only at hm
      have hg := hw.fns f h2 hlt
      obtain ⟨c1, c2, c3, c4, c5, c6, c7, hw1, c9⟩ := callFunction_ok f 0 s s1 (s.data.map cellOf) hw hg rfl hc
      rw [hp0] at c9
      simp only [List.replicate_zero, List.nil_append] at c9
      have hid1 : f < s1.fns.length := by rw [c6]; exact hlt
      obtain ⟨ann, hV, hact⟩ := actOK_of_good (hw1.fns f h2 hid1) hid1
      have hfo : fnOf s1 f = fnOf s f := by simp only [VM.fnOf, c6]
      let b : Base := ⟨s.data, s.linear, s.addr, s.curfunc, -2, false⟩
      have hrun : Running b s1 ⟨f, ann, s.data.map cellOf, s.linear.length, s.addr.length + 1⟩ [] := by
        refine ⟨c1, by rw [c2]; exact Int.le_refl 0, ?_, hact _ _ _, ⟨rfl, rfl, by rw [c3, hpc]; exact (if_neg Bool.false_ne_true).mpr rfl⟩, by rw [c4]; exact List.suffix_refl _⟩
        apply inv_entry _ _ hV
        · show s1.pc.toNat = 0; rw [c2]; rfl
        · show s1.data.map cellOf = List.replicate (fnOf s1 f).params.length Cell.val ++ _
          rw [c9, hfo, hp0]; rfl
        · show s1.linear.length = _; rw [c4]
        · show s1.addr.length = _; rw [c3]; simp
      obtain ⟨hw2, he2, hv2, d2, l2, a2, cu2, p2, su2⟩ := ih.run b s1 s2 _ v hw1 hrun rfl rfl hm
      exact ⟨s2, rfl, hw2, (TExt.same c6 c7).trans he2, hv2, d2, l2, a2, cu2, su2.trans c5⟩

/-! ## `evalCallExpr` -/

theorem run_mkFunction (name : String) (code : List Instr) (cl : List (Option Nat)) (par : Option Nat) (s : St) :
    (mkFunction name code cl par).run s =
      (.ok s.fns.length, { s with fns := s.fns ++ [({ name, code, closing := cl, parent := par } : FnObj)] }) := by
  unfold mkFunction
  simp only [run_bind, run_get, run_set, run_pure]

def thunkObj (name : String) (code : List Instr) (cl : List (Option Nat)) (par : Option Nat) : FnObj :=
  { name, code := code ++ [.ret], closing := cl, parent := par }

def thunkSt (s1 : St) (o : FnObj) (lin : List (Option Nat)) (susp : List (List (Option Nat))) : St :=
  { s1 with fns := s1.fns ++ [o], linear := lin, suspended := susp, pc := -2 }

/-- a helper made of freshly compiled code, run as a nested evaluation -/
theorem thunk_run (n : Nat) (ih : AllSpec n) (name : String) (s1 s' : St) (code : List Instr) (cl : List (Option Nat))
    (par : Option Nat) (v : Val) (hw1 : WF s1)
    (hc : AllOK (szS s1) code)
    (hv : ∃ ann, verify { kind := .fn, nformals := 0, varargs := false, nfixed := 0, code := B s1.loops (code ++ [Instr.ret]) } ann = true)
    (st : CtlState) (lin : List (Option Nat)) (susp : List (List (Option Nat)))
    (hex : (nested n s1.fns.length st).run (thunkSt s1 (thunkObj name code cl par) lin susp) = (.ok v, s')) :
    ∃ s2, s' = restoreSt st s2 ∧ WF s2 ∧ TExt s1 s2 ∧ vok s2.fns.length v = true ∧
      s2.data.map cellOf = s1.data.map cellOf ∧ s2.linear = lin ∧ s2.addr = s1.addr ∧ s2.curfunc = s1.curfunc ∧
      s2.suspended = susp := by
  obtain ⟨hw2, hg2⟩ := wf_mkThunk name code cl par hw1 hc hv
  have hw3 : WF (thunkSt s1 (thunkObj name code cl par) lin susp) :=
    hw2.mk' (TExt.same rfl rfl) (fun j h1 h2 => absurd h2 (Nat.not_lt.mpr h1)) hw2.loopstack hw2.scopes hw2.heap hw2.lazies hw2.data
  have hfo : fnOf (thunkSt s1 (thunkObj name code cl par) lin susp) s1.fns.length = thunkObj name code cl par := by
    show (s1.fns ++ [_]).getD s1.fns.length {} = _
    rw [List.getD_eq_getElem?_getD, List.getElem?_append_right (Nat.le_refl _), Nat.sub_self]
    rfl
  obtain ⟨s2, h1, h2, h3, h4, h5, h6, h7, h8, h9⟩ := ih.nested s1.fns.length st _ s' v hw3 hw1.two
    (by simp [thunkSt]) (by rw [hfo]; rfl) rfl hex
  exact ⟨s2, h1, h2, (show TExt s1 (thunkSt s1 (thunkObj name code cl par) lin susp) from ⟨⟨_, rfl⟩, ⟨[], by simp [thunkSt]⟩⟩).trans h3,
    h4, h5, h6, h7, h8, h9⟩

theorem eval_succ (n : Nat) (ih : AllSpec n) (e : Expr) (s s' : St) (v : Val) (hw : WF s) (hok : okL e = true)
    (hex : (evalCallExpr (n + 1) e).run s = (.ok v, s')) : Kept s s' ∧ vok s'.fns.length v = true := by
  unfold VM.evalCallExpr at hex
  split at hex
  · rename_i x
    rw [run_bind, run_get] at hex
    dsimp only at hex
    split at hex
    · rename_i id w hl
      simp only [run_pure] at hex
      cases hex
      exact ⟨Kept.refl hw, hw.stored (lexLookup_stored hl)⟩
    · simp only [run_err] at hex; cases hex
  · rw [run_bind, run_get] at hex
    dsimp only at hex
    rw [run_bind] at hex
    rcases hg : (runGen (compile (isFnScope s) {} e)).run s with ⟨r, s1⟩
    rw [hg] at hex
    cases r with
    | error er => cases hex
    | ok ct =>
      obtain ⟨code, t⟩ := ct
      obtain ⟨hw1, he1, g1, g2, g3, g4, g5, g6, g7, g8, g9, hcode, hver⟩ := wf_runGen (isFnScope s) e code t hw hok hg
      dsimp only at hex
      split at hex
      · simp only [run_pure] at hex
        cases hex
        exact ⟨⟨hw1, he1, ⟨by rw [g1], g2, g3, g4, g5, g6⟩⟩, rfl⟩
      · rw [run_bind, run_capture] at hex
        dsimp only at hex
        rw [run_bind, run_get] at hex
        dsimp only at hex
        rw [run_bind, run_mkFunction] at hex
        dsimp only at hex
        rw [run_bind, run_modify] at hex
        dsimp only at hex
        obtain ⟨s2, h1, hw2, he2, hv2, d2, l2, a2, c2, su2⟩ :=
          thunk_run n ih "callExprEval" s1 s' code _ _ v hw1 hcode hver (captureOf s1) s1.linear s1.suspended hex
        have hrs : s' = { s2 with curfunc := s1.curfunc, pc := s1.pc } := by
          rw [h1]
          apply restoreSt_same
          · show s2.data.length = s1.data.length
            have := congrArg List.length d2; simpa using this
          · show s2.linear.length = s1.linear.length; rw [l2]
          · show s2.addr.length = s1.addr.length; rw [a2]
          · show s2.suspended.length = s1.suspended.length; rw [su2]
        refine ⟨⟨by rw [h1]; exact hw2.restore _, ?_, ?_⟩, by rw [hrs]; exact hv2⟩
        · rw [hrs]; exact he1.trans (he2.trans (TExt.same rfl rfl))
        · rw [hrs]
          exact ⟨by show s2.data.map cellOf = _; rw [d2, g1], by show s2.linear = _; rw [l2, g2],
            by show s2.addr = _; rw [a2, g3], g4, g5, by show s2.suspended = _; rw [su2, g6]⟩

/-! ## `prepareArgs` -/

/-- the first operand goes to a lazy formal: a lazy object is pushed -/
theorem prep_lazy (e : Expr) (k : M Unit) (s s' : St) (hw : WF s) (hok : okL e = true)
    (hex : (do
      let t ← get
      set { t with lazies := t.lazies ++ [({ e, stack := t.linear, curfunc := t.curfunc, value := none } : LazyObj)] }
      pushData (.lazy t.lazies.length)
      k : M Unit).run s = (.ok (), s')) :
    ∃ s1, WF s1 ∧ TExt s s1 ∧ s1.data.map cellOf = .val :: s.data.map cellOf ∧ s1.linear = s.linear ∧
      s1.addr = s.addr ∧ s1.curfunc = s.curfunc ∧ s1.pc = s.pc ∧ s1.suspended = s.suspended ∧ k.run s1 = (.ok (), s') := by
  rw [run_bind, run_get] at hex
  dsimp only at hex
  rw [run_bind, run_set] at hex
  dsimp only at hex
  rw [run_bind, run_pushData] at hex
  dsimp only at hex
  refine ⟨{ s with lazies := s.lazies ++ [({ e, stack := s.linear, curfunc := s.curfunc, value := none } : LazyObj)],
                   data := some (.lazy s.lazies.length) :: s.data }, ?_, TExt.same rfl rfl, rfl, rfl, rfl, rfl, rfl, rfl, hex⟩
  refine hw.grow (TExt.same rfl rfl) (fun j h1 h2 => absurd h2 (Nat.not_lt.mpr h1)) rfl rfl rfl ?_ ?_
  · intro lz hlz
    rcases List.mem_append.mp hlz with hm | hm
    · left; exact hm
    · right
      simp at hm; subst hm
      exact ⟨hok, fun v hv => by cases hv⟩
  · intro c hcm
    rcases List.mem_cons.mp hcm with rfl | hcm
    · right; trivial
    · left; exact hcm

/-- the first operand is evaluated by a nested run -/
theorem prep_eval (n : Nat) (ih : AllSpec n) (e : Expr) (k : M Unit) (s s' : St) (hw : WF s) (hok : okL e = true)
    (hex : (do
      let v ← evalCallExpr n e
      pushData v
      k : M Unit).run s = (.ok (), s')) :
    ∃ s1, WF s1 ∧ TExt s s1 ∧ s1.data.map cellOf = .val :: s.data.map cellOf ∧ s1.linear = s.linear ∧
      s1.addr = s.addr ∧ s1.curfunc = s.curfunc ∧ s1.pc = s.pc ∧ s1.suspended = s.suspended ∧ k.run s1 = (.ok (), s') := by
  rw [run_bind] at hex
  rcases hev : (evalCallExpr n e).run s with ⟨r, s0⟩
  rw [hev] at hex
  cases r with
  | error er => cases hex
  | ok v =>
    dsimp only at hex
    rw [run_bind, run_pushData] at hex
    dsimp only at hex
    obtain ⟨hk, hv⟩ := ih.eval e s s0 v hw hok hev
    refine ⟨{ s0 with data := some v :: s0.data }, ?_, hk.ext.trans (TExt.same rfl rfl), ?_, hk.same.linear, hk.same.addr,
      hk.same.cur, hk.same.pc, hk.same.susp, hex⟩
    · refine hk.wf.setData _ _ ?_
      intro c hcm
      rcases List.mem_cons.mp hcm with rfl | hcm
      · exact cellOK_of_vok hv
      · exact hk.wf.data c hcm
    · show cellOf (some v) :: s0.data.map cellOf = _
      rw [cellOf_plain (vok_plain hv), hk.same.data]

theorem prep_succ (n : Nat) (ih : AllSpec n) (args : List Expr) (f : Option FnObj) (i : Nat) (s s' : St) (hw : WF s)
    (hok : okLs args = true) (hex : (prepareArgs (n + 1) f i args).run s = (.ok (), s')) :
    WF s' ∧ TExt s s' ∧ s'.data.map cellOf = List.replicate args.length .val ++ s.data.map cellOf ∧
      s'.linear = s.linear ∧ s'.addr = s.addr ∧ s'.curfunc = s.curfunc ∧ s'.pc = s.pc ∧ s'.suspended = s.suspended := by
  cases args with
  | nil =>
    simp only [VM.prepareArgs, run_pure] at hex
    cases hex
    exact ⟨hw, TExt.refl s, rfl, rfl, rfl, rfl, rfl, rfl⟩
  | cons e es =>
    simp only [okLs, Bool.and_eq_true] at hok
    unfold VM.prepareArgs at hex
    have key : ∃ s1, WF s1 ∧ TExt s s1 ∧ s1.data.map cellOf = .val :: s.data.map cellOf ∧ s1.linear = s.linear ∧
        s1.addr = s.addr ∧ s1.curfunc = s.curfunc ∧ s1.pc = s.pc ∧ s1.suspended = s.suspended ∧
        (prepareArgs n f (i + 1) es).run s1 = (.ok (), s') := by
      cases f with
      | none =>
        dsimp only at hex
        simp only [Bool.false_eq_true, if_false] at hex
        exact prep_eval n ih e _ s s' hw hok.1 hex
      | some fo =>
        dsimp only at hex
        by_cases hl : (!fo.user && fo.hasLazyFormals && fo.isLazyCallArg i) = true
        · simp only [hl, if_true] at hex
          exact prep_lazy e _ s s' hw hok.1 hex
        · simp only [hl, if_false] at hex
          exact prep_eval n ih e _ s s' hw hok.1 hex
    obtain ⟨s1, hw1, he1, d1, l1, a1, c1, p1, su1, hrest⟩ := key
    obtain ⟨hw2, he2, d2, l2, a2, c2, p2, su2⟩ := ih.prep f (i + 1) es s1 s' hw1 hok.2 hrest
    refine ⟨hw2, he1.trans he2, ?_, l2.trans l1, a2.trans a1, c2.trans c1, p2.trans p1, su2.trans su1⟩
    rw [d2, d1, List.length_cons, List.replicate_succ']
    simp

/-! ## `callUser` -/

theorem user_succ (n : Nat) (ih : AllSpec n) (name : String) (k : Nat) (s s' : St) (tail : List Cell) (hw : WF s)
    (hd : s.data.map cellOf = List.replicate k .val ++ tail) (hex : (callUser (n + 1) name k).run s = (.ok (), s')) :
    WF s' ∧ TExt s s' ∧ s'.data.map cellOf = .val :: tail ∧ s'.linear = s.linear ∧ s'.addr = s.addr ∧
      s'.curfunc = s.curfunc ∧ s'.pc = s.pc + 1 ∧ s'.suspended = s.suspended := by
  unfold VM.callUser at hex
  rw [run_bind, run_get] at hex
  dsimp only at hex
  by_cases h0 : s.data.length < k
  · simp only [h0, if_true, run_bind, run_err] at hex; cases hex
  · by_cases h00 : (s.data.take k).any Option.isNone = true
    · simp only [h0, h00, if_true, if_false, run_bind, run_pure, run_hostPanic] at hex; cases hex
    · simp only [h0, h00, if_false, run_bind, run_pure, Bool.false_eq_true] at hex
      rw [run_popN] at hex
      simp only [h0, if_false] at hex
      cases hm : (s.data.take k).mapM id with
      | none => rw [hm] at hex; cases hex
      | some vs =>
        rw [hm] at hex
        simp only [run_capture, run_modify, run_get, run_set] at hex
        have htake : (s.data.take k).map cellOf = List.replicate k Cell.val := by
          rw [List.map_take, hd, List.take_left' (by simp)]
        have hvs : ∀ v ∈ vs, vok s.fns.length v = true := by
          apply vals_vok _ vs hm (fun c hcm => hw.data c (List.mem_of_mem_take hcm))
          intro c hcm
          rw [htake] at hcm
          exact List.eq_of_mem_replicate hcm
        have hdrop : (s.data.drop k).map cellOf = tail := by
          rw [List.map_drop, hd, List.drop_left' (by simp)]
        -- the state the builtin runs in
        let s2 : St := { s with data := s.data.drop k, addr := some (s.curfunc, s.pc + 1) :: s.addr, curfunc := builtinFn, pc := -1 }
        have hw2 : WF s2 :=
          hw.mk' (TExt.same rfl rfl) (fun j h1 h2 => absurd h2 (Nat.not_lt.mpr h1)) hw.loopstack hw.scopes hw.heap hw.lazies
            (fun c hcm => hw.data c (List.mem_of_mem_drop hcm))
        rcases hb : (builtin n name vs.reverse).run s2 with ⟨r, s3⟩
        have hb' : (builtin n name vs.reverse).run
            { s with data := s.data.drop k, addr := some (s.curfunc, s.pc + 1) :: s.addr, curfunc := builtinFn, pc := -1 } = (r, s3) := hb
        rw [hb'] at hex
        cases r with
        | error e => cases e <;> simp only [run_bind, run_restore, run_throw] at hex <;> cases hex
        | ok v =>
          obtain ⟨hk, hv⟩ := ih.builtin name vs.reverse s2 s3 v hw2 rfl (fun a ha => hvs a (List.mem_reverse.mp ha)) hb
          simp only [run_bind, run_pushData, run_get] at hex
          have ha3 : s3.addr = some (s.curfunc, s.pc + 1) :: s.addr := hk.same.addr
          have hgt : (captureOf { s with data := s.data.drop k }).addrSize < (some (s.curfunc, s.pc + 1) :: s.addr).length := by
            show s.addr.length < (some (s.curfunc, s.pc + 1) :: s.addr).length; simp
          simp only [ha3] at hex
          rw [if_pos hgt] at hex
          simp only [run_set] at hex
          cases hex
          have he23 : TExt s s3 := (show TExt s s2 from TExt.same rfl rfl).trans hk.ext
          refine ⟨?_, he23.trans ⟨⟨[], by simp⟩, ⟨[], by simp⟩⟩, ?_, hk.same.linear, rfl, rfl, rfl, hk.same.susp⟩
          · refine hk.wf.mk' (TExt.same rfl rfl) (fun j h1 h2 => absurd h2 (Nat.not_lt.mpr h1)) hk.wf.loopstack hk.wf.scopes
              hk.wf.heap hk.wf.lazies ?_
            intro c hcm
            rcases List.mem_cons.mp hcm with rfl | hcm
            · exact cellOK_of_vok hv
            · exact hk.wf.data c hcm
          · show cellOf (some v) :: s3.data.map cellOf = _
            rw [cellOf_plain (vok_plain hv), hk.same.data, hdrop]

/-! ## `exec` -/

theorem exec_succ (n : Nat) (ih : AllSpec n) (b : Base) (s s' : St) (top : Act) (rest : List Act) (i : Instr) (hw : WF s)
    (hr : Running b s top rest) (hf : (fnOf s s.curfunc).code[s.pc.toNat]? = some i)
    (hex : (exec (n + 1) i).run s = (.ok (), s')) :
    WF s' ∧ TExt s s' ∧ Next b s' top rest ∧ s'.suspended = s.suspended := by
  have simple : isCall i = false → WF s' ∧ TExt s s' ∧ Next b s' top rest ∧ s'.suspended = s.suspended := by
    intro hs
    have r := exec_simple_ok n b s s' top rest i hw hr hf hs hex
    exact ⟨r.wf, r.ext, Or.inl r.run, r.susp⟩
  cases i with
  | callArr k => exact exec_callArr_ok n ih b s s' top rest k hw hr hf hex
  | ret => exact exec_ret_ok n b s s' top rest hw hr hf hex
  | callExpr c args =>
    have hio := hr.instrOK hf
    simp only [instrOK, Bool.and_eq_true] at hio
    simp only [exec] at hex
    rw [run_bind] at hex
    rcases hev : (evalCallExpr n c).run s with ⟨r, s1⟩
    rw [hev] at hex
    cases r with
    | error e => cases hex
    | ok f =>
      dsimp only at hex
      obtain ⟨hk, hv⟩ := ih.eval c s s1 f hw hio.1 hev
      have hr1 := hr.kept hk
      have hf1 : (fnOf s1 s1.curfunc).code[s1.pc.toNat]? = some (.callExpr c args) := by
        rw [hk.same.cur, hk.same.pc, hr.cur, hk.ext.fnOf top.f hr.ok.idx, ← hr.cur]
        exact hf
      obtain ⟨h1, h2, h3, h4⟩ := ih.resolved b s1 s' top rest f c args hk.wf hr1 hf1 hv hio.2 hex
      exact ⟨h1, hk.ext.trans h2, h3, h4.trans hk.same.susp⟩
  | push v => exact simple rfl
  | pop => exact simple rfl
  | dup => exact simple rfl
  | envToStack x => exact simple rfl
  | popStackPutEnv x => exact simple rfl
  | update x => exact simple rfl
  | jump off => exact simple rfl
  | goto loc => exact simple rfl
  | branch d off => exact simple rfl
  | addScope => exact simple rfl
  | addFuncScope t => exact simple rfl
  | removeScope => exact simple rfl
  | createClosure t => exact simple rfl
  | prepareCall x k => exact simple rfl
  | tailGuard x k => exact simple rfl
  | pushLazy e => exact simple rfl
  | loopStart l => exact simple rfl
  | label => exact simple rfl
  | pushMark l => exact simple rfl
  | popUntilMark l => exact simple rfl
  | clearMark l => exact simple rfl
  | brk l k => exact simple rfl
  | cont l k => exact simple rfl
  | assign => exact simple rfl

/-! ## Builtins -/

def heapOK (n : Nat) (h : DataHeap) : Prop := ∀ a ∈ h.arrs, ∀ v ∈ a, vok n v = true

/-- the pure builtins make storable values of storable values (Proofs/RunPrim.lean) -/
def PrimOK : Prop := ∀ (n : Nat) (name : String) (args : List Val) (h h' : DataHeap) (v : Val),
  (∀ a ∈ args, vok n a = true) → heapOK n h → prim name args h = some (v, h') → vok n v = true ∧ heapOK n h'

/-- the source of a lazy argument, handed out as data, is storable -/
def QuoteOK : Prop := ∀ (n : Nat) (e : Expr) (h h' : DataHeap) (v : Val),
  heapOK n h → quoteE e h = (v, h') → vok n v = true ∧ heapOK n h'

theorem WF.setHeap {s : St} (hw : WF s) (h' : DataHeap) (hh : heapOK s.fns.length h') : WF { s with heap := h' } :=
  hw.mk' (TExt.same rfl rfl) (fun j h1 h2 => absurd h2 (Nat.not_lt.mpr h1)) hw.loopstack hw.scopes hh hw.lazies hw.data

theorem kept_setHeap {s : St} (hw : WF s) (h' : DataHeap) (hh : heapOK s.fns.length h') : Kept s { s with heap := h' } :=
  ⟨hw.setHeap h' hh, TExt.same rfl rfl, ⟨rfl, rfl, rfl, rfl, rfl, rfl⟩⟩

theorem heap_get_vok {s : St} (hw : WF s) (r : Nat) : ∀ v ∈ s.heap.get r, vok s.fns.length v = true := by
  intro v hv
  unfold DataHeap.get at hv
  rw [List.getD_eq_getElem?_getD] at hv
  cases hr : s.heap.arrs[r]? with
  | none => rw [hr] at hv; simp at hv
  | some a => rw [hr] at hv; exact hw.heap a (List.mem_of_getElem? hr) v hv

theorem heapOK_alloc {n : Nat} {h : DataHeap} (hh : heapOK n h) (vs : List Val) (hv : ∀ v ∈ vs, vok n v = true) :
    heapOK n (h.alloc vs).2 := by
  intro a ha v hva
  simp only [DataHeap.alloc, List.mem_append, List.mem_cons, List.mem_nil_iff, or_false] at ha
  rcases ha with ha | rfl
  · exact hh a ha v hva
  · exact hv v hva

theorem listToArray_vok {n : Nat} : ∀ (l : Val) (xs : List Val), listToArray l = some xs → vok n l = true →
    ∀ x ∈ xs, vok n x = true
  | .nil, xs, h, _ => by simp [listToArray] at h; subst h; intro x hx; cases hx
  | .pair a t, xs, h, hv => by
    simp only [listToArray, Option.map_eq_some_iff] at h
    obtain ⟨ys, hy, rfl⟩ := h
    simp only [vok, Bool.and_eq_true] at hv
    intro x hx
    rcases List.mem_cons.mp hx with rfl | hx
    · exact hv.1
    · exact listToArray_vok t ys hy hv.2 x hx
  | .bool _, _, h, _ => by simp [listToArray] at h
  | .int _, _, h, _ => by simp [listToArray] at h
  | .str _, _, h, _ => by simp [listToArray] at h
  | .arr _, _, h, _ => by simp [listToArray] at h
  | .fn _, _, h, _ => by simp [listToArray] at h
  | .builtin _, _, h, _ => by simp [listToArray] at h
  | .lazy _, _, h, _ => by simp [listToArray] at h
  | .mark _, _, h, _ => by simp [listToArray] at h
  | .sym _, _, h, _ => by simp [listToArray] at h

theorem kept_vok_mono {s s' : St} (hk : Kept s s') {v : Val} (hv : vok s.fns.length v = true) : vok s'.fns.length v = true :=
  vok_mono hk.ext.fns_len v hv

theorem WF.setTrace {s : St} (hw : WF s) (t : List String) : Kept s { s with trace := t } :=
  ⟨hw.mk' (TExt.same rfl rfl) (fun j h1 h2 => absurd h2 (Nat.not_lt.mpr h1)) hw.loopstack hw.scopes hw.heap hw.lazies hw.data,
   TExt.same rfl rfl, ⟨rfl, rfl, rfl, rfl, rfl, rfl⟩⟩

theorem headD_vok {n : Nat} (args : List Val) (ha : ∀ a ∈ args, vok n a = true) : vok n (args.headD .nil) = true := by
  cases args with
  | nil => rfl
  | cons a r => exact ha a (by simp)

theorem builtin_succ (hP : PrimOK) (hQ : QuoteOK) (n : Nat) (ih : AllSpec n) (name : String) (args : List Val) (s s' : St) (v : Val)
    (hw : WF s) (hpc : s.pc = -1) (ha : ∀ a ∈ args, vok s.fns.length a = true) (hex : (builtin (n + 1) name args).run s = (.ok v, s')) :
    Kept s s' ∧ vok s'.fns.length v = true := by
  unfold VM.builtin at hex
  split at hex
  · -- trace
    simp only [run_bind, run_modify, run_pure] at hex
    cases hex
    exact ⟨hw.setTrace _, headD_vok args ha⟩
  split at hex
  · -- probe
    simp only [run_bind, run_modify, run_pure] at hex
    cases hex
    exact ⟨hw.setTrace _, rfl⟩
  split at hex
  · -- force
    split at hex
    · exact ih.force _ s s' v hw hex
    · rename_i w
      simp only [run_pure] at hex
      cases hex
      exact ⟨Kept.refl hw, ha _ (by simp)⟩
    · simp only [run_err] at hex; cases hex
  split at hex
  · -- substitute
    split at hex
    · rename_i id
      rw [run_bind, run_get] at hex
      dsimp only at hex
      split at hex
      · simp only [run_err] at hex; cases hex
      · rename_i lz hlz
        split at hex
        · simp only [run_pure] at hex
          cases hex
          refine ⟨Kept.refl hw, ?_⟩
          have hm := hw.lazies lz (List.mem_of_getElem? hlz)
          cases hv : lz.value with
          | none => rfl
          | some w => exact hm.2 w hv
        · rcases hq : quoteE lz.e s.heap with ⟨w, h'⟩
          simp only [hq, run_bind, run_set, run_pure] at hex
          cases hex
          obtain ⟨h1, h2⟩ := hQ s.fns.length lz.e s.heap h' v hw.heap hq
          exact ⟨kept_setHeap hw h' h2, h1⟩
    · rename_i w
      simp only [run_pure] at hex
      cases hex
      exact ⟨Kept.refl hw, ha _ (by simp)⟩
    · simp only [run_err] at hex; cases hex
  split at hex
  · -- apply
    split at hex
    · rename_i f coll
      split at hex
      · simp only [run_err] at hex; cases hex
      · rw [run_bind, run_get] at hex
        dsimp only at hex
        have hf := ha f (by simp)
        have hc := ha coll (by simp)
        split at hex
        · rename_i r
          exact ih.apply f _ s s' v hw hpc hf (heap_get_vok hw r) hex
        · rename_i a b
          split at hex
          · rename_i xs hxs
            exact ih.apply f xs s s' v hw hpc hf (listToArray_vok _ xs hxs hc) hex
          · simp only [run_err] at hex; cases hex
        · simp only [run_err] at hex; cases hex
    · simp only [run_err] at hex; cases hex
  split at hex
  · -- map
    split at hex
    · rename_i f coll
      split at hex
      · simp only [run_err] at hex; cases hex
      · have hf := ha f (by simp)
        have hc := ha coll (by simp)
        split at hex
        · rename_i r
          rw [run_bind, run_get] at hex
          dsimp only at hex
          rw [run_bind] at hex
          rcases hm : (mapArr n f r 0 (s.heap.get r).length).run s with ⟨rr, s1⟩
          rw [hm] at hex
          cases rr with
          | error e => cases hex
          | ok vs =>
            dsimp only at hex
            rw [run_bind, run_get] at hex
            dsimp only at hex
            obtain ⟨hk, hvs⟩ := ih.mapArr f r 0 _ s s1 vs hw hpc hf hm
            simp only [run_bind, run_set, run_pure] at hex
            cases hex
            have hh := heapOK_alloc hk.wf.heap vs hvs
            exact ⟨hk.trans (kept_setHeap hk.wf _ hh), rfl⟩
        · rename_i a b
          exact ih.mapList f _ s s' v hw hpc hf hc hex
        · simp only [run_err] at hex; cases hex
    · simp only [run_err] at hex; cases hex
  · -- the pure builtins
    rw [run_bind, run_get] at hex
    dsimp only at hex
    split at hex
    · rename_i w h' hp
      simp only [run_bind, run_set, run_pure] at hex
      cases hex
      obtain ⟨h1, h2⟩ := hP s.fns.length name args s.heap h' v ha hw.heap hp
      exact ⟨kept_setHeap hw h' h2, h1⟩
    · simp only [run_err] at hex; cases hex

/-! ## `applyFn`, `mapArr`, `mapList` -/

def lazyValObj (v : Val) : LazyObj := { e := .nilLit, stack := [], curfunc := 0, value := some v, isValue := true }

def pushLazyVal (s : St) (v : Val) : St :=
  { s with lazies := s.lazies ++ [lazyValObj v], data := some (.lazy s.lazies.length) :: s.data }

def pushVal (s : St) (v : Val) : St := { s with data := some v :: s.data }

/-- the operands of `Apply`, pushed (lazy positions wrapped in value lazies) -/
theorem applyWrap_spec (fo : FnObj) : ∀ (args : List Val) (s : St) (i : Nat), WF s → (∀ a ∈ args, vok s.fns.length a = true) →
    let s2 := (args.foldl (fun (p : St × Nat) v =>
      if fo.isLazyCallArg p.2 then
        ({ p.1 with lazies := p.1.lazies ++ [({ e := .nilLit, stack := [], curfunc := 0, value := some v, isValue := true } : LazyObj)],
                    data := some (.lazy p.1.lazies.length) :: p.1.data }, p.2 + 1)
      else ({ p.1 with data := some v :: p.1.data }, p.2 + 1)) (s, i)).1
    WF s2 ∧ s2.data.map cellOf = List.replicate args.length .val ++ s.data.map cellOf ∧ s2.fns = s.fns ∧ s2.loops = s.loops ∧
      s2.linear = s.linear ∧ s2.addr = s.addr ∧ s2.curfunc = s.curfunc ∧ s2.pc = s.pc ∧ s2.suspended = s.suspended
  | [], s, i, hw, _ => ⟨hw, rfl, rfl, rfl, rfl, rfl, rfl, rfl, rfl⟩
  | v :: rest, s, i, hw, ha => by
    simp only [List.foldl_cons]
    have hv := ha v (by simp)
    split
    · have hw1 : WF (pushLazyVal s v) := by
        refine hw.grow (TExt.same rfl rfl) (fun j h1 h2 => absurd h2 (Nat.not_lt.mpr h1)) rfl rfl rfl ?_ ?_
        · intro lz hlz
          rcases List.mem_append.mp hlz with hm | hm
          · left; exact hm
          · right
            simp at hm; subst hm
            exact ⟨rfl, fun w hw' => by cases hw'; exact hv⟩
        · intro c hcm
          rcases List.mem_cons.mp hcm with rfl | hcm
          · right; trivial
          · left; exact hcm
      obtain ⟨h1, h2, h3, h4, h5, h6, h7, h8, h9⟩ := applyWrap_spec fo rest (pushLazyVal s v) (i + 1) hw1 (fun a h => ha a (by simp [h]))
      refine ⟨h1, h2.trans ?_, h3, h4, h5, h6, h7, h8, h9⟩
      rw [List.length_cons, List.replicate_succ']
      simp [cellOf, pushLazyVal]
    · have hw1 : WF (pushVal s v) := by
        refine hw.setData _ _ ?_
        intro c hcm
        rcases List.mem_cons.mp hcm with rfl | hcm
        · exact cellOK_of_vok hv
        · exact hw.data c hcm
      obtain ⟨h1, h2, h3, h4, h5, h6, h7, h8, h9⟩ := applyWrap_spec fo rest (pushVal s v) (i + 1) hw1 (fun a h => ha a (by simp [h]))
      refine ⟨h1, h2.trans ?_, h3, h4, h5, h6, h7, h8, h9⟩
      rw [List.length_cons, List.replicate_succ']
      simp [cellOf_plain (vok_plain hv), pushVal]

theorem apply_succ (n : Nat) (ih : AllSpec n) (f : Val) (args : List Val) (s s' : St) (v : Val) (hw : WF s) (hpc : s.pc = -1)
    (hvf : vok s.fns.length f = true) (ha : ∀ a ∈ args, vok s.fns.length a = true)
    (hex : (applyFn (n + 1) f args).run s = (.ok v, s')) : Kept s s' ∧ vok s'.fns.length v = true := by
  unfold VM.applyFn at hex
  split at hex
  · rename_i name
    exact ih.builtin name args s s' v hw hpc ha hex
  · rename_i fid
    simp only [vok, decide_eq_true_eq] at hvf
    rw [run_bind, run_capture] at hex
    dsimp only at hex
    rw [run_bind, run_modify] at hex
    dsimp only at hex
    rw [run_bind, run_get] at hex
    dsimp only at hex
    rw [run_bind, run_set] at hex
    dsimp only at hex
    rw [run_bind, run_get] at hex
    dsimp only at hex
    have hw1 : WF { s with pc := -2 } := hw.setPc _
    obtain ⟨hw2, d2, f2, l2, li2, a2, c2, p2, su2⟩ := applyWrap_spec (fnOf { s with pc := -2 } fid) args { s with pc := -2 } 0 hw1 ha
    generalize hs2 : (args.foldl (fun (p : St × Nat) v =>
      if (fnOf { s with pc := -2 } fid).isLazyCallArg p.2 then
        ({ p.1 with lazies := p.1.lazies ++ [({ e := .nilLit, stack := [], curfunc := 0, value := some v, isValue := true } : LazyObj)],
                    data := some (.lazy p.1.lazies.length) :: p.1.data }, p.2 + 1)
      else ({ p.1 with data := some v :: p.1.data }, p.2 + 1)) ({ s with pc := -2 }, 0)).1 = s2 at hex hw2 d2 f2 l2 li2 a2 c2 p2 su2
    rw [run_bind, run_set] at hex
    rcases hm : (do callFunction fid args.length; run n : M Val).run s2 with ⟨r, s4⟩
    rw [hm] at hex
    cases r with
    | error e => cases e <;> simp only [run_bind, run_restore, run_throw] at hex <;> cases hex
    | ok w =>
      simp only [run_pure] at hex
      cases hex
      rw [run_bind] at hm
      rcases hc : (callFunction fid args.length).run s2 with ⟨r1, s3⟩
      rw [hc] at hm
      cases r1 with
      | error e => cases hm
      | ok u =>
        simp only at hm
        have hid2 : fid < s2.fns.length := by rw [f2]; exact hvf.2
        have hg := hw2.fns fid hvf.1 hid2
        obtain ⟨c1, c2', c3, c4, c5, c6, c7, hw3, c9⟩ := callFunction_ok fid args.length s2 s3 (s.data.map cellOf) hw2 hg d2 hc
        have hid3 : fid < s3.fns.length := by rw [c6]; exact hid2
        obtain ⟨ann, hV, hact⟩ := actOK_of_good (hw3.fns fid hvf.1 hid3) hid3
        have hfo : fnOf s3 fid = fnOf s2 fid := by simp only [VM.fnOf, c6]
        let b : Base := ⟨s.data, s.linear, s.addr, s.curfunc, -2, false⟩
        have hrun : Running b s3 ⟨fid, ann, s.data.map cellOf, s.linear.length, s.addr.length + 1⟩ [] := by
          refine ⟨c1, by rw [c2']; exact Int.le_refl 0, ?_, hact _ _ _, ⟨rfl, rfl, by rw [c3, c2, p2, a2]; exact (if_neg Bool.false_ne_true).mpr rfl⟩,
            by rw [c4, li2]; exact List.suffix_refl _⟩
          apply inv_entry _ _ hV
          · show s3.pc.toNat = 0; rw [c2']; rfl
          · show s3.data.map cellOf = List.replicate (fnOf s3 fid).params.length Cell.val ++ _
            rw [c9, hfo]
          · show s3.linear.length = _; rw [c4, li2]
          · show s3.addr.length = _; rw [c3, a2]; simp
        obtain ⟨hw4, he4, hv4, d4, l4, a4, cu4, p4, su4⟩ := ih.run b s3 s' _ v hw3 hrun rfl rfl hm
        have he : TExt s s' := (show TExt s s2 from TExt.same f2 l2).trans ((TExt.same c6 c7).trans he4)
        exact ⟨⟨hw4, he, ⟨d4, l4, a4, cu4, by rw [p4, hpc], by rw [su4, c5, su2]⟩⟩, hv4⟩
  · simp only [run_err] at hex; cases hex

theorem mapArr_succ (n : Nat) (ih : AllSpec n) (f : Val) (r i k : Nat) (s s' : St) (vs : List Val) (hw : WF s) (hpc : s.pc = -1)
    (hvf : vok s.fns.length f = true) (hex : (mapArr (n + 1) f r i k).run s = (.ok vs, s')) :
    Kept s s' ∧ ∀ v ∈ vs, vok s'.fns.length v = true := by
  unfold VM.mapArr at hex
  split at hex
  · simp only [run_pure] at hex
    cases hex
    exact ⟨Kept.refl hw, fun v hv => by cases hv⟩
  · rw [run_bind, run_get] at hex
    dsimp only at hex
    rw [run_bind] at hex
    rcases ha : (applyFn n f [(s.heap.get r).getD i .nil]).run s with ⟨rr, s1⟩
    rw [ha] at hex
    cases rr with
    | error e => cases hex
    | ok v =>
      dsimp only at hex
      rw [run_bind] at hex
      rcases hm : (mapArr n f r (i + 1) k).run s1 with ⟨rr2, s2⟩
      rw [hm] at hex
      cases rr2 with
      | error e => cases hex
      | ok ws =>
        simp only [run_pure] at hex
        cases hex
        have harg : ∀ a ∈ [(s.heap.get r).getD i Val.nil], vok s.fns.length a = true := by
          intro a hav
          simp only [List.mem_cons, List.mem_nil_iff, or_false] at hav
          subst hav
          rw [List.getD_eq_getElem?_getD]
          cases hg : (s.heap.get r)[i]? with
          | none => rfl
          | some x => exact heap_get_vok hw r x (List.mem_of_getElem? hg)
        obtain ⟨hk1, hv1⟩ := ih.apply f _ s s1 v hw hpc hvf harg ha
        obtain ⟨hk2, hv2⟩ := ih.mapArr f r (i + 1) k s1 s' ws hk1.wf (hk1.same.pc.trans hpc) (kept_vok_mono hk1 hvf) hm
        refine ⟨hk1.trans hk2, fun x hx => ?_⟩
        rcases List.mem_cons.mp hx with rfl | hx
        · exact kept_vok_mono hk2 hv1
        · exact hv2 x hx

theorem mapList_succ (n : Nat) (ih : AllSpec n) (f l : Val) (s s' : St) (v : Val) (hw : WF s) (hpc : s.pc = -1)
    (hvf : vok s.fns.length f = true) (hvl : vok s.fns.length l = true) (hex : (mapList (n + 1) f l).run s = (.ok v, s')) :
    Kept s s' ∧ vok s'.fns.length v = true := by
  unfold VM.mapList at hex
  split at hex
  · simp only [run_pure] at hex
    cases hex
    exact ⟨Kept.refl hw, rfl⟩
  · rename_i a b
    simp only [vok, Bool.and_eq_true] at hvl
    rw [run_bind] at hex
    rcases ha : (applyFn n f [a]).run s with ⟨rr, s1⟩
    rw [ha] at hex
    cases rr with
    | error e => cases hex
    | ok w =>
      dsimp only at hex
      rw [run_bind] at hex
      rcases hm : (mapList n f b).run s1 with ⟨rr2, s2⟩
      rw [hm] at hex
      cases rr2 with
      | error e => cases hex
      | ok t =>
        simp only [run_pure] at hex
        cases hex
        obtain ⟨hk1, hv1⟩ := ih.apply f [a] s s1 w hw hpc hvf (fun x hx => by simp at hx; subst hx; exact hvl.1) ha
        obtain ⟨hk2, hv2⟩ := ih.mapList f b s1 s' t hk1.wf (hk1.same.pc.trans hpc) (kept_vok_mono hk1 hvf)
          (kept_vok_mono hk1 hvl.2) hm
        refine ⟨hk1.trans hk2, ?_⟩
        simp only [vok, Bool.and_eq_true]
        exact ⟨kept_vok_mono hk2 hv1, hv2⟩
  · simp only [run_err] at hex; cases hex

/-! ## `forceLazy` -/

theorem bind_ok_inv {α β} (m : M α) (k : α → M β) (s s' : St) (b : β) (h : (m >>= k).run s = (.ok b, s')) :
    ∃ a s1, m.run s = (.ok a, s1) ∧ (k a).run s1 = (.ok b, s') := by
  rw [run_bind] at h
  rcases hm : m.run s with ⟨r, s1⟩
  rw [hm] at h
  cases r with
  | error e => cases h
  | ok a => exact ⟨a, s1, rfl, h⟩

/-- `restore` after the nested run of a forced lazy: the scope stack set aside comes back -/
theorem restoreSt_force (s1 s3 : St) (hd : s3.data.length = s1.data.length) (ha : s3.addr = s1.addr)
    (hs : s3.suspended = s1.linear :: s1.suspended) :
    restoreSt (captureOf s1) s3 = { s3 with linear := s1.linear, suspended := s1.suspended, curfunc := s1.curfunc, pc := s1.pc } := by
  have h1 : s3.suspended.length > (captureOf s1).susp := by rw [hs]; show (s1.linear :: s1.suspended).length > s1.suspended.length; simp
  have hidx : s3.suspended.length - (captureOf s1).susp - 1 = 0 := by
    rw [hs]; show (s1.linear :: s1.suspended).length - s1.suspended.length - 1 = 0; simp
  have hdrop : s3.suspended.length - (captureOf s1).susp = 1 := by
    rw [hs]; show (s1.linear :: s1.suspended).length - s1.suspended.length = 1; simp
  simp only [restoreSt, linAt, suspAt, h1, if_true, hidx, hdrop]
  have e1 : truncate s3.addr (captureOf s1).addrSize = s1.addr := by rw [ha]; exact truncate_self _
  have e2 : truncate (s3.suspended.getD 0 []) (captureOf s1).linearSize = s1.linear := by
    rw [hs]; exact truncate_self _
  have e3 : truncate s3.data (captureOf s1).dataSize = s3.data := by
    show truncate s3.data s1.data.length = _; rw [← hd]; exact truncate_self _
  rw [e1, e2, e3, hs]
  simp [ha]
  exact ⟨rfl, rfl⟩

theorem force_succ (n : Nat) (ih : AllSpec n) (id : Nat) (s s' : St) (v : Val) (hw : WF s)
    (hex : (forceLazy (n + 1) id).run s = (.ok v, s')) : Kept s s' ∧ vok s'.fns.length v = true := by
  unfold VM.forceLazy at hex
  rw [run_bind, run_get] at hex
  dsimp only at hex
  split at hex
  · simp only [run_err] at hex; cases hex
  · rename_i lz hlz
    have hlzm := hw.lazies lz (List.mem_of_getElem? hlz)
    split at hex
    · rename_i w hval
      simp only [run_pure] at hex
      cases hex
      exact ⟨Kept.refl hw, hlzm.2 v hval⟩
    · rw [run_bind] at hex
      rcases hg : (runGen (compile (isFnScope s) {} lz.e)).run s with ⟨r, s1⟩
      rw [hg] at hex
      cases r with
      | error er => cases hex
      | ok ct =>
        obtain ⟨code, t⟩ := ct
        obtain ⟨hw1, he1, g1, g2, g3, g4, g5, g6, g7, g8, g9, hcode, hver⟩ := wf_runGen (isFnScope s) lz.e code t hw hlzm.1 hg
        dsimp only at hex
        -- storing the value in the lazy object
        have finish : ∀ (t0 t1 : St) (w : Val), WF t0 → vok t0.fns.length w = true →
            (do modify (fun s => { s with lazies := s.lazies.set id ({ lz with value := some w } : LazyObj) })
                pure w : M Val).run t0 = (.ok v, t1) → Kept t0 t1 ∧ w = v := by
          intro t0 t1 w hw0 hvw h
          simp only [run_bind, run_modify, run_pure] at h
          cases h
          refine ⟨⟨?_, TExt.same rfl rfl, ⟨rfl, rfl, rfl, rfl, rfl, rfl⟩⟩, rfl⟩
          refine hw0.grow (TExt.same rfl rfl) (fun j h1 h2 => absurd h2 (Nat.not_lt.mpr h1)) rfl rfl rfl ?_ (fun c h => Or.inl h)
          intro l hl
          rcases List.mem_or_eq_of_mem_set hl with hm | rfl
          · left; exact hm
          · right
            exact ⟨hlzm.1, fun x hx => by cases hx; exact hvw⟩
        split at hex
        · obtain ⟨hk, rfl⟩ := finish s1 s' .nil hw1 rfl hex
          exact ⟨(show Kept s s1 from ⟨hw1, he1, ⟨by rw [g1], g2, g3, g4, g5, g6⟩⟩).trans hk, rfl⟩
        · rw [run_bind, run_mkFunction] at hex
          dsimp only at hex
          rw [run_bind, run_capture] at hex
          dsimp only at hex
          rw [run_bind, run_modify] at hex
          dsimp only at hex
          obtain ⟨w, s4, hn, hfin⟩ := bind_ok_inv _ _ _ _ _ hex
          obtain ⟨s3, h1, hw3, he3, hv3, d3, l3, a3, c3, su3⟩ :=
            thunk_run n ih "lazyArgForce" s1 s4 code lz.stack (some lz.curfunc) w hw1 hcode hver
              (captureOf s1) lz.stack (s1.linear :: s1.suspended) hn
          have hrs : s4 = { s3 with linear := s1.linear, suspended := s1.suspended, curfunc := s1.curfunc, pc := s1.pc } := by
            rw [h1]
            have := restoreSt_force s1 s3 (by have := congrArg List.length d3; simpa using this) a3 su3
            exact this
          have hw4 : WF s4 := by rw [h1]; exact hw3.restore _
          have hk14 : Kept s1 s4 := by
            refine ⟨hw4, ?_, ?_⟩
            · rw [hrs]; exact he3.trans (TExt.same rfl rfl)
            · rw [hrs]
              exact ⟨d3, rfl, a3, rfl, rfl, rfl⟩
          have hv4 : vok s4.fns.length w = true := by rw [hrs]; exact hv3
          obtain ⟨hk, rfl⟩ := finish s4 s' w hw4 hv4 hfin
          exact ⟨((show Kept s s1 from ⟨hw1, he1, ⟨by rw [g1], g2, g3, g4, g5, g6⟩⟩).trans hk14).trans hk, kept_vok_mono hk hv4⟩

/-! ## The induction on the fuel -/

theorem allSpec_zero : AllSpec 0 where
  exec := fun b s s' top rest i _ _ _ h => by simp only [VM.exec, run_throw] at h; cases h
  resolved := fun b s s' top rest f c0 args _ _ _ _ _ h => by simp only [VM.callResolved, run_throw] at h; cases h
  loop := fun b st s s' _ _ _ _ h => by rw [runLoop_zero] at h; cases h
  run := fun b s s' top v _ _ _ _ h => by simp only [VM.run, run_throw] at h; cases h
  nested := fun f st s s' v _ _ _ _ _ h => by simp only [VM.nested, run_throw] at h; cases h
  eval := fun e s s' v _ _ h => by simp only [VM.evalCallExpr, run_throw] at h; cases h
  prep := fun f i args s s' _ _ h => by simp only [VM.prepareArgs, run_throw] at h; cases h
  user := fun name k s s' tail _ _ h => by simp only [VM.callUser, run_throw] at h; cases h
  builtin := fun name args s s' v _ _ _ h => by simp only [VM.builtin, run_throw] at h; cases h
  apply := fun f args s s' v _ _ _ _ h => by simp only [VM.applyFn, run_throw] at h; cases h
  mapArr := fun f r i k s s' vs _ _ _ h => by simp only [VM.mapArr, run_throw] at h; cases h
  mapList := fun f l s s' v _ _ _ _ h => by simp only [VM.mapList, run_throw] at h; cases h
  force := fun id s s' v _ h => by simp only [VM.forceLazy, run_throw] at h; cases h

/-- **The calling contract**: the specifications of all functions of the VM's mutual block, at
every fuel. -/
theorem allSpec (hP : PrimOK) (hQ : QuoteOK) : ∀ n, AllSpec n
  | 0 => allSpec_zero
  | n + 1 =>
    have ih := allSpec hP hQ n
    { exec := fun b s s' top rest i hw hr hf h => exec_succ n ih b s s' top rest i hw hr hf h
      resolved := fun b s s' top rest f c0 args hw hr hf hv ho h => resolved_succ n ih b s s' top rest f c0 args hw hr hf hv ho h
      loop := fun b st s s' hw hl hb hm h => loop_succ n ih b st s s' hw hl hb hm h
      run := fun b s s' top v hw hr hb hm h => run_succ n ih b s s' top v hw hr hb hm h
      nested := fun f st s s' v hw h2 hlt hp hpc h => nested_succ n ih f st s s' v hw h2 hlt hp hpc h
      eval := fun e s s' v hw hok h => eval_succ n ih e s s' v hw hok h
      prep := fun f i args s s' hw hok h => prep_succ n ih args f i s s' hw hok h
      user := fun name k s s' tail hw hd h => user_succ n ih name k s s' tail hw hd h
      builtin := fun name args s s' v hw hpc ha h => builtin_succ hP hQ n ih name args s s' v hw hpc ha h
      apply := fun f args s s' v hw hpc hvf ha h => apply_succ n ih f args s s' v hw hpc hvf ha h
      mapArr := fun f r i k s s' vs hw hpc hvf h => mapArr_succ n ih f r i k s s' vs hw hpc hvf h
      mapList := fun f l s s' v hw hpc hvf hvl h => mapList_succ n ih f l s s' v hw hpc hvf hvl h
      force := fun id s s' v hw h => force_succ n ih id s s' v hw h }

end ZygoVerif.RunInv
