/-
C02, execution half — F2a: user functions (top-level `defn`, calls by name, recursion).

The simulation statement `SimF` (as `SimC`, with the id map `m` that may be extended, and the
result related through `tr`), and the segment lemma for the fragment `Ff` by induction on the
reference evaluator's fuel.
-/
import ZygoVerif.Proofs.SimF2Env
set_option linter.unusedSimpArgs false
set_option linter.unusedVariables false
namespace ZygoVerif.Sim
open ZygoVerif.Core ZygoVerif.VM

/-! ## The simulation statement -/

def SimF (code : List Instr) (m : Nat → Nat) (s : St) (rs : Ref.St) (env : Nat) (res : Ref.R Val) : Prop :=
  match res with
  | .ok v' rs' => ∃ s' m' v, ReachX s s' ∧ Lands code.length v s s' ∧ v' = trf m' v ∧ RelF m' s' rs' env
      ∧ MExt s m m' ∧ RExt rs rs' ∧ FrameF s s' ∧ VOk m' s' rs' v
  | .err rs' => FailsX s rs'.trace
  | .timeout => True
  | .brk _ _ => False
  | .cont _ _ => False

/-! ## Atoms -/

theorem vOk_lit {m s rs} (v : Val) (h : ∀ m β μ, tr m β μ v = v) : VOk m s rs v := valIn_of_const h

theorem simF_push {m : Nat → Nat} {s : St} {rs : Ref.St} {env : Nat} {pre post : List Instr} (v : Val)
    (hv : ∀ m β μ, tr m β μ v = v) (hrel : RelF m s rs env) (h : Seg s pre [.push v] post) :
    SimF [.push v] m s rs env (.ok v rs) :=
  ⟨s.jmp (s.pc + 1) (some v :: s.data), m, v, (reach_push h.head).toX, ⟨rfl, by simp, rfl⟩, (hv m id id).symm,
    hrel.jmp _ _, MExt.refl s m, RExt.refl rs, FrameF.jmp _ _ _, vOk_lit v hv⟩

/-- what the VM lookup finds is a binding of the scope it names -/
theorem lexLookup_sound {s : St} {x : String} {id : Nat} {v : Val} (h : lexLookup s x = some (id, v)) :
    (scopeOf s id).vars.lookup x = some v := by
  rw [Scope.lexLookup_eq] at h
  obtain ⟨_, _, _, _, hv⟩ := Scope.firstBinding_some h
  exact hv

theorem simF_sym {m : Nat → Nat} {s : St} {rs : Ref.St} {env : Nat} {pre post : List Instr} (x : String) (n : Nat)
    (hx : okSym x = true) (hrel : RelF m s rs env) (h : Seg s pre [.envToStack x] post) :
    SimF [.envToStack x] m s rs env (Ref.eval (n + 1) (.sym x) env rs) := by
  rw [Ref.eval]
  have hl := hrel.lexLookup x
  cases hv : lexLookup s x with
  | none =>
    rw [hv] at hl
    rw [← hl]
    simp only [Option.map_none, SimF]
    have : Fails 1 s s.trace := Fails.step h.head (fun f => by rw [exec_envToStack, hv])
    rw [hrel.trace] at this
    exact this.toX
  | some r =>
    obtain ⟨id, v⟩ := r
    rw [hv] at hl
    rw [← hl]
    simp only [Option.map_some, trp2, SimF]
    exact ⟨s.jmp (s.pc + 1) (some v :: s.data), m, v,
      (Reach.step h.head (fun f => by rw [exec_envToStack, hv])).toX,
      ⟨rfl, by simp, rfl⟩, rfl, hrel.jmp _ _, MExt.refl s m, RExt.refl rs, FrameF.jmp _ _ _,
      VOk.ext (hrel.vok id x v hx (lexLookup_sound hv)) (Frame.jmp _ _ _) (RExt.refl rs) (MExt.refl s m)⟩

/-! ## `def`, `set` -/

/-- `popStackPutEnv x` with `v` on top of the data stack, in related states -/
theorem psp_stepF {m : Nat → Nat} {s₁ : St} {rs₁ : Ref.St} {env : Nat} {P Q : List Instr} {x : String} {v : Val}
    {D : List (Option Val)} (a : At s₁ P (.popStackPutEnv x) Q) (hd : s₁.data = some v :: D) (rel1 : RelF m s₁ rs₁ env)
    (hx : okName x = true) (hcv : VOk m s₁ rs₁ v) :
    match Ref.define rs₁ env x (trf m v) with
    | some rs₂ => Reach 1 1 s₁ ((s₁.jmp (s₁.pc + 1) D).bind env x v)
        ∧ RelF m ((s₁.jmp (s₁.pc + 1) D).bind env x v) rs₂ env ∧ RExt rs₁ rs₂
    | none => Fails 1 s₁ rs₁.trace := by
  obtain ⟨b, hc, hfc⟩ := rel1.ctx
  obtain ⟨rest, hlin⟩ := hc.head
  have hlt := hc.lt
  obtain ⟨fr, hfr⟩ : ∃ fr, rs₁.frames[env]? = some fr := ⟨rs₁.frames[env], by simp [hlt]⟩
  have hv := rel1.vars env x
  rw [List.getD_eq_getElem?_getD, hfr, Option.getD_some] at hv
  have hx' : ∀ f, (exec (f + 1) (.popStackPutEnv x)).run s₁ = (bindTop x v).run (s₁.jmp (s₁.pc + 1) D) :=
    fun f => exec_popStackPutEnv f x _ v D hd
  have hb := run_bindTop x v (s₁.jmp (s₁.pc + 1) D)
  rw [show (s₁.jmp (s₁.pc + 1) D).linear = some env :: rest from hlin] at hb
  simp only at hb
  rw [show scopeOf (s₁.jmp (s₁.pc + 1) D) env = scopeOf s₁ env from rfl] at hb
  rw [ref_define_eq rs₁ env x (trf m v) fr hfr, hv]
  have hok : (bindTop x v).run (s₁.jmp (s₁.pc + 1) D) = (.ok (), (s₁.jmp (s₁.pc + 1) D).bind env x v) →
      Reach 1 1 s₁ ((s₁.jmp (s₁.pc + 1) D).bind env x v)
        ∧ RelF m ((s₁.jmp (s₁.pc + 1) D).bind env x v) (Ref.setVar rs₁ env x (trf m v)) env
        ∧ RExt rs₁ (Ref.setVar rs₁ env x (trf m v)) := fun hb' =>
    ⟨Reach.step a (fun f => (hx' f).trans hb'),
      (rel1.jmp _ _).bind env hlt hx (VOk.ext hcv (Frame.jmp _ _ _) (RExt.refl _) (MExt.refl _ _)),
      FramesExt.setVar _ _ _ _, fun i c hc => by rw [setVar_clos]; exact hc⟩
  have herr : (bindTop x v).run (s₁.jmp (s₁.pc + 1) D) = (.error .err, s₁.jmp (s₁.pc + 1) D) →
      Fails 1 s₁ rs₁.trace := fun hb' => by
    have hf := Fails.step a (fun f => (hx' f).trans hb')
    rw [show (s₁.jmp (s₁.pc + 1) D).trace = rs₁.trace from rel1.trace] at hf
    exact hf
  cases hl : (scopeOf s₁ env).vars.lookup x with
  | none =>
    rw [hl] at hb
    exact hok hb
  | some cur =>
    rw [hl] at hb
    simp only [Option.map_some] at hb ⊢
    have hrb : rebindOk rs₁.heap (trf m cur) (trf m v) = rebindOk (s₁.jmp (s₁.pc + 1) D).heap cur v := by
      rw [rel1.heap]; exact rebindOk_tr m id id _ cur v
    rw [hrb]
    by_cases hr : rebindOk (s₁.jmp (s₁.pc + 1) D).heap cur v = true
    · rw [if_pos hr] at hb ⊢
      exact hok hb
    · rw [if_neg hr] at hb ⊢
      exact herr hb

/-- `def x e`, after `e` has produced `v` -/
theorem simF_def_tail {m m₁ : Nat → Nat} {s s₁ : St} {rs rs₁ : Ref.St} {env : Nat} {pre post ce : List Instr}
    {x : String} {v : Val} (h : Seg s pre (ce ++ [.dup, .popStackPutEnv x]) post) (hx : okName x = true)
    (r1 : ReachX s s₁) (l1 : Lands ce.length v s s₁) (rel1 : RelF m₁ s₁ rs₁ env) (hm1 : MExt s m m₁)
    (ext1 : RExt rs rs₁) (fr1 : FrameF s s₁) (hcv : VOk m₁ s₁ rs₁ v) :
    SimF (ce ++ [.dup, .popStackPutEnv x]) m s rs env
      (match Ref.define rs₁ env x (trf m₁ v) with | some s' => .ok (trf m₁ v) s' | none => .err rs₁) := by
  obtain ⟨r2, a3⟩ := glue_dup h l1
  have hlen : (ce ++ [Instr.dup, Instr.popStackPutEnv x]).length = ce.length + 1 + 1 := by simp
  have hp := psp_stepF a3 (D := some v :: s.data) rfl (rel1.jmp _ _) hx
    (VOk.ext hcv (Frame.jmp _ _ _) (RExt.refl _) (MExt.refl _ _))
  cases hdef : Ref.define rs₁ env x (trf m₁ v) with
  | none =>
    rw [hdef] at hp
    simp only
    exact (FailsX.of_reach (r1.trans r2.toX) hp.toX)
  | some rs₂ =>
    rw [hdef] at hp
    obtain ⟨r3, rel3, ext3⟩ := hp
    simp only
    have hfr3 : FrameF s₁ ((((s₁.jmp (s₁.pc + 1) (some v :: some v :: s.data)).jmp
        ((s₁.jmp (s₁.pc + 1) (some v :: some v :: s.data)).pc + 1) (some v :: s.data))).bind env x v) :=
      (FrameF.jmp _ _ _).trans ((FrameF.jmp _ _ _).trans (FrameF.bind _ _ _ _))
    refine ⟨_, m₁, v, ((r1.trans r2.toX).trans r3.toX), ⟨l1.fn, ?_, rfl⟩, rfl, rel3, hm1,
      ext1.trans ext3, fr1.trans hfr3, VOk.ext hcv hfr3.toFrame ext3 (MExt.refl _ _)⟩
    show s₁.pc + 1 + 1 = _
    rw [l1.pc, hlen]; push_cast; omega

/-- the VM finds nothing where the reference finds nothing -/
theorem RelF.lexLookup_none {m s rs env} (h : RelF m s rs env) {x : String} (hn : Ref.lookup rs env x = none) :
    VM.lexLookup s x = none := by
  have := h.lexLookup x
  rw [hn] at this
  cases hl : VM.lexLookup s x with
  | none => rfl
  | some r => rw [hl] at this; cases this

/-- `set x e`, after `e` has produced `v` -/
theorem simF_set_tail {m m₁ : Nat → Nat} {s s₁ : St} {rs rs₁ : Ref.St} {env : Nat} {pre post ce : List Instr}
    {x : String} {v : Val} (h : Seg s pre (ce ++ [.dup, .update x]) post) (hxb : okName x = true)
    (r1 : ReachX s s₁) (l1 : Lands ce.length v s s₁) (rel1 : RelF m₁ s₁ rs₁ env) (hm1 : MExt s m m₁)
    (ext1 : RExt rs rs₁) (fr1 : FrameF s s₁) (hcv : VOk m₁ s₁ rs₁ v) :
    SimF (ce ++ [.dup, .update x]) m s rs env
      (match Ref.lookup rs₁ env x with
       | some (fr, _) => .ok (trf m₁ v) (Ref.setVar rs₁ fr x (trf m₁ v))
       | none => .ok (trf m₁ v) (Ref.setVar rs₁ env x (trf m₁ v))) := by
  obtain ⟨r2, a3⟩ := glue_dup h l1
  obtain ⟨b, hc, hfc⟩ := rel1.ctx
  obtain ⟨rest, hlin⟩ := hc.head
  have hlt := hc.lt
  obtain ⟨fr, hfr⟩ : ∃ fr, rs₁.frames[env]? = some fr := ⟨rs₁.frames[env], by simp [hlt]⟩
  have hv := rel1.vars env x
  rw [List.getD_eq_getElem?_getD, hfr, Option.getD_some] at hv
  have hlen : (ce ++ [Instr.dup, Instr.update x]).length = ce.length + 1 + 1 := by simp
  have hll : (lexLookup (s₁.jmp (s₁.pc + 1 + 1) (some v :: s.data)) x).map (trp2 m₁) = Ref.lookup rs₁ env x := by
    rw [lexLookup_jmp]; exact rel1.lexLookup x
  have hx : ∀ f, (exec (f + 1) (.update x)).run (s₁.jmp (s₁.pc + 1) (some v :: some v :: s.data))
      = match lexLookup (s₁.jmp (s₁.pc + 1 + 1) (some v :: s.data)) x with
        | some (id, _) => (.ok (), (s₁.jmp (s₁.pc + 1 + 1) (some v :: s.data)).bind id x v)
        | none => (bindTop x v).run (s₁.jmp (s₁.pc + 1 + 1) (some v :: s.data)) := fun f => by
    rw [exec_update f x _ v (some v :: s.data) rfl]
    rfl
  have hok : ∀ id, id < rs₁.frames.length →
      (∀ f, (exec (f + 1) (.update x)).run (s₁.jmp (s₁.pc + 1) (some v :: some v :: s.data))
        = (.ok (), (s₁.jmp (s₁.pc + 1 + 1) (some v :: s.data)).bind id x v)) →
      SimF (ce ++ [.dup, .update x]) m s rs env (.ok (trf m₁ v) (Ref.setVar rs₁ id x (trf m₁ v))) := by
    intro id hid hx'
    have hfr3 : FrameF s₁ ((s₁.jmp (s₁.pc + 1 + 1) (some v :: s.data)).bind id x v) :=
      (FrameF.jmp _ _ _).trans (FrameF.bind _ _ _ _)
    have hext3 : RExt rs₁ (Ref.setVar rs₁ id x (trf m₁ v)) :=
      ⟨FramesExt.setVar _ _ _ _, fun i c hc => by rw [setVar_clos]; exact hc⟩
    refine ⟨(s₁.jmp (s₁.pc + 1 + 1) (some v :: s.data)).bind id x v, m₁, v, ?_, ⟨l1.fn, ?_, rfl⟩, rfl,
      (rel1.jmp _ _).bind id hid hxb (VOk.ext hcv (Frame.jmp _ _ _) (RExt.refl _) (MExt.refl _ _)), hm1,
      ext1.trans hext3, fr1.trans hfr3, VOk.ext hcv hfr3.toFrame hext3 (MExt.refl _ _)⟩
    · exact ((r1.trans r2.toX).trans (Reach.step a3 hx').toX)
    · show s₁.pc + 1 + 1 = _
      rw [l1.pc, hlen]; push_cast; omega
  cases hl : Ref.lookup rs₁ env x with
  | some r =>
    obtain ⟨id, w⟩ := r
    simp only
    rw [hl] at hll
    cases hvl : lexLookup (s₁.jmp (s₁.pc + 1 + 1) (some v :: s.data)) x with
    | none => rw [hvl] at hll; cases hll
    | some r' =>
      obtain ⟨id', w'⟩ := r'
      rw [hvl] at hll
      simp only [Option.map_some, trp2, Option.some.injEq, Prod.mk.injEq] at hll
      obtain ⟨rfl, _⟩ := hll
      refine hok id' (ref_lookupIn_lt _ x _ _ id' w hl) (fun f => ?_)
      rw [hx f, hvl]
  | none =>
    simp only
    have hvl : lexLookup (s₁.jmp (s₁.pc + 1 + 1) (some v :: s.data)) x = none := by
      rw [lexLookup_jmp]; exact rel1.lexLookup_none hl
    refine hok env hlt (fun f => ?_)
    rw [hx f, hvl]
    simp only
    have hb := run_bindTop x v (s₁.jmp (s₁.pc + 1 + 1) (some v :: s.data))
    rw [show (s₁.jmp (s₁.pc + 1 + 1) (some v :: s.data)).linear = some env :: rest from hlin] at hb
    simp only at hb
    have htop : (scopeOf s₁ env).vars.lookup x = none := by
      have := ref_lookup_none_top rs₁ env x fr hfr hl
      rw [hv] at this
      cases hh : (scopeOf s₁ env).vars.lookup x with
      | none => rfl
      | some w => rw [hh] at this; cases this
    rw [show scopeOf (s₁.jmp (s₁.pc + 1 + 1) (some v :: s.data)) env = scopeOf s₁ env from rfl, htop] at hb
    exact hb

/-! ## Sequencing -/

theorem SimF.seq {code c₂ : List Instr} {m m₁ : Nat → Nat} {s s₁' : St} {rs rs₁ : Ref.St} {env k : Nat}
    {res : Ref.R Val} (hreach : ReachX s s₁') (hmoved : Moved k s s₁') (hm : MExt s m m₁) (hext : RExt rs rs₁)
    (hframe : FrameF s s₁') (h₂ : SimF c₂ m₁ s₁' rs₁ env res) (hk : k + c₂.length = code.length) :
    SimF code m s rs env res := by
  cases res with
  | ok v rs' =>
    obtain ⟨s₂, m₂, w, r, l, hv, rel, hm2, ext, fr, hcl⟩ := h₂
    exact ⟨s₂, m₂, w, (hreach.trans r), hk ▸ hmoved.lands l, hv, rel, hm.trans hm2 hframe.fnsLen, hext.trans ext,
      hframe.trans fr, hcl⟩
  | err rs' => exact (FailsX.of_reach hreach h₂)
  | timeout => trivial
  | brk l rs' => exact h₂
  | cont l rs' => exact h₂

theorem SimF.prefix {code c₁ : List Instr} {m : Nat → Nat} {s : St} {rs : Ref.St} {env : Nat} {res : Ref.R Val}
    (h₁ : SimF c₁ m s rs env res) (hnot : ∀ v rs', res ≠ .ok v rs') :
    SimF code m s rs env res := by
  cases res with
  | ok v rs' => exact absurd rfl (hnot v rs')
  | err rs' => exact h₁
  | timeout => trivial
  | brk l rs' => exact h₁
  | cont l rs' => exact h₁

theorem SimF.cond_exit {p b rest pre post : List Instr} {m m₁ : Nat → Nat} {s s₁' : St} {rs rs₁ : Ref.St} {env : Nat}
    {res : Ref.R Val}
    (h : Seg s pre (p ++ [.branch false (b.length + 2)] ++ b ++ [.jump (rest.length + 1)] ++ rest) post)
    (hreach : ReachX s s₁') (hmoved : Moved (p.length + 1) s s₁') (hm : MExt s m m₁) (hext : RExt rs rs₁)
    (hframe : FrameF s s₁') (h₂ : SimF b m₁ s₁' rs₁ env res) :
    SimF (p ++ [.branch false (b.length + 2)] ++ b ++ [.jump (rest.length + 1)] ++ rest) m s rs env res := by
  cases res with
  | ok v rs' =>
    obtain ⟨s₂, m₂, w, r, l, hv, rel, hm2, ext, fr, hcl⟩ := h₂
    have l2 : Lands (p.length + 1 + b.length) w s s₂ := hmoved.lands l
    obtain ⟨r3, l3⟩ := glue_cond_exit h l2
    exact ⟨_, m₂, w, ((hreach.trans r).trans r3.toX), l3, hv, rel.jmp _ _, hm.trans hm2 hframe.fnsLen, hext.trans ext,
      (hframe.trans fr).trans (FrameF.jmp _ _ _),
      VOk.ext hcl (Frame.jmp _ _ _) (RExt.refl _) (MExt.refl _ _)⟩
  | err rs' => exact (FailsX.of_reach hreach h₂)
  | timeout => trivial
  | brk l rs' => exact h₂
  | cont l rs' => exact h₂

end ZygoVerif.Sim
