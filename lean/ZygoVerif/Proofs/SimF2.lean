/-
C02, execution half — F2a: user functions (top-level `defn`, calls by name, recursion).

The simulation statement `SimF` (as `SimC`, with the id map `m` that may be extended, and the
result related through `tr`), and the segment lemma for the fragment `Ff` by induction on the
reference evaluator's fuel.
-/
import ZygoVerif.Proofs.SimF2Gen
set_option linter.unusedSimpArgs false
set_option linter.unusedVariables false
namespace ZygoVerif.Sim
open ZygoVerif.Core ZygoVerif.VM

/-! ## The simulation statement -/

def SimF (code : List Instr) (m : Nat → Nat) (s : St) (rs : Ref.St) (env : Nat) (res : Ref.R Val) : Prop :=
  match res with
  | .ok v' rs' => ∃ s' m' v, ReachX s s' ∧ Lands code.length v s s' ∧ v' = trf m' v ∧ RelF m' s' rs' env
      ∧ MExt s m m' ∧ RExt rs rs' ∧ FrameF s s' ∧ VOk m' s' rs' v
  | .err rs' => FailsX s rs'.trace
  | .timeout => True
  | .brk _ _ => False
  | .cont _ _ => False

/-! ## Atoms -/

theorem vOk_lit {m s rs} (v : Val) (h : ∀ m β μ, tr m β μ v = v) : VOk m s rs v := valIn_of_const h

theorem simF_push {m : Nat → Nat} {s : St} {rs : Ref.St} {env : Nat} {pre post : List Instr} (v : Val)
    (hv : ∀ m β μ, tr m β μ v = v) (hrel : RelF m s rs env) (h : Seg s pre [.push v] post) :
    SimF [.push v] m s rs env (.ok v rs) :=
  ⟨s.jmp (s.pc + 1) (some v :: s.data), m, v, (reach_push h.head).toX, ⟨rfl, by simp, rfl⟩, (hv m id id).symm,
    hrel.jmp _ _, MExt.refl s m, RExt.refl rs, FrameF.jmp _ _ _, vOk_lit v hv⟩

/-- what the VM lookup finds is a binding of the scope it names -/
theorem lexLookup_sound {s : St} {x : String} {id : Nat} {v : Val} (h : lexLookup s x = some (id, v)) :
    (scopeOf s id).vars.lookup x = some v := by
  rw [Scope.lexLookup_eq] at h
  obtain ⟨_, _, _, _, hv⟩ := Scope.firstBinding_some h
  exact hv

theorem simF_sym {m : Nat → Nat} {s : St} {rs : Ref.St} {env : Nat} {pre post : List Instr} (x : String) (n : Nat)
    (hx : okSym x = true) (hrel : RelF m s rs env) (h : Seg s pre [.envToStack x] post) :
    SimF [.envToStack x] m s rs env (Ref.eval (n + 1) (.sym x) env rs) := by
  rw [Ref.eval]
  have hl := hrel.lexLookup x
  cases hv : lexLookup s x with
  | none =>
    rw [hv] at hl
    rw [← hl]
    simp only [Option.map_none, SimF]
    have : Fails 1 s s.trace := Fails.step h.head (fun f => by rw [exec_envToStack, hv])
    rw [hrel.trace] at this
    exact this.toX
  | some r =>
    obtain ⟨id, v⟩ := r
    rw [hv] at hl
    rw [← hl]
    simp only [Option.map_some, trp2, SimF]
    exact ⟨s.jmp (s.pc + 1) (some v :: s.data), m, v,
      (Reach.step h.head (fun f => by rw [exec_envToStack, hv])).toX,
      ⟨rfl, by simp, rfl⟩, rfl, hrel.jmp _ _, MExt.refl s m, RExt.refl rs, FrameF.jmp _ _ _,
      VOk.ext ((hrel.vok id x v (lexLookup_sound hv)).ok hx) (FrameF.jmp _ _ _) (RExt.refl rs) (MExt.refl s m)⟩

/-! ## `def`, `set` -/

/-- `popStackPutEnv x` with `v` on top of the data stack, in related states -/
theorem psp_stepF {m : Nat → Nat} {s₁ : St} {rs₁ : Ref.St} {env : Nat} {P Q : List Instr} {x : String} {v : Val}
    {D : List (Option Val)} (a : At s₁ P (.popStackPutEnv x) Q) (hd : s₁.data = some v :: D) (rel1 : RelF m s₁ rs₁ env)
    (hx : okName x = true) (hcv : VOk m s₁ rs₁ v) :
    match Ref.define rs₁ env x (trf m v) with
    | some rs₂ => Reach 1 1 s₁ ((s₁.jmp (s₁.pc + 1) D).bind env x v)
        ∧ RelF m ((s₁.jmp (s₁.pc + 1) D).bind env x v) rs₂ env ∧ RExt rs₁ rs₂
    | none => Fails 1 s₁ rs₁.trace := by
  obtain ⟨b, hc, hfc⟩ := rel1.ctx
  obtain ⟨rest, hlin⟩ := hc.head
  have hlt := hc.lt
  obtain ⟨fr, hfr⟩ : ∃ fr, rs₁.frames[env]? = some fr := ⟨rs₁.frames[env], by simp [hlt]⟩
  have hv := rel1.vars env x
  rw [List.getD_eq_getElem?_getD, hfr, Option.getD_some] at hv
  have hx' : ∀ f, (exec (f + 1) (.popStackPutEnv x)).run s₁ = (bindTop x v).run (s₁.jmp (s₁.pc + 1) D) :=
    fun f => exec_popStackPutEnv f x _ v D hd
  have hb := run_bindTop x v (s₁.jmp (s₁.pc + 1) D)
  rw [show (s₁.jmp (s₁.pc + 1) D).linear = some env :: rest from hlin] at hb
  simp only at hb
  rw [show scopeOf (s₁.jmp (s₁.pc + 1) D) env = scopeOf s₁ env from rfl] at hb
  rw [ref_define_eq rs₁ env x (trf m v) fr hfr, hv]
  have hok : (bindTop x v).run (s₁.jmp (s₁.pc + 1) D) = (.ok (), (s₁.jmp (s₁.pc + 1) D).bind env x v) →
      Reach 1 1 s₁ ((s₁.jmp (s₁.pc + 1) D).bind env x v)
        ∧ RelF m ((s₁.jmp (s₁.pc + 1) D).bind env x v) (Ref.setVar rs₁ env x (trf m v)) env
        ∧ RExt rs₁ (Ref.setVar rs₁ env x (trf m v)) := fun hb' =>
    ⟨Reach.step a (fun f => (hx' f).trans hb'),
      (rel1.jmp _ _).bind env hlt hx (VOk.ext hcv (FrameF.jmp _ _ _) (RExt.refl _) (MExt.refl _ _)),
      FramesExt.setVar _ _ _ _, fun i c hc => by rw [setVar_clos]; exact hc⟩
  have herr : (bindTop x v).run (s₁.jmp (s₁.pc + 1) D) = (.error .err, s₁.jmp (s₁.pc + 1) D) →
      Fails 1 s₁ rs₁.trace := fun hb' => by
    have hf := Fails.step a (fun f => (hx' f).trans hb')
    rw [show (s₁.jmp (s₁.pc + 1) D).trace = rs₁.trace from rel1.trace] at hf
    exact hf
  cases hl : (scopeOf s₁ env).vars.lookup x with
  | none =>
    rw [hl] at hb
    exact hok hb
  | some cur =>
    rw [hl] at hb
    simp only [Option.map_some] at hb ⊢
    have hrb : rebindOk rs₁.heap (trf m cur) (trf m v) = rebindOk (s₁.jmp (s₁.pc + 1) D).heap cur v := by
      rw [rel1.heap]; exact rebindOk_tr m id id _ cur v
    rw [hrb]
    by_cases hr : rebindOk (s₁.jmp (s₁.pc + 1) D).heap cur v = true
    · rw [if_pos hr] at hb ⊢
      exact hok hb
    · rw [if_neg hr] at hb ⊢
      exact herr hb

/-- `def x e`, after `e` has produced `v` -/
theorem simF_def_tail {m m₁ : Nat → Nat} {s s₁ : St} {rs rs₁ : Ref.St} {env : Nat} {pre post ce : List Instr}
    {x : String} {v : Val} (h : Seg s pre (ce ++ [.dup, .popStackPutEnv x]) post) (hx : okName x = true)
    (r1 : ReachX s s₁) (l1 : Lands ce.length v s s₁) (rel1 : RelF m₁ s₁ rs₁ env) (hm1 : MExt s m m₁)
    (ext1 : RExt rs rs₁) (fr1 : FrameF s s₁) (hcv : VOk m₁ s₁ rs₁ v) :
    SimF (ce ++ [.dup, .popStackPutEnv x]) m s rs env
      (match Ref.define rs₁ env x (trf m₁ v) with | some s' => .ok (trf m₁ v) s' | none => .err rs₁) := by
  obtain ⟨r2, a3⟩ := glue_dup h l1
  have hlen : (ce ++ [Instr.dup, Instr.popStackPutEnv x]).length = ce.length + 1 + 1 := by simp
  have hp := psp_stepF a3 (D := some v :: s.data) rfl (rel1.jmp _ _) hx
    (VOk.ext hcv (FrameF.jmp _ _ _) (RExt.refl _) (MExt.refl _ _))
  cases hdef : Ref.define rs₁ env x (trf m₁ v) with
  | none =>
    rw [hdef] at hp
    simp only
    exact (FailsX.of_reach (r1.trans r2.toX) hp.toX)
  | some rs₂ =>
    rw [hdef] at hp
    obtain ⟨r3, rel3, ext3⟩ := hp
    simp only
    have hfr3 : FrameF s₁ ((((s₁.jmp (s₁.pc + 1) (some v :: some v :: s.data)).jmp
        ((s₁.jmp (s₁.pc + 1) (some v :: some v :: s.data)).pc + 1) (some v :: s.data))).bind env x v) :=
      (FrameF.jmp _ _ _).trans ((FrameF.jmp _ _ _).trans (FrameF.bind _ _ _ _))
    refine ⟨_, m₁, v, ((r1.trans r2.toX).trans r3.toX), ⟨l1.fn, ?_, rfl⟩, rfl, rel3, hm1,
      ext1.trans ext3, fr1.trans hfr3, VOk.ext hcv hfr3 ext3 (MExt.refl _ _)⟩
    show s₁.pc + 1 + 1 = _
    rw [l1.pc, hlen]; push_cast; omega

/-- the VM finds nothing where the reference finds nothing -/
theorem RelF.lexLookup_none {m s rs env} (h : RelF m s rs env) {x : String} (hn : Ref.lookup rs env x = none) :
    VM.lexLookup s x = none := by
  have := h.lexLookup x
  rw [hn] at this
  cases hl : VM.lexLookup s x with
  | none => rfl
  | some r => rw [hl] at this; cases this

/-- `set x e`, after `e` has produced `v` -/
theorem simF_set_tail {m m₁ : Nat → Nat} {s s₁ : St} {rs rs₁ : Ref.St} {env : Nat} {pre post ce : List Instr}
    {x : String} {v : Val} (h : Seg s pre (ce ++ [.dup, .update x]) post) (hxb : okName x = true)
    (r1 : ReachX s s₁) (l1 : Lands ce.length v s s₁) (rel1 : RelF m₁ s₁ rs₁ env) (hm1 : MExt s m m₁)
    (ext1 : RExt rs rs₁) (fr1 : FrameF s s₁) (hcv : VOk m₁ s₁ rs₁ v) :
    SimF (ce ++ [.dup, .update x]) m s rs env
      (match Ref.lookup rs₁ env x with
       | some (fr, _) => .ok (trf m₁ v) (Ref.setVar rs₁ fr x (trf m₁ v))
       | none => .ok (trf m₁ v) (Ref.setVar rs₁ env x (trf m₁ v))) := by
  obtain ⟨r2, a3⟩ := glue_dup h l1
  obtain ⟨b, hc, hfc⟩ := rel1.ctx
  obtain ⟨rest, hlin⟩ := hc.head
  have hlt := hc.lt
  obtain ⟨fr, hfr⟩ : ∃ fr, rs₁.frames[env]? = some fr := ⟨rs₁.frames[env], by simp [hlt]⟩
  have hv := rel1.vars env x
  rw [List.getD_eq_getElem?_getD, hfr, Option.getD_some] at hv
  have hlen : (ce ++ [Instr.dup, Instr.update x]).length = ce.length + 1 + 1 := by simp
  have hll : (lexLookup (s₁.jmp (s₁.pc + 1 + 1) (some v :: s.data)) x).map (trp2 m₁) = Ref.lookup rs₁ env x := by
    rw [lexLookup_jmp]; exact rel1.lexLookup x
  have hx : ∀ f, (exec (f + 1) (.update x)).run (s₁.jmp (s₁.pc + 1) (some v :: some v :: s.data))
      = match lexLookup (s₁.jmp (s₁.pc + 1 + 1) (some v :: s.data)) x with
        | some (id, _) => (.ok (), (s₁.jmp (s₁.pc + 1 + 1) (some v :: s.data)).bind id x v)
        | none => (bindTop x v).run (s₁.jmp (s₁.pc + 1 + 1) (some v :: s.data)) := fun f => by
    rw [exec_update f x _ v (some v :: s.data) rfl]
    rfl
  have hok : ∀ id, id < rs₁.frames.length →
      (∀ f, (exec (f + 1) (.update x)).run (s₁.jmp (s₁.pc + 1) (some v :: some v :: s.data))
        = (.ok (), (s₁.jmp (s₁.pc + 1 + 1) (some v :: s.data)).bind id x v)) →
      SimF (ce ++ [.dup, .update x]) m s rs env (.ok (trf m₁ v) (Ref.setVar rs₁ id x (trf m₁ v))) := by
    intro id hid hx'
    have hfr3 : FrameF s₁ ((s₁.jmp (s₁.pc + 1 + 1) (some v :: s.data)).bind id x v) :=
      (FrameF.jmp _ _ _).trans (FrameF.bind _ _ _ _)
    have hext3 : RExt rs₁ (Ref.setVar rs₁ id x (trf m₁ v)) :=
      ⟨FramesExt.setVar _ _ _ _, fun i c hc => by rw [setVar_clos]; exact hc⟩
    refine ⟨(s₁.jmp (s₁.pc + 1 + 1) (some v :: s.data)).bind id x v, m₁, v, ?_, ⟨l1.fn, ?_, rfl⟩, rfl,
      (rel1.jmp _ _).bind id hid hxb (VOk.ext hcv (FrameF.jmp _ _ _) (RExt.refl _) (MExt.refl _ _)), hm1,
      ext1.trans hext3, fr1.trans hfr3, VOk.ext hcv hfr3 hext3 (MExt.refl _ _)⟩
    · exact ((r1.trans r2.toX).trans (Reach.step a3 hx').toX)
    · show s₁.pc + 1 + 1 = _
      rw [l1.pc, hlen]; push_cast; omega
  cases hl : Ref.lookup rs₁ env x with
  | some r =>
    obtain ⟨id, w⟩ := r
    simp only
    rw [hl] at hll
    cases hvl : lexLookup (s₁.jmp (s₁.pc + 1 + 1) (some v :: s.data)) x with
    | none => rw [hvl] at hll; cases hll
    | some r' =>
      obtain ⟨id', w'⟩ := r'
      rw [hvl] at hll
      simp only [Option.map_some, trp2, Option.some.injEq, Prod.mk.injEq] at hll
      obtain ⟨rfl, _⟩ := hll
      refine hok id' (ref_lookupIn_lt _ x _ _ id' w hl) (fun f => ?_)
      rw [hx f, hvl]
  | none =>
    simp only
    have hvl : lexLookup (s₁.jmp (s₁.pc + 1 + 1) (some v :: s.data)) x = none := by
      rw [lexLookup_jmp]; exact rel1.lexLookup_none hl
    refine hok env hlt (fun f => ?_)
    rw [hx f, hvl]
    simp only
    have hb := run_bindTop x v (s₁.jmp (s₁.pc + 1 + 1) (some v :: s.data))
    rw [show (s₁.jmp (s₁.pc + 1 + 1) (some v :: s.data)).linear = some env :: rest from hlin] at hb
    simp only at hb
    have htop : (scopeOf s₁ env).vars.lookup x = none := by
      have := ref_lookup_none_top rs₁ env x fr hfr hl
      rw [hv] at this
      cases hh : (scopeOf s₁ env).vars.lookup x with
      | none => rfl
      | some w => rw [hh] at this; cases this
    rw [show scopeOf (s₁.jmp (s₁.pc + 1 + 1) (some v :: s.data)) env = scopeOf s₁ env from rfl, htop] at hb
    exact hb

/-! ## Sequencing -/

theorem SimF.seq {code c₂ : List Instr} {m m₁ : Nat → Nat} {s s₁' : St} {rs rs₁ : Ref.St} {env k : Nat}
    {res : Ref.R Val} (hreach : ReachX s s₁') (hmoved : Moved k s s₁') (hm : MExt s m m₁) (hext : RExt rs rs₁)
    (hframe : FrameF s s₁') (h₂ : SimF c₂ m₁ s₁' rs₁ env res) (hk : k + c₂.length = code.length) :
    SimF code m s rs env res := by
  cases res with
  | ok v rs' =>
    obtain ⟨s₂, m₂, w, r, l, hv, rel, hm2, ext, fr, hcl⟩ := h₂
    exact ⟨s₂, m₂, w, (hreach.trans r), hk ▸ hmoved.lands l, hv, rel, hm.trans hm2 hframe.fnsLen, hext.trans ext,
      hframe.trans fr, hcl⟩
  | err rs' => exact (FailsX.of_reach hreach h₂)
  | timeout => trivial
  | brk l rs' => exact h₂
  | cont l rs' => exact h₂

theorem SimF.prefix {code c₁ : List Instr} {m : Nat → Nat} {s : St} {rs : Ref.St} {env : Nat} {res : Ref.R Val}
    (h₁ : SimF c₁ m s rs env res) (hnot : ∀ v rs', res ≠ .ok v rs') :
    SimF code m s rs env res := by
  cases res with
  | ok v rs' => exact absurd rfl (hnot v rs')
  | err rs' => exact h₁
  | timeout => trivial
  | brk l rs' => exact h₁
  | cont l rs' => exact h₁

theorem SimF.cond_exit {p b rest pre post : List Instr} {m m₁ : Nat → Nat} {s s₁' : St} {rs rs₁ : Ref.St} {env : Nat}
    {res : Ref.R Val}
    (h : Seg s pre (p ++ [.branch false (b.length + 2)] ++ b ++ [.jump (rest.length + 1)] ++ rest) post)
    (hreach : ReachX s s₁') (hmoved : Moved (p.length + 1) s s₁') (hm : MExt s m m₁) (hext : RExt rs rs₁)
    (hframe : FrameF s s₁') (h₂ : SimF b m₁ s₁' rs₁ env res) :
    SimF (p ++ [.branch false (b.length + 2)] ++ b ++ [.jump (rest.length + 1)] ++ rest) m s rs env res := by
  cases res with
  | ok v rs' =>
    obtain ⟨s₂, m₂, w, r, l, hv, rel, hm2, ext, fr, hcl⟩ := h₂
    have l2 : Lands (p.length + 1 + b.length) w s s₂ := hmoved.lands l
    obtain ⟨r3, l3⟩ := glue_cond_exit h l2
    exact ⟨_, m₂, w, ((hreach.trans r).trans r3.toX), l3, hv, rel.jmp _ _, hm.trans hm2 hframe.fnsLen, hext.trans ext,
      (hframe.trans fr).trans (FrameF.jmp _ _ _),
      VOk.ext hcl (FrameF.jmp _ _ _) (RExt.refl _) (MExt.refl _ _)⟩
  | err rs' => exact (FailsX.of_reach hreach h₂)
  | timeout => trivial
  | brk l rs' => exact h₂
  | cont l rs' => exact h₂

/-! ## The claims -/

def FClaimE (n : Nat) : Prop :=
  ∀ fnOk self e, Ff fnOk self e = true → ∀ isFn c gs r, (compile isFn c e).run gs = .ok r → FnameOk self c →
    ∀ m s rs env pre post, RelF m s rs env → (fnOk = true → GenOk gs r.2 s) → Seg s pre r.1.1 post →
      SimF r.1.1 m s rs env (Ref.eval n e env rs)

def FClaimB (n : Nat) : Prop :=
  ∀ fnOk self es, es ≠ [] → FfList fnOk self es = true → ∀ isFn c gs r, (compileBegin isFn c es).run gs = .ok r →
    FnameOk self c →
    ∀ m s rs env pre post, RelF m s rs env → (fnOk = true → GenOk gs r.2 s) → Seg s pre r.1.1 post →
      SimF r.1.1 m s rs env (Ref.evalBegin n es env rs)

def FClaimC (n : Nat) : Prop :=
  ∀ fnOk self arms d, FfArms fnOk self arms = true → Ff fnOk self d = true → ∀ isFn c gs r gs0 rd,
    (compileArms isFn c arms).run gs = .ok r → (compile isFn c d).run gs0 = .ok rd →
    FnameOk self c →
    ∀ m s rs env pre post, RelF m s rs env → (fnOk = true → GenOk gs r.2 s) → (fnOk = true → GenOk gs0 rd.2 s) →
      Seg s pre (asmCond r.1 rd.1.1) post →
      SimF (asmCond r.1 rd.1.1) m s rs env (Ref.evalCond n arms d env rs)

/-- `EvalCallExpression` against `Ref.eval`: the value, control state as before, related states -/
def EvalOkF (e : Expr) (m : Nat → Nat) (s : St) (rs : Ref.St) (env : Nat) (res : Ref.R Val) : Prop :=
  match res with
  | .ok v' rs' => ∃ M s' m' v, (∀ fuel, M ≤ fuel → (evalCallExpr fuel e).run s = (.ok v, s'))
      ∧ s'.data = s.data ∧ s'.pc = s.pc ∧ v' = trf m' v ∧ RelF m' s' rs' env ∧ MExt s m m' ∧ RExt rs rs'
      ∧ FrameF s s' ∧ VOk m' s' rs' v
  | .err rs' => ∃ M, ∀ fuel, M ≤ fuel → ∃ se, (evalCallExpr fuel e).run s = (.error .err, se) ∧ se.trace = rs'.trace
  | .timeout => True
  | .brk _ _ => False
  | .cont _ _ => False

theorem evalCallExpr_sym_simF (x : String) (hx : okSym x = true) (n : Nat) {m : Nat → Nat} {s : St} {rs : Ref.St}
    {env : Nat} (hrel : RelF m s rs env) : EvalOkF (.sym x) m s rs env (Ref.eval n (.sym x) env rs) := by
  cases n with
  | zero => rw [Ref.eval]; trivial
  | succ n =>
    rw [Ref.eval]
    have hl := hrel.lexLookup x
    have hrun : ∀ fuel, (evalCallExpr (fuel + 1) (.sym x)).run s = match lexLookup s x with
        | some (_, v) => (.ok v, s) | none => (.error .err, s) := by
      intro fuel
      rw [evalCallExpr]
      simp only [run_bind, run_get]
      cases lexLookup s x with
      | none => simp only [run_err]
      | some r => obtain ⟨i, v⟩ := r; simp only [run_pure]
    cases hv : lexLookup s x with
    | none =>
      rw [hv] at hl
      rw [← hl]
      refine ⟨1, fun fuel hf => ?_⟩
      obtain ⟨f, rfl⟩ : ∃ f, fuel = f + 1 := ⟨fuel - 1, by omega⟩
      exact ⟨s, by rw [hrun, hv], hrel.trace⟩
    | some r =>
      obtain ⟨i, v⟩ := r
      rw [hv] at hl
      rw [← hl]
      refine ⟨1, s, m, v, fun fuel hf => ?_, rfl, rfl, rfl, hrel, MExt.refl s m, RExt.refl rs, FrameF.refl s,
        (hrel.vok i x v (lexLookup_sound hv)).ok hx⟩
      obtain ⟨f, rfl⟩ : ∃ f, fuel = f + 1 := ⟨fuel - 1, by omega⟩
      rw [hrun, hv]

/-- an operand that is not a symbol, given the segment lemma for it at the same reference fuel -/
theorem evalCallExpr_nonsym_simF {n : Nat} (hE : FClaimE n) (e : Expr) (he : Ff false "" e = true) (hns : ∀ x, e ≠ .sym x)
    {m : Nat → Nat} {s0 : St} {rs : Ref.St} {env : Nat} (hrel0 : RelF m s0 rs env) :
    EvalOkF e m s0 rs env (Ref.eval n e env rs) := by
  obtain ⟨code, t, gs', hc, hne, hk⟩ := compile_total_Ff false "" e he (isFnScope s0) {}
    { fns := s0.fns, loops := s0.loops, loopstack := s0.loopstack, live := s0.linear } (Or.inl rfl)
  have hfns : gs'.fns = s0.fns := hk.2 rfl
  -- the generator may have registered loop records (a `for` inside the operand): `s` is `s0` with them
  have hgen : (runGen (compile (isFnScope s0) {} e)).run s0 = (.ok (code, t), withLoops s0 gs') :=
    run_runGen_any _ s0 _ gs' hc hfns
  generalize hs : withLoops s0 gs' = s at hgen
  have hrel : RelF m s rs env := by
    subst hs; exact hrel0.of_same rfl rfl rfl rfl rfl rfl hrel0.heap hrel0.trace hrel0.hok ⟨hk.1.loopsLen, hk.1.loopsGet⟩
  have hs0 : FrameF s0 s ∧ s.data = s0.data ∧ s.pc = s0.pc := by
    subst hs
    exact ⟨⟨⟨rfl, rfl, rfl, rfl, Nat.le_refl _, fun _ _ => rfl, hk.1.loopsLen, hk.1.loopsGet⟩, Nat.le_refl _, fun _ _ => rfl⟩,
      rfl, rfl⟩
  have hseg := seg_inHelper s code
  have hsim := hE false "" e he (isFnScope s0) {} _ ((code, t), _) hc (Or.inl rfl) m (inHelper s code) rs env [] [.ret]
    (relF_inHelper hrel code) (fun h => by cases h) hseg
  have hunf := fun fuel => evalCallExpr_nonsym fuel e hns s0 s code t hgen hne
  cases hres : Ref.eval n e env rs with
  | ok v' rs' =>
    rw [hres] at hsim
    obtain ⟨s4, m4, v, r, l, hv, rel4, hm4, ext4, fr4, hcl4⟩ := hsim
    have ha4 : s4.addr = some (s.curfunc, -1) :: s.addr := fr4.addr
    obtain ⟨M, hM⟩ := run_helper_ok hseg r l ha4
    have hbal := run_restore_balanced (capOf s)
      { s4 with addr := s.addr, curfunc := s.curfunc, pc := -1, data := (inHelper s code).data }
      (by show s4.suspended.length = s.suspended.length; rw [fr4.susp]; rfl) rfl
      (by show s4.linear.length = s.linear.length; rw [fr4.linear]; rfl) rfl
    have hfl : s.fns.length ≤ s4.fns.length :=
      Nat.le_trans (by show s.fns.length ≤ (s.fns ++ [_]).length; simp) fr4.fnsLen
    have hfo : ∀ id, id < s.fns.length → fnOf s4 id = fnOf s id := fun id hid =>
      (fr4.fns id (by show id < (s.fns ++ [_]).length; simp; omega)).trans (fnOf_inHelper_old s code id hid)
    have hframe : FrameF s { s4 with addr := s.addr, curfunc := s.curfunc, pc := s.pc, data := s.data } :=
      ⟨⟨fr4.linear, rfl, rfl, fr4.susp, hfl, hfo, fr4.loopsLen, fr4.loops⟩, fr4.scLen, fr4.flags⟩
    have hfn0 : s.fns.length = s0.fns.length := by subst hs; rfl
    have hle4 : LoopsExt s s4 := ⟨fr4.loopsLen, fr4.loops⟩
    refine ⟨M + 2, { s4 with addr := s.addr, curfunc := s.curfunc, pc := s.pc, data := s.data }, m4, v,
      fun fuel hf => ?_, hs0.2.1, hs0.2.2, hv, ?_,
      fun id hid => hm4 id (by show id < (s.fns ++ [_]).length; simp; omega),
      ext4, hs0.1.trans hframe, ?_⟩
    · obtain ⟨f, rfl⟩ : ∃ f, fuel = f + 2 := ⟨fuel - 2, by omega⟩
      rw [hunf f, hM f (by omega)]
      simp only [hbal]
      rfl
    · exact hrel.back rel4 rfl rfl rfl rfl fr4.linear rfl fr4.flags hfl hfo ext4.1 hle4
    · exact ValIn.mono hcl4 (fun id hg => hg.mono (FnsKeep.of_fns_eq rfl) (Nat.le_refl _) (fun _ _ => rfl) (RExt.refl _) rfl)
  | err rs' =>
    rw [hres] at hsim
    obtain ⟨M, hM⟩ := run_of_failsE hsim
    refine ⟨M + 2, fun fuel hf => ?_⟩
    obtain ⟨f, rfl⟩ : ∃ f, fuel = f + 2 := ⟨fuel - 2, by omega⟩
    obtain ⟨sf, hrun, htr⟩ := hM f (by omega)
    refine ⟨_, by rw [hunf f, hrun], ?_⟩
    rw [restore_trace]; exact htr
  | timeout => trivial
  | brk l rs' => rw [hres] at hsim; exact hsim
  | cont l rs' => rw [hres] at hsim; exact hsim

theorem evalCallExpr_simF {n : Nat} (hE : FClaimE n) (e : Expr) (he : Ff false "" e = true)
    {m : Nat → Nat} {s : St} {rs : Ref.St} {env : Nat} (hrel : RelF m s rs env) :
    EvalOkF e m s rs env (Ref.eval n e env rs) := by
  cases e with
  | sym x => exact evalCallExpr_sym_simF x (by simpa [Ff] using he) n hrel
  | _ => exact evalCallExpr_nonsym_simF hE _ he (fun x hx => by cases hx) hrel

/-! ## The operands of a call -/

/-- the callee declares no lazy formals (or is unknown) -/
def NoLazy (fo : Option FnObj) : Prop := ∀ f, fo = some f → f.hasLazyFormals = false

/-- the positions `PrepareCallExprArgs` delays for this callee -/
def isLazyVM (fo : Option FnObj) (i : Nat) : Bool :=
  match fo with
  | some f => !f.user && f.hasLazyFormals && f.isLazyCallArg i
  | none => false

theorem isLazyVM_noLazy {fo : Option FnObj} (h : NoLazy fo) (i : Nat) : isLazyVM fo i = false := by
  cases fo with
  | none => rfl
  | some f => simp [isLazyVM, h f rfl]

/-- one operand of a call, delayed or evaluated -/
theorem prepareArgs_cons (fuel : Nat) (fo : Option FnObj) (i : Nat) (e : Expr) (es : List Expr) (s : St) :
    (prepareArgs (fuel + 1) fo i (e :: es)).run s =
      if isLazyVM fo i = true then (prepareArgs fuel fo (i + 1) es).run (s.allocLazy e)
      else match (evalCallExpr fuel e).run s with
        | (.ok v, s1) => (prepareArgs fuel fo (i + 1) es).run (s1.jmp s1.pc (some v :: s1.data))
        | (.error flt, s1) => (.error flt, s1) := by
  rw [prepareArgs.eq_def]
  have key : ∀ (b : Bool), (do
        if b = true then do
          let s ← get
          set { s with lazies := s.lazies ++ [({ e, stack := s.linear, curfunc := s.curfunc, value := none } : LazyObj)] }
          pushData (.lazy s.lazies.length)
        else do
          let v ← evalCallExpr fuel e
          pushData v
        prepareArgs fuel fo (i + 1) es : M Unit).run s =
      if b = true then (prepareArgs fuel fo (i + 1) es).run (s.allocLazy e)
      else match (evalCallExpr fuel e).run s with
        | (.ok v, s1) => (prepareArgs fuel fo (i + 1) es).run (s1.jmp s1.pc (some v :: s1.data))
        | (.error flt, s1) => (.error flt, s1) := by
    intro b
    cases b
    · simp only [Bool.false_eq_true, if_false, run_bind]
      rcases (evalCallExpr fuel e).run s with ⟨r, s1⟩
      cases r with
      | ok v => simp only [run_pushData]; rfl
      | error flt => rfl
    · simp only [if_true, run_bind, run_get, run_set, run_pushData]
      rfl
  cases fo with
  | none => exact key false
  | some f => exact key _

/-- operands of a call: `PrepareCallExprArgs` against `evalArgs`; a delayed operand becomes a lazy argument
object on one side, a thunk on the other -/
def FClaimA (n : Nat) : Prop :=
  ∀ args, FaList args = true → ∀ (fo : Option FnObj) (lazyAt : Nat → Bool), (∀ j, isLazyVM fo j = lazyAt j) →
    ∀ (i : Nat) m s rs env, RelF m s rs env →
    match Ref.evalArgs n args i lazyAt env rs with
    | .ok vs' rs' => ∃ (M : Nat) (s' : St) (m' : Nat → Nat) (vs : List Val), (∀ fuel, M ≤ fuel → (prepareArgs fuel fo i args).run s = (.ok (), s'))
        ∧ s'.data = vs.reverse.map some ++ s.data ∧ s'.pc = s.pc ∧ vs' = vs.map (trf m') ∧ RelF m' s' rs' env
        ∧ MExt s m m' ∧ RExt rs rs' ∧ FrameF s s' ∧ ∀ v ∈ vs, VOk m' s' rs' v
    | .err rs' => ∃ M, ∀ fuel, M ≤ fuel → ∃ se, (prepareArgs fuel fo i args).run s = (.error .err, se)
        ∧ se.trace = rs'.trace
    | .timeout => True
    | .brk _ _ => False
    | .cont _ _ => False

theorem fclaimA_succ {n : Nat} (hE : FClaimE n) (hA : FClaimA n) : FClaimA (n + 1) := by
  intro args hargs fo lazyAt hlz i m s rs env hrel
  match args with
  | [] =>
    rw [Ref.evalArgs]
    · refine ⟨1, s, m, [], fun fuel hf => ?_, by simp, rfl, rfl, hrel, MExt.refl s m, RExt.refl rs, FrameF.refl s,
        fun v hv => by cases hv⟩
      obtain ⟨f, rfl⟩ : ∃ f, fuel = f + 1 := ⟨fuel - 1, by omega⟩
      rw [prepareArgs]
      · rfl
      · omega
    · omega
  | e :: es =>
    rw [FaList] at hargs
    simp only [Bool.and_eq_true] at hargs
    rw [Ref.evalArgs]
    by_cases hl : lazyAt i = true
    · -- a delayed operand
      simp only [hl, if_true]
      have hvm : isLazyVM fo i = true := by rw [hlz i]; exact hl
      have hrelA := hrel.allocLazy e hargs.1
      have hid : s.lazies.length = rs.thunks.length := hrel.lz.1
      have ih := hA es hargs.2 fo lazyAt hlz (i + 1) m (s.allocLazy e) (allocThunkR rs e env) env hrelA
      have hfrA : FrameF s (s.allocLazy e) :=
        ⟨⟨rfl, rfl, rfl, rfl, Nat.le_refl _, fun _ _ => rfl, Nat.le_refl _, fun _ _ => rfl⟩, Nat.le_refl _, fun _ _ => rfl⟩
      have hextA : RExt rs (allocThunkR rs e env) := ⟨fun i fr hf => ⟨fr, hf, rfl⟩, fun _ _ hc => hc⟩
      show (match (match Ref.evalArgs n es (i + 1) lazyAt env (allocThunkR rs e env) with
          | .ok vs s => Ref.R.ok (Val.lazy rs.thunks.length :: vs) s | r => r) with
        | .ok vs' rs' => _ | .err rs' => _ | .timeout => _ | .brk _ _ => _ | .cont _ _ => _)
      cases h2 : Ref.evalArgs n es (i + 1) lazyAt env (allocThunkR rs e env) with
      | ok vs' rs2 =>
        rw [h2] at ih
        obtain ⟨M2, s2, m2, vs, hM2, hd2, hp2, hvs2, rel2, hm2, ext2, fr2, hcl2⟩ := ih
        refine ⟨M2 + 1, s2, m2, .lazy s.lazies.length :: vs, fun fuel hf => ?_, ?_, hp2, ?_, rel2,
          fun id hid => hm2 id hid, hextA.trans ext2, hfrA.trans fr2, fun w hw => ?_⟩
        · obtain ⟨f, rfl⟩ : ∃ f, fuel = f + 1 := ⟨fuel - 1, by omega⟩
          rw [prepareArgs_cons, if_pos hvm]
          exact hM2 f (by omega)
        · rw [hd2]; show _ ++ (some (Val.lazy s.lazies.length) :: s.data) = _; simp
        · rw [List.map_cons, hvs2, ← hid]; rfl
        · rcases List.mem_cons.mp hw with rfl | hw
          · exact valIn_of_const (fun _ _ _ => rfl)
          · exact hcl2 w hw
      | err rs2 =>
        rw [h2] at ih
        obtain ⟨M2, hM2⟩ := ih
        refine ⟨M2 + 1, fun fuel hf => ?_⟩
        obtain ⟨f, rfl⟩ : ∃ f, fuel = f + 1 := ⟨fuel - 1, by omega⟩
        obtain ⟨se, hse, htr⟩ := hM2 f (by omega)
        exact ⟨se, by rw [prepareArgs_cons, if_pos hvm]; exact hse, htr⟩
      | timeout => trivial
      | brk l rs2 => rw [h2] at ih; exact ih
      | cont l rs2 => rw [h2] at ih; exact ih
    have hl' : lazyAt i = false := by simpa using hl
    have hvm : ¬ isLazyVM fo i = true := by rw [hlz i, hl']; decide
    simp only [hl', Bool.false_eq_true, if_false]
    have hunf : ∀ fuel, (prepareArgs (fuel + 1) fo i (e :: es)).run s
        = match (evalCallExpr fuel e).run s with
          | (.ok v, s1) => (prepareArgs fuel fo (i + 1) es).run (s1.jmp s1.pc (some v :: s1.data))
          | (.error flt, s1) => (.error flt, s1) := by
      intro fuel
      rw [prepareArgs_cons, if_neg hvm]
    have he := evalCallExpr_simF hE e hargs.1 hrel
    cases h1 : Ref.eval n e env rs with
    | ok v' rs1 =>
      rw [h1] at he
      obtain ⟨M1, s1, m1, v, hM1, hd1, hp1, hv1, rel1, hm1, ext1, fr1, hcl1⟩ := he
      simp only
      have ih := hA es hargs.2 fo lazyAt hlz (i + 1) m1 (s1.jmp s1.pc (some v :: s1.data)) rs1 env (rel1.jmp _ _)
      cases h2 : Ref.evalArgs n es (i + 1) lazyAt env rs1 with
      | ok vs' rs2 =>
        rw [h2] at ih
        obtain ⟨M2, s2, m2, vs, hM2, hd2, hp2, hvs2, rel2, hm2, ext2, fr2, hcl2⟩ := ih
        have hv12 : trf m2 v = trf m1 v := VOk.tr_ext hcl1 hm2
        refine ⟨max M1 M2 + 1, s2, m2, v :: vs, fun fuel hf => ?_, ?_, by rw [hp2]; exact hp1, ?_, rel2,
          hm1.trans hm2 fr1.fnsLen, ext1.trans ext2, fr1.trans ((FrameF.jmp _ _ _).trans fr2), fun w hw => ?_⟩
        · obtain ⟨f, rfl⟩ : ∃ f, fuel = f + 1 := ⟨fuel - 1, by omega⟩
          rw [hunf f, hM1 f (by omega)]
          exact hM2 f (by omega)
        · rw [hd2]; show _ ++ (some v :: s1.data) = _; rw [hd1]; simp
        · rw [List.map_cons, hv12, hv1, hvs2]
        · rcases List.mem_cons.mp hw with rfl | hw
          · exact VOk.ext hcl1 ((FrameF.jmp _ _ _).trans fr2) ext2 hm2
          · exact hcl2 w hw
      | err rs2 =>
        rw [h2] at ih
        obtain ⟨M2, hM2⟩ := ih
        refine ⟨max M1 M2 + 1, fun fuel hf => ?_⟩
        obtain ⟨f, rfl⟩ : ∃ f, fuel = f + 1 := ⟨fuel - 1, by omega⟩
        obtain ⟨se, hse, htr⟩ := hM2 f (by omega)
        exact ⟨se, by rw [hunf f, hM1 f (by omega)]; exact hse, htr⟩
      | timeout => trivial
      | brk l rs2 => rw [h2] at ih; exact ih
      | cont l rs2 => rw [h2] at ih; exact ih
    | err rs1 =>
      rw [h1] at he
      obtain ⟨M1, hM1⟩ := he
      refine ⟨M1 + 1, fun fuel hf => ?_⟩
      obtain ⟨f, rfl⟩ : ∃ f, fuel = f + 1 := ⟨fuel - 1, by omega⟩
      obtain ⟨se, hse, htr⟩ := hM1 f (by omega)
      exact ⟨se, by rw [hunf f, hse], htr⟩
    | timeout => trivial
    | brk l rs1 => rw [h1] at he; exact he
    | cont l rs1 => rw [h1] at he; exact he

/-! ## Applying a user function -/

theorem foldl_setVar (fr : Nat) : ∀ (binds : List (String × Val)) (rs : Ref.St) (fr0 : Ref.Frame),
    rs.frames[fr]? = some fr0 →
    binds.foldl (fun s (p : String × Val) => Ref.setVar s fr p.1 p.2) rs
      = { rs with frames := rs.frames.set fr { fr0 with vars := bindsVars fr0.vars binds } }
  | [], rs, fr0, h => by
    show rs = _
    rw [show ({ fr0 with vars := bindsVars fr0.vars [] } : Ref.Frame) = fr0 from rfl, set_self_of_getElem? h]
  | (x, v) :: binds, rs, fr0, h => by
    have hset : Ref.setVar rs fr x v = { rs with frames := rs.frames.set fr { fr0 with vars := VM.assocSet fr0.vars x v } } := by
      unfold Ref.setVar; rw [h]; rfl
    show binds.foldl _ (Ref.setVar rs fr x v) = _
    rw [hset, foldl_setVar fr binds _ { fr0 with vars := VM.assocSet fr0.vars x v }
      (by show (rs.frames.set fr _)[fr]? = _; exact List.getElem?_set_self (lt_of_getElem?_some h))]
    show ({ rs with frames := (rs.frames.set fr _).set fr _ } : Ref.St) = _
    rw [List.set_set]; rfl

theorem lookup_zip_map (f : Val → Val) (y : String) : ∀ (ps : List String) (vs : List Val),
    (ps.zip (vs.map f)).lookup y = ((ps.zip vs).lookup y).map f
  | [], _ => rfl
  | _ :: _, [] => rfl
  | p :: ps, v :: vs => by
    simp only [List.map_cons, List.zip_cons_cons, List.lookup_cons]
    cases (y == p) with
    | true => rfl
    | false => exact lookup_zip_map f y ps vs

theorem lookup_zip_mem {y : String} {v : Val} : ∀ {ps : List String} {vs : List Val},
    (ps.zip vs).lookup y = some v → y ∈ ps ∧ v ∈ vs
  | [], _, h => by simp at h
  | _ :: _, [], h => by simp at h
  | p :: ps, w :: vs, h => by
    simp only [List.zip_cons_cons, List.lookup_cons] at h
    by_cases hy : (y == p) = true
    · rw [hy] at h; simp only [Option.some.injEq] at h; subst h
      exact ⟨by simp [show y = p by simpa using hy], by simp⟩
    · have hy' : (y == p) = false := by simpa using hy
      rw [hy'] at h
      obtain ⟨h1, h2⟩ := lookup_zip_mem h
      exact ⟨List.mem_cons_of_mem _ h1, List.mem_cons_of_mem _ h2⟩

theorem lookup_zip_none {y : String} : ∀ {ps : List String} {vs : List Val}, y ∉ ps → (ps.zip vs).lookup y = none
  | [], _, _ => rfl
  | _ :: _, [], _ => rfl
  | p :: ps, w :: vs, h => by
    simp only [List.zip_cons_cons, List.lookup_cons]
    have hne : (y == p) = false := by
      have : y ≠ p := fun e => h (by simp [e])
      simpa using this
    rw [hne]
    exact lookup_zip_none (fun hm => h (List.mem_cons_of_mem _ hm))

/-- the values bound to the formals `ps ++ rest.toList`: the arguments, those beyond the fixed ones packed -/
def bvals (rest : Option String) (nfix : Nat) (vs : List Val) : List Val :=
  match rest with
  | none => vs
  | some _ => vs.take nfix ++ [mkList (vs.drop nfix)]

/-- the arity check of a call -/
def arOk (rest : Option String) (nfix n : Nat) : Prop :=
  match rest with
  | none => n = nfix
  | some _ => nfix ≤ n

instance (rest : Option String) (nfix n : Nat) : Decidable (arOk rest nfix n) := by
  unfold arOk; cases rest <;> infer_instance

theorem bvals_length {rest : Option String} {nfix : Nat} {vs : List Val} (h : arOk rest nfix vs.length) :
    (bvals rest nfix vs).length = nfix + rest.toList.length := by
  cases rest with
  | none => simpa [bvals, arOk] using h
  | some r => simp only [bvals, arOk] at h ⊢; simp; omega

theorem bvals_map (m : Nat → Nat) (rest : Option String) (nfix : Nat) (vs : List Val) :
    bvals rest nfix (vs.map (trf m)) = (bvals rest nfix vs).map (trf m) := by
  cases rest with
  | none => rfl
  | some r =>
    simp only [bvals, List.map_append, List.map_take, List.map_cons, List.map_nil]
    congr 2
    rw [← List.map_drop]
    exact tr_mkList m id id _

/-- `bindParams` in terms of the formals and the bound values -/
theorem ref_bindParams_eq (ps : List String) (rest : Option String) (vs : List Val) (h : arOk rest ps.length vs.length) :
    Ref.bindParams ps rest vs = some ((ps ++ rest.toList).zip (bvals rest ps.length vs)) := by
  cases rest with
  | none =>
    simp only [arOk] at h
    simp [Ref.bindParams, h, bvals]
  | some r =>
    simp only [arOk] at h
    have h' : vs.length ≥ ps.length := h
    simp only [Ref.bindParams, h', if_true, bvals, Option.toList]
    congr 1
    rw [List.zip_append (by simp; omega)]
    rfl

theorem ref_bindParams_none (ps : List String) (rest : Option String) (vs : List Val) (h : ¬ arOk rest ps.length vs.length) :
    Ref.bindParams ps rest vs = none := by
  cases rest with
  | none => simp only [arOk] at h; simp [Ref.bindParams, h]
  | some r =>
    simp only [arOk] at h
    have h' : ¬ vs.length ≥ ps.length := h
    simp [Ref.bindParams, h']

/-- the data stack `CallFunction` leaves: the arguments, a variadic tail packed -/
def argsData (rest : Option String) (nfix : Nat) (vs : List Val) (D : List (Option Val)) : List (Option Val) :=
  (bvals rest nfix vs).reverse.map some ++ D

/-- the state `CallFunction` leaves for closure object `vid` of closure `c` applied to `vs` -/
def enteredA (s : St) (vid : Nat) (rest : Option String) (nfix : Nat) (vs : List Val) (D : List (Option Val)) : St :=
  entered { s with data := argsData rest nfix vs D } vid

theorem enteredA_none (s : St) (vid nfix : Nat) (vs : List Val) (D : List (Option Val)) (hd : s.data = vs.reverse.map some ++ D) :
    enteredA s vid none nfix vs D = entered s vid := by
  unfold enteredA argsData bvals
  rw [← hd]

theorem okParam_all {ps : List String} {rest : Option String} (hp : ∀ p ∈ ps, okParam p = true) (hr : okRest rest = true) :
    ∀ p ∈ ps ++ rest.toList, okParam p = true := by
  intro p hm
  rcases List.mem_append.mp hm with h | h
  · exact hp p h
  · cases rest with
    | none => cases h
    | some r => simp only [Option.toList, List.mem_singleton] at h; subst h; exact hr

/-- `CallFunction` of a closure object: the arity check, then control in the callee -/
theorem run_callFunction_clo (vid : Nat) (rest : Option String) (nfix : Nat) (vs : List Val) (D : List (Option Val)) (s : St)
    (hd : s.data = vs.reverse.map some ++ D) (hv : (fnOf s vid).varargs = rest.isSome) (hn : (fnOf s vid).nargs = nfix) :
    (callFunction vid vs.length).run s =
      if arOk rest nfix vs.length then (.ok (), enteredA s vid rest nfix vs D) else (.error .err, s) := by
  cases rest with
  | none =>
    rw [run_callFunction_fixed vid vs D s hd hv, hn, enteredA_none s vid nfix vs D hd]
    rfl
  | some r =>
    have hv' : (fnOf s vid).varargs = true := hv
    by_cases har : nfix ≤ vs.length
    · have : arOk (some r) nfix vs.length := har
      rw [if_pos this, run_callFunction_var vid vs D s hd hv' (by rw [hn]; exact har), hn]
      unfold enteredA argsData bvals
      simp
    · have : ¬ arOk (some r) nfix vs.length := har
      rw [if_neg this]
      unfold callFunction
      have hnlt : ¬ s.data.length < vs.length := by rw [hd]; simp
      have hnone : ((s.data.take vs.length).any Option.isNone) = false := by
        have hlen : (vs.reverse.map some).length = vs.length := by simp
        rw [hd, ← hlen, List.take_left]
        simp
      simp only [run_bind, run_get, run_ite, if_neg hnlt, hnone, Bool.false_eq_true, if_false, run_pure, hv', if_true]
      unfold wrangleOptargs
      have hlt : vs.length < (fnOf s vid).nargs := by rw [hn]; omega
      simp only [run_ite, if_pos hlt, run_err, run_bind]

/-- applying a closure object to evaluated arguments (already on the data stack — a variadic tail already
packed —, control already in the callee): prologue, body, epilogue, back in the caller — against `applyFn`.
The caller is function `f₀` for the relation; `s₁.curfunc` is `f₀` (a call instruction) or the pseudo-function
of the Go builtins (`apply`/`map` calling back into the machine), which only travels in the return address. -/
def FClaimU (n : Nat) : Prop :=
  ∀ m s₁ rs₁ env vid (c : Ref.Clos) (vs : List Val) (D : List (Option Val)) (f₀ : Nat), RelF m (s₁.withCur f₀) rs₁ env →
    GoodFn m s₁ rs₁ vid →
    rs₁.clos[m vid]? = some c →
    s₁.data = vs.reverse.map some ++ D → (∀ v ∈ vs, VOk m s₁ rs₁ v) → arOk c.rest c.ps.length vs.length →
    match Ref.applyFn n (.fn (m vid)) (vs.map (trf m)) rs₁ with
    | .ok v' rs' => ∃ (s' : St) (m' : Nat → Nat) (v : Val), ReachX (enteredA s₁ vid c.rest c.ps.length vs D) s'
        ∧ s'.pc = s₁.pc + 1
        ∧ s'.data = some v :: D ∧ v' = trf m' v ∧ RelF m' (s'.withCur f₀) rs' env ∧ MExt s₁ m m' ∧ RExt rs₁ rs'
        ∧ FrameF s₁ s' ∧ VOk m' s' rs' v
    | .err rs' => FailsX (enteredA s₁ vid c.rest c.ps.length vs D) rs'.trace
    | .timeout => True
    | .brk _ _ => False
    | .cont _ _ => False

theorem okParam_name {p : String} (h : okParam p = true) : okName p = true := h

/-! ## The call instruction: the reference side -/

/-- what `Ref.eval` does with a call once the callee is evaluated -/
def refCall (k : Nat) (fv : Val) (args : List Expr) (env : Nat) (s : Ref.St) : Ref.R Val :=
  if (match fv with | .arr _ => true | _ => false) then
    (match Ref.evalList (k + 1) args env s with
     | .ok _ s => .err s
     | .err s => .err s | .brk l s => .brk l s | .cont l s => .cont l s | .timeout => .timeout)
  else if !isFunction fv then (if args.isEmpty then .ok fv s else .err s)
  else
    let lazyAt : Nat → Bool := match fv with
      | .fn id => (match s.clos[id]? with
        | some c => fun i => i < c.ps.length && Ref.isLazyParam (c.ps.getD i "")
        | none => fun _ => false)
      | _ => fun _ => false
    (match Ref.evalArgs (k + 1) args 0 lazyAt env s with
     | .ok vs s => Ref.applyFn (k + 1) fv vs s
     | .err s => .err s | .brk l s => .brk l s | .cont l s => .cont l s | .timeout => .timeout)

theorem ref_eval_call_sym (k : Nat) (h : String) (args : List Expr) (env : Nat) (rs : Ref.St) :
    Ref.eval (k + 2) (.call (.sym h) args) env rs =
      match Ref.lookup rs env h with
      | some (_, fv) => refCall k fv args env rs
      | none => .err rs := by
  rw [Ref.eval, Ref.eval]
  cases Ref.lookup rs env h with
  | none => rfl
  | some r => rfl

/-- the positions the reference evaluator delays for a closure -/
def lazyAtC (c : Ref.Clos) : Nat → Bool := fun i => decide (i < c.ps.length) && Ref.isLazyParam (c.ps.getD i "")

theorem refCall_fn (k cid : Nat) (args : List Expr) (env : Nat) (rs : Ref.St) (c : Ref.Clos)
    (hc : rs.clos[cid]? = some c) :
    refCall k (.fn cid) args env rs =
      match Ref.evalArgs (k + 1) args 0 (lazyAtC c) env rs with
      | .ok vs s => Ref.applyFn (k + 1) (.fn cid) vs s
      | .err s => .err s | .brk l s => .brk l s | .cont l s => .cont l s | .timeout => .timeout := by
  unfold refCall lazyAtC
  simp only [isFunction, Bool.not_true, Bool.false_eq_true, if_false, hc]

/-- the arguments `evalArgs` returns are as many as the operands -/
theorem ref_evalArgs_length' : ∀ (n : Nat) (es : List Expr) (i : Nat) (la : Nat → Bool) (env : Nat) (rs : Ref.St) (vs : List Val)
    (rs' : Ref.St), Ref.evalArgs n es i la env rs = .ok vs rs' → vs.length = es.length
  | 0, es, i, la, env, rs, vs, rs', h => by rw [Ref.evalArgs] at h; cases h
  | n + 1, [], i, la, env, rs, vs, rs', h => by
    rw [Ref.evalArgs] at h
    · injection h with h1 _; subst h1; rfl
    · omega
  | n + 1, e :: es, i, la, env, rs, vs, rs', h => by
    rw [Ref.evalArgs] at h
    by_cases hl : la i = true
    · simp only [hl, if_true] at h
      cases h2 : Ref.evalArgs n es (i + 1) la env { rs with thunks := rs.thunks ++ [{ e, env, value := none }] } with
      | ok vs2 rs2 =>
        rw [h2] at h; injection h with h1 _; subst h1
        simp [ref_evalArgs_length' n es (i + 1) la env _ vs2 rs2 h2]
      | err _ => rw [h2] at h; cases h
      | timeout => rw [h2] at h; cases h
      | brk _ _ => rw [h2] at h; cases h
      | cont _ _ => rw [h2] at h; cases h
    · have hl' : la i = false := by simpa using hl
      simp only [hl', Bool.false_eq_true, if_false] at h
      cases h1 : Ref.eval n e env rs with
      | ok v rs1 =>
        rw [h1] at h; simp only at h
        cases h2 : Ref.evalArgs n es (i + 1) la env rs1 with
        | ok vs2 rs2 =>
          rw [h2] at h; injection h with h3 _; subst h3
          simp [ref_evalArgs_length' n es (i + 1) la env rs1 vs2 rs2 h2]
        | err _ => rw [h2] at h; cases h
        | timeout => rw [h2] at h; cases h
        | brk _ _ => rw [h2] at h; cases h
        | cont _ _ => rw [h2] at h; cases h
      | err _ => rw [h1] at h; cases h
      | timeout => rw [h1] at h; cases h
      | brk _ _ => rw [h1] at h; cases h
      | cont _ _ => rw [h1] at h; cases h

/-- the machine and the reference evaluator delay the same operands of a call of a closure object -/
theorem isLazyVM_clo {fo : FnObj} {c : Ref.Clos} (hu : fo.user = false) (hp : fo.params = c.ps ++ c.rest.toList)
    (hn : fo.nargs = c.ps.length) (hv : fo.varargs = c.rest.isSome) (j : Nat) : isLazyVM (some fo) j = lazyAtC c j := by
  unfold isLazyVM lazyAtC FnObj.isLazyCallArg FnObj.hasLazyFormals Ref.isLazyParam
  simp only [hu, Bool.not_false, Bool.true_and, hp, hn, hv]
  by_cases hj : j < c.ps.length
  · have hget : (c.ps ++ c.rest.toList)[j]? = some c.ps[j] := by rw [List.getElem?_append_left hj]; simp [hj]
    have hgd : c.ps.getD j "" = c.ps[j] := by simp [List.getD_eq_getElem?_getD, hj]
    have hnge : ¬ j ≥ c.ps.length := by omega
    simp only [hget, hgd, hj, decide_true, Bool.true_and, hnge, decide_false, Bool.and_false, Bool.false_eq_true, if_false]
    by_cases hs : c.ps[j].startsWith "#" = true
    · have hany : (c.ps ++ c.rest.toList).any (fun x => x.startsWith "#") = true :=
        List.any_eq_true.mpr ⟨c.ps[j], List.mem_append_left _ (List.getElem_mem hj), hs⟩
      simp [hany, hs]
    · have hs' : c.ps[j].startsWith "#" = false := by simpa using hs
      simp [hs']
  · have hge : j ≥ c.ps.length := by omega
    simp only [hj, decide_false, Bool.false_and]
    cases hr : c.rest with
    | none =>
      have hget : c.ps[j]? = none := by simp; omega
      simp [hr, hget]
    | some r => simp [hr, hge]

theorem refCall_builtin (k : Nat) (name : String) (args : List Expr) (env : Nat) (rs : Ref.St) :
    refCall k (.builtin name) args env rs =
      match Ref.evalArgs (k + 1) args 0 (fun _ => false) env rs with
      | .ok vs s => Ref.applyFn (k + 1) (.builtin name) vs s
      | .err s => .err s | .brk l s => .brk l s | .cont l s => .cont l s | .timeout => .timeout := by
  unfold refCall
  simp only [isFunction, Bool.not_true, Bool.false_eq_true, if_false]

theorem ref_evalList_eq_evalArgs : ∀ (n : Nat) (es : List Expr) (i env : Nat) (rs : Ref.St),
    Ref.evalList n es env rs = Ref.evalArgs n es i (fun _ => false) env rs
  | 0, es, i, env, rs => by rw [Ref.evalList, Ref.evalArgs]
  | n + 1, [], i, env, rs => by
    rw [Ref.evalList, Ref.evalArgs]
    · omega
    · omega
  | n + 1, e :: es, i, env, rs => by
    rw [Ref.evalList, Ref.evalArgs]
    simp only [Bool.false_eq_true, if_false]
    cases Ref.eval n e env rs with
    | ok v rs1 => simp only [ref_evalList_eq_evalArgs n es (i + 1) env rs1]
    | _ => rfl

theorem refCall_arr (k r : Nat) (args : List Expr) (env : Nat) (rs : Ref.St) :
    refCall k (.arr r) args env rs =
      match Ref.evalArgs (k + 1) args 0 (fun _ => false) env rs with
      | .ok _ s => .err s
      | .err s => .err s | .brk l s => .brk l s | .cont l s => .cont l s | .timeout => .timeout := by
  unfold refCall
  simp only [if_true, ref_evalList_eq_evalArgs (k + 1) args 0 env rs]

theorem refCall_other (k : Nat) (fv : Val) (args : List Expr) (env : Nat) (rs : Ref.St) (h1 : ∀ id, fv ≠ .fn id)
    (h2 : ∀ n, fv ≠ .builtin n) (h3 : ∀ r, fv ≠ .arr r) :
    refCall k fv args env rs = if args.isEmpty then .ok fv rs else .err rs := by
  unfold refCall
  cases fv with
  | fn id => exact absurd rfl (h1 id)
  | builtin n => exact absurd rfl (h2 n)
  | arr r => exact absurd rfl (h3 r)
  | _ => simp only [isFunction, Bool.not_false, if_true, Bool.false_eq_true, if_false]

/-! ## The call instruction: the machine against the reference -/

theorem ref_applyFn_arity (k cid : Nat) (vs' : List Val) (rs : Ref.St) (c : Ref.Clos) (hc : rs.clos[cid]? = some c)
    (hne : ¬ arOk c.rest c.ps.length vs'.length) : Ref.applyFn (k + 1) (.fn cid) vs' rs = .err rs := by
  rw [Ref.applyFn]
  simp only [hc, ref_bindParams_none _ _ _ hne]

/-- as `SimF` for one instruction that stands at `s0` and whose execution goes on from `s` (the callee of a call
evaluated: `s0 = s` for a symbol) -/
def SimVia (s0 : St) (n : Nat) (m : Nat → Nat) (s : St) (rs : Ref.St) (env : Nat) (res : Ref.R Val) : Prop :=
  match res with
  | .ok v' rs' => ∃ s' m' v, ReachX s0 s' ∧ Lands n v s s' ∧ v' = trf m' v ∧ RelF m' s' rs' env
      ∧ MExt s m m' ∧ RExt rs rs' ∧ FrameF s s' ∧ VOk m' s' rs' v
  | .err rs' => FailsX s0 rs'.trace
  | .timeout => True
  | .brk _ _ => False
  | .cont _ _ => False

/-- a call whose callee symbol denotes a closure object -/
theorem simF_call_fn {k : Nat} (hA : FClaimA (k + 1)) (hU : FClaimU (k + 1)) {args : List Expr}
    (hargs : FaList args = true) {m : Nat → Nat} {s : St} {rs : Ref.St} {env : Nat} {pre post : List Instr} {vid : Nat}
    (hrel : RelF m s rs env) {ins : Instr} {s0 : St} {M0 : Nat} (hat : At s0 pre ins post)
    (hex : ∀ F, M0 ≤ F → (exec (F + 3) ins).run s0 = (callResolved (F + 2) (.fn vid) args).run s) (hg : GoodFn m s rs vid) :
    SimVia s0 1 m s rs env (refCall k (.fn (m vid)) args env rs) := by
  obtain ⟨c, hc1, hrest, hnd, hokp, hbody, hparams, hnargs, hvar, huser, _, _, _⟩ := hg.clo
  rw [refCall_fn k (m vid) args env rs c hc1]
  have hprep := hA args hargs (some (fnOf s vid)) (lazyAtC c) (isLazyVM_clo huser hparams hnargs hvar) 0 m s rs env hrel
  have hexec : ∀ F, M0 ≤ F → (exec (F + 3) ins).run s0
      = guardedRun s.data.length
          ((prepareArgs (F + 1) (some (fnOf s vid)) 0 args >>= fun _ => callFunction vid args.length : M Unit).run s) :=
    fun F hF => by rw [hex F hF, run_callResolved_fn]
  obtain ⟨b0, hch, hfc⟩ := hrel.ctx
  have hcurlt := hfc.lt
  cases h1 : Ref.evalArgs (k + 1) args 0 (lazyAtC c) env rs with
  | ok vs' rs1 =>
    rw [h1] at hprep
    obtain ⟨M, s1, m1, vs, hM, hd1, hp1, hvs, rel1, hm1, ext1, fr1, hcl⟩ := hprep
    simp only
    have hlen : args.length = vs.length := by
      rw [← ref_evalArgs_length' _ _ _ _ _ _ _ _ h1, hvs, List.length_map]
    have hfo1 : fnOf s1 vid = fnOf s vid := fr1.fns vid hg.lt
    have hcf := run_callFunction_clo vid c.rest c.ps.length vs s.data s1 hd1 (by rw [hfo1]; exact hvar) (by rw [hfo1]; exact hnargs)
    have hg1 : GoodFn m1 s1 rs1 vid := hg.ext fr1 ext1 hm1
    have hmv : m1 vid = m vid := hm1 vid hg.lt
    by_cases har : arOk c.rest c.ps.length vs.length
    · -- control enters the callee
      rw [if_pos har] at hcf
      have hx : ∀ f, M + M0 + 3 ≤ f → (exec (f + 1) ins).run s0
          = (.ok (), enteredA s1 vid c.rest c.ps.length vs s.data) := by
        intro f hf
        obtain ⟨G, rfl⟩ : ∃ G, f = G + 2 := ⟨f - 2, by omega⟩
        rw [hexec G (by omega), run_bind, hM (G + 1) (by omega)]
        simp only
        rw [hlen, hcf]; rfl
      have r1 : ReachX s0 (enteredA s1 vid c.rest c.ps.length vs s.data) := ReachX.step hat (M + M0 + 3) hx
      have hu := hU m1 s1 rs1 env vid c vs s.data s1.curfunc rel1 hg1 (by rw [hmv]; exact ext1.2 _ _ hc1) hd1 hcl har
      rw [hmv, ← hvs] at hu
      cases h2 : Ref.applyFn (k + 1) (.fn (m vid)) vs' rs1 with
      | ok v' rs2 =>
        rw [h2] at hu
        obtain ⟨s', m', v, r2, hpc, hdat, hv, rel2, hm2, ext2, fr2, hcl2⟩ := hu
        rw [withCur_self fr2.curfunc] at rel2
        refine ⟨s', m', v, r1.trans r2, ⟨?_, by rw [hpc, hp1]; simp, hdat⟩, hv, rel2, hm1.trans hm2 fr1.fnsLen,
          ext1.trans ext2, fr1.trans fr2, hcl2⟩
        rw [fr2.curfunc, fr1.curfunc, fr2.fns _ (by rw [← fr1.curfunc]; exact Nat.lt_of_lt_of_le (by rw [fr1.curfunc]; exact hcurlt) fr1.fnsLen),
          fr1.fns _ hcurlt]
      | err rs2 => rw [h2] at hu; exact FailsX.of_reach r1 hu
      | timeout => trivial
      | brk l rs2 => rw [h2] at hu; exact hu.elim
      | cont l rs2 => rw [h2] at hu; exact hu.elim
    · -- wrong number of arguments
      rw [if_neg har] at hcf
      have hne : ¬ arOk c.rest c.ps.length vs'.length := by
        rw [hvs, List.length_map]; exact har
      rw [ref_applyFn_arity k (m vid) vs' rs1 c (ext1.2 _ _ hc1) hne]
      refine FailsX.step hat (M + M0 + 3) (fun f hf => ?_)
      obtain ⟨G, rfl⟩ : ∃ G, f = G + 2 := ⟨f - 2, by omega⟩
      refine ⟨{ s1 with data := truncate s1.data s.data.length }, ?_, rel1.trace⟩
      rw [hexec G (by omega), run_bind, hM (G + 1) (by omega)]
      simp only
      rw [hlen, hcf]; rfl
  | err rs1 =>
    rw [h1] at hprep
    obtain ⟨M, hM⟩ := hprep
    simp only
    refine FailsX.step hat (M + M0 + 2) (fun f hf => ?_)
    obtain ⟨F, rfl⟩ : ∃ F, f = F + 2 := ⟨f - 2, by omega⟩
    obtain ⟨se, hse, htr⟩ := hM (F + 1) (by omega)
    exact ⟨{ se with data := truncate se.data s.data.length }, by rw [hexec F (by omega), run_bind, hse]; rfl, htr⟩
  | timeout => trivial
  | brk l rs1 => rw [h1] at hprep; exact hprep.elim
  | cont l rs1 => rw [h1] at hprep; exact hprep.elim

theorem headD_map_tr (m : Nat → Nat) (vs : List Val) : (vs.map (trf m)).headD .nil = trf m (vs.headD .nil) := by
  cases vs <;> rfl

/-- a call whose callee symbol denotes a first-order builtin -/
theorem simF_call_builtin {k : Nat} (hA : FClaimA (k + 1)) {name : String} (hn : name ∈ foBuiltins) {args : List Expr}
    (hargs : FaList args = true) {m : Nat → Nat} {s : St} {rs : Ref.St} {env : Nat} {pre post : List Instr}
    (hrel : RelF m s rs env) {ins : Instr} {s0 : St} {M0 : Nat} (hat : At s0 pre ins post)
    (hex : ∀ F, M0 ≤ F → (exec (F + 3) ins).run s0 = (callResolved (F + 2) (.builtin name) args).run s) :
    SimVia s0 1 m s rs env (refCall k (.builtin name) args env rs) := by
  rw [refCall_builtin]
  have hprep := hA args hargs none (fun _ => false) (fun _ => rfl) 0 m s rs env hrel
  have hexec : ∀ F, M0 ≤ F → (exec (F + 3) ins).run s0
      = guardedRun s.data.length
          ((prepareArgs (F + 1) none 0 args >>= fun _ => callUser (F + 1) name args.length : M Unit).run s) :=
    fun F hF => by rw [hex F hF, run_callResolved_builtin]
  obtain ⟨b0, hch, hfc⟩ := hrel.ctx
  have hcurlt := hfc.lt
  cases h1 : Ref.evalArgs (k + 1) args 0 (fun _ => false) env rs with
  | ok vs' rs1 =>
    rw [h1] at hprep
    obtain ⟨M, s1, m1, vs, hM, hd1, hp1, hvs, rel1, hm1, ext1, fr1, hclvs⟩ := hprep
    simp only
    have hlen : args.length = vs.length := by
      rw [← ref_evalArgs_length _ _ _ _ _ _ _ h1, hvs, List.length_map]
    have hcu := fun f => run_callUser_fo f name hn vs s.data s1 hd1
    rw [ref_applyFn_fo k name hn vs' rs1]
    have hheapb : rs1.heap = trHeap m1 id id (inBuiltin s1 s.data).heap := rel1.heap
    have htrb : (inBuiltin s1 s.data).trace = rs1.trace := rel1.trace
    -- the successful case, uniformly in the new heap and trace
    have hok : ∀ (v : Val) (s3 : St) (rsF : Ref.St), foResult name vs (inBuiltin s1 s.data) = (.ok v, s3) →
        s3.scopes = s1.scopes → s3.linear = s1.linear → s3.fns = s1.fns → s3.suspended = s1.suspended →
        s3.loops = s1.loops → s3.lazies = s1.lazies → rsF.thunks = rs1.thunks →
        rsF.frames = rs1.frames → rsF.clos = rs1.clos → rsF.heap = trHeap m1 id id s3.heap → s3.trace = rsF.trace →
        HOk m1 s1 rs1 s3.heap → VOk m1 s1 rs1 v →
        SimVia s0 1 m s rs env (.ok (trf m1 v) rsF) := by
      intro v s3 rsF hres hsc hlin hfns hsus hlps hlzs hths hfr hcl hheap htr hhok hvok
      let sF : St := { s3 with data := some v :: s.data, addr := s1.addr, curfunc := s1.curfunc, pc := s1.pc + 1 }
      have hx : ∀ f, M + M0 + 3 ≤ f → (exec (f + 1) ins).run s0 = (.ok (), sF) := by
        intro f hf
        obtain ⟨G, rfl⟩ : ∃ G, f = G + 3 := ⟨f - 3, by omega⟩
        rw [hexec (G + 1) (by omega), run_bind, hM (G + 1 + 1) (by omega)]
        simp only
        rw [hlen, hcu G, hres]; rfl
      have hrelF : RelF m1 sF rsF env := rel1.of_same hsc hlin hfns rfl hfr hcl hheap htr hhok (LoopsExt.of_eq hlps) hlzs hths
      have hfnF : fnOf sF sF.curfunc = fnOf s s.curfunc := by
        show s3.fns.getD s1.curfunc {} = _
        rw [hfns, fr1.curfunc]; exact fr1.fns _ hcurlt
      have hfrF : Frame s1 sF := ⟨hlin, rfl, rfl, hsus, by show s1.fns.length ≤ s3.fns.length; rw [hfns]; exact Nat.le_refl _,
        fun id _ => by show s3.fns.getD id {} = _; rw [hfns]; rfl,
        by show s1.loops.length ≤ s3.loops.length; rw [hlps]; exact Nat.le_refl _,
        fun id _ => by show s3.loops.getD id {} = _; rw [hlps]⟩
      have hrext : RExt rs1 rsF := ⟨fun i fr hf => ⟨fr, by rw [hfr]; exact hf, rfl⟩, fun i c hc => by rw [hcl]; exact hc⟩
      refine ⟨sF, m1, v, ReachX.step hat (M + M0 + 3) hx, ⟨hfnF, by show s1.pc + 1 = _; rw [hp1]; simp, rfl⟩, rfl, hrelF,
        hm1, ext1.trans hrext,
        fr1.trans ⟨hfrF, by show s1.scopes.length ≤ s3.scopes.length; rw [hsc]; exact Nat.le_refl _,
          fun i _ => by unfold isFnScope scopeOf; show (s3.scopes.getD i {}).isFunction = _; rw [hsc]⟩,
        VOk.ext hvok ⟨hfrF, by show s1.scopes.length ≤ s3.scopes.length; rw [hsc]; exact Nat.le_refl _,
          fun i _ => by unfold isFnScope scopeOf; show (s3.scopes.getD i {}).isFunction = _; rw [hsc]⟩ hrext (MExt.refl _ _)⟩
    by_cases ht : name = "trace"
    · simp only [ht, if_true]
      rw [ht] at hok
      have hfo : foResult "trace" vs (inBuiltin s1 s.data) = (.ok (vs.headD .nil),
          { inBuiltin s1 s.data with trace := (inBuiltin s1 s.data).trace ++ [pr (inBuiltin s1 s.data).heap (vs.headD .nil)] }) := by
        unfold foResult; rw [if_pos rfl]
      have hpr : pr rs1.heap (vs'.headD .nil) = pr (inBuiltin s1 s.data).heap (vs.headD .nil) := by
        rw [hheapb, hvs, headD_map_tr]; exact pr_tr m1 id id _ _
      rw [hvs, headD_map_tr]
      refine hok _ _ { rs1 with trace := rs1.trace ++ [pr rs1.heap (trf m1 (vs.headD .nil))] } hfo rfl rfl rfl rfl rfl rfl rfl rfl rfl
        rel1.heap ?_ rel1.hok ?_
      · show (inBuiltin s1 s.data).trace ++ [pr (inBuiltin s1 s.data).heap _] = _
        rw [htrb, ← headD_map_tr, ← hvs, hpr]
      · cases vs with
        | nil => exact vOk_lit .nil (fun _ _ _ => rfl)
        | cons v0 _ => exact hclvs v0 List.mem_cons_self
    · simp only [ht, if_false]
      have hpt := prim_tr m1 id id name vs s1.heap
      rw [hvs, rel1.heap, hpt]
      cases hp : prim name vs s1.heap with
      | some r =>
        obtain ⟨v, hp'⟩ := r
        have hfo : foResult name vs (inBuiltin s1 s.data) = (.ok v, { inBuiltin s1 s.data with heap := hp' }) := by
          unfold foResult; rw [if_neg ht]
          show (match prim name vs s1.heap with | some (v, h) => _ | none => _) = _
          rw [hp]
        simp only [Option.map_some]
        have hpc := prim_valIn name vs s1.heap v hp' hp hclvs rel1.hok
        exact hok v _ { rs1 with heap := trHeap m1 id id hp' } hfo rfl rfl rfl rfl rfl rfl rfl rfl rfl rfl rel1.trace hpc.2 hpc.1
      | none =>
        have hfo : foResult name vs (inBuiltin s1 s.data) = (.error .err, inBuiltin s1 s.data) := by
          unfold foResult; rw [if_neg ht]
          show (match prim name vs s1.heap with | some (v, h) => _ | none => _) = _
          rw [hp]
        simp only [Option.map_none]
        refine FailsX.step hat (M + M0 + 3) (fun f hf => ?_)
        obtain ⟨G, rfl⟩ : ∃ G, f = G + 3 := ⟨f - 3, by omega⟩
        refine ⟨_, by rw [hexec (G + 1) (by omega), run_bind, hM (G + 1 + 1) (by omega)]; simp only; rw [hlen, hcu G, hfo]; rfl, ?_⟩
        show ((restore (capPopped s1 s.data)).run (inBuiltin s1 s.data)).2.trace = _
        rw [restore_trace]; exact rel1.trace
  | err rs1 =>
    rw [h1] at hprep
    obtain ⟨M, hM⟩ := hprep
    simp only
    refine FailsX.step hat (M + M0 + 2) (fun f hf => ?_)
    obtain ⟨F, rfl⟩ : ∃ F, f = F + 2 := ⟨f - 2, by omega⟩
    obtain ⟨se, hse, htr⟩ := hM (F + 1) (by omega)
    exact ⟨{ se with data := truncate se.data s.data.length }, by rw [hexec F (by omega), run_bind, hse]; rfl, htr⟩
  | timeout => trivial
  | brk l rs1 => rw [h1] at hprep; exact hprep.elim
  | cont l rs1 => rw [h1] at hprep; exact hprep.elim

/-- an array in callee position: the operands are evaluated, then the call fails -/
theorem simF_call_arr {k : Nat} (hA : FClaimA (k + 1)) {args : List Expr}
    (hargs : FaList args = true) {m : Nat → Nat} {s : St} {rs : Ref.St} {env : Nat} {pre post : List Instr} {r : Nat}
    (hrel : RelF m s rs env) {ins : Instr} {s0 : St} {M0 : Nat} (hat : At s0 pre ins post)
    (hex : ∀ F, M0 ≤ F → (exec (F + 3) ins).run s0 = (callResolved (F + 2) (.arr r) args).run s) :
    SimVia s0 1 m s rs env (refCall k (.arr r) args env rs) := by
  rw [refCall_arr]
  have hprep := hA args hargs none (fun _ => false) (fun _ => rfl) 0 m s rs env hrel
  have hexec : ∀ F, M0 ≤ F → (exec (F + 3) ins).run s0
      = guardedRun s.data.length ((prepareArgs (F + 1) none 0 args >>= fun _ => (err : M Unit) : M Unit).run s) :=
    fun F hF => by rw [hex F hF, run_callResolved_arr]
  cases h1 : Ref.evalArgs (k + 1) args 0 (fun _ => false) env rs with
  | ok vs' rs1 =>
    rw [h1] at hprep
    obtain ⟨M, s1, m1, vs, hM, hd1, hp1, hvs, rel1, hm1, ext1, fr1, hclvs⟩ := hprep
    simp only
    refine FailsX.step hat (M + M0 + 2) (fun f hf => ?_)
    obtain ⟨F, rfl⟩ : ∃ F, f = F + 2 := ⟨f - 2, by omega⟩
    exact ⟨{ s1 with data := truncate s1.data s.data.length },
      by rw [hexec F (by omega), run_bind, hM (F + 1) (by omega)]; rfl, rel1.trace⟩
  | err rs1 =>
    rw [h1] at hprep
    obtain ⟨M, hM⟩ := hprep
    simp only
    refine FailsX.step hat (M + M0 + 2) (fun f hf => ?_)
    obtain ⟨F, rfl⟩ : ∃ F, f = F + 2 := ⟨f - 2, by omega⟩
    obtain ⟨se, hse, htr⟩ := hM (F + 1) (by omega)
    exact ⟨{ se with data := truncate se.data s.data.length }, by rw [hexec F (by omega), run_bind, hse]; rfl, htr⟩
  | timeout => trivial
  | brk l rs1 => rw [h1] at hprep; exact hprep.elim
  | cont l rs1 => rw [h1] at hprep; exact hprep.elim

/-- the callee symbol denotes something that is no function: the value itself without operands,
an error with operands -/
theorem simF_call_other {k : Nat} {args : List Expr} {m : Nat → Nat} {s : St} {rs : Ref.St} {env : Nat}
    {pre post : List Instr} {fv : Val} (hrel : RelF m s rs env)
    {ins : Instr} {s0 : St} {M0 : Nat} (hat : At s0 pre ins post)
    (hex : ∀ F, M0 ≤ F → (exec (F + 3) ins).run s0 = (callResolved (F + 2) fv args).run s) (hv : VOk m s rs fv)
    (h1 : ∀ id, fv ≠ .fn id) (h2 : ∀ n, fv ≠ .builtin n) (h3 : ∀ r, fv ≠ .arr r) :
    SimVia s0 1 m s rs env (refCall k (trf m fv) args env rs) := by
  have h1' : ∀ id, trf m fv ≠ .fn id := fun id e => by cases fv <;> simp_all [tr]
  have h2' : ∀ n, trf m fv ≠ .builtin n := fun n e => by cases fv <;> simp_all [tr]
  have h3' : ∀ r, trf m fv ≠ .arr r := fun r e => by cases fv <;> simp_all [tr]
  rw [refCall_other k _ args env rs h1' h2' h3']
  have hexec : ∀ F, M0 ≤ F → (exec (F + 3) ins).run s0
      = if args.isEmpty then (.ok (), s.jmp (s.pc + 1) (some fv :: s.data)) else (.error .err, s) :=
    fun F hF => by rw [hex F hF, run_callResolved_other _ _ _ _ h1 h2 h3]
  by_cases he : args.isEmpty = true
  · simp only [he, if_true] at hexec ⊢
    refine ⟨s.jmp (s.pc + 1) (some fv :: s.data), m, fv, ReachX.step hat (M0 + 2) (fun f hf => ?_), ⟨rfl, by simp, rfl⟩,
      rfl, hrel.jmp _ _, MExt.refl s m, RExt.refl rs, FrameF.jmp _ _ _,
      VOk.ext hv (FrameF.jmp _ _ _) (RExt.refl rs) (MExt.refl s m)⟩
    obtain ⟨F, rfl⟩ : ∃ F, f = F + 2 := ⟨f - 2, by omega⟩
    exact hexec F (by omega)
  · simp only [he, Bool.false_eq_true, if_false] at hexec ⊢
    refine FailsX.step hat (M0 + 2) (fun f hf => ?_)
    obtain ⟨F, rfl⟩ : ∃ F, f = F + 2 := ⟨f - 2, by omega⟩
    exact ⟨s, hexec F (by omega), hrel.trace⟩

/-- a call whose callee symbol denotes the Go builtin `name` (for `force`, `apply`, `map`: proved in `SimF2Lazy.lean`,
`SimF2Apply.lean` from the claims at lower fuel) -/
def FClaimH (k : Nat) (name : String) : Prop :=
  ∀ (args : List Expr), FaList args = true → ∀ (m : Nat → Nat) (s : St) (rs : Ref.St) (env : Nat)
    (pre post : List Instr) (ins : Instr) (s0 : St) (M0 : Nat), RelF m s rs env → At s0 pre ins post →
    (∀ F, M0 ≤ F → (exec (F + 3) ins).run s0 = (callResolved (F + 2) (.builtin name) args).run s) →
    SimVia s0 1 m s rs env (refCall k (.builtin name) args env rs)

/-- a call of `force` -/
abbrev FClaimG (k : Nat) : Prop := FClaimH k "force"

/-- **A call, the callee evaluated** to `fv` (by lookup or by a nested run): a closure object, a Go builtin, or
something that cannot be called -/
theorem simF_callV {k : Nat} (hA : FClaimA (k + 1)) (hU : FClaimU (k + 1)) (hG : ∀ name, hoB name → FClaimH k name)
    {args : List Expr} (hargs : FaList args = true) {m : Nat → Nat} {s : St} {rs : Ref.St} {env : Nat}
    {pre post : List Instr} {ins : Instr} {s0 : St} {M0 : Nat} {fv : Val} (hrel : RelF m s rs env) (hat : At s0 pre ins post)
    (hex : ∀ F, M0 ≤ F → (exec (F + 3) ins).run s0 = (callResolved (F + 2) fv args).run s) (hv : VOk m s rs fv) :
    SimVia s0 1 m s rs env (refCall k (trf m fv) args env rs) := by
  cases fv with
  | fn vid => exact simF_call_fn hA hU hargs hrel hat hex hv.fn
  | builtin name =>
    rcases hv.builtin with hn | hn
    · exact simF_call_builtin hA hn hargs hrel hat hex
    · exact hG name hn args hargs m s rs env pre post ins s0 M0 hrel hat hex
  | arr r => exact simF_call_arr hA hargs hrel hat hex
  | nil => exact simF_call_other hrel hat hex hv (fun _ e => by cases e) (fun _ e => by cases e) (fun _ e => by cases e)
  | bool b => exact simF_call_other hrel hat hex hv (fun _ e => by cases e) (fun _ e => by cases e) (fun _ e => by cases e)
  | int v => exact simF_call_other hrel hat hex hv (fun _ e => by cases e) (fun _ e => by cases e) (fun _ e => by cases e)
  | str v => exact simF_call_other hrel hat hex hv (fun _ e => by cases e) (fun _ e => by cases e) (fun _ e => by cases e)
  | pair a b => exact simF_call_other hrel hat hex hv (fun _ e => by cases e) (fun _ e => by cases e) (fun _ e => by cases e)
  | lazy v => exact simF_call_other hrel hat hex hv (fun _ e => by cases e) (fun _ e => by cases e) (fun _ e => by cases e)
  | mark v => exact simF_call_other hrel hat hex hv (fun _ e => by cases e) (fun _ e => by cases e) (fun _ e => by cases e)
  | sym v => exact simF_call_other hrel hat hex hv (fun _ e => by cases e) (fun _ e => by cases e) (fun _ e => by cases e)

/-- **A call by name**: callee by lookup -/
theorem simF_call {k : Nat} (hA : FClaimA (k + 1)) (hU : FClaimU (k + 1)) (hG : ∀ name, hoB name → FClaimH k name) {h : String} (hh : okSym h = true)
    {args : List Expr} (hargs : FaList args = true) {m : Nat → Nat} {s : St} {rs : Ref.St} {env : Nat}
    {pre post : List Instr} (hrel : RelF m s rs env) (hseg : Seg s pre [.callExpr (.sym h) args] post) :
    SimF [.callExpr (.sym h) args] m s rs env (Ref.eval (k + 2) (.call (.sym h) args) env rs) := by
  rw [ref_eval_call_sym]
  have hlook := hrel.lexLookup h
  cases hl : lexLookup s h with
  | none =>
    rw [hl] at hlook
    rw [← hlook]
    simp only [Option.map_none]
    refine FailsX.step hseg.head 1 (fun f hf => ?_)
    obtain ⟨F, rfl⟩ : ∃ F, f = F + 1 := ⟨f - 1, by omega⟩
    exact ⟨s, exec_callExpr_sym_none F h args s hl, hrel.trace⟩
  | some r =>
    obtain ⟨i, fv⟩ := r
    rw [hl] at hlook
    rw [← hlook]
    simp only [Option.map_some, trp2]
    have hv : VOk m s rs fv := (hrel.vok i h fv (lexLookup_sound hl)).ok hh
    exact simF_callV (M0 := 0) hA hU hG hargs hrel hseg.head (fun F _ => exec_callExpr_sym F h args s i fv hl) hv

/-- what `Ref.eval` does with a call: the callee first -/
theorem ref_eval_call (k : Nat) (f : Expr) (args : List Expr) (env : Nat) (rs : Ref.St) :
    Ref.eval (k + 2) (.call f args) env rs =
      match Ref.eval (k + 1) f env rs with
      | .ok fv s => refCall k fv args env s
      | r => r := by
  rw [Ref.eval]
  unfold refCall
  cases Ref.eval (k + 1) f env rs <;> rfl

theorem SimVia.toF {ins : Instr} {s0 s1 : St} {m m1 : Nat → Nat} {rs rs1 : Ref.St} {env : Nat} {res : Ref.R Val}
    (h : SimVia s0 1 m1 s1 rs1 env res) (hm : MExt s0 m m1) (ext : RExt rs rs1) (fr : FrameF s0 s1)
    (hd : s1.data = s0.data) (hp : s1.pc = s0.pc) (hcur : s0.curfunc < s0.fns.length) : SimF [ins] m s0 rs env res := by
  cases res with
  | ok v' rs' =>
    obtain ⟨s', m', v, r, l, hv, rel, hm', ext', fr', hcl⟩ := h
    exact ⟨s', m', v, r, ⟨l.fn.trans (by rw [fr.curfunc]; exact fr.fns _ hcur), by rw [l.pc, hp]; rfl, by rw [l.data, hd]⟩, hv, rel,
      hm.trans hm' fr.fnsLen, ext.trans ext', fr.trans fr', hcl⟩
  | err rs' => exact h
  | timeout => trivial
  | brk l rs' => exact h
  | cont l rs' => exact h

/-- **A call with a computed callee** `(e a1 … an)`: the callee is evaluated in a nested run (as an operand), then as a
call by name -/
theorem simF_callE {k : Nat} (hE : FClaimE (k + 1)) (hA : FClaimA (k + 1)) (hU : FClaimU (k + 1))
    (hG : ∀ name, hoB name → FClaimH k name) {e : Expr} (he : Ff false "" e = true)
    {args : List Expr} (hargs : FaList args = true) {m : Nat → Nat} {s : St} {rs : Ref.St} {env : Nat}
    {pre post : List Instr} (hrel : RelF m s rs env) (hseg : Seg s pre [.callExpr e args] post) :
    SimF [.callExpr e args] m s rs env (Ref.eval (k + 2) (.call e args) env rs) := by
  rw [ref_eval_call]
  have hev := evalCallExpr_simF hE e he hrel
  obtain ⟨_, _, hfc⟩ := hrel.ctx
  have hunf : ∀ F, (exec (F + 1) (.callExpr e args)).run s =
      match (evalCallExpr F e).run s with
      | (.ok fv, s1) => (callResolved F fv args).run s1
      | (.error flt, s1) => (.error flt, s1) := by
    intro F
    rw [exec]
    simp only [run_bind]
    rcases (evalCallExpr F e).run s with ⟨r1, s1⟩
    cases r1 <;> rfl
  cases h1 : Ref.eval (k + 1) e env rs with
  | ok fv' rs1 =>
    rw [h1] at hev
    obtain ⟨M1, s1, m1, fv, hM1, hd1, hp1, hv1, rel1, hm1, ext1, fr1, hcl1⟩ := hev
    simp only
    subst hv1
    refine (simF_callV (M0 := M1) hA hU hG hargs rel1 hseg.head (fun F hF => ?_) hcl1).toF hm1 ext1 fr1 hd1 hp1 hfc.lt
    rw [hunf (F + 2), hM1 (F + 2) (by omega)]
  | err rs1 =>
    rw [h1] at hev
    obtain ⟨M1, hM1⟩ := hev
    simp only
    refine FailsX.step hseg.head (M1 + 1) (fun f hf => ?_)
    obtain ⟨se, hse, htr⟩ := hM1 f (by omega)
    exact ⟨se, by rw [hunf f, hse], htr⟩
  | timeout => trivial
  | brk l rs1 => rw [h1] at hev; exact hev.elim
  | cont l rs1 => rw [h1] at hev; exact hev.elim

/-! ## The inductive steps -/

theorem fclaimB_succ {n : Nat} (hE : FClaimE n) (hB : FClaimB n) : FClaimB (n + 1) := by
  intro fnOk self es hne hes isFn c gs r hc hfn m s rs env pre post hrel hgen hseg
  match es, hne with
  | [e], _ =>
    rw [FfList] at hes
    simp only [Bool.and_eq_true] at hes
    rw [compileBegin] at hc
    rw [Ref.evalBegin]
    exact hE fnOk self e hes.1 isFn c gs r hc hfn m s rs env pre post hrel hgen hseg
  | e :: e' :: es', _ =>
    rw [FfList] at hes
    simp only [Bool.and_eq_true] at hes
    rw [compileBegin] at hc
    · simp only [g_bind_ok, g_pure_ok] at hc
      obtain ⟨ra, gs1, ha, rb, gs2, hb, rfl⟩ := hc
      have hk1 := compile_keep_Ff hes.1 ha hfn
      have hk2 := compileBegin_keep_Ff (by simp) hes.2 hb hfn
      have hane : ra.1.isEmpty = false := by
        simpa [List.isEmpty_eq_false_iff] using compile_ne_nil_Ff hes.1 ha hfn
      simp only [hane, Bool.false_eq_true, if_false] at hseg hgen ⊢
      rw [Ref.evalBegin]
      · have ih := hE fnOk self e hes.1 isFn _ gs (ra, gs1) ha hfn m s rs env pre ([.pop] ++ rb.1 ++ post) hrel
          (fun h => (hgen h).first hk2.1) (hseg.refocus (by simp))
        cases h1 : Ref.eval n e env rs with
        | ok v1 rs1 =>
          rw [h1] at ih
          obtain ⟨s1, m1, w1, r1, l1, hv1, rel1, hm1, ext1, fr1, hcl1⟩ := ih
          obtain ⟨r2, m2⟩ := glue_pop hseg l1
          have ih2 := hB fnOk self (e' :: es') (by simp) hes.2 isFn c gs1 (rb, gs2) hb hfn m1
            (s1.jmp (s1.pc + 1) s.data) rs1 env _ post (rel1.jmp _ _)
            (fun h => ((hgen h).rest hk1.1).frame (fr1.toFrame.trans (Frame.jmp s1 (s1.pc + 1) s.data)))
            (hseg.moved m2 (c₁ := ra.1 ++ [.pop]) (c₂ := rb.1) (post' := post) rfl (by simp))
          exact SimF.seq (r1.trans r2.toX) m2 hm1 ext1 (fr1.trans (FrameF.jmp _ _ _)) ih2 (by lenarith)
        | err rs1 => rw [h1] at ih; exact SimF.prefix ih (fun _ _ hh => by cases hh)
        | timeout => trivial
        | brk l rs1 => rw [h1] at ih; exact ih.elim
        | cont l rs1 => rw [h1] at ih; exact ih.elim
      · intro hh; cases hh
    · intro hh; cases hh

theorem fclaimC_succ {n : Nat} (hE : FClaimE n) (hC : FClaimC n) : FClaimC (n + 1) := by
  intro fnOk self arms d harms hd isFn c gs r gs0 rd hc hcd hfn m s rs env pre post hrel hgen hgend hseg
  match arms with
  | [] =>
    rw [compileArms] at hc; simp only [g_pure_ok] at hc; subst hc
    rw [Ref.evalCond]
    simp only [asmCond] at hseg ⊢
    exact hE fnOk self d hd isFn c gs0 rd hcd hfn m s rs env pre post hrel hgend hseg
  | (p, b) :: arms' =>
    rw [FfArms] at harms
    simp only [Bool.and_eq_true] at harms
    rw [compileArms] at hc
    simp only [g_bind_ok, g_pure_ok] at hc
    obtain ⟨rest, gs1, hrest, rp, gs2, hp, rb, gs3, hb, rfl⟩ := hc
    have hk1 := compileArms_keep_Ff harms.2 hrest hfn
    have hk2 := compile_keep_Ff harms.1.1 hp hfn
    have hk3 := compile_keep_Ff harms.1.2 hb hfn
    rw [Ref.evalCond]
    simp only [asmCond] at hseg hgen ⊢
    have ih := hE fnOk self p harms.1.1 isFn _ gs1 (rp, gs2) hp hfn m s rs env pre _ hrel
      (fun h => ((hgen h).rest hk1.1).first hk3.1) (hseg.refocus (c' := rp.1)
      (post' := [.branch false (rb.1.length + 2)] ++ rb.1 ++ [.jump ((asmCond rest rd.1.1).length + 1)]
        ++ asmCond rest rd.1.1 ++ post) (by simp))
    cases h1 : Ref.eval n p env rs with
    | ok v1 rs1 =>
      rw [h1] at ih
      obtain ⟨s1, m1, w1, r1, l1, hv1, rel1, hm1, ext1, fr1, hcl1⟩ := ih
      simp only
      have htr : truthy v1 = truthy w1 := by rw [hv1]; exact truthy_tr m1 id id w1
      by_cases ht : truthy w1 = true
      · rw [htr, if_pos ht]
        obtain ⟨r2, m2⟩ := glue_brn_fall hseg l1 ht
        have ih2 := hE fnOk self b harms.1.2 isFn c gs2 (rb, gs3) hb hfn m1
          (s1.jmp (s1.pc + 1) s.data) rs1 env _ _ (rel1.jmp _ _)
          (fun h => ((hgen h).rest (hk1.1.trans hk2.1)).frame (fr1.toFrame.trans (Frame.jmp s1 (s1.pc + 1) s.data)))
          (hseg.moved m2 (c₁ := rp.1 ++ [.branch false (rb.1.length + 2)]) (c₂ := rb.1)
            (post' := [.jump ((asmCond rest rd.1.1).length + 1)] ++ asmCond rest rd.1.1 ++ post)
            (by simp) (by simp))
        exact SimF.cond_exit hseg (r1.trans r2.toX) m2 hm1 ext1 (fr1.trans (FrameF.jmp _ _ _)) ih2
      · rw [htr, if_neg ht]
        obtain ⟨r2, m2⟩ := glue_brn_taken hseg l1 (by simpa using ht)
        have ih2 := hC fnOk self arms' d harms.2 hd isFn c gs (rest, gs1) gs0 rd hrest hcd hfn m1
          (s1.jmp (s1.pc + ((rb.1.length : Int) + 2)) s.data) rs1 env _ post (rel1.jmp _ _)
          (fun h => ((hgen h).first (hk2.1.trans hk3.1)).frame
            (fr1.toFrame.trans (Frame.jmp s1 (s1.pc + ((rb.1.length : Int) + 2)) s.data)))
          (fun h => (hgend h).frame (fr1.toFrame.trans (Frame.jmp s1 (s1.pc + ((rb.1.length : Int) + 2)) s.data)))
          (hseg.moved m2 (c₁ := rp.1 ++ [.branch false (rb.1.length + 2)] ++ rb.1
              ++ [.jump ((asmCond rest rd.1.1).length + 1)]) (c₂ := asmCond rest rd.1.1) (post' := post)
            (by simp) (by lenarith))
        exact SimF.seq (r1.trans r2.toX) m2 hm1 ext1 (fr1.trans (FrameF.jmp _ _ _)) ih2 (by lenarith)
    | err rs1 => rw [h1] at ih; exact SimF.prefix ih (fun _ _ hh => by cases hh)
    | timeout => trivial
    | brk l rs1 => rw [h1] at ih; exact ih.elim
    | cont l rs1 => rw [h1] at ih; exact ih.elim

/-! ## `fn`, `defn`: a closure is made -/

/-- the template of a `fn`/`defn` in the running state, and what its body's compile left -/
theorem tmpl_facts (isFn : Nat → Bool) (gs g₂ : GS) (fname : String) (ps : List String) (rest : Option String) (b : List Instr)
    (s : St) (hk : KeepFns (gsAlloc isFn gs fname ps rest) g₂) (hgen : GenOk gs (gsFin g₂ gs.fns.length b) s) :
    fnOf s gs.fns.length = { tmplOf isFn gs fname ps rest with code := fnCode gs.fns.length (ps ++ rest.toList) b }
      ∧ gs.fns.length < s.fns.length ∧ GenOk (gsAlloc isFn gs fname ps rest) g₂ s := by
  have hl2 : gs.fns.length + 1 ≤ g₂.fns.length := by have := hk.len; simpa [gsAlloc] using this
  have hlf : (gsFin g₂ gs.fns.length b).fns.length = g₂.fns.length := by simp [gsFin]
  have hlen := hgen.len
  rw [hlf] at hlen
  refine ⟨?_, by omega, ⟨hgen.live, by have := hgen.main; simp [gsAlloc]; omega, hlen, fun t h1 h2 => ?_, hgen.loops⟩⟩
  · rw [hgen.tmpl gs.fns.length (Nat.le_refl _) (by rw [hlf]; omega), gsFin_getD_self _ _ _ (by omega)]
    exact finTmpl_eq isFn gs g₂ fname ps rest b hk
  · have h1' : gs.fns.length + 1 ≤ t := by simpa [gsAlloc] using h1
    rw [hgen.tmpl t (by omega) (by rw [hlf]; exact h2), gsFin_getD_other _ _ _ _ (by omega)]

/-- `createClosure t`: the new function object is a good closure object for the reference closure
just made; the relation holds with the id map extended by the new pair -/
theorem closure_step {m : Nat → Nat} {s : St} {rs : Ref.St} {env : Nat} (hrel : RelF m s rs env) (t : Nat) (c : Ref.Clos)
    (hcenv : c.env = env) (hrest : okRest c.rest = true) (hnd : (c.ps ++ c.rest.toList).Nodup)
    (hps : ∀ p ∈ c.ps, okParam p = true) (hbody : c.body ≠ [])
    (hparams : (fnOf s t).params = c.ps ++ c.rest.toList) (hnargs : (fnOf s t).nargs = c.ps.length)
    (hvar : (fnOf s t).varargs = c.rest.isSome)
    (huser : (fnOf s t).user = false) (htlt : t < s.fns.length) (htclo : (fnOf s t).closing = [some 0])
    (hcode : ∃ b tl isFn cb gs0 gs1 self, (fnOf s t).code = fnCode t (c.ps ++ c.rest.toList) b
      ∧ (compileBegin isFn cb c.body).run gs0 = .ok ((b, tl), gs1) ∧ cb.scopes = 0
      ∧ FnameOk self cb ∧ (∃ ex, FzList ex self c.body = true ∧ (ex = true → gs0.loopstack = [])) ∧ GenOk gs0 gs1 s
      ∧ KnownOk cb gs0 c.ps c.rest) :
    RelF (mapWith m s.fns.length rs.clos.length) (afterClosure s t) { rs with clos := rs.clos ++ [c] } env
      ∧ GoodFn (mapWith m s.fns.length rs.clos.length) (afterClosure s t) { rs with clos := rs.clos ++ [c] } s.fns.length
      ∧ MExt s m (mapWith m s.fns.length rs.clos.length) ∧ RExt rs { rs with clos := rs.clos ++ [c] }
      ∧ FrameF s (afterClosure s t) ∧ mapWith m s.fns.length rs.clos.length s.fns.length = rs.clos.length
      ∧ fnOf (afterClosure s t) s.curfunc = fnOf s s.curfunc := by
  obtain ⟨k, hch, hfc⟩ := hrel.ctx
  have hmain : mainFn < s.fns.length := by
    have := fns_ne_nil_of_lt hfc.lt
    cases hs : s.fns with
    | nil => exact absurd hs this
    | cons _ _ => simp [mainFn]
  have hfns1 : (afterClosure s t).fns = s.fns ++ [closureObj s t] := rfl
  have hfo1 : ∀ id, id < s.fns.length → fnOf (afterClosure s t) id = fnOf s id := fun id hid => by
    unfold fnOf; rw [hfns1]; simp only [List.getD_eq_getElem?_getD, List.getElem?_append_left hid]
  have hfl1 : s.fns.length ≤ (afterClosure s t).fns.length := by rw [hfns1]; simp
  have hk01 : FnsKeep s (afterClosure s t) := FnsKeep.of_eq hfl1 hfo1 hmain
  have hclos1 : ClosExt rs { rs with clos := rs.clos ++ [c] } := fun i c' hc' => by
    show (rs.clos ++ [c])[i]? = some c'
    rw [List.getElem?_append_left (lt_of_getElem?_some hc')]; exact hc'
  have hmext : MExt s m (mapWith m s.fns.length rs.clos.length) := fun id hid => by
    unfold mapWith; rw [if_neg (by omega)]
  have hmv : mapWith m s.fns.length rs.clos.length s.fns.length = rs.clos.length := by unfold mapWith; rw [if_pos rfl]
  refine ⟨hrel.grow rfl rfl rfl rfl hrel.trace hk01 rfl rfl hclos1 hmext,
    GoodFn.create hrel t c hmain hcenv hrest hnd hps hbody hparams hnargs hvar huser htlt htclo hcode _ _ rfl rfl,
    hmext, ⟨fun i fr hf => ⟨fr, hf, rfl⟩, hclos1⟩,
    ⟨⟨rfl, rfl, rfl, rfl, hfl1, hfo1, Nat.le_refl _, fun _ _ => rfl⟩, Nat.le_refl _, fun _ _ => rfl⟩, hmv, hfo1 _ hfc.lt⟩

theorem simF_fn_core {n : Nat} (ps : List String) (rest : Option String) (body : List Expr)
    (hrest : okRest rest = true) (hnd : (ps ++ rest.toList).Nodup) (hps : ∀ p ∈ ps, okParam p = true) (hbody : body ≠ [])
    {ex : Bool} (hfz : FzList ex "" body = true) (hex : ex = true → gs.loopstack = []) (isFn : Nat → Bool) (c : Ctx) (g2 : GS)
    (b : List Instr) (tl : Bool)
    (hb : (compileBegin isFn (anonCtx c gs) body).run (gsAlloc isFn gs s!"__anon{gs.fns.length}" ps rest) = .ok ((b, tl), g2))
    (hk2 : KeepFns (gsAlloc isFn gs s!"__anon{gs.fns.length}" ps rest) g2)
    (r : (List Instr × Bool) × GS) (hc : (compile isFn c (.fn ps rest body)).run gs = .ok r)
    {m : Nat → Nat} {s : St} {rs : Ref.St} {env : Nat} {pre post : List Instr}
    (hrel : RelF m s rs env) (hgen : GenOk gs r.2 s) (hseg : Seg s pre r.1.1 post) :
    SimF r.1.1 m s rs env (Ref.eval (n + 1) (.fn ps rest body) env rs) := by
  have hceq := compile_fn_eq isFn c ps rest body gs g2 b tl hb
  rw [hceq] at hc
  injection hc with hc
  subst hc
  simp only at hseg hgen ⊢
  obtain ⟨hTd, htl, hgenb⟩ := tmpl_facts isFn gs g2 _ ps rest b s hk2 hgen
  obtain ⟨rel1, hgood, hmext, hrext, hfr, hmv, hfo⟩ := closure_step hrel gs.fns.length
    { ps := ps, rest := rest, body := body, env := env } rfl hrest hnd hps hbody
    (by rw [hTd]; rfl) (by rw [hTd]; rfl) (by rw [hTd]; rfl) (by rw [hTd]; rfl) htl
    (by rw [hTd]; show newClosing isFn gs.live = [some 0]; rw [hgen.live]; exact newClosing_single _)
    ⟨b, tl, isFn, anonCtx c gs, _, g2, "", by rw [hTd], hb, rfl, anonCtx_funcname c gs, ⟨ex, hfz, hex⟩, hgenb,
      knownOk_anonCtx c gs _ ps rest⟩
  rw [Ref.eval]
  have a0 : At s pre (.createClosure gs.fns.length) post := hseg.head
  refine ⟨afterClosure s gs.fns.length, _, .fn s.fns.length,
    (Reach.step a0 (fun f => exec_createClosure f _ s)).toX, ⟨hfo, by show s.pc + 1 = _; simp, rfl⟩, ?_, rel1, hmext, hrext,
    hfr, valIn_fn hgood⟩
  show Val.fn rs.clos.length = Val.fn _
  rw [hmv]

theorem simF_fn {n : Nat} {self : String} (ps : List String) (rest : Option String) (body : List Expr)
    (hform : Ff true self (.fn ps rest body) = true) (isFn : Nat → Bool) (c : Ctx) (gs : GS)
    (r : (List Instr × Bool) × GS) (hc : (compile isFn c (.fn ps rest body)).run gs = .ok r)
    {m : Nat → Nat} {s : St} {rs : Ref.St} {env : Nat} {pre post : List Instr}
    (hrel : RelF m s rs env) (hgen : GenOk gs r.2 s) (hseg : Seg s pre r.1.1 post) :
    SimF r.1.1 m s rs env (Ref.eval (n + 1) (.fn ps rest body) env rs) := by
  rw [Ff] at hform
  simp only [Bool.and_eq_true, decide_eq_true_eq, Bool.not_eq_true', List.isEmpty_eq_false_iff,
    List.all_eq_true, true_and] at hform
  obtain ⟨⟨⟨⟨hrest, hnd⟩, hps⟩, hbody⟩, hff⟩ := hform
  obtain ⟨b, tl, g2, hb, _, hk2⟩ := compileBegin_total_Ff true "" body hbody hff isFn (anonCtx c gs)
    (gsAlloc isFn gs s!"__anon{gs.fns.length}" ps rest) (anonCtx_funcname c gs)
  exact simF_fn_core ps rest body hrest hnd hps hbody (fzList_of_ff _ _ hff) (fun h => by cases h) isFn c g2 b tl hb hk2.1 r hc
    hrel hgen hseg

/-- `defn`: the closure is made and bound; the body may hold self tail calls (`FzList`) -/
theorem simF_defn_core {n : Nat} (name : String) (ps : List String) (rest : Option String) (body : List Expr)
    (hrest : okRest rest = true)
    (hname : okName name = true) (hne : name ≠ "") (hnd : (ps ++ rest.toList).Nodup) (hps : ∀ p ∈ ps, okParam p = true) (hbody : body ≠ [])
    {ex : Bool} (hfz : FzList ex name body = true) (hex : ex = true → gs.loopstack = []) (isFn : Nat → Bool) (c : Ctx) (g2 : GS)
    (b : List Instr) (tl : Bool)
    (hb : (compileBegin isFn (bodyCtx c gs name ps rest body) body).run (gsAlloc isFn gs name ps rest) = .ok ((b, tl), g2))
    (hk2 : KeepFns (gsAlloc isFn gs name ps rest) g2)
    (r : (List Instr × Bool) × GS) (hc : (compile isFn c (.defn name ps rest body)).run gs = .ok r)
    {m : Nat → Nat} {s : St} {rs : Ref.St} {env : Nat} {pre post : List Instr}
    (hrel : RelF m s rs env) (hgen : GenOk gs r.2 s) (hseg : Seg s pre r.1.1 post) :
    SimF r.1.1 m s rs env (Ref.eval (n + 1) (.defn name ps rest body) env rs) := by
  have hceq := compile_defn_eq isFn c name ps rest body gs g2 b tl hne hb
  rw [hceq] at hc
  injection hc with hc
  subst hc
  simp only at hseg hgen ⊢
  obtain ⟨hTd, htl, hgenb⟩ := tmpl_facts isFn gs g2 _ ps rest b s hk2 hgen
  obtain ⟨rel1, hgood, hmext, hrext, hfr01, hmv, hfo⟩ := closure_step hrel gs.fns.length
    { ps := ps, rest := rest, body := body, env := env } rfl hrest hnd hps hbody
    (by rw [hTd]; rfl) (by rw [hTd]; rfl) (by rw [hTd]; rfl) (by rw [hTd]; rfl) htl
    (by rw [hTd]; show newClosing isFn gs.live = [some 0]; rw [hgen.live]; exact newClosing_single _)
    ⟨b, tl, isFn, bodyCtx c gs name ps rest body, _, g2, name, by rw [hTd], hb, rfl, bodyCtx_funcname c gs name ps rest body,
      ⟨ex, hfz, hex⟩, hgenb, knownOk_bodyCtx isFn c gs name ps rest body⟩
  -- the reference side
  rw [Ref.eval]
  show SimF _ m s rs env
    (match Ref.define { rs with clos := rs.clos ++ [{ ps := ps, rest := rest, body := body, env := env }] } env name
        (.fn ((rs.clos ++ [({ ps := ps, rest := rest, body := body, env := env } : Ref.Clos)]).length - 1)) with
     | some s' => .ok .nil s'
     | none => .err { rs with clos := rs.clos ++ [{ ps := ps, rest := rest, body := body, env := env }] })
  have hcid : (rs.clos ++ [({ ps := ps, rest := rest, body := body, env := env } : Ref.Clos)]).length - 1 = rs.clos.length := by
    simp
  rw [hcid]
  generalize hrs1 : ({ rs with clos := rs.clos ++ [{ ps := ps, rest := rest, body := body, env := env }] } : Ref.St) = rs₁
    at rel1 hgood hrext
  -- createClosure
  have a0 : At s pre (.createClosure gs.fns.length) ([.popStackPutEnv name, .push .nil] ++ post) :=
    ⟨hseg.user, by rw [hseg.code]; simp, hseg.pc⟩
  have r0 : ReachX s (afterClosure s gs.fns.length) := (Reach.step a0 (fun f => exec_createClosure f _ s)).toX
  generalize hs1 : afterClosure s gs.fns.length = s₁ at r0 rel1 hgood hfr01 hfo
  have hcur1 : s₁.curfunc = s.curfunc := hfr01.curfunc
  -- popStackPutEnv name
  have a1 : At s₁ (pre ++ [.createClosure gs.fns.length]) (.popStackPutEnv name) ([.push .nil] ++ post) :=
    ⟨by rw [hcur1, hfo]; exact hseg.user, by rw [hcur1, hfo, hseg.code]; simp,
     by subst hs1; show s.pc + 1 = _; rw [hseg.pc]; simp⟩
  have hd1 : s₁.data = some (.fn s.fns.length) :: s.data := by subst hs1; rfl
  have hp := psp_stepF a1 hd1 rel1 hname (valIn_fn hgood)
  have htrfn : trf (mapWith m s.fns.length rs.clos.length) (.fn s.fns.length) = .fn rs.clos.length := by
    show Val.fn (mapWith m s.fns.length rs.clos.length s.fns.length) = _; rw [hmv]
  rw [htrfn] at hp
  obtain ⟨k1, hch1, hfc1⟩ := rel1.ctx
  have hcurlt : s₁.curfunc < s₁.fns.length := hfc1.lt
  cases hdef : Ref.define rs₁ env name (.fn rs.clos.length) with
  | none =>
    rw [hdef] at hp
    simp only
    exact FailsX.of_reach r0 hp.toX
  | some rs₂ =>
    rw [hdef] at hp
    obtain ⟨r2, rel2, ext2⟩ := hp
    simp only
    generalize hs2 : (s₁.jmp (s₁.pc + 1) s.data).bind env name (.fn s.fns.length) = s₂ at r2 rel2
    have hfr12 : FrameF s₁ s₂ := by subst hs2; exact (FrameF.jmp _ _ _).trans (FrameF.bind _ _ _ _)
    have hfn2 : fnOf s₂ s₂.curfunc = fnOf s s.curfunc := by
      rw [hfr12.curfunc, hfr12.fns _ hcurlt, hcur1, hfo]
    have a2 : At s₂ (pre ++ [.createClosure gs.fns.length, .popStackPutEnv name]) (.push .nil) post := by
      refine ⟨by rw [hfn2]; exact hseg.user, by rw [hfn2, hseg.code]; simp, ?_⟩
      subst hs2; subst hs1
      show s.pc + 1 + 1 = _; rw [hseg.pc]; simp; omega
    have r3 := (reach_push a2).toX
    refine ⟨s₂.jmp (s₂.pc + 1) (some .nil :: s₂.data), mapWith m s.fns.length rs.clos.length, .nil,
      ((r0.trans r2.toX).trans r3), ⟨hfn2, ?_, ?_⟩, rfl, rel2.jmp _ _, hmext, hrext.trans ext2,
      (hfr01.trans hfr12).trans (FrameF.jmp _ _ _), vOk_lit .nil (fun _ _ _ => rfl)⟩
    · subst hs2; subst hs1
      show s.pc + 1 + 1 + 1 = _; simp; omega
    · subst hs2; subst hs1; rfl

theorem simF_defn {n : Nat} {self : String} (name : String) (ps : List String) (rest : Option String) (body : List Expr)
    (hform : Ff true self (.defn name ps rest body) = true) (isFn : Nat → Bool) (c : Ctx) (gs : GS)
    (r : (List Instr × Bool) × GS) (hc : (compile isFn c (.defn name ps rest body)).run gs = .ok r)
    {m : Nat → Nat} {s : St} {rs : Ref.St} {env : Nat} {pre post : List Instr}
    (hrel : RelF m s rs env) (hgen : GenOk gs r.2 s) (hseg : Seg s pre r.1.1 post) :
    SimF r.1.1 m s rs env (Ref.eval (n + 1) (.defn name ps rest body) env rs) := by
  rw [Ff] at hform
  simp only [Bool.and_eq_true, bne_iff_ne, ne_eq, decide_eq_true_eq, Bool.not_eq_true',
    List.isEmpty_eq_false_iff, List.all_eq_true, true_and] at hform
  obtain ⟨⟨⟨⟨⟨⟨hrest, hname⟩, hne⟩, hnd⟩, hps⟩, hbody⟩, hff⟩ := hform
  obtain ⟨b, tl, g2, hb, _, hk2⟩ := compileBegin_total_Ff true name body hbody hff isFn (bodyCtx c gs name ps rest body)
    (gsAlloc isFn gs name ps rest) (bodyCtx_funcname c gs name ps rest body)
  exact simF_defn_core name ps rest body hrest hname hne hnd hps hbody (fzList_of_ff _ _ hff) (fun h => by cases h) isFn c g2 b tl
    hb hk2.1 r hc hrel hgen hseg

end ZygoVerif.Sim
