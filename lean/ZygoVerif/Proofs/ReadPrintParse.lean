/-
Parsing the tokens of printed data gives the value back (the parser half of
`read (print v) = v`): by structural induction over lists, dotted tails and arrays, nested to
any depth, with the fuel the model's loops need made explicit (`cost…`).
-/
import ZygoVerif.Proofs.ParseTokens
import ZygoVerif.Proofs.ReadPrintDefs
import ZygoVerif.Proofs.LexNumbers
namespace ZygoVerif.ReadPrint
open ZygoVerif ZygoVerif.Lexer ZygoVerif.Parser ZygoVerif.PrintData

/-! ## combinators for `Consumes` -/

theorem consumes_peek0 {α : Type} (k : Token → Prog α) (t : Token) (ts : List Token) (a : α)
    (h : Consumes (k t) (t :: ts) a) : Consumes ((waitPeek 0).bind k) (t :: ts) a := by
  intro c rest ex hc
  have hq : c.tokens = t :: (ts ++ rest) := by simpa using hc
  show runA (Prog.waitPeek 0 fun x => (Prog.pure x).bind k) (tv c ex) = _
  rw [runA_waitPeek0 _ c ex t _ hq]
  exact h c rest ex hc

theorem consumes_pop {α : Type} (p : Prog α) (t : Token) (ts : List Token) (a : α)
    (h : Consumes p ts a) : Consumes (popTok.bind fun _ => p) (t :: ts) a := by
  intro c rest ex hc
  have hq : c.tokens = t :: (ts ++ rest) := by simpa using hc
  show runA (Prog.getTok fun x => (Prog.pure ()).bind fun _ => p) (tv c ex) = _
  rw [runA_getTok _ c ex t _ hq]
  have := h (setToks c (ts ++ rest)) rest ex rfl
  show runA p (tv (setToks c (ts ++ rest)) ex) = _
  rw [this]; rfl

theorem consumes_bind {α β : Type} (p : Prog α) (f : α → Prog β) (pre1 pre2 : List Token) (a : α) (b : β)
    (h1 : Consumes p pre1 a) (h2 : Consumes (f a) pre2 b) : Consumes (p.bind f) (pre1 ++ pre2) b :=
  Consumes.bind h1 h2

theorem consumes_pure {α : Type} (a : α) : Consumes (Prog.pure a) [] a := Consumes.pure a

theorem parseExprNested_succ (f : Nat) :
    parseExprNested (f + 1) = Prog.waitPeek 0 fun tok => Prog.getTok fun _ => parseExprTok f tok := by
  unfold parseExprNested
  simp only [bind, waitPeek, popTok, Prog.bind]

theorem consumes_nested (f : Nat) (t : Token) (ts : List Token) (a : Sexp)
    (h : Consumes (parseExprTok f t) ts a) : Consumes (parseExprNested (f + 1)) (t :: ts) a := by
  intro c rest ex hc
  have hq : c.tokens = t :: (ts ++ rest) := by simpa using hc
  rw [parseExprNested_succ, runA_waitPeek0 _ c ex t _ hq, runA_getTok _ c ex t _ hq]
  have := h (setToks c (ts ++ rest)) rest ex rfl
  simpa [setToks] using this

/-! ## atoms -/

theorem Char.toNat_ofNat_of_valid (v : Nat) (h : v.isValidChar) : (Char.ofNat v).toNat = v := by
  unfold Char.ofNat
  rw [dif_pos h]
  rfl

theorem symOK_facts (n : List Char) (h : symOK n = true) :
    n ≠ [] ∧ (∀ c ∈ n, isSpecial c = false) ∧ decodeAtom n = .ok ⟨.symbol, n⟩ := by
  simp only [symOK, Bool.and_eq_true, Bool.not_eq_true', List.all_eq_true] at h
  obtain ⟨⟨h1, h2⟩, h3⟩ := h
  refine ⟨by intro hn; rw [hn] at h1; simp at h1, fun c hc => by simpa using h2 c hc, ?_⟩
  cases hd : decodeAtom n with
  | ok t => rw [hd] at h3; have : t = ⟨.symbol, n⟩ := by simpa using h3
            rw [this]
  | error e => rw [hd] at h3; cases h3

/-- the `switch tok.typ` on the token of an atom yields the atom, without reading further -/
theorem parseExprTok_atom (ff : FloatFmt) (hlaw : FloatLaw ff) (a : Sexp) (h : okAtom a = true) (f : Nat) :
    parseExprTok (f + 1) (atomTok ff a) = Prog.pure a := by
  cases a with
  | uint v =>
    simp only [okAtom, decide_eq_true_eq] at h
    unfold parseExprTok
    simp only [atomTok, atomOfTok_uint v h]
    rfl
  | float b sci =>
    simp only [okAtom] at h
    obtain ⟨p, hv, hpr, hsci, hpf⟩ := hlaw b sci h
    unfold parseExprTok
    simp only [atomTok, hpr, atomOfTok_floatParts p hv b hpf, hsci]
    rfl
  | int v =>
    simp only [okAtom, decide_eq_true_eq] at h
    unfold parseExprTok
    simp only [atomTok, atomOfTok_itoa v h.1 h.2]
    rfl
  | char v =>
    simp only [okAtom] at h
    unfold parseExprTok
    simp only [atomTok, atomOfTok]
    have : (Char.ofNat v).toNat = v := Char.toNat_ofNat_of_valid v (by simpa using h)
    rw [this]; rfl
  | str s raw =>
    simp only [okAtom, Bool.not_eq_true'] at h
    subst h
    unfold parseExprTok
    simp only [atomTok, atomOfTok]
    rfl
  | bool b =>
    unfold parseExprTok
    cases b
    · have : ("false".toList == "true".toList) = false := by decide
      simp only [atomTok, atomOfTok, this, Bool.false_eq_true, ↓reduceIte]; rfl
    · have : ("true".toList == "true".toList) = true := by decide
      simp only [atomTok, atomOfTok, this, ↓reduceIte]; rfl
  | sym n ct dot =>
    simp only [okAtom, Bool.and_eq_true, Bool.not_eq_true'] at h
    obtain ⟨⟨rfl, rfl⟩, hs⟩ := h
    obtain ⟨hne, hpl, _⟩ := symOK_facts n hs
    have h1 : (n == ['-']) = false := by
      rw [beq_eq_false_iff_ne]; intro hn; subst hn
      have := hpl '-' (by simp); revert this; decide
    have h2 : (n == ['+']) = false := by
      rw [beq_eq_false_iff_ne]; intro hn; subst hn
      have := hpl '+' (by simp); revert this; decide
    unfold parseExprTok
    simp only [atomTok, h1, h2, Bool.or_self, Bool.false_eq_true, ↓reduceIte]
    rfl
  | _ => simp [okAtom] at h

theorem consumes_atom (ff : FloatFmt) (hlaw : FloatLaw ff) (a : Sexp) (h : okAtom a = true) (f : Nat) :
    Consumes (parseExprTok (f + 1) (atomTok ff a)) [] a := by
  rw [parseExprTok_atom ff hlaw a h f]; exact consumes_pure a

end ZygoVerif.ReadPrint

namespace ZygoVerif.ReadPrint
open ZygoVerif ZygoVerif.Lexer ZygoVerif.Parser ZygoVerif.PrintData

/-! ## the fuel the loops of the parser model need -/

mutual
/-- fuel for `parseExprTok` once the first token of the value is in hand -/
def costTok : Sexp → Nat
  | .pair h t => 2 + max (1 + costTok h) (costRest t)
  | .array es _ => 1 + costArr es
  | _ => 1
/-- fuel for what `parseList` does after a head -/
def costRest : Sexp → Nat
  | .pair h t => 1 + max (1 + costTok h) (costRest t)
  | .null => 1
  | .array es _ => 2 + costArr es
  | _ => 2
def costArr : List Sexp → Nat
  | [] => 1
  | e :: r => 1 + max (1 + costTok e) (costArr r)
end

/-- a token that can start a value inside a list or an array -/
def headOK (t : Token) : Prop :=
  t.typ ≠ .rparen ∧ t.typ ≠ .backslash ∧ t.typ ≠ .comma ∧ t.typ ≠ .rsquare

theorem headOK_atom (ff : FloatFmt) (a : Sexp) (h : okAtom a = true) : headOK (atomTok ff a) := by
  cases a <;> simp [okAtom] at h <;> simp [headOK, atomTok]

theorem parseExprTok_lparen (f : Nat) : parseExprTok (f + 1) tLP = parseList f .rparen := by
  unfold parseExprTok; rfl

theorem parseExprTok_lsquare (f : Nat) : parseExprTok (f + 1) tLS = parseArray f [] := by
  unfold parseExprTok; rfl

theorem parseList_succ (f : Nat) (e : TokType) :
    parseList (f + 1) e = ((waitPeek 0).bind fun tok =>
      if (tok.typ == e) = true then popTok.bind fun _ => Prog.pure Sexp.null
      else
        (parseExprNested f).bind fun head =>
          (waitPeek 0).bind fun tok =>
            if (tok.typ == TokType.backslash) = true then
              popTok.bind fun _ =>
                (parseExprNested f).bind fun tail =>
                  (waitPeek 0).bind fun close =>
                    popTok.bind fun _ =>
                      if (close.typ != TokType.rparen) = true then fail else Prog.pure (head.pair tail)
            else (parseList f e).bind fun tail => Prog.pure (head.pair tail)) := by
  rw [parseList]
  simp only [bind, pure]

theorem parseArray_succ (f : Nat) (acc : List Sexp) :
    parseArray (f + 1) acc = ((waitPeek 0).bind fun tok =>
      if (tok.typ == TokType.comma) = true then popTok.bind fun _ => parseArray f acc
      else if (tok.typ == TokType.rsquare) = true then popTok.bind fun _ => Prog.pure (Sexp.array acc.reverse false)
      else (parseExprNested f).bind fun e => parseArray f (e :: acc)) := by
  rw [parseArray]
  simp only [bind, pure]

/-- the closing bracket ends `parseList` -/
theorem consumes_list_end (f : Nat) : Consumes (parseList (f + 1) .rparen) [tRP] Sexp.null := by
  rw [parseList_succ]
  apply consumes_peek0
  have : (tRP.typ == TokType.rparen) = true := by decide
  simp only [this, ↓reduceIte]
  have := consumes_pop (Prog.pure Sexp.null) tRP [] Sexp.null (consumes_pure _)
  exact this

/-- one round of `parseList`: a head, then whatever follows it -/
theorem consumes_list_cons (ff : FloatFmt) (f : Nat) (h t : Sexp) (th : Token) (tsh : List Token) (rst : List Token)
    (hth : toks ff h = th :: tsh) (hok : headOK th)
    (hh : Consumes (parseExprNested f) (toks ff h) h)
    (tr : Token) (tsr : List Token) (hrst : rst = tr :: tsr) (hnb : (tr.typ == TokType.backslash) = false)
    (ht : Consumes (parseList f .rparen) rst t) :
    Consumes (parseList (f + 1) .rparen) (toks ff h ++ rst) (.pair h t) := by
  rw [parseList_succ]
  rw [hth]
  apply consumes_peek0
  have : (th.typ == TokType.rparen) = false := by
    rw [beq_eq_false_iff_ne]; exact hok.1
  simp only [this, Bool.false_eq_true, ↓reduceIte]
  have e : th :: tsh.append rst = toks ff h ++ rst := by rw [hth]; rfl
  rw [e]
  apply consumes_bind _ _ (toks ff h) rst h _ hh
  rw [hrst]
  apply consumes_peek0
  simp only [hnb, Bool.false_eq_true, ↓reduceIte]
  rw [← hrst]
  have := consumes_bind (parseList f .rparen) (fun tail => Prog.pure (h.pair tail)) rst [] t (h.pair t) ht (consumes_pure _)
  simpa using this

/-- the dotted end of `parseList`: `\ tail )` -/
theorem consumes_list_dotted (ff : FloatFmt) (f : Nat) (h x : Sexp) (th : Token) (tsh : List Token)
    (hth : toks ff h = th :: tsh) (hok : headOK th)
    (hh : Consumes (parseExprNested f) (toks ff h) h)
    (txs : List Token) (hx : Consumes (parseExprNested f) txs x) :
    Consumes (parseList (f + 1) .rparen) (toks ff h ++ (tBS :: (txs ++ [tRP]))) (.pair h x) := by
  rw [parseList_succ]
  rw [hth]
  apply consumes_peek0
  have : (th.typ == TokType.rparen) = false := by
    rw [beq_eq_false_iff_ne]; exact hok.1
  simp only [this, Bool.false_eq_true, ↓reduceIte]
  have e : th :: tsh.append (tBS :: (txs ++ [tRP])) = toks ff h ++ (tBS :: (txs ++ [tRP])) := by rw [hth]; rfl
  rw [e]
  apply consumes_bind _ _ (toks ff h) _ h _ hh
  apply consumes_peek0
  have hb : (tBS.typ == TokType.backslash) = true := by decide
  simp only [hb, ↓reduceIte]
  apply consumes_pop
  apply consumes_bind _ _ txs [tRP] x _ hx
  apply consumes_peek0
  apply consumes_pop
  have hc : (tRP.typ != TokType.rparen) = false := by decide
  simp only [hc, Bool.false_eq_true, ↓reduceIte]
  exact consumes_pure _

end ZygoVerif.ReadPrint

namespace ZygoVerif.ReadPrint
open ZygoVerif ZygoVerif.Lexer ZygoVerif.Parser ZygoVerif.PrintData

theorem consumes_array_end (f : Nat) (acc : List Sexp) :
    Consumes (parseArray (f + 1) acc) [tRS] (.array acc.reverse false) := by
  rw [parseArray_succ]
  apply consumes_peek0
  have h1 : (tRS.typ == TokType.comma) = false := by decide
  have h2 : (tRS.typ == TokType.rsquare) = true := by decide
  simp only [h1, h2, Bool.false_eq_true, ↓reduceIte]
  exact consumes_pop _ tRS [] _ (consumes_pure _)

theorem consumes_array_cons (ff : FloatFmt) (f : Nat) (acc : List Sexp) (e : Sexp) (th : Token) (tsh rst : List Token) (r : Sexp)
    (hth : toks ff e = th :: tsh) (hok : headOK th) (he : Consumes (parseExprNested f) (toks ff e) e)
    (hr : Consumes (parseArray f (e :: acc)) rst r) :
    Consumes (parseArray (f + 1) acc) (toks ff e ++ rst) r := by
  rw [parseArray_succ, hth]
  apply consumes_peek0
  have h1 : (th.typ == TokType.comma) = false := by rw [beq_eq_false_iff_ne]; exact hok.2.2.1
  have h2 : (th.typ == TokType.rsquare) = false := by rw [beq_eq_false_iff_ne]; exact hok.2.2.2
  simp only [h1, h2, Bool.false_eq_true, ↓reduceIte]
  have e' : th :: tsh.append rst = toks ff e ++ rst := by rw [hth]; rfl
  rw [e']
  exact consumes_bind _ _ (toks ff e) rst e r he hr

theorem parse_atom (ff : FloatFmt) (hlaw : FloatLaw ff) (a : Sexp) (h : okAtom a = true) (f : Nat) (hf : 1 ≤ f) :
    Consumes (parseExprTok f (atomTok ff a)) [] a := by
  obtain ⟨f', rfl⟩ : ∃ f', f = f' + 1 := ⟨f - 1, by omega⟩
  exact consumes_atom ff hlaw a h f'

/-- an atom as the dotted tail of a list -/
theorem parse_rest_atom (ff : FloatFmt) (hlaw : FloatLaw ff) (x : Sexp) (hx : okAtom x = true) (h : Sexp) (f : Nat)
    (th : Token) (tsh : List Token)
    (hth : toks ff h = th :: tsh) (hok : headOK th) (hh : Consumes (parseExprNested f) (toks ff h) h) (hf : 2 ≤ f) :
    Consumes (parseList (f + 1) .rparen) (toks ff h ++ [tBS, atomTok ff x, tRP]) (.pair h x) := by
  obtain ⟨f', rfl⟩ : ∃ f', f = f' + 1 := ⟨f - 1, by omega⟩
  have := consumes_list_dotted ff (f' + 1) h x th tsh hth hok hh [atomTok ff x]
    (consumes_nested f' (atomTok ff x) [] x (parse_atom ff hlaw x hx f' (by omega)))
  simpa using this

mutual
theorem parse_val (ff : FloatFmt) (hlaw : FloatLaw ff) : (v : Sexp) → okV v = true → ∀ f, costTok v ≤ f →
    ∃ t ts, toks ff v = t :: ts ∧ headOK t ∧ Consumes (parseExprTok f t) ts v
  | .pair h t, hv, f, hf => by
    simp only [okV, Bool.and_eq_true] at hv
    simp only [costTok] at hf
    obtain ⟨f', rfl⟩ : ∃ f', f = f' + 3 := ⟨f - 3, by omega⟩
    obtain ⟨th, tsh, hth, hok, hc⟩ := parse_val ff hlaw h hv.1 f' (by omega)
    have hh : Consumes (parseExprNested (f' + 1)) (toks ff h) h := by
      rw [hth]; exact consumes_nested f' th tsh h hc
    refine ⟨tLP, toks ff h ++ toksRest ff t, by simp [toks], by simp [headOK, tLP], ?_⟩
    rw [show f' + 3 = (f' + 2) + 1 from rfl, parseExprTok_lparen]
    exact parse_rest ff hlaw t hv.2 h f' th tsh hth hok hh (by omega)
  | .array es inf, hv, f, hf => by
    simp only [okV, Bool.and_eq_true, Bool.not_eq_true'] at hv
    obtain ⟨rfl, hes⟩ := hv
    simp only [costTok] at hf
    have hpos : 1 ≤ costArr es := by cases es <;> simp [costArr] <;> omega
    obtain ⟨f', rfl⟩ : ∃ f', f = f' + 2 := ⟨f - 2, by omega⟩
    refine ⟨tLS, toksElems ff es ++ [tRS], by simp [toks], by simp [headOK, tLS], ?_⟩
    rw [show f' + 2 = (f' + 1) + 1 from rfl, parseExprTok_lsquare]
    have := parse_elems ff hlaw es hes [] f' (by omega)
    simpa using this
  | .int v, hv, f, hf => ⟨_, [], rfl, headOK_atom ff _ hv, parse_atom ff hlaw _ hv f hf⟩
  | .uint v, hv, f, hf => ⟨_, [], rfl, headOK_atom ff _ hv, parse_atom ff hlaw _ hv f hf⟩
  | .float b s, hv, f, hf => ⟨_, [], rfl, headOK_atom ff _ hv, parse_atom ff hlaw _ hv f hf⟩
  | .char v, hv, f, hf => ⟨_, [], rfl, headOK_atom ff _ hv, parse_atom ff hlaw _ hv f hf⟩
  | .str s raw, hv, f, hf => ⟨_, [], rfl, headOK_atom ff _ hv, parse_atom ff hlaw _ hv f hf⟩
  | .sym n a b, hv, f, hf => ⟨_, [], rfl, headOK_atom ff _ hv, parse_atom ff hlaw _ hv f hf⟩
  | .bool b, hv, f, hf => ⟨_, [], rfl, headOK_atom ff _ hv, parse_atom ff hlaw _ hv f hf⟩
  | .comment _ _, hv, _, _ => by simp [okV] at hv
  | .comma, hv, _, _ => by simp [okV] at hv
  | .semicolon, hv, _, _ => by simp [okV] at hv
  | .null, hv, _, _ => by simp [okV] at hv
  | .endS, hv, _, _ => by simp [okV] at hv
  | .emptyHash, hv, _, _ => by simp [okV] at hv
theorem parse_rest (ff : FloatFmt) (hlaw : FloatLaw ff) : (t : Sexp) → okTail t = true →
    ∀ (h : Sexp) (f : Nat) (th : Token) (tsh : List Token),
    toks ff h = th :: tsh → headOK th → Consumes (parseExprNested (f + 1)) (toks ff h) h → costRest t ≤ f + 1 →
    Consumes (parseList (f + 2) .rparen) (toks ff h ++ toksRest ff t) (.pair h t)
  | .pair h2 t2, ht, h, f, th, tsh, hth, hok, hh, hf => by
    simp only [okTail, Bool.and_eq_true] at ht
    simp only [costRest] at hf
    obtain ⟨f', rfl⟩ : ∃ f', f = f' + 1 := ⟨f - 1, by omega⟩
    obtain ⟨th2, tsh2, hth2, hok2, hc2⟩ := parse_val ff hlaw h2 ht.1 f' (by omega)
    have hh2 : Consumes (parseExprNested (f' + 1)) (toks ff h2) h2 := by
      rw [hth2]; exact consumes_nested f' th2 tsh2 h2 hc2
    have hrec := parse_rest ff hlaw t2 ht.2 h2 f' th2 tsh2 hth2 hok2 hh2 (by omega)
    have hnb : (th2.typ == TokType.backslash) = false := by rw [beq_eq_false_iff_ne]; exact hok2.2.1
    have := consumes_list_cons ff (f' + 2) h (.pair h2 t2) th tsh (toks ff h2 ++ toksRest ff t2) hth hok hh th2
      (tsh2 ++ toksRest ff t2) (by rw [hth2]; rfl) hnb hrec
    simpa [toksRest] using this
  | .null, _, h, f, th, tsh, hth, hok, hh, _ => by
    have hnb : (tRP.typ == TokType.backslash) = false := by decide
    have := consumes_list_cons ff (f + 1) h .null th tsh [tRP] hth hok hh tRP [] rfl hnb (consumes_list_end f)
    simpa [toksRest] using this
  | .array es inf, ht, h, f, th, tsh, hth, hok, hh, hf => by
    simp only [okTail, Bool.and_eq_true, Bool.not_eq_true'] at ht
    obtain ⟨rfl, hes⟩ := ht
    simp only [costRest] at hf
    have hpos : 1 ≤ costArr es := by cases es <;> simp [costArr] <;> omega
    obtain ⟨f', rfl⟩ : ∃ f', f = f' + 2 := ⟨f - 2, by omega⟩
    have harr : Consumes (parseExprNested (f' + 3)) (tLS :: (toksElems ff es ++ [tRS])) (.array es false) := by
      apply consumes_nested
      rw [show f' + 2 = (f' + 1) + 1 from rfl, parseExprTok_lsquare]
      have := parse_elems ff hlaw es hes [] f' (by omega)
      simpa using this
    have := consumes_list_dotted ff (f' + 3) h (.array es false) th tsh hth hok hh (tLS :: (toksElems ff es ++ [tRS])) harr
    simpa [toksRest] using this
  | .int v, ht, h, f, th, tsh, hth, hok, hh, hf => by
    have := parse_rest_atom ff hlaw (.int v) ht h (f + 1) th tsh hth hok hh (by simp only [costRest] at hf; omega)
    simpa [toksRest] using this
  | .uint v, ht, h, f, th, tsh, hth, hok, hh, hf => by
    have := parse_rest_atom ff hlaw (.uint v) ht h (f + 1) th tsh hth hok hh (by simp only [costRest] at hf; omega)
    simpa [toksRest] using this
  | .float b s, ht, h, f, th, tsh, hth, hok, hh, hf => by
    have := parse_rest_atom ff hlaw (.float b s) ht h (f + 1) th tsh hth hok hh (by simp only [costRest] at hf; omega)
    simpa [toksRest] using this
  | .char v, ht, h, f, th, tsh, hth, hok, hh, hf => by
    have := parse_rest_atom ff hlaw (.char v) ht h (f + 1) th tsh hth hok hh (by simp only [costRest] at hf; omega)
    simpa [toksRest] using this
  | .str s raw, ht, h, f, th, tsh, hth, hok, hh, hf => by
    have := parse_rest_atom ff hlaw (.str s raw) ht h (f + 1) th tsh hth hok hh (by simp only [costRest] at hf; omega)
    simpa [toksRest] using this
  | .sym n a b, ht, h, f, th, tsh, hth, hok, hh, hf => by
    have := parse_rest_atom ff hlaw (.sym n a b) ht h (f + 1) th tsh hth hok hh (by simp only [costRest] at hf; omega)
    simpa [toksRest] using this
  | .bool b, ht, h, f, th, tsh, hth, hok, hh, hf => by
    have := parse_rest_atom ff hlaw (.bool b) ht h (f + 1) th tsh hth hok hh (by simp only [costRest] at hf; omega)
    simpa [toksRest] using this
  | .comment _ _, ht, _, _, _, _, _, _, _, _ => by simp [okTail] at ht
  | .comma, ht, _, _, _, _, _, _, _, _ => by simp [okTail] at ht
  | .semicolon, ht, _, _, _, _, _, _, _, _ => by simp [okTail] at ht
  | .endS, ht, _, _, _, _, _, _, _, _ => by simp [okTail] at ht
  | .emptyHash, ht, _, _, _, _, _, _, _, _ => by simp [okTail] at ht
theorem parse_elems (ff : FloatFmt) (hlaw : FloatLaw ff) : (es : List Sexp) → okList es = true →
    ∀ (acc : List Sexp) (f : Nat), costArr es ≤ f + 1 →
    Consumes (parseArray (f + 1) acc) (toksElems ff es ++ [tRS]) (.array (acc.reverse ++ es) false)
  | [], _, acc, f, _ => by
    have := consumes_array_end f acc
    simpa [toksElems] using this
  | e :: r, hes, acc, f, hf => by
    simp only [okList, Bool.and_eq_true] at hes
    simp only [costArr] at hf
    obtain ⟨f', rfl⟩ : ∃ f', f = f' + 1 := ⟨f - 1, by omega⟩
    obtain ⟨th, tsh, hth, hok, hc⟩ := parse_val ff hlaw e hes.1 f' (by omega)
    have he : Consumes (parseExprNested (f' + 1)) (toks ff e) e := by
      rw [hth]; exact consumes_nested f' th tsh e hc
    have hrec := parse_elems ff hlaw r hes.2 (e :: acc) f' (by omega)
    have := consumes_array_cons ff (f' + 1) acc e th tsh (toksElems ff r ++ [tRS]) _ hth hok he hrec
    simpa [toksElems, List.append_assoc] using this
end

end ZygoVerif.ReadPrint
