/-
`FuelIsEnough → StepwiseIsRun` (C13): if the fuel of the delivery model is never the cause of an
error, the call-by-call protocol computes `parseChunks` for EVERY text, errors included.

The protocol gives every `ParsingIter` new fuel. Seen from the delivery model, the protocol after
its i-th `done` is the delivery model started with MORE fuel: every stage of the protocol is a stage
of `run (topLoop G) t0` for some `G ≥ F`, uniformly in a further shift `d` of all fuel indices
(`Shift`). `FuelIsEnough` says all these runs are the run with `fuelFor cs`.
-/
import ZygoVerif.Proofs.StepwiseTrace
set_option linter.unusedSimpArgs false
set_option linter.unusedVariables false
namespace ZygoVerif.Parser
open ZygoVerif.Lexer

/-! ## 1. `⊑` on annotated programs -/

inductive SProg.le {α : Type} : SProg α → SProg α → Prop
  | fail (q : SProg α) : SProg.le .fail q
  | pure (a : α) : SProg.le (.pure a) (.pure a)
  | waitPeek (n : Nat) (k k' : Token → SProg α) : (∀ t, SProg.le (k t) (k' t)) → SProg.le (.waitPeek n k) (.waitPeek n k')
  | waitLoop (on on' : SProg α) (k k' : Token → SProg α) : SProg.le on on' → (∀ t, SProg.le (k t) (k' t)) →
      SProg.le (.waitLoop on k) (.waitLoop on' k')
  | signPeek (k k' : Token → SProg α) : (∀ t, SProg.le (k t) (k' t)) → SProg.le (.signPeek k) (.signPeek k')
  | peekAt (n : Nat) (k k' : Token → SProg α) : (∀ t, SProg.le (k t) (k' t)) → SProg.le (.peekAt n k) (.peekAt n k')
  | getTok (k k' : Token → SProg α) : (∀ t, SProg.le (k t) (k' t)) → SProg.le (.getTok k) (.getTok k')
  | topGet (k k' : Option Token → SProg α) : (∀ t, SProg.le (k t) (k' t)) → SProg.le (.topGet k) (.topGet k')
  | pushTok (t : Token) (k k' : SProg α) : SProg.le k k' → SProg.le (.pushTok t k) (.pushTok t k')
  | pushExpr (e : Sexp) (k k' : SProg α) : SProg.le k k' → SProg.le (.pushExpr e k) (.pushExpr e k')

theorem SProg.le_refl {α : Type} (p : SProg α) : SProg.le p p := by
  induction p with
  | pure a => exact .pure a
  | fail => exact .fail _
  | waitPeek n k ih => exact .waitPeek n k k ih
  | waitLoop on k ih1 ih2 => exact .waitLoop on on k k ih1 ih2
  | signPeek k ih => exact .signPeek k k ih
  | peekAt n k ih => exact .peekAt n k k ih
  | getTok k ih => exact .getTok k k ih
  | topGet k ih => exact .topGet k k ih
  | pushTok t k ih => exact .pushTok t k k ih
  | pushExpr e k ih => exact .pushExpr e k k ih

theorem SProg.le_trans {α : Type} {p q r : SProg α} (h1 : SProg.le p q) (h2 : SProg.le q r) : SProg.le p r := by
  induction h1 generalizing r with
  | fail q => exact .fail _
  | pure a => exact h2
  | waitPeek n k k' _ ih => cases h2 with | waitPeek _ _ k'' h => exact .waitPeek n k k'' (fun t => ih t (h t))
  | waitLoop on on' k k' _ _ ih1 ih2 =>
    cases h2 with | waitLoop _ on'' _ k'' g1 g2 => exact .waitLoop on on'' k k'' (ih1 g1) (fun t => ih2 t (g2 t))
  | signPeek k k' _ ih => cases h2 with | signPeek _ k'' h => exact .signPeek k k'' (fun t => ih t (h t))
  | peekAt n k k' _ ih => cases h2 with | peekAt _ _ k'' h => exact .peekAt n k k'' (fun t => ih t (h t))
  | getTok k k' _ ih => cases h2 with | getTok _ k'' h => exact .getTok k k'' (fun t => ih t (h t))
  | topGet k k' _ ih => cases h2 with | topGet _ k'' h => exact .topGet k k'' (fun t => ih t (h t))
  | pushTok t k k' _ ih => cases h2 with | pushTok _ _ k'' h => exact .pushTok t k k'' (ih h)
  | pushExpr e k k' _ ih => cases h2 with | pushExpr _ _ k'' h => exact .pushExpr e k k'' (ih h)

theorem SProg.le_bind {α β : Type} {p p' : SProg α} {f f' : α → SProg β} (h : SProg.le p p')
    (hf : ∀ a, SProg.le (f a) (f' a)) : SProg.le (p.bind f) (p'.bind f') := by
  induction h with
  | fail q => exact .fail _
  | pure a => exact hf a
  | waitPeek n k k' _ ih => exact .waitPeek n _ _ ih
  | waitLoop on on' k k' _ _ ih1 ih2 => exact .waitLoop _ _ _ _ ih1 ih2
  | signPeek k k' _ ih => exact .signPeek _ _ ih
  | peekAt n k k' _ ih => exact .peekAt n _ _ ih
  | getTok k k' _ ih => exact .getTok _ _ ih
  | topGet k k' _ ih => exact .topGet _ _ ih
  | pushTok t k k' _ ih => exact .pushTok t _ _ ih
  | pushExpr e k k' _ ih => exact .pushExpr e _ _ ih

theorem SProg.le_ite {α : Type} (c : Prop) [Decidable c] {a a' b b' : SProg α} (h1 : SProg.le a a') (h2 : SProg.le b b') :
    SProg.le (if c then a else b) (if c then a' else b') := by
  split <;> assumption

theorem SProg.erase_mono {α : Type} {p q : SProg α} (h : SProg.le p q) : Prog.le p.erase q.erase := by
  induction h with
  | fail q => exact .fail _
  | pure a => exact .pure a
  | waitPeek n k k' _ ih => exact .waitPeek n _ _ ih
  | waitLoop on on' k k' _ _ _ ih2 => exact .waitPeek 0 _ _ ih2
  | signPeek k k' _ ih => exact .signPeek _ _ ih
  | peekAt n k k' _ ih => exact .peekAt n _ _ ih
  | getTok k k' _ ih => exact .getTok _ _ ih
  | topGet k k' _ ih => exact .topGet _ _ ih
  | pushTok t k k' _ ih => exact .pushTok t _ _ ih
  | pushExpr e k k' _ ih => exact .pushExpr e _ _ ih

def SFuelLe (f : Nat) : Prop :=
  (∀ tok, SProg.le (S.parseExprTok f tok) (S.parseExprTok (f + 1) tok)) ∧
  (∀ t e, SProg.le (S.skipComments f t e) (S.skipComments (f + 1) t e)) ∧
  (SProg.le (S.parseExprNested f) (S.parseExprNested (f + 1))) ∧
  (∀ e, SProg.le (S.parseList f e) (S.parseList (f + 1) e)) ∧
  (∀ a, SProg.le (S.parseArray f a) (S.parseArray (f + 1) a)) ∧
  (∀ a, SProg.le (S.parseInfix f a) (S.parseInfix (f + 1) a)) ∧
  (∀ a, SProg.le (S.parseBlockComment f a) (S.parseBlockComment (f + 1) a)) ∧
  (SProg.le (S.parseBacktick f) (S.parseBacktick (f + 1)))

theorem sFuelLe_zero : SFuelLe 0 := by
  refine ⟨?_, ?_, ?_, ?_, ?_, ?_, ?_, ?_⟩ <;> intros <;>
    (first
      | (conv => lhs; rw [S.parseExprTok])
      | (conv => lhs; rw [S.skipComments])
      | (conv => lhs; rw [S.parseExprNested])
      | (conv => lhs; rw [S.parseList])
      | (conv => lhs; rw [S.parseArray])
      | (conv => lhs; rw [S.parseInfix])
      | (conv => lhs; rw [S.parseBlockComment])
      | (conv => lhs; rw [S.parseBacktick])) <;>
    exact .fail _

macro "sle_step" : tactic => `(tactic| first
  | exact SProg.le_refl _
  | apply_assumption
  | (refine SProg.le_bind ?_ (fun _ => ?_))
  | (refine SProg.le_ite _ ?_ ?_)
  | (refine SProg.le.waitPeek _ _ _ (fun _ => ?_))
  | (refine SProg.le.waitLoop _ _ _ _ ?_ (fun _ => ?_))
  | (refine SProg.le.signPeek _ _ (fun _ => ?_))
  | (refine SProg.le.peekAt _ _ _ (fun _ => ?_))
  | (refine SProg.le.getTok _ _ (fun _ => ?_))
  | (refine SProg.le.pushTok _ _ _ ?_)
  | (refine SProg.le.pushExpr _ _ _ ?_))

theorem sFuelLe_succ (f : Nat) (h : SFuelLe f) : SFuelLe (f + 1) := by
  obtain ⟨hT, h0, h1, h2, h3, h4, h5, h6⟩ := h
  refine ⟨?_, ?_, ?_, ?_, ?_, ?_, ?_, ?_⟩
  · intro tok
    conv => lhs; rw [S.parseExprTok]
    conv => rhs; rw [S.parseExprTok]
    obtain ⟨ty, str⟩ := tok
    cases ty <;> simp only [bind, pure, S.loopPeek] <;> (repeat' sle_step)
    rename_i r
    generalize r.fst.typ = ty
    cases ty <;> simp only <;> (repeat' sle_step)
  · intro t e
    conv => lhs; rw [S.skipComments]
    conv => rhs; rw [S.skipComments]
    simp only [bind, pure, S.loopPeek]
    repeat' sle_step
  · conv => lhs; rw [S.parseExprNested]
    conv => rhs; rw [S.parseExprNested]
    simp only [bind, pure, S.loopPeek]
    repeat' sle_step
  · intro e
    conv => lhs; rw [S.parseList]
    conv => rhs; rw [S.parseList]
    simp only [bind, pure, S.loopPeek]
    repeat' sle_step
  · intro a
    conv => lhs; rw [S.parseArray]
    conv => rhs; rw [S.parseArray]
    simp only [bind, pure, S.loopPeek]
    repeat' sle_step
  · intro a
    conv => lhs; rw [S.parseInfix]
    conv => rhs; rw [S.parseInfix]
    simp only [bind, pure, S.loopPeek]
    repeat' sle_step
  · intro a
    conv => lhs; rw [S.parseBlockComment]
    conv => rhs; rw [S.parseBlockComment]
    simp only [bind, pure, S.loopPeek]
    repeat' sle_step
  · conv => lhs; rw [S.parseBacktick]
    conv => rhs; rw [S.parseBacktick]
    simp only [bind, pure, S.loopPeek]
    repeat' sle_step

theorem sFuelLe (f : Nat) : SFuelLe f := by
  induction f with
  | zero => exact sFuelLe_zero
  | succ n ih => exact sFuelLe_succ n ih

theorem S_parseExprTok_le (f d : Nat) (tok : Token) : SProg.le (S.parseExprTok f tok) (S.parseExprTok (f + d) tok) := by
  induction d with
  | zero => exact SProg.le_refl _
  | succ d ih => exact SProg.le_trans ih ((sFuelLe (f + d)).1 tok)

/-! ## 2. Coming to rest, under `⊑` -/

/-- a program that comes to rest does so without meeting a cut: the larger program rests at the
same place, in the corresponding (larger) program; and one that returns without resting returns
the same way -/
theorem suspendA_le {α : Type} {p p' : SProg α} (h : SProg.le p p') : ∀ (v : View),
    (∀ e κ v', suspendA p v = some (e, κ, v') → ∃ κ', suspendA p' v = some (e, κ', v') ∧ SProg.le κ κ') ∧
    (suspendA p v = none → ∀ a v1, runA p.erase v = (.ret a, v1) → suspendA p' v = none) := by
  induction h with
  | fail q =>
    intro v
    exact ⟨fun e κ v' h => by simp [suspendA] at h, fun _ a v1 h => by simp [SProg.erase, runA] at h⟩
  | pure a => intro v; exact ⟨fun e κ v' h => by simp [suspendA] at h, fun _ _ _ _ => rfl⟩
  | waitPeek n k k' hk ih =>
    intro v
    simp only [suspendA, SProg.erase, runA]
    cases hp : peekWaitA false n v.exprs v.fin v.runes v.core with
    | tok t v1 => exact ih t v1
    | stop st v1 =>
      cases st with
      | more =>
        refine ⟨?_, fun h => by simp at h⟩
        intro e κ v' h
        simp only [Option.some.injEq, Prod.mk.injEq] at h
        obtain ⟨rfl, rfl, rfl⟩ := h
        exact ⟨_, rfl, .waitPeek n k k' hk⟩
      | done => exact ⟨fun e κ v' h => by simp at h, fun _ a v1' h => by simp at h⟩
      | err => exact ⟨fun e κ v' h => by simp at h, fun _ a v1' h => by simp at h⟩
  | waitLoop on on' k k' hon hk _ ih =>
    intro v
    simp only [suspendA, SProg.erase, runA]
    cases hp : peekWaitA false 0 v.exprs v.fin v.runes v.core with
    | tok t v1 => exact ih t v1
    | stop st v1 =>
      cases st with
      | more =>
        refine ⟨?_, fun h => by simp at h⟩
        intro e κ v' h
        simp only [Option.some.injEq, Prod.mk.injEq] at h
        obtain ⟨rfl, rfl, rfl⟩ := h
        exact ⟨_, rfl, .waitLoop on on' k k' hon hk⟩
      | done => exact ⟨fun e κ v' h => by simp at h, fun _ a v1' h => by simp at h⟩
      | err => exact ⟨fun e κ v' h => by simp at h, fun _ a v1' h => by simp at h⟩
  | signPeek k k' hk ih =>
    intro v
    simp only [suspendA, SProg.erase, runA]
    cases hp : peekWaitA true 0 v.exprs v.fin v.runes v.core with
    | tok t v1 => exact ih t v1
    | stop st v1 =>
      cases st with
      | more =>
        refine ⟨?_, fun h => by simp at h⟩
        intro e κ v' h
        simp only [Option.some.injEq, Prod.mk.injEq] at h
        obtain ⟨rfl, rfl, rfl⟩ := h
        exact ⟨_, rfl, .signPeek k k' hk⟩
      | done => exact ⟨fun e κ v' h => by simp at h, fun _ a v1' h => by simp at h⟩
      | err => exact ⟨fun e κ v' h => by simp at h, fun _ a v1' h => by simp at h⟩
  | peekAt n k k' hk ih =>
    intro v
    simp only [suspendA, SProg.erase, runA]
    cases hp : peekWaitA false n v.exprs v.fin v.runes v.core with
    | tok t v1 =>
      simp only
      cases hq : v1.core.tokens[n]? with
      | some t' => exact ih t' v1
      | none => exact ⟨fun e κ v' h => by simp at h, fun _ a v1' h => by simp at h⟩
    | stop st v1 =>
      cases st with
      | more =>
        refine ⟨?_, fun h => by simp at h⟩
        intro e κ v' h
        simp only [Option.some.injEq, Prod.mk.injEq] at h
        obtain ⟨rfl, rfl, rfl⟩ := h
        exact ⟨_, rfl, .peekAt n k k' hk⟩
      | done => exact ⟨fun e κ v' h => by simp at h, fun _ a v1' h => by simp at h⟩
      | err => exact ⟨fun e κ v' h => by simp at h, fun _ a v1' h => by simp at h⟩
  | getTok k k' hk ih =>
    intro v
    simp only [suspendA, SProg.erase, runA]
    cases hp : peekWaitA false 0 v.exprs v.fin v.runes v.core with
    | tok t v1 => exact ih t _
    | stop st v1 =>
      cases st with
      | more =>
        refine ⟨?_, fun h => by simp at h⟩
        intro e κ v' h
        simp only [Option.some.injEq, Prod.mk.injEq] at h
        obtain ⟨rfl, rfl, rfl⟩ := h
        exact ⟨_, rfl, .getTok k k' hk⟩
      | done => exact ⟨fun e κ v' h => by simp at h, fun _ a v1' h => by simp at h⟩
      | err => exact ⟨fun e κ v' h => by simp at h, fun _ a v1' h => by simp at h⟩
  | topGet k k' hk ih =>
    intro v
    simp only [suspendA, SProg.erase, runA]
    cases hp : topGetA v.exprs v.fin v.runes v.core with
    | tok t v1 => exact ih (some t) v1
    | finished st v1 =>
      cases st with
      | more =>
        refine ⟨?_, fun h => by simp at h⟩
        intro e κ v' h
        simp only [Option.some.injEq, Prod.mk.injEq] at h
        obtain ⟨rfl, rfl, rfl⟩ := h
        exact ⟨_, rfl, .topGet k k' hk⟩
      | done =>
        refine ⟨?_, fun h => by simp at h⟩
        intro e κ v' h
        simp only [Option.some.injEq, Prod.mk.injEq] at h
        obtain ⟨rfl, rfl, rfl⟩ := h
        exact ⟨_, rfl, .topGet k k' hk⟩
      | err => exact ⟨fun e κ v' h => by simp at h, fun _ a v1' h => by simp at h⟩
  | pushTok t k k' _ ih => intro v; simp only [suspendA, SProg.erase, runA]; exact ih _
  | pushExpr e k k' _ ih => intro v; simp only [suspendA, SProg.erase, runA]; exact ih _

/-! ## 3. The programs of the protocol with all fuel indices shifted by `d` -/

inductive Shift (d : Nat) : SProg Unit → SProg Unit → Prop
  | top (f : Nat) : Shift d (S.topLoop f) (S.topLoop (f + d))
  | inner (f : Nat) (P P' : SProg Sexp) (hle : SProg.le P P') (hP : P.noTop) (hP' : P'.noTop) :
      Shift d (P.bind (afterExpr f)) (P'.bind (afterExpr (f + d)))

theorem Shift.erase_le {d : Nat} {Q Q' : SProg Unit} (h : Shift d Q Q') : Prog.le Q.erase Q'.erase := by
  cases h with
  | top f => rw [erase_topLoop, erase_topLoop]; exact topLoop_le f (f + d) (Nat.le_add_right _ _)
  | inner f P P' hle hP hP' =>
    rw [SProg.erase_bind, SProg.erase_bind]
    refine Prog.le_bind (SProg.erase_mono hle) (fun a => ?_)
    simp only [afterExpr, SProg.erase, erase_topLoop]
    exact .pushExpr a _ _ (topLoop_le f (f + d) (Nat.le_add_right _ _))

/-- what coming to rest says about a shifted pair -/
def ShiftOK (d : Nat) (Q Q' : SProg Unit) : Prop := ∀ (v : View) (e : Bool) (κ : SProg Unit) (v' : View),
  suspendA Q v = some (e, κ, v') →
    ∃ κ', suspendA Q' v = some (e, κ', v') ∧ Shift d κ κ' ∧
      (e = true → ∃ f, κ = S.topLoop (f + 1) ∧ κ' = S.topLoop (f + 1 + d))

theorem shiftOK_inner (d f : Nat) (ihtop : ShiftOK d (S.topLoop f) (S.topLoop (f + d)))
    (P P' : SProg Sexp) (hle : SProg.le P P') (hP : P.noTop) (hP' : P'.noTop) :
    ShiftOK d (P.bind (afterExpr f)) (P'.bind (afterExpr (f + d))) := by
  intro v e κ v' h
  obtain ⟨l1, l2⟩ := suspendA_le hle v
  rw [suspendA_bind] at h ⊢
  cases hs : suspendA P v with
  | some x =>
    obtain ⟨e0, κ0, v0⟩ := x
    obtain ⟨κ0', m1, m2⟩ := l1 e0 κ0 v0 hs
    obtain ⟨rfl, hκ⟩ := noTop_suspendA hP v e0 κ0 v0 hs
    obtain ⟨_, hκ'⟩ := noTop_suspendA hP' v false κ0' v0 m1
    simp only [hs, Option.some.injEq, Prod.mk.injEq] at h
    obtain ⟨rfl, rfl, rfl⟩ := h
    simp only [m1]
    exact ⟨_, rfl, .inner f κ0 κ0' m2 hκ hκ', fun h => by simp at h⟩
  | none =>
    simp only [hs] at h
    cases hr : runA P.erase v with
    | mk r v1 =>
      cases r with
      | ret a =>
        have hnone := l2 hs a v1 hr
        have hr' : runA P'.erase v = (.ret a, v1) := by
          rw [runA_le (SProg.erase_mono hle) v (by rw [hr]; simp), hr]
        simp only [hr] at h
        simp only [hnone, hr']
        simp only [afterExpr, suspendA] at h ⊢
        exact ihtop _ e κ v' h
      | stop st => simp [hr] at h

theorem shiftOK_top (d : Nat) : ∀ f, ShiftOK d (S.topLoop f) (S.topLoop (f + d)) := by
  intro f
  induction f with
  | zero =>
    intro v e κ v' h
    rw [S.topLoop] at h
    simp [S.fail, suspendA] at h
  | succ f ih =>
    intro v e κ v' h
    have hfd : f + 1 + d = (f + d) + 1 := by omega
    rw [hfd]
    rw [topLoop_succ_eq] at h ⊢
    simp only [suspendA] at h ⊢
    cases hp : topGetA v.exprs v.fin v.runes v.core with
    | tok t v1 =>
      simp only [hp] at h ⊢
      exact shiftOK_inner d f ih _ _ (S_parseExprTok_le f d t) ((noTopAll f).1 t) ((noTopAll (f + d)).1 t) v1 e κ v' h
    | finished st v1 =>
      cases st with
      | done =>
        simp only [hp, Option.some.injEq, Prod.mk.injEq] at h ⊢
        obtain ⟨rfl, rfl, rfl⟩ := h
        refine ⟨_, ⟨rfl, rfl, rfl⟩, ?_, fun _ => ⟨f, (topLoop_succ_eq f).symm, ?_⟩⟩
        · rw [← topLoop_succ_eq, ← topLoop_succ_eq, ← hfd]; exact .top (f + 1)
        · rw [← topLoop_succ_eq, ← hfd]
      | more =>
        simp only [hp, Option.some.injEq, Prod.mk.injEq] at h ⊢
        obtain ⟨rfl, rfl, rfl⟩ := h
        refine ⟨_, ⟨rfl, rfl, rfl⟩, ?_, fun h => by simp at h⟩
        rw [← topLoop_succ_eq, ← topLoop_succ_eq, ← hfd]; exact .top (f + 1)
      | err => simp [hp] at h

theorem shiftOK (d : Nat) (Q Q' : SProg Unit) (h : Shift d Q Q') : ShiftOK d Q Q' := by
  cases h with
  | top f => exact shiftOK_top d f
  | inner f P P' hle hP hP' => exact shiftOK_inner d f (shiftOK_top d f) P P' hle hP hP'

/-! ## 4. A run that does not come to rest in the first piece -/

/-- If the program, on the state without the future pieces, ends by itself (an error — or a return
— before the input of the current piece is used up), the run WITH the future pieces is that run: the
future pieces stay where they are, nothing is recorded. -/
theorem run_split_none {α : Type} (c' : List Char) (fut' : List (List Char)) (Q : SProg α) :
    ∀ (s : PState), Inv s → s.lex.finished = false → s.fut = c' :: fut' →
    suspendA Q (view s.base) = none →
    run Q.erase s = ((run Q.erase s.base).1, s.restore (run Q.erase s.base).2) := by
  induction Q with
  | pure a => intro s _ _ _ _; simp only [SProg.erase, run, PState.restore_base]
  | fail => intro s _ _ _ _; simp only [SProg.erase, run, PState.restore_base]
  | waitPeek n k ih =>
    intro s hi hfin hfut h
    have hbi : Inv s.base := hi
    have hfuel : peekWaitRun false n (s.size + 1) s.base = peekWaitRun false n (s.base.size + 1) s.base :=
      peekWaitRun_fuel false n _ _ s.base hbi (by have := s.base_size_le; omega) (Nat.lt_succ_self _)
    have hsplit := peekWaitRun_split false n c' fut' (s.size + 1) s hi (Nat.lt_succ_self _) hfin hfut _ hfuel
    have hsim := peekWait_sim false n (s.base.size + 1) s.base hbi (Nat.lt_succ_self _)
    have hg := peekWaitRun_ghost false n (s.base.size + 1) s.base rfl
    have hv := view_fields s.base
    simp only [suspendA, hv.1, hv.2.1, hv.2.2.1, hv.2.2.2, ← hsim.1] at h
    simp only [SProg.erase, run]
    cases hpw : peekWaitRun false n (s.base.size + 1) s.base with
    | tok t s1 =>
      rw [hpw] at hsplit hsim hg h
      simp only [PeekOut.toA] at h
      simp only at hsplit
      have hinv1 : Inv s1 := hsim.2
      have g : Ghost s.base s1 := hg
      have hfin1 : s1.lex.finished = false := g.2.2.2.trans hfin
      rw [hsplit]
      have hb : (s.restore s1).base = s1 := PState.base_restore s s1 g.1 g.2.1 g.2.2.1
      have := ih t (s.restore s1) hinv1 hfin1 hfut (by rw [hb]; exact h)
      rw [hb] at this
      exact this
    | stop st s1 =>
      rw [hpw] at hsplit h
      simp only [PeekOut.toA] at h
      cases st with
      | more => simp at h
      | done => simp only at hsplit; rw [hsplit]
      | err => simp only at hsplit; rw [hsplit]
  | waitLoop on k _ ih =>
    intro s hi hfin hfut h
    have hbi : Inv s.base := hi
    have hfuel : peekWaitRun false 0 (s.size + 1) s.base = peekWaitRun false 0 (s.base.size + 1) s.base :=
      peekWaitRun_fuel false 0 _ _ s.base hbi (by have := s.base_size_le; omega) (Nat.lt_succ_self _)
    have hsplit := peekWaitRun_split false 0 c' fut' (s.size + 1) s hi (Nat.lt_succ_self _) hfin hfut _ hfuel
    have hsim := peekWait_sim false 0 (s.base.size + 1) s.base hbi (Nat.lt_succ_self _)
    have hg := peekWaitRun_ghost false 0 (s.base.size + 1) s.base rfl
    have hv := view_fields s.base
    simp only [suspendA, hv.1, hv.2.1, hv.2.2.1, hv.2.2.2, ← hsim.1] at h
    simp only [SProg.erase, run]
    cases hpw : peekWaitRun false 0 (s.base.size + 1) s.base with
    | tok t s1 =>
      rw [hpw] at hsplit hsim hg h
      simp only [PeekOut.toA] at h
      simp only at hsplit
      have hinv1 : Inv s1 := hsim.2
      have g : Ghost s.base s1 := hg
      have hfin1 : s1.lex.finished = false := g.2.2.2.trans hfin
      rw [hsplit]
      have hb : (s.restore s1).base = s1 := PState.base_restore s s1 g.1 g.2.1 g.2.2.1
      have := ih t (s.restore s1) hinv1 hfin1 hfut (by rw [hb]; exact h)
      rw [hb] at this
      exact this
    | stop st s1 =>
      rw [hpw] at hsplit h
      simp only [PeekOut.toA] at h
      cases st with
      | more => simp at h
      | done => simp only at hsplit; rw [hsplit]
      | err => simp only at hsplit; rw [hsplit]
  | signPeek k ih =>
    intro s hi hfin hfut h
    have hbi : Inv s.base := hi
    have hfuel : peekWaitRun true 0 (s.size + 1) s.base = peekWaitRun true 0 (s.base.size + 1) s.base :=
      peekWaitRun_fuel true 0 _ _ s.base hbi (by have := s.base_size_le; omega) (Nat.lt_succ_self _)
    have hsplit := peekWaitRun_split true 0 c' fut' (s.size + 1) s hi (Nat.lt_succ_self _) hfin hfut _ hfuel
    have hsim := peekWait_sim true 0 (s.base.size + 1) s.base hbi (Nat.lt_succ_self _)
    have hg := peekWaitRun_ghost true 0 (s.base.size + 1) s.base rfl
    have hv := view_fields s.base
    simp only [suspendA, hv.1, hv.2.1, hv.2.2.1, hv.2.2.2, ← hsim.1] at h
    simp only [SProg.erase, run]
    cases hpw : peekWaitRun true 0 (s.base.size + 1) s.base with
    | tok t s1 =>
      rw [hpw] at hsplit hsim hg h
      simp only [PeekOut.toA] at h
      simp only at hsplit
      have hinv1 : Inv s1 := hsim.2
      have g : Ghost s.base s1 := hg
      have hfin1 : s1.lex.finished = false := g.2.2.2.trans hfin
      rw [hsplit]
      have hb : (s.restore s1).base = s1 := PState.base_restore s s1 g.1 g.2.1 g.2.2.1
      have := ih t (s.restore s1) hinv1 hfin1 hfut (by rw [hb]; exact h)
      rw [hb] at this
      exact this
    | stop st s1 =>
      rw [hpw] at hsplit h
      simp only [PeekOut.toA] at h
      cases st with
      | more => simp at h
      | done => simp only at hsplit; rw [hsplit]
      | err => simp only at hsplit; rw [hsplit]
  | peekAt n k ih =>
    intro s hi hfin hfut h
    have hbi : Inv s.base := hi
    have hfuel : peekWaitRun false n (s.size + 1) s.base = peekWaitRun false n (s.base.size + 1) s.base :=
      peekWaitRun_fuel false n _ _ s.base hbi (by have := s.base_size_le; omega) (Nat.lt_succ_self _)
    have hsplit := peekWaitRun_split false n c' fut' (s.size + 1) s hi (Nat.lt_succ_self _) hfin hfut _ hfuel
    have hsim := peekWait_sim false n (s.base.size + 1) s.base hbi (Nat.lt_succ_self _)
    have hg := peekWaitRun_ghost false n (s.base.size + 1) s.base rfl
    have hv := view_fields s.base
    simp only [suspendA, hv.1, hv.2.1, hv.2.2.1, hv.2.2.2, ← hsim.1] at h
    simp only [SProg.erase, run]
    cases hpw : peekWaitRun false n (s.base.size + 1) s.base with
    | tok t s1 =>
      rw [hpw] at hsplit hsim hg h
      simp only [PeekOut.toA] at h
      simp only at hsplit
      have hinv1 : Inv s1 := hsim.2
      have g : Ghost s.base s1 := hg
      have hfin1 : s1.lex.finished = false := g.2.2.2.trans hfin
      rw [hsplit]
      have hb : (s.restore s1).base = s1 := PState.base_restore s s1 g.1 g.2.1 g.2.2.1
      have ht : (view s1).core.tokens = s1.lex.tokens := rfl
      rw [ht] at h
      simp only
      have ht2 : (s.restore s1).lex.tokens = s1.lex.tokens := rfl
      rw [ht2]
      cases hq : s1.lex.tokens[n]? with
      | none => rfl
      | some t' =>
        simp only [hq] at h ⊢
        have := ih t' (s.restore s1) hinv1 hfin1 hfut (by rw [hb]; exact h)
        rw [hb] at this
        exact this
    | stop st s1 =>
      rw [hpw] at hsplit h
      simp only [PeekOut.toA] at h
      cases st with
      | more => simp at h
      | done => simp only at hsplit; rw [hsplit]
      | err => simp only at hsplit; rw [hsplit]
  | getTok k ih =>
    intro s hi hfin hfut h
    have hbi : Inv s.base := hi
    have hfuel : peekWaitRun false 0 (s.size + 1) s.base = peekWaitRun false 0 (s.base.size + 1) s.base :=
      peekWaitRun_fuel false 0 _ _ s.base hbi (by have := s.base_size_le; omega) (Nat.lt_succ_self _)
    have hsplit := peekWaitRun_split false 0 c' fut' (s.size + 1) s hi (Nat.lt_succ_self _) hfin hfut _ hfuel
    have hsim := peekWait_sim false 0 (s.base.size + 1) s.base hbi (Nat.lt_succ_self _)
    have hg := peekWaitRun_ghost false 0 (s.base.size + 1) s.base rfl
    have hv := view_fields s.base
    simp only [suspendA, hv.1, hv.2.1, hv.2.2.1, hv.2.2.2, ← hsim.1] at h
    simp only [SProg.erase, run]
    cases hpw : peekWaitRun false 0 (s.base.size + 1) s.base with
    | tok t s1 =>
      rw [hpw] at hsplit hsim hg h
      simp only [PeekOut.toA] at h
      simp only at hsplit
      have hinv1 : Inv s1 := hsim.2
      have g : Ghost s.base s1 := hg
      have hfin1 : s1.lex.finished = false := g.2.2.2.trans hfin
      rw [hsplit]
      have hb : (s.restore ({ s1 with lex := { s1.lex with tokens := s1.lex.tokens.tail } } : PState)).base =
          ({ s1 with lex := { s1.lex with tokens := s1.lex.tokens.tail } } : PState) :=
        PState.base_restore s _ g.1 g.2.1 g.2.2.1
      have := ih t (s.restore ({ s1 with lex := { s1.lex with tokens := s1.lex.tokens.tail } } : PState))
        (by simpa [Inv, PState.restore] using hinv1) hfin1 hfut
        (by rw [hb]; simpa [view, runes_of_pending, LexState.pending, PState.willFinish] using h)
      rw [hb] at this
      exact this
    | stop st s1 =>
      rw [hpw] at hsplit h
      simp only [PeekOut.toA] at h
      cases st with
      | more => simp at h
      | done => simp only at hsplit; rw [hsplit]
      | err => simp only at hsplit; rw [hsplit]
  | topGet k ih =>
    intro s hi hfin hfut h
    have hbi : Inv s.base := hi
    have hfuel : topGetRun (s.size + 1) s.base = topGetRun (s.base.size + 1) s.base :=
      topGetRun_fuel _ _ s.base hbi (by have := s.base_size_le; omega) (Nat.lt_succ_self _)
    have hsplit := topGetRun_split c' fut' (s.size + 1) s hi (Nat.lt_succ_self _) hfin hfut _ hfuel
    have hsim := topGet_sim (s.base.size + 1) s.base hbi (Nat.lt_succ_self _)
    have hg := topGetRun_ghost (s.base.size + 1) s.base rfl
    have hv := view_fields s.base
    simp only [suspendA, hv.1, hv.2.1, hv.2.2.1, hv.2.2.2, ← hsim.1] at h
    simp only [SProg.erase, run]
    cases hpw : topGetRun (s.base.size + 1) s.base with
    | tok t s1 =>
      rw [hpw] at hsplit hsim hg h
      simp only [TopOut.toA] at h
      simp only at hsplit
      have hinv1 : Inv s1 := hsim.2
      have g : Ghost s.base s1 := hg
      have hfin1 : s1.lex.finished = false := g.2.2.2.trans hfin
      rw [hsplit]
      have hb : (s.restore s1).base = s1 := PState.base_restore s s1 g.1 g.2.1 g.2.2.1
      have := ih (some t) (s.restore s1) hinv1 hfin1 hfut (by rw [hb]; exact h)
      rw [hb] at this
      exact this
    | finished st s1 =>
      rw [hpw] at hsplit h
      simp only [TopOut.toA] at h
      cases st with
      | more => simp at h
      | done => simp at h
      | err => simp only at hsplit; rw [hsplit]
  | pushTok t k ih =>
    intro s hi hfin hfut h
    simp only [suspendA] at h
    simp only [SProg.erase, run]
    exact ih ({ s with lex := { s.lex with tokens := t :: s.lex.tokens } } : PState) (by simpa [Inv] using hi) hfin hfut
      (by simpa [view, PState.base, runes_of_pending, LexState.pending, PState.willFinish] using h)
  | pushExpr e' k ih =>
    intro s hi hfin hfut h
    simp only [suspendA] at h
    simp only [SProg.erase, run]
    exact ih ({ s with exprs := s.exprs ++ [e'] } : PState) (by simpa [Inv] using hi) hfin hfut
      (by simpa [view, PState.base, runes_of_pending, PState.willFinish] using h)

/-! ## 5. One stage of the protocol, with every shifted version of its program -/

/-- the call answers an error: the run of the delivery model from here is that error -/
theorem stage_err (F : Nat) (t : PState) (co : Option Co) (c : List Char) (fut' : List (List Char))
    (hco : co ≠ some .finalYield) (hTL : TL F (progOf F co)) (hi : Inv t) (hfin : t.lex.finished = false)
    (hfut : t.fut = c :: fut') (hs : suspendA (progOf F co) (view t.base) = none) :
    ∃ s1 : PState, (PSt.parseTokens F ⟨t.lex, t.exprs, co⟩).1 = .err ∧
      (PSt.parseTokens F ⟨t.lex, t.exprs, co⟩).2.1 = s1.exprs ∧
      run (progOf F co).erase t = (.stop .err, t.restore s1) := by
  obtain ⟨_, _, sl3⟩ := SL_of_TL F _ hTL (view t.base)
  have hpt := parseTokens_eq F ⟨t.lex, t.exprs, co⟩ hco
  have hps : (⟨t.lex, t.exprs, co⟩ : PSt).pstate = t.base := rfl
  rw [hps] at hpt
  simp only at hpt
  have hsplit := run_split_none c fut' _ t hi hfin hfut hs
  have herr : (run (progOf F co).erase t.base).1 = .stop .err := by
    rw [(run_view _ t.base hi).1]; exact sl3 hs
  cases hrun : run (progOf F co).erase t.base with
  | mk fin s1 =>
    rw [hrun] at hpt hsplit herr
    simp only at herr
    subst herr
    refine ⟨s1, ?_, ?_, hsplit⟩
    · rw [hpt]
    · rw [hpt]

/-- the call answers `more` or `done`: the run of the delivery model from here goes on after the
delivery with the program the protocol holds next — and so does the run of every shifted version of
the program, with the shifted version of that next program (`topLoop` at exactly the shifted fuel
when the call answered `done`) -/
theorem stage_ok (F : Nat) (t : PState) (co : Option Co) (c : List Char) (fut' : List (List Char))
    (hco : co ≠ some .finalYield) (hTL : TL F (progOf F co)) (hi : Inv t) (hfin : t.lex.finished = false)
    (hfut : t.fut = c :: fut') (e : Bool) (κ : SProg Unit) (v' : View)
    (hs : suspendA (progOf F co) (view t.base) = some (e, κ, v')) :
    ∃ (co' : Option Co) (s1 : PState),
      PSt.parseTokens F ⟨t.lex, t.exprs, co⟩ = ((if e then .done else .more), s1.exprs, ⟨s1.lex, s1.exprs, co'⟩) ∧
      co' ≠ some .finalYield ∧ TL F (progOf F co') ∧ s1.lex.pending = [] ∧
      run (progOf F co).erase t = run κ.erase ((t.restore s1).deliver c fut' (if e then .done else .more)) ∧
      (e = false → progOf F co' = κ) ∧
      (e = true → co' = none ∧ ∃ f, f + 1 ≤ F ∧ κ = S.topLoop (f + 1)) ∧
      ∀ (d : Nat) (Q' : SProg Unit), Shift d (progOf F co) Q' →
        ∃ κ', Shift d κ κ' ∧ (e = true → ∃ f, κ = S.topLoop (f + 1) ∧ κ' = S.topLoop (f + 1 + d)) ∧
          run Q'.erase t = run κ'.erase ((t.restore s1).deliver c fut' (if e then .done else .more)) := by
  have hvfin : (view t.base).fin = false := by simp [view, PState.base, PState.willFinish, hfin]
  obtain ⟨sl1, sl2, sl3⟩ := SL_of_TL F _ hTL (view t.base)
  have hpt := parseTokens_eq F ⟨t.lex, t.exprs, co⟩ hco
  have hps : (⟨t.lex, t.exprs, co⟩ : PSt).pstate = t.base := rfl
  rw [hps] at hpt
  simp only at hpt
  obtain ⟨s1, g1, g2, g3, g4, g5, g6, g7⟩ := run_split c fut' _ t hi hfin hfut e κ v' hs
  obtain ⟨q1, _⟩ := resume_is_rest_of_run _ _ hvfin e κ v' hs
  have hpend : s1.lex.pending = [] := by
    have : (view s1).runes = [] := by rw [g4]; exact q1
    exact (List.append_eq_nil_iff.mp this).1
  -- the run of the call itself
  have hbase : run (progOf F co).erase t.base = ((if e then Fin.ret () else Fin.stop .more), s1) := by
    cases e with
    | false => exact g5 rfl
    | true =>
      obtain ⟨⟨f, hf, rfl⟩, _⟩ := sl1 κ v' hs
      have hrun := g6 _ rfl (topLoop_succ_eq f)
      simpa [SProg.erase, run] using hrun
  -- every shifted version rests at the same state
  have hshift : ∀ (d : Nat) (Q' : SProg Unit), Shift d (progOf F co) Q' →
      ∃ κ', Shift d κ κ' ∧ (e = true → ∃ f, κ = S.topLoop (f + 1) ∧ κ' = S.topLoop (f + 1 + d)) ∧
        run Q'.erase t = run κ'.erase ((t.restore s1).deliver c fut' (if e then .done else .more)) := by
    intro d Q' hsh
    obtain ⟨κ', k1, k2, k3⟩ := shiftOK d _ _ hsh (view t.base) e κ v' hs
    obtain ⟨s1', _, _, _, _, j5, j6, j7⟩ := run_split c fut' Q' t hi hfin hfut e κ' v' k1
    have hle := run_le hsh.erase_le t.base (by rw [hbase]; cases e <;> simp)
    have hs1 : s1' = s1 := by
      cases e with
      | false =>
        have := j5 rfl
        rw [hle, hbase] at this
        simp only [Bool.false_eq_true, ↓reduceIte, Prod.mk.injEq, true_and] at this
        exact this.symm
      | true =>
        obtain ⟨f, _, hκ'⟩ := k3 rfl
        have hfd : f + 1 + d = (f + d) + 1 := by omega
        rw [hfd] at hκ'
        have hrun := j6 _ rfl (hκ'.trans (topLoop_succ_eq (f + d)))
        simp only [SProg.erase, run] at hrun
        rw [hle, hbase] at hrun
        simp only [↓reduceIte, Prod.mk.injEq, true_and] at hrun
        exact hrun.symm
    rw [hs1] at j7
    exact ⟨κ', k2, k3, j7⟩
  cases e with
  | false =>
    have hres := (residual_of_suspendA _ t.base hi κ v' hs).1
    rw [hbase, hres] at hpt
    refine ⟨some (.waiting κ), s1, by simpa using hpt, by simp, sl2 κ v' hs, hpend, by simpa using g7, fun _ => rfl,
      fun h => by simp at h, hshift⟩
  | true =>
    obtain ⟨⟨f, hf, hκ⟩, _⟩ := sl1 κ v' hs
    rw [hbase] at hpt
    refine ⟨none, s1, by simpa using hpt, by simp, .top F (Nat.le_refl _), hpend, by simpa using g7,
      fun h => by simp at h, fun _ => ⟨rfl, f, hf, hκ⟩, hshift⟩

/-! ## 6. The induction over the pieces -/

def commaTok : Token := ⟨.comma, [',']⟩

theorem S_parseExprTok_comma (f : Nat) : S.parseExprTok (f + 1) commaTok = .pure .comma := by
  rw [S.parseExprTok]
  simp [commaTok, atomOfTok, pure]

/-- the loop at different fuels is a different program -/
theorem S_topLoop_inj : ∀ (f g : Nat), S.topLoop f = S.topLoop g → f = g := by
  intro f
  induction f with
  | zero =>
    intro g h
    cases g with
    | zero => rfl
    | succ g => rw [topLoop_succ_eq] at h; rw [S.topLoop] at h; simp [S.fail] at h
  | succ f ih =>
    intro g h
    cases g with
    | zero => rw [topLoop_succ_eq] at h; rw [S.topLoop] at h; simp [S.fail] at h
    | succ g =>
      rw [topLoop_succ_eq, topLoop_succ_eq] at h
      simp only [SProg.topGet.injEq] at h
      have h2 := congrFun h (some commaTok)
      simp only at h2
      cases f with
      | zero =>
        cases g with
        | zero => rfl
        | succ g =>
          rw [S_parseExprTok_comma] at h2
          rw [S.parseExprTok] at h2
          simp [S.fail, SProg.bind, afterExpr] at h2
      | succ f =>
        cases g with
        | zero =>
          rw [S_parseExprTok_comma] at h2
          rw [S.parseExprTok] at h2
          simp [S.fail, SProg.bind, afterExpr] at h2
        | succ g =>
          rw [S_parseExprTok_comma, S_parseExprTok_comma] at h2
          simp only [SProg.bind, afterExpr, SProg.pushExpr.injEq, true_and] at h2
          rw [ih (g + 1) h2]

/-- "the protocol at this stage is a stage of the delivery model started with fuel `G`", uniformly
in a further shift `d` (`W G` = the run of the delivery model started with fuel `G`) -/
def StageInv (W : Nat → Fin Unit × PState) (G : Nat) (t : PState) (Q : SProg Unit) : Prop :=
  W G = run Q.erase t ∧ ∀ d, ∃ Q', Shift d Q Q' ∧ W (G + d) = run Q'.erase t

theorem final_call (F : Nat) (t2 : PState) (co' : Option Co) (hco : co' ≠ some .finalYield) (hi : Inv t2)
    (hfut : t2.fut = []) :
    (PSt.parseTokens F ⟨t2.lex, t2.exprs, co'⟩).1 = statusOf (run (progOf F co').erase t2).1 ∧
    (PSt.parseTokens F ⟨t2.lex, t2.exprs, co'⟩).2.1 = (run (progOf F co').erase t2).2.exprs := by
  have hpt := parseTokens_eq F ⟨t2.lex, t2.exprs, co'⟩ hco
  have hps : (⟨t2.lex, t2.exprs, co'⟩ : PSt).pstate = t2.base := rfl
  rw [hps] at hpt
  simp only at hpt
  have hv : view t2.base = view t2 := by simp [view, PState.base, PState.runes, PState.willFinish, hfut]
  obtain ⟨b1, b2⟩ := run_view (progOf F co').erase t2.base hi
  obtain ⟨c1, c2⟩ := run_view (progOf F co').erase t2 hi
  rw [hv] at b1 b2
  have h1 : (run (progOf F co').erase t2.base).1 = (run (progOf F co').erase t2).1 := b1.trans c1.symm
  have h2 : (run (progOf F co').erase t2.base).2.exprs = (run (progOf F co').erase t2).2.exprs :=
    congrArg View.exprs (b2.trans c2.symm)
  rw [← h1, ← h2, hpt]
  cases run (progOf F co').erase t2.base with
  | mk fin s =>
    cases fin with
    | ret a => exact ⟨rfl, rfl⟩
    | stop st => cases st <;> exact ⟨rfl, rfl⟩

theorem trace_mem_callThen (F : Nat) (p' : PSt) (tr : List Status) (rest : List (List Char)) (x : Status)
    (hx : x ∈ tr) : x ∈ (callThen F p' tr rest).1.trace := by
  unfold callThen
  split
  · simp [hx]
  · exact trace_mem_deliverRest F rest _ _ x (List.mem_cons_of_mem _ hx)

/-- The induction over the pieces. `G0`: the fuel with which the delivery model, started at `t0`,
passes through this stage. The delivery ends as the delivery model started with some `G ≥ G0` ends;
`G` is `G0` unless some call answered `done` (a new iterator, new fuel). -/
theorem stages (F : Nat) (W : Nat → Fin Unit × PState) :
    ∀ (rest : List (List Char)) (t : PState) (co : Option Co) (tr : List Status) (G0 : Nat),
    co ≠ some .finalYield → TL F (progOf F co) → Inv t → t.lex.finished = false → t.eof = true →
    t.fut = rest ++ [eofPiece] → t.trace = tr.reverse → StageInv W G0 t (progOf F co) →
    ∃ G, G0 ≤ G ∧ (callThen F ⟨t.lex, t.exprs, co⟩ tr rest).1.status = statusOf (W G).1 ∧
      (callThen F ⟨t.lex, t.exprs, co⟩ tr rest).1.exprs = (W G).2.exprs ∧
      (callThen F ⟨t.lex, t.exprs, co⟩ tr rest).1.trace = (W G).2.trace ∧
      (G = G0 ∨ Status.done ∈ (callThen F ⟨t.lex, t.exprs, co⟩ tr rest).1.trace) := by
  -- the common part of both cases: the first call and the invariant after it
  have common : ∀ (t : PState) (co : Option Co) (tr : List Status) (c : List Char) (fut' : List (List Char)) (G : Nat),
      co ≠ some .finalYield → TL F (progOf F co) → Inv t → t.lex.finished = false →
      t.fut = c :: fut' → t.trace = tr.reverse → StageInv W G t (progOf F co) →
      ((PSt.parseTokens F ⟨t.lex, t.exprs, co⟩).1 = .err ∧ (W G).1 = .stop .err ∧
          (PSt.parseTokens F ⟨t.lex, t.exprs, co⟩).2.1 = (W G).2.exprs ∧ (W G).2.trace = tr.reverse) ∨
      (∃ (st : Status) (co' : Option Co) (s1 : PState) (G' : Nat), st ≠ .err ∧
          PSt.parseTokens F ⟨t.lex, t.exprs, co⟩ = (st, s1.exprs, ⟨s1.lex, s1.exprs, co'⟩) ∧
          co' ≠ some .finalYield ∧ TL F (progOf F co') ∧ s1.lex.pending = [] ∧ G ≤ G' ∧ (G' = G ∨ st = .done) ∧
          StageInv W G' ((t.restore s1).deliver c fut' st) (progOf F co')) := by
    intro t co tr c fut' G hco hTL hi hfin hfut htr hinv
    obtain ⟨hW, hWd⟩ := hinv
    cases hs : suspendA (progOf F co) (view t.base) with
    | none =>
      obtain ⟨s1, e1, e2, e3⟩ := stage_err F t co c fut' hco hTL hi hfin hfut hs
      left
      refine ⟨e1, by rw [hW, e3], by rw [hW, e3, e2]; rfl, by rw [hW, e3]; exact htr⟩
    | some x =>
      obtain ⟨e, κ, v'⟩ := x
      obtain ⟨co', s1, k1, k2, k3, k4, k5, k6, k7, k8⟩ := stage_ok F t co c fut' hco hTL hi hfin hfut e κ v' hs
      right
      cases e with
      | false =>
        refine ⟨.more, co', s1, G, by simp, k1, k2, k3, k4, Nat.le_refl _, .inl rfl, ?_⟩
        rw [k6 rfl]
        refine ⟨hW.trans k5, fun d => ?_⟩
        obtain ⟨Q', sh, w⟩ := hWd d
        obtain ⟨κ', a1, _, a3⟩ := k8 d Q' sh
        exact ⟨κ', a1, w.trans a3⟩
      | true =>
        obtain ⟨rfl, f, hf, hκ⟩ := k7 rfl
        have key : ∀ d, W (G + (F - (f + 1)) + d) = run (S.topLoop (F + d)).erase
            ((t.restore s1).deliver c fut' (if true = true then Status.done else Status.more)) := by
          intro d
          obtain ⟨Q', sh, w⟩ := hWd (F - (f + 1) + d)
          obtain ⟨κ', _, a2, a3⟩ := k8 (F - (f + 1) + d) Q' sh
          obtain ⟨f', e1, e2⟩ := a2 rfl
          have hff : f' = f := by
            have := S_topLoop_inj (f' + 1) (f + 1) (e1.symm.trans hκ)
            omega
          subst hff
          have hidx : f' + 1 + (F - (f' + 1) + d) = F + d := by omega
          rw [hidx] at e2
          rw [Nat.add_assoc, w, a3, e2]
        refine ⟨.done, none, s1, G + (F - (f + 1)), by simp, k1, k2, k3, k4, by omega, .inr rfl, ?_,
          fun d => ⟨S.topLoop (F + d), .top F, key d⟩⟩
        have := key 0
        simpa [progOf] using this
  intro rest
  induction rest with
  | nil =>
    intro t co tr G0 hco hTL hi hfin heof hfut htr hinv
    rcases common t co tr eofPiece [] G0 hco hTL hi hfin hfut htr hinv with
      ⟨c1, c2, c3, c4⟩ | ⟨st, co', s1, G', d1, d2, d3, d4, d5, dG, dst, d6⟩
    · refine ⟨G0, Nat.le_refl _, ?_⟩
      have hb : ((PSt.parseTokens F ⟨t.lex, t.exprs, co⟩).1 == Status.err) = true := by rw [c1]; rfl
      simp only [callThen, hb, ↓reduceIte]
      rw [c2]
      exact ⟨c1, c3, c4.symm, by first | exact .inl rfl | exact .inl trivial⟩
    · obtain ⟨hW, _⟩ := d6
      refine ⟨G', dG, ?_⟩
      have hb : (st == Status.err) = false := by cases st <;> simp_all
      obtain ⟨a1, a2, a3, a4⟩ := addNextStream_read s1.lex eofPiece d5
      have hlex : ((t.restore s1).deliver eofPiece [] st).lex = s1.lex.endInput := by
        simp [PState.deliver, PState.restore, heof, LexState.endInput, eofPiece]
      have hi2 : Inv ((t.restore s1).deliver eofPiece [] st) := by
        rw [Inv, hlex]; exact a3
      obtain ⟨f1, f2⟩ := final_call F ((t.restore s1).deliver eofPiece [] st) co' d3 hi2 rfl
      have g := run_ghost (progOf F co').erase ((t.restore s1).deliver eofPiece [] st) rfl
      rw [hlex] at f1 f2
      have hex : ((t.restore s1).deliver eofPiece [] st).exprs = s1.exprs := rfl
      rw [hex] at f1 f2
      simp only [callThen, d2, hb, Bool.false_eq_true, ↓reduceIte, PSt.deliverRest, PSt.endInput]
      rw [hW]
      refine ⟨f1, f2, ?_, ?_⟩
      · rw [g.2.2.1]
        simp [PState.deliver, PState.restore, htr]
      · rcases dst with h | h
        · exact .inl h
        · right; subst h; simp
  | cons c rest ih =>
    intro t co tr G0 hco hTL hi hfin heof hfut htr hinv
    rcases common t co tr c (rest ++ [eofPiece]) G0 hco hTL hi hfin hfut htr hinv with
      ⟨c1, c2, c3, c4⟩ | ⟨st, co', s1, G', d1, d2, d3, d4, d5, dG, dst, d6⟩
    · refine ⟨G0, Nat.le_refl _, ?_⟩
      have hb : ((PSt.parseTokens F ⟨t.lex, t.exprs, co⟩).1 == Status.err) = true := by rw [c1]; rfl
      simp only [callThen, hb, ↓reduceIte]
      rw [c2]
      exact ⟨c1, c3, c4.symm, by first | exact .inl rfl | exact .inl trivial⟩
    · have hb : (st == Status.err) = false := by cases st <;> simp_all
      obtain ⟨a1, a2, a3, a4⟩ := addNextStream_read s1.lex c d5
      have hlex : ((t.restore s1).deliver c (rest ++ [eofPiece]) st).lex = s1.lex.addNextStream c := by
        simp only [PState.deliver, PState.restore, heof]
        have : (rest ++ [eofPiece]).isEmpty = false := by cases rest <;> rfl
        simp only [this, Bool.and_false]
        exact finished_false_eq _ a4
      have htr2 : ((t.restore s1).deliver c (rest ++ [eofPiece]) st).trace = (st :: tr).reverse := by
        simp [PState.deliver, PState.restore, htr]
      obtain ⟨G, hG, x1, x2, x3, x4⟩ := ih ((t.restore s1).deliver c (rest ++ [eofPiece]) st) co' (st :: tr) G' d3 d4
        (by rw [Inv, hlex]; exact a3) (by rw [hlex]; exact a4) heof rfl htr2 d6
      refine ⟨G, Nat.le_trans dG hG, ?_⟩
      rw [hlex] at x1 x2 x3 x4
      have hex : ((t.restore s1).deliver c (rest ++ [eofPiece]) st).exprs = s1.exprs := rfl
      rw [hex] at x1 x2 x3 x4
      have hni : (⟨s1.lex, s1.exprs, co'⟩ : PSt).newInput c = ⟨s1.lex.addNextStream c, s1.exprs, co'⟩ := rfl
      rw [callThen, d2]
      simp only [hb, Bool.false_eq_true, ↓reduceIte]
      rw [deliverRest_cons_eq, hni]
      refine ⟨x1, x2, x3, ?_⟩
      rcases x4 with h | h
      · rcases dst with h' | h'
        · exact .inl (h.trans h')
        · right
          subst h'
          exact trace_mem_callThen F _ _ _ _ (List.mem_cons_self ..)
      · exact .inr h

theorem parseChunks_run_exprs (cs : List (List Char)) :
    (parseChunks cs).exprs = (run (topLoop (fuelFor cs)) (initState LexState.init cs)).2.exprs := by
  unfold parseChunks parseChunksFrom
  cases run (topLoop (fuelFor cs)) (initState LexState.init cs) with
  | mk fin s => cases fin <;> rfl

theorem stepwise_of_fuel_cons (c : List Char) (rest : List (List Char)) (F : Nat) (hF : fuelFor (c :: rest) ≤ F)
    (hfe : ∀ G, fuelFor (c :: rest) ≤ G → run (topLoop G) (initState LexState.init (c :: rest)) =
      run (topLoop (fuelFor (c :: rest))) (initState LexState.init (c :: rest))) (p : PSt) :
    (p.parseBy F .resetAdd (c :: rest)).1.status = (parseChunks (c :: rest)).status ∧
    (p.parseBy F .resetAdd (c :: rest)).1.exprs = (parseChunks (c :: rest)).exprs ∧
    (p.parseBy F .resetAdd (c :: rest)).1.trace = (parseChunks (c :: rest)).trace := by
  obtain ⟨hst, htr⟩ := parseChunks_run (c :: rest)
  have hex := parseChunks_run_exprs (c :: rest)
  obtain ⟨a1, a2, a3, a4, a5, a6⟩ := resetAddNewInput_lex p c
  have hl : (initState LexState.init (c :: rest)).lex = (p.resetAddNewInput c).lex := rfl
  have hp : p.resetAddNewInput c = ⟨(initState LexState.init (c :: rest)).lex, (initState LexState.init (c :: rest)).exprs, none⟩ := rfl
  have hinv : StageInv (fun G => run (topLoop G) (initState LexState.init (c :: rest))) F
      (initState LexState.init (c :: rest)) (progOf F none) := by
    refine ⟨by simp [progOf, erase_topLoop], fun d => ⟨S.topLoop (F + d), .top F, by simp [erase_topLoop]⟩⟩
  obtain ⟨G, hG, x1, x2, x3, _⟩ := stages F _ rest (initState LexState.init (c :: rest)) none [] F (by simp)
    (.top F (Nat.le_refl _)) (by rw [Inv, hl]; exact a3) (by rw [hl]; exact a4) rfl rfl rfl hinv
  simp only [hfe G (Nat.le_trans hF hG)] at x1 x2 x3
  rw [parseBy_cons_callThen, hp, x1, x2, x3, hst, hex, htr]
  exact ⟨rfl, rfl, rfl⟩

/-- **If the fuel of the delivery model is enough for a text** (its run is the same run with any
larger fuel), **the call-by-call protocol computes `parseChunks` of that text** — status,
expressions, trace — whatever the outcome, errors included, from every parser state, with every
per-iterator fuel `F ≥ fuelFor cs`. -/
theorem stepwise_of_fuel (cs : List (List Char)) (F : Nat) (hF : fuelFor cs ≤ F)
    (hfe : ∀ G, fuelFor cs ≤ G → run (topLoop G) (initState LexState.init cs) =
      run (topLoop (fuelFor cs)) (initState LexState.init cs)) (p : PSt) :
    (p.parseBy F .resetAdd cs).1.status = (parseChunks cs).status ∧
    (p.parseBy F .resetAdd cs).1.exprs = (parseChunks cs).exprs ∧
    (p.parseBy F .resetAdd cs).1.trace = (parseChunks cs).trace := by
  cases cs with
  | nil => exact stepwise_of_fuel_cons [] [] F hF hfe p
  | cons c rest => exact stepwise_of_fuel_cons c rest F hF hfe p

theorem stepwise_nodone_cons (c : List Char) (rest : List (List Char)) (p : PSt)
    (hnd : Status.done ∉ (p.parseBy (fuelFor (c :: rest)) .resetAdd (c :: rest)).1.trace) :
    (p.parseBy (fuelFor (c :: rest)) .resetAdd (c :: rest)).1.status = (parseChunks (c :: rest)).status ∧
    (p.parseBy (fuelFor (c :: rest)) .resetAdd (c :: rest)).1.exprs = (parseChunks (c :: rest)).exprs ∧
    (p.parseBy (fuelFor (c :: rest)) .resetAdd (c :: rest)).1.trace = (parseChunks (c :: rest)).trace := by
  obtain ⟨hst, htr⟩ := parseChunks_run (c :: rest)
  have hex := parseChunks_run_exprs (c :: rest)
  obtain ⟨a1, a2, a3, a4, a5, a6⟩ := resetAddNewInput_lex p c
  have hl : (initState LexState.init (c :: rest)).lex = (p.resetAddNewInput c).lex := rfl
  have hp : p.resetAddNewInput c = ⟨(initState LexState.init (c :: rest)).lex, (initState LexState.init (c :: rest)).exprs, none⟩ := rfl
  have hinv : StageInv (fun G => run (topLoop G) (initState LexState.init (c :: rest))) (fuelFor (c :: rest))
      (initState LexState.init (c :: rest)) (progOf (fuelFor (c :: rest)) none) := by
    refine ⟨by simp [progOf, erase_topLoop], fun d => ⟨S.topLoop (fuelFor (c :: rest) + d), .top _, by simp [erase_topLoop]⟩⟩
  obtain ⟨G, hG, x1, x2, x3, x4⟩ := stages (fuelFor (c :: rest)) _ rest (initState LexState.init (c :: rest)) none []
    (fuelFor (c :: rest)) (by simp) (.top _ (Nat.le_refl _)) (by rw [Inv, hl]; exact a3) (by rw [hl]; exact a4) rfl rfl rfl hinv
  rw [parseBy_cons_callThen, hp] at hnd ⊢
  rcases x4 with h | h
  · subst h
    rw [x1, x2, x3, hst, hex, htr]
    exact ⟨rfl, rfl, rfl⟩
  · exact absurd h hnd

/-- **Up to the first `done`, all three components, errors included**: with the fuel of the delivery
model, if no call before the last answers `done` the protocol gives status, expressions and trace of
`parseChunks`, whatever the outcome. -/
theorem stepwise_nodone (cs : List (List Char)) (p : PSt)
    (hnd : Status.done ∉ (p.parseBy (fuelFor cs) .resetAdd cs).1.trace) :
    (p.parseBy (fuelFor cs) .resetAdd cs).1.status = (parseChunks cs).status ∧
    (p.parseBy (fuelFor cs) .resetAdd cs).1.exprs = (parseChunks cs).exprs ∧
    (p.parseBy (fuelFor cs) .resetAdd cs).1.trace = (parseChunks cs).trace := by
  cases cs with
  | nil => exact stepwise_nodone_cons [] [] p hnd
  | cons c rest => exact stepwise_nodone_cons c rest p hnd

end ZygoVerif.Parser
