/-
C02, execution half — Stage B: the pure control fragment F0c.

F0c = literals (int, bool, string, `()`), `begin`, `cond` (any number of arms,
default), `and`, `or` (any arity, including none), nested arbitrarily.

* `F0c`, `F0cList`, `F0cArms`  — the fragment (a decidable syntactic class);
* `segment_F0c`               — the segment lemma: the code `compile` produces for an F0c
  expression, embedded anywhere, pushes exactly the value `Ref.eval` computes (`Pushes`);
* `compile_total_F0c`         — `compile` succeeds on F0c, without touching generator state;
* `refEval_total_F0c`         — `Ref.eval` yields a value on F0c, with fuel `≥ esize e`, and
  leaves the state alone.

An empty `begin` is excluded: `GenerateBegin` emits no code for it (known finding C02-K2:
`(+ 1 (cond true (begin) 2))` is a host panic), the reference evaluator yields nil.
-/
import ZygoVerif.Proofs.SimControl
import ZygoVerif.Spec.RefEval
set_option linter.unusedSimpArgs false
namespace ZygoVerif.Sim
open ZygoVerif.Core ZygoVerif.VM

/-! ## The generator monad: inversion of successful runs -/

theorem g_pure_ok {α} {a : α} {gs : GS} {r : α × GS} :
    (pure a : G α).run gs = .ok r ↔ r = (a, gs) := by
  show Except.ok (a, gs) = Except.ok r ↔ _
  constructor
  · intro h; injection h with h; exact h.symm
  · intro h; rw [h]

theorem g_bind_ok {α β} {x : G α} {f : α → G β} {gs : GS} {r : β × GS} :
    (x >>= f).run gs = .ok r ↔ ∃ a gs1, x.run gs = .ok (a, gs1) ∧ (f a).run gs1 = .ok r := by
  show (x.run gs >>= fun p => (f p.1).run p.2) = .ok r ↔ _
  cases h : x.run gs with
  | error e => simp [bind, Except.bind]
  | ok p =>
    obtain ⟨a, gs1⟩ := p
    simp only [bind, Except.bind, Except.ok.injEq, Prod.mk.injEq]
    constructor
    · intro h; exact ⟨a, gs1, ⟨rfl, rfl⟩, h⟩
    · rintro ⟨a', gs', ⟨rfl, rfl⟩, h⟩; exact h

/-! ## The fragment -/

mutual
/-- the pure control fragment -/
def F0c : Expr → Bool
  | .int _ | .bool _ | .str _ | .nilLit => true
  | .begin_ es => F0cList es
  | .cond arms d => F0cArms arms && F0c d
  | .and_ es => F0cList es
  | .or_ es => F0cList es
  | _ => false
def F0cList : List Expr → Bool
  | [] => true
  | e :: es => F0c e && F0cList es
def F0cArms : List (Expr × Expr) → Bool
  | [] => true
  | (p, b) :: r => F0c p && F0c b && F0cArms r
end

/-! ## `Pushes` code is never empty -/

theorem Pushes.ne_nil {code : List Instr} {v : Val} (h : Pushes code v) : code ≠ [] := by
  rintro rfl
  let s : St := { fns := [{}], scopes := [] }
  have hs : Seg s [] [] [] := ⟨rfl, rfl, rfl⟩
  obtain ⟨k, hk, H⟩ := h s [] [] hs
  have hk0 : k = 0 := by simpa using hk
  subst hk0
  have := H 1 (Nat.le_refl _) { curfunc := 0, pc := 0, susp := 0, addrSize := 0, linearSize := 0, dataSize := 0 }
  rw [runLoop_halt s 0 _ (Or.inr (by decide)), runLoop_halt _ 0 _ (Or.inr (by show (0:Int) + ((0:Nat):Int) ≥ 0; decide))] at this
  have hd := congrArg (fun p => p.2.data.length) this
  simp [s] at hd

/-! ## The segment lemma, by induction on the reference evaluator's fuel -/

/-- `code` agrees with a reference result obtained from state `rs`: if that result is a
value, the state is unchanged and `code` pushes that value. -/
def Agrees (code : List Instr) (res : Ref.R Val) (rs : Ref.St) : Prop :=
  ∀ v rs', res = .ok v rs' → rs' = rs ∧ Pushes code v

def ClaimE (n : Nat) : Prop :=
  ∀ e, F0c e = true → ∀ isFn c gs r, (compile isFn c e).run gs = .ok r →
    ∀ env rs, Agrees r.1.1 (Ref.eval n e env rs) rs

def ClaimB (n : Nat) : Prop :=
  ∀ es, es ≠ [] → F0cList es = true → ∀ isFn c gs r, (compileBegin isFn c es).run gs = .ok r →
    ∀ env rs, Agrees r.1.1 (Ref.evalBegin n es env rs) rs

def ClaimC (n : Nat) : Prop :=
  ∀ arms d, F0cArms arms = true → F0c d = true → ∀ isFn c gs r gs0 rd,
    (compileArms isFn c arms).run gs = .ok r → (compile isFn c d).run gs0 = .ok rd →
    ∀ env rs, Agrees (asmCond r.1 rd.1.1) (Ref.evalCond n arms d env rs) rs

def ClaimS (n : Nat) : Prop :=
  ∀ isOr es, F0cList es = true → ∀ isFn c gs r, (compileSC isFn c es).run gs = .ok r →
    ∀ env rs, Agrees (asmSC isOr r.1) (Ref.evalAndOr n isOr es env rs) rs

theorem compileSC_length {isFn c} : ∀ {es gs r}, (compileSC isFn c es).run gs = .ok r → r.1.length = es.length
  | [], gs, r, h => by
    rw [compileSC] at h
    simp only [g_pure_ok] at h
    subst h; rfl
  | [e], gs, r, h => by
    rw [compileSC] at h
    simp only [g_bind_ok, g_pure_ok] at h
    obtain ⟨a, gs1, _, rfl⟩ := h; rfl
  | e :: e' :: es, gs, r, h => by
    rw [compileSC] at h
    · simp only [g_bind_ok, g_pure_ok] at h
      obtain ⟨rest, gs1, h1, a, gs2, _, rfl⟩ := h
      have := compileSC_length h1
      simp only [List.length_cons] at this ⊢
      omega
    · intro hh; cases hh

theorem claimE_succ {n : Nat} (hB : ClaimB n) (hC : ClaimC n) (hS : ClaimS n) : ClaimE (n + 1) := by
  intro e he isFn c gs r hc env rs v rs' hr
  cases e with
  | int x =>
    rw [compile] at hc; simp only [g_pure_ok] at hc; subst hc
    rw [Ref.eval] at hr; injection hr with h1 h2
    subst h1 h2; exact ⟨rfl, pushes_push _⟩
  | bool x =>
    rw [compile] at hc; simp only [g_pure_ok] at hc; subst hc
    rw [Ref.eval] at hr; injection hr with h1 h2
    subst h1 h2; exact ⟨rfl, pushes_push _⟩
  | str x =>
    rw [compile] at hc; simp only [g_pure_ok] at hc; subst hc
    rw [Ref.eval] at hr; injection hr with h1 h2
    subst h1 h2; exact ⟨rfl, pushes_push _⟩
  | nilLit =>
    rw [compile] at hc; simp only [g_pure_ok] at hc; subst hc
    rw [Ref.eval] at hr; injection hr with h1 h2
    subst h1 h2; exact ⟨rfl, pushes_push _⟩
  | begin_ es =>
    rw [F0c] at he
    cases es with
    | nil =>
      -- (begin) with no statements pushes nil (fix C04-02); the reference evaluator yields nil
      rw [compile] at hc; simp only [g_pure_ok] at hc; subst hc
      rw [Ref.eval] at hr
      cases n with
      | zero => rw [Ref.evalBegin] at hr; cases hr
      | succ m =>
        rw [Ref.evalBegin] at hr
        · injection hr with h1 h2
          subst h1 h2; exact ⟨rfl, pushes_push _⟩
        · omega
    | cons e0 es0 =>
      rw [compile] at hc
      · rw [Ref.eval] at hr
        exact hB (e0 :: es0) (by simp) he isFn c gs r hc env rs v rs' hr
      · intro hh; cases hh
  | cond arms d =>
    rw [F0c] at he
    simp only [Bool.and_eq_true] at he
    rw [compile] at hc
    simp only [g_bind_ok, g_pure_ok] at hc
    obtain ⟨rd, gs1, hd, as, gs2, has, rfl⟩ := hc
    rw [Ref.eval] at hr
    exact hC arms d he.1 he.2 isFn c gs1 (as, gs2) gs (rd, gs1) has hd env rs v rs' hr
  | and_ es =>
    rw [F0c] at he
    rw [compile] at hc
    simp only [g_bind_ok, g_pure_ok] at hc
    obtain ⟨cs, gs1, hcs, rfl⟩ := hc
    rw [Ref.eval] at hr
    exact hS false es he isFn c gs (cs, gs1) hcs env rs v rs' hr
  | or_ es =>
    rw [F0c] at he
    rw [compile] at hc
    simp only [g_bind_ok, g_pure_ok] at hc
    obtain ⟨cs, gs1, hcs, rfl⟩ := hc
    rw [Ref.eval] at hr
    exact hS true es he isFn c gs (cs, gs1) hcs env rs v rs' hr
  | _ => simp [F0c] at he

theorem claimB_succ {n : Nat} (hE : ClaimE n) (hB : ClaimB n) : ClaimB (n + 1) := by
  intro es hne hes isFn c gs r hc env rs v rs' hr
  match es, hne with
  | [e], _ =>
    rw [F0cList] at hes
    simp only [Bool.and_eq_true] at hes
    rw [compileBegin] at hc
    rw [Ref.evalBegin] at hr
    exact hE e hes.1 isFn c gs r hc env rs v rs' hr
  | e :: e' :: es', _ =>
    rw [F0cList] at hes
    simp only [Bool.and_eq_true] at hes
    rw [compileBegin] at hc
    · simp only [g_bind_ok, g_pure_ok] at hc
      obtain ⟨ra, gs1, ha, rb, gs2, hb, rfl⟩ := hc
      rw [Ref.evalBegin] at hr
      · cases h1 : Ref.eval n e env rs with
        | ok v1 rs1 =>
          rw [h1] at hr
          obtain ⟨rfl, pa⟩ := hE e hes.1 isFn _ gs (ra, gs1) ha env rs v1 rs1 h1
          obtain ⟨rfl, pb⟩ := hB (e' :: es') (by simp) hes.2 isFn c gs1 (rb, gs2) hb env rs1 v rs' hr
          refine ⟨rfl, ?_⟩
          have hne : ra.1.isEmpty = false := by
            simpa [List.isEmpty_eq_false_iff] using pa.ne_nil
          simp only [hne, Bool.false_eq_true, if_false]
          exact pushes_seq_pop pa pb
        | err s => rw [h1] at hr; cases hr
        | brk l s => rw [h1] at hr; cases hr
        | cont l s => rw [h1] at hr; cases hr
        | timeout => rw [h1] at hr; cases hr
      · intro hh; cases hh
    · intro hh; cases hh

theorem claimC_succ {n : Nat} (hE : ClaimE n) (hC : ClaimC n) : ClaimC (n + 1) := by
  intro arms d harms hd isFn c gs r gs0 rd hc hcd env rs v rs' hr
  match arms with
  | [] =>
    rw [compileArms] at hc; simp only [g_pure_ok] at hc; subst hc
    rw [Ref.evalCond] at hr
    simp only [asmCond]
    exact hE d hd isFn c gs0 rd hcd env rs v rs' hr
  | (p, b) :: arms' =>
    rw [F0cArms] at harms
    simp only [Bool.and_eq_true] at harms
    rw [compileArms] at hc
    simp only [g_bind_ok, g_pure_ok] at hc
    obtain ⟨rest, gs1, hrest, rp, gs2, hp, rb, gs3, hb, rfl⟩ := hc
    rw [Ref.evalCond] at hr
    simp only [asmCond]
    cases h1 : Ref.eval n p env rs with
    | ok v1 rs1 =>
      rw [h1] at hr
      obtain ⟨rfl, pp⟩ := hE p harms.1.1 isFn _ gs1 (rp, gs2) hp env rs v1 rs1 h1
      simp only at hr
      by_cases ht : truthy v1 = true
      · rw [if_pos ht] at hr
        obtain ⟨rfl, pb⟩ := hE b harms.1.2 isFn c gs2 (rb, gs3) hb env rs1 v rs' hr
        exact ⟨rfl, pushes_cond_true pp ht pb⟩
      · rw [if_neg ht] at hr
        obtain ⟨rfl, pr⟩ := hC arms' d harms.2 hd isFn c gs (rest, gs1) gs0 rd hrest hcd env rs1 v rs' hr
        exact ⟨rfl, pushes_cond_false pp (by simpa using ht) pr⟩
    | err s => rw [h1] at hr; cases hr
    | brk l s => rw [h1] at hr; cases hr
    | cont l s => rw [h1] at hr; cases hr
    | timeout => rw [h1] at hr; cases hr

theorem claimS_succ {n : Nat} (hE : ClaimE n) (hS : ClaimS n) : ClaimS (n + 1) := by
  intro isOr es hes isFn c gs r hc env rs v rs' hr
  match es with
  | [] =>
    rw [compileSC] at hc; simp only [g_pure_ok] at hc; subst hc
    rw [Ref.evalAndOr] at hr
    · injection hr with h1 h2
      subst h1 h2
      exact ⟨rfl, pushes_push _⟩
    · omega
  | [e] =>
    rw [F0cList] at hes
    simp only [Bool.and_eq_true] at hes
    rw [compileSC] at hc
    simp only [g_bind_ok, g_pure_ok] at hc
    obtain ⟨ra, gs1, ha, rfl⟩ := hc
    rw [Ref.evalAndOr] at hr
    exact hE e hes.1 isFn c gs (ra, gs1) ha env rs v rs' hr
  | e :: e' :: es' =>
    rw [F0cList] at hes
    simp only [Bool.and_eq_true] at hes
    rw [compileSC] at hc
    · simp only [g_bind_ok, g_pure_ok] at hc
      obtain ⟨rest, gs1, hrest, ra, gs2, ha, rfl⟩ := hc
      have hlen := compileSC_length hrest
      obtain ⟨r0, rs0, hr0⟩ : ∃ r0 rs0, rest = r0 :: rs0 := by
        cases rest with
        | nil => simp at hlen
        | cons r0 rs0 => exact ⟨r0, rs0, rfl⟩
      rw [Ref.evalAndOr] at hr
      · simp only [hr0, asmSC]
        rw [← hr0]
        cases h1 : Ref.eval n e env rs with
        | ok v1 rs1 =>
          rw [h1] at hr
          obtain ⟨rfl, pa⟩ := hE e hes.1 isFn _ gs1 (ra, gs2) ha env rs v1 rs1 h1
          simp only at hr
          by_cases ht : (truthy v1 == isOr) = true
          · rw [if_pos ht] at hr
            injection hr with h2 h3
            subst h2 h3
            exact ⟨rfl, pushes_sc_stop pa (by simpa using ht)⟩
          · rw [if_neg ht] at hr
            obtain ⟨rfl, pr⟩ := hS isOr (e' :: es') hes.2 isFn c gs (rest, gs1) hrest env rs1 v rs' hr
            exact ⟨rfl, pushes_sc_go pa (by simpa using ht) pr⟩
        | err s => rw [h1] at hr; cases hr
        | brk l s => rw [h1] at hr; cases hr
        | cont l s => rw [h1] at hr; cases hr
        | timeout => rw [h1] at hr; cases hr
      · intro hh; cases hh
    · intro hh; cases hh

theorem claims_zero : ClaimE 0 ∧ ClaimB 0 ∧ ClaimC 0 ∧ ClaimS 0 := by
  refine ⟨?_, ?_, ?_, ?_⟩
  · intro e _ isFn c gs r _ env rs v rs' hr
    rw [Ref.eval] at hr; cases hr
  · intro es _ _ isFn c gs r _ env rs v rs' hr
    rw [Ref.evalBegin] at hr; cases hr
  · intro arms d _ _ isFn c gs r gs0 rd _ _ env rs v rs' hr
    rw [Ref.evalCond] at hr; cases hr
  · intro isOr es _ isFn c gs r _ env rs v rs' hr
    rw [Ref.evalAndOr] at hr; cases hr

theorem claims : ∀ n, ClaimE n ∧ ClaimB n ∧ ClaimC n ∧ ClaimS n
  | 0 => claims_zero
  | n + 1 => by
    obtain ⟨hE, hB, hC, hS⟩ := claims n
    exact ⟨claimE_succ hB hC hS, claimB_succ hE hB, claimC_succ hE hC, claimS_succ hE hS⟩

/-- **Segment lemma for F0c.** Whatever code `compile` produces for an F0c expression (any
generator context, any generator state), and whatever value the reference evaluator
returns for it (any fuel, any environment, any state): the reference state is unchanged and
the code, embedded at any offset of any compiled function, runs from its first instruction
to just behind its last one within `code.length` VM instructions, pushing exactly that value
and changing nothing else (`Pushes`). -/
theorem segment_F0c (e : Expr) (he : F0c e = true) (isFn : Nat → Bool) (c : Ctx) (gs : GS)
    (code : List Instr) (t : Bool) (gs' : GS) (hc : (compile isFn c e).run gs = .ok ((code, t), gs'))
    (n env : Nat) (rs : Ref.St) (v : Val) (rs' : Ref.St) (hr : Ref.eval n e env rs = .ok v rs') :
    rs' = rs ∧ Pushes code v :=
  (claims n).1 e he isFn c gs ((code, t), gs') hc env rs v rs' hr

/-- the same for a statement list (`GenerateBegin`, the top level of a program text) -/
theorem segment_F0c_begin (es : List Expr) (hne : es ≠ []) (he : F0cList es = true) (isFn : Nat → Bool) (c : Ctx) (gs : GS)
    (code : List Instr) (t : Bool) (gs' : GS) (hc : (compileBegin isFn c es).run gs = .ok ((code, t), gs'))
    (n env : Nat) (rs : Ref.St) (v : Val) (rs' : Ref.St) (hr : Ref.evalBegin n es env rs = .ok v rs') :
    rs' = rs ∧ Pushes code v :=
  (claims n).2.1 es hne he isFn c gs ((code, t), gs') hc env rs v rs' hr

/-! ## `compile` is total on F0c and leaves the generator state alone -/

mutual
theorem compile_total : ∀ (e : Expr), F0c e = true → ∀ isFn c gs, ∃ code, (compile isFn c e).run gs = .ok ((code, c.tail), gs)
  | .int v, _, isFn, c, gs => ⟨_, by rw [compile]; rfl⟩
  | .bool v, _, isFn, c, gs => ⟨_, by rw [compile]; rfl⟩
  | .str v, _, isFn, c, gs => ⟨_, by rw [compile]; rfl⟩
  | .nilLit, _, isFn, c, gs => ⟨_, by rw [compile]; rfl⟩
  | .begin_ es, he, isFn, c, gs => by
    rw [F0c] at he
    cases es with
    | nil => exact ⟨[.push .nil], by rw [compile]; rfl⟩
    | cons e0 es0 =>
      rw [compile]
      · exact compileBegin_total (e0 :: es0) (by simp) he isFn c gs
      · intro hh; cases hh
  | .cond arms d, he, isFn, c, gs => by
    rw [F0c] at he
    simp only [Bool.and_eq_true] at he
    obtain ⟨dc, hd⟩ := compile_total d he.2 isFn c gs
    obtain ⟨as, has⟩ := compileArms_total arms he.1 isFn c gs
    refine ⟨asmCond as dc, ?_⟩
    rw [compile]
    simp only [g_bind_ok, g_pure_ok]
    exact ⟨_, _, hd, _, _, has, rfl⟩
  | .and_ es, he, isFn, c, gs => by
    rw [F0c] at he
    obtain ⟨cs, hcs⟩ := compileSC_total es he isFn c gs
    refine ⟨asmSC false cs, ?_⟩
    rw [compile]
    simp only [g_bind_ok, g_pure_ok]
    exact ⟨_, _, hcs, rfl⟩
  | .or_ es, he, isFn, c, gs => by
    rw [F0c] at he
    obtain ⟨cs, hcs⟩ := compileSC_total es he isFn c gs
    refine ⟨asmSC true cs, ?_⟩
    rw [compile]
    simp only [g_bind_ok, g_pure_ok]
    exact ⟨_, _, hcs, rfl⟩
  | .sym _, he, _, _, _ | .arr _, he, _, _, _ | .call _ _, he, _, _, _ | .def_ _ _, he, _, _, _
  | .set_ _ _, he, _, _, _ | .let_ _ _ _, he, _, _, _ | .newScope _, he, _, _, _
  | .for_ _ _ _ _ _, he, _, _, _ | .break_ _, he, _, _, _ | .continue_ _, he, _, _, _
  | .fn _ _ _, he, _, _, _ | .defn _ _ _ _, he, _, _, _ | .assign _ _, he, _, _, _ | .bad _, he, _, _, _ => by
    simp [F0c] at he
theorem compileBegin_total : ∀ (es : List Expr), es ≠ [] → F0cList es = true → ∀ isFn c gs, ∃ code, (compileBegin isFn c es).run gs = .ok ((code, c.tail), gs)
  | [], hne, _, _, _, _ => absurd rfl hne
  | [e], _, he, isFn, c, gs => by
    rw [F0cList] at he
    simp only [Bool.and_eq_true] at he
    rw [compileBegin]
    exact compile_total e he.1 isFn c gs
  | e :: e' :: es, _, he, isFn, c, gs => by
    rw [F0cList] at he
    simp only [Bool.and_eq_true] at he
    obtain ⟨a, ha⟩ := compile_total e he.1 isFn { c with tail := false } gs
    obtain ⟨b, hb⟩ := compileBegin_total (e' :: es) (by simp) he.2 isFn c gs
    rw [compileBegin]
    · simp only [g_bind_ok, g_pure_ok]
      exact ⟨_, ⟨_, _, ha, _, _, hb, rfl⟩⟩
    · intro hh; cases hh
theorem compileSC_total : ∀ (es : List Expr), F0cList es = true → ∀ isFn c gs, ∃ cs, (compileSC isFn c es).run gs = .ok (cs, gs)
  | [], _, isFn, c, gs => ⟨[], by rw [compileSC]; rfl⟩
  | [e], he, isFn, c, gs => by
    rw [F0cList] at he
    simp only [Bool.and_eq_true] at he
    obtain ⟨a, ha⟩ := compile_total e he.1 isFn c gs
    rw [compileSC]
    simp only [g_bind_ok, g_pure_ok]
    exact ⟨_, _, _, ha, rfl⟩
  | e :: e' :: es, he, isFn, c, gs => by
    rw [F0cList] at he
    simp only [Bool.and_eq_true] at he
    obtain ⟨a, ha⟩ := compile_total e he.1 isFn { c with tail := false } gs
    obtain ⟨b, hb⟩ := compileSC_total (e' :: es) he.2 isFn c gs
    rw [compileSC]
    · simp only [g_bind_ok, g_pure_ok]
      exact ⟨_, _, _, hb, _, _, ha, rfl⟩
    · intro hh; cases hh
theorem compileArms_total : ∀ (arms : List (Expr × Expr)), F0cArms arms = true → ∀ isFn c gs, ∃ as, (compileArms isFn c arms).run gs = .ok (as, gs)
  | [], _, isFn, c, gs => ⟨[], by rw [compileArms]; rfl⟩
  | (p, b) :: arms, he, isFn, c, gs => by
    rw [F0cArms] at he
    simp only [Bool.and_eq_true] at he
    obtain ⟨pc, hp⟩ := compile_total p he.1.1 isFn { c with tail := false } gs   -- the test inherits `scopes` since fix C04-06
    obtain ⟨bc, hb⟩ := compile_total b he.1.2 isFn c gs
    obtain ⟨r, hr⟩ := compileArms_total arms he.2 isFn c gs
    rw [compileArms]
    simp only [g_bind_ok, g_pure_ok]
    exact ⟨_, _, _, hr, _, _, hp, _, _, hb, rfl⟩
end


/-! ## The reference evaluator is total on F0c -/

mutual
/-- a fuel that suffices for the reference evaluator (the size of the expression) -/
def esize : Expr → Nat
  | .begin_ es => 1 + esizeList es
  | .cond arms d => 1 + esizeArms arms + esize d
  | .and_ es => 1 + esizeList es
  | .or_ es => 1 + esizeList es
  | _ => 1
def esizeList : List Expr → Nat
  | [] => 1
  | e :: es => 1 + esize e + esizeList es
def esizeArms : List (Expr × Expr) → Nat
  | [] => 1
  | (p, b) :: r => 1 + esize p + esize b + esizeArms r
end

theorem esize_pos (e : Expr) : 1 ≤ esize e := by
  cases e <;> simp [esize] <;> omega

mutual
theorem refEval_total : ∀ (e : Expr), F0c e = true → ∀ n, esize e ≤ n → ∀ env rs, ∃ v, Ref.eval n e env rs = .ok v rs
  | .int v, _, n, hn, env, rs => by
    obtain ⟨m, rfl⟩ : ∃ m, n = m + 1 := ⟨n - 1, by have := esize_pos (Expr.int v); omega⟩
    exact ⟨_, by rw [Ref.eval]⟩
  | .bool v, _, n, hn, env, rs => by
    obtain ⟨m, rfl⟩ : ∃ m, n = m + 1 := ⟨n - 1, by have := esize_pos (Expr.bool v); omega⟩
    exact ⟨_, by rw [Ref.eval]⟩
  | .str v, _, n, hn, env, rs => by
    obtain ⟨m, rfl⟩ : ∃ m, n = m + 1 := ⟨n - 1, by have := esize_pos (Expr.str v); omega⟩
    exact ⟨_, by rw [Ref.eval]⟩
  | .nilLit, _, n, hn, env, rs => by
    obtain ⟨m, rfl⟩ : ∃ m, n = m + 1 := ⟨n - 1, by have := esize_pos (Expr.nilLit); omega⟩
    exact ⟨_, by rw [Ref.eval]⟩
  | .begin_ es, he, n, hn, env, rs => by
    rw [F0c] at he
    rw [esize] at hn
    obtain ⟨m, rfl⟩ : ∃ m, n = m + 1 := ⟨n - 1, by omega⟩
    rw [Ref.eval]
    cases es with
    | nil =>
      rw [esizeList] at hn
      exact ⟨.nil, by rw [Ref.evalBegin]; omega⟩
    | cons e0 es0 => exact refBegin_total (e0 :: es0) (by simp) he m (by omega) env rs
  | .cond arms d, he, n, hn, env, rs => by
    rw [F0c] at he
    simp only [Bool.and_eq_true] at he
    rw [esize] at hn
    obtain ⟨m, rfl⟩ : ∃ m, n = m + 1 := ⟨n - 1, by omega⟩
    rw [Ref.eval]
    exact refCond_total arms he.1 d (refEval_total d he.2) m (by omega) env rs
  | .and_ es, he, n, hn, env, rs => by
    rw [F0c] at he
    rw [esize] at hn
    obtain ⟨m, rfl⟩ : ∃ m, n = m + 1 := ⟨n - 1, by omega⟩
    rw [Ref.eval]
    exact refSC_total es he false m (by omega) env rs
  | .or_ es, he, n, hn, env, rs => by
    rw [F0c] at he
    rw [esize] at hn
    obtain ⟨m, rfl⟩ : ∃ m, n = m + 1 := ⟨n - 1, by omega⟩
    rw [Ref.eval]
    exact refSC_total es he true m (by omega) env rs
  | .sym _, he, _, _, _, _ | .arr _, he, _, _, _, _ | .call _ _, he, _, _, _, _ | .def_ _ _, he, _, _, _, _
  | .set_ _ _, he, _, _, _, _ | .let_ _ _ _, he, _, _, _, _ | .newScope _, he, _, _, _, _
  | .for_ _ _ _ _ _, he, _, _, _, _ | .break_ _, he, _, _, _, _ | .continue_ _, he, _, _, _, _
  | .fn _ _ _, he, _, _, _, _ | .defn _ _ _ _, he, _, _, _, _ | .assign _ _, he, _, _, _, _ | .bad _, he, _, _, _, _ => by
    simp [F0c] at he
theorem refBegin_total : ∀ (es : List Expr), es ≠ [] → F0cList es = true → ∀ n, esizeList es ≤ n → ∀ env rs, ∃ v, Ref.evalBegin n es env rs = .ok v rs
  | [], hne, _, _, _, _, _ => absurd rfl hne
  | [e], _, he, n, hn, env, rs => by
    rw [F0cList] at he
    simp only [Bool.and_eq_true] at he
    rw [esizeList] at hn
    obtain ⟨m, rfl⟩ : ∃ m, n = m + 1 := ⟨n - 1, by omega⟩
    rw [Ref.evalBegin]
    exact refEval_total e he.1 m (by omega) env rs
  | e :: e' :: es, _, he, n, hn, env, rs => by
    rw [F0cList] at he
    simp only [Bool.and_eq_true] at he
    rw [esizeList] at hn
    obtain ⟨m, rfl⟩ : ∃ m, n = m + 1 := ⟨n - 1, by omega⟩
    obtain ⟨v1, h1⟩ := refEval_total e he.1 m (by omega) env rs
    rw [Ref.evalBegin]
    · rw [h1]
      exact refBegin_total (e' :: es) (by simp) he.2 m (by omega) env rs
    · intro hh; cases hh
theorem refCond_total : ∀ (arms : List (Expr × Expr)), F0cArms arms = true → ∀ d,
    (∀ n, esize d ≤ n → ∀ env rs, ∃ v, Ref.eval n d env rs = .ok v rs) →
    ∀ n, esizeArms arms + esize d ≤ n → ∀ env rs, ∃ v, Ref.evalCond n arms d env rs = .ok v rs
  | [], _, d, hd, n, hn, env, rs => by
    rw [esizeArms] at hn
    obtain ⟨m, rfl⟩ : ∃ m, n = m + 1 := ⟨n - 1, by omega⟩
    rw [Ref.evalCond]
    exact hd m (by omega) env rs
  | (p, b) :: arms, he, d, hd, n, hn, env, rs => by
    rw [F0cArms] at he
    simp only [Bool.and_eq_true] at he
    rw [esizeArms] at hn
    obtain ⟨m, rfl⟩ : ∃ m, n = m + 1 := ⟨n - 1, by omega⟩
    obtain ⟨v1, h1⟩ := refEval_total p he.1.1 m (by omega) env rs
    rw [Ref.evalCond, h1]
    simp only
    split
    · exact refEval_total b he.1.2 m (by omega) env rs
    · exact refCond_total arms he.2 d hd m (by omega) env rs
theorem refSC_total : ∀ (es : List Expr), F0cList es = true → ∀ isOr n, esizeList es ≤ n → ∀ env rs, ∃ v, Ref.evalAndOr n isOr es env rs = .ok v rs
  | [], _, isOr, n, hn, env, rs => by
    rw [esizeList] at hn
    obtain ⟨m, rfl⟩ : ∃ m, n = m + 1 := ⟨n - 1, by omega⟩
    refine ⟨.bool (!isOr), ?_⟩
    rw [Ref.evalAndOr]
    omega
  | [e], he, isOr, n, hn, env, rs => by
    rw [F0cList] at he
    simp only [Bool.and_eq_true] at he
    rw [esizeList] at hn
    obtain ⟨m, rfl⟩ : ∃ m, n = m + 1 := ⟨n - 1, by omega⟩
    rw [Ref.evalAndOr]
    exact refEval_total e he.1 m (by omega) env rs
  | e :: e' :: es, he, isOr, n, hn, env, rs => by
    rw [F0cList] at he
    simp only [Bool.and_eq_true] at he
    rw [esizeList] at hn
    obtain ⟨m, rfl⟩ : ∃ m, n = m + 1 := ⟨n - 1, by omega⟩
    obtain ⟨v1, h1⟩ := refEval_total e he.1 m (by omega) env rs
    rw [Ref.evalAndOr]
    · rw [h1]
      simp only
      split
      · exact ⟨_, rfl⟩
      · exact refSC_total (e' :: es) he.2 isOr m (by omega) env rs
    · intro hh; cases hh
end

/-! ## On F0c the reference evaluator never fails: it yields a value or runs out of fuel -/

/-- a value (state unchanged) or fuel exhaustion -/
def OkOrTimeout (res : Ref.R Val) (rs : Ref.St) : Prop := (∃ v, res = .ok v rs) ∨ res = .timeout

mutual
theorem refEval_noFail : ∀ (e : Expr), F0c e = true → ∀ n env rs, OkOrTimeout (Ref.eval n e env rs) rs
  | e, he, 0, env, rs => Or.inr (by rw [Ref.eval])
  | .int v, _, m + 1, env, rs => Or.inl ⟨_, by rw [Ref.eval]⟩
  | .bool v, _, m + 1, env, rs => Or.inl ⟨_, by rw [Ref.eval]⟩
  | .str v, _, m + 1, env, rs => Or.inl ⟨_, by rw [Ref.eval]⟩
  | .nilLit, _, m + 1, env, rs => Or.inl ⟨_, by rw [Ref.eval]⟩
  | .begin_ es, he, m + 1, env, rs => by
    rw [F0c] at he
    rw [Ref.eval]
    cases es with
    | nil =>
      cases m with
      | zero => exact Or.inr (by rw [Ref.evalBegin])
      | succ k => exact Or.inl ⟨.nil, by rw [Ref.evalBegin]; omega⟩
    | cons e0 es0 => exact refBegin_noFail (e0 :: es0) (by simp) he m env rs
  | .cond arms d, he, m + 1, env, rs => by
    rw [F0c] at he
    simp only [Bool.and_eq_true] at he
    rw [Ref.eval]
    exact refCond_noFail arms he.1 d (refEval_noFail d he.2) m env rs
  | .and_ es, he, m + 1, env, rs => by
    rw [F0c] at he
    rw [Ref.eval]
    exact refSC_noFail es he false m env rs
  | .or_ es, he, m + 1, env, rs => by
    rw [F0c] at he
    rw [Ref.eval]
    exact refSC_noFail es he true m env rs
  | .sym _, he, _ + 1, _, _ | .arr _, he, _ + 1, _, _ | .call _ _, he, _ + 1, _, _ | .def_ _ _, he, _ + 1, _, _
  | .set_ _ _, he, _ + 1, _, _ | .let_ _ _ _, he, _ + 1, _, _ | .newScope _, he, _ + 1, _, _
  | .for_ _ _ _ _ _, he, _ + 1, _, _ | .break_ _, he, _ + 1, _, _ | .continue_ _, he, _ + 1, _, _
  | .fn _ _ _, he, _ + 1, _, _ | .defn _ _ _ _, he, _ + 1, _, _ | .assign _ _, he, _ + 1, _, _ | .bad _, he, _ + 1, _, _ => by
    simp [F0c] at he
theorem refBegin_noFail : ∀ (es : List Expr), es ≠ [] → F0cList es = true → ∀ n env rs, OkOrTimeout (Ref.evalBegin n es env rs) rs
  | [], hne, _, _, _, _ => absurd rfl hne
  | es, _, _, 0, env, rs => Or.inr (by rw [Ref.evalBegin])
  | [e], _, he, m + 1, env, rs => by
    rw [F0cList] at he
    simp only [Bool.and_eq_true] at he
    rw [Ref.evalBegin]
    exact refEval_noFail e he.1 m env rs
  | e :: e' :: es, _, he, m + 1, env, rs => by
    rw [F0cList] at he
    simp only [Bool.and_eq_true] at he
    rw [Ref.evalBegin]
    · rcases refEval_noFail e he.1 m env rs with ⟨v1, h1⟩ | h1
      · rw [h1]
        exact refBegin_noFail (e' :: es) (by simp) he.2 m env rs
      · rw [h1]; exact Or.inr rfl
    · intro hh; cases hh
theorem refCond_noFail : ∀ (arms : List (Expr × Expr)), F0cArms arms = true → ∀ d,
    (∀ n env rs, OkOrTimeout (Ref.eval n d env rs) rs) →
    ∀ n env rs, OkOrTimeout (Ref.evalCond n arms d env rs) rs
  | arms, _, d, hd, 0, env, rs => Or.inr (by rw [Ref.evalCond])
  | [], _, d, hd, m + 1, env, rs => by
    rw [Ref.evalCond]
    exact hd m env rs
  | (p, b) :: arms, he, d, hd, m + 1, env, rs => by
    rw [F0cArms] at he
    simp only [Bool.and_eq_true] at he
    rw [Ref.evalCond]
    rcases refEval_noFail p he.1.1 m env rs with ⟨v1, h1⟩ | h1
    · rw [h1]
      simp only
      split
      · exact refEval_noFail b he.1.2 m env rs
      · exact refCond_noFail arms he.2 d hd m env rs
    · rw [h1]; exact Or.inr rfl
theorem refSC_noFail : ∀ (es : List Expr), F0cList es = true → ∀ isOr n env rs, OkOrTimeout (Ref.evalAndOr n isOr es env rs) rs
  | es, _, isOr, 0, env, rs => Or.inr (by rw [Ref.evalAndOr])
  | [], _, isOr, m + 1, env, rs => Or.inl ⟨.bool (!isOr), by rw [Ref.evalAndOr]; omega⟩
  | [e], he, isOr, m + 1, env, rs => by
    rw [F0cList] at he
    simp only [Bool.and_eq_true] at he
    rw [Ref.evalAndOr]
    exact refEval_noFail e he.1 m env rs
  | e :: e' :: es, he, isOr, m + 1, env, rs => by
    rw [F0cList] at he
    simp only [Bool.and_eq_true] at he
    rw [Ref.evalAndOr]
    · rcases refEval_noFail e he.1 m env rs with ⟨v1, h1⟩ | h1
      · rw [h1]
        simp only
        split
        · exact Or.inl ⟨_, rfl⟩
        · exact refSC_noFail (e' :: es) he.2 isOr m env rs
      · rw [h1]; exact Or.inr rfl
    · intro hh; cases hh
end

end ZygoVerif.Sim
