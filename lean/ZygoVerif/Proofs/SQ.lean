/-
Lemmas behind Props/C15: the marker discipline of template code. The code emitted for one
template element, run on any stack, leaves that stack untouched and pushes exactly the
values the element contributes (`Subst.items`).
-/
import ZygoVerif.Model.SQ
import ZygoVerif.Spec.Subst
namespace ZygoVerif.SQ
open ZygoVerif.Subst

/-- The bindings a host induces: an expression has a value when it compiles and runs. -/
def toBinding (H : Host) : Binding where
  value := fun e => if H.genOK e then H.eval e else none
  mkHash := H.mkHash

/-- run the code if the generator produced any -/
def exec (H : Host) (c : Option (List Instr)) (st : Stack) : Option Stack :=
  c.bind (fun c => run H c st)

theorem run_append (H : Host) (a b : List Instr) (st : Stack) :
    run H (a ++ b) st = (run H a st).bind (run H b) := by
  induction a generalizing st with
  | nil => simp [run]
  | cons i is ih =>
    simp only [List.cons_append, run]
    cases step H i st with
    | none => simp
    | some st' => simp [ih]

theorem exec_some (H : Host) (b : List Instr) : exec H (some b) = run H b := by
  funext st; rfl

theorem exec_seq (H : Host) (ca cb : Option (List Instr)) (st : Stack) :
    exec H (do let a ← ca; let b ← cb; some (a ++ b)) st = (exec H ca st).bind (exec H cb) := by
  cases ca with
  | none => simp [exec]
  | some a =>
    cases cb with
    | none => cases h : run H a st <;> simp [exec, h]
    | some b => simp [exec_some, run_append]

theorem ofList_eq (xs : List Sexp) : ofList xs = mkList xs := by
  induction xs with
  | nil => rfl
  | cons x xs ih => simp [ofList, mkList, ih]

theorem elems_eq (s : Sexp) : elems s = listToArray s := by
  induction s with
  | nil => rfl
  | cons h t _ iht =>
    simp only [elems, listToArray, iht]
    cases listToArray t <;> rfl
  | atom _ => rfl
  | arr _ _ => rfl
  | hash _ _ _ => rfl

theorem listToArray_mkList (xs : List Sexp) : listToArray (mkList xs) = some xs := by
  induction xs with
  | nil => rfl
  | cons x xs ih => simp [mkList, listToArray, ih]

theorem isList_mkList (xs : List Sexp) : isList (mkList xs) = true := by
  induction xs with
  | nil => rfl
  | cons x xs ih => simpa [mkList, isList] using ih

theorem popToMarker_vals (ys : List Sexp) (st : Stack) :
    popToMarker (ys.map Elem.val ++ .marker :: st) = some (ys, st) := by
  induction ys with
  | nil => rfl
  | cons y ys ih => simp [popToMarker, ih]

theorem popToMarker_pushAll (xs : List Sexp) (st : Stack) :
    popToMarker (pushAll xs (.marker :: st)) = some (xs.reverse, st) := by
  unfold pushAll
  exact popToMarker_vals _ _

theorem pushAll_append (a b : List Sexp) (st : Stack) :
    pushAll (a ++ b) st = pushAll b (pushAll a st) := by
  simp [pushAll]

theorem pushAll_single (v : Sexp) (st : Stack) : pushAll [v] st = .val v :: st := by
  simp [pushAll]

/-- marker; code; squash; explode — the per-element frame of arrays and hashes. -/
theorem exec_frame (H : Host) (c : Option (List Instr)) (xs : Option (List Sexp)) (st : Stack)
    (h : exec H c (.marker :: st) = xs.map (pushAll · (.marker :: st))) :
    exec H (c.map (fun a => .marker :: a ++ [.squash, .explode])) st = xs.map (pushAll · st) := by
  cases c with
  | none =>
    cases xs with
    | none => rfl
    | some xs => simp [exec] at h
  | some a =>
    simp only [exec, Option.bind_some, Option.map_some] at h ⊢
    simp only [run, step, Option.bind_some, run_append, h]
    cases xs with
    | none => rfl
    | some xs =>
      simp [popToMarker_pushAll, listToArray_mkList]

/-- marker; code; squash — the frame of a list template. -/
theorem exec_list_frame (H : Host) (c : Option (List Instr)) (xs : Option (List Sexp)) (st : Stack)
    (h : exec H c (.marker :: st) = xs.map (pushAll · (.marker :: st))) :
    exec H (c.map (fun a => .marker :: a ++ [.squash])) st
      = xs.map (fun xs => .val (mkList xs) :: st) := by
  cases c with
  | none =>
    cases xs with
    | none => rfl
    | some xs => simp [exec] at h
  | some a =>
    simp only [exec, Option.bind_some, Option.map_some] at h ⊢
    simp only [run, step, Option.bind_some, run_append, h]
    cases xs with
    | none => rfl
    | some xs => simp [popToMarker_pushAll]

theorem exec_vec_frame (H : Host) (c : Option (List Instr)) (xs : Option (List Sexp)) (st : Stack)
    (h : exec H c (.marker :: st) = xs.map (pushAll · (.marker :: st))) :
    exec H (c.map (fun a => .marker :: a ++ [.vectorize])) st
      = xs.map (fun xs => .val (.arr (mkList xs)) :: st) := by
  cases c with
  | none =>
    cases xs with
    | none => rfl
    | some xs => simp [exec] at h
  | some a =>
    simp only [exec, Option.bind_some, Option.map_some] at h ⊢
    simp only [run, step, Option.bind_some, run_append, h]
    cases xs with
    | none => rfl
    | some xs => simp [popToMarker_pushAll]

theorem exec_hash_frame (H : Host) (ty : String) (c : Option (List Instr)) (xs : Option (List Sexp))
    (st : Stack) (h : exec H c (.marker :: st) = xs.map (pushAll · (.marker :: st))) :
    exec H (c.map (fun a => .marker :: a ++ [.hashize ty])) st
      = (xs.bind (H.mkHash ty)).map (fun v => .val v :: st) := by
  cases c with
  | none =>
    cases xs with
    | none => rfl
    | some xs => simp [exec] at h
  | some a =>
    simp only [exec, Option.bind_some, Option.map_some] at h ⊢
    simp only [run, step, Option.bind_some, run_append, h]
    cases xs with
    | none => rfl
    | some xs =>
      simp only [Option.map_some, Option.bind_some, popToMarker_pushAll, List.reverse_reverse]
      cases H.mkHash ty xs <;> simp

/-- Sequencing two pieces of code that each push their items pushes the concatenation. -/
theorem exec_seq_items (H : Host) (ca cb : Option (List Instr)) (xa xb : Option (List Sexp))
    (ha : ∀ st, exec H ca st = xa.map (pushAll · st))
    (hb : ∀ st, exec H cb st = xb.map (pushAll · st)) (st : Stack) :
    exec H (do let a ← ca; let b ← cb; some (a ++ b)) st
      = (do let a ← xa; let b ← xb; some (a ++ b)).map (pushAll · st) := by
  rw [exec_seq, ha]
  cases xa with
  | none => rfl
  | some a =>
    simp only [Option.map_some, Option.bind_some, hb]
    cases xb with
    | none => rfl
    | some b => simp [pushAll_append]

theorem toSexpL_isList (ts : List Tmpl) : isList (toSexpL ts) = true := by
  induction ts with
  | nil => rfl
  | cons t ts ih => simpa [toSexpL, isList] using ih

/-- A list template that does not look like an unquote is not compiled as one. -/
theorem unqKind_none (t1 : Tmpl) (rest : List Tmpl)
    (h : looksLikeUnquote (t1 :: rest) = false) : unqKind t1.toSexp (toSexpL rest) = none := by
  cases t1 with
  | lit a =>
    cases a with
    | sym n =>
      match rest with
      | [] => simp [Tmpl.toSexp, toSexpL, unqKind]
      | [t2] =>
        simp only [looksLikeUnquote, Bool.or_eq_false_iff, decide_eq_false_iff_not] at h
        simp [Tmpl.toSexp, toSexpL, unqKind, h.1, h.2]
      | _ :: _ :: _ => simp [Tmpl.toSexp, toSexpL, unqKind]
    | int n => simp [Tmpl.toSexp, unqKind]
    | str n => simp [Tmpl.toSexp, unqKind]
  | unquote e => simp [Tmpl.toSexp, unqKind]
  | splice e => simp [Tmpl.toSexp, unqKind]
  | list ts => cases ts <;> simp [Tmpl.toSexp, toSexpL, unqKind]
  | arr ts => simp [Tmpl.toSexp, unqKind]
  | hash ty kvs => simp [Tmpl.toSexp, unqKind]

theorem list_shape (ca cb : Option (List Instr)) :
    (do let a ← ca; let b ← cb; some (Instr.marker :: a ++ b ++ [Instr.squash]))
      = (do let a ← ca; let b ← cb; some (a ++ b)).map (fun x => Instr.marker :: x ++ [Instr.squash]) := by
  cases ca <;> cases cb <;> simp

theorem arr_shape (ca cb : Option (List Instr)) :
    (do let a ← ca; let b ← cb; some (Instr.marker :: a ++ [Instr.squash, Instr.explode] ++ b))
      = (do let a ← ca.map (fun a => Instr.marker :: a ++ [Instr.squash, Instr.explode])
            let b ← cb; some (a ++ b)) := by
  cases ca <;> cases cb <;> simp

theorem hash_shape (ck cv cr : Option (List Instr)) :
    (do let fk ← ck; let fv ← cv; let r ← cr
        some (Instr.marker :: fk ++ [Instr.squash, Instr.explode]
              ++ (Instr.marker :: fv ++ [Instr.squash, Instr.explode]) ++ r))
      = (do let a ← ck.map (fun a => Instr.marker :: a ++ [Instr.squash, Instr.explode])
            let b ← (do let a ← cv.map (fun a => Instr.marker :: a ++ [Instr.squash, Instr.explode])
                        let b ← cr; some (a ++ b))
            some (a ++ b)) := by
  cases ck <;> cases cv <;> cases cr <;> simp

theorem kv_items_shape (xa xb xc : Option (List Sexp)) :
    (do let a ← xa; let b ← xb; let c ← xc; some (a ++ b ++ c))
      = (do let a ← xa; let b ← (do let a ← xb; let b ← xc; some (a ++ b)); some (a ++ b)) := by
  cases xa <;> cases xb <;> cases xc <;> simp

mutual
/-- **Marker discipline.** The code of one (unambiguous) template element, run on any stack,
leaves that stack untouched and pushes exactly the element's items — or fails exactly when
the element has none. -/
theorem items_ok (H : Host) : (t : Tmpl) → t.WF = true → ∀ st : Stack,
    exec H (genSQ H t.toSexp) st = (items (toBinding H) t).map (pushAll · st)
  | .lit a, _, st => by
    simp [Tmpl.toSexp, genSQ, items, exec, run, step, pushAll_single]
  | .unquote e, _, st => by
    simp only [Tmpl.toSexp, genSQ, isList, unqKind, items, toBinding]
    cases hg : H.genOK e
    · simp [exec, hg]
    · cases he : H.eval e <;> simp [exec, run, step, he, hg, pushAll_single]
  | .splice e, _, st => by
    simp only [Tmpl.toSexp, genSQ, isList, unqKind, items, toBinding]
    cases hg : H.genOK e
    · simp [exec, hg]
    · cases he : H.eval e
      · simp [exec, run, step, he, hg]
      · rename_i v
        cases hl : listToArray v <;> simp [exec, run, step, he, hg, hl, elems_eq]
  | .list [], _, st => by
    simp [Tmpl.toSexp, toSexpL, genSQ, items, itemsL, ofList, exec, run, step, pushAll_single]
  | .list (t1 :: rest), wf, st => by
    simp only [Tmpl.WF, wfL, Bool.and_eq_true, Bool.not_eq_true'] at wf
    have h1 := items_ok H t1 wf.2.1
    have h2 := itemsL_ok H rest wf.2.2
    have hk := unqKind_none t1 rest wf.1
    simp only [Tmpl.toSexp, toSexpL, genSQ, toSexpL_isList, hk, list_shape, items, itemsL,
      Bool.not_true, Bool.false_eq_true, if_false]
    rw [exec_list_frame H _ _ st (exec_seq_items H _ _ _ _ h1 h2 _)]
    simp [ofList_eq, pushAll_single, Function.comp_def]
  | .arr ts, wf, st => by
    simp only [Tmpl.WF] at wf
    have h := arrL_ok H ts wf
    simp only [Tmpl.toSexp, genSQ, items]
    have : (do let b ← genArrBody H (toSexpL ts); some (Instr.marker :: b ++ [Instr.vectorize]))
        = (genArrBody H (toSexpL ts)).map (fun a => .marker :: a ++ [.vectorize]) := by
      cases genArrBody H (toSexpL ts) <;> simp
    rw [this, exec_vec_frame H _ _ st (h _)]
    simp [ofList_eq, pushAll_single, Function.comp_def]
  | .hash ty kvs, wf, st => by
    simp only [Tmpl.WF] at wf
    have h := kv_ok H kvs wf
    simp only [Tmpl.toSexp, genSQ, items]
    have : (do let b ← genHashBody H (toSexpKV kvs); some (Instr.marker :: b ++ [Instr.hashize ty]))
        = (genHashBody H (toSexpKV kvs)).map (fun a => .marker :: a ++ [.hashize ty]) := by
      cases genHashBody H (toSexpKV kvs) <;> simp
    rw [this, exec_hash_frame H ty _ _ st (h _)]
    generalize itemsKV (toBinding H) kvs = o
    cases o with
    | none => rfl
    | some xs => cases hm : H.mkHash ty xs <;> simp [toBinding, hm, pushAll_single]
theorem itemsL_ok (H : Host) : (ts : List Tmpl) → wfL ts = true → ∀ st : Stack,
    exec H (genListBody H (toSexpL ts)) st = (itemsL (toBinding H) ts).map (pushAll · st)
  | [], _, st => by simp [toSexpL, genListBody, itemsL, exec, run, pushAll]
  | t :: ts, wf, st => by
    simp only [wfL, Bool.and_eq_true] at wf
    simp only [toSexpL, genListBody, itemsL]
    exact exec_seq_items H _ _ _ _ (items_ok H t wf.1) (itemsL_ok H ts wf.2) st
theorem arrL_ok (H : Host) : (ts : List Tmpl) → wfL ts = true → ∀ st : Stack,
    exec H (genArrBody H (toSexpL ts)) st = (itemsL (toBinding H) ts).map (pushAll · st)
  | [], _, st => by simp [toSexpL, genArrBody, itemsL, exec, run, pushAll]
  | t :: ts, wf, st => by
    simp only [wfL, Bool.and_eq_true] at wf
    simp only [toSexpL, genArrBody, itemsL, arr_shape]
    exact exec_seq_items H _ _ _ _
      (fun st => exec_frame H _ _ st (items_ok H t wf.1 _)) (arrL_ok H ts wf.2) st
theorem kv_ok (H : Host) : (kvs : List (Tmpl × Tmpl)) → wfKV kvs = true → ∀ st : Stack,
    exec H (genHashBody H (toSexpKV kvs)) st = (itemsKV (toBinding H) kvs).map (pushAll · st)
  | [], _, st => by simp [toSexpKV, genHashBody, itemsKV, exec, run, pushAll]
  | (k, v) :: r, wf, st => by
    simp only [wfKV, Bool.and_eq_true] at wf
    simp only [toSexpKV, genHashBody, itemsKV, hash_shape, kv_items_shape]
    exact exec_seq_items H _ _ _ _
      (fun st => exec_frame H _ _ st (items_ok H k wf.1.1 _))
      (fun st => exec_seq_items H _ _ _ _
        (fun st => exec_frame H _ _ st (items_ok H v wf.1.2 _)) (kv_ok H r wf.2) st) st
end

/-! ### every proper form is the writing of an unambiguous template -/

mutual
/-- Forms the property speaks about: no dotted pair anywhere; arrays hold a proper list, a
hash an even one. -/
def Proper : Sexp → Bool
  | .atom _ => true
  | .nil => true
  | .cons h t => Proper h && ProperL t
  | .arr xs => ProperL xs
  | .hash _ flat => ProperKV flat
def ProperL : Sexp → Bool
  | .nil => true
  | .cons h t => Proper h && ProperL t
  | _ => false
def ProperKV : Sexp → Bool
  | .nil => true
  | .cons k (.cons v r) => Proper k && Proper v && ProperKV r
  | _ => false
end

mutual
/-- Reading a form back as a template. -/
def decode : Sexp → Tmpl
  | .atom a => .lit a
  | .nil => .list []
  | .cons h t =>
    match unqKind h t with
    | some (false, e) => .unquote e
    | some (true, e) => .splice e
    | none => .list (decode h :: decodeL t)
  | .arr xs => .arr (decodeL xs)
  | .hash ty flat => .hash ty (decodeKV flat)
def decodeL : Sexp → List Tmpl
  | .cons h t => decode h :: decodeL t
  | _ => []
def decodeKV : Sexp → List (Tmpl × Tmpl)
  | .cons k (.cons v r) => (decode k, decode v) :: decodeKV r
  | _ => []
end

theorem unqKind_some (h t : Sexp) (b : Bool) (e : Sexp) (hk : unqKind h t = some (b, e)) :
    t = .cons e .nil ∧ h = .atom (.sym (if b then "unquote-splicing" else "unquote")) := by
  unfold unqKind at hk
  split at hk
  · rename_i n e'
    split at hk
    · simp only [Option.some.injEq, Prod.mk.injEq] at hk
      obtain ⟨rfl, rfl⟩ := hk
      simp_all
    · split at hk
      · simp only [Option.some.injEq, Prod.mk.injEq] at hk
        obtain ⟨rfl, rfl⟩ := hk
        simp_all
      · simp at hk
  · simp at hk

theorem decode_lit (s : Sexp) (a : Atom) (h : decode s = .lit a) : s = .atom a := by
  cases s with
  | atom b => simpa [decode] using h
  | nil => simp [decode] at h
  | cons x y =>
    simp only [decode] at h
    split at h <;> simp at h
  | arr xs => simp [decode] at h
  | hash ty f => simp [decode] at h

theorem decodeL_nil (t : Sexp) (hp : ProperL t = true) (h : decodeL t = []) : t = .nil := by
  cases t <;> simp_all [decodeL, ProperL]

mutual
theorem decode_ok : (s : Sexp) → Proper s = true → (decode s).toSexp = s ∧ (decode s).WF = true
  | .atom a, _ => by simp [decode, Tmpl.toSexp, Tmpl.WF]
  | .nil, _ => by simp [decode, Tmpl.toSexp, toSexpL, Tmpl.WF, wfL, looksLikeUnquote]
  | .cons h t, hp => by
    simp only [Proper, Bool.and_eq_true] at hp
    simp only [decode]
    cases hk : unqKind h t with
    | some p =>
      obtain ⟨b, e⟩ := p
      obtain ⟨rfl, rfl⟩ := unqKind_some h t b e hk
      cases b <;> simp [Tmpl.toSexp, Tmpl.WF]
    | none =>
      have ih := decode_ok h hp.1
      have il := decodeL_ok t hp.2
      refine ⟨by simp [Tmpl.toSexp, toSexpL, ih.1, il.1], ?_⟩
      simp only [Tmpl.WF, wfL, ih.2, il.2, Bool.and_true, Bool.not_eq_true']
      -- a literal list that looked like an unquote would have been decoded as one
      cases hl : looksLikeUnquote (decode h :: decodeL t) with
      | false => rfl
      | true =>
        exfalso
        unfold looksLikeUnquote at hl
        split at hl
        · rename_i n x heq
          simp only [List.cons.injEq] at heq
          obtain ⟨h1, h2⟩ := heq
          have hh := decode_lit h _ h1
          subst hh
          cases t with
          | cons e t' =>
            simp only [decodeL, List.cons.injEq] at h2
            simp only [ProperL, Bool.and_eq_true] at hp
            have := decodeL_nil t' hp.2.2 h2.2
            subst this
            simp only [Bool.or_eq_true, decide_eq_true_eq] at hl
            rcases hl with rfl | rfl <;> simp [unqKind] at hk
          | _ => simp [decodeL] at h2
        · simp at hl
  | .arr xs, hp => by
    simp only [Proper] at hp
    have il := decodeL_ok xs hp
    simp [decode, Tmpl.toSexp, Tmpl.WF, il.1, il.2]
  | .hash ty flat, hp => by
    simp only [Proper] at hp
    have il := decodeKV_ok flat hp
    simp [decode, Tmpl.toSexp, Tmpl.WF, il.1, il.2]
theorem decodeL_ok : (s : Sexp) → ProperL s = true → toSexpL (decodeL s) = s ∧ wfL (decodeL s) = true
  | .nil, _ => by simp [decodeL, toSexpL, wfL]
  | .cons h t, hp => by
    simp only [ProperL, Bool.and_eq_true] at hp
    have ih := decode_ok h hp.1
    have il := decodeL_ok t hp.2
    simp [decodeL, toSexpL, wfL, ih.1, ih.2, il.1, il.2]
  | .atom _, hp => by simp [ProperL] at hp
  | .arr _, hp => by simp [ProperL] at hp
  | .hash _ _, hp => by simp [ProperL] at hp
theorem decodeKV_ok : (s : Sexp) → ProperKV s = true → toSexpKV (decodeKV s) = s ∧ wfKV (decodeKV s) = true
  | .nil, _ => by simp [decodeKV, toSexpKV, wfKV]
  | .cons k (.cons v r), hp => by
    simp only [ProperKV, Bool.and_eq_true] at hp
    have ik := decode_ok k hp.1.1
    have iv := decode_ok v hp.1.2
    have il := decodeKV_ok r hp.2
    simp [decodeKV, toSexpKV, wfKV, ik.1, ik.2, iv.1, iv.2, il.1, il.2]
  | .cons _ .nil, hp => by simp [ProperKV] at hp
  | .cons _ (.atom _), hp => by simp [ProperKV] at hp
  | .cons _ (.arr _), hp => by simp [ProperKV] at hp
  | .cons _ (.hash _ _), hp => by simp [ProperKV] at hp
  | .atom _, hp => by simp [ProperKV] at hp
  | .arr _, hp => by simp [ProperKV] at hp
  | .hash _ _, hp => by simp [ProperKV] at hp
end

end ZygoVerif.SQ
