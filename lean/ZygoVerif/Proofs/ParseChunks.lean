/-
Chunk independence of the parser model (used by Props/C13).

`View` forgets how the not-yet-read runes are distributed over the current stream, the
queued streams and the pieces still to be delivered. `runA` interprets parser programs on
views. `run_view`: for EVERY program, running on the concrete state and then forgetting
equals running on the view. Since the view of the initial state depends only on the
concatenation of the pieces, so does the result of the parse.
-/
import ZygoVerif.Model.Parser
namespace ZygoVerif.Parser
open ZygoVerif.Lexer

structure View where
  core : LexCore
  runes : List Char
  exprs : List Sexp
  fin : Bool          -- once `runes` are used up the end of the input has been signalled (`EndInput`)

/-- whether `EndInput` will have been called when the runes of the state are used up: the
lexer's mark when every piece has been delivered, otherwise what the last piece brings -/
def PState.willFinish (s : PState) : Bool := if s.fut.isEmpty then s.lex.finished else s.eof

def view (s : PState) : View := ⟨s.lex.toLexCore, s.runes, s.exprs, s.willFinish⟩

inductive PeekOutA where
  | tok (t : Token) (v : View)
  | stop (st : Status) (v : View)

def headIf (extra : Nat) (c : LexCore) : Option Token :=
  if extra < c.tokens.length then c.tokens.head? else none

/-- `ParserPeekNextToken` (`orEnd`: `peekAfterSign`) on a view: lex runes until enough tokens
are queued. -/
def peekWaitA (orEnd : Bool) (extra : Nat) (ex : List Sexp) (fin : Bool) : List Char → LexCore → PeekOutA
  | [], c =>
    match headIf extra c with
    | some t => .tok t ⟨c, [], ex, fin⟩
    | none => if orEnd && fin then .tok Token.endTk ⟨c, [], ex, fin⟩ else .stop .more ⟨c, [], ex, fin⟩
  | r :: rs, c =>
    match headIf extra c with
    | some t => .tok t ⟨c, r :: rs, ex, fin⟩
    | none =>
      match step c r with
      | .ok c' => peekWaitA orEnd extra ex fin rs c'
      | .err _ c' => .stop .err ⟨c', rs, ex, fin⟩

inductive TopOutA where
  | tok (t : Token) (v : View)
  | finished (st : Status) (v : View)

def topGetA (ex : List Sexp) (fin : Bool) : List Char → LexCore → TopOutA
  | [], c =>
    match c.tokens with
    | t :: ts => .tok t ⟨{ c with tokens := ts }, [], ex, fin⟩
    | [] => .finished (if inLiteral c then .more else .done) ⟨c, [], ex, fin⟩
  | r :: rs, c =>
    match c.tokens with
    | t :: ts => .tok t ⟨{ c with tokens := ts }, r :: rs, ex, fin⟩
    | [] =>
      match step c r with
      | .ok c' => topGetA ex fin rs c'
      | .err _ c' => .finished .err ⟨c', rs, ex, fin⟩

def runA {α : Type} : Prog α → View → Fin α × View
  | .pure a, v => (.ret a, v)
  | .fail, v => (.stop .err, v)
  | .waitPeek n k, v =>
    (match peekWaitA false n v.exprs v.fin v.runes v.core with
     | .tok t v' => runA (k t) v'
     | .stop st v' => (.stop st, v'))
  | .signPeek k, v =>
    (match peekWaitA true 0 v.exprs v.fin v.runes v.core with
     | .tok t v' => runA (k t) v'
     | .stop st v' => (.stop st, v'))
  | .topGet k, v =>
    (match topGetA v.exprs v.fin v.runes v.core with
     | .tok t v' => runA (k (some t)) v'
     | .finished .done v' => runA (k none) v'
     | .finished st v' => (.stop st, v'))
  | .peekAt i k, v =>
    (match peekWaitA false i v.exprs v.fin v.runes v.core with
     | .tok _ v' =>
       (match v'.core.tokens[i]? with
        | some t => runA (k t) v'
        | none => (.stop .err, v'))
     | .stop st v' => (.stop st, v'))
  | .getTok k, v =>
    (match peekWaitA false 0 v.exprs v.fin v.runes v.core with
     | .tok t v' => runA (k t) { v' with core := { v'.core with tokens := v'.core.tokens.tail } }
     | .stop st v' => (.stop st, v'))
  | .pushTok t k, v => runA k { v with core := { v.core with tokens := t :: v.core.tokens } }
  | .pushExpr e k, v => runA k { v with exprs := v.exprs ++ [e] }

/-- the lexer always has a current stream while a text is being parsed -/
def Inv (s : PState) : Prop := s.lex.stream.isSome = true

/-! ### the rune reader -/

theorem readRune_some (l : LexState) (fuel : Nat) (c : Char) (l' : LexState)
    (h : readRune l fuel = some (c, l')) :
    l.pending = c :: l'.pending ∧ l'.toLexCore = l.toLexCore ∧ l'.stream.isSome = true ∧
      l'.next.length ≤ l.next.length ∧ l'.finished = l.finished := by
  induction fuel generalizing l with
  | zero => simp [readRune] at h
  | succ n ih =>
    unfold readRune at h
    split at h
    · rename_i c0 rest hs
      simp only [Option.some.injEq, Prod.mk.injEq] at h
      obtain ⟨rfl, rfl⟩ := h
      simp [LexState.pending, hs]
    · rename_i hns
      cases hp : l.promote with
      | none => simp [hp] at h
      | some lp =>
        simp only [hp] at h
        have := ih lp h
        unfold LexState.promote at hp
        cases hn : l.next with
        | nil => simp [hn] at hp
        | cons n0 rest =>
          simp only [hn, Option.some.injEq] at hp
          subst hp
          obtain ⟨h1, h2, h3, h4, h5⟩ := this
          have hstream : l.stream.getD [] = [] := by
            cases hst : l.stream with
            | none => rfl
            | some st =>
              cases st with
              | nil => rfl
              | cons a b => exact absurd hst (hns a b)
          refine ⟨?_, ?_, h3, ?_, ?_⟩
          · simp only [LexState.pending, hstream, hn, List.flatten_cons, List.nil_append]
            simpa [LexState.pending] using h1
          · simpa using h2
          · simp only [List.length_cons]
            simp at h4
            omega
          · simpa using h5

theorem readRune_none (l : LexState) (fuel : Nat) (hf : l.next.length < fuel)
    (h : readRune l fuel = none) : l.pending = [] := by
  induction fuel generalizing l with
  | zero => omega
  | succ n ih =>
    unfold readRune at h
    split at h
    · simp at h
    · rename_i hns
      have hstream : l.stream.getD [] = [] := by
        cases hst : l.stream with
        | none => rfl
        | some st =>
          cases st with
          | nil => rfl
          | cons a b => exact absurd hst (hns a b)
      cases hn : l.next with
      | nil => simp [LexState.pending, hstream, hn]
      | cons n0 rest =>
        have hp : l.promote = some { l with stream := some n0, next := rest } := by
          simp [LexState.promote, hn]
        simp only [hp] at h
        have := ih { l with stream := some n0, next := rest } (by simp [hn] at hf ⊢; omega) h
        simp only [LexState.pending, hstream, hn, List.flatten_cons, List.nil_append]
        simpa [LexState.pending] using this

theorem step_fields (l : LexState) (c : Char) :
    (∀ l', l.step c = .ok l' → Lexer.step l.toLexCore c = .ok l'.toLexCore ∧ l'.stream = l.stream ∧ l'.next = l.next ∧ l'.finished = l.finished) ∧
    (∀ e l', l.step c = .err e l' → Lexer.step l.toLexCore c = .err e l'.toLexCore ∧ l'.stream = l.stream ∧ l'.next = l.next ∧ l'.finished = l.finished) := by
  unfold LexState.step
  cases h : Lexer.step l.toLexCore c with
  | ok c' => simp
  | err e c' => simp

/-- delivering a piece to a lexer that has read everything -/
theorem addNextStream_drained (l : LexState) (p : List Char) (hs : l.stream.isSome = true)
    (hp : l.pending = []) :
    (l.addNextStream p).pending = p ∧ (l.addNextStream p).toLexCore = l.toLexCore ∧
      (l.addNextStream p).stream.isSome = true ∧ (l.addNextStream p).next.length = l.next.length := by
  cases hst : l.stream with
  | none => simp [hst] at hs
  | some st =>
    have hst' : st = [] ∧ l.next.flatten = [] := by
      simpa [LexState.pending, hst] using hp
    obtain ⟨rfl, hnf⟩ := hst'
    cases hn : l.next with
    | nil =>
      simp [LexState.addNextStream, LexState.promote, hst, hn, LexState.pending]
    | cons n0 rest =>
      rw [hn] at hnf
      simp only [List.flatten_cons, List.append_eq_nil_iff] at hnf
      simp [LexState.addNextStream, LexState.promote, hst, hn, LexState.pending, hnf.1, hnf.2]

/-- the caller delivers the next piece to a lexer that has read everything -/
theorem deliver_drained (s : PState) (p : List Char) (fut : List (List Char)) (st : Status)
    (hi : s.lex.stream.isSome = true) (hp : s.lex.pending = []) (hfut : s.fut = p :: fut) :
    (s.deliver p fut st).lex.pending = p ∧ (s.deliver p fut st).lex.toLexCore = s.lex.toLexCore ∧
      (s.deliver p fut st).lex.stream.isSome = true ∧ (s.deliver p fut st).lex.next.length = s.lex.next.length ∧
      (s.deliver p fut st).willFinish = s.willFinish ∧ (s.deliver p fut st).fut = fut ∧
      (s.deliver p fut st).exprs = s.exprs := by
  obtain ⟨a1, a2, a3, a4⟩ := addNextStream_drained s.lex p hi hp
  refine ⟨?_, a2, a3, a4, ?_, rfl, rfl⟩
  · simpa [PState.deliver, LexState.pending] using a1
  · cases fut <;> simp [PState.deliver, PState.willFinish, hfut]

/-! ### the two reading loops -/

def PeekOut.toA : PeekOut → PeekOutA
  | .tok t s => .tok t (view s)
  | .stop st s => .stop st (view s)

def PeekOut.inv : PeekOut → Prop
  | .tok _ s => Inv s
  | .stop _ _ => True

theorem runes_of_pending (s : PState) : s.runes = s.lex.pending ++ s.fut.flatten := rfl

theorem peekWaitA_headIf (b : Bool) (extra : Nat) (ex : List Sexp) (fin : Bool) (rs : List Char) (c : LexCore) (t : Token)
    (h : headIf extra c = some t) : peekWaitA b extra ex fin rs c = .tok t ⟨c, rs, ex, fin⟩ := by
  cases rs <;> simp [peekWaitA, h]

theorem willFinish_lex (s : PState) (l' : LexState) (h : l'.finished = s.lex.finished) :
    ({ s with lex := l' } : PState).willFinish = s.willFinish := by
  simp [PState.willFinish, h]

theorem peekWait_sim (b : Bool) (extra : Nat) (fuel : Nat) (s : PState) (hi : Inv s) (hf : s.size < fuel) :
    (peekWaitRun b extra fuel s).toA = peekWaitA b extra s.exprs s.willFinish s.runes s.lex.toLexCore ∧
      (peekWaitRun b extra fuel s).inv := by
  induction fuel generalizing s with
  | zero => omega
  | succ n ih =>
    unfold peekWaitRun
    have hsome : s.lex.stream.isNone = false := by
      unfold Inv at hi
      cases h : s.lex.stream <;> simp_all
    simp only [hsome, Bool.false_and, Bool.false_eq_true, ↓reduceIte]
    cases hh : (if extra < s.lex.tokens.length then s.lex.tokens.head? else none) with
    | some t =>
      have : headIf extra s.lex.toLexCore = some t := hh
      rw [peekWaitA_headIf _ _ _ _ _ _ _ this]
      exact ⟨rfl, hi⟩
    | none =>
      simp only
      have hhA : headIf extra s.lex.toLexCore = none := hh
      cases hr : readRune s.lex (s.lex.next.length + 1) with
      | some cl =>
        obtain ⟨c, l⟩ := cl
        obtain ⟨hp, hc, hs, hn, hfin⟩ := readRune_some _ _ _ _ hr
        have hrunes : s.runes = c :: (l.pending ++ s.fut.flatten) := by
          rw [runes_of_pending, hp]; rfl
        simp only
        rw [hrunes]
        simp only [peekWaitA, hhA]
        obtain ⟨hok, herr⟩ := step_fields l c
        cases hst : l.step c with
        | ok l' =>
          obtain ⟨h1, h2, h3, h4⟩ := hok l' hst
          rw [hc] at h1
          simp only [h1]
          have hsz : ({ s with lex := l' } : PState).size < n := by
            have : s.size = (l.pending ++ s.fut.flatten).length + 1 + s.lex.next.length + s.fut.length := by
              simp [PState.size, hrunes]
            have hpend : l'.pending = l.pending := by simp [LexState.pending, h2, h3]
            have hnew : ({ s with lex := l' } : PState).size =
                (l.pending ++ s.fut.flatten).length + l.next.length + s.fut.length := by
              simp [PState.size, runes_of_pending, hpend, h3]
            omega
          have hinv : Inv ({ s with lex := l' } : PState) := by
            simp [Inv, h2, hs]
          have := ih { s with lex := l' } hinv hsz
          rw [willFinish_lex s l' (h4.trans hfin)] at this
          simpa [runes_of_pending, LexState.pending, h2, h3] using this
        | err e l' =>
          obtain ⟨h1, h2, h3, h4⟩ := herr e l' hst
          rw [hc] at h1
          simp only [h1]
          refine ⟨?_, trivial⟩
          simp [PeekOut.toA, view, runes_of_pending, LexState.pending, h2, h3, willFinish_lex s l' (h4.trans hfin)]
      | none =>
        have hp := readRune_none _ _ (Nat.lt_succ_self _) hr
        simp only
        cases hfut : s.fut with
        | nil =>
          have hrunes : s.runes = [] := by simp [runes_of_pending, hp, hfut]
          have hwf : s.willFinish = s.lex.finished := by simp [PState.willFinish, hfut]
          rw [hrunes, hwf]
          simp only [peekWaitA, hhA]
          cases hbf : (b && s.lex.finished) with
          | true =>
            simp only [↓reduceIte]
            refine ⟨?_, hi⟩
            simp [PeekOut.toA, view, hrunes, hwf]
          | false =>
            simp only [Bool.false_eq_true, ↓reduceIte]
            refine ⟨?_, trivial⟩
            simp [PeekOut.toA, view, hrunes, hwf]
        | cons p fut =>
          simp only
          obtain ⟨a1, a2, a3, a4, a5, a6, a7⟩ := deliver_drained s p fut .more hi hp hfut
          have hrunes : s.runes = p ++ fut.flatten := by simp [runes_of_pending, hp, hfut]
          have hsz : (s.deliver p fut .more).size < n := by
            have h0 : s.size = (p ++ fut.flatten).length + s.lex.next.length + (fut.length + 1) := by
              simp [PState.size, hrunes, hfut]
            have h1 : (s.deliver p fut .more).size = (p ++ fut.flatten).length + s.lex.next.length + fut.length := by
              simp [PState.size, runes_of_pending, a1, a4, a6]
            omega
          have := ih (s.deliver p fut .more) a3 hsz
          have hr' : (s.deliver p fut .more).runes = s.runes := by rw [hrunes]; simp [runes_of_pending, a1, a6]
          rw [hr', a2, a5, a7] at this
          exact this

def TopOut.toA : TopOut → TopOutA
  | .tok t s => .tok t (view s)
  | .finished st s => .finished st (view s)

def TopOut.inv : TopOut → Prop
  | .tok _ s => Inv s
  | .finished _ s => Inv s

theorem topGetA_tok (ex : List Sexp) (fin : Bool) (rs : List Char) (c : LexCore) (t : Token) (ts : List Token)
    (h : c.tokens = t :: ts) : topGetA ex fin rs c = .tok t ⟨{ c with tokens := ts }, rs, ex, fin⟩ := by
  cases rs <;> simp [topGetA, h]

theorem topGet_sim (fuel : Nat) (s : PState) (hi : Inv s) (hf : s.size < fuel) :
    (topGetRun fuel s).toA = topGetA s.exprs s.willFinish s.runes s.lex.toLexCore ∧ (topGetRun fuel s).inv := by
  induction fuel generalizing s with
  | zero => omega
  | succ n ih =>
    unfold topGetRun
    have hsome : s.lex.stream.isNone = false := by
      unfold Inv at hi
      cases h : s.lex.stream <;> simp_all
    simp only [hsome, Bool.false_and, Bool.false_eq_true, ↓reduceIte]
    cases htk : s.lex.tokens with
    | cons t ts =>
      rw [topGetA_tok _ _ _ _ t ts htk]
      refine ⟨?_, ?_⟩
      · simp [TopOut.toA, view, runes_of_pending, LexState.pending, PState.willFinish]
      · simpa [TopOut.inv, Inv] using hi
    | nil =>
      simp only
      cases hr : readRune s.lex (s.lex.next.length + 1) with
      | some cl =>
        obtain ⟨c, l⟩ := cl
        obtain ⟨hp, hc, hs, hn, hfin⟩ := readRune_some _ _ _ _ hr
        have hrunes : s.runes = c :: (l.pending ++ s.fut.flatten) := by
          rw [runes_of_pending, hp]; rfl
        simp only
        rw [hrunes]
        simp only [topGetA, htk]
        obtain ⟨hok, herr⟩ := step_fields l c
        cases hst : l.step c with
        | ok l' =>
          obtain ⟨h1, h2, h3, h4⟩ := hok l' hst
          rw [hc] at h1
          simp only [h1]
          have hsz : ({ s with lex := l' } : PState).size < n := by
            have : s.size = (l.pending ++ s.fut.flatten).length + 1 + s.lex.next.length + s.fut.length := by
              simp [PState.size, hrunes]
            have hpend : l'.pending = l.pending := by simp [LexState.pending, h2, h3]
            have hnew : ({ s with lex := l' } : PState).size =
                (l.pending ++ s.fut.flatten).length + l.next.length + s.fut.length := by
              simp [PState.size, runes_of_pending, hpend, h3]
            omega
          have hinv : Inv ({ s with lex := l' } : PState) := by
            simp [Inv, h2, hs]
          have := ih { s with lex := l' } hinv hsz
          rw [willFinish_lex s l' (h4.trans hfin)] at this
          simpa [runes_of_pending, LexState.pending, h2, h3] using this
        | err e l' =>
          obtain ⟨h1, h2, h3, h4⟩ := herr e l' hst
          rw [hc] at h1
          simp only [h1]
          refine ⟨?_, ?_⟩
          · simp [TopOut.toA, view, runes_of_pending, LexState.pending, h2, h3, willFinish_lex s l' (h4.trans hfin)]
          · simp [TopOut.inv, Inv, h2, hs]
      | none =>
        have hp := readRune_none _ _ (Nat.lt_succ_self _) hr
        simp only
        cases hfut : s.fut with
        | nil =>
          have hrunes : s.runes = [] := by simp [runes_of_pending, hp, hfut]
          rw [hrunes]
          simp only [topGetA, htk]
          refine ⟨?_, hi⟩
          simp [TopOut.toA, view, hrunes]
        | cons p fut =>
          simp only
          generalize hst : (if inLiteral s.lex.toLexCore = true then Status.more else Status.done) = st
          obtain ⟨a1, a2, a3, a4, a5, a6, a7⟩ := deliver_drained s p fut st hi hp hfut
          have hrunes : s.runes = p ++ fut.flatten := by simp [runes_of_pending, hp, hfut]
          have hsz : (s.deliver p fut st).size < n := by
            have h0 : s.size = (p ++ fut.flatten).length + s.lex.next.length + (fut.length + 1) := by
              simp [PState.size, hrunes, hfut]
            have h1 : (s.deliver p fut st).size = (p ++ fut.flatten).length + s.lex.next.length + fut.length := by
              simp [PState.size, runes_of_pending, a1, a4, a6]
            omega
          have := ih (s.deliver p fut st) a3 hsz
          have hr' : (s.deliver p fut st).runes = s.runes := by rw [hrunes]; simp [runes_of_pending, a1, a6]
          rw [hr', a2, a5, a7] at this
          exact this

/-! ### every program -/

theorem view_fields (s : PState) :
    (view s).exprs = s.exprs ∧ (view s).runes = s.runes ∧ (view s).core = s.lex.toLexCore ∧ (view s).fin = s.willFinish :=
  ⟨rfl, rfl, rfl, rfl⟩

theorem run_view {α : Type} (p : Prog α) (s : PState) (hi : Inv s) :
    (run p s).1 = (runA p (view s)).1 ∧ view (run p s).2 = (runA p (view s)).2 := by
  induction p generalizing s with
  | pure a => simp [run, runA]
  | fail => simp [run, runA]
  | waitPeek n k ih =>
    have hsim := peekWait_sim false n (s.size + 1) s hi (Nat.lt_succ_self _)
    simp only [run, runA]
    have hv := view_fields s
    rw [hv.1, hv.2.1, hv.2.2.1, hv.2.2.2, ← hsim.1]
    cases hpw : peekWaitRun false n (s.size + 1) s with
    | tok t s' =>
      have hinv : Inv s' := by simpa [hpw, PeekOut.inv] using hsim.2
      simpa [PeekOut.toA] using ih t s' hinv
    | stop st s' => simp [PeekOut.toA]
  | signPeek k ih =>
    have hsim := peekWait_sim true 0 (s.size + 1) s hi (Nat.lt_succ_self _)
    simp only [run, runA]
    have hv := view_fields s
    rw [hv.1, hv.2.1, hv.2.2.1, hv.2.2.2, ← hsim.1]
    cases hpw : peekWaitRun true 0 (s.size + 1) s with
    | tok t s' =>
      have hinv : Inv s' := by simpa [hpw, PeekOut.inv] using hsim.2
      simpa [PeekOut.toA] using ih t s' hinv
    | stop st s' => simp [PeekOut.toA]
  | topGet k ih =>
    have hsim := topGet_sim (s.size + 1) s hi (Nat.lt_succ_self _)
    simp only [run, runA]
    have hv := view_fields s
    rw [hv.1, hv.2.1, hv.2.2.1, hv.2.2.2, ← hsim.1]
    cases hpw : topGetRun (s.size + 1) s with
    | tok t s' =>
      have hinv : Inv s' := by simpa [hpw, TopOut.inv] using hsim.2
      simpa [TopOut.toA] using ih (some t) s' hinv
    | finished st s' =>
      have hinv : Inv s' := by simpa [hpw, TopOut.inv] using hsim.2
      cases st with
      | done => simpa [TopOut.toA] using ih none s' hinv
      | more => simp [TopOut.toA]
      | err => simp [TopOut.toA]
  | peekAt n k ih =>
    have hsim := peekWait_sim false n (s.size + 1) s hi (Nat.lt_succ_self _)
    simp only [run, runA]
    have hv := view_fields s
    rw [hv.1, hv.2.1, hv.2.2.1, hv.2.2.2, ← hsim.1]
    cases hpw : peekWaitRun false n (s.size + 1) s with
    | tok t s' =>
      have hinv : Inv s' := by simpa [hpw, PeekOut.inv] using hsim.2
      have ht : (view s').core.tokens = s'.lex.tokens := rfl
      simp only [PeekOut.toA, ht]
      cases hq : s'.lex.tokens[n]? with
      | some t' => simpa using ih t' s' hinv
      | none => simp
    | stop st s' => simp [PeekOut.toA]
  | getTok k ih =>
    have hsim := peekWait_sim false 0 (s.size + 1) s hi (Nat.lt_succ_self _)
    simp only [run, runA]
    have hv := view_fields s
    rw [hv.1, hv.2.1, hv.2.2.1, hv.2.2.2, ← hsim.1]
    cases hpw : peekWaitRun false 0 (s.size + 1) s with
    | tok t s' =>
      have hinv : Inv s' := by simpa [hpw, PeekOut.inv] using hsim.2
      have := ih t { s' with lex := { s'.lex with tokens := s'.lex.tokens.tail } } (by simpa [Inv] using hinv)
      simpa [PeekOut.toA, view, runes_of_pending, LexState.pending, PState.willFinish] using this
    | stop st s' => simp [PeekOut.toA]
  | pushTok t k ih =>
    have := ih { s with lex := { s.lex with tokens := t :: s.lex.tokens } } (by simpa [Inv] using hi)
    simpa [run, runA, view, runes_of_pending, LexState.pending, PState.willFinish] using this
  | pushExpr e k ih =>
    have := ih { s with exprs := s.exprs ++ [e] } (by simpa [Inv] using hi)
    simpa [run, runA, view, runes_of_pending, PState.willFinish] using this

end ZygoVerif.Parser
