/-
C02, execution half — Stage D: the parallel bindings of `let`.

`GenerateLet` evaluates the initialisers left to right and then binds the names by popping:
the LAST name is bound first. The reference evaluator (`Ref.bindAll`) binds the FIRST name
first. With pairwise distinct names the two orders agree — every binding is checked against
(and replaces) the value the name had before the `let`'s bindings, whatever the order — and the
resulting frames hold the same bindings (as association lists they differ in order only).
With a repeated name they do not agree: `(let [a 1 a 2] a)` is 1 on the VM (and in the
implementation), 2 in the reference evaluator; that program is outside the proved fragment.
-/
import ZygoVerif.Proofs.SimEnv
set_option linter.unusedSimpArgs false
namespace ZygoVerif.Sim
open ZygoVerif.Core ZygoVerif.VM

/-- bind a list of (name, value) pairs one after the other in frame `fr` -/
def defineAll (rs : Ref.St) (fr : Nat) : List (String × Val) → Option Ref.St
  | [] => some rs
  | (x, v) :: ps => match Ref.define rs fr x v with
    | some rs' => defineAll rs' fr ps
    | none => none

theorem bindAll_eq_defineAll (fr : Nat) : ∀ (names : List String) (vs : List Val) (rs : Ref.St),
    Ref.bindAll rs fr names vs = defineAll rs fr (names.zip vs)
  | [], _, rs => by cases ‹List Val› <;> rfl
  | _ :: _, [], rs => rfl
  | x :: xs, v :: vs, rs => by
    simp only [Ref.bindAll, List.zip_cons_cons, defineAll]
    cases Ref.define rs fr x v with
    | none => rfl
    | some rs' => exact bindAll_eq_defineAll fr xs vs rs'

/-- may `x` (currently bound to `cur?`) be bound to `v` -/
def okBind (h : DataHeap) (cur? : Option Val) (v : Val) : Bool :=
  match cur? with
  | some cur => rebindOk h cur v
  | none => true

/-- `rs` with the variables of frame `fr` (which is `fr0`) replaced -/
def withVars (rs : Ref.St) (fr : Nat) (fr0 : Ref.Frame) (vars : List (String × Val)) : Ref.St :=
  { rs with frames := rs.frames.set fr { fr0 with vars := vars } }

theorem define_withVars (rs : Ref.St) (fr : Nat) (fr0 : Ref.Frame) (hfr : rs.frames[fr]? = some fr0)
    (vars : List (String × Val)) (x : String) (v : Val) :
    Ref.define (withVars rs fr fr0 vars) fr x v =
      if okBind rs.heap (vars.lookup x) v then some (withVars rs fr fr0 (VM.assocSet vars x v)) else none := by
  have hlt := lt_of_getElem?_some hfr
  have hget : (withVars rs fr fr0 vars).frames[fr]? = some { fr0 with vars := vars } := List.getElem?_set_self hlt
  have hset : Ref.setVar (withVars rs fr fr0 vars) fr x v = withVars rs fr fr0 (VM.assocSet vars x v) := by
    unfold Ref.setVar
    rw [hget]
    show ({ rs with frames := (rs.frames.set fr _).set fr _ } : Ref.St) = _
    rw [List.set_set]; rfl
  unfold Ref.define
  rw [hget]
  simp only [hset]
  unfold okBind
  cases vars.lookup x with
  | none => rfl
  | some cur => rfl

/-- What `defineAll` does, for pairwise distinct names: it succeeds iff every pair may be bound
over the ORIGINAL variables, and then every name holds its new value, the others their old one. -/
theorem defineAll_spec (rs : Ref.St) (fr : Nat) (fr0 : Ref.Frame) (hfr : rs.frames[fr]? = some fr0) :
    ∀ (ps : List (String × Val)) (vars : List (String × Val)), (ps.map (·.1)).Nodup →
      match defineAll (withVars rs fr fr0 vars) fr ps with
      | some rs' => (∀ p ∈ ps, okBind rs.heap (vars.lookup p.1) p.2 = true)
          ∧ ∃ vars', rs' = withVars rs fr fr0 vars'
            ∧ ∀ y, vars'.lookup y = (match ps.lookup y with | some v => some v | none => vars.lookup y)
      | none => ∃ p ∈ ps, okBind rs.heap (vars.lookup p.1) p.2 = false
  | [], vars, _ => by
    simp only [defineAll]
    exact ⟨fun p hp => (by cases hp), vars, rfl, fun y => rfl⟩
  | (x, v) :: ps, vars, hnd => by
    simp only [List.map_cons, List.nodup_cons] at hnd
    simp only [defineAll, define_withVars rs fr fr0 hfr]
    by_cases hok : okBind rs.heap (vars.lookup x) v = true
    · rw [if_pos hok]
      simp only
      have ih := defineAll_spec rs fr fr0 hfr ps (VM.assocSet vars x v) hnd.2
      have hne : ∀ p ∈ ps, (p.1 == x) = false := by
        intro p hp
        have : p.1 ≠ x := fun e => hnd.1 (e ▸ List.mem_map_of_mem (f := (·.1)) hp)
        simpa using this
      cases hd : defineAll (withVars rs fr fr0 (VM.assocSet vars x v)) fr ps with
      | some rs' =>
        rw [hd] at ih
        obtain ⟨hall, vars', hrs, hlook⟩ := ih
        refine ⟨?_, vars', hrs, ?_⟩
        · intro p hp
          rcases List.mem_cons.mp hp with rfl | hp
          · exact hok
          · have := hall p hp
            rw [lookup_assocSet, hne p hp] at this
            simpa using this
        · intro y
          rw [hlook y, List.lookup_cons]
          by_cases hy : (y == x) = true
          · have hyx : y = x := by simpa using hy
            subst hyx
            have hnone : ps.lookup y = none := by
              rw [List.lookup_eq_none_iff]
              intro p hp
              have := hne p hp
              simpa [beq_eq_false_iff_ne, ne_comm] using this
            rw [hnone, lookup_assocSet]; simp
          · have hy' : (y == x) = false := by simpa using hy
            rw [hy']
            cases ps.lookup y with
            | some w => rfl
            | none => simp only; rw [lookup_assocSet, hy']; rfl
      | none =>
        rw [hd] at ih
        obtain ⟨p, hp, hbad⟩ := ih
        refine ⟨p, List.mem_cons_of_mem _ hp, ?_⟩
        rw [lookup_assocSet, hne p hp] at hbad
        simpa using hbad
    · rw [if_neg hok]
      exact ⟨(x, v), List.mem_cons_self, by simpa using hok⟩

/-! ## Order does not matter for pairwise distinct names -/

theorem nodup_reverse' {α} {l : List α} (h : l.Nodup) : l.reverse.Nodup := by
  unfold List.Nodup at *
  rw [List.pairwise_reverse]
  exact h.imp (fun hab => fun e => hab e.symm)


theorem lookup_eq_some_iff_mem : ∀ (ps : List (String × Val)), (ps.map (·.1)).Nodup → ∀ y v,
    ps.lookup y = some v ↔ (y, v) ∈ ps
  | [], _, y, v => by simp
  | (x, w) :: ps, hnd, y, v => by
    simp only [List.map_cons, List.nodup_cons] at hnd
    rw [List.lookup_cons]
    by_cases hy : (y == x) = true
    · have hyx : y = x := by simpa using hy
      subst hyx
      simp only [beq_self_eq_true, Option.some.injEq, List.mem_cons, Prod.mk.injEq, true_and]
      constructor
      · intro h; exact Or.inl h.symm
      · rintro (h | h)
        · exact h.symm
        · exact absurd (List.mem_map_of_mem (f := (·.1)) h) hnd.1
    · have hy' : (y == x) = false := by simpa using hy
      have hne : y ≠ x := by simpa using hy
      rw [hy']
      simp only [List.mem_cons, Prod.mk.injEq]
      rw [lookup_eq_some_iff_mem ps hnd.2 y v]
      constructor
      · intro h; exact Or.inr h
      · rintro (⟨h, _⟩ | h)
        · exact absurd h hne
        · exact h

theorem lookup_reverse_of_nodup (ps : List (String × Val)) (hnd : (ps.map (·.1)).Nodup) (y : String) :
    ps.reverse.lookup y = ps.lookup y := by
  have hnd' : (ps.reverse.map (·.1)).Nodup := by rw [List.map_reverse]; exact nodup_reverse' hnd
  apply Option.ext
  intro v
  rw [lookup_eq_some_iff_mem _ hnd', lookup_eq_some_iff_mem _ hnd, List.mem_reverse]

theorem set_self_of_getElem? {α} {l : List α} {i : Nat} {a : α} (h : l[i]? = some a) : l.set i a = l := by
  apply List.ext_getElem?
  intro j
  by_cases hj : i = j
  · subst hj; rw [List.getElem?_set_self (lt_of_getElem?_some h), h]
  · rw [List.getElem?_set_ne hj]

theorem withVars_self (rs : Ref.St) (fr : Nat) (fr0 : Ref.Frame) (hfr : rs.frames[fr]? = some fr0) :
    withVars rs fr fr0 fr0.vars = rs := by
  unfold withVars
  rw [show ({ fr0 with vars := fr0.vars } : Ref.Frame) = fr0 from rfl, set_self_of_getElem? hfr]

/-- Binding the pairs in reverse order: same success, same bindings. -/
theorem defineAll_reverse (rs : Ref.St) (fr : Nat) (fr0 : Ref.Frame) (hfr : rs.frames[fr]? = some fr0)
    (ps : List (String × Val)) (hnd : (ps.map (·.1)).Nodup) :
    match defineAll rs fr ps, defineAll rs fr ps.reverse with
    | some a, some b => ∃ va vb, a = withVars rs fr fr0 va ∧ b = withVars rs fr fr0 vb ∧ ∀ y, va.lookup y = vb.lookup y
    | none, none => True
    | _, _ => False := by
  have hnd' : (ps.reverse.map (·.1)).Nodup := by rw [List.map_reverse]; exact nodup_reverse' hnd
  have h1 := defineAll_spec rs fr fr0 hfr ps fr0.vars hnd
  have h2 := defineAll_spec rs fr fr0 hfr ps.reverse fr0.vars hnd'
  rw [withVars_self rs fr fr0 hfr] at h1 h2
  cases ha : defineAll rs fr ps with
  | some a =>
    rw [ha] at h1
    obtain ⟨hall, va, hva, hla⟩ := h1
    cases hb : defineAll rs fr ps.reverse with
    | some b =>
      rw [hb] at h2
      obtain ⟨_, vb, hvb, hlb⟩ := h2
      refine ⟨va, vb, hva, hvb, fun y => ?_⟩
      rw [hla y, hlb y, lookup_reverse_of_nodup ps hnd y]
    | none =>
      rw [hb] at h2
      obtain ⟨p, hp, hbad⟩ := h2
      have := hall p (List.mem_reverse.mp hp)
      rw [hbad] at this; cases this
  | none =>
    rw [ha] at h1
    obtain ⟨p, hp, hbad⟩ := h1
    cases hb : defineAll rs fr ps.reverse with
    | some b =>
      rw [hb] at h2
      have := h2.1 p (List.mem_reverse.mpr hp)
      rw [hbad] at this; cases this
    | none => trivial

/-- the relation does not see the order of the bindings inside a frame -/
theorem RelCore.withVars_congr {s : St} {rs : Ref.St} {fr : Nat} {fr0 : Ref.Frame} {va vb : List (String × Val)} {env : Nat}
    (h : RelCore s (withVars rs fr fr0 vb) env) (hfr : rs.frames[fr]? = some fr0)
    (hl : ∀ y, va.lookup y = vb.lookup y) : RelCore s (withVars rs fr fr0 va) env := by
  have hlt := lt_of_getElem?_some hfr
  refine ⟨?_, ?_, h.nofn, ?_, h.heap, h.trace⟩
  · have := h.len
    simp only [withVars, List.length_set] at this ⊢
    exact this
  · intro i x
    have := h.vars i x
    simp only [withVars, List.getD_eq_getElem?_getD, List.getElem?_set] at this ⊢
    by_cases hi : fr = i
    · subst hi
      simp only [hlt, if_true, Option.getD_some] at this ⊢
      rw [this, hl x]
    · simp only [hi, if_false] at this ⊢
      exact this
  · have hc := h.chain
    have hget : (withVars rs fr fr0 vb).frames[fr]? = some { fr0 with vars := vb } := List.getElem?_set_self hlt
    have := Chain.set_vars hget va hc
    simp only [withVars, List.set_set] at this ⊢
    exact this

theorem Rel.withVars_congr {s : St} {rs : Ref.St} {fr : Nat} {fr0 : Ref.Frame} {va vb : List (String × Val)} {env : Nat}
    (h : Rel s (withVars rs fr fr0 vb) env) (hfr : rs.frames[fr]? = some fr0)
    (hl : ∀ y, va.lookup y = vb.lookup y) : Rel s (withVars rs fr fr0 va) env :=
  ⟨h.toRelCore.withVars_congr hfr hl, h.fnpar, h.fnclo⟩

theorem FramesExt.withVars_congr {rs0 rs : Ref.St} {fr : Nat} {fr0 : Ref.Frame} {va vb : List (String × Val)}
    (h : FramesExt rs0 (withVars rs fr fr0 vb)) : FramesExt rs0 (withVars rs fr fr0 va) := by
  intro i f hf
  obtain ⟨f', hf', hp'⟩ := h i f hf
  simp only [withVars, List.getElem?_set] at hf' ⊢
  by_cases hi : fr = i
  · subst hi
    by_cases hlt : fr < rs.frames.length
    · simp only [hlt, if_true, Option.some.injEq] at hf' ⊢
      subst hf'
      exact ⟨_, rfl, hp'⟩
    · simp only [hlt, if_false] at hf' ⊢
      simp only [if_true] at hf' ⊢
      exact ⟨f', hf', hp'⟩
  · simp only [hi, if_false] at hf' ⊢
    exact ⟨f', hf', hp'⟩

end ZygoVerif.Sim
