/-
C05, the loop-record stack (`env.loopstack`, the fourth depth of the harness vocabulary).
Only the code generator touches it: `GenerateForLoop` pushes the loop record and pops it again
through a `defer`. `genLS_compile`: every `compile…` function of the model generator
(`Model/Gen.lean`, all eight mutually recursive ones, every expression) that SUCCEEDS leaves the
loop stack exactly as it found it. (A failed compilation is discarded as a whole by `runGen`.)
-/
import ZygoVerif.Model.Gen
namespace ZygoVerif.Contain
open ZygoVerif.Core ZygoVerif.VM

theorem grun_pure {α} (a : α) (gs : GS) : (pure a : G α).run gs = .ok (a, gs) := rfl
theorem grun_bind {α β} (m : G α) (f : α → G β) (gs : GS) :
    (m >>= f).run gs = match m.run gs with
      | .ok (a, gs') => (f a).run gs'
      | .error e => .error e := by
  show (StateT.bind m f) gs = _
  simp only [StateT.bind, bind, Except.bind, StateT.run]
  cases m gs with
  | error e => rfl
  | ok p => rfl
theorem grun_get (gs : GS) : (get : G GS).run gs = .ok (gs, gs) := rfl
theorem grun_set (gs gs' : GS) : (set gs' : G Unit).run gs = .ok ((), gs') := rfl
theorem grun_modify (f : GS → GS) (gs : GS) : (modify f : G Unit).run gs = .ok ((), f gs) := rfl
theorem grun_throw {α} (gs : GS) : (throw () : G α).run gs = .error () := rfl

/-- a generator computation that, when it succeeds, leaves the loop stack as it found it -/
def GenLS {α} (g : G α) : Prop := ∀ gs a gs', g.run gs = .ok (a, gs') → gs'.loopstack = gs.loopstack

def GenLSAt {α} (gs : GS) (g : G α) : Prop := ∀ a gs', g.run gs = .ok (a, gs') → gs'.loopstack = gs.loopstack

theorem genLS_pure {α} (a : α) : GenLS (pure a : G α) := by
  intro gs a' gs' h
  rw [grun_pure] at h
  simp only [Except.ok.injEq, Prod.mk.injEq] at h
  rw [← h.2]

theorem genLS_throw {α} : GenLS (throw () : G α) := by
  intro gs a gs' h
  rw [grun_throw] at h
  cases h

theorem genLS_get : GenLS (get : G GS) := by
  intro gs a gs' h
  rw [grun_get] at h
  simp only [Except.ok.injEq, Prod.mk.injEq] at h
  rw [← h.2]

theorem genLS_bind {α β} {m : G α} {f : α → G β} (hm : GenLS m) (hf : ∀ a, GenLS (f a)) : GenLS (m >>= f) := by
  intro gs b gs2 h
  rw [grun_bind] at h
  split at h
  · rename_i a gs1 h1
    exact (hf a gs1 b gs2 h).trans (hm gs a gs1 h1)
  · cases h

theorem genLS_get_bind {β} {f : GS → G β} (hf : ∀ gs, GenLSAt gs (f gs)) : GenLS (get >>= f) := by
  intro gs b gs2 h
  rw [grun_bind, grun_get] at h
  exact hf gs b gs2 h

theorem genLS_allocTemplate (isFn : Nat → Bool) (c : Ctx) (name : String) (ps : List String) (rest : Option String)
    (selfTail : Bool) : GenLS (allocTemplate isFn c name ps rest selfTail) := by
  unfold allocTemplate
  apply genLS_get_bind
  intro gs a gs' h
  simp only [grun_bind, grun_set, grun_pure, Except.ok.injEq, Prod.mk.injEq] at h
  rw [← h.2]

theorem genLS_finishTemplate (t : Nat) (b : List Instr) : GenLS (finishTemplate t b) := by
  unfold finishTemplate
  intro gs a gs' h
  rw [grun_modify] at h
  simp only [Except.ok.injEq, Prod.mk.injEq] at h
  rw [← h.2]

macro "ls_step" : tactic => `(tactic| first
  | split
  | with_reducible (first
    | exact genLS_pure _ | exact genLS_throw | exact genLS_get
    | exact genLS_allocTemplate _ _ _ _ _ _ | exact genLS_finishTemplate _ _
    | assumption
    | refine genLS_bind ?_ (fun _ => ?_)))

syntax "ls_auto" "[" term,* "]" : tactic
macro_rules
  | `(tactic| ls_auto [$hs,*]) => `(tactic| repeat' (first | ls_step $[| with_reducible exact $hs]* | (dsimp only; ls_step)))

mutual
theorem genLS_compile (isFn : Nat → Bool) : ∀ (e : Expr) (c : Ctx), GenLS (compile isFn c e)
  | .int v, c => by unfold compile; exact genLS_pure _
  | .bool b, c => by unfold compile; exact genLS_pure _
  | .str s, c => by unfold compile; exact genLS_pure _
  | .nilLit, c => by unfold compile; exact genLS_pure _
  | .sym x, c => by unfold compile; exact genLS_pure _
  | .arr es, c => by
    unfold compile
    ls_auto [genLS_compileAll isFn es _]
  | .call f args, c => by
    cases f <;> (unfold compile; ls_auto [genLS_compileCallArgs isFn args _ _ _])
  | .begin_ es, c => by
    cases es with
    | nil => unfold compile; exact genLS_pure _
    | cons e es => unfold compile; exact genLS_compileBegin isFn (e :: es) c
  | .def_ x e, c => by unfold compile; ls_auto [genLS_compile isFn e _]
  | .set_ x e, c => by unfold compile; ls_auto [genLS_compile isFn e _]
  | .cond arms d, c => by unfold compile; ls_auto [genLS_compile isFn d _, genLS_compileArms isFn arms _]
  | .and_ es, c => by unfold compile; ls_auto [genLS_compileSC isFn es _]
  | .or_ es, c => by unfold compile; ls_auto [genLS_compileSC isFn es _]
  | .let_ seq bs body, c => by
    unfold compile; ls_auto [genLS_compileBinds isFn bs _ _, genLS_compileBegin isFn body _]
  | .newScope es, c => by unfold compile; ls_auto [genLS_compileNewScope isFn es _ _]
  | .for_ label init test incr body, c => by
    unfold compile
    have hinner : ∀ sub : Ctx, GenLS (do
        let (b, _) ← compileBegin isFn sub body
        let (i, _) ← compile isFn sub init
        let (t, _) ← compile isFn sub test
        let (s, _) ← compile isFn sub incr
        pure (b, i, t, s) : G (List Instr × List Instr × List Instr × List Instr)) := by
      intro sub
      ls_auto [genLS_compileBegin isFn body _, genLS_compile isFn init _, genLS_compile isFn test _,
        genLS_compile isFn incr _]
    apply genLS_get_bind
    intro gs a gsF h
    rw [grun_bind, grun_set] at h
    dsimp only at h
    rw [grun_bind, grun_get] at h
    dsimp only at h
    split at h
    · simp [grun_throw] at h
    · rename_i b i t s gs' hr
      have hl := hinner _ _ _ _ hr
      simp only [grun_bind, grun_set, grun_pure, Except.ok.injEq, Prod.mk.injEq] at h
      rw [← h.2]
      show gs'.loopstack.drop 1 = gs.loopstack
      rw [hl]
      rfl
  | .break_ l, c => by unfold compile; ls_auto []
  | .continue_ l, c => by unfold compile; ls_auto []
  | .fn ps rest body, c => by unfold compile; ls_auto [genLS_compileBegin isFn body _]
  | .defn name ps rest body, c => by unfold compile; ls_auto [genLS_compileBegin isFn body _]
  | .assign l r, c => by unfold compile; ls_auto [genLS_compile isFn l _, genLS_compile isFn r _]
  | .bad _, c => by unfold compile; exact genLS_throw

theorem genLS_compileAll (isFn : Nat → Bool) : ∀ (es : List Expr) (c : Ctx), GenLS (compileAll isFn c es)
  | [], c => by unfold compileAll; exact genLS_pure _
  | e :: es, c => by unfold compileAll; ls_auto [genLS_compile isFn e _, genLS_compileAll isFn es _]

theorem genLS_compileCallArgs (isFn : Nat → Bool) : ∀ (es : List Expr) (c : Ctx) (f : Option FnObj) (i : Nat),
    GenLS (compileCallArgs isFn c f i es)
  | [], c, f, i => by unfold compileCallArgs; exact genLS_pure _
  | e :: es, c, f, i => by
    unfold compileCallArgs; ls_auto [genLS_compile isFn e _, genLS_compileCallArgs isFn es _ _ _]

theorem genLS_compileBegin (isFn : Nat → Bool) : ∀ (es : List Expr) (c : Ctx), GenLS (compileBegin isFn c es)
  | [], c => by unfold compileBegin; exact genLS_pure _
  | [e], c => by unfold compileBegin; exact genLS_compile isFn e c
  | e :: e2 :: es, c => by
    unfold compileBegin; ls_auto [genLS_compile isFn e _, genLS_compileBegin isFn (e2 :: es) _]

theorem genLS_compileArms (isFn : Nat → Bool) : ∀ (arms : List (Expr × Expr)) (c : Ctx), GenLS (compileArms isFn c arms)
  | [], c => by unfold compileArms; exact genLS_pure _
  | (p, b) :: arms, c => by
    unfold compileArms; ls_auto [genLS_compileArms isFn arms _, genLS_compile isFn p _, genLS_compile isFn b _]

theorem genLS_compileSC (isFn : Nat → Bool) : ∀ (es : List Expr) (c : Ctx), GenLS (compileSC isFn c es)
  | [], c => by unfold compileSC; exact genLS_pure _
  | [e], c => by unfold compileSC; ls_auto [genLS_compile isFn e _]
  | e :: e2 :: es, c => by
    unfold compileSC; ls_auto [genLS_compileSC isFn (e2 :: es) _, genLS_compile isFn e _]

theorem genLS_compileBinds (isFn : Nat → Bool) : ∀ (bs : List (String × Expr)) (c : Ctx) (seq : Bool),
    GenLS (compileBinds isFn c seq bs)
  | [], c, seq => by unfold compileBinds; exact genLS_pure _
  | (x, e) :: bs, c, seq => by
    unfold compileBinds; ls_auto [genLS_compile isFn e _, genLS_compileBinds isFn bs _ _]

theorem genLS_compileNewScope (isFn : Nat → Bool) : ∀ (es : List Expr) (c : Ctx) (oldtail : Bool),
    GenLS (compileNewScope isFn c oldtail es)
  | [], c, t => by unfold compileNewScope; exact genLS_pure _
  | [e], c, t => by unfold compileNewScope; exact genLS_compile isFn e _
  | e :: e2 :: es, c, t => by
    unfold compileNewScope; ls_auto [genLS_compile isFn e _, genLS_compileNewScope isFn (e2 :: es) _ _]
end

end ZygoVerif.Contain
