/-
Proofs/RunErr3.lean — texts that end in an error, and texts that cannot panic.

With the three contracts of the VM's mutual block — normal returns (`allSpec'`), errors
(`errSpec`), no host panic (`sSpec`) — at the level of one text served by an interpreter that
satisfies the invariants (`ServedN`: `Served` and `NoNil`):
* `runText_errN`      a text of the grammar that ends in an error leaves the interpreter
                      served, at rest, the three stacks and the set-aside stacks EXACTLY those
                      of entry — no hypothesis;
* `runText_okN`       a text that returns a value leaves it served (and without nil cells);
* `runText_no_panic`  no text of the grammar ends in a host panic.
-/
import ZygoVerif.Proofs.RunErr2
namespace ZygoVerif.RunInv
open ZygoVerif.Core ZygoVerif.VM ZygoVerif.Bal ZygoVerif.Refine ZygoVerif.Sim ZygoVerif.Contain

/-! ## The outer loop -/

/-- the loop over the top-level text does not panic and hands `NoNil` on -/
theorem main_loop_nn (b : Base) (a0 : Act) (ha0 : a0.A = 0) (hbl : b.linear ≠ []) :
    ∀ (n : Nat) (st : CtlState) (s : St), Holds b a0 [] s → NoNil s → Safe (runLoop n st) s
  | 0, st, s, _, _ => by intro r s' hex; rw [runLoop_zero] at hex; cases hex; exact res_timeout
  | n + 1, st, s, hh, hg => by
    intro r s' hex
    rw [runLoop] at hex
    by_cases hns : (s.pc = -1 ∨ s.pc ≥ curSize s)
    · simp only [run_bind, run_get, run_ite, hns, if_true, run_pure] at hex
      cases hex
      exact res_ok _ hg
    · cases hi : (fnOf s s.curfunc).code[s.pc.toNat]? with
      | none =>
        simp only [run_bind, run_get, run_ite, hns, if_false, hi, run_pure] at hex
        cases hex
        exact res_ok _ hg
      | some i =>
        simp only [run_bind, run_get, run_ite, hns, if_false, hi] at hex
        rcases hx : (exec n i).run s with ⟨r1, s1⟩
        simp only [hx, run_set] at hex
        obtain ⟨hw, upper, top, rest, hr, hst⟩ := hh
        obtain ⟨hnp, hg1⟩ := (sSpec n).exec b s top rest i hg hw hr hbl hi r1 s1 hx
        cases r1 with
        | error e =>
          cases e with
          | err => simp only [run_bind, run_restore, run_modify, run_throw] at hex; cases hex; exact res_err
          | panic => exact absurd rfl hnp
          | timeout => simp only [run_throw] at hex; cases hex; exact res_timeout
        | ok u =>
          cases n with
          | zero => simp only [VM.exec, run_throw] at hx; cases hx
          | succ m =>
            have hv : VmStep s s1 := ⟨m, i, hns, hi, hx⟩
            obtain ⟨hh1, _, _⟩ := holds_step_ext (⟨hw, upper, top, rest, hr, hst⟩ : Holds b a0 [] s) hv (by rw [ha0]; exact Nat.zero_le _)
            exact main_loop_nn b a0 ha0 hbl (m + 1) st s1 hh1 (hg1 u rfl) r s' hex

/-- **The loop over the top-level text on the error exit**: there is a fault — a state of the
run that satisfies the invariant, the instruction fetched there, and the state its failing
`exec` left — and the loop's result is that state restored and parked. -/
theorem main_loop_err (b : Base) (a0 : Act) (ha0 : a0.A = 0) (hbl : b.linear ≠ []) :
    ∀ (n : Nat) (st : CtlState) (s s' : St), Holds b a0 [] s → NoNil s → (runLoop n st).run s = (.error .err, s') →
      ∃ s₀ top rest i m s₁, NoNil s₀ ∧ WF s₀ ∧ Running b s₀ top rest ∧ TExt s s₀ ∧ s₀.suspended = s.suspended ∧
        (fnOf s₀ s₀.curfunc).code[s₀.pc.toNat]? = some i ∧ (exec m i).run s₀ = (.error .err, s₁) ∧
        s' = park (restoreSt st s₁)
  | 0, st, s, s', _, _, hex => by rw [runLoop_zero] at hex; cases hex
  | n + 1, st, s, s', hh, hg, hex => by
    rw [runLoop] at hex
    by_cases hns : (s.pc = -1 ∨ s.pc ≥ curSize s)
    · simp only [run_bind, run_get, run_ite, hns, if_true, run_pure] at hex
      cases hex
    · cases hi : (fnOf s s.curfunc).code[s.pc.toNat]? with
      | none =>
        simp only [run_bind, run_get, run_ite, hns, if_false, hi, run_pure] at hex
        cases hex
      | some i =>
        simp only [run_bind, run_get, run_ite, hns, if_false, hi] at hex
        rcases hx : (exec n i).run s with ⟨r, s1⟩
        simp only [hx, run_set] at hex
        cases r with
        | error e =>
          cases e with
          | err =>
            simp only [run_bind, run_restore, run_modify, run_throw] at hex
            obtain ⟨hw, upper, top, rest, hr, _⟩ := hh
            refine ⟨s, top, rest, i, n, s1, hg, hw, hr, TExt.refl _, rfl, hi, hx, ?_⟩
            injection hex with _ h2
            exact h2.symm
          | panic => simp only [run_throw] at hex; cases hex
          | timeout => simp only [run_throw] at hex; cases hex
        | ok u =>
          cases n with
          | zero => simp only [VM.exec, run_throw] at hx; cases hx
          | succ m =>
            have hv : VmStep s s1 := ⟨m, i, hns, hi, hx⟩
            obtain ⟨hh1, he1, hs1⟩ := holds_step_ext hh hv (by rw [ha0]; exact Nat.zero_le _)
            have hg1 : NoNil s1 := by
              obtain ⟨hw, upper, top, rest, hr, _⟩ := hh
              exact ((sSpec (m + 1)).exec b s top rest i hg hw hr hbl hi _ s1 hx).2 u rfl
            obtain ⟨s₀, top, rest, i', m', s₁, q0, q1, q2, q3, q4, q5, q6, q7⟩ := main_loop_err b a0 ha0 hbl (m + 1) st s1 s' hh1 hg1 hex
            exact ⟨s₀, top, rest, i', m', s₁, q0, q1, q2, he1.trans q3, q4.trans hs1, q5, q6, q7⟩

/-- **`Run` on a loaded text that ends in an error**: the interpreter is back at rest — the three
stacks EXACTLY those of entry — with the table invariant and the facts about `mainfunc`. The
loop's fault (`main_loop_err`) is `FaultOK` by the error-path contract (`errSpec`). -/
theorem run_loaded_err {s1 : St} (code : List Instr) (as : List AState) (N fuel : Nat) (s' : St)
    (hg : NoNil s1) (hw : WF s1) (hd : s1.data = []) (ha : s1.addr = []) (hsu : s1.suspended = [])
    (hu : (fnOf s1 mainFn).user = false) (hold : AllOK (szS s1) (fnOf s1 mainFn).code)
    (hoids : idsIn (fnOf s1 mainFn).code 0 N) (hids : idsIn code N s1.loops.length) (hN : N ≤ s1.loops.length)
    (hpc : s1.pc = ((fnOf s1 mainFn).code.length : Int)) (hcode : AllOK (szS s1) code)
    (hfrag : FragOK mainEnv (B s1.loops code) as) (h0 : as[0]? = some restState)
    (hex : (run fuel).run (loaded s1 code) = (.error .err, s')) :
    WF s' ∧ MainOK s' ∧ s'.data = [] ∧ s'.linear = s1.linear ∧ s'.addr = [] ∧ s'.loopstack = [] ∧
        s'.curfunc = mainFn ∧ s'.suspended = [] ∧ LzOK s' := by
  obtain ⟨b, a0, hbm, hA, hbl, hh⟩ := loaded_running code as N hw hd ha hu hold hoids hids hN hpc hcode hfrag h0
  obtain ⟨s2, hs2⟩ : ∃ s2, s2 = loaded s1 code := ⟨_, rfl⟩
  rw [← hs2] at hex hh
  have hw2 := hh.1
  have hmain : fnOf s2 mainFn = { (fnOf s1 mainFn) with code := (fnOf s1 mainFn).code ++ code } := by
    rw [hs2]; exact loaded_main s1 code hw.two
  have hsz : szS s2 = szS s1 := by rw [hs2]; simp only [szS, loaded_len]; rfl
  have hloops : s2.loops = s1.loops := by rw [hs2]; rfl
  have hcodeM : (fnOf s2 mainFn).code = (fnOf s1 mainFn).code ++ code := by rw [hmain]
  have hidsM : idsIn ((fnOf s1 mainFn).code ++ code) 0 s1.loops.length := idsIn_app hoids hids (Nat.zero_le _) hN
  cases fuel with
  | zero => simp only [VM.run, run_throw] at hex; cases hex
  | succ n =>
    rw [run_succ_eq] at hex
    simp only [run_bind, run_capture] at hex
    rcases hl : (runLoop n (captureOf s2)).run s2 with ⟨r, s3⟩
    rw [hl] at hex
    cases r with
    | ok u => exact absurd hex (runTail_not_err s3 s')
    | error flt =>
      dsimp only at hex
      injection hex with h1 h2
      subst h2
      injection h1 with h1
      subst h1
      have hbne : b.linear ≠ [] := by rw [hbl]; exact hg.lin
      have hg2 : NoNil s2 := by rw [hs2]; exact hg.same rfl rfl rfl rfl rfl
      obtain ⟨s₀, top, rest, i, m, s₁, q0, q1, q2, q3, q4, q5, q6, rfl⟩ := main_loop_err b a0 hA hbne n _ s2 s3 hh hg2 hl
      have hf : FaultOK b s₀ s₁ := (errSpec m).exec b s₀ s₁ top rest i q0 q1 q2 q5 q6
      have hsus2 : s2.suspended = [] := by rw [hs2]; exact hsu
      have hsus1 : s₁.suspended = [] := by rw [hf.susp, q4, hsus2]
      have hext : Extends s2 s₁ := by
        refine ⟨by rw [show s2.data = [] by rw [hs2]; exact hd]; exact List.nil_suffix, ?_,
          by rw [show s2.addr = [] by rw [hs2]; exact ha]; exact List.nil_suffix, by rw [hsus2]; exact List.nil_suffix⟩
        have : linAt (captureOf s2) s₁ = s₁.linear := by
          unfold linAt; rw [hsus1]; simp
        rw [this, show s2.linear = b.linear by rw [hbl, hs2]; rfl]
        exact hf.lin
      have hre := restore_exact_vm s2 s₁ hext
      have he2 : TExt s2 s₁ := q3.trans hf.ext
      have hidx : mainFn < s2.fns.length := by have := hw2.two; show 0 < s2.fns.length; omega
      have hfo : fnOf s₁ mainFn = fnOf s2 mainFn := he2.fnOf mainFn hidx
      obtain ⟨sx, hsx0⟩ : ∃ sx : St, sx = park (restoreSt (captureOf s2) s₁) := ⟨_, rfl⟩
      rw [← hsx0]
      have hsx := hsx0
      rw [hre] at hsx
      have e1 : sx.fns = s₁.fns := by rw [hsx]; rfl
      have e2 : sx.loops = s₁.loops := by rw [hsx]; rfl
      have e3 : sx.curfunc = mainFn := by rw [hsx, hs2]; rfl
      have hfx : fnOf sx mainFn = fnOf s2 mainFn := by
        rw [← hfo]; simp only [VM.fnOf, e1]
      have hux : (fnOf sx mainFn).user = false := by rw [hfx, hmain]; exact hu
      have hwx : WF sx := by
        have he' : TExt { s₁ with data := [] } sx := TExt.same e1 e2
        refine hf.tab.mk' he' (fun id h1 h2 => ?_) ?_ ?_ ?_ ?_ ?_
        · have : sx.fns.length = s₁.fns.length := by rw [e1]
          have : ({ s₁ with data := [] } : St).fns.length = s₁.fns.length := rfl
          omega
        · rw [hsx]; exact hf.tab.loopstack
        · rw [hsx]; exact hf.tab.scopes
        · rw [hsx]; exact hf.tab.heap
        · rw [hsx]; exact hf.tab.lazies
        · rw [hsx]; show ∀ c ∈ s2.data, _; rw [hs2]; show ∀ c ∈ s1.data, _; rw [hd]; intro c hc; cases hc
      refine ⟨hwx, ⟨hux, ?_, ?_, ?_⟩, by rw [hsx, hs2]; exact hd, by rw [hsx, hs2]; rfl, by rw [hsx, hs2]; exact ha,
        hwx.loopstack, e3, by rw [hsx]; exact hsus2, hf.lz.same (by rw [hsx]; rfl)⟩
      · rw [hfx, hcodeM]
        have : (szS s1).le (szS sx) := by
          have := he2.sz
          rw [hsz] at this
          exact ⟨Nat.le_trans this.1 (by show s₁.loops.length ≤ sx.loops.length; rw [e2]; exact Nat.le_refl _),
            Nat.le_trans this.2 (by show s₁.fns.length ≤ sx.fns.length; rw [e1]; exact Nat.le_refl _)⟩
        exact (AllOK.append hold hcode).mono this
      · rw [hfx, hcodeM]
        refine idsIn_mono hidsM (Nat.le_refl _) ?_
        rw [e2, ← hloops]; exact he2.loops_len
      · have hcs : curSize sx = ((fnOf sx mainFn).code.length : Int) := by simp [curSize, e3, hux]
        rw [← hcs, hsx]; rfl

/-! ## One text -/

/-- the interpreter between texts: `Served`, and no nil cell on any stack -/
structure ServedN (s : St) : Prop where
  served : Served s
  nonil : NoNil s

/-- `Run` on a loaded text does not panic and hands `NoNil` on -/
theorem run_loaded_safe {s1 : St} (code : List Instr) (as : List AState) (N fuel : Nat)
    (hg : NoNil s1) (hw : WF s1) (hd : s1.data = []) (ha : s1.addr = [])
    (hu : (fnOf s1 mainFn).user = false) (hold : AllOK (szS s1) (fnOf s1 mainFn).code)
    (hoids : idsIn (fnOf s1 mainFn).code 0 N) (hids : idsIn code N s1.loops.length) (hN : N ≤ s1.loops.length)
    (hpc : s1.pc = ((fnOf s1 mainFn).code.length : Int)) (hcode : AllOK (szS s1) code)
    (hfrag : FragOK mainEnv (B s1.loops code) as) (h0 : as[0]? = some restState) :
    Safe (run fuel) (loaded s1 code) := by
  obtain ⟨b, a0, hbm, hA, hbl, hh⟩ := loaded_running code as N hw hd ha hu hold hoids hids hN hpc hcode hfrag h0
  have hbne : b.linear ≠ [] := by rw [hbl]; exact hg.lin
  have hg2 : NoNil (loaded s1 code) := hg.same rfl rfl rfl rfl rfl
  cases fuel with
  | zero => intro r s' h; simp only [VM.run, run_throw] at h; cases h; exact res_timeout
  | succ n =>
    rw [run_succ_eq]
    refine Safe.bind (fun r s' h => by rw [run_capture] at h; cases h; exact res_ok _ hg2) (fun st s1' h1 _ => ?_)
    rw [run_capture] at h1
    cases h1
    exact Safe.bind (main_loop_nn b a0 hA hbne n _ _ hh hg2) (fun _ s2 _ hg2' => runTail_safe s2 hg2')

/-- what `runText` does with a text of the grammar from a served state: load, then `Run` on the
loaded state — with everything the theorems about that `Run` need -/
theorem runText_split (fuel : Nat) (es : List Expr) (s : St) (hs : ServedN s) (hok : okLs es = true) :
    (∃ o, runText fuel es s = (Outcome.done "cerr" "-" [] o, (runText fuel es s).2.1, true)) ∨
    ∃ s1 code as N, runText fuel es s = finishRun ((run fuel).run (loaded s1 code)) ∧
      NoNil s1 ∧ WF s1 ∧ s1.data = [] ∧ s1.addr = [] ∧ s1.suspended = [] ∧ s1.linear = s.linear ∧
      (fnOf s1 mainFn).user = false ∧ AllOK (szS s1) (fnOf s1 mainFn).code ∧
      idsIn (fnOf s1 mainFn).code 0 N ∧ idsIn code N s1.loops.length ∧ N ≤ s1.loops.length ∧
      s1.pc = ((fnOf s1 mainFn).code.length : Int) ∧ AllOK (szS s1) code ∧
      FragOK mainEnv (B s1.loops code) as ∧ as[0]? = some restState ∧
      (∃ τ, as[code.length]? = some τ ∧ τ.k = 0 ∧ τ.frames = [] ∧ τ.base ≤ 1) := by
  obtain ⟨⟨hw, hm, ⟨hd, hl, ha, hls, hcf, hpc⟩, hsusp⟩, hg⟩ := hs
  obtain ⟨s0, hs0⟩ : ∃ s0 : St, s0 = { s with trace := [] } := ⟨_, rfl⟩
  have hw0 : WF s0 := by
    rw [hs0]
    exact hw.mk' (TExt.same rfl rfl) (fun id h1 h2 => absurd h2 (Nat.not_lt.mpr h1)) hw.loopstack hw.scopes hw.heap hw.lazies hw.data
  rcases hload : (runGen (compileBegin (isFnScope s0) {} es)).run s0 with ⟨r, s1⟩
  cases r with
  | error e =>
    left
    unfold runText
    rw [← hs0]
    simp only [hload]
    exact ⟨_, rfl⟩
  | ok ct =>
    right
    obtain ⟨code, t⟩ := ct
    rw [hs0] at hload
    have hrt := runText_loaded fuel es s s1 code t hpc hload
    rw [← hs0] at hload
    obtain ⟨hw1, he1, d1, l1, a1, c1, p1, _, hcode, hids, as, τ, hfrag, h0, hτ, hk, hfr, hb⟩ := load_ok (isFnScope s0) es code t hw0 hok hload
    have hidx : mainFn < s0.fns.length := by have := hw0.two; show 0 < s0.fns.length; omega
    have hfo : fnOf s1 mainFn = fnOf s mainFn := by rw [he1.fnOf mainFn hidx, hs0]; rfl
    have hsz : (szS s).le (szS s1) := by have := he1.sz; rw [hs0] at this; exact this
    have hsu1 : s1.suspended = [] := by rw [load_susp _ _ hload, hs0]; exact hsusp
    have hg1 : NoNil s1 := by
      have hlz : s1.lazies = s.lazies := by
        rw [run_runGen] at hload
        split at hload
        · cases hload; rw [hs0]; rfl
        · cases hload
      exact hg.same (by rw [d1, hs0]) (by rw [l1, hs0]) (by rw [a1, hs0]) (by rw [hsu1, hsusp]) hlz
    exact ⟨s1, code, as, s0.loops.length, hrt, hg1, hw1, by rw [d1, hs0]; exact hd, by rw [a1, hs0]; exact ha, hsu1,
      by rw [l1, hs0], by rw [hfo]; exact hm.user, by rw [hfo]; exact hm.code.mono hsz, by rw [hfo, hs0]; exact hm.ids, hids,
      he1.loops_len, by rw [p1, hfo, hs0]; exact hm.pc, hcode, hfrag, h0, τ, hτ, hk, hfr, hb⟩

theorem served_of_parts {s s' : St} (hs : Served s) (l1 : s'.linear = s.linear)
    (r1 : WF s') (r2 : MainOK s') (r3 : s'.data = []) (r5 : s'.addr = []) (r6 : s'.loopstack = []) (r7 : s'.curfunc = mainFn)
    (r8 : s'.suspended = []) : Served s' := by
  refine ⟨r1, r2, ⟨r3, by rw [l1]; exact hs.rest.2.1, r5, r6, r7, ?_⟩, r8⟩
  have hcs : curSize s' = ((fnOf s' mainFn).code.length : Int) := by
    simp [curSize, r7, r2.user]
  rw [hcs, r2.pc]
  exact Int.le_refl _

/-- **No text of the grammar ends in a host panic**, and one that returns a value leaves no
nil cell. -/
theorem runText_nn (fuel : Nat) (es : List Expr) (s : St) (hs : ServedN s) (hok : okLs es = true) :
    (∀ v tr d s' alive, runText fuel es s ≠ (Outcome.done "panic" v tr d, s', alive)) ∧
    (∀ v tr d s' alive, runText fuel es s = (Outcome.done "ok" v tr d, s', alive) → NoNil s') := by
  rcases runText_split fuel es s hs hok with ⟨o, hc⟩ | ⟨s1, code, as, N, hrt, hg1, hw1, d1, a1, su1, l1, hu, hold, hoids, hids, hN, hpc, hcode, hfrag, h0, _⟩
  · refine ⟨fun v tr d s' alive h => ?_, fun v tr d s' alive h => ?_⟩
    · rw [hc] at h; have := congrArg (fun x => x.1) h; simp at this
    · rw [hc] at h; have := congrArg (fun x => x.1) h; simp at this
  · have hsafe := run_loaded_safe code as N fuel hg1 hw1 d1 a1 hu hold hoids hids hN hpc hcode hfrag h0
    rcases hr : (run fuel).run (loaded s1 code) with ⟨r, s3⟩
    obtain ⟨hnp, hgok⟩ := hsafe r s3 hr
    rw [hrt, hr]
    refine ⟨fun v tr d s' alive h => ?_, fun v tr d s' alive h => ?_⟩
    · cases r with
      | ok val => simp only [finishRun] at h; have := congrArg (fun x => x.1) h; simp at this
      | error e =>
        cases e with
        | err => simp only [finishRun] at h; have := congrArg (fun x => x.1) h; simp at this
        | panic => exact absurd rfl hnp
        | timeout => simp only [finishRun] at h; have := congrArg (fun x => x.1) h; simp at this
    · cases r with
      | ok val => simp only [finishRun] at h; cases h; exact hgok val rfl
      | error e =>
        cases e <;> (simp only [finishRun] at h; have := congrArg (fun x => x.1) h; simp at this)

/-- a text that returns a value leaves the interpreter `ServedN` -/
theorem runText_okN (fuel : Nat) (es : List Expr) (s s' : St) (v : String) (tr : List String) (d : String) (alive : Bool)
    (hs : ServedN s) (hok : okLs es = true) (h : runText fuel es s = (Outcome.done "ok" v tr d, s', alive)) : ServedN s' :=
  ⟨runText_ok fuel es s s' v tr d alive hs.served hok h, (runText_nn fuel es s hs hok).2 v tr d s' alive h⟩

/-- **A text of the grammar that ends in an error leaves the interpreter served, at rest, the
three stacks and the set-aside stacks exactly those of entry.** No hypothesis. -/
theorem runText_errN (fuel : Nat) (es : List Expr) (s s' : St) (v : String) (tr : List String) (d : String) (alive : Bool)
    (hs : ServedN s) (hok : okLs es = true) (h : runText fuel es s = (Outcome.done "err" v tr d, s', alive)) : ServedN s' := by
  rcases runText_split fuel es s hs hok with ⟨o, hc⟩ | ⟨s1, code, as, N, hrt, hg1, hw1, d1, a1, su1, l1, hu, hold, hoids, hids, hN, hpc, hcode, hfrag, h0, _⟩
  · rw [hc] at h; have := congrArg (fun x => x.1) h; simp at this
  · rcases hr : (run fuel).run (loaded s1 code) with ⟨r, s3⟩
    rw [hrt, hr] at h
    have hcls : r = .error .err ∧ s3 = s' := by
      cases r with
      | ok val => simp only [finishRun] at h; have := congrArg (fun x => x.1) h; simp at this
      | error e =>
        cases e with
        | err => simp only [finishRun] at h; cases h; exact ⟨rfl, rfl⟩
        | panic => simp only [finishRun] at h; have := congrArg (fun x => x.1) h; simp at this
        | timeout => simp only [finishRun] at h; have := congrArg (fun x => x.1) h; simp at this
    obtain ⟨rfl, rfl⟩ := hcls
    obtain ⟨r1, r2, r3, r4, r5, r6, r7, r8, r9⟩ := run_loaded_err code as N fuel s3 hg1 hw1 d1 a1 su1 hu hold hoids hids hN hpc hcode hfrag h0 hr
    have hsv : Served s3 := served_of_parts hs.served (r4.trans l1) r1 r2 r3 r5 r6 r7 r8
    refine ⟨hsv, ⟨?_, ?_, ?_, ?_, r9.1⟩, ?_, r9.2⟩
    · rw [r3]; exact VMSafe.allSome_nil
    · rw [r4, l1]; exact hs.nonil.good.linear
    · rw [r5]; exact VMSafe.allSome_nil
    · rw [r8]; intro l hl; cases hl
    · rw [r4, l1]; exact hs.nonil.lin

end ZygoVerif.RunInv
