/-
Lazy lexing = eager lexing. The parser asks the lexer for runes only when it needs another
token (`runA` on a view ⟨lexer core, runes not yet read, expressions⟩). When the whole
remaining text is lexed without an error, every parser program gives the same result on the
view in which all of it has been lexed already: programs only look at the queue through
instructions that first wait for the tokens they look at (Model/Parser `Prog`), and the lexer
never reads its own queue (Proofs/LexTokens).
-/
import ZygoVerif.Proofs.ParseChunks
import ZygoVerif.Proofs.LexTokens
namespace ZygoVerif.Parser
open ZygoVerif.Lexer

/-- `ve` is `vl` with the rest of the text already lexed -/
structure Ahead (vl ve : View) : Prop where
  fed : feed (.ok vl.core) vl.runes = .ok ve.core
  done : ve.runes = []
  exprs : ve.exprs = vl.exprs
  fin : ve.fin = vl.fin

theorem feed_tokens_append (c cf : LexCore) (rs : List Char) (h : feed (.ok c) rs = .ok cf) :
    ∃ new, cf.tokens = c.tokens ++ new := by
  have hp := feed_pre c.tokens (.ok { c with tokens := [] }) rs
  have hc : (Outcome.ok { c with tokens := [] } : Outcome LexCore).pre c.tokens = .ok c := by
    simp [Outcome.pre, pre]
  rw [hc, h] at hp
  cases hf : feed (.ok { c with tokens := [] }) rs with
  | ok c0 =>
    rw [hf] at hp
    simp only [Outcome.pre, Outcome.ok.injEq] at hp
    exact ⟨c0.tokens, by rw [hp]; rfl⟩
  | err e c0 => rw [hf] at hp; simp [Outcome.pre] at hp

theorem step_ok_of_feed (c cf : LexCore) (r : Char) (rs : List Char) (h : feed (.ok c) (r :: rs) = .ok cf) :
    ∃ c', step c r = .ok c' ∧ feed (.ok c') rs = .ok cf := by
  rw [feed_ok_cons] at h
  cases hs : step c r with
  | ok c' => exact ⟨c', rfl, by rw [hs] at h; exact h⟩
  | err e c' => rw [hs, feed_err] at h; cases h

theorem headIf_append (n : Nat) (c cf : LexCore) (new : List Token) (t : Token)
    (ht : cf.tokens = c.tokens ++ new) (h : headIf n c = some t) : headIf n cf = some t := by
  unfold headIf at h ⊢
  split at h
  · rename_i hlt
    have : n < cf.tokens.length := by rw [ht, List.length_append]; omega
    rw [if_pos this, ht]
    cases hc : c.tokens with
    | nil => rw [hc] at hlt; simp at hlt
    | cons a b => rw [hc] at h; simpa using h
  · cases h

/-- the two ways of waiting for `n+1` tokens agree -/
theorem peekWait_ahead (b : Bool) (n : Nat) (ex : List Sexp) (fin : Bool) (rs : List Char) (c cf : LexCore)
    (h : feed (.ok c) rs = .ok cf) :
    (∃ t c1 rs1, peekWaitA b n ex fin rs c = .tok t ⟨c1, rs1, ex, fin⟩ ∧ peekWaitA b n ex fin [] cf = .tok t ⟨cf, [], ex, fin⟩ ∧
        feed (.ok c1) rs1 = .ok cf ∧ (b = false → n < c1.tokens.length)) ∨
    (peekWaitA b n ex fin rs c = .stop .more ⟨cf, [], ex, fin⟩ ∧ peekWaitA b n ex fin [] cf = .stop .more ⟨cf, [], ex, fin⟩) := by
  induction rs generalizing c with
  | nil =>
    have hc : c = cf := by simpa [feed_nil] using h
    subst hc
    cases hh : headIf n c with
    | some t =>
      left
      refine ⟨t, c, [], by simp [peekWaitA, hh], by simp [peekWaitA, hh], rfl, fun _ => ?_⟩
      unfold headIf at hh; split at hh
      · assumption
      · cases hh
    | none =>
      cases hbf : (b && fin) with
      | true =>
        left
        exact ⟨Token.endTk, c, [], by simp [peekWaitA, hh, hbf], by simp [peekWaitA, hh, hbf], rfl,
          fun hb => by simp [hb] at hbf⟩
      | false => right; simp [peekWaitA, hh, hbf]
  | cons r rs ih =>
    cases hh : headIf n c with
    | some t =>
      left
      obtain ⟨new, hnew⟩ := feed_tokens_append c cf (r :: rs) h
      have hcf := headIf_append n c cf new t hnew hh
      refine ⟨t, c, r :: rs, by simp [peekWaitA, hh], by simp [peekWaitA, hcf], h, fun _ => ?_⟩
      unfold headIf at hh; split at hh
      · assumption
      · cases hh
    | none =>
      obtain ⟨c', hs, hf⟩ := step_ok_of_feed c cf r rs h
      have := ih c' hf
      simpa [peekWaitA, hh, hs] using this

theorem topGet_ahead (ex : List Sexp) (fin : Bool) (rs : List Char) (c cf : LexCore)
    (h : feed (.ok c) rs = .ok cf) :
    (∃ t c1 rs1, topGetA ex fin rs c = .tok t ⟨c1, rs1, ex, fin⟩ ∧
        topGetA ex fin [] cf = .tok t ⟨{ cf with tokens := cf.tokens.tail }, [], ex, fin⟩ ∧
        feed (.ok c1) rs1 = .ok { cf with tokens := cf.tokens.tail }) ∨
    (∃ st, topGetA ex fin rs c = .finished st ⟨cf, [], ex, fin⟩ ∧ topGetA ex fin [] cf = .finished st ⟨cf, [], ex, fin⟩) := by
  induction rs generalizing c with
  | nil =>
    have hc : c = cf := by simpa [feed_nil] using h
    subst hc
    cases htk : c.tokens with
    | cons t ts =>
      left
      refine ⟨t, { c with tokens := ts }, [], by simp [topGetA, htk], by simp [topGetA, htk], ?_⟩
      simp [feed_nil, htk]
    | nil => right; exact ⟨if inLiteral c then .more else .done, by simp [topGetA, htk], by simp [topGetA, htk]⟩
  | cons r rs ih =>
    cases htk : c.tokens with
    | cons t ts =>
      left
      -- c = pre [t] c0 with c0 = c minus its first token
      have hc : c = pre [t] { c with tokens := ts } := by simp [pre, htk.symm]
      have hp := feed_pre [t] (.ok { c with tokens := ts }) (r :: rs)
      have hc' : (Outcome.ok { c with tokens := ts } : Outcome LexCore).pre [t] = .ok c := by
        simp only [Outcome.pre]; rw [← hc]
      rw [hc', h] at hp
      cases hf : feed (.ok { c with tokens := ts }) (r :: rs) with
      | ok c0 =>
        rw [hf] at hp
        simp only [Outcome.pre, Outcome.ok.injEq] at hp
        have htail : ({ cf with tokens := cf.tokens.tail } : LexCore) = c0 := by rw [hp]; simp [pre]
        have hhead : cf.tokens = t :: c0.tokens := by rw [hp]; rfl
        refine ⟨t, { c with tokens := ts }, r :: rs, by simp [topGetA, htk], ?_, by rw [htail]; exact hf⟩
        simp [topGetA, hhead]
      | err e c0 => rw [hf] at hp; simp [Outcome.pre] at hp
    | nil =>
      obtain ⟨c', hs, hf⟩ := step_ok_of_feed c cf r rs h
      have := ih c' hf
      simpa [topGetA, htk, hs] using this

/-- **lazy = eager**, for every parser program -/
theorem runA_ahead {α : Type} (p : Prog α) (vl ve : View) (hR : Ahead vl ve) :
    (runA p vl).1 = (runA p ve).1 ∧ (runA p vl).2.exprs = (runA p ve).2.exprs := by
  induction p generalizing vl ve with
  | pure a => exact ⟨rfl, hR.exprs.symm⟩
  | fail => exact ⟨rfl, hR.exprs.symm⟩
  | waitPeek n k ih =>
    obtain ⟨cl, rl, exl, fl⟩ := vl
    obtain ⟨ce, re, exe, fe⟩ := ve
    obtain ⟨hfed, hdone, hex, hfin⟩ := hR
    simp only at hfed hdone hex hfin
    subst hdone hex hfin
    simp only [runA]
    rcases peekWait_ahead false n exe fe rl cl ce hfed with ⟨t, c1, rs1, h1, h2, h3, _⟩ | ⟨h1, h2⟩
    · rw [h1, h2]
      exact ih t ⟨c1, rs1, exe, fe⟩ ⟨ce, [], exe, fe⟩ ⟨h3, rfl, rfl, rfl⟩
    · rw [h1, h2]
      exact ⟨rfl, rfl⟩
  | signPeek k ih =>
    obtain ⟨cl, rl, exl, fl⟩ := vl
    obtain ⟨ce, re, exe, fe⟩ := ve
    obtain ⟨hfed, hdone, hex, hfin⟩ := hR
    simp only at hfed hdone hex hfin
    subst hdone hex hfin
    simp only [runA]
    rcases peekWait_ahead true 0 exe fe rl cl ce hfed with ⟨t, c1, rs1, h1, h2, h3, _⟩ | ⟨h1, h2⟩
    · rw [h1, h2]
      exact ih t ⟨c1, rs1, exe, fe⟩ ⟨ce, [], exe, fe⟩ ⟨h3, rfl, rfl, rfl⟩
    · rw [h1, h2]
      exact ⟨rfl, rfl⟩
  | peekAt n k ih =>
    obtain ⟨cl, rl, exl, fl⟩ := vl
    obtain ⟨ce, re, exe, fe⟩ := ve
    obtain ⟨hfed, hdone, hex, hfin⟩ := hR
    simp only at hfed hdone hex hfin
    subst hdone hex hfin
    simp only [runA]
    rcases peekWait_ahead false n exe fe rl cl ce hfed with ⟨t, c1, rs1, h1, h2, h3, hlen⟩ | ⟨h1, h2⟩
    · rw [h1, h2]
      obtain ⟨new, hnew⟩ := feed_tokens_append c1 ce rs1 h3
      have hq : ce.tokens[n]? = c1.tokens[n]? := by
        rw [hnew, List.getElem?_append_left (hlen rfl)]
      simp only [hq]
      cases hc : c1.tokens[n]? with
      | some t' => exact ih t' ⟨c1, rs1, exe, fe⟩ ⟨ce, [], exe, fe⟩ ⟨h3, rfl, rfl, rfl⟩
      | none => exact ⟨rfl, rfl⟩
    · rw [h1, h2]
      exact ⟨rfl, rfl⟩
  | getTok k ih =>
    obtain ⟨cl, rl, exl, fl⟩ := vl
    obtain ⟨ce, re, exe, fe⟩ := ve
    obtain ⟨hfed, hdone, hex, hfin⟩ := hR
    simp only at hfed hdone hex hfin
    subst hdone hex hfin
    simp only [runA]
    rcases peekWait_ahead false 0 exe fe rl cl ce hfed with ⟨t, c1, rs1, h1, h2, h3, hlen⟩ | ⟨h1, h2⟩
    · rw [h1, h2]
      refine ih t _ _ ⟨?_, rfl, rfl, rfl⟩
      simp only
      -- c1 = pre [t0] (c1 without its head)
      cases htk : c1.tokens with
      | nil => have := hlen rfl; rw [htk] at this; simp at this
      | cons t0 ts =>
        have hc : c1 = pre [t0] { c1 with tokens := ts } := by simp [pre, htk.symm]
        have hp := feed_pre [t0] (.ok { c1 with tokens := ts }) rs1
        have hc' : (Outcome.ok { c1 with tokens := ts } : Outcome LexCore).pre [t0] = .ok c1 := by
          simp only [Outcome.pre]; rw [← hc]
        rw [hc', h3] at hp
        cases hf : feed (.ok { c1 with tokens := ts }) rs1 with
        | ok c0 =>
          rw [hf] at hp
          simp only [Outcome.pre, Outcome.ok.injEq] at hp
          have htail : ({ ce with tokens := ce.tokens.tail } : LexCore) = c0 := by rw [hp]; simp [pre]
          simp only [List.tail_cons]
          rw [htail]
          exact hf
        | err e c0 => rw [hf] at hp; simp [Outcome.pre] at hp
    · rw [h1, h2]
      exact ⟨rfl, rfl⟩
  | topGet k ih =>
    obtain ⟨cl, rl, exl, fl⟩ := vl
    obtain ⟨ce, re, exe, fe⟩ := ve
    obtain ⟨hfed, hdone, hex, hfin⟩ := hR
    simp only at hfed hdone hex hfin
    subst hdone hex hfin
    simp only [runA]
    rcases topGet_ahead exe fe rl cl ce hfed with ⟨t, c1, rs1, h1, h2, h3⟩ | ⟨st, h1, h2⟩
    · rw [h1, h2]
      exact ih (some t) ⟨c1, rs1, exe, fe⟩ _ ⟨h3, rfl, rfl, rfl⟩
    · rw [h1, h2]
      cases st with
      | done => exact ih none ⟨ce, [], exe, fe⟩ ⟨ce, [], exe, fe⟩ ⟨rfl, rfl, rfl, rfl⟩
      | more => exact ⟨rfl, rfl⟩
      | err => exact ⟨rfl, rfl⟩
  | pushTok t k ih =>
    simp only [runA]
    refine ih _ _ ⟨?_, hR.done, hR.exprs, hR.fin⟩
    have hp := feed_pre [t] (.ok vl.core) vl.runes
    rw [hR.fed] at hp
    simpa [Outcome.pre, pre] using hp
  | pushExpr e k ih =>
    simp only [runA]
    exact ih _ _ ⟨hR.fed, hR.done, by simp [hR.exprs], hR.fin⟩

end ZygoVerif.Parser
